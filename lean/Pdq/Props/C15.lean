import Pdq.Model.Ravel
import Pdq.Model.BatchedWhile
import Pdq.Model.Slices
import Pdq.Model.Iwp
import Pdq.Lemmas.Ravel
import Pdq.Lemmas.PyTree
import Pdq.Lemmas.KronCM
import Pdq.Lemmas.Batched
import Pdq.Props.C02
import Pdq.Props.C03
import Mathlib.Logic.Equiv.Defs
import Mathlib.Tactic.Linarith

/-!
# C15 — Results are invariant under pytree structure, permutation, jit and vmap  (partial by design)

The algebraic half of the property, about the executable definitions of `Pdq.Model.Ravel`,
`Pdq.Model.BatchedWhile`, `Pdq.Model.Solver`, `Pdq.Model.Iwp`, `Pdq.Model.Slices`:

* `ravel_bijections` (§1): the index maps between the three ravel orders are mutually inverse bijections; the
  three `flatten_tree`s hold the same numbers; `unflatten_array ∘ flatten_tree = id`; `to_multivariate_normal`
  composes them to coefficient-major order (`C[i,j]·[a=b]`, `C_a[i,j]·[a=b]`); pytree `ravel`/`unravel` are
  mutually inverse and the dense flattening is the concatenation of the rows the other two stack.
* `perm_equivariance` (§2): for every invertible `T` (state) and `U` (residual) the dense filter step / run on the
  transformed problem is the transformed step / run; backward conditionals, the fixed-point merge and the
  backward pass of the smoothers likewise; the shipped IWP prior commutes with `I ⊗ T` for every permutation
  (scales permuted) and every orthogonal `T` (equal scales); isotropic / block-diagonal: slice permutations.
* `batched_while_eq` (§3): the masked batched loop that `vmap(lax.while_loop)` denotes returns lane by lane the
  result of the un-batched loop, for lanes with different iteration counts; nested loops; `cond` under `vmap`.
* `leading_axis` (§4): `len(save_at)` / `len(grid)` stacked entries, initial solution first.

**Not provable here** (full statement of the property): that JAX's tracer, XLA and the pytree registry
implement these semantics (`jit(f) = f`, `vmap(f)(xs) = [f(x) for x in xs]`, dict keys flattened in sorted order);
that floating-point results are bit-identical across compilation modes (they are not: fusion reorders
operations); NaN leakage from non-selected `cond`/`switch` branches into *derivatives*.  These are exercised on
the real code by `harness/checks/c15.py`.
-/
set_option linter.unusedSectionVars false
set_option linter.unusedSimpArgs false
set_option linter.unusedVariables false
open Matrix

namespace Pdq.C15
open Pdq.Ravel Pdq.Batched

/-! ## §1 ravel_bijections -/
section ravel

/-! the index maps between the block-diagonal `(d, n)` storage, the isotropic `(n, d)` storage and the dense
coefficient-major order map `[0, n·d)` into itself and are mutually inverse -/

theorem bdToDense_lt {n d x : Nat} (h : x < d * n) : bdToDense n d x < n * d := by
  have hn := pos_of_lt_mul_right h
  exact idx_lt (Nat.mod_lt _ hn) (div_lt_of_lt_mul' h)

theorem denseToBd_lt {n d y : Nat} (h : y < n * d) : denseToBd n d y < d * n := by
  have hd := pos_of_lt_mul_right h
  exact idx_lt (Nat.mod_lt _ hd) (div_lt_of_lt_mul' h)

theorem bdToDense_denseToBd {n d y : Nat} (h : y < n * d) : bdToDense n d (denseToBd n d y) = y := by
  have hd := pos_of_lt_mul_right h
  obtain ⟨h1, h2⟩ := divmod_pos (q := y % d) (div_lt_of_lt_mul' h)
  simp only [bdToDense, denseToBd, bdIdx, denseIdx, h1, h2]
  exact Nat.div_add_mod' y d

theorem denseToBd_bdToDense {n d x : Nat} (h : x < d * n) : denseToBd n d (bdToDense n d x) = x := by
  have hn := pos_of_lt_mul_right h
  obtain ⟨h1, h2⟩ := divmod_pos (q := x % n) (div_lt_of_lt_mul' h)
  simp only [bdToDense, denseToBd, bdIdx, denseIdx, h1, h2]
  exact Nat.div_add_mod' x n

theorem denseToIso_eq (d y : Nat) : denseToIso d y = y := Nat.div_add_mod' y d

/-- **ravel_bijections (index maps).** The block-diagonal storage order and the dense coefficient-major order are
related by a bijection of `Fin (n·d)` (both directions are model functions executed by the driver); the isotropic
storage order *is* the coefficient-major order (`denseToIso_eq`). -/
def bdDenseEquiv (n d : Nat) : Fin (d * n) ≃ Fin (n * d) where
  toFun x := ⟨bdToDense n d x.val, bdToDense_lt x.isLt⟩
  invFun y := ⟨denseToBd n d y.val, denseToBd_lt y.isLt⟩
  left_inv x := Fin.ext (denseToBd_bdToDense x.isLt)
  right_inv y := Fin.ext (bdToDense_denseToBd y.isLt)

theorem bdToDense_idx {n d i a : Nat} (hi : i < n) (ha : a < d) : bdToDense n d (bdIdx n i a) = denseIdx d i a := by
  obtain ⟨h1, h2⟩ := divmod_pos (q := a) hi
  simp [bdToDense, bdIdx, h1, h2]

variable {α : Type}

theorem bufFlattenDense_idx (d : Nat) (leaf : Nat → Nat → α) {i a : Nat} (ha : a < d) :
    bufFlattenDense d leaf (denseIdx d i a) = leaf i a := by
  obtain ⟨h1, h2⟩ := divmod_pos (q := i) ha
  simp [bufFlattenDense, denseIdx, h1, h2]

theorem bufFlattenIso_idx (d : Nat) (leaf : Nat → Nat → α) {i a : Nat} (ha : a < d) :
    bufFlattenIso d leaf (isoIdx d i a) = leaf i a := bufFlattenDense_idx d leaf ha

theorem bufFlattenBd_idx (n d : Nat) (leaf : Nat → Nat → α) {i a : Nat} (hi : i < n) (ha : a < d) :
    bufFlattenBd n d leaf (bdIdx n i a) = leaf i a := by
  obtain ⟨h1, h2⟩ := divmod_pos (q := a) hi
  obtain ⟨h3, h4⟩ := divmod_pos (q := i) ha
  simp [bufFlattenBd, transpose2, stackRows, bdIdx, h1, h2, h3, h4]

/-- the three `flatten_tree`s hold the same numbers, related by the index maps -/
theorem flatten_orders_agree (n d : Nat) (leaf : Nat → Nat → α) {x : Nat} (hx : x < d * n) :
    bufFlattenBd n d leaf x = bufFlattenDense d leaf (bdToDense n d x) ∧
    bufFlattenIso d leaf (bdToDense n d x) = bufFlattenDense d leaf (bdToDense n d x) := by
  have hn := pos_of_lt_mul_right hx
  have ha := div_lt_of_lt_mul' hx
  have hi : x % n < n := Nat.mod_lt _ hn
  have hx' : x = bdIdx n (x % n) (x / n) := (Nat.div_add_mod' x n).symm
  refine ⟨?_, rfl⟩
  conv_lhs => rw [hx']
  rw [bufFlattenBd_idx n d leaf hi ha, bdToDense, bufFlattenDense_idx d leaf ha]

/-- `unflatten_array (flatten_tree x) = x` for the three classes (on the level of coefficient rows) -/
theorem unflatten_flatten_dense (d : Nat) (leaf : Nat → Nat → α) {i a : Nat} (ha : a < d) :
    bufUnflattenDense d (bufFlattenDense d leaf) i a = leaf i a := bufFlattenDense_idx d leaf ha
theorem unflatten_flatten_iso (d : Nat) (leaf : Nat → Nat → α) {i a : Nat} (ha : a < d) :
    bufUnflattenIso d (bufFlattenIso d leaf) i a = leaf i a := bufFlattenDense_idx d leaf ha
theorem unflatten_flatten_bd (n d : Nat) (leaf : Nat → Nat → α) {i a : Nat} (hi : i < n) (ha : a < d) :
    bufUnflattenBd n d (bufFlattenBd n d leaf) i a = leaf i a := by
  obtain ⟨h1, h2⟩ := divmod_pos (q := i) ha
  have := bufFlattenBd_idx n d leaf hi ha
  simp only [bufUnflattenBd, transpose2, h1, h2]
  exact this

/-- `to_multivariate_normal` of a block-diagonal state returns the mean in coefficient-major order -/
theorem bdMvnMean_flatten (n d : Nat) (leaf : Nat → Nat → α) {y : Nat} (hy : y < n * d) :
    bdMvnMean n d (bufFlattenBd n d leaf) y = bufFlattenDense d leaf y := by
  have hd := pos_of_lt_mul_right hy
  have hi := div_lt_of_lt_mul' hy
  have ha : y % d < d := Nat.mod_lt _ hd
  have := bufFlattenBd_idx n d leaf hi ha
  simp only [bdMvnMean, transpose2]
  exact this

theorem bdMvnMean_idx (n d : Nat) (mean : Nat → α) {i a : Nat} (ha : a < d) :
    bdMvnMean n d mean (denseIdx d i a) = mean (bdIdx n i a) := by
  obtain ⟨h1, h2⟩ := divmod_pos (q := i) ha
  simp [bdMvnMean, transpose2, denseIdx, bdIdx, h1, h2]

theorem unravel4_idx {n d i a j b : Nat} (ha : a < d) (hj : j < n) (hb : b < d) :
    unravel4 d n d (denseIdx d i a * (n * d) + denseIdx d j b) = (i, a, j, b) := by
  have hz : denseIdx d i a * (n * d) + denseIdx d j b = ((i * d + a) * n + j) * d + b := by
    simp only [denseIdx]; ring
  obtain ⟨h1, h2⟩ := divmod_pos (q := (i * d + a) * n + j) hb
  obtain ⟨h3, h4⟩ := divmod_pos (q := i * d + a) hj
  obtain ⟨h5, h6⟩ := divmod_pos (q := i) ha
  have e1 : (((i * d + a) * n + j) * d + b) / (n * d) = i * d + a := by
    rw [Nat.mul_comm n d, ← Nat.div_div_eq_div_mul, h1, h3]
  have e0 : (((i * d + a) * n + j) * d + b) / (d * n * d) = i := by
    rw [show d * n * d = d * n * d from rfl, Nat.mul_assoc, Nat.mul_comm d (n * d), ← Nat.div_div_eq_div_mul,
      Nat.mul_comm n d, ← Nat.div_div_eq_div_mul, h1, h3, h5]
  simp only [unravel4, hz, e0, e1, h1, h2, h4, h6]

section mvn
variable [Mul α] [Zero α] [One α]

theorem eyeBuf_idx {d a b : Nat} (hb : b < d) : (eyeBuf d (a * d + b) : α) = if a = b then 1 else 0 := by
  obtain ⟨h1, h2⟩ := divmod_pos (q := a) hb
  simp [eyeBuf, h1, h2]

/-- isotropic `to_multivariate_normal`: entry `((i,a),(j,b))` (coefficient-major) is `C[i,j]·[a=b]` -/
theorem isoMvnCov_entry (n d : Nat) (cov : Nat → α) {i a j b : Nat} (ha : a < d) (hj : j < n) (hb : b < d) :
    isoMvnCov n d cov (denseIdx d i a * (n * d) + denseIdx d j b) = cov (i * n + j) * (if a = b then 1 else 0) := by
  simp only [isoMvnCov, einsumIso, unravel4_idx ha hj hb, eyeBuf_idx hb]

/-- block-diagonal `to_multivariate_normal`: entry `((i,a),(j,b))` is `C_a[i,j]·[a=b]` -/
theorem bdMvnCov_entry (n d : Nat) (covs : Nat → α) {i a j b : Nat} (ha : a < d) (hj : j < n) (hb : b < d) :
    bdMvnCov n d covs (denseIdx d i a * (n * d) + denseIdx d j b)
      = covs ((a * n + i) * n + j) * (if a = b then 1 else 0) := by
  simp only [bdMvnCov, einsumBd, unravel4_idx ha hj hb, eyeBuf_idx hb]
end mvn


end ravel

section pytree
variable {α β : Type}
/-- **ravel_bijections (pytrees), one direction.** `ravel(unravel(xs)) = xs` for every list of the right length. -/
theorem ravel_unravel (ex : PyTree β) (hc : ex.isCanonical = true) (xs : List α) (hlen : xs.length = ex.size) :
    (ex.unravel xs).ravel = xs := by
  unfold PyTree.unravel PyTree.ravel
  rw [PyTree.canon_of_canonical ex hc,
    PyTree.canon_of_canonical _ (by rw [PyTree.fill_isCanonical]; exact hc), (PyTree.fill_spec ex xs).1, ← hlen,
    List.take_length]

/-- **ravel_bijections (pytrees), other direction.** `unravel(ravel(t)) = t`. -/
theorem unravel_ravel (t : PyTree α) (hc : t.isCanonical = true) : t.unravel t.ravel = t := by
  unfold PyTree.unravel PyTree.ravel
  rw [PyTree.canon_of_canonical t hc]
  have := PyTree.fill_self t []
  rw [List.append_nil] at this
  rw [this]

/-- `ravel_pytree([M_0,…,M_q]) = concat_i ravel_pytree(M_i)`: the dense flattening is the concatenation of the
rows the isotropic flattening stacks (sequence containers: tuple / list / namedtuple). -/
theorem flattenDense_eq_flattenIso (k : Kind) (hk : k ≠ .dict) (f : PyForest α) :
    (PyTree.node k f).flattenDense = (PyTree.node k f).flattenIso := by
  unfold PyTree.flattenDense PyTree.flattenIso PyTree.rows PyTree.ravel PyTree.coeffs
  cases k with
  | dict => exact absurd rfl hk
  | tuple => simp [PyTree.canon, PyTree.leaves, PyForest.leaves_canon]; rfl
  | named => simp [PyTree.canon, PyTree.leaves, PyForest.leaves_canon]; rfl

section
variable [Inhabited α]
/-- **the three `flatten_tree`s of a coefficient container hold the same numbers**: dense position `i·d+a`,
isotropic `(i,a)`, block-diagonal `(a,i)` all carry element `a` of `ravel_pytree(M_i)`. -/
theorem tree_orders_agree (k : Kind) (hk : k ≠ .dict) (f : PyForest α) (d : Nat)
    (hd : ∀ r ∈ (PyTree.node k f).rows, r.length = d) {i a : Nat}
    (hi : i < (PyTree.node k f).rows.length) (ha : a < d) :
    let t := PyTree.node k f
    t.flattenDense.getD (denseIdx d i a) default = rowsGet t.rows i a ∧
    t.flattenIso.getD (isoIdx d i a) default = rowsGet t.rows i a ∧
    t.flattenBd.getD (bdIdx t.rows.length i a) default = rowsGet t.rows i a := by
  intro t
  have h0 : (t.rows.getD 0 []).length = d := by
    cases hrows : t.rows with
    | nil => rw [hrows] at hi; simp at hi
    | cons r rest => exact hd r (by rw [hrows]; simp)
  refine ⟨?_, ?_, ?_⟩
  · rw [flattenDense_eq_flattenIso k hk f]; exact flatten_getD _ d hd hi ha
  · exact flatten_getD _ d hd hi ha
  · have hlt : bdIdx t.rows.length i a < d * t.rows.length := by
      unfold bdIdx; exact idx_lt ha hi
    simp only [PyTree.flattenBd, h0]
    rw [List.getD_eq_getElem _ _ (by simpa using hlt)]
    simp only [List.getElem_map, List.getElem_range]
    exact bufFlattenBd_idx _ _ _ hi ha
end

end pytree

/-! ## §3 batched_while_eq, §4 leading_axis -/
section batched
variable {σ τ β γ : Type}

/-- **batched_while_eq.** For every fuel, every batch and every (lane-wise) loop: the masked batched iteration
returns, lane by lane, exactly what the un-batched loop returns with the same fuel.  Lanes whose predicate
turns false earlier are carried unchanged while the others keep iterating. -/
theorem batchedWhile_eq_map (cond : σ → Bool) (body : σ → σ) (fuel : Nat) (lanes : List σ) :
    batchedWhile cond body fuel lanes = lanes.map (whileLoop cond body fuel) := by
  induction fuel generalizing lanes with
  | zero => simp [batchedWhile, whileLoop]
  | succ f ih =>
    unfold batchedWhile
    split
    · rw [ih, batchedStep, List.map_map]
      apply List.map_congr_left
      intro s _
      simp only [Function.comp, select, whileLoop]
      split
      · rfl
      · next hc => exact whileLoop_of_not_cond cond body f s (by simpa using hc)
    · next hany =>
      simp only [List.any_eq_true, not_exists, not_and, Bool.not_eq_true] at hany
      symm
      conv_rhs => rw [← List.map_id lanes]
      apply List.map_congr_left
      intro s hs
      simp [whileLoop, hany s hs]

/-- once a lane's loop has terminated, more fuel does not change its result … -/
theorem whileLoop_stable (cond : σ → Bool) (body : σ → σ) (f : Nat) (s : σ)
    (hterm : cond (whileLoop cond body f s) = false) (g : Nat) (hg : f ≤ g) :
    whileLoop cond body g s = whileLoop cond body f s := by
  induction f generalizing s g with
  | zero =>
    simp only [whileLoop] at hterm ⊢
    exact whileLoop_of_not_cond cond body g s hterm
  | succ f ih =>
    obtain ⟨g', rfl⟩ : ∃ g', g = g' + 1 := ⟨g - 1, by omega⟩
    simp only [whileLoop] at hterm ⊢
    split
    · next hc => rw [if_pos hc] at hterm; exact ih (body s) hterm g' (by omega)
    · rfl

/-- **batched_while_eq, lanes with different iteration counts.** If lane `l` terminates within `fuelOf l`
iterations (its own count — arbitrary, e.g. 1× … 10×) and the batched loop is given at least the maximum, every
lane of the batched result equals the result of its own un-batched run. -/
theorem batched_while_eq (cond : σ → Bool) (body : σ → σ) (lanes : List σ) (fuelOf : σ → Nat) (fuel : Nat)
    (hterm : ∀ s ∈ lanes, cond (whileLoop cond body (fuelOf s) s) = false)
    (hfuel : ∀ s ∈ lanes, fuelOf s ≤ fuel) :
    batchedWhile cond body fuel lanes = lanes.map fun s => whileLoop cond body (fuelOf s) s := by
  rw [batchedWhile_eq_map]
  apply List.map_congr_left
  intro s hs
  exact whileLoop_stable cond body (fuelOf s) s (hterm s hs) fuel (hfuel s hs)

/-- … and the result satisfies the exit condition in every lane -/
theorem batched_while_exit (cond : σ → Bool) (body : σ → σ) (lanes : List σ) (fuelOf : σ → Nat) (fuel : Nat)
    (hterm : ∀ s ∈ lanes, cond (whileLoop cond body (fuelOf s) s) = false)
    (hfuel : ∀ s ∈ lanes, fuelOf s ≤ fuel) :
    ∀ s ∈ batchedWhile cond body fuel lanes, cond s = false := by
  rw [batched_while_eq cond body lanes fuelOf fuel hterm hfuel]
  intro s hs
  obtain ⟨s0, h0, rfl⟩ := List.mem_map.mp hs
  exact hterm s0 h0

/-- the general form: any *batched body* that acts lane-wise like `body` (for instance a body containing an inner
batched loop, see `nested_batched_while_eq`) -/
theorem batchedWhileG_eq_map (cond : σ → Bool) (body : σ → σ) (bodyB : List σ → List σ)
    (hB : ∀ lanes, bodyB lanes = lanes.map body) (fuel : Nat) (lanes : List σ) :
    batchedWhileG cond bodyB fuel lanes = lanes.map (whileLoop cond body fuel) := by
  have key : ∀ lanes, List.zipWith (fun s new => select (cond s) new s) lanes (bodyB lanes)
      = batchedStep cond body lanes := by
    intro lanes
    rw [hB, batchedStep]
    induction lanes with
    | nil => rfl
    | cons s rest ih => simp [List.zipWith, ih]
  rw [← batchedWhile_eq_map]
  induction fuel generalizing lanes with
  | zero => rfl
  | succ f ih =>
    unfold batchedWhileG batchedWhile
    split
    · rw [key, ih]
    · rfl

/-- **nested loops** (`advance`'s while-loop around the rejection loop's while-loop): the batched outer loop whose
body runs a batched inner loop equals, lane by lane, the un-batched nested loops. -/
theorem nested_batched_while_eq (c1 c2 : σ → Bool) (pre post b2 : σ → σ) (fuel1 fuel2 : Nat) (lanes : List σ) :
    batchedWhileG c1 (fun ls => (batchedWhile c2 b2 fuel2 (ls.map pre)).map post) fuel1 lanes
      = lanes.map (whileLoop c1 (fun s => post (whileLoop c2 b2 fuel2 (pre s))) fuel1) := by
  apply batchedWhileG_eq_map
  intro ls
  rw [batchedWhile_eq_map, List.map_map, List.map_map]
  rfl

/-- `vmap(lax.cond)`: evaluating both branches on all lanes and selecting equals the lane-wise conditional.
(Values only: a non-finite value produced by the non-selected branch is discarded by `select`; its effect on
*derivatives* is float/runtime behaviour outside the model.) -/
theorem batchedCond_eq_map (p : σ → Bool) (f g : σ → τ) (lanes : List σ) :
    batchedCond p f g lanes = lanes.map (condOp p f g) := by
  unfold batchedCond
  induction lanes with
  | nil => rfl
  | cons s rest ih =>
    simp only [List.map_cons, List.zip_cons_cons, List.zipWith_cons_cons, ih]
    simp [select, condOp]

/-- iteration count of the batched loop = the maximum of the lane counts ("iterate while ANY lane's
predicate holds") -/
theorem batchedIters_eq_max (cond : σ → Bool) (body : σ → σ) (fuel : Nat) (lanes : List σ) :
    batchedIters cond body fuel lanes = (lanes.map (whileIters cond body fuel)).foldr max 0 := by
  induction fuel generalizing lanes with
  | zero =>
    simp only [batchedIters, whileIters]
    induction lanes with
    | nil => rfl
    | cons s rest ih => simp only [List.map_cons, List.foldr_cons, ← ih]; rfl
  | succ f ih =>
    have hG : ∀ s, whileIters cond body (f + 1) s
        = if cond s then whileIters cond body f (select (cond s) (body s) s) + 1 else 0 := by
      intro s; simp only [whileIters, select]; split <;> simp_all
    have hh : ∀ s, cond s = false → whileIters cond body f (select (cond s) (body s) s) = 0 := by
      intro s hs
      simp only [select, hs]
      cases f with
      | zero => rfl
      | succ f' => simp [whileIters, hs]
    have key := foldr_max_step cond (whileIters cond body (f + 1))
      (fun s => whileIters cond body f (select (cond s) (body s) s)) hG hh lanes
    unfold batchedIters
    split
    · next hany => rw [ih, batchedStep, List.map_map, key.1 hany]; rfl
    · next hany => rw [(key.2 (by simpa using hany)).1]

/-! ### leading axis -/

/-- **leading_axis.** `solve_adaptive_save_at` + `userfriendly_output` return exactly `len(save_at)` stacked entries,
the initial solution first (for every `advance`, i.e. whatever happens inside the adaptive loops). -/
theorem leading_axis_save_at (advance : σ → β → σ × γ) (init : σ) (sol0 : γ) (grid : List β) (h : grid ≠ []) :
    (saveAt advance init sol0 grid).length = grid.length ∧ (saveAt advance init sol0 grid).head? = some sol0 := by
  refine ⟨?_, rfl⟩
  cases grid with
  | nil => exact absurd rfl h
  | cons t ts => simp [saveAt, scanL_length]

/-- `solve_fixed_grid`: `len(grid)` entries for `len(grid) - 1` steps -/
theorem leading_axis_fixed_grid (step : σ → β → σ × γ) (init : σ) (sol0 : γ) (dts : List β) :
    (fixedGrid step init sol0 dts).length = dts.length + 1 := by
  simp [fixedGrid, scanL_length]


/-- `evaluate_marginals` / `Smoother.finalize` return one marginal per stored backward conditional plus the
terminal one: `len(grid)` entries for a fixed grid of `len(grid) - 1` steps -/
theorem evalMarginals_length {K : Type} [Field K] {n : Nat} (g : Gauss n K) (bws : List (PCond n n K)) :
    (evalMarginals g bws).length = bws.length + 1 := by
  induction bws generalizing g with
  | nil => rfl
  | cons b rest ih => simp [evalMarginals, ih]

theorem leading_axis_smoother {K : Type} [Field K] {n : Nat} (s : Strategy) (scale : K)
    (states : List (SolState n K)) (last : SolState n K) :
    (solveFixedGridSmoothed s scale states last).length = states.length + 1 := by
  simp [solveFixedGridSmoothed, smootherFinalize, evalMarginals_length]

end batched

/-! ## §2 perm_equivariance -/
section equivariance
variable {K : Type} [Field K] {k n : Nat}

/-! ## perm_equivariance -/

/-- the transformed filtering state `(T m, T P Tᵀ)` -/
def tfEkf (T : Matrix (Fin n) (Fin n) K) (s : C02.Ekf n K) : C02.Ekf n K :=
  { m := T *ᵥ s.m, P := T * s.P * Tᵀ }

/-- the transformed observation model: state coordinates by `T`, residual coordinates by `U` -/
def tfLin (Ti : Matrix (Fin n) (Fin n) K) (U : Matrix (Fin k) (Fin k) K)
    (lin : (Fin n → K) → Matrix (Fin k) (Fin n) K × (Fin k → K) × Matrix (Fin k) (Fin k) K) :
    (Fin n → K) → Matrix (Fin k) (Fin n) K × (Fin k → K) × Matrix (Fin k) (Fin k) K :=
  fun x => ((U * (lin (Ti *ᵥ x)).1 * Ti), (U *ᵥ (lin (Ti *ᵥ x)).2.1), (U * (lin (Ti *ᵥ x)).2.2 * Uᵀ))

/-- **perm_equivariance, one textbook step, every invertible `T` (state) and `U` (residual).** -/
theorem ekf_step_equivariant (T Ti : Matrix (Fin n) (Fin n) K) (U Ui : Matrix (Fin k) (Fin k) K)
    (hT : Ti * T = 1) (hU : Ui * U = 1)
    (Φ : Matrix (Fin n) (Fin n) K) (q : Fin n → K) (Q : Matrix (Fin n) (Fin n) K)
    (lin : (Fin n → K) → Matrix (Fin k) (Fin n) K × (Fin k → K) × Matrix (Fin k) (Fin k) K)
    (G : Matrix (Fin n) (Fin k) K) (s : C02.Ekf n K) :
    C02.ekfStep (T * Φ * Ti) (T *ᵥ q) (T * Q * Tᵀ) (tfLin Ti U lin) (T * G * Ui) (tfEkf T s)
      = tfEkf T (C02.ekfStep Φ q Q lin G s) := by
  have hm : (T * Φ * Ti) *ᵥ (T *ᵥ s.m) + T *ᵥ q = T *ᵥ (Φ *ᵥ s.m + q) := by
    rw [Matrix.mulVec_add, Matrix.mulVec_mulVec, Matrix.mulVec_mulVec]
    congr 2
    simp only [Matrix.mul_assoc, hT, Matrix.mul_one]
  have hlin : Ti *ᵥ (T *ᵥ (Φ *ᵥ s.m + q)) = Φ *ᵥ s.m + q := cancelV hT _
  simp only [C02.ekfStep, tfEkf, tfLin, hm, hlin]
  rcases lin (Φ *ᵥ s.m + q) with ⟨H, b, R⟩
  simp only
  congr 1
  · simp only [Matrix.mulVec_sub, Matrix.mulVec_add, Matrix.mulVec_mulVec, Matrix.mul_assoc, cancelL hT, cancelL hU,
      hT, hU, Matrix.mul_one]
  · simp only [Matrix.transpose_mul, Matrix.mul_add, Matrix.add_mul, Matrix.mul_sub, Matrix.sub_mul,
      Matrix.mul_assoc, cancelL hT, cancelL hU, cancelLT hT, cancelLT hU, hT, hU, Matrix.mul_one]

/-- the certificate travels with the transformation: `G S = P⁻ Hᵀ` iff the transformed gain is certified for the
transformed problem (shown: ⇒, which is what a run on the transformed problem needs) -/
theorem gain_cert_equivariant (T Ti : Matrix (Fin n) (Fin n) K) (U Ui : Matrix (Fin k) (Fin k) K)
    (hT : Ti * T = 1) (hU : Ui * U = 1)
    (H : Matrix (Fin k) (Fin n) K) (R : Matrix (Fin k) (Fin k) K) (P : Matrix (Fin n) (Fin n) K)
    (G : Matrix (Fin n) (Fin k) K) (hG : G * (H * P * Hᵀ + R) = P * Hᵀ) :
    (T * G * Ui) * ((U * H * Ti) * (T * P * Tᵀ) * (U * H * Ti)ᵀ + U * R * Uᵀ) = (T * P * Tᵀ) * (U * H * Ti)ᵀ := by
  have e : (U * H * Ti) * (T * P * Tᵀ) * (U * H * Ti)ᵀ + U * R * Uᵀ = U * (H * P * Hᵀ + R) * Uᵀ := by
    simp only [Matrix.transpose_mul, Matrix.mul_add, Matrix.add_mul, Matrix.mul_assoc, cancelL hT, cancelLT hT]
  rw [e]
  calc T * G * Ui * (U * (H * P * Hᵀ + R) * Uᵀ) = T * (G * (H * P * Hᵀ + R)) * Uᵀ := by
        simp only [Matrix.mul_assoc, cancelL hU]
    _ = T * P * Tᵀ * (U * H * Ti)ᵀ := by
        rw [hG]; simp only [Matrix.transpose_mul, Matrix.mul_assoc, cancelLT hT]

/-! ### the same on the model (`Pdq.Model.Solver`), filter -/

/-- model data of a step of the transformed problem: transition, linearisation and update gain are the
transformed ones (after removal of the Taylor preconditioner) -/
structure StepRel (T Ti : Matrix (Fin n) (Fin n) K) (U Ui : Matrix (Fin k) (Fin k) K)
    (d d' : C02.StepData n k K) : Prop where
  trA : d'.tr.den.A.toM = T * d.tr.den.A.toM * Ti
  trb : d'.tr.den.b.toV = T *ᵥ d.tr.den.b.toV
  trQ : d'.tr.den.Q.toM = T * d.tr.den.Q.toM * Tᵀ
  lin : C02.absLin d'.lin = tfLin Ti U (C02.absLin d.lin)
  gu : d'.Gu.toM = T * d.Gu.toM * Ui

/-- **perm_equivariance, one model step (filter).** The dense filter step of `Pdq.Model.Solver` on the
transformed problem (mean `T m`, covariance `T P Tᵀ`, transition `T Φ T⁻¹ / T q / T Q Tᵀ`, observation
`U H T⁻¹ / U b / U R Uᵀ`, gain `T G U⁻¹`) is the transformed step — every invertible `T`, `U`; in particular every
permutation of the state components (`T = I ⊗ P_σ`, `U = P_σ`). -/
theorem filter_step_equivariant (T Ti : Matrix (Fin n) (Fin n) K) (U Ui : Matrix (Fin k) (Fin k) K)
    (hT : Ti * T = 1) (hU : Ui * U = 1) (d d' : C02.StepData n k K) (hrel : StepRel T Ti U Ui d d')
    (st st' : SolState n K) (hst : C02.absState st' = tfEkf T (C02.absState st)) :
    C02.absState (Solver.step .filter d'.tr d'.lin st' d'.Gt d'.Gu)
      = tfEkf T (C02.absState (Solver.step .filter d.tr d.lin st d.Gt d.Gu)) := by
  rw [C02.filter_step_eq_textbook, C02.filter_step_eq_textbook, hrel.trA, hrel.trb, hrel.trQ, hrel.lin, hrel.gu, hst]
  exact ekf_step_equivariant T Ti U Ui hT hU _ _ _ _ _ _

/-- **perm_equivariance, whole runs (filter), by induction over the grid.** -/
theorem filter_run_equivariant (T Ti : Matrix (Fin n) (Fin n) K) (U Ui : Matrix (Fin k) (Fin k) K)
    (hT : Ti * T = 1) (hU : Ui * U = 1) (steps steps' : List (C02.StepData n k K))
    (hrel : List.Forall₂ (StepRel T Ti U Ui) steps steps')
    (st st' : SolState n K) (hst : C02.absState st' = tfEkf T (C02.absState st)) :
    (C02.runFilter st' steps').map C02.absState = ((C02.runFilter st steps).map C02.absState).map (tfEkf T) := by
  induction hrel generalizing st st' with
  | nil => rfl
  | cons h _ ih =>
    simp only [C02.runFilter, List.map_cons]
    have := filter_step_equivariant T Ti U Ui hT hU _ _ h st st' hst
    rw [this, ih _ _ this]

/-- the smoothers' forward marginal after a step is the filter's (they differ only in the stored backward
conditional), hence `filter_step_equivariant` / `filter_run_equivariant` cover the forward pass of every strategy -/
theorem step_marginal_eq_filter (s : Strategy) (tr : PCond n n K) (lin : Vec n K → Cond k n K)
    (st : SolState n K) (Gt : Mat n n K) (Gu : Mat n k K) :
    C02.absState (Solver.step s tr lin st Gt Gu) = C02.absState (Solver.step .filter tr lin st Gt Gu) := by
  obtain ⟨h1, h2, h3⟩ := C02.smoother_predict_marginal tr st Gt
  have hfi : (Strategy.fixedInterval.predict tr st Gt).u = (Strategy.filter.predict tr st Gt).u :=
    C08.Gauss.ext'' h1 h2
  cases s with
  | filter => rfl
  | fixedInterval =>
    simp only [C02.absState, Solver.step, SolState.update]
    rw [hfi]
  | fixedPoint =>
    simp only [C02.absState, Solver.step, SolState.update]
    rw [h3, hfi]

/-- **perm_equivariance, one model step, every strategy** (forward marginal) -/
theorem step_equivariant (s : Strategy) (T Ti : Matrix (Fin n) (Fin n) K) (U Ui : Matrix (Fin k) (Fin k) K)
    (hT : Ti * T = 1) (hU : Ui * U = 1) (d d' : C02.StepData n k K) (hrel : StepRel T Ti U Ui d d')
    (st st' : SolState n K) (hst : C02.absState st' = tfEkf T (C02.absState st)) :
    C02.absState (Solver.step s d'.tr d'.lin st' d'.Gt d'.Gu)
      = tfEkf T (C02.absState (Solver.step s d.tr d.lin st d.Gt d.Gu)) := by
  rw [step_marginal_eq_filter s d'.tr, step_marginal_eq_filter s d.tr]
  exact filter_step_equivariant T Ti U Ui hT hU d d' hrel st st' hst

/-! ### the transformed problem exists for every step and every `T`, `U` (non-vacuity of `StepRel`) -/

/-- model data of the transformed step, built from the original one (scalings absorbed, unit scalings kept) -/
def tfStep (T Ti : Matrix (Fin n) (Fin n) K) (U Ui : Matrix (Fin k) (Fin k) K) (d : C02.StepData n k K) :
    C02.StepData n k K :=
  { tr := ({ A := Mat.ofFn fun i j => (T * d.tr.den.A.toM * Ti) i j, b := Vec.ofFn fun i => (T *ᵥ d.tr.den.b.toV) i,
             Q := Mat.ofFn fun i j => (T * d.tr.den.Q.toM * Tᵀ) i j } : Cond n n K).toP
    lin := fun x =>
      let c := d.lin (Vec.ofFn fun i => (Ti *ᵥ x.toV) i)
      { A := Mat.ofFn fun i j => (U * c.A.toM * Ti) i j, b := Vec.ofFn fun i => (U *ᵥ c.b.toV) i,
        Q := Mat.ofFn fun i j => (U * c.Q.toM * Uᵀ) i j }
    Gt := Mat.zero
    Gu := Mat.ofFn fun i j => (T * d.Gu.toM * Ui) i j }

theorem toP_den (c : Cond n n K) : c.toP.den.A.toM = c.A.toM ∧ c.toP.den.b.toV = c.b.toV ∧ c.toP.den.Q.toM = c.Q.toM := by
  refine ⟨?_, ?_, ?_⟩
  · simp [Cond.toP, PCond.den, Matrix.diagonal_one]
  · simp [Cond.toP, PCond.den, Matrix.diagonal_one]
  · simp [Cond.toP, PCond.den, Matrix.diagonal_one]

theorem toM_ofFn_matrix {p q : Nat} (M : Matrix (Fin p) (Fin q) K) : (Mat.ofFn fun i j => M i j).toM = M := by
  rw [toM_ofFn]; rfl
theorem toV_ofFn_fun {p : Nat} (v : Fin p → K) : (Vec.ofFn fun i => v i).toV = v := toV_ofFn v

theorem tfStep_rel (T Ti : Matrix (Fin n) (Fin n) K) (U Ui : Matrix (Fin k) (Fin k) K) (d : C02.StepData n k K) :
    StepRel T Ti U Ui d (tfStep T Ti U Ui d) := by
  refine ⟨?_, ?_, ?_, ?_, ?_⟩
  · rw [tfStep, (toP_den _).1]; exact toM_ofFn_matrix _
  · rw [tfStep, (toP_den _).2.1]; exact toV_ofFn_fun _
  · rw [tfStep, (toP_den _).2.2]; exact toM_ofFn_matrix _
  · funext x
    have hx : (Vec.ofFn (fun i => (Ti *ᵥ (⟨x⟩ : Vec n K).toV) i) : Vec n K) = ⟨Ti *ᵥ x⟩ := by
      apply Vec.ext'; rw [toV_ofFn]; rfl
    simp only [C02.absLin, tfStep, tfLin, hx, toM_ofFn_matrix, toV_ofFn_fun]
  · exact toM_ofFn_matrix _

/-- **perm_equivariance, whole runs, closed form.** For every run, every invertible `T`, `U`: the run of the
transformed problem (`tfStep` at every step, transformed initial state) is the transformed run. -/
theorem filter_run_equivariant' (T Ti : Matrix (Fin n) (Fin n) K) (U Ui : Matrix (Fin k) (Fin k) K)
    (hT : Ti * T = 1) (hU : Ui * U = 1) (steps : List (C02.StepData n k K))
    (st st' : SolState n K) (hst : C02.absState st' = tfEkf T (C02.absState st)) :
    (C02.runFilter st' (steps.map (tfStep T Ti U Ui))).map C02.absState
      = ((C02.runFilter st steps).map C02.absState).map (tfEkf T) := by
  apply filter_run_equivariant T Ti U Ui hT hU steps _ _ st st' hst
  induction steps with
  | nil => exact List.Forall₂.nil
  | cons d rest ih => exact List.Forall₂.cons (tfStep_rel T Ti U Ui d) ih

/-! ### smoothers: the backward conditionals and the backward pass -/

/-- a conditional `(A, b, Q)` between transformed coordinates -/
def tfCond (T Ti : Matrix (Fin n) (Fin n) K) (c c' : Cond n n K) : Prop :=
  c'.A.toM = T * c.A.toM * Ti ∧ c'.b.toV = T *ᵥ c.b.toV ∧ c'.Q.toM = T * c.Q.toM * Tᵀ
def tfGauss (T : Matrix (Fin n) (Fin n) K) (g g' : Gauss n K) : Prop :=
  g'.mean.toV = T *ᵥ g.mean.toV ∧ g'.cov.toM = T * g.cov.toM * Tᵀ

/-- marginalisation commutes with the transformation -/
theorem marg_equivariant (T Ti : Matrix (Fin n) (Fin n) K) (hT : Ti * T = 1)
    (c c' : Cond n n K) (hc : tfCond T Ti c c') (g g' : Gauss n K) (hg : tfGauss T g g') :
    tfGauss T (c.marg g) (c'.marg g') := by
  obtain ⟨hA, hb, hQ⟩ := hc
  obtain ⟨hm, hP⟩ := hg
  constructor
  · simp only [Cond.marg, toV_add, toV_mulVec, hA, hb, hm, Matrix.mulVec_add, Matrix.mulVec_mulVec,
      Matrix.mul_assoc, hT, Matrix.mul_one]
  · simp only [Cond.marg, toM_add, toM_mul, toM_tr, hA, hQ, hP, Matrix.transpose_mul, Matrix.mul_add, Matrix.add_mul,
      Matrix.mul_assoc, cancelL hT, cancelLT hT]

/-- reversal (the RTS backward kernel) commutes with the transformation -/
theorem revert_equivariant (T Ti : Matrix (Fin n) (Fin n) K) (hT : Ti * T = 1)
    (c c' : Cond n n K) (hc : tfCond T Ti c c') (g g' : Gauss n K) (hg : tfGauss T g g')
    (G G' : Mat n n K) (hG : G'.toM = T * G.toM * Ti) :
    tfGauss T (c.revertWith g G).1 (c'.revertWith g' G').1 ∧ tfCond T Ti (c.revertWith g G).2 (c'.revertWith g' G').2 := by
  have hobs := marg_equivariant T Ti hT c c' hc g g' hg
  obtain ⟨hom, hoP⟩ := hobs
  obtain ⟨hm, hP⟩ := hg
  refine ⟨⟨hom, hoP⟩, hG, ?_, ?_⟩
  · simp only [Cond.revertWith, toV_sub, toV_mulVec, hG, hm, hom, Matrix.mulVec_sub, Matrix.mulVec_mulVec,
      Matrix.mul_assoc, hT, Matrix.mul_one]
  · simp only [Cond.revertWith, toM_sub, toM_mul, toM_tr, hG, hP, hoP, Matrix.transpose_mul, Matrix.mul_sub,
      Matrix.sub_mul, Matrix.mul_assoc, cancelL hT, cancelLT hT]

/-- composition of backward kernels (fixed-point smoother) commutes with the transformation -/
theorem merge_equivariant (T Ti : Matrix (Fin n) (Fin n) K) (hT : Ti * T = 1)
    (c2 c2' c1 c1' : Cond n n K) (h2 : tfCond T Ti c2 c2') (h1 : tfCond T Ti c1 c1') :
    tfCond T Ti (c2.merge c1) (c2'.merge c1') := by
  obtain ⟨hA2, hb2, hQ2⟩ := h2
  obtain ⟨hA1, hb1, hQ1⟩ := h1
  refine ⟨?_, ?_, ?_⟩
  · simp only [Cond.merge, toM_mul, hA2, hA1, Matrix.mul_assoc, cancelL hT]
  · simp only [Cond.merge, toV_add, toV_mulVec, hA2, hb1, hb2, Matrix.mulVec_add, Matrix.mulVec_mulVec,
      Matrix.mul_assoc, hT, Matrix.mul_one]
  · simp only [Cond.merge, toM_add, toM_mul, toM_tr, hA2, hQ1, hQ2, Matrix.transpose_mul, Matrix.mul_add,
      Matrix.add_mul, Matrix.mul_assoc, cancelL hT, cancelLT hT]

/-- **perm_equivariance, backward pass.** `evaluate_marginals` through transformed backward conditionals from a
transformed terminal marginal yields the transformed smoothed marginals — by induction, any number of steps. -/
theorem evalMarginals_equivariant (T Ti : Matrix (Fin n) (Fin n) K) (hT : Ti * T = 1)
    (bws bws' : List (PCond n n K)) (hb : List.Forall₂ (fun c c' => tfCond T Ti c.den c'.den) bws bws')
    (g g' : Gauss n K) (hg : tfGauss T g g') :
    List.Forall₂ (tfGauss T) (evalMarginals g bws) (evalMarginals g' bws') := by
  induction hb generalizing g g' with
  | nil => exact List.Forall₂.cons hg List.Forall₂.nil
  | @cons c c' _ _ h _ ih =>
    simp only [evalMarginals]
    refine List.Forall₂.cons hg (ih _ _ ?_)
    have h0 := marg_equivariant T Ti hT c.den c'.den h g g' hg
    obtain ⟨e1, e2⟩ := C08.marg_den c g
    obtain ⟨e3, e4⟩ := C08.marg_den c' g'
    exact ⟨by rw [e3, e1]; exact h0.1, by rw [e4, e2]; exact h0.2⟩

/-- the backward conditional stored by the fixed-interval smoother's prediction, with scalings removed, is the
transformed one (`Gt'` is the inner gain of the transformed problem: `denGain tr' Gt' = T (denGain tr Gt) T⁻¹`) -/
theorem smoother_predict_equivariant (T Ti : Matrix (Fin n) (Fin n) K) (hT : Ti * T = 1)
    (tr tr' : PCond n n K) (htr : tfCond T Ti tr.den tr'.den) (st st' : SolState n K)
    (hst : tfGauss T st.u st'.u) (Gt Gt' : Mat n n K)
    (hG : (C08.denGain tr' Gt').toM = T * (C08.denGain tr Gt).toM * Ti)
    (hl : ∀ i, tr.tl.toV i ≠ 0) (ho : ∀ i, tr.tob.toV i ≠ 0)
    (hl' : ∀ i, tr'.tl.toV i ≠ 0) (ho' : ∀ i, tr'.tob.toV i ≠ 0) :
    let p := Strategy.fixedInterval.predict tr st Gt
    let p' := Strategy.fixedInterval.predict tr' st' Gt'
    tfGauss T p.u p'.u ∧ tfCond T Ti p.bw.den p'.bw.den := by
  intro p p'
  have hbw : p.bw.den = (tr.den.revertWith st.u (C08.denGain tr Gt)).2 := by
    obtain ⟨h1, h2, h3⟩ := C08.revert_den tr st.u Gt hl ho
    exact C08.Cond.ext'' h1 h2 h3
  have hbw' : p'.bw.den = (tr'.den.revertWith st'.u (C08.denGain tr' Gt')).2 := by
    obtain ⟨h1, h2, h3⟩ := C08.revert_den tr' st'.u Gt' hl' ho'
    exact C08.Cond.ext'' h1 h2 h3
  have hr := revert_equivariant T Ti hT tr.den tr'.den htr st.u st'.u hst _ _ hG
  refine ⟨?_, by rw [hbw, hbw']; exact hr.2⟩
  obtain ⟨a1, a2⟩ := C08.revert_obs tr st.u Gt
  obtain ⟨a3, a4⟩ := C08.revert_obs tr' st'.u Gt'
  obtain ⟨b1, b2⟩ := C08.marg_den tr st.u
  obtain ⟨b3, b4⟩ := C08.marg_den tr' st'.u
  have hm := marg_equivariant T Ti hT tr.den tr'.den htr st.u st'.u hst
  exact ⟨by show (tr'.revertWith st'.u Gt').1.mean.toV = T *ᵥ (tr.revertWith st.u Gt).1.mean.toV
            rw [a3, b3, a1, b1]; exact hm.1,
         by show (tr'.revertWith st'.u Gt').1.cov.toM = T * (tr.revertWith st.u Gt).1.cov.toM * Tᵀ
            rw [a4, b4, a2, b2]; exact hm.2⟩

/-- the de-preconditioned shipped dense transition is `Φ(h) ⊗ I`, noise `Q(h) ⊗ diag(λ²)`, offset `0` -/
theorem transitionDense_den (q d : Nat) (h s2 : K) (lam2 : Vec d K) :
    (Iwp.transitionDense q d h s2 lam2).den.A.toM = kronCM (denA1 q h) 1 ∧
    (Iwp.transitionDense q d h s2 lam2).den.b.toV = 0 ∧
    (Iwp.transitionDense q d h s2 lam2).den.Q.toM = kronCM (denQ1 q h s2) (Matrix.diagonal lam2.toV) := by
  refine ⟨?_, ?_, ?_⟩
  · ext x y
    rw [toM_apply, den_entry]
    have hx := divNat_lt x; have hy := divNat_lt y
    simp only [Iwp.transitionDense, get_ofFn, vget_ofFn, dif_pos hx, dif_pos hy, kronCM, denA1, Matrix.one_apply]
    by_cases hxy : x.val % d = y.val % d
    · have : x.modNat = y.modNat := Fin.ext hxy
      simp only [hxy, this, if_true, mul_one]; rfl
    · have : ¬ x.modNat = y.modNat := fun h => hxy (congrArg Fin.val h)
      simp [hxy, this]
  · funext x
    show (Vec.hmul _ _).toV x = 0
    rw [toV_hmul']
    simp [Iwp.transitionDense, Vec.zero, Vec.toV]
  · ext x y
    rw [toM_apply, denQ_entry]
    have hx := divNat_lt x; have hy := divNat_lt y
    have hxm := modNat_lt x
    simp only [Iwp.transitionDense, get_ofFn, vget_ofFn, dif_pos hx, dif_pos hy, dif_pos hxm, kronCM, denQ1,
      Matrix.diagonal_apply]
    by_cases hxy : x.val % d = y.val % d
    · have : x.modNat = y.modNat := Fin.ext hxy
      simp only [hxy, this, if_true]
      simp only [Vec.toV, Fin.divNat, Fin.modNat]
      ring
    · have : ¬ x.modNat = y.modNat := fun h => hxy (congrArg Fin.val h)
      simp [hxy, this]

/-- **the shipped IWP prior commutes with `I ⊗ T`** whenever `T diag(λ²) Tᵀ = diag(λ'²)`:
the transition of the problem with output scales `λ'` is the transformed transition. -/
theorem transitionDense_equivariant (q d : Nat) (h s2 : K) (lam2 lam2' : Vec d K)
    (T Ti : Matrix (Fin d) (Fin d) K) (hTi : T * Ti = 1)
    (hlam : T * Matrix.diagonal lam2.toV * Tᵀ = Matrix.diagonal lam2'.toV) :
    let tr := Iwp.transitionDense q d h s2 lam2
    let tr' := Iwp.transitionDense q d h s2 lam2'
    tr'.den.A.toM = liftCM (q+1) T * tr.den.A.toM * liftCM (q+1) Ti ∧
    tr'.den.b.toV = liftCM (q+1) T *ᵥ tr.den.b.toV ∧
    tr'.den.Q.toM = liftCM (q+1) T * tr.den.Q.toM * (liftCM (q+1) T)ᵀ := by
  intro tr tr'
  obtain ⟨a1, a2, a3⟩ := transitionDense_den q d h s2 lam2
  obtain ⟨b1, b2, b3⟩ := transitionDense_den q d h s2 lam2'
  refine ⟨?_, ?_, ?_⟩
  · rw [b1, a1, liftCM, liftCM, kronCM_mul, kronCM_mul, Matrix.one_mul, Matrix.mul_one, Matrix.mul_one, hTi]
  · rw [b2, a2, Matrix.mulVec_zero]
  · rw [b3, a3, liftCM, kronCM_transpose, kronCM_mul, kronCM_mul, Matrix.one_mul, Matrix.transpose_one,
      Matrix.mul_one, hlam]

/-- **perm_equivariance for the shipped prior**: permuting the components (and their output scales accordingly)
gives the transition `(I ⊗ P_σ) Φ (I ⊗ P_σ)⁻¹`, `(I ⊗ P_σ) Q (I ⊗ P_σ)ᵀ`. -/
theorem transitionDense_perm (q d : Nat) (h s2 : K) (lam2 : Vec d K) (σ : Equiv.Perm (Fin d)) :
    let P := σ.permMatrix K
    let Pi := (σ⁻¹).permMatrix K
    let tr := Iwp.transitionDense q d h s2 lam2
    let tr' := Iwp.transitionDense q d h s2 ⟨lam2.get ∘ σ⟩
    tr'.den.A.toM = liftCM (q+1) P * tr.den.A.toM * liftCM (q+1) Pi ∧
    tr'.den.b.toV = liftCM (q+1) P *ᵥ tr.den.b.toV ∧
    tr'.den.Q.toM = liftCM (q+1) P * tr.den.Q.toM * (liftCM (q+1) P)ᵀ :=
  transitionDense_equivariant q d h s2 lam2 ⟨lam2.get ∘ σ⟩ _ _ (perm_inv d σ) (perm_diag d σ lam2.toV)

/-- … and, when all output scales are equal, for every orthogonal `T` (`T Tᵀ = 1`) -/
theorem transitionDense_orthogonal (q d : Nat) (h s2 c : K) (T : Matrix (Fin d) (Fin d) K) (hT : T * Tᵀ = 1) :
    let tr := Iwp.transitionDense q d h s2 ⟨fun _ => c⟩
    tr.den.A.toM = liftCM (q+1) T * tr.den.A.toM * liftCM (q+1) Tᵀ ∧
    tr.den.Q.toM = liftCM (q+1) T * tr.den.Q.toM * (liftCM (q+1) T)ᵀ := by
  have hd : Matrix.diagonal (fun _ : Fin d => c) = c • (1 : Matrix (Fin d) (Fin d) K) := by
    ext i j; simp [Matrix.diagonal_apply, Matrix.one_apply]
  have := transitionDense_equivariant q d h s2 ⟨fun _ => c⟩ ⟨fun _ => c⟩ T Tᵀ hT (by
    show T * Matrix.diagonal (fun _ => c) * Tᵀ = Matrix.diagonal (fun _ => c)
    rw [hd, Matrix.mul_smul, Matrix.mul_one, Matrix.smul_mul, hT])
  exact ⟨this.1, this.2.2⟩

/-! ### isotropic / block-diagonal: permutations of the slices -/

/-- **perm_equivariance for the factorised models.** Solving the problem whose components are permuted by `σ`
(slice `a` of the new problem is slice `σ a` of the old one; the linearisation of the new problem sees the
predicted means re-indexed back) gives the permuted slices — every strategy, every `σ`. -/
theorem stepSlices_perm {d : Nat} (σ : Equiv.Perm (Fin d)) (s : Strategy) (tr : Fin d → PCond n n K)
    (lin : (Fin d → Vec n K) → Fin d → Cond k n K) (st : Fin d → SolState n K)
    (Gt : Fin d → Mat n n K) (Gu : Fin d → Mat n k K) :
    Solver.stepSlices s (tr ∘ σ) (fun means a => lin (means ∘ σ.symm) (σ a)) (st ∘ σ) (Gt ∘ σ) (Gu ∘ σ)
      = Solver.stepSlices s tr lin st Gt Gu ∘ σ := by
  funext a
  simp only [Solver.stepSlices, Function.comp]
  have : ((fun b => (s.predict (tr (σ b)) (st (σ b)) (Gt (σ b))).u.mean) ∘ σ.symm)
      = fun b => (s.predict (tr b) (st b) (Gt b)).u.mean := by
    funext b; simp only [Function.comp, Equiv.apply_symm_apply]
  rw [this]

/-- each slice of `stepSlices` is a `Solver.step` (the definition the driver executes), with the linearisation
frozen at the joint predicted means -/
theorem stepSlices_eq_step {d : Nat} (s : Strategy) (tr : Fin d → PCond n n K)
    (lin : (Fin d → Vec n K) → Fin d → Cond k n K) (st : Fin d → SolState n K)
    (Gt : Fin d → Mat n n K) (Gu : Fin d → Mat n k K) (a : Fin d) :
    Solver.stepSlices s tr lin st Gt Gu a
      = Solver.step s (tr a) (fun _ => lin (fun b => (s.predict (tr b) (st b) (Gt b)).u.mean) a) (st a) (Gt a) (Gu a) := rfl


end equivariance

/-! ## non-vacuity: concrete instances -/
section examples

/-- the ravel maps are a genuinely non-trivial permutation (n = 3 coefficients, d = 2 components) -/
example : (List.range 6).map (bdToDense 3 2) = [0, 2, 4, 1, 3, 5] := by decide
example : (List.range 6).map (denseToBd 3 2) = [0, 3, 1, 4, 2, 5] := by decide
example : bdDenseEquiv 3 2 ⟨1, by decide⟩ = ⟨2, by decide⟩ := by decide

/-- `to_multivariate_normal`, n = 2, d = 2: isotropic `C = [[1,2],[3,4]]`; block-diagonal `C_0 = [[1,2],[3,4]]`,
`C_1 = [[5,6],[7,8]]` -/
example : (List.range 16).map (isoMvnCov 2 2 (fun z => ([1,2,3,4] : List Int).getD z 0))
    = [1,0,2,0, 0,1,0,2, 3,0,4,0, 0,3,0,4] := by decide
example : (List.range 16).map (bdMvnCov 2 2 (fun z => ([1,2,3,4, 5,6,7,8] : List Int).getD z 0))
    = [1,0,2,0, 0,5,0,6, 3,0,4,0, 0,7,0,8] := by decide
example : (List.range 6).map (bdMvnMean 3 2 (fun z => z)) = [0, 3, 1, 4, 2, 5] := by decide

/-- a nested dict / tuple / namedtuple coefficient with leaves of rank 1, 3, 0 (d = 4), three coefficients -/
def exCoeff (a b c d : Nat) : PyTree Nat :=
  .node .dict (.cons "k" (.node .tuple (.cons "0" (.leaf [2] [a, b]) .nil))
              (.cons "z" (.node .named (.cons "b" (.leaf [1,1,1] [c]) (.cons "a" (.leaf [] [d]) .nil))) .nil))
def exState : PyTree Nat :=
  .node .tuple (.cons "0" (exCoeff 0 1 2 3) (.cons "1" (exCoeff 4 5 6 7) (.cons "2" (exCoeff 8 9 10 11) .nil)))
example : exState.isCanonical = true := by decide
example : exState.size = 12 := by decide
example : exState.flattenDense = List.range 12 := by decide
example : exState.flattenIso = List.range 12 := by decide
example : exState.flattenBd = [0,4,8, 1,5,9, 2,6,10, 3,7,11] := by decide
example : ∀ r ∈ exState.rows, r.length = 4 := by decide
/-- dict children given in insertion order are flattened in sorted key order -/
example : (PyTree.node .dict (.cons "z" (.leaf [] [1]) (.cons "k" (.leaf [] [2]) .nil))).ravel = [2, 1] := by decide

/-- a batch whose lanes need 1, 10 and 0 iterations -/
def exCondW (s : Nat × Nat) : Bool := decide (s.1 < s.2)
def exBodyW (s : Nat × Nat) : Nat × Nat := (s.1 + 1, s.2)
example : batchedWhile exCondW exBodyW 10 [(0,1),(0,10),(3,3)] = [(1,1),(10,10),(3,3)] := by decide
example : batchedIters exCondW exBodyW 10 [(0,1),(0,10),(3,3)] = 10 := by decide
example : ∀ s ∈ [((0:Nat),(1:Nat)),(0,10),(3,3)], exCondW (whileLoop exCondW exBodyW (s.2 - s.1) s) = false := by decide
example : saveAt (fun (s : Nat) (t : Nat) => (s + t, s + t)) 0 0 [0, 1, 2, 3] = [0, 1, 3, 6] := by decide

/-- a concrete transformed step: swap of the two state components of the C02 example, with a certified gain -/
example : StepRel ((Equiv.swap (0 : Fin 2) 1).permMatrix ℚ) ((Equiv.swap (0 : Fin 2) 1)⁻¹.permMatrix ℚ) 1 1
    ⟨C02.exTr, C02.exLin, Mat.zero, C02.exGu⟩
    (tfStep ((Equiv.swap (0 : Fin 2) 1).permMatrix ℚ) ((Equiv.swap (0 : Fin 2) 1)⁻¹.permMatrix ℚ) 1 1
      ⟨C02.exTr, C02.exLin, Mat.zero, C02.exGu⟩) := tfStep_rel _ _ _ _ _
example : (Equiv.swap (0 : Fin 2) 1)⁻¹.permMatrix ℚ * (Equiv.swap (0 : Fin 2) 1).permMatrix ℚ = 1 := by
  have := perm_inv (K := ℚ) 2 (Equiv.swap (0 : Fin 2) 1)⁻¹
  rwa [inv_inv] at this

end examples

end Pdq.C15
