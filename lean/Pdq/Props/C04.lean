import Pdq.Model.Calib
import Pdq.Lemmas.Calib
import Pdq.Props.C02
import Pdq.Props.C03
import Mathlib.Analysis.Real.Sqrt
import Mathlib.Tactic.FieldSimp
import Mathlib.Tactic.Linarith
import Mathlib.Tactic.Positivity
/-!
# C04 — Output-scale calibration is the documented estimator and is scale-equivariant

About `Pdq.Model.Calib` / `Pdq.Model.Solver` (the definitions the driver executes):

* `running_rms*`: the running update of `solver_mle.step`, iterated over any number of steps, returns the arithmetic
  mean of the squared whitened residual terms (with the `constraint_init` term when present);
* `mle_final`: the reported squared scale is that mean, divided by `num_steps` when the asymptotic-underconfidence
  correction is on; `uncalibrated_one`; `dynamic_scale`: the local squared scale is the whitened residual energy of
  the *mean-only* prediction divided by the size;
* `finalize_rescale*`: returned covariances are the unit-scale covariances times `scale²`, also through the backward
  conditionals of the smoothers (whole backward pass, by induction);
* `scale_equivariance*`: **under the explicit hypotheses `damp = 0` (noise-free linearisation) and an exact (zero
  covariance) initial state** multiplying the base scale by `c` leaves all means unchanged, multiplies unit-scale
  covariances by `c²`, divides the whitened terms (hence the MLE scale²) by `c²`, leaves calibrated covariances and
  the local error estimate unchanged, and leaves a dynamic run unchanged altogether (its scale² divides by `c²`);
  whole runs by induction over the steps, every strategy, any linearisation that depends on the mean only;
* `equivariance_fails_*`: concrete rational runs showing that the means *do* change when `damp > 0` or the initial
  covariance is not zero — the property is read with these two hypotheses.
-/
set_option linter.unusedSectionVars false
set_option linter.unusedSimpArgs false
open Matrix

namespace Pdq.C04
open Pdq.CalibL
variable {K : Type} [Field K] {k n : Nat}

/-! ## the running root-mean-square -/

/-- general form: started from `n` data with running value `a2`, the fold returns the weighted mean
`(n·a2 + Σ terms)/(n + N)`.  `n ≥ 1` covers the start after a `constraint_init` update (`n = 1`). -/
theorem mleFold_closed [CharZero K] (a2 : K) (n : ℕ) (hn : 0 < n) (terms : List K) :
    Solver.mleFold a2 (n : K) terms
      = (((n : K) * a2 + terms.sum) / ((n + terms.length : ℕ) : K), ((n + terms.length : ℕ) : K)) := by
  induction terms generalizing a2 n with
  | nil =>
    have : (n : K) ≠ 0 := Nat.cast_ne_zero.mpr (Nat.pos_iff_ne_zero.mp hn)
    simp [Solver.mleFold]
    field_simp
  | cons b rest ih =>
    have h1 : ((n : K) + 1) ≠ 0 := Nat.cast_add_one_ne_zero n
    have h2 : (((n + 1 + rest.length : ℕ) : K)) ≠ 0 := by
      have : n + 1 + rest.length = (n + rest.length) + 1 := by omega
      rw [this]; push_cast; exact Nat.cast_add_one_ne_zero (n + rest.length) |> fun h => by simpa using h
    have hc : ((n : K) + 1) = ((n + 1 : ℕ) : K) := by push_cast; rfl
    simp only [Solver.mleFold, List.sum_cons, List.length_cons]
    rw [hc, ih _ (n + 1) (Nat.succ_pos n)]
    have e : n + (rest.length + 1) = n + 1 + rest.length := by omega
    rw [e]
    refine Prod.ext ?_ rfl
    simp only [Solver.mleRunning]
    rw [← hc]
    field_simp
    ring

/-- **running_rms.** `solver_mle.step`'s update `hypot(√(n/(n+1))·a, √(1/(n+1))·b)` (squared: `Solver.mleRunning`),
iterated from `(0, 0)` over the squared whitened-RMS terms of any number `N` of steps, returns their arithmetic
mean and `N`. -/
theorem running_rms [CharZero K] (terms : List K) :
    Solver.mleFold 0 0 terms = (terms.sum / (terms.length : K), (terms.length : K)) := by
  cases terms with
  | nil => simp [Solver.mleFold]
  | cons b rest =>
    have h := mleFold_closed b 1 Nat.one_pos rest
    simp only [Solver.mleFold, Solver.mleRunning, List.sum_cons, List.length_cons]
    have e : ((0 : K) * 0 + b) / (0 + 1) = b := by simp
    have e1 : ((0 : K) + 1) = ((1 : ℕ) : K) := by simp
    rw [e, e1, h]
    refine Prod.ext ?_ ?_
    · simp only [Nat.cast_one, one_mul]
      congr 1
      push_cast; ring
    · simp only []
      push_cast; ring

/-- the same with the `constraint_init` term `t0` present (`num_data` starts at one) -/
theorem running_rms_with_init [CharZero K] (t0 : K) (terms : List K) :
    Solver.mleFold t0 1 terms = ((t0 + terms.sum) / ((1 + terms.length : ℕ) : K), ((1 + terms.length : ℕ) : K)) := by
  have h := mleFold_closed t0 1 Nat.one_pos terms
  simpa using h

/-- the update on squares is what the code computes with roots: for `n ≥ 0`,
`hypot(√(n/(n+1))·a, √(1/(n+1))·b)² = (n·a² + b²)/(n+1)` -/
theorem running_rms_hypot (nn a b : ℝ) (hn : 0 ≤ nn) :
    (Real.sqrt ((Real.sqrt (nn / (nn + 1)) * a) ^ 2 + (Real.sqrt (1 / (nn + 1)) * b) ^ 2)) ^ 2
      = Solver.mleRunning (a ^ 2) nn (b ^ 2) := by
  have h1 : 0 ≤ nn / (nn + 1) := by positivity
  have h2 : 0 ≤ 1 / (nn + 1) := by positivity
  have h3 : (nn + 1) ≠ 0 := by positivity
  rw [Real.sq_sqrt (by positivity), mul_pow, mul_pow, Real.sq_sqrt h1, Real.sq_sqrt h2]
  simp only [Solver.mleRunning]
  field_simp

/-- the whole MLE run carries exactly the fold of the running update over the per-step terms -/
theorem runMle_eq_fold (s : Strategy) (st : SolState n K) (a2 num : K) (steps : List (CalStep n k K)) :
    (Calib.runMle s st a2 num steps).2 = Solver.mleFold a2 num (Calib.terms s st steps) := by
  induction steps generalizing st a2 num with
  | nil => rfl
  | cons d rest ih => simp only [Calib.runMle, Calib.terms, Solver.mleFold]; exact ih _ _ _

/-- the state part of the MLE run is the uncalibrated run: its last state is the last visited state -/
theorem runMle_state (s : Strategy) (st : SolState n K) (a2 num : K) (steps : List (CalStep n k K)) :
    (Calib.runMle s st a2 num steps).1 = (Calib.states s st steps).getLastD st := by
  induction steps generalizing st a2 num with
  | nil => rfl
  | cons d rest ih =>
    simp only [Calib.runMle, Calib.states]
    rw [ih]
    cases h : Calib.states s (Solver.step s d.tr d.lin st d.Gt d.Gu) rest <;> simp [List.getLastD]

/-- **mle_final.** After `N` steps (no `constraint_init`) the reported squared scale is the mean of the squared
whitened-RMS terms, divided by `num_steps` when the correction is on. -/
theorem mle_final [CharZero K] (s : Strategy) (st : SolState n K) (steps : List (CalStep n k K)) (numSteps : K) :
    let r := Calib.runMle s st 0 0 steps
    let terms := Calib.terms s st steps
    Solver.mleFinal false r.2.1 numSteps = terms.sum / (terms.length : K) ∧
    Solver.mleFinal true r.2.1 numSteps = terms.sum / (terms.length : K) / numSteps ∧
    r.2.2 = (steps.length : K) := by
  intro r terms
  have h : r.2 = Solver.mleFold 0 0 terms := runMle_eq_fold s st 0 0 steps
  have hl : terms.length = steps.length := by
    simp only [terms]
    clear h r
    induction steps generalizing st with
    | nil => rfl
    | cons d rest ih => simp [Calib.terms, ih]
  rw [running_rms] at h
  refine ⟨?_, ?_, ?_⟩
  · simp [Solver.mleFinal, h]
  · simp [Solver.mleFinal, h]
  · rw [h, hl]

/-- **uncalibrated_one.** The uncalibrated solver reports scale one, and rescaling by one changes nothing. -/
theorem uncalibrated_one (st : SolState n K) : st.rescale 1 = st := by
  apply SolState.ext''
  · apply C08.Gauss.ext'' <;> simp [SolState.rescale, Gauss.rescale]
  · apply PCond.ext'' <;> simp [SolState.rescale, PCond.rescaleNoise]

/-- **dynamic_scale.** The local squared scale of `solver_dynamic.step` is the whitened residual energy of the
*mean-only* prediction — mean `Φ m + q`, covariance the unit-scale process noise alone, no `Φ P Φᵀ` — divided by the
size: `σ̂² = rᵀ S⁻¹ r / size`, `r = H(Φm + q) + b`, `S = H Q Hᵀ + R`. -/
theorem dynamic_scale (tr1 : PCond n n K) (lin : Vec n K → Cond k n K) (st : SolState n K) (W : Mat k k K) (size : K) :
    let up := tr1.applyPt st.u.mean
    let c := lin up.mean
    let S := c.A.toM * tr1.den.Q.toM * c.A.toMᵀ + c.Q.toM
    let r := c.A.toM *ᵥ (tr1.den.A.toM *ᵥ st.u.mean.toV + tr1.den.b.toV) + c.b.toV
    up.mean.toV = tr1.den.A.toM *ᵥ st.u.mean.toV + tr1.den.b.toV ∧
    up.cov.toM = tr1.den.Q.toM ∧
    (S * W.toM = 1 → Solver.dynamicScale2 tr1 lin st W size = (r ⬝ᵥ (S⁻¹ *ᵥ r)) / size) := by
  intro up c S r
  obtain ⟨hm, hc⟩ := C08.applyPt_den tr1 st.u.mean
  have hm' : up.mean.toV = tr1.den.A.toM *ᵥ st.u.mean.toV + tr1.den.b.toV := by
    rw [hm]; simp [Cond.applyPt]
  have hc' : up.cov.toM = tr1.den.Q.toM := by rw [hc]; simp [Cond.applyPt]
  refine ⟨hm', hc', ?_⟩
  intro hW
  have hS : (c.marg up).cov.toM = S := by simp [Cond.marg, hc', S]
  have hr : (c.marg up).mean.toV = r := by simp [Cond.marg, hm', r]
  have := C08.maha_spec (c.marg up) W Vec.zero (by rw [hS]; exact hW)
  simp only [Solver.dynamicScale2, Calib.rms2, Solver.dynamicSq, Cond.whitenedSq]
  rw [this, hS, hr]
  simp [Matrix.mulVec_neg, dotProduct_neg, neg_dotProduct]

/-! ## finalisation -/

/-- rescaling with the squared factor: `rescale c = rescale2 (c²)` -/
theorem rescale_eq_rescale2 (g : Gauss n K) (c : K) : g.rescale c = g.rescale2 (c * c) := rfl

theorem evalMarginals_rescale (term : Gauss n K) (bws : List (PCond n n K)) (f : K) :
    evalMarginals (term.rescale f) (bws.map fun c => c.rescaleNoise f) = (evalMarginals term bws).map (·.rescale f) := by
  induction bws generalizing term with
  | nil => rfl
  | cons b rest ih =>
    simp only [List.map_cons, evalMarginals]
    rw [pcond_marg_rescale, ih]

/-- **finalize_rescale (smoothers).** Every smoothed marginal returned by `Smoother.finalize` with output scale `f`
is the unit-scale smoothed marginal with the same mean and the covariance times `f²` — the backward conditionals are
calibrated consistently, for any number of stored conditionals. -/
theorem finalize_rescale (f : K) (post1 : SolState n K) (bws : List (PCond n n K)) :
    smootherFinalize f post1 bws = (smootherFinalize 1 post1 bws).map (·.rescale f) := by
  have h1 : ∀ g : Gauss n K, g.rescale 1 = g := fun g => by
    apply C08.Gauss.ext'' <;> simp [Gauss.rescale]
  have h2 : ∀ c : PCond n n K, c.rescaleNoise 1 = c := fun c => by
    apply PCond.ext'' <;> simp [PCond.rescaleNoise]
  simp only [smootherFinalize]
  rw [h1, h2, pcond_marg_rescale, evalMarginals_rescale]
  congr 2
  induction bws with
  | nil => rfl
  | cons b rest ih => simp [h2]

/-- in matrix terms: same means, covariances `× f²` (filter: `C02.filter_finalize_rescale`, one backward
marginalisation: `C03.rescale_marg`, single Gaussians: `C08.rescale_spec`) -/
theorem finalize_rescale_moments (f : K) (post1 : SolState n K) (bws : List (PCond n n K)) :
    (smootherFinalize f post1 bws).map (fun g => (g.mean.toV, g.cov.toM))
      = (smootherFinalize 1 post1 bws).map (fun g => (g.mean.toV, (f ^ 2) • g.cov.toM)) := by
  rw [finalize_rescale, List.map_map]
  congr 1
  funext g
  obtain ⟨h1, h2⟩ := C08.rescale_spec g f
  simp [h1, h2]

/-- block-diagonal models calibrate per dimension: slice `a` is rescaled with its own scale -/
theorem finalize_rescale_per_dimension {d : Nat} (fs : Fin d → K) (post1 : Fin d → SolState n K)
    (bws : Fin d → List (PCond n n K)) (a : Fin d) :
    smootherFinalize (fs a) (post1 a) (bws a) = (smootherFinalize 1 (post1 a) (bws a)).map (·.rescale (fs a)) :=
  finalize_rescale (fs a) (post1 a) (bws a)

/-! ## scale equivariance -/

/-- the IWP transition built with base scale `cΛ` is the one built with `Λ` with its noise rescaled -/
theorem iwp_transition1_scale (q : Nat) (h s2 c : K) :
    Iwp.transition1 q h (c * c * s2) = (Iwp.transition1 q h s2).rescaleNoise c := by
  apply PCond.ext''
  · rfl
  · rfl
  · simp only [Iwp.transition1, PCond.rescaleNoise, toM_smul, smul_smul]
    congr 1; ring
  · rfl
  · rfl

theorem iwp_transitionDense_scale (q d : Nat) (h s2 c : K) (lam2 : Vec d K) :
    Iwp.transitionDense q d h (c * c * s2) lam2 = (Iwp.transitionDense q d h s2 lam2).rescaleNoise c := by
  apply PCond.ext''
  · rfl
  · rfl
  · funext x y
    simp only [Iwp.transitionDense, PCond.rescaleNoise, toM_smul, toM_ofFn, Matrix.smul_apply, Matrix.of_apply,
      smul_eq_mul]
    split <;> ring
  · rfl
  · rfl

/-- an exact (zero-covariance) initial state is the same state for every base scale -/
theorem init_exact_rescale (g : Gauss n K) (hP : g.cov.toM = 0) (c : K) :
    (SolState.init g).rescale c = SolState.init g := by
  apply SolState.ext''
  · apply C08.Gauss.ext'' <;> simp [SolState.rescale, SolState.init, Gauss.rescale, hP]
  · apply PCond.ext'' <;> simp [SolState.rescale, SolState.init, PCond.rescaleNoise, PCond.identity]

/-- the same gain certificates are valid for the rescaled problem (update, noise-free linearisation) -/
theorem gain_cert_rescale (c : Cond k n K) (g : Gauss n K) (G : Mat n k K) (f : K) (hQ : c.Q.toM = 0)
    (hG : G.toM * (c.marg g).cov.toM = (c.cross g).toM) :
    G.toM * (c.marg (g.rescale f)).cov.toM = (c.cross (g.rescale f)).toM := by
  have h := cond_marg_rescale c g f
  rw [cond_rescale_of_noisefree c f hQ] at h
  rw [h]
  simp only [Gauss.rescale, Cond.cross, toM_smul, toM_mul, toM_tr, Matrix.mul_smul, Matrix.smul_mul]
  rw [hG]; simp [Cond.cross]

/-- … and for the reversal of the transition (smoothers) -/
theorem trans_cert_rescale (tr : PCond n n K) (g : Gauss n K) (G : Mat n n K) (f : K)
    (hG : G.toM * (tr.core.marg (tr.inner g)).cov.toM = (tr.core.cross (tr.inner g)).toM) :
    G.toM * ((tr.rescaleNoise f).core.marg ((tr.rescaleNoise f).inner (g.rescale f))).cov.toM
      = ((tr.rescaleNoise f).core.cross ((tr.rescaleNoise f).inner (g.rescale f))).toM := by
  simp only [PCond.core, PCond.inner, PCond.rescaleNoise, Gauss.rescale, Cond.marg, Cond.cross, toM_add, toM_mul,
    toM_tr, toM_congrScale, toM_smul, Matrix.mul_smul, Matrix.smul_mul, ← smul_add] at hG ⊢
  rw [hG]

/-- … and the inverse certificate of the innovation covariance, for `f ≠ 0` -/
theorem inv_cert_rescale (S W : Mat k k K) (f : K) (hf : f ≠ 0) (h : S.toM * W.toM = 1) :
    (Mat.smul (f * f) S).toM * (Mat.smul (1 / (f * f)) W).toM = 1 := by
  simp only [toM_smul, Matrix.mul_smul, Matrix.smul_mul, smul_smul, h]
  have : f * f * (1 / (f * f)) = 1 := by field_simp
  rw [mul_comm, this, one_smul]

/-- the whitened residual term of the rescaled problem is the original one divided by `f²` -/
theorem mleTerm_rescale (s : Strategy) (tr : PCond n n K) (lin : Vec n K → Cond k n K)
    (st : SolState n K) (Gt : Mat n n K) (W : Mat k k K) (f : K) :
    Solver.mleTerm s (tr.rescaleNoise f) lin (st.rescale f) Gt (Mat.smul (1 / (f * f)) W)
      = Solver.mleTerm s tr lin st Gt W / (f * f) := by
  simp only [Solver.mleTerm]
  rw [predict_rescale, rescale_mean]
  simp only [Cond.whitenedSq, Gauss.maha, Mat.bilin, dot_eq, SolState.rescale, Gauss.rescale, Cond.marg,
    toV_mulVec, toM_smul, toV_sub, toV_zero, toV_add, Matrix.smul_mulVec, dotProduct_smul, smul_eq_mul]
  field_simp

/-- **scale_equivariance, one step.** With a noise-free linearisation (`damp = 0`), for every strategy, the step of
the `c`-rescaled problem from the `c`-rescaled state is the `c`-rescaling of the step: same mean, covariance and
backward noise `× c²`, with the *same* gain certificates. -/
theorem scale_equivariance_step (s : Strategy) (tr : PCond n n K) (lin : Vec n K → Cond k n K)
    (st : SolState n K) (Gt : Mat n n K) (Gu : Mat n k K) (c : K) (hlin : ∀ x, (lin x).Q.toM = 0) :
    Solver.step s (tr.rescaleNoise c) lin (st.rescale c) Gt Gu = (Solver.step s tr lin st Gt Gu).rescale c :=
  step_rescale s tr lin st Gt Gu c hlin

/-- in moments: same mean, covariance `× c²` -/
theorem rescale_moments (st : SolState n K) (c : K) :
    (st.rescale c).u.mean.toV = st.u.mean.toV ∧ (st.rescale c).u.cov.toM = (c ^ 2) • st.u.cov.toM :=
  C08.rescale_spec st.u c

/-- **scale_equivariance, whole runs (uncalibrated and MLE state).** By induction over the steps: every visited
state of the run with base scale `cΛ` is the `c`-rescaling of the corresponding state of the run with base scale
`Λ`: identical means, predicted / posterior covariances and backward noises `× c²`. -/
theorem scale_equivariance_states (s : Strategy) (st : SolState n K) (steps : List (CalStep n k K)) (c : K)
    (hlin : ∀ d ∈ steps, ∀ x, (d.lin x).Q.toM = 0) :
    Calib.states s (st.rescale c) (steps.map (CalStep.rescale · c)) = (Calib.states s st steps).map (·.rescale c) := by
  induction steps generalizing st with
  | nil => rfl
  | cons d rest ih =>
    have hd := hlin d (List.mem_cons_self ..)
    have hr : ∀ d' ∈ rest, ∀ x, (d'.lin x).Q.toM = 0 := fun d' h => hlin d' (List.mem_cons_of_mem _ h)
    simp only [List.map_cons, Calib.states, CalStep.rescale]
    rw [step_rescale _ _ _ _ _ _ _ hd]
    congr 1
    exact ih _ hr

/-- … and every squared whitened-RMS term divides by `c²` -/
theorem scale_equivariance_terms (s : Strategy) (st : SolState n K) (steps : List (CalStep n k K)) (c : K)
    (hlin : ∀ d ∈ steps, ∀ x, (d.lin x).Q.toM = 0) :
    Calib.terms s (st.rescale c) (steps.map (CalStep.rescale · c)) = (Calib.terms s st steps).map (· / (c * c)) := by
  induction steps generalizing st with
  | nil => rfl
  | cons d rest ih =>
    have hd := hlin d (List.mem_cons_self ..)
    have hr : ∀ d' ∈ rest, ∀ x, (d'.lin x).Q.toM = 0 := fun d' h => hlin d' (List.mem_cons_of_mem _ h)
    simp only [List.map_cons, Calib.terms, CalStep.rescale]
    rw [step_rescale _ _ _ _ _ _ _ hd, mleTerm_rescale]
    congr 1
    · simp only [Calib.rms2]; ring
    · exact ih _ hr

/-- the fold is linear in the terms -/
theorem mleFold_scale (a2 num t : K) (terms : List K) :
    Solver.mleFold (a2 / t) num (terms.map (· / t)) = ((Solver.mleFold a2 num terms).1 / t, (Solver.mleFold a2 num terms).2) := by
  induction terms generalizing a2 num with
  | nil => rfl
  | cons b rest ih =>
    simp only [List.map_cons, Solver.mleFold]
    have : Solver.mleRunning (a2 / t) num (b / t) = Solver.mleRunning a2 num b / t := by
      simp only [Solver.mleRunning]; ring
    rw [this, ih]

/-- **scale_equivariance (MLE).** Under `damp = 0` and an exact initial state, the run with base scale `cΛ`
(`c ≠ 0`) has the same means as the run with base scale `Λ`, its MLE scale² is the other one divided by `c²`
(the scale divides by `c`), its *calibrated* covariances are identical, and its unit-scale (uncalibrated)
covariances are `c²` times larger. -/
theorem scale_equivariance_mle (s : Strategy) (g : Gauss n K) (hP : g.cov.toM = 0) (steps : List (CalStep n k K))
    (c : K) (hc : c ≠ 0) (correct : Bool) (numSteps : K)
    (hlin : ∀ d ∈ steps, ∀ x, (d.lin x).Q.toM = 0) :
    let r := Calib.runMle s (SolState.init g) 0 0 steps
    let r' := Calib.runMle s (SolState.init g) 0 0 (steps.map (CalStep.rescale · c))
    let s2 := Solver.mleFinal correct r.2.1 numSteps
    let s2' := Solver.mleFinal correct r'.2.1 numSteps
    r'.1 = r.1.rescale c ∧ r'.1.u.mean = r.1.u.mean ∧ s2' = s2 / (c * c) ∧
      r'.1.u.rescale2 s2' = r.1.u.rescale2 s2 ∧ r'.1.u.cov.toM = (c ^ 2) • r.1.u.cov.toM := by
  intro r r' s2 s2'
  have hinit := init_exact_rescale g hP c
  have hst : r'.1 = r.1.rescale c := by
    simp only [r, r']
    rw [runMle_state, runMle_state]
    have := scale_equivariance_states s (SolState.init g) steps c hlin
    rw [hinit] at this
    rw [this]
    have hmap : ∀ (l : List (SolState n K)) (a : SolState n K),
        (l.map (·.rescale c)).getLastD (a.rescale c) = (l.getLastD a).rescale c := by
      intro l
      induction l with
      | nil => intro a; rfl
      | cons b l ih => intro a; simp only [List.map_cons, List.getLastD_cons]; exact ih b
    have := hmap (Calib.states s (SolState.init g) steps) (SolState.init g)
    rw [hinit] at this
    exact this
  have hterms : r'.2 = (r.2.1 / (c * c), r.2.2) := by
    simp only [r, r']
    rw [runMle_eq_fold, runMle_eq_fold]
    have := scale_equivariance_terms s (SolState.init g) steps c hlin
    rw [hinit] at this
    rw [this]
    have h0 := mleFold_scale 0 0 (c * c) (Calib.terms s (SolState.init g) steps)
    simp only [zero_div] at h0
    exact h0
  have hs2 : s2' = s2 / (c * c) := by
    simp only [s2, s2', Solver.mleFinal, hterms]
    cases correct
    · simp
    · simp only [if_true]; rw [div_div, div_div, mul_comm]
  have hcc : c * c ≠ 0 := mul_ne_zero hc hc
  refine ⟨hst, by rw [hst]; rfl, hs2, ?_, ?_⟩
  · rw [hst, hs2]
    apply C08.Gauss.ext''
    · rfl
    · simp only [Gauss.rescale2, SolState.rescale, Gauss.rescale, toM_smul, smul_smul]
      congr 1; field_simp
  · rw [hst]; exact (rescale_moments r.1 c).2

/-- one step on the shipped IWP prior with squared total scale `s2` -/
def iwpStep (q : Nat) (s2 h : K) (lin : Vec (q + 1) K → Cond k (q + 1) K) (Gt : Mat (q + 1) (q + 1) K)
    (Gu : Mat (q + 1) k K) (W : Mat k k K) (size : K) : CalStep (q + 1) k K :=
  { tr := Iwp.transition1 q h s2, lin := lin, Gt := Gt, Gu := Gu, W := W, size := size }

/-- the same statements on the shipped IWP prior: the step built from `Iwp.transition1 q h (c²·s2)` is the rescaled
step built from `Iwp.transition1 q h s2`, so `scale_equivariance_states/_terms/_mle` apply to lists of them -/
theorem iwpStep_rescale (q : Nat) (s2 c h : K) (lin : Vec (q + 1) K → Cond k (q + 1) K) (Gt : Mat (q + 1) (q + 1) K)
    (Gu : Mat (q + 1) k K) (W : Mat k k K) (size : K) :
    iwpStep q (c * c * s2) h lin Gt Gu (Mat.smul (1 / (c * c)) W) size
      = (iwpStep q s2 h lin Gt Gu W size).rescale c := by
  simp only [iwpStep, CalStep.rescale]
  rw [iwp_transition1_scale]

/-! ### the local error estimate and the dynamic mode -/

/-- the mean-only prediction of the rescaled transition is the rescaled mean-only prediction -/
theorem dynamicSq_rescale (tr1 : PCond n n K) (lin : Vec n K → Cond k n K) (st : SolState n K) (W : Mat k k K) (f : K) :
    Solver.dynamicSq (tr1.rescaleNoise f) lin (st.rescale f) (Mat.smul (1 / (f * f)) W)
      = Solver.dynamicSq tr1 lin st W / (f * f) := by
  simp only [Solver.dynamicSq, rescale_mean]
  rw [pcond_applyPt_rescale]
  simp only [Cond.whitenedSq, Gauss.maha, Mat.bilin, dot_eq, Gauss.rescale, Cond.marg,
    toV_mulVec, toM_smul, toV_sub, toV_zero, toV_add, Matrix.smul_mulVec, dotProduct_smul, smul_eq_mul]
  field_simp

/-- **same error norms.** The squared local error estimate `σ̂²·diag(S)` of `error_residual_std` does not depend on
the base scale (`damp = 0`, `c ≠ 0`) — together with the identical means this gives identical acceptance decisions
and step-size proposals, hence the same accepted step sequence. -/
theorem errorVar_equivariant (tr1 : PCond n n K) (lin : Vec n K → Cond k n K) (st : SolState n K) (W : Mat k k K)
    (size c : K) (hc : c ≠ 0) (hlin : ∀ x, (lin x).Q.toM = 0) :
    Calib.errorVar (tr1.rescaleNoise c) lin (st.rescale c) (Mat.smul (1 / (c * c)) W) size
      = Calib.errorVar tr1 lin st W size := by
  have hcc : c * c ≠ 0 := mul_ne_zero hc hc
  simp only [Calib.errorVar, Solver.dynamicScale2, Calib.rms2]
  rw [dynamicSq_rescale]
  simp only [rescale_mean]
  rw [pcond_applyPt_rescale]
  have hm : ((tr1.applyPt st.u.mean).rescale c).mean = (tr1.applyPt st.u.mean).mean := rfl
  rw [hm]
  have h := cond_marg_rescale (lin (tr1.applyPt st.u.mean).mean) (tr1.applyPt st.u.mean) c
  rw [cond_rescale_of_noisefree _ c (hlin _)] at h
  rw [h]
  apply Vec.ext'
  funext i
  simp only [toV_smul, toV_diagVec, Gauss.rescale, toM_smul, Pi.smul_apply, Matrix.diag_apply, Matrix.smul_apply,
    smul_eq_mul]
  field_simp

/-- the certificate used by the rescaled dynamic step is valid: with a noise-free linearisation (`damp = 0`) the
innovation covariance of the mean-only prediction of the rescaled prior is `c²` times the original one, so
`W / c²` is its inverse whenever `W` inverts the original one -/
theorem dynamic_cert_rescale (tr1 : PCond n n K) (lin : Vec n K → Cond k n K) (st : SolState n K) (W : Mat k k K)
    (c : K) (hc : c ≠ 0) (hlin : ∀ x, (lin x).Q.toM = 0)
    (hW : (let up := tr1.applyPt st.u.mean; ((lin up.mean).marg up).cov.toM) * W.toM = 1) :
    (let up := (tr1.rescaleNoise c).applyPt st.u.mean; ((lin up.mean).marg up).cov.toM)
      * (Mat.smul (1 / (c * c)) W).toM = 1 := by
  simp only
  rw [pcond_applyPt_rescale]
  have hm : ((tr1.applyPt st.u.mean).rescale c).mean = (tr1.applyPt st.u.mean).mean := rfl
  rw [hm]
  have h := cond_marg_rescale (lin (tr1.applyPt st.u.mean).mean) (tr1.applyPt st.u.mean) c
  rw [cond_rescale_of_noisefree _ c (hlin _)] at h
  rw [h]
  have := inv_cert_rescale ((lin (tr1.applyPt st.u.mean).mean).marg (tr1.applyPt st.u.mean)).cov W c hc hW
  simpa [Gauss.rescale] using this

/-- **scale_equivariance (dynamic), one step.** If the transition depends on the output scale through its noise
only (`trOf σ² = (trOf 1)` with noise `× σ²`, as every shipped prior) and `c ≠ 0`, the dynamic step of the prior with
base scale `cΛ`, evaluated with the inverse certificate `W / c²`, returns the *same state* (means and calibrated
covariances) and a local scale² divided by `c²`: the local scale absorbs `c`.  The certificate `W / c²` is the valid
one exactly when the linearisation is noise-free (`dynamic_cert_rescale`, `damp = 0`); the initial covariance is
arbitrary here — the dynamic mode needs only `damp = 0`. -/
theorem scale_equivariance_dynamic_step (s : Strategy) (d : DynStep n k K) (st : SolState n K) (c : K) (hc : c ≠ 0)
    (hmk : ∀ x, d.trOf x = (d.trOf 1).scaleQ x) :
    Calib.stepDynamic s (d.rescale c) st = ((Calib.stepDynamic s d st).1, (Calib.stepDynamic s d st).2 / (c * c)) := by
  have hcc : c * c ≠ 0 := mul_ne_zero hc hc
  have h1 : (d.rescale c).trOf 1 = (d.trOf 1).rescaleNoise c := by
    simp only [DynStep.rescale, mul_one]
    rw [hmk (c * c)]
    rfl
  have hst : st.rescale 1 = st := uncalibrated_one st
  have hs2 : Solver.dynamicScale2 ((d.rescale c).trOf 1) (d.rescale c).lin st (d.rescale c).W (d.rescale c).size
      = Solver.dynamicScale2 (d.trOf 1) d.lin st d.W d.size / (c * c) := by
    simp only [Solver.dynamicScale2, Calib.rms2]
    rw [h1]
    have := dynamicSq_rescale (d.trOf 1) d.lin st d.W c
    have hm : (st.rescale c).u.mean = st.u.mean := rfl
    simp only [Solver.dynamicSq, hm] at this ⊢
    simp only [DynStep.rescale]
    rw [this]
    ring
  simp only [Calib.stepDynamic]
  rw [hs2]
  refine Prod.ext ?_ rfl
  simp only
  have h2 : (d.rescale c).trOf (Solver.dynamicScale2 (d.trOf 1) d.lin st d.W d.size / (c * c))
      = d.trOf (Solver.dynamicScale2 (d.trOf 1) d.lin st d.W d.size) := by
    simp only [DynStep.rescale]
    congr 1
    field_simp
  rw [h2, h1]
  simp only [Solver.stepDynamic]
  have hup : ((d.trOf 1).rescaleNoise c).applyPt st.u.mean = ((d.trOf 1).applyPt st.u.mean).rescale c :=
    pcond_applyPt_rescale _ _ _
  rw [hup]
  rfl

/-- **scale_equivariance (dynamic), whole runs**: identical states, every local scale² divided by `c²`. -/
theorem scale_equivariance_dynamic (s : Strategy) (st : SolState n K) (steps : List (DynStep n k K)) (c : K)
    (hc : c ≠ 0) (hmk : ∀ d ∈ steps, ∀ x, d.trOf x = (d.trOf 1).scaleQ x) :
    Calib.runDynamic s st (steps.map (DynStep.rescale · c))
      = (Calib.runDynamic s st steps).map (fun r => (r.1, r.2 / (c * c))) := by
  induction steps generalizing st with
  | nil => rfl
  | cons d rest ih =>
    have hd := hmk d (List.mem_cons_self ..)
    have hr : ∀ d' ∈ rest, ∀ x, d'.trOf x = (d'.trOf 1).scaleQ x := fun d' h => hmk d' (List.mem_cons_of_mem _ h)
    simp only [List.map_cons, Calib.runDynamic]
    rw [scale_equivariance_dynamic_step s d st c hc hd]
    congr 1
    exact ih _ hr

/-- the shipped IWP prior satisfies the hypothesis of the dynamic statement: `transition(dt, σ)` has noise
`σ²·h·λ²·H` -/
theorem iwp_trOf_scaleQ (q : Nat) (h lam2 x : K) :
    Iwp.transition1 q h (x * lam2) = (Iwp.transition1 q h (1 * lam2)).scaleQ x := by
  apply PCond.ext''
  · rfl
  · rfl
  · simp only [Iwp.transition1, PCond.scaleQ, toM_smul, smul_smul]
    congr 1; ring
  · rfl
  · rfl

/-! ## the hypotheses are needed: concrete counterexamples, and non-vacuity -/

section examples
/-- two-coefficient state `(x, x')`, transition `[[1,1],[0,1]]` with noise `s·[[1/3,1/2],[1/2,1]]` -/
def exTr (s : Rat) : PCond 2 2 Rat :=
  { A := ⟨fun i j => if i.val ≤ j.val then 1 else 0⟩, b := ⟨fun _ => 0⟩,
    Q := ⟨fun i j => s * (if i.val = 0 ∧ j.val = 0 then 1/3 else if i.val = 1 ∧ j.val = 1 then 1 else 1/2)⟩,
    tl := ⟨fun _ => 1⟩, tob := ⟨fun _ => 1⟩ }
/-- observe `x' − 1 = 0` with noise variance `r` (`r = damp²`) -/
def exLin (r : Rat) : Vec 2 Rat → Cond 1 2 Rat := fun _ =>
  { A := ⟨fun _ j => if j.val = 1 then 1 else 0⟩, b := ⟨fun _ => -1⟩, Q := ⟨fun _ _ => r⟩ }
def exInit (p : Rat) : SolState 2 Rat :=
  SolState.init { mean := ⟨fun _ => 0⟩, cov := ⟨fun i j => if i.val = 1 ∧ j.val = 1 then p else 0⟩ }
def exGain (a b : Rat) : Mat 2 1 Rat := ⟨fun i _ => if i.val = 0 then a else b⟩

/-- the scaled transition is the rescaled one (`c = 2`) -/
example : (exTr 4).Q.toM = ((exTr 1).rescaleNoise 2).Q.toM := by
  funext i j; simp only [exTr, PCond.rescaleNoise, Mat.toM, Mat.smul, get_ofFn, Matrix.of_apply]; ring_nf

/-- non-vacuity of `scale_equivariance_step`: exact init, `damp = 0`; the same gain `(1/2, 1)` is certified for
base scale 1 and base scale 2 and the posterior means coincide -/
example : let p := Strategy.filter.predict (exTr 1) (exInit 0) Mat.zero
    ((exLin 0) p.u.mean).gainOk p.u (exGain (1/2) 1) = true := by decide +kernel
example : let p := Strategy.filter.predict (exTr 4) (exInit 0) Mat.zero
    ((exLin 0) p.u.mean).gainOk p.u (exGain (1/2) 1) = true := by decide +kernel
example : (Solver.step .filter (exTr 4) (exLin 0) (exInit 0) Mat.zero (exGain (1/2) 1)).u.mean.beq
    (Solver.step .filter (exTr 1) (exLin 0) (exInit 0) Mat.zero (exGain (1/2) 1)).u.mean = true := by decide +kernel

/-- **the hypothesis `damp = 0` is needed.** Exact initial state, observation noise `damp² = 1`: with base scale 1
the certified gain is `(1/4, 1/2)` and the posterior mean of `x` is `1/4`; with base scale 2 (process noise `× 4`)
the certified gain is `(2/5, 4/5)` and the posterior mean is `2/5`. -/
theorem equivariance_fails_with_damp :
    (let p := Strategy.filter.predict (exTr 1) (exInit 0) Mat.zero
     ((exLin 1) p.u.mean).gainOk p.u (exGain (1/4) (1/2)) = true) ∧
    (let p := Strategy.filter.predict (exTr 4) (exInit 0) Mat.zero
     ((exLin 1) p.u.mean).gainOk p.u (exGain (2/5) (4/5)) = true) ∧
    (Solver.step .filter (exTr 1) (exLin 1) (exInit 0) Mat.zero (exGain (1/4) (1/2))).u.mean.get 0 = 1/4 ∧
    (Solver.step .filter (exTr 4) (exLin 1) (exInit 0) Mat.zero (exGain (2/5) (4/5))).u.mean.get 0 = 2/5 := by
  decide +kernel

/-- **the hypothesis "exact initial state" is needed.** `damp = 0`, initial variance 1 on `x'`: base scale 1 gives
the posterior mean `3/4` for `x`, base scale 2 gives `3/5`. -/
theorem equivariance_fails_inexact_init :
    (let p := Strategy.filter.predict (exTr 1) (exInit 1) Mat.zero
     ((exLin 0) p.u.mean).gainOk p.u (exGain (3/4) 1) = true) ∧
    (let p := Strategy.filter.predict (exTr 4) (exInit 1) Mat.zero
     ((exLin 0) p.u.mean).gainOk p.u (exGain (3/5) 1) = true) ∧
    (Solver.step .filter (exTr 1) (exLin 0) (exInit 1) Mat.zero (exGain (3/4) 1)).u.mean.get 0 = 3/4 ∧
    (Solver.step .filter (exTr 4) (exLin 0) (exInit 1) Mat.zero (exGain (3/5) 1)).u.mean.get 0 = 3/5 := by
  decide +kernel

/-- **the dynamic mode needs `damp = 0` as well** (but not the exact initial state): observation noise `damp² = 1`,
base scale 1: innovation `S = 2`, local scale² `= 1/2`; base scale 2: `S = 5`, local scale² `= 1/5 ≠ (1/2)/4`. -/
theorem dynamic_equivariance_fails_with_damp :
    Solver.dynamicScale2 (exTr 1) (exLin 1) (exInit 0) ⟨fun _ _ => 1/2⟩ 1 = 1/2 ∧
    Solver.dynamicScale2 (exTr 4) (exLin 1) (exInit 0) ⟨fun _ _ => 1/5⟩ 1 = 1/5 ∧
    (let up := (exTr 1).applyPt (exInit 0).u.mean; (((exLin 1) up.mean).marg up).cov.invOk ⟨fun _ _ => 1/2⟩ = true) ∧
    (let up := (exTr 4).applyPt (exInit 0).u.mean; (((exLin 1) up.mean).marg up).cov.invOk ⟨fun _ _ => 1/5⟩ = true) := by
  decide +kernel

/-- non-vacuity of `running_rms`: three terms -/
example : Solver.mleFold (0 : Rat) 0 [1, 2, 6] = (3, 3) := by decide +kernel
example : Solver.mleFinal true (3 : Rat) 3 = 1 := by decide +kernel
end examples

end Pdq.C04
