import Pdq.Lemmas.Jet
import Pdq.Lemmas.Expr
import Pdq.Lemmas.Doubling

/-!
# C10 — Taylor-coefficient initialisation returns the exact solution derivatives

All statements are about the executable definitions of `Pdq.Model.Expr` / `Pdq.Model.Jet` (the
definitions the driver `pdqdrv` runs at `Rat`), for every polynomial vector field, every order `K`
of the ODE, every dimension, every number of requested coefficients.

* `D_is_time_derivative`, `iterate_D_is_time_derivative`, `factorial_mul_coeff_eq`: the formal total
  derivative `D` is `d/dX` along every formal curve;
* `taylorCoeffs_solves`, `taylorCoeffs_exact`: the specification `taylorCoeffs` *is* the list of
  derivatives `u, u', …` of the (unique) formal power-series solution of the ODE;
* `jet_exact`: `jax.experimental.jet` with the `(t, 1, 0, …)` time series returns `[g, Dg, …, D^n g]`;
* `jet_increment_exact`, `unroll_exact`, `paddedScan_exact`: padded-scan / unroll = `taylorCoeffs`;
* `jvp_variant_spec`, `jvp_variant_exact_of_autonomous`, `jvp_variant_wrong_nonautonomous`: the
  recursive-JVP routine of the current code returns the Taylor coefficients of the ODE with the time
  *frozen* — exact iff the program does not mention `t` (defect D4); `jvp_aug_exact`: the repaired
  routine (time as an extra argument with tangent 1) is exact for every vector field;
* `doubling_spec`, `doubling_exact_of_autonomous`, `doubling_wrong_nonautonomous`: the same defect for the
  Newton-doubling routine; `doublingAug_exact`: the repaired routine (time series `(t, 1, 0, …)` in
  `jet_embedded`) is exact for every first-order polynomial vector field (`Lemmas/Doubling.lean`: second-order
  Taylor expansion of a polynomial program modulo `X^(2·deg)` + loop invariant of the inner scan);
* the residual route (`jetexpand_residual`): `C11.residual_route_determines`.
-/
set_option linter.unusedSectionVars false
open PowerSeries

namespace Pdq.C10
open Pdq Pdq.Expr Pdq.Jet
variable {K : Type}

section ring
variable [CommRing K]

/-- **Semantics of `D`**: along a formal curve `U` with `U k i ' = U (k+1) i` and a clock `T` with
`T' = 1`, the derivative of `g(U, T)` is `(D g)(U, T)` (C10/C11: "total time derivative … including
explicit time dependence"). -/
theorem D_is_time_derivative (U : ℕ → ℕ → K⟦X⟧) (T : K⟦X⟧)
    (hU : ∀ k i, d⁄dX K (U k i) = U (k + 1) i) (hT : d⁄dX K T = 1) (g : Expr K) :
    d⁄dX K (eval (C (R := K)) U T g) = eval (C (R := K)) U T (D g) := by
  induction g with
  | const a => simp [eval, D]
  | var k i => simp [eval, D, hU]
  | time => simp [eval, D, hT]
  | add p q ihp ihq => simp [eval, D, ihp, ihq]
  | mul p q ihp ihq =>
      simp only [eval, D, Derivation.leibniz, ihp, ihq, smul_eq_mul]
      ring
  | neg p ih => simp [eval, D, ih]

/-- iterated form: `(d/dX)^j g(U,T) = (D^j g)(U,T)` -/
theorem iterate_D_is_time_derivative (U : ℕ → ℕ → K⟦X⟧) (T : K⟦X⟧)
    (hU : ∀ k i, d⁄dX K (U k i) = U (k + 1) i) (hT : d⁄dX K T = 1) (g : Expr K) (j : ℕ) :
    (d⁄dX K)^[j] (eval (C (R := K)) U T g) = eval (C (R := K)) U T (iter D j g) := by
  induction j generalizing g with
  | zero => rfl
  | succ n ih =>
      rw [Function.iterate_succ_apply, D_is_time_derivative U T hU hT, ih]; rfl

/-- `j! · coeff_j (g(U,T)) = (D^j g)(u(0), t(0))` -/
theorem factorial_mul_coeff_eq (U : ℕ → ℕ → K⟦X⟧) (T : K⟦X⟧)
    (hU : ∀ k i, d⁄dX K (U k i) = U (k + 1) i) (hT : d⁄dX K T = 1) (g : Expr K) (j : ℕ) :
    (j.factorial : K) * coeff j (eval (C (R := K)) U T g)
      = eval id (fun k i => constantCoeff (U k i)) (constantCoeff T) (iter D j g) := by
  rw [← constantCoeff_iterate_derivative, iterate_D_is_time_derivative U T hU hT]
  rw [eval_hom (constantCoeff (R := K)) (map_add _) (map_mul _) (map_neg _)]
  simp
  rfl

end ring

variable [Field K] [CharZero K]

/-- **jet with the `(t, 1, 0, …)` time series returns the total time derivatives.** -/
theorem jet_exact_aux (fs : List (Expr K)) (c : List (List K)) (Kk n : ℕ) (t : K) (st : List K)
    (hst : st.length = n) (hst' : ∀ j, st.getD j 0 = if j = 0 then 1 else 0)
    (hord : ∀ f ∈ fs, f.order ≤ Kk) (hn : c.length = Kk + n) (hn1 : 1 ≤ n) :
    jet fs (argsAuto c Kk).1 (argsAuto c Kk).2 t st
      = tabulate (n + 1) fun j => fs.map fun f => eval id (getU c) t (iter D j f) := by
  subst hst
  unfold jet
  simp only []
  refine tabulate_congr fun j hj => ?_
  rw [List.map_map]
  refine List.map_congr_left fun f hf => ?_
  simp only [Function.comp]
  -- the formal curve through the supplied coefficients
  have hS : evalTS (st.length + 1)
      (fun k i => TSer.ofFn (st.length + 1) fun j => if j = 0 then getU (argsAuto c Kk).1 k i
        else getU ((argsAuto c Kk).2.getD k []) (j - 1) i / factK j)
      (TSer.ofFn (st.length + 1) fun j => if j = 0 then t else st.getD (j - 1) 0 / factK j) f
      = truncT (st.length + 1) (eval (C (R := K)) (curve (getU c)) (clock t) f) := by
    rw [eval_hom (truncT (st.length + 1)) (truncT_add _) (truncT_mul _) (truncT_neg _)]
    unfold evalTS
    have hT : (TSer.ofFn (st.length + 1) fun j => if j = 0 then t else st.getD (j - 1) 0 / factK j)
        = truncT (st.length + 1) (clock t) := by
      refine TSer.ofFn_congr fun j _ => ?_
      rw [clock_coeff, hst']
      rcases j with _ | _ | j
      · simp
      · simp [factK, natK]
      · simp
    rw [hT]
    have hc : (fun a => truncT (st.length + 1) (C (R := K) a)) = TSer.const (st.length + 1) := by
      funext a; exact truncT_C _ a
    rw [hc]
    refine eval_congr_order _ _ _ _ f fun k i hk => ?_
    have hkK : k < Kk := lt_of_lt_of_le hk (hord f hf)
    refine TSer.ofFn_congr fun j hj => ?_
    simp only [curve, coeff_mk]
    by_cases hj0 : j = 0
    · subst hj0; simp [argsAuto_fst, getU_take _ _ _ _ hkK]
    · rw [if_neg hj0, argsAuto_series c Kk k hkK (by omega), getU_drop_take _ _ _ _ _ (by omega), factK_eq]
      congr 2; omega
  rw [hS, truncT_get_lt hj, factK_eq, factorial_mul_coeff_eq _ _ (curve_deriv _) (clock_deriv t)]
  simp only [curve_const, clock_const]

theorem jet_exact (fs : List (Expr K)) (c : List (List K)) (Kk n : ℕ) (t : K)
    (hord : ∀ f ∈ fs, f.order ≤ Kk) (hn : c.length = Kk + n) (hn1 : 1 ≤ n) :
    jet fs (argsAuto c Kk).1 (argsAuto c Kk).2 t (seriesT n)
      = tabulate (n + 1) fun j => fs.map fun f => eval id (getU c) t (iter D j f) :=
  jet_exact_aux fs c Kk n t _ (seriesT_length hn1) (seriesT_getD n) hord hn hn1


/-- `jetexpand_ode_coefficient_increment` returns `[*tc[:K], f, Df, …, D^n f]` evaluated on `tc`
(`n = len tc − K`): one more correct coefficient -/
theorem jet_increment_exact (fs : List (Expr K)) (tc : List (List K)) (Kk n : ℕ) (t : K)
    (hord : ∀ f ∈ fs, f.order ≤ Kk) (hK : 1 ≤ Kk) (hn : tc.length = Kk + n) (hn1 : 1 ≤ n) :
    increment Kk fs tc t
      = tc.take Kk ++ tabulate (n + 1) fun j => fs.map fun f => evalOn tc t (iter D j f) := by
  unfold increment
  have hlen : ((argsAuto tc Kk).2.getD 0 []).length = n := by
    rw [argsAuto_series tc Kk 0 (by omega) (by omega)]
    simp; omega
  simp only [hlen]
  rw [jet_exact fs tc Kk n t hord hn hn1]
  rfl

theorem increment_eq_spec (fs : List (Expr K)) (tc : List (List K)) (Kk : ℕ) (t : K)
    (hord : ∀ f ∈ fs, f.order ≤ Kk) (hK : 1 ≤ Kk) (hn : Kk + 1 ≤ tc.length) :
    increment Kk fs tc t = incrementSpec fs t Kk tc := by
  rw [jet_increment_exact fs tc Kk (tc.length - Kk) t hord hK (by omega) (by omega)]
  rfl

/-- **`jetexpand_ode_unroll` returns the exact solution derivatives** for every polynomial vector
field (time-dependent or not), every order and every `num` -/
theorem unroll_exact (fs : List (Expr K)) (inits : List (List K)) (t : K) (num : ℕ)
    (hord : ∀ f ∈ fs, f.order ≤ inits.length) (hK : 1 ≤ inits.length) :
    unroll fs inits t num = taylorCoeffs fs inits t num := by
  unfold unroll
  split
  · next h => subst h; rfl
  · next h =>
    simp only []
    rw [← unrollSpec_eq fs inits t hord num (by omega)]
    refine (iter_congr_len _ _ (fun l => inits.length + 1 ≤ l.length) ?_ ?_ _ _ (by simp)).1
    · intro l hl
      rw [increment_eq_spec fs l _ t hord hK hl, incrementSpec_length _ _ _ _ (by omega)]; omega
    · intro l hl
      exact increment_eq_spec fs l _ t hord hK hl

/-- **`jetexpand_ode_padded_scan` returns the exact solution derivatives**: the zero padding and the
dropped last entry never influence the coefficients that are kept -/
theorem paddedScan_exact (fs : List (Expr K)) (inits : List (List K)) (t : K) (num : ℕ)
    (hord : ∀ f ∈ fs, f.order ≤ inits.length) (hK : 1 ≤ inits.length) :
    paddedScan fs inits t num = taylorCoeffs fs inits t num := by
  unfold paddedScan
  split
  · next h => subst h; rfl
  · next h =>
    simp only []
    split
    · next h1 => subst h1; rfl
    · next h1 =>
      rw [← scanSpec_eq fs inits t hord num ((evalVec fs inits t).map fun _ => 0) (by omega)]
      refine (iter_congr_len _ _ (fun l => l.length = inits.length + num) ?_ ?_ _ _
        (padTo_length _ _ _ (by simp; omega))).1
      · intro l hl
        rw [List.length_dropLast, increment_eq_spec fs l _ t hord hK (by omega),
          incrementSpec_length _ _ _ _ (by omega)]; omega
      · intro l hl
        rw [increment_eq_spec fs l _ t hord hK (by omega)]




/-- **`taylorCoeffs` defines a formal solution**: the curve `U_0 = Σ_j u_j X^j / j!` built from the
coefficients satisfies `U^(K) = f(U, U', …, t + X)` in `K⟦X⟧` -/
theorem taylorCoeffs_solves (fs : List (Expr K)) (inits : List (List K)) (t : K)
    (hord : ∀ f ∈ fs, f.order ≤ inits.length) (i : ℕ) :
    curve (tcSeq fs inits t) inits.length i
      = eval (C (R := K)) (curve (tcSeq fs inits t)) (clock t) (fs.getD i (const 0)) := by
  ext j
  have h := factorial_mul_coeff_eq (curve (tcSeq fs inits t)) (clock t) (curve_deriv _) (clock_deriv t)
    (fs.getD i (const 0)) j
  simp only [curve_const, clock_const] at h
  rw [← tcSeq_rec fs inits t hord j i] at h
  have hj : (j.factorial : K) ≠ 0 := by exact_mod_cast Nat.factorial_ne_zero j
  rw [← mul_right_inj' hj, h]
  simp only [curve, coeff_mk]
  field_simp



theorem iterate_shift (U : ℕ → ℕ → K⟦X⟧) (hU : ∀ k i, d⁄dX K (U k i) = U (k + 1) i) (k i n : ℕ) :
    (d⁄dX K)^[n] (U k i) = U (k + n) i := by
  induction n generalizing k with
  | zero => rfl
  | succ n ih => rw [Function.iterate_succ_apply, hU, ih]; congr 1; omega

/-- **the specification is the exact solution**: if `u` is *any* formal power-series solution of
`u^(K) = f(u, …, u^(K-1), t + X)` with the initial values `inits`, then its derivatives at `0`
(`n! · coeff_n`) are the entries of `taylorCoeffs`, for every `n` -/
theorem taylorCoeffs_exact (fs : List (Expr K)) (inits : List (List K)) (t : K)
    (U : ℕ → ℕ → K⟦X⟧) (T : K⟦X⟧)
    (hU : ∀ k i, d⁄dX K (U k i) = U (k + 1) i) (hT : d⁄dX K T = 1) (hT0 : constantCoeff T = t)
    (hord : ∀ f ∈ fs, f.order ≤ inits.length ∧ f.width ≤ fs.length)
    (hsol : ∀ i < fs.length, U inits.length i = eval (C (R := K)) U T (fs.getD i (const 0)))
    (hinit : ∀ k < inits.length, ∀ i < fs.length, constantCoeff (U k i) = getU inits k i)
    (n i : ℕ) (hi : i < fs.length) :
    (n.factorial : K) * coeff n (U 0 i) = tcSeq fs inits t n i := by
  have hord' : ∀ f ∈ fs, f.order ≤ inits.length := fun f hf => (hord f hf).1
  have key : ∀ n, ∀ i < fs.length, constantCoeff (U n i) = tcSeq fs inits t n i := by
    intro n
    induction n using Nat.strong_induction_on with
    | _ n ih =>
      intro i hi
      rcases Nat.lt_or_ge n inits.length with hn | hn
      · rw [hinit n hn i hi, tcSeq_inits fs inits t hn]
      · obtain ⟨j, rfl⟩ : ∃ j, n = inits.length + j := ⟨n - inits.length, by omega⟩
        rw [← iterate_shift U hU, hsol i hi, iterate_D_is_time_derivative U T hU hT,
          eval_hom (constantCoeff (R := K)) (map_add _) (map_mul _) (map_neg _), tcSeq_rec fs inits t hord']
        simp only [constantCoeff_C, hT0]
        have hmem : fs.getD i (const 0) ∈ fs := by
          simp [List.getD_eq_getElem?_getD, hi]
        refine eval_congr_ow _ _ _ _ _ fun k i' hk hi' => ?_
        have := order_iter_D_le (fs.getD i (const 0)) j
        have := width_iter_D_le (fs.getD i (const 0)) j
        have := hord _ hmem
        exact ih k (by omega) i' (by omega)
  rw [← constantCoeff_iterate_derivative, iterate_shift U hU, Nat.zero_add]
  exact key n i hi



/-- chain rule for the forward-mode recursion: along a curve that solves the first-order system
(`U_k' = U_{k+1}`, `U_{K-1}' = f(U, T)`) with a clock of speed `dt`, `d/dX h(U, T) = (lie h)(U, T)` -/
theorem lie_is_time_derivative (Kk : ℕ) (fs : List (Expr K)) (dt : K) (U : ℕ → ℕ → K⟦X⟧) (T : K⟦X⟧)
    (hU : ∀ k i, d⁄dX K (U k i) = U (k + 1) i) (hT : d⁄dX K T = C dt)
    (hsol : ∀ i, U Kk i = eval (C (R := K)) U T (fs.getD i (const 0)))
    (h : Expr K) (hord : h.order ≤ Kk) :
    d⁄dX K (eval (C (R := K)) U T h) = eval (C (R := K)) U T (lie Kk fs dt h) := by
  induction h with
  | const a => simp [eval, lie]
  | var k i =>
      simp only [Expr.order] at hord
      simp only [eval, lie, hU]
      split
      · rfl
      · rw [← hsol i]; congr 1; omega
  | time => simp [eval, lie, hT]
  | add p q ihp ihq =>
      simp only [Expr.order] at hord
      simp [eval, lie, ihp (by omega), ihq (by omega)]
  | mul p q ihp ihq =>
      simp only [Expr.order] at hord
      simp only [eval, lie, Derivation.leibniz, ihp (by omega), ihq (by omega), smul_eq_mul]
      ring
  | neg p ih =>
      simp only [Expr.order] at hord
      simp [eval, lie, ih hord]

theorem iterate_lie_is_time_derivative (Kk : ℕ) (fs : List (Expr K)) (dt : K) (U : ℕ → ℕ → K⟦X⟧) (T : K⟦X⟧)
    (hU : ∀ k i, d⁄dX K (U k i) = U (k + 1) i) (hT : d⁄dX K T = C dt)
    (hsol : ∀ i, U Kk i = eval (C (R := K)) U T (fs.getD i (const 0)))
    (hfs : ∀ f ∈ fs, f.order ≤ Kk) (h : Expr K) (hord : h.order ≤ Kk) (n : ℕ) :
    (d⁄dX K)^[n] (eval (C (R := K)) U T h) = eval (C (R := K)) U T (iter (lie Kk fs dt) n h) := by
  induction n generalizing h with
  | zero => rfl
  | succ n ih =>
      rw [Function.iterate_succ_apply, lie_is_time_derivative Kk fs dt U T hU hT hsol h hord,
        ih _ (order_lie_le Kk fs dt hfs h hord)]; rfl

/-- the `n`-th forward-mode iterate evaluated at the initial values is the `(K+n)`-th Taylor
coefficient of the ODE `u^(K) = f'(u, …, t + X)` whenever `f(·, T) = f'(·, t + X)` along every curve
(`f' = f`, `T = t + X`, `dt = 1`: time-augmented; `f' = freeze t f`, `T = t`, `dt = 0`: closure) -/
theorem lie_coeffs (fs fs' : List (Expr K)) (inits : List (List K)) (t dt : K) (T : K⟦X⟧)
    (hT : d⁄dX K T = C dt) (hT0 : constantCoeff T = t)
    (hrel : ∀ (U : ℕ → ℕ → K⟦X⟧) (i : ℕ), eval (C (R := K)) U T (fs.getD i (const 0))
      = eval (C (R := K)) U (clock t) (fs'.getD i (const 0)))
    (hfs : ∀ f ∈ fs, f.order ≤ inits.length) (hfs' : ∀ f ∈ fs', f.order ≤ inits.length)
    (n i : ℕ) (hi : i < fs.length) :
    evalOn inits t (iter (lie inits.length fs dt) n (fs.getD i (const 0)))
      = tcSeq fs' inits t (inits.length + n) i := by
  set U := curve (tcSeq fs' inits t) with hUdef
  have hmem : fs.getD i (const 0) ∈ fs := by simp [List.getD_eq_getElem?_getD, hi]
  have hsol : ∀ i, U inits.length i = eval (C (R := K)) U T (fs.getD i (const 0)) := fun i => by
    rw [hrel U i]; exact taylorCoeffs_solves fs' inits t hfs' i
  have h1 := iterate_lie_is_time_derivative inits.length fs dt U T (curve_deriv _) hT hsol hfs _
    (hfs _ hmem) n
  rw [← hsol i, hUdef, iterate_curve_deriv] at h1
  have h2 := congrArg (constantCoeff (R := K)) h1
  rw [curve_const, eval_hom (constantCoeff (R := K)) (map_add _) (map_mul _) (map_neg _)] at h2
  simp only [constantCoeff_C, hT0, curve_const] at h2
  rw [h2]
  refine eval_congr_order _ _ _ _ _ fun k i' hk => ?_
  have := order_iter_lie_le inits.length fs dt hfs _ (hfs _ hmem) n
  exact (tcSeq_inits fs' inits t (k := k) (by omega) i').symm

/-- generic form of the two JVP theorems -/
theorem jvp_generic (fs fs' : List (Expr K)) (inits : List (List K)) (t dt : K) (T : K⟦X⟧)
    (hT : d⁄dX K T = C dt) (hT0 : constantCoeff T = t)
    (hrel : ∀ (U : ℕ → ℕ → K⟦X⟧) (i : ℕ), eval (C (R := K)) U T (fs.getD i (const 0))
      = eval (C (R := K)) U (clock t) (fs'.getD i (const 0)))
    (hlen : fs'.length = fs.length)
    (hfs : ∀ f ∈ fs, f.order ≤ inits.length) (hfs' : ∀ f ∈ fs', f.order ≤ inits.length) (num : ℕ) :
    inits ++ tabulate num (fun n => fs.map fun f => evalOn inits t (iter (lie inits.length fs dt) n f))
      = taylorCoeffs fs' inits t num := by
  refine list_ext_getD [] (by simp [tc_length]) fun k hk => ?_
  rcases Nat.lt_or_ge k inits.length with hkK | hkK
  · rw [getD_append_left _ _ _ _ hkK, tc_inits fs' inits t num k hkK]
  · obtain ⟨n, rfl⟩ : ∃ n, k = inits.length + n := ⟨k - inits.length, by omega⟩
    have hn : n < num := by simp at hk; omega
    rw [getD_append_right, tabulate_getD_lt _ hn, tc_get fs' inits t hfs' hn]
    refine List.ext_getElem (by simp [hlen]) fun i h1 h2 => ?_
    simp only [List.getElem_map]
    have hi : i < fs.length := by simpa using h1
    have hi' : i < fs'.length := by omega
    have e1 : fs[i] = fs.getD i (const 0) := by simp [List.getD_eq_getElem?_getD, hi]
    have e2 : fs'[i] = fs'.getD i (const 0) := by simp [List.getD_eq_getElem?_getD, hi']
    rw [e1, e2, lie_coeffs fs fs' inits t dt T hT hT0 hrel hfs hfs' n i hi, tcSeq_rec fs' inits t hfs']
    refine (evalOn_tc_eq_tcSeq fs' inits t _ _ ?_).symm
    have := order_iter_D_le (fs'.getD i (const 0)) n
    have : fs'.getD i (const 0) ∈ fs' := by simp [List.getD_eq_getElem?_getD, hi']
    have := hfs' _ this
    omega

/-- **repaired recursive-JVP routine is exact** for every polynomial vector field, time-dependent or
not (`fixes/C10-jvp-time.diff`: time as an extra argument with tangent 1) -/
theorem jvp_aug_exact (fs : List (Expr K)) (inits : List (List K)) (t : K) (num : ℕ)
    (hord : ∀ f ∈ fs, f.order ≤ inits.length) :
    jvpVariantAug fs inits t num = taylorCoeffs fs inits t num := by
  unfold jvpVariantAug
  split
  · next h => subst h; rfl
  · exact jvp_generic fs fs inits t 1 (clock t) (by rw [clock_deriv]; simp) (clock_const t)
      (fun _ _ => rfl) rfl hord hord num

/-- **what `jetexpand_ode_via_jvp` of the current code computes** (defect D4): the Taylor
coefficients of the ODE with the time *frozen* at `t` -/
theorem jvp_variant_spec (fs : List (Expr K)) (inits : List (List K)) (t : K) (num : ℕ)
    (hord : ∀ f ∈ fs, f.order ≤ inits.length) :
    jvpVariant fs inits t num = taylorCoeffs (fs.map (freeze t)) inits t num := by
  unfold jvpVariant
  split
  · next h => subst h; rfl
  · refine jvp_generic fs (fs.map (freeze t)) inits t 0 (C t) (by simp) (by simp) ?_ (by simp) hord ?_ num
    · intro U i
      have : (fs.map (freeze t)).getD i (const 0) = freeze t (fs.getD i (const 0)) := by
        simp only [List.getD_eq_getElem?_getD, List.getElem?_map]
        rcases fs[i]? with _ | f <;> rfl
      rw [this, eval_freeze]
    · intro f hf
      obtain ⟨g, hg, rfl⟩ := List.mem_map.mp hf
      rw [order_freeze]; exact hord g hg

/-- the recursive-JVP routine of the current code is exact on autonomous vector fields -/
theorem jvp_variant_exact_of_autonomous (fs : List (Expr K)) (inits : List (List K)) (t : K) (num : ℕ)
    (hord : ∀ f ∈ fs, f.order ≤ inits.length) (haut : ∀ f ∈ fs, f.timeFree = true) :
    jvpVariant fs inits t num = taylorCoeffs fs inits t num := by
  rw [jvp_variant_spec fs inits t num hord]
  congr 1
  conv_rhs => rw [← List.map_id fs]
  exact List.map_congr_left fun f hf => freeze_of_timeFree t f (haut f hf)



/-! ## Newton doubling -/

/-- the solution curve of the first-order problem `u' = f'(u, t + X)`, `u(0) = u0`, and a program `fs`
with `f(·, Tps) = f'(·, t + X)`: it solves the ODE in the normalised-coefficient form used by `double` -/
theorem solvesODE_of_tcSeq (fs fs' : List (Expr K)) (u0 : List K) (t : K) (Tps : K⟦X⟧)
    (hlen : fs'.length = fs.length) (hord' : ∀ f ∈ fs', f.order ≤ 1)
    (hrel : ∀ (U : ℕ → ℕ → K⟦X⟧) (i : ℕ), eval (C (R := K)) U Tps (fs.getD i (const 0))
      = eval (C (R := K)) U (clock t) (fs'.getD i (const 0))) :
    SolvesODE fs (fun i => curve (tcSeq fs' [u0] t) 0 i) Tps := by
  intro a ha j
  have hsol := taylorCoeffs_solves fs' [u0] t (by simpa using hord') a
  have hd : d⁄dX K (curve (tcSeq fs' [u0] t) 0 a) = curve (tcSeq fs' [u0] t) 1 a := curve_deriv _ 0 a
  have h1 : coeff j (d⁄dX K (curve (tcSeq fs' [u0] t) 0 a))
      = coeff (j + 1) (curve (tcSeq fs' [u0] t) 0 a) * ((j : K) + 1) := coeff_derivative _ j
  rw [hd] at h1
  simp only [List.length_singleton] at hsol
  rw [hsol] at h1
  rw [hrel, Nat.cast_succ, mul_comm, ← h1]
  congr 1
  have hmem : fs'.getD a (const 0) ∈ fs' := by
    simp [List.getD_eq_getElem?_getD, show a < fs'.length by omega]
  refine eval_congr_order _ _ _ _ _ fun k i hk => ?_
  have := hord' _ hmem
  have : k = 0 := by omega
  subst this; rfl

/-- generic form: the doubling recursion with the time series `truncT Tps` computes the Taylor
coefficients of `u' = f'(u, t + X)` whenever `f(·, Tps) = f'(·, t + X)` -/
theorem doubling_generic (fs fs' : List (Expr K)) (u0 : List K) (t : K) (Tps : K⟦X⟧) (n : ℕ)
    (hlen : fs'.length = fs.length) (hu : u0.length = fs.length)
    (hord' : ∀ f ∈ fs', f.order ≤ 1) (hw : ∀ f ∈ fs, f.width ≤ fs.length)
    (hrel : ∀ (U : ℕ → ℕ → K⟦X⟧) (i : ℕ), eval (C (R := K)) U Tps (fs.getD i (const 0))
      = eval (C (R := K)) U (clock t) (fs'.getD i (const 0))) :
    factorialScale (iter (fun tc => double fs tc (truncT (2 * tc.length) Tps)) n [u0])
      = taylorCoeffs fs' [u0] t (dlen n - 1) := by
  have hode := solvesODE_of_tcSeq fs fs' u0 t Tps hlen hord' hrel
  have h0 : [u0] = tcOf fs (fun i => curve (tcSeq fs' [u0] t) 0 i) 1 := by
    unfold tcOf tabulate
    simp only [List.range_one, List.map_cons, List.map_nil, List.cons.injEq, and_true]
    unfold avec
    refine list_ext_getD 0 (by simp [hu]) fun i hi => ?_
    rw [tabulate_getD_lt _ (by omega)]
    simp only [curve, coeff_mk, Nat.zero_add, Nat.factorial_zero, Nat.cast_one, div_one]
    rw [tcSeq_inits fs' [u0] t (by simp)]
    rfl
  have hiter := iter_double_spec fs _ Tps hode hw n
  rw [← h0] at hiter
  rw [hiter, factorialScale_tcOf fs fs' u0 t _ hlen, tc_eq_tabulate fs' u0 t _ (by omega)]
  have := dlen_pos n
  congr 1; omega

/-- **the time-aware Newton-doubling routine (`fixes/C10-doubling-time.diff`) is exact** for every
first-order polynomial vector field, time-dependent or not -/
theorem doublingAug_exact (fs : List (Expr K)) (u0 : List K) (t : K) (n : ℕ)
    (hu : u0.length = fs.length) (hwf : ∀ f ∈ fs, f.order ≤ 1 ∧ f.width ≤ fs.length) :
    doublingAug fs u0 t n = taylorCoeffs fs [u0] t (dlen n - 1) := by
  unfold doublingAug
  have hT : (fun tc : List (List K) => double fs tc
        (TSer.ofFn _ fun j => if j = 0 then t else if j = 1 then 1 else 0))
      = fun tc => double fs tc (truncT (2 * tc.length) (clock t)) := by
    funext tc
    congr 1
    exact TSer.ofFn_congr fun j _ => (clock_coeff t j).symm
  rw [hT]
  exact doubling_generic fs fs u0 t (clock t) n rfl hu (fun f hf => (hwf f hf).1) (fun f hf => (hwf f hf).2)
    (fun _ _ => rfl)

/-- **what `jetexpand_ode_doubling_unroll` of the current code computes** (defect D4): the Taylor
coefficients of the ODE with the time frozen at `t` -/
theorem doubling_spec (fs : List (Expr K)) (u0 : List K) (t : K) (n : ℕ)
    (hu : u0.length = fs.length) (hwf : ∀ f ∈ fs, f.order ≤ 1 ∧ f.width ≤ fs.length) :
    doubling fs u0 t n = taylorCoeffs (fs.map (freeze t)) [u0] t (dlen n - 1) := by
  unfold doubling
  have hT : (fun tc : List (List K) => double fs tc (TSer.const _ t))
      = fun tc => double fs tc (truncT (2 * tc.length) (C t)) := by
    funext tc
    congr 1
    exact (truncT_C _ t).symm
  rw [hT]
  refine doubling_generic fs (fs.map (freeze t)) u0 t (C t) n (by simp) hu ?_ (fun f hf => (hwf f hf).2) ?_
  · intro f hf
    obtain ⟨g, hg, rfl⟩ := List.mem_map.mp hf
    rw [order_freeze]; exact (hwf g hg).1
  · intro U i
    have : (fs.map (freeze t)).getD i (const 0) = freeze t (fs.getD i (const 0)) := by
      simp only [List.getD_eq_getElem?_getD, List.getElem?_map]
      rcases fs[i]? with _ | f <;> rfl
    rw [this, eval_freeze]

/-- the doubling routine of the current code is exact on autonomous vector fields -/
theorem doubling_exact_of_autonomous (fs : List (Expr K)) (u0 : List K) (t : K) (n : ℕ)
    (hu : u0.length = fs.length) (hwf : ∀ f ∈ fs, f.order ≤ 1 ∧ f.width ≤ fs.length)
    (haut : ∀ f ∈ fs, f.timeFree = true) :
    doubling fs u0 t n = taylorCoeffs fs [u0] t (dlen n - 1) := by
  rw [doubling_spec fs u0 t n hu hwf]
  congr 1
  conv_rhs => rw [← List.map_id fs]
  exact List.map_congr_left fun f hf => freeze_of_timeFree t f (haut f hf)


/-! ## defect D4: concrete witnesses, and non-vacuity of the theorems above -/

/-- the witness of D4: `f(u, t) = t·u + t²` -/
def witnessD4 : Expr ℚ := add (mul time (var 0 0)) (mul time time)

/-- an autonomous test field: logistic `f(u) = u·(1 − u)` -/
def logistic : Expr ℚ := mul (var 0 0) (add (const 1) (neg (var 0 0)))

/-- **D4, recursive-JVP routine (current code)**: for `u' = t·u + t²`, `u(1/2) = 1` it returns
`[1, 3/4, 3/8, 3/16, 3/32]`; the solution derivatives are `[1, 3/4, 19/8, 75/16, 303/32]` -/
theorem jvp_variant_wrong_nonautonomous :
    jvpVariant [witnessD4] [[1]] (1/2) 4 = [[1], [3/4], [3/8], [3/16], [3/32]] ∧
    taylorCoeffs [witnessD4] [[1]] (1/2) 4 = [[1], [3/4], [19/8], [75/16], [303/32]] ∧
    jvpVariant [witnessD4] [[1]] (1/2) 4 ≠ taylorCoeffs [witnessD4] [[1]] (1/2) 4 := by
  decide +kernel

/-- **D4, Newton-doubling routine (current code)** on the same problem, two doublings -/
theorem doubling_wrong_nonautonomous :
    doubling [witnessD4] [1] (1/2) 2 = [[1], [3/4], [3/8], [3/16], [3/32], [3/64], [3/128]] ∧
    taylorCoeffs [witnessD4] [[1]] (1/2) 6
      = [[1], [3/4], [19/8], [75/16], [303/32], [1503/64], [7563/128]] ∧
    doubling [witnessD4] [1] (1/2) 2 ≠ taylorCoeffs [witnessD4] [[1]] (1/2) 6 := by
  decide +kernel

/-- the time-aware doubling routine (`fixes/C10-doubling-time.diff`) on the witness, and both variants on
an autonomous field (instances of `doublingAug_exact` / `doubling_exact_of_autonomous`, here by kernel
evaluation of the executable model) -/
theorem doubling_witnesses :
    doublingAug [witnessD4] [1] (1/2) 2 = taylorCoeffs [witnessD4] [[1]] (1/2) 6 ∧
    doubling [logistic] [1/3] (1/2) 2 = taylorCoeffs [logistic] [[1/3]] (1/2) 6 ∧
    doublingAug [logistic] [1/3] (1/2) 2 = taylorCoeffs [logistic] [[1/3]] (1/2) 6 := by
  decide +kernel

/-! ### non-vacuity -/

theorem witness_ord : ∀ f ∈ [witnessD4], f.order ≤ ([[1]] : List (List ℚ)).length := by decide
theorem logistic_ord : ∀ f ∈ [logistic], f.order ≤ ([[1/3]] : List (List ℚ)).length := by decide

/-- `D_is_time_derivative`, `taylorCoeffs_exact`: a curve with the required properties exists (the one
built from `taylorCoeffs`), for the time-dependent witness -/
example : ∃ (U : ℕ → ℕ → ℚ⟦X⟧) (T : ℚ⟦X⟧), (∀ k i, d⁄dX ℚ (U k i) = U (k + 1) i) ∧ d⁄dX ℚ T = 1 ∧
    constantCoeff T = 1/2 ∧
    (∀ i < 1, U 1 i = eval (C (R := ℚ)) U T ([witnessD4].getD i (const 0))) ∧
    (∀ k < 1, ∀ i < 1, constantCoeff (U k i) = getU [[1]] k i) :=
  ⟨curve (tcSeq [witnessD4] [[1]] (1/2)), clock (1/2), curve_deriv _, clock_deriv _, clock_const _,
    fun i _ => taylorCoeffs_solves [witnessD4] [[1]] (1/2) witness_ord i,
    fun k hk i _ => by rw [curve_const]; exact tcSeq_inits _ _ _ hk i⟩

example : unroll [witnessD4] [[1]] (1/2) 4 = [[1], [3/4], [19/8], [75/16], [303/32]] := by
  rw [unroll_exact _ _ _ _ witness_ord (by decide)]; exact jvp_variant_wrong_nonautonomous.2.1

example : paddedScan [witnessD4] [[1]] (1/2) 4 = [[1], [3/4], [19/8], [75/16], [303/32]] := by
  rw [paddedScan_exact _ _ _ _ witness_ord (by decide)]; exact jvp_variant_wrong_nonautonomous.2.1

example : jvpVariantAug [witnessD4] [[1]] (1/2) 4 = [[1], [3/4], [19/8], [75/16], [303/32]] := by
  rw [jvp_aug_exact _ _ _ _ witness_ord]; exact jvp_variant_wrong_nonautonomous.2.1

example : jvpVariant [logistic] [[1/3]] (1/2) 5 = taylorCoeffs [logistic] [[1/3]] (1/2) 5 :=
  jvp_variant_exact_of_autonomous _ _ _ _ logistic_ord (by decide)

example : jet [witnessD4] (argsAuto [[1], [3/4], [19/8]] 1).1 (argsAuto [[1], [3/4], [19/8]] 1).2 (1/2 : ℚ)
    (seriesT 2) = [[3/4], [19/8], [75/16]] := by
  rw [jet_exact [witnessD4] [[1], [3/4], [19/8]] 1 2 (1/2) witness_ord rfl (by decide)]
  decide +kernel



theorem witness_wf : ∀ f ∈ [witnessD4], f.order ≤ 1 ∧ f.width ≤ [witnessD4].length := by decide
theorem logistic_wf : ∀ f ∈ [logistic], f.order ≤ 1 ∧ f.width ≤ [logistic].length := by decide

example : doublingAug [witnessD4] [1] (1/2) 2 = taylorCoeffs [witnessD4] [[1]] (1/2) 6 :=
  doublingAug_exact [witnessD4] [1] (1/2) 2 rfl witness_wf

example : doubling [logistic] [1/3] (1/2) 3 = taylorCoeffs [logistic] [[1/3]] (1/2) 14 :=
  doubling_exact_of_autonomous [logistic] [1/3] (1/2) 3 rfl logistic_wf (by decide)

end Pdq.C10
