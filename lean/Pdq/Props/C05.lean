import Pdq.Model.Interp
import Pdq.Props.C08
import Pdq.Props.C03
import Pdq.Props.C09
/-!
# C05 — Checkpoint values do not depend on the checkpoint set; they interpolate exactly
## Part 1: the interpolation algebra (strategy level)

(The loop-level statement — the accepted step sequence does not depend on the checkpoint set — is in
`Pdq/Props/C05Loop.lean`, on top of the adaptive-loop model.)
-/
set_option linter.unusedSectionVars false
open Matrix

namespace Pdq.C05
variable {K : Type} [Field K] {n : Nat}

/-- interpolation never changes the marginal from which stepping continues: `step_from` keeps the marginal of
the right end point, for every strategy, both at and beyond a checkpoint.  (This is what makes the accepted
step sequence independent of the checkpoints: `solver.step` only reads this marginal.) -/
theorem interp_stepFrom_marginal (s : Strategy) (p0 p1 : SolState n K) (tr0t trt1 : PCond n n K)
    (G0 G1 : Mat n n K) :
    (s.interpolate p0 p1 tr0t trt1 G0 G1).stepFrom.u = p1.u ∧ (s.interpolateAtT1 p1).stepFrom.u = p1.u := by
  cases s <;> exact ⟨rfl, rfl⟩

/-- the reported checkpoint value of every strategy is the prediction from the preceding state -/
theorem interp_is_prediction (s : Strategy) (p0 p1 : SolState n K) (tr0t trt1 : PCond n n K)
    (G0 G1 : Mat n n K) :
    (s.interpolate p0 p1 tr0t trt1 G0 G1).interpolated.u.mean.toV = (tr0t.marg p0.u).mean.toV ∧
    (s.interpolate p0 p1 tr0t trt1 G0 G1).interpolated.u.cov.toM = (tr0t.marg p0.u).cov.toM := by
  cases s
  · exact ⟨rfl, rfl⟩
  · exact C08.revert_obs tr0t p0.u G0
  · exact C08.revert_obs tr0t p0.u G0

/-- **filter: predicting `t0 → s → t` equals predicting `t0 → t`.** If the two transitions compose to the
transition over the whole interval after removal of the scalings (the semigroup property of the prior,
`C09.iwp_semigroup`), a checkpoint in between changes nothing: a superset of checkpoints reproduces the
subset's means and covariances. -/
theorem predict_via_checkpoint (tr1 tr2 tr12 : PCond n n K) (g : Gauss n K)
    (hA : (tr2.merge tr1).den.A.toM = tr12.den.A.toM) (hb : (tr2.merge tr1).den.b.toV = tr12.den.b.toV)
    (hQ : (tr2.merge tr1).den.Q.toM = tr12.den.Q.toM) :
    (tr2.marg (tr1.marg g)).mean.toV = (tr12.marg g).mean.toV ∧
    (tr2.marg (tr1.marg g)).cov.toM = (tr12.marg g).cov.toM := by
  obtain ⟨h1, h2⟩ := C08.pmarg_pmerge tr2 tr1 g
  obtain ⟨h3, h4⟩ := C08.marg_den (tr2.merge tr1) g
  obtain ⟨h5, h6⟩ := C08.marg_den tr12 g
  have hden : (tr2.merge tr1).den = tr12.den := C08.Cond.ext'' hA hb hQ
  constructor
  · rw [← h1, h3, hden, ← h5]
  · rw [← h2, h4, hden, ← h6]

/-- **reversal over two sub-steps = reversal over the whole step.** For plain conditionals: the composition of the
two backward kernels (gains `Ga`, `Gb`) *is* the backward kernel of the merged forward kernel for the gain
`Ga·Gb`, and that product is a certified gain of the merged problem whenever `Ga`, `Gb` are certified.
No invertibility is used. -/
theorem revert_merge (c1 c2 : Cond n n K) (g : Gauss n K) (Ga Gb : Mat n n K) :
    let ra := c1.revertWith g Ga
    let rb := c2.revertWith ra.1 Gb
    let rm := (c2.merge c1).revertWith g (Ga.mul Gb)
    (ra.2.merge rb.2).A.toM = rm.2.A.toM ∧ (ra.2.merge rb.2).b.toV = rm.2.b.toV ∧
      (ra.2.merge rb.2).Q.toM = rm.2.Q.toM ∧ rb.1.mean.toV = rm.1.mean.toV ∧ rb.1.cov.toM = rm.1.cov.toM := by
  intro ra rb rm
  refine ⟨?_, ?_, ?_, ?_, ?_⟩
  · simp [ra, rb, rm, Cond.merge, Cond.revertWith]
  · simp only [ra, rb, rm, Cond.merge, Cond.revertWith, Cond.marg, toV_add, toV_sub, toV_mulVec, toM_mul,
      Matrix.mulVec_add, Matrix.mulVec_sub, Matrix.mulVec_mulVec, Matrix.mul_assoc]
    abel
  · simp only [ra, rb, rm, Cond.merge, Cond.revertWith, Cond.marg, toM_add, toM_sub, toM_mul, toM_tr,
      Matrix.transpose_mul, Matrix.mul_add, Matrix.add_mul, Matrix.mul_sub, Matrix.sub_mul, Matrix.mul_assoc]
    abel
  · simp [ra, rb, rm, Cond.merge, Cond.revertWith, Cond.marg, Matrix.mulVec_add, Matrix.mulVec_mulVec, add_assoc]
  · simp only [ra, rb, rm, Cond.merge, Cond.revertWith, Cond.marg, toM_add, toM_mul, toM_tr,
      Matrix.transpose_mul, Matrix.mul_add, Matrix.add_mul, Matrix.mul_assoc, add_assoc]

theorem revert_merge_gain (c1 c2 : Cond n n K) (g : Gauss n K) (Ga Gb : Mat n n K)
    (ha : Ga.toM * (c1.marg g).cov.toM = (c1.cross g).toM)
    (hb : Gb.toM * (c2.marg (c1.marg g)).cov.toM = (c2.cross (c1.marg g)).toM) :
    (Ga.mul Gb).toM * ((c2.merge c1).marg g).cov.toM = ((c2.merge c1).cross g).toM := by
  have hm := (C08.marg_merge c2 c1 g).2
  rw [hm, toM_mul, Matrix.mul_assoc, hb]
  simp only [Cond.cross, Cond.merge, toM_mul, toM_tr, Matrix.transpose_mul] at ha ⊢
  rw [← Matrix.mul_assoc, ha, Matrix.mul_assoc]

/-- **smoother: inserting an unobserved node changes no other marginal.** With fixed-interval smoothing the two
backward conditionals created by an interpolation (`t1 → t` stored in `step_from`, `t → t0` stored in the
interpolated state), read after removal of the scalings, compose to the backward conditional of the single
step `t0 → t1` through the composed transition for the gain product — hence marginalising any later smoothed
marginal through them gives what the direct step gives (`C03.rts_update`). -/
theorem smoother_interp_exact (p0 p1 : SolState n K) (tr0t trt1 : PCond n n K) (G0 G1 : Mat n n K) (s1 : Gauss n K)
    (hl0 : ∀ i, tr0t.tl.toV i ≠ 0) (ho0 : ∀ i, tr0t.tob.toV i ≠ 0)
    (hl1 : ∀ i, trt1.tl.toV i ≠ 0) (ho1 : ∀ i, trt1.tob.toV i ≠ 0) :
    let o := Strategy.fixedInterval.interpolate p0 p1 tr0t trt1 G0 G1
    let direct := ((trt1.den.merge tr0t.den).revertWith p0.u ((C08.denGain tr0t G0).mul (C08.denGain trt1 G1))).2
    (o.interpolated.bw.marg (o.stepFrom.bw.marg s1)).mean.toV = (direct.marg s1).mean.toV ∧
    (o.interpolated.bw.marg (o.stepFrom.bw.marg s1)).cov.toM = (direct.marg s1).cov.toM := by
  intro o direct
  -- remove the scalings from both stored conditionals
  have hA : o.interpolated.bw.den = (tr0t.den.revertWith p0.u (C08.denGain tr0t G0)).2 := by
    obtain ⟨h1, h2, h3⟩ := C08.revert_den tr0t p0.u G0 hl0 ho0
    exact C08.Cond.ext'' h1 h2 h3
  have hobs : (Strategy.fixedInterval.predict tr0t p0 G0).u = (tr0t.den.revertWith p0.u (C08.denGain tr0t G0)).1 := by
    obtain ⟨h1, h2⟩ := C08.revert_obs tr0t p0.u G0
    obtain ⟨h3, h4⟩ := C08.marg_den tr0t p0.u
    exact C08.Gauss.ext'' (h1.trans h3) (h2.trans h4)
  have hB : o.stepFrom.bw.den
      = (trt1.den.revertWith (tr0t.den.revertWith p0.u (C08.denGain tr0t G0)).1 (C08.denGain trt1 G1)).2 := by
    obtain ⟨h1, h2, h3⟩ := C08.revert_den trt1 (Strategy.fixedInterval.predict tr0t p0 G0).u G1 hl1 ho1
    have hB' : o.stepFrom.bw.den
        = (trt1.den.revertWith (Strategy.fixedInterval.predict tr0t p0 G0).u (C08.denGain trt1 G1)).2 :=
      C08.Cond.ext'' h1 h2 h3
    rw [hB', hobs]
  obtain ⟨m1, m2⟩ := C08.marg_den o.stepFrom.bw s1
  have hs : o.stepFrom.bw.marg s1 = o.stepFrom.bw.den.marg s1 := C08.Gauss.ext'' m1 m2
  obtain ⟨m3, m4⟩ := C08.marg_den o.interpolated.bw (o.stepFrom.bw.marg s1)
  obtain ⟨r1, r2, r3, _, _⟩ := revert_merge tr0t.den trt1.den p0.u (C08.denGain tr0t G0) (C08.denGain trt1 G1)
  have hcomp : (o.interpolated.bw.den.merge o.stepFrom.bw.den) = direct := by
    rw [hA, hB]; exact C08.Cond.ext'' r1 r2 r3
  obtain ⟨c1, c2⟩ := C08.marg_merge o.interpolated.bw.den o.stepFrom.bw.den s1
  rw [m3, m4, hs, ← c1, ← c2, hcomp]
  exact ⟨rfl, rfl⟩

/-- `offgrid_marginals` of the fixed-interval smoother is the backward marginalisation through the conditional
that an interpolation at the same time stores in `step_from` -/
theorem offgrid_eq_interp (p0 p1 : SolState n K) (tr0t trt1 : PCond n n K) (G0 G1 : Mat n n K) (s1 : Gauss n K) :
    offgridFixedInterval p0.u s1 tr0t trt1 G0 G1
      = (Strategy.fixedInterval.interpolate p0 p1 tr0t trt1 G0 G1).stepFrom.bw.marg s1 := rfl

/-- at a checkpoint that coincides with a step end nothing is recomputed: the reported state is the stepped state -/
theorem at_t1_reports_state (s : Strategy) (p1 : SolState n K) : (s.interpolateAtT1 p1).interpolated = p1 := by
  cases s <;> rfl

/-- **filter_interp_exact for the shipped prior.** For the integrated Wiener process the premise of
`predict_via_checkpoint` is `C09.iwp_semigroup`: predicting over `h₁` to a checkpoint and then over `h₂` gives
exactly the prediction over `h₁ + h₂` — means and covariances — for every order, every scale and every Gaussian. -/
theorem filter_interp_exact_iwp [CharZero K] (q : ℕ) (h1 h2 s2 : K) (hh1 : h1 ≠ 0) (hh2 : h2 ≠ 0) (hh : h1 + h2 ≠ 0)
    (g : Gauss (q + 1) K) :
    ((Iwp.transition1 q h2 s2).marg ((Iwp.transition1 q h1 s2).marg g)).mean.toV
        = ((Iwp.transition1 q (h1 + h2) s2).marg g).mean.toV ∧
    ((Iwp.transition1 q h2 s2).marg ((Iwp.transition1 q h1 s2).marg g)).cov.toM
        = ((Iwp.transition1 q (h1 + h2) s2).marg g).cov.toM := by
  have h := C09.iwp_semigroup q h1 h2 s2 hh1 hh2 hh
  exact predict_via_checkpoint _ _ _ g (by rw [h]) (by rw [h]) (by rw [h])

end Pdq.C05
