import Pdq.Lemmas.AdaptiveInv
import Pdq.Drv.Adaptive
import Pdq.Generated.Consts
import Mathlib.Tactic.NormNum
import Mathlib.Tactic.FieldSimp
import Mathlib.Algebra.Order.Field.Rat

/-!
# C06 — Adaptive step control is safe for every accept/reject history

All statements are about the executable definitions of `Pdq.Model.Adaptive` / `Pdq.Model.Control`
(the ones `pdqdrv` runs at `Rat`), instantiated at an arbitrary ordered field `K`, for every fuel,
every solver / error estimator satisfying the protocol (`SolverLaws`; the estimator is arbitrary), every
controller satisfying the stated contract (proved for the two shipped controllers), every checkpoint list.

A *run* is any state reachable by repeated `RejectionLoop.loop` calls from `RejectionLoop.init`
(`Run`); `solve_adaptive_save_at`, `solve_adaptive_terminal_values` and `solve_adaptive_save_every_step`
only produce runs (`save_at_run`, `terminal_run`, `every_step_run`).  The ghost trace of a run lists, newest
first, every attempt (`solver.step` + `estimate_error_norm` + `control.apply`), every interpolation branch
and every solution handed back.
-/
set_option linter.unusedSectionVars false

namespace Pdq.C06
open Pdq
variable {K : Type} [Field K] [LinearOrder K] [IsStrictOrderedRing K] {σ : Type}

/-! ## the three solvers only produce runs -/

/-- `solve_adaptive_save_at`: the final state is a run over the checkpoints (non-decreasing targets if the
checkpoints are sorted) -/
theorem save_at_run (cfg : Cfg K σ) (eps : K) (fuelA fuelR u : Nat) (t0 : K) (ts : List K) (dt0 : K)
    (res : SolveResult K σ) (h : cfg.solveSaveAt fuelA fuelR u (t0 :: ts) dt0 eps = some res) :
    Run cfg eps AnyT (cfg.solver.init t0 u) dt0 t0 res.final ∧
    ((t0 :: ts).Pairwise (· ≤ ·) → Run cfg eps (· ≤ ·) (cfg.solver.init t0 u) dt0 t0 res.final) :=
  ⟨(solveSaveAt_reach cfg eps AnyT (fun _ => trivial) fuelA fuelR u t0 ts dt0 res (chainR_true t0 ts) h).2.1,
   fun hs => (solveSaveAt_reach cfg eps (· ≤ ·) (fun _ => le_refl _) fuelA fuelR u t0 ts dt0 res
     (chainR_of_pairwise t0 ts hs) h).2.1⟩

/-- `solve_adaptive_terminal_values` is `solve_adaptive_save_at` on `[t0, t1]` -/
theorem terminal_is_save_at (cfg : Cfg K σ) (eps : K) (fuelA fuelR u : Nat) (t0 t1 dt0 : K) (y : LSolState K)
    (st : TimeStepState K σ) (h : cfg.solveTerminal fuelA fuelR u t0 t1 dt0 eps = some (y, st)) :
    ∃ s0, cfg.solveSaveAt fuelA fuelR u [t0, t1] dt0 eps = some { solution0 := s0, solution := [y], final := st } := by
  unfold Cfg.solveTerminal at h
  split at h
  · next s0 y' st' heq =>
    injection h with h; injection h with h1 h2; subst h1; subst h2
    exact ⟨s0, heq⟩
  · cases h

theorem terminal_run (cfg : Cfg K σ) (eps : K) (fuelA fuelR u : Nat) (t0 t1 dt0 : K) (y : LSolState K)
    (st : TimeStepState K σ) (h : cfg.solveTerminal fuelA fuelR u t0 t1 dt0 eps = some (y, st)) :
    Run cfg eps AnyT (cfg.solver.init t0 u) dt0 t0 st ∧
    (t0 ≤ t1 → Run cfg eps (· ≤ ·) (cfg.solver.init t0 u) dt0 t0 st) := by
  obtain ⟨s0, hs⟩ := terminal_is_save_at cfg eps fuelA fuelR u t0 t1 dt0 y st h
  have := save_at_run cfg eps fuelA fuelR u t0 [t1] dt0 _ hs
  exact ⟨this.1, fun hle => this.2 (by simp [hle])⟩

/-- `test_util.solve_adaptive_save_every_step` (when it terminates), for the shipped loop condition
(`withEps = false`) and for the repaired one (`withEps = true`) -/
theorem every_step_run (cfg : Cfg K σ) (withEps : Bool) (eps : K) (fuelA fuelR u : Nat) (t0 t1 dt0 : K)
    (res : SolveResult K σ) (h : cfg.solveEveryStep withEps fuelA fuelR u t0 t1 dt0 eps = some res) :
    Run cfg eps AnyT (cfg.solver.init t0 u) dt0 t0 res.final ∧
    (t0 ≤ t1 → Run cfg eps (· ≤ ·) (cfg.solver.init t0 u) dt0 t0 res.final) :=
  ⟨(solveEveryStep_reach cfg withEps eps AnyT (fun _ => trivial) fuelA fuelR u t0 t1 dt0 res trivial h).2.1,
   fun hle =>
    (solveEveryStep_reach cfg withEps eps (· ≤ ·) (fun _ => le_refl _) fuelA fuelR u t0 t1 dt0 res hle h).2.1⟩

/-- driving `RejectionLoop.init` / `RejectionLoop.loop` directly with *arbitrary* (unsorted, repeated) targets
produces a run; one solution is handed back per call, in order -/
theorem loop_seq_run (cfg : Cfg K σ) (eps : K) (fuelR u : Nat) (t0 : K) (targets : List K) (dt0 : K)
    (res : SolveResult K σ) (h : cfg.solveLoopSeq fuelR u t0 targets dt0 eps = some res) :
    Run cfg eps AnyT (cfg.solver.init t0 u) dt0 t0 res.final ∧
    outputsOf res.final.trace = List.zip targets res.solution ∧ res.solution.length = targets.length := by
  unfold Cfg.solveLoopSeq at h
  simp only at h
  split at h
  · cases h
  · next ys sf hw =>
    injection h with h
    subst h
    obtain ⟨h1, h2, h3⟩ := loopSeq_reach cfg eps (cfg.init (cfg.solver.init t0 u) dt0) t0 fuelR targets t0 _ ys sf
      Reach.init hw
    refine ⟨h1, ?_, h3⟩
    rw [h2]; simp [Cfg.init, outputsOf]

/-! ## accepted_only — time advances only through attempts whose `error_power` passed the test -/

/-- **accepted_only** (run level).  The time of `step_from` is the initial time plus the step sizes of exactly
those attempts whose `error_power` was not `< 1` (`accSum`); rejected attempts and interpolations contribute
nothing. -/
theorem accepted_only (cfg : Cfg K σ) (hlaws : SolverLaws cfg.solver) (hseed : cfg.seed < 1) {eps : K}
    {R : K → K → Prop} {sol0 : LSolState K} {dt0 t0 : K} {s : TimeStepState K σ}
    (h : Run cfg eps R sol0 dt0 t0 s) : s.stepFrom.t = sol0.t + accSum s.trace := by
  obtain ⟨_, hr⟩ := h
  exact (hr.sums hlaws hseed sol0.t sol0.numSteps (sums_init cfg sol0 dt0)).time

/-- **accepted_only** (step level).  `RejectionLoop.step` returns the state proposed by its *last* attempt, that
attempt has `error_power ≥ 1`, started from the old `step_from`, and the old `step_from` becomes `interp_from`. -/
theorem step_accepts (cfg : Cfg K σ) (hseed : cfg.seed < 1) (fuel : Nat) (s s' : TimeStepState K σ) (t1 : K)
    (h : cfg.step fuel s t1 = some s') :
    ∃ a tl, s'.trace = Event.attempt a :: tl ∧ 1 ≤ a.ep ∧ a.src = s.stepFrom ∧ a.esIn = s.errorStepFrom ∧
      s'.stepFrom = a.proposed ∧ s'.interpFrom = s.stepFrom ∧ s'.dt = a.dtNew ∧ s'.errorStepFrom = a.esOut := by
  obtain ⟨r, hr, hacc, rfl⟩ := step_ind cfg t1 s s' fuel
    (fun r => r.stepFrom = s.stepFrom ∧ r.errorStepFrom = s.errorStepFrom ∧
      (r.acceptanceFactorProposed = cfg.seed ∨ ∃ a tl, r.trace = Event.attempt a :: tl ∧
        a.ep = r.acceptanceFactorProposed ∧ a.src = s.stepFrom ∧ a.esIn = s.errorStepFrom ∧
        r.proposed = a.proposed ∧ r.dt = a.dtNew ∧ r.errorProposed = a.esOut))
    ⟨rfl, rfl, Or.inl rfl⟩
    (fun r hr _ => ⟨hr.1, hr.2.1, Or.inr ⟨_, _, stepAttempt_trace cfg t1 r, rfl, hr.1, hr.2.1, rfl, rfl, rfl⟩⟩) h
  obtain ⟨h1, _, h3⟩ := hr
  rcases h3 with h3 | ⟨a, tl, g1, g2, g3, g4, g5, g6, g7⟩
  · exact absurd (h3 ▸ hseed) hacc
  · exact ⟨a, tl, g1, not_lt.mp (g2 ▸ hacc), g3, g4, g5, h1, g6, g7⟩

/-! ## num_steps_eq_accepted -/

/-- **num_steps_eq_accepted.**  The step counter of `step_from` is the initial counter plus the number of accepted
attempts, and every solution handed back carries the number of attempts accepted before it was handed back. -/
theorem num_steps_eq_accepted (cfg : Cfg K σ) (hlaws : SolverLaws cfg.solver) (hseed : cfg.seed < 1) {eps : K}
    {R : K → K → Prop} {sol0 : LSolState K} {dt0 t0 : K} {s : TimeStepState K σ}
    (h : Run cfg eps R sol0 dt0 t0 s) :
    s.stepFrom.numSteps = sol0.numSteps + accCount s.trace ∧ OutputsOK sol0.numSteps s.trace := by
  obtain ⟨_, hr⟩ := h
  have := hr.sums hlaws hseed sol0.t sol0.numSteps (sums_init cfg sol0 dt0)
  exact ⟨this.steps, this.outs⟩

/-! ## reject_preserves_state -/

/-- **reject_preserves_state** (attempt level): `step_attempt` never touches `step_from` / `error_step_from`. -/
theorem attempt_preserves_state (cfg : Cfg K σ) (t1 : K) (r : RejState K σ) :
    (cfg.stepAttempt t1 r).stepFrom = r.stepFrom ∧ (cfg.stepAttempt t1 r).errorStepFrom = r.errorStepFrom :=
  ⟨rfl, rfl⟩

/-- **reject_preserves_state** (loop level): however many attempts the rejection loop makes, `step_from` and
`error_step_from` are the ones it started with. -/
theorem reject_preserves_state (cfg : Cfg K σ) (t1 : K) (fuel : Nat) (r r' : RejState K σ)
    (h : cfg.whileRej t1 fuel r = some r') : r'.stepFrom = r.stepFrom ∧ r'.errorStepFrom = r.errorStepFrom :=
  (whileRej_ind cfg t1 (fun x => x.stepFrom = r.stepFrom ∧ x.errorStepFrom = r.errorStepFrom)
    (fun _ hx _ => hx) fuel r r' ⟨rfl, rfl⟩ h).1

/-- **reject_preserves_state** (run level).  In the trace of a run a rejected attempt is immediately followed by
the attempt `step_attempt` makes from the *same* `step_from` and the *same* error state with the controller's new
proposal and state (so nothing else — no interpolation, no output, no state change — happens in between), and a
run never rests on a rejected attempt.  `interp_from` is covered by `step_accepts`. -/
theorem rejected_then_same_state (cfg : Cfg K σ) {eps : K} {R : K → K → Prop} {sol0 : LSolState K} {dt0 t0 : K}
    {s : TimeStepState K σ} (h : Run cfg eps R sol0 dt0 t0 s) :
    (∀ pre post e2 a1, s.trace = pre ++ e2 :: Event.attempt a1 :: post → a1.ep < 1 →
      e2 = Event.attempt (cfg.mkAttempt a1.t1 a1.src a1.esIn a1.dtNew a1.cOut)) ∧
    (∀ a post, s.trace = Event.attempt a :: post → 1 ≤ a.ep) := by
  obtain ⟨_, hr⟩ := h
  have hs := hr.struct (struct_init cfg sol0 dt0)
  exact ⟨fun pre post e2 a1 htr hrej => adjacent_split pre hs.chain htr a1 rfl hrej,
    fun a post htr => not_lt.mp (hs.head a post htr)⟩

/-! ## reject_then_smaller -/

/-- **reject_then_smaller.**  With an admissible controller (positive proposals, `CtlShrinks`), a non-negative
`error_power`, `dt0 > 0`, `eps ≥ 0`: the attempt following a rejected attempt uses a strictly smaller step from
the same state. -/
theorem reject_then_smaller (cfg : Cfg K σ) (hlaws : SolverLaws cfg.solver) (hseed : cfg.seed < 1)
    (Inv : σ → Prop) (hpos : CtlPos cfg.ctl) (hinv : CtlInv cfg.ctl Inv) (hshrink : CtlShrinks cfg.ctl Inv)
    (hest : ∀ es a b dt, 0 ≤ (cfg.est.estimate es a b dt).1)
    {eps : K} (heps : 0 ≤ eps) {R : K → K → Prop} {sol0 : LSolState K} {dt0 t0 : K} (hdt0 : 0 < dt0)
    {s : TimeStepState K σ} (h : Run cfg eps R sol0 dt0 t0 s) :
    ∀ pre post e2 a1, s.trace = pre ++ e2 :: Event.attempt a1 :: post → a1.ep < 1 →
      ∃ a2, e2 = Event.attempt a2 ∧ a2.src = a1.src ∧ a2.t1 = a1.t1 ∧ a2.dt ≤ a1.dtNew ∧ a1.dtNew < a1.dt ∧
        a2.dt < a1.dt := by
  intro pre post e2 a1 htr hrej
  have he2 := (rejected_then_same_state cfg h).1 pre post e2 a1 htr hrej
  obtain ⟨_, hr⟩ := h
  have hs := hr.struct (struct_init cfg sol0 dt0)
  have hp := hr.pos hlaws hseed Inv False hpos hinv heps (fun _ _ _ hf => hf.elim)
    (pos_init cfg Inv False hinv eps sol0 dt0 hdt0 t0 (fun hf => hf.elim))
  have hmem : Event.attempt a1 ∈ s.trace := by rw [htr]; simp
  obtain ⟨_, _, hep, _, hnew, _⟩ := (hs.wf a1 hmem).facts
  obtain ⟨hdt1, hinv1⟩ := hp.attempts a1 hmem
  have hep0 : 0 ≤ a1.ep := by rw [hep]; exact hest _ _ _ _
  have hlt : a1.dtNew < a1.dt := by rw [hnew]; exact hshrink _ _ _ hinv1 hdt1 hep0 hrej
  have hle : (cfg.mkAttempt a1.t1 a1.src a1.esIn a1.dtNew a1.cOut).dt ≤ a1.dtNew := clipDt_le cfg _ _ _
  exact ⟨_, he2, rfl, rfl, hle, hlt, lt_of_le_of_lt hle hlt⟩

/-! ## proposal_in_bounds -/

/-- **proposal_in_bounds.**  Every proposal made in a run is the attempted step times a factor inside the
controller's `[factor_min, factor_max]`. -/
theorem proposal_in_bounds (cfg : Cfg K σ) (fmin fmax : K) (hb : CtlBounded cfg.ctl fmin fmax) {eps : K}
    {R : K → K → Prop} {sol0 : LSolState K} {dt0 t0 : K} {s : TimeStepState K σ}
    (h : Run cfg eps R sol0 dt0 t0 s) :
    ∀ a, Event.attempt a ∈ s.trace → ∃ f, fmin ≤ f ∧ f ≤ fmax ∧ a.dtNew = f * a.dt := by
  intro a ha
  obtain ⟨_, hr⟩ := h
  obtain ⟨_, _, _, _, hnew, _⟩ := ((hr.struct (struct_init cfg sol0 dt0)).wf a ha).facts
  rw [hnew]
  exact hb _ _ _

/-- **proposal_in_bounds**, ratio form: `factor_min ≤ dt_new / dt_attempt ≤ factor_max` (attempted steps are
positive for admissible parameters). -/
theorem proposal_ratio_in_bounds (cfg : Cfg K σ) (hlaws : SolverLaws cfg.solver) (hseed : cfg.seed < 1)
    (fmin fmax : K) (hb : CtlBounded cfg.ctl fmin fmax) (hfmin : 0 < fmin)
    {eps : K} (heps : 0 ≤ eps) {R : K → K → Prop} {sol0 : LSolState K} {dt0 t0 : K} (hdt0 : 0 < dt0)
    {s : TimeStepState K σ} (h : Run cfg eps R sol0 dt0 t0 s) :
    ∀ a, Event.attempt a ∈ s.trace → 0 < a.dt ∧ fmin ≤ a.dtNew / a.dt ∧ a.dtNew / a.dt ≤ fmax := by
  intro a ha
  obtain ⟨f, h1, h2, h3⟩ := proposal_in_bounds cfg fmin fmax hb h a ha
  obtain ⟨_, hr⟩ := h
  have hinv : CtlInv cfg.ctl (fun _ => True) := ⟨fun _ => trivial, fun _ _ _ _ => trivial⟩
  have hp := hr.pos hlaws hseed (fun _ => True) False (hb.pos hfmin) hinv heps (fun _ _ _ hf => hf.elim)
    (pos_init cfg _ False hinv eps sol0 dt0 hdt0 t0 (fun hf => hf.elim))
  have hdt := (hp.attempts a ha).1
  have : a.dtNew / a.dt = f := by rw [h3]; field_simp
  rw [this]
  exact ⟨hdt, h1, h2⟩

/-! ## clip_no_overshoot -/

/-- the clipped step never passes the checkpoint -/
theorem clip_arith (t dt t1 : K) : t + min dt (t1 - t) ≤ t1 := by
  have := min_le_right dt (t1 - t)
  linarith

/-- **clip_no_overshoot.**  With `clip_dt=True` no attempt of a run ends beyond the checkpoint the rejection loop
was heading for. -/
theorem clip_no_overshoot (cfg : Cfg K σ) (hlaws : SolverLaws cfg.solver) (hclip : cfg.clip = true) {eps : K}
    {R : K → K → Prop} {sol0 : LSolState K} {dt0 t0 : K} {s : TimeStepState K σ}
    (h : Run cfg eps R sol0 dt0 t0 s) :
    ∀ a, Event.attempt a ∈ s.trace → a.proposed.t ≤ a.t1 := by
  intro a ha
  obtain ⟨_, hr⟩ := h
  obtain ⟨⟨dtIn, hdt⟩, hprop, _⟩ := ((hr.struct (struct_init cfg sol0 dt0)).wf a ha).facts
  rw [hprop, hlaws.step_t, hdt]
  unfold Cfg.clipDt
  rw [if_pos hclip]
  exact clip_arith _ _ _

/-! ## reported_once_in_order -/

/-- **reported_once_in_order.**  `solve_adaptive_save_at` hands back exactly one solution per checkpoint, in the
order of the checkpoints (the logged outputs are exactly the pairs `(t_k, y_k)`), and each lies within `eps` of
its checkpoint.  (On branch 1 the time is the checkpoint itself: `SolverLaws.fwd_sol_t`.) -/
theorem reported_once_in_order (cfg : Cfg K σ) (hlaws : SolverLaws cfg.solver) {eps : K} (heps : 0 ≤ eps)
    (fuelA fuelR u : Nat) (t0 : K) (ts : List K) (dt0 : K) (res : SolveResult K σ)
    (h : cfg.solveSaveAt fuelA fuelR u (t0 :: ts) dt0 eps = some res) :
    res.solution.length = ts.length ∧
    outputsOf res.final.trace = List.zip ts res.solution ∧
    List.Forall₂ (fun tk y => |y.t - tk| ≤ eps) ts res.solution := by
  obtain ⟨_, _, h3, h4⟩ :=
    solveSaveAt_reach cfg eps AnyT (fun _ => trivial) fuelA fuelR u t0 ts dt0 res (chainR_true t0 ts) h
  refine ⟨h3.length_eq.symm, h4, ?_⟩
  refine h3.imp ?_
  intro tk y ⟨_, _, _, _, _, hl, hnb⟩
  exact loop_output_near cfg hlaws heps hl hnb

/-- the terminal value is reported within `eps` of `t1` -/
theorem terminal_reported (cfg : Cfg K σ) (hlaws : SolverLaws cfg.solver) {eps : K} (heps : 0 ≤ eps)
    (fuelA fuelR u : Nat) (t0 t1 dt0 : K) (y : LSolState K) (st : TimeStepState K σ)
    (h : cfg.solveTerminal fuelA fuelR u t0 t1 dt0 eps = some (y, st)) : |y.t - t1| ≤ eps := by
  obtain ⟨s0, hs⟩ := terminal_is_save_at cfg eps fuelA fuelR u t0 t1 dt0 y st h
  have := (reported_once_in_order cfg hlaws heps fuelA fuelR u t0 [t1] dt0 _ hs).2.2
  simpa using this

/-! ## interp_between -/

/-- **interp_between.**  For non-decreasing checkpoints every `interpolate_fwd` call of a run (branch 1) is made
at a time between the two states it interpolates, `interp_from.t ≤ t ≤ interp_to.t`, and `interp_from` never lies
after `step_from`. -/
theorem interp_between (cfg : Cfg K σ) (hlaws : SolverLaws cfg.solver) (hseed : cfg.seed < 1)
    (hpos : CtlPos cfg.ctl) {eps : K} (heps : 0 ≤ eps) {sol0 : LSolState K} {dt0 t0 : K} (hdt0 : 0 < dt0)
    (ht0 : sol0.t ≤ t0) {s : TimeStepState K σ} (h : Run cfg eps (· ≤ ·) sol0 dt0 t0 s) :
    (∀ t1 f g, Event.interp 1 t1 f g ∈ s.trace → f.t ≤ t1 ∧ t1 ≤ g.t) ∧ s.interpFrom.t ≤ s.stepFrom.t := by
  obtain ⟨_, hr⟩ := h
  have hinv : CtlInv cfg.ctl (fun _ => True) := ⟨fun _ => trivial, fun _ _ _ _ => trivial⟩
  have hp := hr.pos hlaws hseed (fun _ => True) True hpos hinv heps (fun _ _ hle _ => hle)
    (pos_init cfg _ True hinv eps sol0 dt0 hdt0 t0 (fun _ => ht0))
  exact ⟨hp.interps trivial, hp.ordered trivial⟩

/-- **interp_between** for `solve_adaptive_save_at` with sorted checkpoints -/
theorem save_at_interp_between (cfg : Cfg K σ) (hlaws : SolverLaws cfg.solver) (hseed : cfg.seed < 1)
    (hpos : CtlPos cfg.ctl) {eps : K} (heps : 0 ≤ eps) (fuelA fuelR u : Nat) (t0 : K) (ts : List K) (dt0 : K)
    (hdt0 : 0 < dt0) (hsorted : (t0 :: ts).Pairwise (· ≤ ·)) (res : SolveResult K σ)
    (h : cfg.solveSaveAt fuelA fuelR u (t0 :: ts) dt0 eps = some res) :
    ∀ t1 f g, Event.interp 1 t1 f g ∈ res.final.trace → f.t ≤ t1 ∧ t1 ≤ g.t :=
  (interp_between cfg hlaws hseed hpos heps hdt0 (le_of_eq (hlaws.init_t t0 u))
    ((save_at_run cfg eps fuelA fuelR u t0 ts dt0 res h).2 hsorted)).1

/-! ## `solve_adaptive_save_every_step` -/

/-- when the python loop of `solve_adaptive_save_every_step` terminates, it has reached `t1` and handed back one
solution per `loop` call -/
theorem every_step_reports (cfg : Cfg K σ) (eps : K) (fuelA fuelR u : Nat) (t0 t1 dt0 : K)
    (res : SolveResult K σ) (h : cfg.solveEveryStep false fuelA fuelR u t0 t1 dt0 eps = some res) :
    t1 ≤ res.final.stepFrom.t ∧ outputsOf res.final.trace = res.solution.map (fun y => (t1, y)) := by
  obtain ⟨_, _, h3, h4, _⟩ :=
    solveEveryStep_reach cfg false eps AnyT (fun _ => trivial) fuelA fuelR u t0 t1 dt0 res trivial h
  refine ⟨?_, h4⟩
  have : ¬ res.final.stepFrom.t < t1 := by simpa [everyStepCond] using h3
  exact not_lt.mp this

/-- **Finding (negation of `reported exactly once` for `solve_adaptive_save_every_step`).**  If a state has
`step_from.t < t1 ≤ step_from.t + eps` — an accepted step ended inside `[t1 - eps, t1)` — then `loop` neither steps
(the checkpoint is not `eps`-ahead) nor moves `step_from` (branch 2), so the python loop
`while state.step_from.t < t1` never terminates: it hands back a solution for `t1` again and again.  In the model:
no amount of fuel suffices. -/
theorem every_step_stalls (cfg : Cfg K σ) (hlaws : SolverLaws cfg.solver) (eps t1 : K) (fuelR : Nat) :
    ∀ (fuel : Nat) (st : TimeStepState K σ), st.stepFrom.t < t1 → t1 ≤ st.stepFrom.t + eps →
      cfg.everyStepWhile false fuelR t1 eps fuel st = none := by
  intro fuel
  induction fuel with
  | zero => intro st h1 _; simp [Cfg.everyStepWhile, everyStepCond, h1]
  | succ n ih =>
    intro st h1 h2
    have hnb : ¬ st.stepFrom.t + eps < t1 := not_lt.mpr h2
    have hna : ¬ st.stepFrom.t > t1 + eps := by
      have : st.stepFrom.t < t1 + eps := by linarith
      exact not_lt.mpr this.le
    unfold Cfg.everyStepWhile
    have hc : everyStepCond false st.stepFrom.t eps t1 = true := by simp [everyStepCond, h1]
    rw [if_pos hc]
    have hloop : cfg.loop fuelR st t1 eps = some (cfg.interpAt st t1) := by
      unfold Cfg.loop Cfg.interpolate
      rw [if_neg hnb]
      simp only [if_neg hnb, if_neg hna]
    rw [hloop]
    have ht : (cfg.interpAt st t1).2.stepFrom.t = st.stepFrom.t := hlaws.at_stepFrom_t _ _ _
    have := ih { (cfg.interpAt st t1).2 with
      trace := Event.output t1 (cfg.interpAt st t1).1 :: (cfg.interpAt st t1).2.trace }
      (by show (cfg.interpAt st t1).2.stepFrom.t < t1; rw [ht]; exact h1)
      (by show t1 ≤ (cfg.interpAt st t1).2.stepFrom.t + eps; rw [ht]; exact h2)
    simp only [this]

/-- **The proposed repair** (`while state.step_from.t + eps < t1`, `fixes/C06-save-every-step-stall.diff`):
when the repaired loop terminates after at least one iteration, the last solution handed back lies within `eps`
of `t1`, and the state is no longer `eps`-before `t1`; every iteration of the repaired loop makes an accepted step
(`loop` is only called when the checkpoint is `eps`-ahead), so the stall of `every_step_stalls` cannot occur. -/
theorem every_step_repaired_reports (cfg : Cfg K σ) (hlaws : SolverLaws cfg.solver) {eps : K} (heps : 0 ≤ eps)
    (fuelA fuelR u : Nat) (t0 t1 dt0 : K) (res : SolveResult K σ)
    (h : cfg.solveEveryStep true fuelA fuelR u t0 t1 dt0 eps = some res) :
    ¬ res.final.stepFrom.t + eps < t1 ∧ outputsOf res.final.trace = res.solution.map (fun y => (t1, y)) ∧
    (res.solution ≠ [] → ∃ y, res.solution.getLast? = some y ∧ |y.t - t1| ≤ eps) := by
  obtain ⟨_, _, h3, h4, h5⟩ :=
    solveEveryStep_reach cfg true eps AnyT (fun _ => trivial) fuelA fuelR u t0 t1 dt0 res trivial h
  have hnb : ¬ res.final.stepFrom.t + eps < t1 := by simpa [everyStepCond] using h3
  refine ⟨hnb, h4, ?_⟩
  intro hne
  obtain ⟨_, sl, st', y, fuel', _, hl, hy, hsf⟩ := h5 hne
  refine ⟨y, hy, loop_output_near cfg hlaws heps hl ?_⟩
  rw [← hsf]; exact hnb

/-! ## the shipped controllers satisfy the contracts -/

/-- `control_integral` with `0 < safety ≤ 1`, `factor_min < 1`, `0 < factor_min ≤ factor_max` is admissible -/
theorem integral_controller_admissible (p : ICtlP K) (hs0 : 0 < p.safety) (hs : p.safety ≤ 1) (hm : p.fmin < 1)
    (hm0 : 0 < p.fmin) (hmm : p.fmin ≤ p.fmax) :
    CtlBounded (ctlI p) p.fmin p.fmax ∧ CtlPos (ctlI p) ∧ CtlInv (ctlI p) (fun _ => True) ∧
    CtlShrinks (ctlI p) (fun _ => True) :=
  ⟨ctlI_bounded p hmm, (ctlI_bounded p hmm).pos hm0, ctlI_inv p, ctlI_shrinks p hs0 hs hm⟩

/-- `control_proportional_integral` is admissible with the invariant `memory ≥ 1`, for every power function that
is non-negative and `≤ 1` on `[0, 1]` (true for real powers with exponents `≥ 0`), provided `safety < 1` or the
integral gain is strict. -/
theorem pi_controller_admissible (pw : K → K → K) (p : PICtlP K)
    (hs0 : 0 < p.safety) (hs : p.safety ≤ 1) (hm : p.fmin < 1) (hm0 : 0 < p.fmin) (hmm : p.fmin ≤ p.fmax)
    (hpw0 : ∀ x e, 0 ≤ x → 0 ≤ pw x e)
    (hpwI : ∀ x, 0 ≤ x → x ≤ 1 → pw x p.expI ≤ 1)
    (hpwP : ∀ x, 0 ≤ x → x ≤ 1 → pw x p.expP ≤ 1)
    (hstrict : p.safety < 1 ∨ ∀ x, 0 ≤ x → x < 1 → pw x p.expI < 1) :
    CtlBounded (ctlPI pw p) p.fmin p.fmax ∧ CtlPos (ctlPI pw p) ∧ CtlInv (ctlPI pw p) (fun m => 1 ≤ m) ∧
    CtlShrinks (ctlPI pw p) (fun m => 1 ≤ m) :=
  ⟨ctlPI_bounded pw p hmm, (ctlPI_bounded pw p hmm).pos hm0, ctlPI_inv pw p,
   ctlPI_shrinks pw p hs0 hs hm hpw0 hpwI hpwP hstrict⟩

/-- the PI memory is overwritten by accepted attempts only -/
theorem pi_memory_only_on_accept (pw : K → K → K) (p : PICtlP K) (dt m ep : K) :
    (ep < 1 → ((ctlPI pw p).apply dt m ep).2 = m) ∧ (¬ ep < 1 → ((ctlPI pw p).apply dt m ep).2 = ep) :=
  ⟨ctlPI_memory_reject pw p dt m ep, ctlPI_memory_accept pw p dt m ep⟩

/-! ## defaults_admissible (on the constants extracted from the current source) -/

/-- **defaults_admissible.**  The shipped defaults of both controllers satisfy the admissibility hypotheses, and
the acceptance seed of `step_init_loopstate` is `< 1` (so the rejection loop is entered). -/
theorem defaults_admissible :
    (0 < Consts.ctlI_safety ∧ Consts.ctlI_safety ≤ 1 ∧ 0 < Consts.ctlI_factor_min ∧ Consts.ctlI_factor_min < 1 ∧
      1 ≤ Consts.ctlI_factor_max) ∧
    (0 < Consts.ctlPI_safety ∧ Consts.ctlPI_safety < 1 ∧ 0 < Consts.ctlPI_factor_min ∧
      Consts.ctlPI_factor_min < 1 ∧ 1 ≤ Consts.ctlPI_factor_max ∧
      0 ≤ Consts.ctlPI_exponent_integral ∧ 0 ≤ Consts.ctlPI_exponent_proportional) ∧
    Consts.acceptanceFactorInit < 1 ∧
    0 ≤ Consts.solve_adaptive_save_at_eps ∧ 0 < Consts.solve_adaptive_save_at_dt0 ∧
    0 ≤ Consts.solve_adaptive_terminal_values_eps ∧ 0 < Consts.solve_adaptive_terminal_values_dt0 := by
  decide +kernel

/-! ## non-vacuity: the hypotheses are satisfiable, on the very objects the driver executes -/

/-- the scripted solver of the driver satisfies the protocol laws -/
theorem scriptedSolver_laws : SolverLaws (K := ℚ) Drv.scriptedSolver :=
  ⟨fun _ _ => rfl, fun _ _ => rfl, fun _ _ => rfl, fun _ _ _ => rfl, fun _ _ _ => rfl, fun _ _ _ => rfl,
   fun _ _ _ => rfl, fun _ _ _ => rfl, fun _ _ _ => rfl, fun _ _ _ => rfl, fun _ _ _ => rfl, fun _ _ _ => rfl,
   fun _ _ _ => rfl⟩

/-- `control_integral(safety=7/8, factor_min=1/4, factor_max=4)` is admissible -/
example : CtlShrinks (ctlI (α := ℚ) ⟨7/8, 1/4, 4⟩) (fun _ => True) ∧ CtlPos (ctlI (α := ℚ) ⟨7/8, 1/4, 4⟩) :=
  let h := integral_controller_admissible (K := ℚ) ⟨7/8, 1/4, 4⟩ (by norm_num) (by norm_num) (by norm_num)
    (by norm_num) (by norm_num)
  ⟨h.2.2.2, h.2.1⟩

/-- PI controller with exponents `1, 1` (`pw x e = x`) and `safety = 7/8` is admissible -/
example : CtlShrinks (ctlPI (α := ℚ) (fun x _ => x) ⟨7/8, 1/4, 4, 1, 1⟩) (fun m => 1 ≤ m) :=
  (pi_controller_admissible (K := ℚ) (fun x _ => x) ⟨7/8, 1/4, 4, 1, 1⟩ (by norm_num) (by norm_num) (by norm_num)
    (by norm_num) (by norm_num) (fun _ _ h => h) (fun _ _ h => h) (fun _ _ h => h) (Or.inl (by norm_num))).2.2.2

/-- the driver's natural-exponent power satisfies the `pw` hypotheses (exponent 2 shown) -/
example : ∀ x : ℚ, 0 ≤ x → x ≤ 1 → 0 ≤ Drv.pwNat x 2 ∧ Drv.pwNat x 2 ≤ 1 := by
  intro x h0 h1
  have : Drv.pwNat x 2 = x ^ 2 := rfl
  rw [this]
  exact ⟨by positivity, pow_le_one₀ h0 h1⟩

/-- a concrete script: admissible step `1/8` everywhere (`error_power = 2` below, `1/2` above), `dt0 = 1/2`,
integral controller `(1, 1/2, 2)`, clipping on, one checkpoint at `5/16`, the shipped acceptance seed -/
def exCfg : Cfg ℚ Unit :=
  { solver := Drv.scriptedSolver, est := Drv.scriptedEst ⟨[], [1/8], [2], [1/2], []⟩,
    ctl := ctlI ⟨1, 1/2, 2⟩, clip := true, seed := Consts.acceptanceFactorInit }

/-- number of rejected attempts in a trace (for the example below) -/
def rejCount : List (Event ℚ Unit) → Nat
  | [] => 0
  | Event.attempt a :: tl => if a.ep < 1 then rejCount tl + 1 else rejCount tl
  | _ :: tl => rejCount tl

/-- the script runs to completion with 4 accepted and 4 rejected attempts (13 events); the last accepted step is clipped
(`5/32 → 5/64`, so the accepted steps sum to the checkpoint exactly); it reports `t = 5/16` with `num_steps = 4` -/
example :
    ((exCfg.solveSaveAt 10 10 7 [0, 5/16] (1/2) (1/1048576)).map fun r => accCount r.final.trace) = some 4 ∧
    ((exCfg.solveSaveAt 10 10 7 [0, 5/16] (1/2) (1/1048576)).map fun r => rejCount r.final.trace) = some 4 ∧
    ((exCfg.solveSaveAt 10 10 7 [0, 5/16] (1/2) (1/1048576)).map fun r => r.final.trace.length) = some 13 ∧
    ((exCfg.solveSaveAt 10 10 7 [0, 5/16] (1/2) (1/1048576)).map fun r => accSum r.final.trace) = some (5/16) ∧
    ((exCfg.solveSaveAt 10 10 7 [0, 5/16] (1/2) (1/1048576)).map
      fun r => r.solution.map (fun y => (y.t, y.numSteps))) = some [((5/16 : ℚ), 4)] ∧
    ((exCfg.solveSaveAt 10 10 7 [0, 5/16] (1/2) (1/1048576)).map fun r => r.final.dt) = some (5/32) := by
  decide +kernel

/-- ... and therefore all theorems above apply to it (hypotheses of `reject_then_smaller` instantiated) -/
example (res : SolveResult ℚ Unit) (h : exCfg.solveSaveAt 10 10 7 [0, 5/16] (1/2) (1/1048576) = some res) :
    ∀ pre post e2 a1, res.final.trace = pre ++ e2 :: Event.attempt a1 :: post → a1.ep < 1 →
      ∃ a2, e2 = Event.attempt a2 ∧ a2.src = a1.src ∧ a2.t1 = a1.t1 ∧ a2.dt ≤ a1.dtNew ∧ a1.dtNew < a1.dt ∧
        a2.dt < a1.dt := by
  have hadm := integral_controller_admissible (K := ℚ) ⟨1, 1/2, 2⟩ (by norm_num) (by norm_num) (by norm_num)
    (by norm_num) (by norm_num)
  have hseed : exCfg.seed < 1 := defaults_admissible.2.2.1
  refine reject_then_smaller exCfg scriptedSolver_laws hseed (fun _ => True) hadm.2.1 hadm.2.2.1 hadm.2.2.2 ?_
    (by norm_num) (by norm_num) (save_at_run exCfg _ 10 10 7 0 [5/16] (1/2) res h).1
  intro es a b dt
  show 0 ≤ Drv.Script.errorPower _ a.t dt
  unfold Drv.Script.errorPower
  simp only [List.find?_nil]
  split <;> simp

/-- the stall of `solve_adaptive_save_every_step`, concretely: one accepted step from `0` to `1 - 2⁻²¹` with
`t1 = 1`, `eps = 2⁻²⁰` — the python loop can never finish -/
example (fuel : Nat) :
    exCfg.everyStepWhile false 10 1 (1/1048576) fuel
      { dt := 1, stepFrom := ⟨1 - 1/2097152, 1, 22⟩, interpFrom := ⟨0, 0, 7⟩, control := (), errorStepFrom := 23,
        trace := [] } = none :=
  every_step_stalls exCfg scriptedSolver_laws _ _ _ fuel _ (by norm_num) (by norm_num)

end Pdq.C06
