import Pdq.Props.C06Real
import Mathlib.Algebra.Order.Archimedean.Basic

/-!
# C06 — quantitative form of "a rejection is followed by a strictly smaller attempt"

`reject_then_smaller` says that the proposal after a rejected attempt is strictly smaller.  Strictly smaller
alone does not exclude a rejection loop that shrinks for ever without reaching an acceptable step.  Here the
shipped controllers are shown to *contract*: after a rejection the proposal is at most `ρ · dt` with
`ρ = max factor_min safety < 1`, hence after `k` consecutive rejections the attempt is at most `ρ^k · dt`
(`whileRej_attempts_geometric`), and the `while_loop` of `RejectionLoop.step` (`Cfg.whileRej`) returns an accepted
state after at most `k + 1` attempts as soon as every positive step `≤ h` from the current state passes the
acceptance test and `ρ^k · dt ≤ h` (`whileRej_terminates`); over an Archimedean field such a `k` always exists
(`whileRej_terminates_archimedean`).
-/
namespace Pdq.C06
open Pdq

variable {K : Type} [Field K] [LinearOrder K] [IsStrictOrderedRing K] {σ : Type}

/-- a rejected attempt (`0 ≤ error_power < 1`) is answered by a proposal `≤ ρ · dt` -/
def CtlContracts (c : Ctl K σ) (Inv : σ → Prop) (ρ : K) : Prop :=
  ∀ dt st ep, Inv st → 0 < dt → 0 ≤ ep → ep < 1 → (c.apply dt st ep).1 ≤ ρ * dt

omit [Field K] [IsStrictOrderedRing K] in
theorem clipFactor_le_max (fmin fmax r s : K) (hr : r ≤ s) : clipFactor fmin fmax r ≤ max fmin s :=
  max_le_max (le_refl _) (le_trans (min_le_left _ _) hr)

/-- `control_integral` contracts with `ρ = max factor_min safety` -/
theorem ctlI_contracts (p : ICtlP K) (hs0 : 0 ≤ p.safety) :
    CtlContracts (ctlI p) (fun _ => True) (max p.fmin p.safety) := by
  intro dt st ep _ hdt _ hep
  have hr : p.safety * ep ≤ p.safety := by
    calc p.safety * ep ≤ p.safety * 1 := mul_le_mul_of_nonneg_left hep.le hs0
      _ = p.safety := mul_one _
  show clipFactor p.fmin p.fmax (p.safety * ep) * dt ≤ max p.fmin p.safety * dt
  exact mul_le_mul_of_nonneg_right (clipFactor_le_max _ _ _ _ hr) hdt.le

/-- `control_proportional_integral` contracts with `ρ = max factor_min safety` (memory invariant `≥ 1`), for every
power function that is non-negative and `≤ 1` on `[0, 1]` at the two exponents -/
theorem ctlPI_contracts (pw : K → K → K) (p : PICtlP K) (hs0 : 0 ≤ p.safety)
    (hpw0 : ∀ x e, 0 ≤ x → 0 ≤ pw x e)
    (hpwI : ∀ x, 0 ≤ x → x ≤ 1 → pw x p.expI ≤ 1)
    (hpwP : ∀ x, 0 ≤ x → x ≤ 1 → pw x p.expP ≤ 1) :
    CtlContracts (ctlPI pw p) (fun m => 1 ≤ m) (max p.fmin p.safety) := by
  intro dt m ep hmem hdt hep0 hep
  have hm0 : 0 < m := lt_of_lt_of_le one_pos hmem
  have hq0 : 0 ≤ ep / m := div_nonneg hep0 hm0.le
  have hq1 : ep / m ≤ 1 := by
    rw [div_le_one hm0]; exact le_trans hep.le hmem
  have gI0 := hpw0 ep p.expI hep0
  have gI1 := hpwI ep hep0 hep.le
  have gP1 := hpwP (ep / m) hq0 hq1
  have h1 : p.safety * pw ep p.expI ≤ p.safety := by
    calc p.safety * pw ep p.expI ≤ p.safety * 1 := mul_le_mul_of_nonneg_left gI1 hs0
      _ = p.safety := mul_one _
  have hr : p.safety * pw ep p.expI * pw (ep / m) p.expP ≤ p.safety := by
    calc p.safety * pw ep p.expI * pw (ep / m) p.expP ≤ p.safety * pw ep p.expI * 1 :=
          mul_le_mul_of_nonneg_left gP1 (mul_nonneg hs0 gI0)
      _ = p.safety * pw ep p.expI := mul_one _
      _ ≤ p.safety := h1
  show clipFactor p.fmin p.fmax (p.safety * pw ep p.expI * pw (ep / m) p.expP) * dt ≤ max p.fmin p.safety * dt
  exact mul_le_mul_of_nonneg_right (clipFactor_le_max _ _ _ _ hr) hdt.le

/-- `control_proportional_integral` over `ℝ` with real powers and exponents `≥ 0` contracts with
`ρ = max factor_min safety` -/
theorem ctlPI_contracts_rpow (p : PICtlP ℝ) (hs0 : 0 ≤ p.safety) (hI : 0 ≤ p.expI) (hP : 0 ≤ p.expP) :
    CtlContracts (ctlPI Real.rpow p) (fun m => 1 ≤ m) (max p.fmin p.safety) :=
  ctlPI_contracts Real.rpow p hs0 (fun _ e hx => Real.rpow_nonneg hx e)
    (fun _ hx0 hx1 => Real.rpow_le_one hx0 hx1 hI) (fun _ hx0 hx1 => Real.rpow_le_one hx0 hx1 hP)

/-- the contraction factor of the shipped defaults is `< 1` (constants regenerated from the current source) -/
theorem defaults_contract :
    max Consts.ctlI_factor_min Consts.ctlI_safety < 1 ∧ 0 ≤ max Consts.ctlI_factor_min Consts.ctlI_safety ∧
    max Consts.ctlPI_factor_min Consts.ctlPI_safety < 1 ∧ 0 ≤ max Consts.ctlPI_factor_min Consts.ctlPI_safety := by
  decide +kernel

/-! ## the rejection loop -/

omit [IsStrictOrderedRing K] in
theorem whileRej_of_accepted (cfg : Cfg K σ) (t1 : K) (fuel : Nat) (r : RejState K σ)
    (h : ¬ r.acceptanceFactorProposed < 1) : cfg.whileRej t1 fuel r = some r := by
  cases fuel with
  | zero => simp [Cfg.whileRej, h]
  | succ n => simp [Cfg.whileRej, h]

/-- positivity of the step that is attempted: unclipped, or clipped towards a checkpoint ahead -/
theorem clipDt_pos (cfg : Cfg K σ) (t1 : K) (src : LSolState K) (dt : K) (hdt : 0 < dt)
    (hahead : cfg.clip = true → src.t < t1) : 0 < cfg.clipDt t1 src dt := by
  unfold Cfg.clipDt
  split
  · next hc => exact lt_min hdt (sub_pos.mpr (hahead hc))
  · exact hdt

/-- **whileRej_terminates.**  Let the controller contract by `ρ ≥ 0` on rejections, keep its invariant and propose
positive steps, let error powers be non-negative, and let every positive step `≤ h` from the state the loop
starts from pass the acceptance test.  If `ρ^k · dt ≤ h` for the incoming proposal `dt > 0`, then the `while_loop`
returns (an accepted state) whenever it is given fuel for `k + 1` attempts - it never needs more. -/
theorem whileRej_terminates (cfg : Cfg K σ) (Inv : σ → Prop) (ρ h : K) (hρ : 0 ≤ ρ)
    (hpos : CtlPos cfg.ctl) (hinv : CtlInv cfg.ctl Inv) (hcon : CtlContracts cfg.ctl Inv ρ)
    (hest : ∀ es a b dt, 0 ≤ (cfg.est.estimate es a b dt).1) (t1 : K) :
    ∀ (k : Nat) (r : RejState K σ), Inv r.control → 0 < r.dt →
      (cfg.clip = true → r.stepFrom.t < t1) →
      (∀ dt, 0 < dt → dt ≤ h →
        ¬ (cfg.est.estimate r.errorStepFrom r.stepFrom (cfg.solver.step r.stepFrom dt) dt).1 < 1) →
      ρ ^ k * r.dt ≤ h → ∀ fuel, k + 1 ≤ fuel →
      ∃ r', cfg.whileRej t1 fuel r = some r' ∧ ¬ r'.acceptanceFactorProposed < 1 ∧
        r'.stepFrom = r.stepFrom := by
  intro k
  induction k with
  | zero =>
    intro r hI hdt hahead hacc hk fuel hfuel
    obtain ⟨f, rfl⟩ : ∃ f, fuel = f + 1 := ⟨fuel - 1, by omega⟩
    by_cases ha : r.acceptanceFactorProposed < 1
    · have hcl : 0 < cfg.clipDt t1 r.stepFrom r.dt := clipDt_pos cfg t1 r.stepFrom r.dt hdt hahead
      have hle : cfg.clipDt t1 r.stepFrom r.dt ≤ h := by
        have := clipDt_le cfg t1 r.stepFrom r.dt
        simp only [pow_zero, one_mul] at hk
        exact le_trans this hk
      have hacc' := hacc _ hcl hle
      have : cfg.whileRej t1 (f + 1) r = cfg.whileRej t1 f (cfg.stepAttempt t1 r) := by
        simp [Cfg.whileRej, ha]
      rw [this]
      exact ⟨_, whileRej_of_accepted cfg t1 f _ hacc', hacc', rfl⟩
    · exact ⟨r, whileRej_of_accepted cfg t1 _ r ha, ha, rfl⟩
  | succ k ih =>
    intro r hI hdt hahead hacc hk fuel hfuel
    obtain ⟨f, rfl⟩ : ∃ f, fuel = f + 1 := ⟨fuel - 1, by omega⟩
    by_cases ha : r.acceptanceFactorProposed < 1
    · have hstep : cfg.whileRej t1 (f + 1) r = cfg.whileRej t1 f (cfg.stepAttempt t1 r) := by
        simp [Cfg.whileRej, ha]
      rw [hstep]
      set r' := cfg.stepAttempt t1 r with hr'
      have hcl : 0 < cfg.clipDt t1 r.stepFrom r.dt := clipDt_pos cfg t1 r.stepFrom r.dt hdt hahead
      have hcle : cfg.clipDt t1 r.stepFrom r.dt ≤ r.dt := clipDt_le cfg t1 r.stepFrom r.dt
      by_cases hrej : r'.acceptanceFactorProposed < 1
      · -- rejected: contract and recurse
        have hep0 : 0 ≤ r'.acceptanceFactorProposed := hest _ _ _ _
        have hnew : r'.dt ≤ ρ * cfg.clipDt t1 r.stepFrom r.dt := hcon _ _ _ hI hcl hep0 hrej
        have hnew' : r'.dt ≤ ρ * r.dt := le_trans hnew (mul_le_mul_of_nonneg_left hcle hρ)
        have hpos' : 0 < r'.dt := hpos _ _ _ hcl
        have hI' : Inv r'.control := hinv.2 _ _ _ hI
        have hk' : ρ ^ k * r'.dt ≤ h := by
          calc ρ ^ k * r'.dt ≤ ρ ^ k * (ρ * r.dt) := mul_le_mul_of_nonneg_left hnew' (pow_nonneg hρ k)
            _ = ρ ^ (k + 1) * r.dt := by rw [pow_succ]; ring
            _ ≤ h := hk
        obtain ⟨r'', h1, h2, h3⟩ := ih r' hI' hpos' hahead hacc hk' f (by omega)
        exact ⟨r'', h1, h2, h3⟩
      · exact ⟨r', whileRej_of_accepted cfg t1 f r' hrej, hrej, rfl⟩
    · exact ⟨r, whileRej_of_accepted cfg t1 _ r ha, ha, rfl⟩

/-- **whileRej_terminates_archimedean.**  Over an Archimedean field (`ℚ`, `ℝ`) and with `ρ < 1` a bound on the
number of attempts always exists: the rejection loop terminates for every incoming proposal as soon as small
enough steps are acceptable. -/
theorem whileRej_terminates_archimedean [Archimedean K] (cfg : Cfg K σ) (Inv : σ → Prop) (ρ h : K) (hρ : 0 ≤ ρ)
    (hρ1 : ρ < 1) (hh : 0 < h)
    (hpos : CtlPos cfg.ctl) (hinv : CtlInv cfg.ctl Inv) (hcon : CtlContracts cfg.ctl Inv ρ)
    (hest : ∀ es a b dt, 0 ≤ (cfg.est.estimate es a b dt).1) (t1 : K)
    (r : RejState K σ) (hI : Inv r.control) (hdt : 0 < r.dt) (hahead : cfg.clip = true → r.stepFrom.t < t1)
    (hacc : ∀ dt, 0 < dt → dt ≤ h →
        ¬ (cfg.est.estimate r.errorStepFrom r.stepFrom (cfg.solver.step r.stepFrom dt) dt).1 < 1) :
    ∃ N, ∀ fuel, N ≤ fuel → ∃ r', cfg.whileRej t1 fuel r = some r' ∧ ¬ r'.acceptanceFactorProposed < 1 := by
  obtain ⟨k, hk⟩ := exists_pow_lt_of_lt_one (div_pos hh hdt) hρ1
  have hk' : ρ ^ k * r.dt ≤ h := by
    have := (lt_div_iff₀ hdt).mp hk
    exact this.le
  refine ⟨k + 1, fun fuel hf => ?_⟩
  obtain ⟨r', h1, h2, _⟩ := whileRej_terminates cfg Inv ρ h hρ hpos hinv hcon hest t1 k r hI hdt hahead hacc hk' fuel hf
  exact ⟨r', h1, h2⟩

/-- **step_terminates.**  `RejectionLoop.step` (initialise the loop state, run the `while_loop`, extract) returns
whenever it has fuel for `k + 1` attempts, under the hypotheses of `whileRej_terminates` read off the incoming
`TimeStepState`; the state it returns interpolates from the state the step started from. -/
theorem step_terminates (cfg : Cfg K σ) (Inv : σ → Prop) (ρ h : K) (hρ : 0 ≤ ρ)
    (hpos : CtlPos cfg.ctl) (hinv : CtlInv cfg.ctl Inv) (hcon : CtlContracts cfg.ctl Inv ρ)
    (hest : ∀ es a b dt, 0 ≤ (cfg.est.estimate es a b dt).1) (t1 : K) (k : Nat)
    (s : TimeStepState K σ) (hI : Inv s.control) (hdt : 0 < s.dt) (hahead : cfg.clip = true → s.stepFrom.t < t1)
    (hacc : ∀ dt, 0 < dt → dt ≤ h →
        ¬ (cfg.est.estimate s.errorStepFrom s.stepFrom (cfg.solver.step s.stepFrom dt) dt).1 < 1)
    (hk : ρ ^ k * s.dt ≤ h) (fuel : Nat) (hfuel : k + 1 ≤ fuel) :
    ∃ s', cfg.step fuel s t1 = some s' ∧ s'.interpFrom = s.stepFrom := by
  obtain ⟨r', h1, _, h3⟩ := whileRej_terminates cfg Inv ρ h hρ hpos hinv hcon hest t1 k
    (cfg.stepInitLoopstate s) hI hdt hahead hacc hk fuel hfuel
  refine ⟨r'.extract, ?_, ?_⟩
  · simp [Cfg.step, h1]
  · show r'.stepFrom = s.stepFrom
    rw [h3]; rfl

/-- **first_step_terminates.**  From the state built by `RejectionLoop.init` with *any* positive initial step, the first
`RejectionLoop.step` returns: over an Archimedean field a bound on the number of attempts exists as soon as small
enough steps from the initial state are acceptable. -/
theorem first_step_terminates [Archimedean K] (cfg : Cfg K σ) (Inv : σ → Prop) (ρ h : K) (hρ : 0 ≤ ρ)
    (hρ1 : ρ < 1) (hh : 0 < h)
    (hpos : CtlPos cfg.ctl) (hinv : CtlInv cfg.ctl Inv) (hcon : CtlContracts cfg.ctl Inv ρ)
    (hest : ∀ es a b dt, 0 ≤ (cfg.est.estimate es a b dt).1) (t1 : K)
    (s0 : LSolState K) (dt0 : K) (hdt0 : 0 < dt0) (hahead : cfg.clip = true → s0.t < t1)
    (hacc : ∀ dt, 0 < dt → dt ≤ h → ¬ (cfg.est.estimate cfg.est.init s0 (cfg.solver.step s0 dt) dt).1 < 1) :
    ∃ N, ∀ fuel, N ≤ fuel → ∃ s', cfg.step fuel (cfg.init s0 dt0) t1 = some s' ∧ s'.interpFrom = s0 := by
  obtain ⟨k, hk⟩ := exists_pow_lt_of_lt_one (div_pos hh hdt0) hρ1
  have hk' : ρ ^ k * dt0 ≤ h := ((lt_div_iff₀ hdt0).mp hk).le
  refine ⟨k + 1, fun fuel hf => ?_⟩
  exact step_terminates cfg Inv ρ h hρ hpos hinv hcon hest t1 k (cfg.init s0 dt0) (hinv.1 dt0) hdt0 hahead hacc hk'
    fuel hf

/-- non-vacuity of `CtlContracts` with `ρ < 1`: the shipped integral controller over `ℚ` -/
example : CtlContracts (ctlI (⟨Consts.ctlI_safety, Consts.ctlI_factor_min, Consts.ctlI_factor_max⟩ : ICtlP ℚ))
    (fun _ => True) (max Consts.ctlI_factor_min Consts.ctlI_safety) ∧
    max Consts.ctlI_factor_min Consts.ctlI_safety < 1 :=
  ⟨ctlI_contracts _ (by have := defaults_admissible.1.1; exact this.le), defaults_contract.1⟩

/-- a concrete loop: shipped integral controller, a solver that adds `dt`, an estimator that accepts exactly the steps `≤ 1/4`
(`error_power = 2`) and rejects the others (`error_power = 1/2`), no clipping -/
def nvCfg : Cfg ℚ Unit where
  solver := { init := fun t u => ⟨t, 0, u⟩, step := fun s dt => ⟨s.t + dt, s.numSteps + 1, s.tag⟩,
              interpFwd := fun _ a b => ⟨b, b, a⟩, interpAtT1 := fun _ a b => ⟨b, b, a⟩ }
  est := { init := 0, estimate := fun es _ _ dt => (if dt ≤ 1/4 then 2 else 1/2, es) }
  ctl := ctlI ⟨Consts.ctlI_safety, Consts.ctlI_factor_min, Consts.ctlI_factor_max⟩
  clip := false
  seed := Consts.acceptanceFactorInit

/-- non-vacuity of `first_step_terminates`: every hypothesis holds for `nvCfg` (with `h = 1/4`, `ρ` of the shipped defaults) -/
example (dt0 : ℚ) (hdt0 : 0 < dt0) :
    ∃ N, ∀ fuel, N ≤ fuel → ∃ s', nvCfg.step fuel (nvCfg.init ⟨0, 0, 0⟩ dt0) 1 = some s' ∧ s'.interpFrom = ⟨0, 0, 0⟩ := by
  have hd := defaults_admissible.1
  have hc := defaults_contract
  refine first_step_terminates nvCfg (fun _ => True) (max Consts.ctlI_factor_min Consts.ctlI_safety) (1/4) hc.2.1 hc.1
    (by norm_num) ?_ ?_ ?_ ?_ 1 ⟨0, 0, 0⟩ dt0 hdt0 (by intro h; cases h) ?_
  · exact (ctlI_bounded _ (le_trans hd.2.2.2.1.le hd.2.2.2.2)).pos hd.2.2.1
  · exact ctlI_inv _
  · exact ctlI_contracts _ hd.1.le
  · intro es a b dt
    show (0 : ℚ) ≤ (if dt ≤ 1/4 then 2 else 1/2)
    split <;> norm_num
  · intro dt _ hle
    show ¬ (if dt ≤ 1/4 then (2 : ℚ) else 1/2) < 1
    rw [if_pos hle]; norm_num

end Pdq.C06
