import Pdq.Model.StepInit
import Pdq.Generated.Consts
import Pdq.Bridge
import Mathlib.Algebra.Order.Field.Basic
import Mathlib.Algebra.Order.Field.Rat
import Mathlib.Algebra.Order.BigOperators.Ring.Finset
import Mathlib.Analysis.SpecialFunctions.Pow.Real
import Mathlib.Tactic.Positivity
import Mathlib.Tactic.Linarith
import Mathlib.Tactic.NormNum

/-!
# C18 — Initial step-size proposals are positive, finite and follow the heuristics

All statements are about the executable definitions of `Pdq.Model.StepInit` (the ones the driver
runs at `Rat`), over an arbitrary linearly ordered field `K`, for all norms, all vector fields (the
second-stage difference norm is an arbitrary function of the trial step) and all rates.

*Finite*: every value of an ordered field is finite; overflow/underflow of float64 at magnitudes
`1e±300` is behaviour the exact model cannot exhibit (the correspondence check looks for it in the
real code and reports it under its own signatures).
-/
set_option linter.unusedSectionVars false

namespace Pdq.C18
open Pdq Pdq.StepInit

variable {K : Type} [Field K] [LinearOrder K] [IsStrictOrderedRing K]

/-! ## `ivpsolve.dt0` -/

/-- **Model of the code on the unchanged tree.** With positive `scale`, `nugget` and non-negative
norms, the proposal is positive *iff* the initial value has positive norm: the clause "strictly
positive for every initial value, including zero initial values" fails exactly at `‖u0‖ = 0`. -/
theorem dt0_pos_iff (scale nugget n0 n1 : K) (hs : 0 < scale) (hn : 0 < nugget) (h1 : 0 ≤ n1) :
    0 < dt0Current scale nugget n0 n1 ↔ 0 < n0 := by
  have hden : 0 < n1 + nugget := by linarith
  unfold dt0Current
  rw [div_pos_iff_of_pos_right hden, mul_pos_iff_of_pos_left hs]

/-- the witness of the defect (D6): zero initial value ↦ step `0`, whatever the vector field -/
theorem dt0_zero_witness (scale nugget n1 : K) : dt0Current scale nugget 0 n1 = 0 := by
  simp [dt0Current]

/-- the same at the level of the state vector: with `n0 = ‖u0‖` (i.e. `n0 ≥ 0`, `n0² = Σ u0ᵢ²`) the
current helper returns a positive step iff `u0 ≠ 0` -/
theorem dt0_pos_iff_u0_ne_zero {d : Nat} (u0 : Vec d K) (scale nugget n0 n1 : K)
    (hs : 0 < scale) (hn : 0 < nugget) (h1 : 0 ≤ n1) (h0 : 0 ≤ n0) (hnorm : n0 * n0 = u0.dot u0) :
    0 < dt0Current scale nugget n0 n1 ↔ ∃ i, u0.get i ≠ 0 := by
  rw [dt0_pos_iff scale nugget n0 n1 hs hn h1]
  have hdot : u0.dot u0 = ∑ i, u0.get i * u0.get i := by simp [Vec.dot, vsum_eq]
  constructor
  · intro hpos
    by_contra hall
    simp only [not_exists, not_not] at hall
    have : u0.dot u0 = 0 := by rw [hdot]; simp [hall]
    rw [this] at hnorm
    have : n0 = 0 := by simpa using hnorm
    linarith
  · rintro ⟨i, hi⟩
    rcases lt_or_eq_of_le h0 with h | h
    · exact h
    · exfalso
      rw [← h, mul_zero, hdot] at hnorm
      have hz := (Finset.sum_eq_zero_iff_of_nonneg (fun j _ => mul_self_nonneg (u0.get j))).mp hnorm.symm
      exact hi (by simpa using hz i (Finset.mem_univ i))

/-- **Model of the repaired helper.** `scale·max(‖u0‖, nugget)/(‖f0‖ + nugget)` is strictly positive
for *every* `‖u0‖` (no hypothesis on it at all), every `‖f0‖ ≥ 0`. -/
theorem dt0_fixed_pos (scale nugget n0 n1 : K) (hs : 0 < scale) (hn : 0 < nugget) (h1 : 0 ≤ n1) :
    0 < dt0Fixed scale nugget n0 n1 := by
  have hden : 0 < n1 + nugget := by linarith
  have hmax : 0 < max n0 nugget := lt_of_lt_of_le hn (le_max_right _ _)
  unfold dt0Fixed
  exact div_pos (mul_pos hs hmax) hden

/-- the repair does not change the proposal for ordinary inputs (`‖u0‖ ≥ nugget`) -/
theorem dt0_fixed_eq_current (scale nugget n0 n1 : K) (h : nugget ≤ n0) :
    dt0Fixed scale nugget n0 n1 = dt0Current scale nugget n0 n1 := by
  simp [dt0Fixed, dt0Current, max_eq_left h]

/-- the repaired helper is Lipschitz (hence continuous) in `‖u0‖`, with the constant of the original -/
theorem dt0_fixed_lipschitz (scale nugget a b n1 : K) (hs : 0 < scale) (hn : 0 < nugget) (h1 : 0 ≤ n1) :
    |dt0Fixed scale nugget a n1 - dt0Fixed scale nugget b n1| ≤ scale / (n1 + nugget) * |a - b| := by
  have hden : 0 < n1 + nugget := by linarith
  have : dt0Fixed scale nugget a n1 - dt0Fixed scale nugget b n1
      = scale / (n1 + nugget) * (max a nugget - max b nugget) := by
    unfold dt0Fixed; field_simp
  rw [this, abs_mul, abs_of_pos (div_pos hs hden)]
  exact mul_le_mul_of_nonneg_left (abs_max_sub_max_le_abs a b nugget) (le_of_lt (div_pos hs hden))

/-- non-vacuity / the concrete witness on the code's own default parameters (regenerated from the
source on every run): `dt0` with `scale = 0.01`, `nugget = 1e-5` maps `‖u0‖ = 0` to `0`, while the
repaired formula gives a positive step there. -/
theorem dt0_defaults_admissible : (0 : Rat) < Pdq.Consts.dt0_scale ∧ (0 : Rat) < Pdq.Consts.dt0_nugget := by
  constructor <;> decide +kernel

example : dt0Current Pdq.Consts.dt0_scale Pdq.Consts.dt0_nugget 0 1 = 0 := dt0_zero_witness _ _ _
example : 0 < dt0Fixed Pdq.Consts.dt0_scale Pdq.Consts.dt0_nugget 0 1 :=
  dt0_fixed_pos _ _ _ _ dt0_defaults_admissible.1 dt0_defaults_admissible.2 (by norm_num)
example : 0 < dt0Current (1/100 : Rat) (1/100000) 3 0 := by
  rw [dt0_pos_iff] <;> norm_num

/-! ## `ivpsolve.dt0_adaptive` -/

/-- what the proof of positivity needs from the ten literals: thresholds non-negative, everything that
can be returned or multiplied positive -/
structure Admissible (L : AdLits K) : Prop where
  small0 : 0 < L.small0
  small1 : 0 < L.small1
  hSmall : 0 < L.hSmall
  c0 : 0 < L.c0
  tiny1 : 0 ≤ L.tiny1
  tiny2 : 0 ≤ L.tiny2
  hMin : 0 < L.hMin
  c1 : 0 < L.c1
  grow : 0 < L.grow

theorem stage1_pos (L : AdLits K) (hL : Admissible L) (d0 d1 : K) : 0 < stage1 L d0 d1 := by
  unfold stage1
  split
  · exact hL.hSmall
  · next h =>
    rw [not_or, not_lt, not_lt] at h
    have h0 : 0 < d0 := lt_of_lt_of_le hL.small0 h.1
    have h1 : 0 < d1 := lt_of_lt_of_le hL.small1 h.2
    exact div_pos (mul_pos hL.c0 h0) h1

theorem stage2_eval (L : AdLits K) (root : K → Nat → K) (d1 d2 h0 : K) (rate : Nat) :
    (stage2 L d1 d2 h0).eval root rate
      = if d1 ≤ L.tiny1 ∧ d2 ≤ L.tiny2 then max L.hMin (h0 * L.shrink) else root (L.c1 / max d1 d2) (rate + 1) := by
  unfold stage2
  by_cases h : d1 ≤ L.tiny1 ∧ d2 ≤ L.tiny2
  · rw [if_pos h, if_pos h]; rfl
  · rw [if_neg h, if_neg h]; rfl

theorem stage2_pos (L : AdLits K) (hL : Admissible L) (root : K → Nat → K)
    (hroot : ∀ x k, 0 < x → 0 < root x k) (d1 d2 h0 : K) (rate : Nat) :
    0 < (stage2 L d1 d2 h0).eval root rate := by
  unfold stage2
  split
  · exact lt_of_lt_of_le hL.hMin (le_max_left _ _)
  · next h =>
    apply hroot
    have hmax : 0 < max d1 d2 := by
      by_contra hle
      rw [not_lt] at hle
      exact h ⟨le_trans ((le_max_left _ _).trans hle) hL.tiny1, le_trans ((le_max_right _ _).trans hle) hL.tiny2⟩
    exact div_pos hL.c1 hmax

/-- **Every branch of `dt0_adaptive` returns a strictly positive step**, for all norms `d0, d1`
(zero, tiny, huge), every vector field (`n2` arbitrary), every rate, and every positive root function. -/
theorem dt0_adaptive_pos (L : AdLits K) (hL : Admissible L) (root : K → Nat → K)
    (hroot : ∀ x k, 0 < x → 0 < root x k) (d0 d1 : K) (n2 : K → K) (rate : Nat) :
    0 < dt0Adaptive L root d0 d1 n2 rate := by
  unfold dt0Adaptive
  exact lt_min (mul_pos hL.grow (stage1_pos L hL d0 d1)) (stage2_pos L hL root hroot _ _ _ _)

/-- the proposal never exceeds `100×` the first-stage guess (the cap of the heuristic) -/
theorem dt0_adaptive_le_cap (L : AdLits K) (root : K → Nat → K) (d0 d1 : K) (n2 : K → K) (rate : Nat) :
    dt0Adaptive L root d0 d1 n2 rate ≤ L.grow * stage1 L d0 d1 := by
  unfold dt0Adaptive
  exact min_le_left _ _

/-! ### the Hairer–Nørsett–Wanner starting step (Sec. II.4), written independently -/

/-- the six constants of the book's algorithm -/
structure HnwConsts (K : Type) where
  /-- `0.01` (steps b and e) -/
  c : K
  /-- `1e-5` (step b) -/
  small : K
  /-- `1e-6` (steps b and e) -/
  hSmall : K
  /-- `1e-15` (step e) -/
  tiny : K
  /-- `1e-3` (step e) -/
  shrink : K
  /-- `100` (step f) -/
  grow : K

/-- HNW II.4, steps (a)–(f), for a method of order `p`, given the norms `d0 = ‖y0‖`, `d1 = ‖f(t0,y0)‖`
and the map `h ↦ ‖f(t0+h, y0+h·f0) − f0‖`:
(b) `h0 = 0.01·(d0/d1)`, but `h0 = 1e-6` if `d0` or `d1` is `< 1e-5`;
(c,d) `d2 = ‖f(t0+h0, y0+h0 f0) − f0‖ / h0`;
(e) `h1 = (0.01/max(d1,d2))^(1/(p+1))`, but `h1 = max(1e-6, h0·1e-3)` if `max(d1,d2) ≤ 1e-15`;
(f) `h = min(100·h0, h1)`. -/
def hnw (κ : HnwConsts K) (root : K → Nat → K) (p : Nat) (d0 d1 : K) (normDf : K → K) : K :=
  let h0 := if d0 < κ.small ∨ d1 < κ.small then κ.hSmall else κ.c * (d0 / d1)
  let d2 := normDf h0 / h0
  let h1 := if max d1 d2 ≤ κ.tiny then max κ.hSmall (h0 * κ.shrink) else root (κ.c / max d1 d2) (p + 1)
  min (κ.grow * h0) h1

/-- the code's ten literals when they are the six of the book -/
def AdLits.ofHnw (κ : HnwConsts K) : AdLits K :=
  { small0 := κ.small, small1 := κ.small, hSmall := κ.hSmall, c0 := κ.c, tiny1 := κ.tiny, tiny2 := κ.tiny,
    hMin := κ.hSmall, shrink := κ.shrink, c1 := κ.c, grow := κ.grow }

/-- **`dt0_adaptive` is the two-stage HNW heuristic**: for all inputs the model of the code equals the
independently written algorithm (same norms, same constants). -/
theorem dt0_adaptive_is_hnw (κ : HnwConsts K) (root : K → Nat → K) (d0 d1 : K) (n2 : K → K) (rate : Nat) :
    dt0Adaptive (AdLits.ofHnw κ) root d0 d1 n2 rate = hnw κ root rate d0 d1 n2 := by
  have h0eq : stage1 (AdLits.ofHnw κ) d0 d1
      = (if d0 < κ.small ∨ d1 < κ.small then κ.hSmall else κ.c * (d0 / d1)) := by
    simp only [stage1, AdLits.ofHnw, mul_div_assoc]
  have h2eq : ∀ d2 h0, (stage2 (AdLits.ofHnw κ) d1 d2 h0).eval root rate
      = (if max d1 d2 ≤ κ.tiny then max κ.hSmall (h0 * κ.shrink) else root (κ.c / max d1 d2) (rate + 1)) := by
    intro d2 h0
    rw [stage2_eval]
    by_cases h : max d1 d2 ≤ κ.tiny
    · rw [if_pos h, if_pos (by simpa [AdLits.ofHnw, max_le_iff] using h)]; rfl
    · rw [if_neg h, if_neg (by simpa [AdLits.ofHnw, max_le_iff] using h)]; rfl
  unfold dt0Adaptive hnw
  simp only [h0eq, h2eq, d2Of]
  rfl

/-! ### the literals of the source (regenerated on every run) -/

/-- the ten literals of `dt0_adaptive` picked from the translator's source-ordered list
(positions 0,1 are `len(...) > 1` and `initial_values[0]`; 11,12 the `1.0`s of the exponent) -/
def codeLits : Option (AdLits Rat) :=
  match Pdq.Consts.dt0AdaptiveLiterals with
  | [_, _, a, b, c, d, e, f, g, h, i, _, _, j] =>
    some { small0 := a, small1 := b, hSmall := c, c0 := d, tiny1 := e, tiny2 := f, hMin := g, shrink := h, c1 := i, grow := j }
  | _ => none

def codeHnw : Option (HnwConsts Rat) :=
  match Pdq.Consts.dt0AdaptiveLiterals with
  | [_, _, a, _, c, d, e, _, _, h, _, _, _, j] =>
    some { c := d, small := a, hSmall := c, tiny := e, shrink := h, grow := j }
  | _ => none

/-- `x` is the decimal `y` up to float64 rounding -/
def NearDec (x y : Rat) : Prop := |x - y| ≤ y / 2 ^ 52

/-- the source's literals are exactly the book's six constants (each used where the book uses it),
as float64 numbers -/
theorem code_lits_are_hnw :
    ∃ κ, codeHnw = some κ ∧ codeLits = some (AdLits.ofHnw κ) ∧
      NearDec κ.c (1 / 100) ∧ NearDec κ.small (1 / 10 ^ 5) ∧ NearDec κ.hSmall (1 / 10 ^ 6) ∧
      NearDec κ.tiny (1 / 10 ^ 15) ∧ NearDec κ.shrink (1 / 10 ^ 3) ∧ κ.grow = 100 := by
  refine ⟨_, rfl, rfl, ?_, ?_, ?_, ?_, ?_, ?_⟩ <;>
    simp only [NearDec] <;> norm_num [abs_le]

/-- cast of the literals into any ordered field (the reals in particular) -/
def AdLits.cast (L : AdLits Rat) : AdLits K :=
  { small0 := L.small0, small1 := L.small1, hSmall := L.hSmall, c0 := L.c0, tiny1 := L.tiny1, tiny2 := L.tiny2,
    hMin := L.hMin, shrink := L.shrink, c1 := L.c1, grow := L.grow }

/-- the source's literals satisfy what `dt0_adaptive_pos` needs -/
theorem code_lits_admissible : ∃ L, codeLits = some L ∧ Admissible (AdLits.cast L : AdLits K) := by
  refine ⟨_, rfl, ?_⟩
  constructor <;> simp only [AdLits.cast] <;> norm_num

/-- **the property's first clause for `dt0_adaptive`, on the real numbers, with the real power and the
source's own literals**: strictly positive for all norms, vector fields and rates. -/
theorem dt0_adaptive_pos_real (d0 d1 : ℝ) (n2 : ℝ → ℝ) (rate : Nat) :
    ∃ L, codeLits = some L ∧
      0 < dt0Adaptive (AdLits.cast L : AdLits ℝ) (fun x k => x ^ ((1 : ℝ) / k)) d0 d1 n2 rate := by
  obtain ⟨L, hL, hadm⟩ := code_lits_admissible (K := ℝ)
  exact ⟨L, hL, dt0_adaptive_pos _ hadm _ (fun x k hx => Real.rpow_pos_of_pos hx _) d0 d1 n2 rate⟩

/-! non-vacuity: both branches of both stages are reachable with admissible literals -/
section examples
def exL : AdLits Rat := AdLits.ofHnw ⟨1/100, 1/10^5, 1/10^6, 1/10^15, 1/10^3, 100⟩
example : Admissible exL := by constructor <;> norm_num [exL, AdLits.ofHnw]
-- zero initial value, zero derivative: fallback in stage 1, guard in stage 2, result 1e-6
example : dt0Adaptive exL (fun x _ => x) 0 0 (fun _ => 0) 4 = 1/10^6 := by
  norm_num [dt0Adaptive, stage1, stage2, d2Of, Stage2.eval, exL, AdLits.ofHnw]
-- ordinary input: ratio branch in stage 1 (h0 = 0.01·2/1), root branch in stage 2
example : stage1 exL 2 1 = 1/50 := by norm_num [stage1, exL, AdLits.ofHnw]
example : stage2 exL 1 3 (1/50) = .radicand (1/300) := by
  simp only [stage2, exL, AdLits.ofHnw]; norm_num
end examples

end Pdq.C18
