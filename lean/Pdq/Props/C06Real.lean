import Pdq.Props.C06
import Mathlib.Analysis.SpecialFunctions.Pow.Real

/-!
# C06 — the proportional-integral controller with *real* exponents

`Pdq.C06.pi_controller_admissible` is stated for an abstract power function; here it is instantiated at
`K = ℝ`, `pw = Real.rpow` (what `error_power ** exponent` computes up to rounding) for all exponents `≥ 0`.
-/
namespace Pdq.C06
open Pdq

/-- `control_proportional_integral` over `ℝ` with real powers: admissible (bounded factor, positive proposals,
`memory ≥ 1` invariant, strictly smaller proposal after every rejection) for all exponents `≥ 0`, provided
`0 < safety < 1` (shipped: 0.95) or `safety ≤ 1` with a positive integral exponent. -/
theorem pi_controller_admissible_rpow (p : PICtlP ℝ)
    (hs0 : 0 < p.safety) (hs : p.safety ≤ 1) (hm : p.fmin < 1) (hm0 : 0 < p.fmin) (hmm : p.fmin ≤ p.fmax)
    (hI : 0 ≤ p.expI) (hP : 0 ≤ p.expP) (hstrict : p.safety < 1 ∨ 0 < p.expI) :
    CtlBounded (ctlPI Real.rpow p) p.fmin p.fmax ∧ CtlPos (ctlPI Real.rpow p) ∧
    CtlInv (ctlPI Real.rpow p) (fun m => 1 ≤ m) ∧ CtlShrinks (ctlPI Real.rpow p) (fun m => 1 ≤ m) := by
  refine pi_controller_admissible Real.rpow p hs0 hs hm hm0 hmm ?_ ?_ ?_ ?_
  · intro x e hx; exact Real.rpow_nonneg hx e
  · intro x hx0 hx1; exact Real.rpow_le_one hx0 hx1 hI
  · intro x hx0 hx1; exact Real.rpow_le_one hx0 hx1 hP
  · rcases hstrict with h | h
    · exact Or.inl h
    · exact Or.inr fun x hx0 hx1 => Real.rpow_lt_one hx0 hx1 h

/-- non-vacuity: the shipped defaults `(0.95, 0.2, 10, 0.3, 0.4)` (as exact rationals cast to `ℝ`) -/
example : CtlShrinks (ctlPI Real.rpow
    ⟨(Consts.ctlPI_safety : ℝ), (Consts.ctlPI_factor_min : ℝ), (Consts.ctlPI_factor_max : ℝ),
     (Consts.ctlPI_exponent_integral : ℝ), (Consts.ctlPI_exponent_proportional : ℝ)⟩) (fun m => 1 ≤ m) := by
  have h := defaults_admissible.2.1
  refine (pi_controller_admissible_rpow _ ?_ ?_ ?_ ?_ ?_ ?_ ?_ ?_).2.2.2
  · dsimp only; exact_mod_cast h.1
  · dsimp only; exact_mod_cast h.2.1.le
  · dsimp only; exact_mod_cast h.2.2.2.1
  · dsimp only; exact_mod_cast h.2.2.1
  · have a : Consts.ctlPI_factor_min ≤ Consts.ctlPI_factor_max := le_trans h.2.2.2.1.le h.2.2.2.2.1
    dsimp only; exact_mod_cast a
  · dsimp only; exact_mod_cast h.2.2.2.2.2.1
  · dsimp only; exact_mod_cast h.2.2.2.2.2.2
  · exact Or.inl (by dsimp only; exact_mod_cast h.2.1)

end Pdq.C06
