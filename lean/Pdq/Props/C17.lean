import Pdq.Model.Jacobian
import Pdq.Bridge
import Pdq.Lemmas.Jacobian
import Mathlib.Tactic.NormNum
import Mathlib.Tactic.FinCases

/-!
# C17 — Jacobian handlers return exact or exactly-unbiased Jacobian blocks

All statements are about the executable definitions of `Pdq.Model.Jacobian` (the ones the driver
runs at `Rat`), for every Jacobian tensor `J[n_out, d, n_in, d]`, all sizes (`n_in ≠ n_out`
included), over an arbitrary commutative ring (single-probe statements, multiplied by `2^k`
instead of divided) resp. an arbitrary field in which `num_probes` and `2` are invertible
(`num_probes` average).

`Probe n d = (Fin n × Fin d → Bool)` enumerates `{±1}^(n×d)`; `probe b` is the sign matrix.
-/
set_option linter.unusedSectionVars false
open Finset

namespace Pdq.C17
variable {K : Type} {nOut nIn d : Nat}

/-! ## `jacobian_materialize`: exact blocks, values and layout -/

/-- **materialising handler, clause "exact dense Jacobian, its per-dimension diagonal blocks and
its sum over dimensions"**: `calculate_trace_along_d` has layout `(n_out, n_in)` and value
`Σ_i J[m,i,n,i]`; `calculate_diagonal_along_d` has layout `(d, n_out, n_in)` and value
`J[m,dd,n,dd]`; `materialize_dense` is `J`; the dense consumer's reshape `(n_out·d, n_in·d)` is
row-major in both index pairs. -/
theorem materialize_blocks [CommRing K] (J : Jac nOut nIn d K) :
    (∀ m n, J.traceD.get m n = ∑ i, J.get m i n i) ∧
    (∀ dd m n, J.diagD.get dd m n = J.get m dd n dd) ∧
    J.dense = J ∧
    (∀ (m : Fin nOut) (d' : Fin d) (n : Fin nIn) (dd : Fin d) (hr : m.val * d + d'.val < nOut * d)
        (hc : n.val * d + dd.val < nIn * d),
        J.flatten.get ⟨m.val * d + d'.val, hr⟩ ⟨n.val * d + dd.val, hc⟩ = J.get m d' n dd) := by
  refine ⟨?_, ?_, rfl, ?_⟩
  · intro m n; simp [Jac.traceD, vsum_eq]
  · intro dd m n; rfl
  · intro m d' n dd hr hc
    have hd : 0 < d := Nat.pos_of_ne_zero (by intro h; subst h; exact d'.elim0)
    simp only [Jac.flatten]
    have h1 : (m.val * d + d'.val) / d = m.val := by
      rw [Nat.add_comm, Nat.add_mul_div_right _ _ hd, Nat.div_eq_of_lt d'.isLt, Nat.zero_add]
    have h2 : (m.val * d + d'.val) % d = d'.val := by
      rw [Nat.add_comm, Nat.add_mul_mod_self_right, Nat.mod_eq_of_lt d'.isLt]
    have h3 : (n.val * d + dd.val) / d = n.val := by
      rw [Nat.add_comm, Nat.add_mul_div_right _ _ hd, Nat.div_eq_of_lt dd.isLt, Nat.zero_add]
    have h4 : (n.val * d + dd.val) % d = dd.val := by
      rw [Nat.add_comm, Nat.add_mul_mod_self_right, Nat.mod_eq_of_lt dd.isLt]
    congr 1 <;> (apply Fin.ext; assumption)

/-- the isotropic block is the sum of the block-diagonal blocks (so `J_trace / d`, the isotropic
linearisation, is their mean) -/
theorem trace_eq_sum_diag [CommRing K] (J : Jac nOut nIn d K) (m : Fin nOut) (n : Fin nIn) :
    J.traceD.get m n = ∑ dd, J.diagD.get dd m n := by
  simp [Jac.traceD, Jac.diagD, vsum_eq]

/-- every row/column index of the dense reshape is of the form `m·d + d'` (so `materialize_blocks`
determines `flatten` completely) -/
theorem flatten_index_surjective (r : Fin (nOut * d)) :
    ∃ (m : Fin nOut) (d' : Fin d), r.val = m.val * d + d'.val := by
  have hd : 0 < d := Nat.pos_of_ne_zero (by intro h; subst h; exact absurd r.isLt (by simp))
  exact ⟨⟨r.val / d, Nat.div_lt_of_lt_mul (Nat.lt_of_lt_of_eq r.isLt (Nat.mul_comm _ _))⟩,
    ⟨r.val % d, Nat.mod_lt _ hd⟩, (Nat.div_add_mod' _ _).symm⟩

/-! ## Rademacher probes -/

/-- **`Σ_{v ∈ {±1}^k} v_a v_b = 2^k·[a = b]`** for every finite index set, over any commutative
ring -/
theorem rademacher_second_moment [CommRing K] {ι : Type} [Fintype ι] [DecidableEq ι] (a b : ι) :
    (∑ v : ι → Bool, (sgn (v a) : K) * sgn (v b)) = if a = b then 2 ^ Fintype.card ι else 0 :=
  rademacher_ring a b

/-- the probes fed to the model are exactly the sign matrices: every entry is `±1` and every sign
pattern occurs once -/
theorem probe_entries [CommRing K] {n : Nat} (b : Fin n × Fin d → Bool) (i : Fin n) (j : Fin d) :
    ((probe b : Mat n d K).get i j = 1 ∨ (probe b : Mat n d K).get i j = -1) ∧
    (probe b : Mat n d K).get i j * (probe b : Mat n d K).get i j = 1 := by
  simp only [probe]
  cases b (i, j) <;> simp [sgn]

/-! ## single-probe estimators: the sum over **all** sign probes is `2^k ×` the exact block -/

/-- **forward mode, trace** (`jacobian_monte_carlo_fwd.calculate_trace_along_d`, `num_probes = 1`):
summed over all `2^(n_in·d)` probes, the estimate `einsum("smd,snd->snm", v, Jv)` is
`2^(n_in·d) · Σ_dd J[o,dd,i,dd]`, in layout `(n_out, n_in)`. -/
theorem fwd_trace_unbiased [CommRing K] (J : Jac nOut nIn d K) (o : Fin nOut) (i : Fin nIn) :
    (∑ b : Fin nIn × Fin d → Bool, (J.fwdTrace1 (probe b)).get o i)
      = 2 ^ (nIn * d) * J.traceD.get o i := by
  simp only [Jac.fwdTrace1, einsumMdNdNm, Jac.jvp, Jac.traceD, get_ofFn, vsum_eq, probe]
  rw [Finset.sum_comm, Finset.mul_sum]
  apply Finset.sum_congr rfl
  intro dd _
  have h := probe_linear_form (K := K) (ι := Fin nIn × Fin d) (i, dd) (fun j => J.get o dd j.1 j.2)
  rw [Fintype.card_prod, Fintype.card_fin, Fintype.card_fin] at h
  rw [← h]
  apply Finset.sum_congr rfl
  intro b _
  rw [Fintype.sum_prod_type]

/-- **forward mode, diagonal** (`calculate_diagonal_along_d`, `num_probes = 1`): summed over all
probes, `transpose(v[:,None,:,:] * Jv[:,:,None,:], (2,0,1))` is `2^(n_in·d) · J[o,dd,i,dd]` in
layout `(d, n_out, n_in)`. -/
theorem fwd_diag_unbiased [CommRing K] (J : Jac nOut nIn d K) (dd : Fin d) (o : Fin nOut) (i : Fin nIn) :
    (∑ b : Fin nIn × Fin d → Bool, (J.fwdDiag1 (probe b)).get dd o i)
      = 2 ^ (nIn * d) * J.diagD.get dd o i := by
  simp only [Jac.fwdDiag1, Jac.fwdDiagRaw1, Ten3.transpose201, bcastMul, Jac.jvp, Jac.diagD, get_ofFn, ten3_get_ofFn,
    vsum_eq, probe]
  have h := probe_linear_form (K := K) (ι := Fin nIn × Fin d) (i, dd) (fun j => J.get o dd j.1 j.2)
  rw [Fintype.card_prod, Fintype.card_fin, Fintype.card_fin] at h
  rw [← h]
  apply Finset.sum_congr rfl
  intro b _
  rw [Fintype.sum_prod_type]

/-- **reverse mode, trace** (`jacobian_monte_carlo_rev.calculate_trace_along_d`, `num_probes = 1`):
probes live in the *output* space `{±1}^(n_out×d)`; summed over all of them,
`einsum("snd,smd->smn", vjpx, v)` is `2^(n_out·d) · Σ_dd J[o,dd,i,dd]` in layout `(n_out, n_in)`. -/
theorem rev_trace_unbiased [CommRing K] (J : Jac nOut nIn d K) (o : Fin nOut) (i : Fin nIn) :
    (∑ b : Fin nOut × Fin d → Bool, (J.revTrace1 (probe b)).get o i)
      = 2 ^ (nOut * d) * J.traceD.get o i := by
  simp only [Jac.revTrace1, einsumNdMdMn, Jac.vjp, Jac.traceD, get_ofFn, vsum_eq, probe]
  rw [Finset.sum_comm, Finset.mul_sum]
  apply Finset.sum_congr rfl
  intro dd _
  have h := probe_linear_form (K := K) (ι := Fin nOut × Fin d) (o, dd) (fun j => J.get j.1 j.2 i dd)
  rw [Fintype.card_prod, Fintype.card_fin, Fintype.card_fin] at h
  rw [← h]
  apply Finset.sum_congr rfl
  intro b _
  rw [Fintype.sum_prod_type, mul_comm]
  congr 1
  apply Finset.sum_congr rfl; intro m _
  apply Finset.sum_congr rfl; intro d' _
  ring

/-- **reverse mode, diagonal** (`calculate_diagonal_along_d`, `num_probes = 1`): summed over all
probes, `transpose(vjpx[:,None,:,:] * v[:,:,None,:], (2,0,1))` is `2^(n_out·d) · J[o,dd,i,dd]` in
layout `(d, n_out, n_in)`. -/
theorem rev_diag_unbiased [CommRing K] (J : Jac nOut nIn d K) (dd : Fin d) (o : Fin nOut) (i : Fin nIn) :
    (∑ b : Fin nOut × Fin d → Bool, (J.revDiag1 (probe b)).get dd o i)
      = 2 ^ (nOut * d) * J.diagD.get dd o i := by
  simp only [Jac.revDiag1, Jac.revDiagRaw1, Ten3.transpose201, bcastMul, Jac.vjp, Jac.diagD, get_ofFn, ten3_get_ofFn,
    vsum_eq, probe]
  have h := probe_linear_form (K := K) (ι := Fin nOut × Fin d) (o, dd) (fun j => J.get j.1 j.2 i dd)
  rw [Fintype.card_prod, Fintype.card_fin, Fintype.card_fin] at h
  rw [← h]
  apply Finset.sum_congr rfl
  intro b _
  rw [Fintype.sum_prod_type, mul_comm]
  congr 1
  apply Finset.sum_congr rfl; intro m _
  apply Finset.sum_congr rfl; intro d' _
  ring

/-! ## the handlers as executed (`num_probes = s ≥ 1`, `np.mean(axis=0)`): average over all
`s`-tuples of sign probes = exact block -/

section field
variable [Field K]

/-- **forward mode, trace, any `num_probes`**: for every tuple of probes the handler returns a value
(`s ≠ 0`), and the average of these values over all `(2^(n_in·d))^s` tuples is the exact trace
block. -/
theorem fwd_trace_mean_unbiased (J : Jac nOut nIn d K) (s : Nat) (hs : (s : K) ≠ 0) (h2 : (2 : K) ≠ 0) :
    ∃ M : (Fin s → (Fin nIn × Fin d → Bool)) → Mat nOut nIn K,
      (∀ V, J.fwdTrace (fun p => probe (V p)) = some (M V)) ∧
      ∀ o i, (∑ V, (M V).get o i) / (2 ^ (nIn * d)) ^ s = J.traceD.get o i := by
  have hs' : s ≠ 0 := by rintro rfl; simp at hs
  refine ⟨_, fun V => by simp only [Jac.fwdTrace, hs', if_false]; rfl, ?_⟩
  intro o i
  simp only [meanMatOfVec_get, vget_ofFn]
  rw [sum_tuple_mean s hs (fun b => (J.fwdTrace1 (probe b)).get o i) (J.traceD.get o i)
    (by rw [fwd_trace_unbiased, card_probes]; push_cast; ring)]
  rw [card_probes]; push_cast
  field_simp

/-- **forward mode, diagonal, any `num_probes`** (layout `(d, n_out, n_in)`) -/
theorem fwd_diag_mean_unbiased (J : Jac nOut nIn d K) (s : Nat) (hs : (s : K) ≠ 0) (h2 : (2 : K) ≠ 0) :
    ∃ T : (Fin s → (Fin nIn × Fin d → Bool)) → Ten3 d nOut nIn K,
      (∀ V, J.fwdDiag (fun p => probe (V p)) = some (T V)) ∧
      ∀ dd o i, (∑ V, (T V).get dd o i) / (2 ^ (nIn * d)) ^ s = J.diagD.get dd o i := by
  have hs' : s ≠ 0 := by rintro rfl; simp at hs
  refine ⟨_, fun V => by simp only [Jac.fwdDiag, hs', if_false]; rfl, ?_⟩
  intro dd o i
  simp only [Ten3.transpose201, meanTen3OfVec_get, vget_ofFn]
  rw [sum_tuple_mean s hs (fun b => (J.fwdDiagRaw1 (probe b)).get o i dd) (J.diagD.get dd o i)
    (by rw [card_probes]; push_cast; exact fwd_diag_unbiased J dd o i)]
  rw [card_probes]; push_cast
  field_simp

/-- **reverse mode, trace, any `num_probes`** (probes in `{±1}^(n_out×d)`, layout `(n_out, n_in)`) -/
theorem rev_trace_mean_unbiased (J : Jac nOut nIn d K) (s : Nat) (hs : (s : K) ≠ 0) (h2 : (2 : K) ≠ 0) :
    ∃ M : (Fin s → (Fin nOut × Fin d → Bool)) → Mat nOut nIn K,
      (∀ V, J.revTrace (fun p => probe (V p)) = some (M V)) ∧
      ∀ o i, (∑ V, (M V).get o i) / (2 ^ (nOut * d)) ^ s = J.traceD.get o i := by
  have hs' : s ≠ 0 := by rintro rfl; simp at hs
  refine ⟨_, fun V => by simp only [Jac.revTrace, hs', if_false]; rfl, ?_⟩
  intro o i
  simp only [meanMatOfVec_get, vget_ofFn]
  rw [sum_tuple_mean s hs (fun b => (J.revTrace1 (probe b)).get o i) (J.traceD.get o i)
    (by rw [rev_trace_unbiased, card_probes]; push_cast; ring)]
  rw [card_probes]; push_cast
  field_simp

/-- **reverse mode, diagonal, any `num_probes`** (layout `(d, n_out, n_in)`) -/
theorem rev_diag_mean_unbiased (J : Jac nOut nIn d K) (s : Nat) (hs : (s : K) ≠ 0) (h2 : (2 : K) ≠ 0) :
    ∃ T : (Fin s → (Fin nOut × Fin d → Bool)) → Ten3 d nOut nIn K,
      (∀ V, J.revDiag (fun p => probe (V p)) = some (T V)) ∧
      ∀ dd o i, (∑ V, (T V).get dd o i) / (2 ^ (nOut * d)) ^ s = J.diagD.get dd o i := by
  have hs' : s ≠ 0 := by rintro rfl; simp at hs
  refine ⟨_, fun V => by simp only [Jac.revDiag, hs', if_false]; rfl, ?_⟩
  intro dd o i
  simp only [Ten3.transpose201, meanTen3OfVec_get, vget_ofFn]
  rw [sum_tuple_mean s hs (fun b => (J.revDiagRaw1 (probe b)).get o i dd) (J.diagD.get dd o i)
    (by rw [card_probes]; push_cast; exact rev_diag_unbiased J dd o i)]
  rw [card_probes]; push_cast
  field_simp

/-- with `num_probes = 1` the executed handler is the single-probe estimator (what the `_each`
driver ops run) -/
theorem single_probe_handlers (J : Jac nOut nIn d K) (v : Mat nIn d K) (w : Mat nOut d K) :
    (∃ M, J.fwdTrace (fun _ : Fin 1 => v) = some M ∧ ∀ o i, M.get o i = (J.fwdTrace1 v).get o i) ∧
    (∃ T, J.fwdDiag (fun _ : Fin 1 => v) = some T ∧ ∀ dd o i, T.get dd o i = (J.fwdDiag1 v).get dd o i) ∧
    (∃ M, J.revTrace (fun _ : Fin 1 => w) = some M ∧ ∀ o i, M.get o i = (J.revTrace1 w).get o i) ∧
    (∃ T, J.revDiag (fun _ : Fin 1 => w) = some T ∧ ∀ dd o i, T.get dd o i = (J.revDiag1 w).get dd o i) := by
  refine ⟨⟨_, by simp only [Jac.fwdTrace, one_ne_zero, if_false]; rfl, ?_⟩,
    ⟨_, by simp only [Jac.fwdDiag, one_ne_zero, if_false]; rfl, ?_⟩,
    ⟨_, by simp only [Jac.revTrace, one_ne_zero, if_false]; rfl, ?_⟩,
    ⟨_, by simp only [Jac.revDiag, one_ne_zero, if_false]; rfl, ?_⟩⟩
  · intro o i; simp
  · intro dd o i; simp [Ten3.transpose201, Jac.fwdDiag1]
  · intro o i; simp
  · intro dd o i; simp [Ten3.transpose201, Jac.revDiag1]

/-- `num_probes = 0` is the only case in which the model handlers return no value -/
theorem handlers_none_iff (J : Jac nOut nIn d K) {s : Nat} (V : Fin s → Mat nIn d K) (W : Fin s → Mat nOut d K) :
    (J.fwdTrace V = none ↔ s = 0) ∧ (J.fwdDiag V = none ↔ s = 0) ∧
    (J.revTrace W = none ↔ s = 0) ∧ (J.revDiag W = none ↔ s = 0) := by
  refine ⟨?_, ?_, ?_, ?_⟩ <;> by_cases h : s = 0 <;> simp [Jac.fwdTrace, Jac.fwdDiag, Jac.revTrace, Jac.revDiag, h]

end field

/-! ## `_verify_fun_and_x` -/

/-- **"Inputs or outputs that are not 2-d arrays with matching trailing dimension are rejected"**:
accepted (returning `(n_in, n_out, d)`) iff both are arrays of shapes `(n_in, d)` and `(n_out, d)`;
`TypeError` iff one of them is not an array; `ValueError` in all remaining cases. -/
theorem verify_shapes (x fx : Option (List Nat)) :
    (∀ nIn nOut d, verifyFunAndX x fx = .ok (nIn, nOut, d) ↔ x = some [nIn, d] ∧ fx = some [nOut, d]) ∧
    (verifyFunAndX x fx = .error .typeError ↔ x = none ∨ fx = none) ∧
    (verifyFunAndX x fx = .error .valueError ↔
      ∃ xs fs, x = some xs ∧ fx = some fs ∧ ¬ ∃ nIn nOut d, xs = [nIn, d] ∧ fs = [nOut, d]) := by
  rcases x with _ | xs <;> rcases fx with _ | fs
  · simp [verifyFunAndX]
  · simp [verifyFunAndX]
  · simp [verifyFunAndX]
  · rcases xs with _ | ⟨a, _ | ⟨b, _ | ⟨c, xs⟩⟩⟩ <;> rcases fs with _ | ⟨a', _ | ⟨b', _ | ⟨c', fs⟩⟩⟩ <;>
      simp [verifyFunAndX]
    · by_cases h : b = b'
      · subst h
        simp only [if_true, Except.ok.injEq, Prod.mk.injEq, reduceCtorEq, not_false_eq_true, and_true]
        intro nIn nOut d; constructor
        · rintro ⟨rfl, rfl, rfl⟩; simp
        · rintro ⟨⟨rfl, rfl⟩, rfl, _⟩; simp
      · have h' : ¬ b' = b := fun hh => h hh.symm
        simp only [h, h', if_false, reduceCtorEq, not_false_eq_true, and_true, false_iff]
        refine ⟨?_, by simp⟩
        rintro nIn nOut d ⟨⟨_, rfl⟩, _, rfl⟩
        exact h rfl

/-! ## non-vacuity: a non-square instance (`n_out = 1`, `n_in = 2`, `d = 2`), off-diagonal
couplings present -/

/-- `J[0,d',n,dd] = 1 + 8·d' + 2·n + dd` — all 8 entries different -/
def J0 : Jac 1 2 2 ℚ := ⟨fun _ d' n dd => 1 + 8 * d'.val + 2 * n.val + dd.val⟩

/-- the exact blocks of `J0`: trace `(1, 2)`, diagonal `(2, 1, 2)` -/
example : J0.traceD.toList = [11, 15] ∧ J0.diagD.toList = [1, 3, 10, 12] := by
  simp [J0, Jac.traceD, Jac.diagD, Mat.toList, Ten3.toList, vsum_eq, Fin.sum_univ_succ, List.finRange_succ]
  norm_num

/-- one probe does *not* return the block (the estimator is genuinely stochastic):
`v = [[1,1],[1,1]]` gives trace estimate `[52, 52]` instead of `[11, 15]` -/
example : (J0.fwdTrace1 (probe fun _ => true)).toList = [52, 52] := by
  simp [J0, Jac.fwdTrace1, einsumMdNdNm, Jac.jvp, probe, sgn, Mat.toList, vsum_eq, Fin.sum_univ_succ,
    List.finRange_succ]
  norm_num

/-- the hypotheses of the `mean` theorems are satisfiable (`ℚ`, `num_probes = 3`), and the forward
and the reverse statement live on different probe spaces (`2^4` vs. `2^2` probes) -/
example : ∃ M : (Fin 3 → (Fin 2 × Fin 2 → Bool)) → Mat 1 2 ℚ,
    (∀ V, J0.fwdTrace (fun p => probe (V p)) = some (M V)) ∧
    ∀ o i, (∑ V, (M V).get o i) / (2 ^ (2 * 2)) ^ 3 = J0.traceD.get o i :=
  fwd_trace_mean_unbiased J0 3 (by norm_num) (by norm_num)

example : ∃ M : (Fin 3 → (Fin 1 × Fin 2 → Bool)) → Mat 1 2 ℚ,
    (∀ V, J0.revTrace (fun p => probe (V p)) = some (M V)) ∧
    ∀ o i, (∑ V, (M V).get o i) / (2 ^ (1 * 2)) ^ 3 = J0.traceD.get o i :=
  rev_trace_mean_unbiased J0 3 (by norm_num) (by norm_num)

/-- `verify`: the three outcomes all occur -/
example : verifyFunAndX (some [3, 2]) (some [4, 2]) = .ok (3, 4, 2) ∧
    verifyFunAndX (some [3, 2]) (some [4, 3]) = .error .valueError ∧
    verifyFunAndX (some [3]) (some [4, 3]) = .error .valueError ∧
    verifyFunAndX none (some [4, 3]) = .error .typeError ∧
    verifyFunAndX (some [3, 2]) none = .error .typeError := by decide

end Pdq.C17
