import Pdq.Lemmas.AdaptiveInv
/-!
# C05, part 2 — the accepted step sequence does not depend on the checkpoint set (loop level)

On the adaptive-loop model shared with C06 (`Pdq.Model.Adaptive`).  The solver state is abstract there; what
stepping and error estimation *read* of it is captured by a projection `core` (for the Gaussian solvers: time,
marginal, calibration state — `Pdq.C05.interp_stepFrom_marginal` shows that interpolation preserves it).

With clipping off (the property's premise):
* `step_indep_of_checkpoint`: the result of a rejection loop — read through
  `proj = (core step_from, dt, controller state, error state)` — depends neither on the checkpoint `t1` it is
  heading for nor on `interp_from`, only on the projection of the incoming state;
* `interpolate_preserves_proj`: none of the three interpolation branches changes the projection;
* `loop_proj`: hence one `RejectionLoop.loop` call maps the projection `π` to `π` (no step) or to `next π` (one
  accepted step), the choice being `step_from.t + eps < t1`, and `next` does not depend on `t1`;
* `two_checkpoints_merge`: for `c ≤ T`, looping towards `c` and then towards `T` visits the same projections as
  looping towards `T` directly: whenever the run towards `c` steps, so does the run towards `T` (same step), and when it
  does not step it leaves the projection untouched.

The whole-run statement `steps_independent_of_checkpoints` (any two checkpoint lists with the same final checkpoint)
is proved from these in `Pdq/Props/C05Scan.lean`.
-/
set_option linter.unusedSectionVars false
namespace Pdq.C05Loop
variable {K : Type} [Field K] [LinearOrder K] [IsStrictOrderedRing K] {σ X : Type}

/-- what stepping and error estimation read of a solver state, and that interpolation preserves it -/
structure CoreLaws (cfg : Cfg K σ) (core : LSolState K → X) : Prop where
  step_core : ∀ a b dt, core a = core b → core (cfg.solver.step a dt) = core (cfg.solver.step b dt)
  est_core : ∀ es a b p q dt, core a = core b → core p = core q →
    cfg.est.estimate es a p dt = cfg.est.estimate es b q dt
  t_core : ∀ a b, core a = core b → a.t = b.t
  fwd_core : ∀ t a b, core (cfg.solver.interpFwd t a b).stepFrom = core b
  at_core : ∀ t a b, core (cfg.solver.interpAtT1 t a b).stepFrom = core b

/-- the stepper-relevant projection of a `TimeStepState` -/
def proj (core : LSolState K → X) (s : TimeStepState K σ) : X × K × σ × Nat :=
  (core s.stepFrom, s.dt, s.control, s.errorStepFrom)

/-- the stepper-relevant projection of a `_RejectionLoopState` -/
def projR (core : LSolState K → X) (r : RejState K σ) : X × K × K × σ × X × Nat × Nat :=
  (core r.stepFrom, r.dt, r.acceptanceFactorProposed, r.control, core r.proposed, r.errorStepFrom, r.errorProposed)

theorem stepAttempt_proj (cfg : Cfg K σ) (core : LSolState K → X) (h : CoreLaws cfg core) (hclip : cfg.clip = false)
    (t1 t1' : K) (r r' : RejState K σ) (hr : projR core r = projR core r') :
    projR core (cfg.stepAttempt t1 r) = projR core (cfg.stepAttempt t1' r') := by
  simp only [projR, Prod.mk.injEq] at hr
  obtain ⟨h1, h2, _, h4, _, h6, _⟩ := hr
  have hs := h.step_core r.stepFrom r'.stepFrom r.dt h1
  have he := h.est_core r.errorStepFrom r.stepFrom r'.stepFrom (cfg.solver.step r.stepFrom r.dt)
    (cfg.solver.step r'.stepFrom r.dt) r.dt h1 hs
  simp only [projR, Cfg.stepAttempt, Cfg.mkAttempt, Cfg.clipDt, hclip, Bool.false_eq_true, if_false]
  rw [← h2, ← h4, ← h6, he, hs, h1]

theorem whileRej_proj (cfg : Cfg K σ) (core : LSolState K → X) (h : CoreLaws cfg core) (hclip : cfg.clip = false)
    (t1 t1' : K) : ∀ (fuel : Nat) (r r' : RejState K σ), projR core r = projR core r' →
      (cfg.whileRej t1 fuel r).map (projR core) = (cfg.whileRej t1' fuel r').map (projR core) := by
  intro fuel
  induction fuel with
  | zero =>
    intro r r' hr
    have ha : r.acceptanceFactorProposed = r'.acceptanceFactorProposed := by
      simp only [projR, Prod.mk.injEq] at hr; exact hr.2.2.1
    simp only [Cfg.whileRej, ha]
    split <;> simp [hr]
  | succ n ih =>
    intro r r' hr
    have ha : r.acceptanceFactorProposed = r'.acceptanceFactorProposed := by
      simp only [projR, Prod.mk.injEq] at hr; exact hr.2.2.1
    simp only [Cfg.whileRej, ha]
    split
    · exact ih _ _ (stepAttempt_proj cfg core h hclip t1 t1' r r' hr)
    · simp [hr]

/-- **the rejection loop does not look at the checkpoint** (clipping off): its result, read through `proj`, depends
only on the projection of the incoming state — not on `t1`, not on `interp_from`, not on the trace. -/
theorem step_indep_of_checkpoint (cfg : Cfg K σ) (core : LSolState K → X) (h : CoreLaws cfg core)
    (hclip : cfg.clip = false) (fuel : Nat) (s s' : TimeStepState K σ) (t1 t1' : K)
    (hs : proj core s = proj core s') :
    (cfg.step fuel s t1).map (proj core) = (cfg.step fuel s' t1').map (proj core) := by
  simp only [proj, Prod.mk.injEq] at hs
  obtain ⟨h1, h2, h3, h4⟩ := hs
  have hinit : projR core (cfg.stepInitLoopstate s) = projR core (cfg.stepInitLoopstate s') := by
    simp [projR, Cfg.stepInitLoopstate, h1, h2, h3, h4, LSolState.onesLike]
  have := whileRej_proj cfg core h hclip t1 t1' fuel _ _ hinit
  simp only [Cfg.step]
  cases hA : cfg.whileRej t1 fuel (cfg.stepInitLoopstate s) <;>
    cases hB : cfg.whileRej t1' fuel (cfg.stepInitLoopstate s') <;> simp_all [projR, proj, RejState.extract]

/-- **interpolation never changes what stepping continues from** -/
theorem interpolate_preserves_proj (cfg : Cfg K σ) (core : LSolState K → X) (h : CoreLaws cfg core)
    (s : TimeStepState K σ) (t1 eps : K) :
    proj core (cfg.interpolate s t1 eps).2 = proj core s := by
  simp only [Cfg.interpolate]
  split
  · simp [proj, Cfg.interpSkip]
  · split
    · simp [proj, Cfg.interpBeyond, h.fwd_core]
    · simp [proj, Cfg.interpAt, h.at_core]

/-- one `RejectionLoop.loop` call, read through `proj`: either nothing happens to the projection (no step:
`¬ step_from.t + eps < t1`) or it is the projection of one rejection loop, which does not depend on `t1`. -/
theorem loop_proj (cfg : Cfg K σ) (core : LSolState K → X) (h : CoreLaws cfg core) (fuel : Nat)
    (s : TimeStepState K σ) (t1 eps : K) :
    (cfg.loop fuel s t1 eps).map (fun r => proj core r.2)
      = if s.stepFrom.t + eps < t1 then (cfg.step fuel s t1).map (proj core) else some (proj core s) := by
  by_cases hlt : s.stepFrom.t + eps < t1
  · simp only [Cfg.loop, if_pos hlt]
    cases hA : cfg.step fuel s t1 <;> simp [interpolate_preserves_proj cfg core h]
  · simp only [Cfg.loop, if_neg hlt]
    simp [interpolate_preserves_proj cfg core h]

/-- **an extra checkpoint `c ≤ T` does not change the steps.** Consider one `loop` call towards an extra checkpoint `c`
from `s` and one towards the final checkpoint `T` from a state `s'` with the same projection.
If the call towards `c` steps, the call towards `T` steps too and both arrive at the same projection; if it does not
step, its projection is unchanged (so the run towards `T` simply continues from the same projection). -/
theorem two_checkpoints_merge (cfg : Cfg K σ) (core : LSolState K → X) (h : CoreLaws cfg core)
    (hclip : cfg.clip = false) (fuel : Nat) (s s' : TimeStepState K σ) (c T eps : K) (hcT : c ≤ T)
    (hs : proj core s = proj core s') :
    (s.stepFrom.t + eps < c →
      s'.stepFrom.t + eps < T ∧
      (cfg.loop fuel s c eps).map (fun r => proj core r.2) = (cfg.loop fuel s' T eps).map (fun r => proj core r.2)) ∧
    (¬ s.stepFrom.t + eps < c → (cfg.loop fuel s c eps).map (fun r => proj core r.2) = some (proj core s')) := by
  have ht : s.stepFrom.t = s'.stepFrom.t := by
    simp only [proj, Prod.mk.injEq] at hs
    exact h.t_core _ _ hs.1
  constructor
  · intro hlt
    have hlt' : s'.stepFrom.t + eps < T := by rw [← ht]; exact lt_of_lt_of_le hlt hcT
    refine ⟨hlt', ?_⟩
    rw [loop_proj cfg core h, loop_proj cfg core h, if_pos hlt, if_pos hlt']
    exact step_indep_of_checkpoint cfg core h hclip fuel s s' c T hs
  · intro hn
    rw [loop_proj cfg core h, if_neg hn, hs]

end Pdq.C05Loop
