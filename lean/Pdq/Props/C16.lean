import Pdq.Lemmas.DualJet
import Mathlib.Data.Matrix.Block
import Mathlib.LinearAlgebra.Matrix.Block
import Mathlib.LinearAlgebra.Matrix.Notation
import Mathlib.Tactic.NormNum
import Mathlib.Tactic.Abel
import Mathlib.Tactic.FinCases

/-!
# C16 — Automatic derivatives equal the true derivatives of the computed outputs  *(partial)*

What a theorem can settle here (DESIGN §4, C16): the *custom differentiation rule* of the triangularisation
`qr_r` (`probdiffeq/backend/linalg.py`: `R_dot = Qᵀ M_dot`), and a *derivative oracle* for the correspondence
check.  Not provable here: that JAX differentiates its primitives correctly, that reverse mode equals
forward mode (both are compared at run time by `harness/checks/c16.py`).

1. `qr_rule_gram_correct` — the rule is the exact derivative for every consumer that factors through `RᵀR`;
   `qr_corrected_rule_gram_correct` — so is every rule `QᵀṀ − ΩR` with antisymmetric `Ω`;
   `triangular_tangent_blocks_correct` — a tangent that keeps `R` block upper triangular gives exact
   derivatives to the consumers of `revert_conditional` (`R[:k,:k]`, `R[:k,k:]`, `R[k:,k:]`);
   `triangular_rule_correct` — the rule `QᵀṀ − (L − Lᵀ)R`, `L = strictLower(QᵀṀR⁻¹)` (harness reference / proposed patch) is both;
2. `qr_rule_block_incorrect` — **defect D5**: explicit rational `M = Q R`, `Ṁ` for which the rule's tangent of
   `R₂₂ᵀR₂₂` (backward-noise covariance) and of the gain `R₁₂/R₁₁` differ from the true derivatives
   (Schur complement `P₂₂ − P₁₂ᵀP₁₁⁻¹P₁₂`, gain `P₁₂/P₁₁`, evaluated with the model's dual numbers);
3. `dual_number_derivative` (+ `dual_re_ring_hom`, `dual_div_spec`) — the model's dual numbers compute exact
   derivatives of rational expressions; `solver_step_dual_is_derivative`, `mle_term_dual_is_derivative`,
   `iwp_transition_dual_is_derivative`, `affine_lin_dual_is_derivative`, `driver_gain_is_jet` — hence
   `Pdq.Model.Solver.step` (every strategy) run at `Dual ℚ` by the driver *is* the derivative of the model run.
-/
set_option linter.unusedSectionVars false
open Matrix

namespace Pdq.C16

/-! ## 1. the differentiation rule of `qr_r` -/
section qr
variable {K : Type} [CommRing K] {m n : Type} [Fintype m] [Fintype n] [DecidableEq n]

/-- **C16, clause "the custom rule is right for Gram consumers".**  For `M = Q R` with `QᵀQ = 1` (`Q` rectangular),
the value satisfies `RᵀR = MᵀM` and the shipped tangent `Ṙ := QᵀṀ` satisfies
`ṘᵀR + RᵀṘ = ṀᵀM + MᵀṀ = d(MᵀM)`: it is the exact derivative for every consumer that factors through `RᵀR`
(`sum_of_sqrtm_factors`, standard deviations, the next prediction). -/
theorem qr_rule_gram_correct (Q : Matrix m n K) (R : Matrix n n K) (M Md : Matrix m n K)
    (hM : M = Q * R) (hQ : Qᵀ * Q = 1) :
    Rᵀ * R = Mᵀ * M ∧ (Qᵀ * Md)ᵀ * R + Rᵀ * (Qᵀ * Md) = Mdᵀ * M + Mᵀ * Md := by
  subst hM
  constructor
  · rw [Matrix.transpose_mul, Matrix.mul_assoc, ← Matrix.mul_assoc Qᵀ, hQ, Matrix.one_mul]
  · simp only [Matrix.transpose_mul, Matrix.transpose_transpose, Matrix.mul_assoc]

/-- every correction `−ΩR` with antisymmetric `Ω` (i.e. every admissible `Q̇ = QΩ`) is invisible to Gram consumers; the
harness' reference rule chooses `Ω` such that `Ṙ` stays upper triangular. -/
theorem qr_corrected_rule_gram_correct (Q : Matrix m n K) (R Ω : Matrix n n K) (M Md : Matrix m n K)
    (hM : M = Q * R) (hQ : Qᵀ * Q = 1) (hΩ : Ωᵀ = -Ω) :
    (Qᵀ * Md - Ω * R)ᵀ * R + Rᵀ * (Qᵀ * Md - Ω * R) = Mdᵀ * M + Mᵀ * Md := by
  rw [← (qr_rule_gram_correct Q R M Md hM hQ).2]
  simp only [Matrix.transpose_sub, Matrix.transpose_mul, Matrix.sub_mul, Matrix.mul_sub, hΩ,
    Matrix.mul_neg, Matrix.neg_mul, Matrix.mul_assoc]
  abel

end qr

section blocks
variable {A : Type} [CommRing A] {k n : Type} [Fintype k] [Fintype n] [DecidableEq k] [DecidableEq n]

/-- **what block extraction needs.**  Over any commutative ring — in particular over dual numbers, where the
hypothesis says "value *and tangent* of `R` are block upper triangular and Gram-correct" — the three blocks that
`revert_conditional` extracts have the right Gram matrices: innovation `R₁₁ᵀR₁₁ = P₁₁`, cross term `R₁₁ᵀR₁₂ = P₁₂`
(hence the gain), backward noise `R₂₂ᵀR₂₂ = P₂₂ − R₁₂ᵀR₁₂`.  The shipped tangent `QᵀṀ` is *not* block triangular. -/
theorem triangular_tangent_blocks_correct
    (R11 : Matrix k k A) (R12 : Matrix k n A) (R22 : Matrix n n A)
    (P11 : Matrix k k A) (P12 : Matrix k n A) (P21 : Matrix n k A) (P22 : Matrix n n A)
    (h : (fromBlocks R11 R12 0 R22)ᵀ * fromBlocks R11 R12 0 R22 = fromBlocks P11 P12 P21 P22) :
    R11ᵀ * R11 = P11 ∧ R11ᵀ * R12 = P12 ∧ R22ᵀ * R22 = P22 - R12ᵀ * R12 := by
  rw [Matrix.fromBlocks_transpose, Matrix.fromBlocks_multiply, Matrix.fromBlocks_inj] at h
  obtain ⟨h11, h12, _, h22⟩ := h
  simp only [Matrix.transpose_zero, Matrix.zero_mul, Matrix.mul_zero, add_zero] at h11 h12 h22
  refine ⟨h11, h12, ?_⟩
  rw [← h22]; abel

end blocks


/-! ## 2. defect D5: after block extraction the rule is wrong -/

def exQ : Matrix (Fin 2) (Fin 2) ℚ := !![3/5, -4/5; 4/5, 3/5]
def exR : Matrix (Fin 2) (Fin 2) ℚ := !![1, 1; 0, 1]
def exM : Matrix (Fin 2) (Fin 2) ℚ := !![3/5, -1/5; 4/5, 7/5]
def exMd : Matrix (Fin 2) (Fin 2) ℚ := !![0, 0; 1, 0]

/-- `(M + Ṁ ε)ᵀ (M + Ṁ ε)` in the model's dual numbers -/
def dualGram (M Md : Matrix (Fin 2) (Fin 2) ℚ) : Matrix (Fin 2) (Fin 2) (Dual ℚ) :=
  (Matrix.of fun i j => (⟨M i j, Md i j⟩ : Dual ℚ))ᵀ * (Matrix.of fun i j => (⟨M i j, Md i j⟩ : Dual ℚ))

def schur (P : Matrix (Fin 2) (Fin 2) (Dual ℚ)) : Dual ℚ := P 1 1 - P 0 1 * P 0 1 / P 0 0
def gain (P : Matrix (Fin 2) (Fin 2) (Dual ℚ)) : Dual ℚ := P 0 1 / P 0 0

/-- the witness satisfies the QR contract -/
theorem ex_contract : exM = exQ * exR ∧ exQᵀ * exQ = 1 ∧ exR 1 0 = 0 := by
  refine ⟨?_, ?_, ?_⟩
  · ext i j; fin_cases i <;> fin_cases j <;> norm_num [exM, exQ, exR, Matrix.mul_apply, Fin.sum_univ_two]
  · ext i j; fin_cases i <;> fin_cases j <;> norm_num [exQ, Matrix.mul_apply, Fin.sum_univ_two, Matrix.one_apply]
  · simp [exR]

/-- value and true derivative (dual numbers) of the backward-noise variance and of the gain for the witness -/
theorem ex_values :
    (schur (dualGram exM exMd)).re = exR 1 1 * exR 1 1 ∧ (schur (dualGram exM exMd)).eps = -6/5 ∧
    (gain (dualGram exM exMd)).re = exR 0 1 / exR 0 0 ∧ (gain (dualGram exM exMd)).eps = -1/5 := by
  refine ⟨?_, ?_, ?_, ?_⟩ <;>
  norm_num [schur, gain, dualGram, exM, exMd, exR, Matrix.mul_apply, Fin.sum_univ_two]

/-- **C16 is violated by the shipped rule (D5).**  There are rational `M = Q R` (`QᵀQ = 1`, `R` upper triangular) and a
direction `Ṁ` such that, with the shipped tangent `Ṙ = QᵀṀ`,
* the tangent `2 R₂₂ Ṙ₂₂` of the extracted backward-noise variance `R₂₂²` differs from the derivative of the Schur
  complement `P₂₂ − P₁₂²/P₁₁` (`P = MᵀM`) — this is what makes `d std/dθ` wrong (here: `0` instead of `−6/5`), and
* the tangent `(Ṙ₁₂R₁₁ − R₁₂Ṙ₁₁)/R₁₁²` of the extracted gain `R₁₂/R₁₁` differs from the derivative of `P₁₂/P₁₁` — this
  is what makes `d mean/dθ` wrong (here: `−4/5` instead of `−1/5`),
while the values agree.  The true derivatives are the `eps`-parts of the model's dual-number evaluation
(`dual_number_derivative`). -/
theorem qr_rule_block_incorrect :
    ∃ (Q R M Md : Matrix (Fin 2) (Fin 2) ℚ), M = Q * R ∧ Qᵀ * Q = 1 ∧ R 1 0 = 0 ∧
      (schur (dualGram M Md)).re = R 1 1 * R 1 1 ∧
      (Qᵀ * Md) 1 1 * R 1 1 + R 1 1 * (Qᵀ * Md) 1 1 ≠ (schur (dualGram M Md)).eps ∧
      (gain (dualGram M Md)).re = R 0 1 / R 0 0 ∧
      ((Qᵀ * Md) 0 1 * R 0 0 - R 0 1 * (Qᵀ * Md) 0 0) / (R 0 0 * R 0 0) ≠ (gain (dualGram M Md)).eps := by
  refine ⟨exQ, exR, exM, exMd, ex_contract.1, ex_contract.2.1, ex_contract.2.2, ex_values.1, ?_, ex_values.2.2.1, ?_⟩
  · rw [ex_values.2.1]
    norm_num [exQ, exMd, exR, Matrix.mul_apply, Fin.sum_univ_two]
  · rw [ex_values.2.2.2]
    norm_num [exQ, exMd, exR, Matrix.mul_apply, Fin.sum_univ_two]

/-- the shipped tangent of the witness is not upper triangular (`Ṙ₂₁ = 3/5`), which is the structural cause -/
theorem qr_rule_tangent_not_triangular : (exQᵀ * exMd) 1 0 = 3/5 := by
  norm_num [exQ, exMd, Matrix.mul_apply, Fin.sum_univ_two]

/-- non-vacuity of `qr_rule_gram_correct` (the witness satisfies its hypotheses) and of
`triangular_tangent_blocks_correct` (any block-triangular `R`, here over dual numbers) -/
example : exRᵀ * exR = exMᵀ * exM ∧ (exQᵀ * exMd)ᵀ * exR + exRᵀ * (exQᵀ * exMd) = exMdᵀ * exM + exMᵀ * exMd :=
  qr_rule_gram_correct exQ exR exM exMd ex_contract.1 ex_contract.2.1
example (R11 : Matrix (Fin 1) (Fin 1) (Dual ℚ)) (R12 : Matrix (Fin 1) (Fin 2) (Dual ℚ)) (R22 : Matrix (Fin 2) (Fin 2) (Dual ℚ)) :
    R22ᵀ * R22 = (R12ᵀ * R12 + R22ᵀ * R22) - R12ᵀ * R12 :=
  (triangular_tangent_blocks_correct R11 R12 R22 _ _ _ _
    (by rw [Matrix.fromBlocks_transpose, Matrix.fromBlocks_multiply])).2.2


/-! ### the triangular rule (reference rule of the harness, proposed patch `fixes/C16-qr-jvp.diff`) -/
section trirule
variable {K : Type} [Field K] {n : Nat}

/-- strictly lower triangular part -/
def strictLower (Y : Matrix (Fin n) (Fin n) K) : Matrix (Fin n) (Fin n) K := Matrix.of fun i j => if j < i then Y i j else 0

theorem strictLower_antisymm (Y : Matrix (Fin n) (Fin n) K) :
    (strictLower Y - (strictLower Y)ᵀ)ᵀ = -(strictLower Y - (strictLower Y)ᵀ) := by
  rw [Matrix.transpose_sub, Matrix.transpose_transpose]; abel

/-- for regular upper-triangular `R`, the tangent `X − (L − Lᵀ) R` with `L` the strictly lower part of `X R⁻¹` is upper triangular -/
theorem triangular_rule_is_triangular (R Rinv X : Matrix (Fin n) (Fin n) K) (hR : R.BlockTriangular id) (hinv : Rinv * R = 1) :
    (X - (strictLower (X * Rinv) - (strictLower (X * Rinv))ᵀ) * R).BlockTriangular id := by
  set Y := X * Rinv with hY
  set Lo := strictLower Y with hL
  let U : Matrix (Fin n) (Fin n) K := Matrix.of fun i j => if j < i then 0 else Y i j
  have hsum : Y = Lo + U := by
    ext i j; simp only [hL, strictLower, U, Matrix.add_apply, Matrix.of_apply]; split <;> simp
  have hX : X = Y * R := by rw [hY, Matrix.mul_assoc, hinv, Matrix.mul_one]
  have hU : U.BlockTriangular id := by
    intro i j hij; simp only [U, Matrix.of_apply, id] at hij ⊢; simp [hij]
  have hLt : Loᵀ.BlockTriangular id := by
    intro i j hij
    simp only [id] at hij
    simp only [hL, strictLower, Matrix.transpose_apply, Matrix.of_apply]
    have : ¬ (i < j) := by exact not_lt.mpr (le_of_lt hij)
    simp [this]
  have key : X - (Lo - Loᵀ) * R = U * R + Loᵀ * R := by
    conv_lhs => rw [hX, hsum]
    simp only [Matrix.add_mul, Matrix.sub_mul]; abel
  rw [key]
  exact (hU.mul hR).add (hLt.mul hR)

/-- **the triangular rule is exact for every consumer**: for `M = Q R`, `QᵀQ = 1`, `R` regular upper triangular, the tangent
`Ṙ := QᵀṀ − (L − Lᵀ) R`, `L = strictLower (QᵀṀ R⁻¹)`, is Gram-correct *and* upper triangular; by
`triangular_tangent_blocks_correct` (over dual numbers) the blocks extracted by `revert_conditional` then carry exact derivatives. -/
theorem triangular_rule_correct {m : Type} [Fintype m] (Q : Matrix m (Fin n) K) (R Rinv : Matrix (Fin n) (Fin n) K) (M Md : Matrix m (Fin n) K)
    (hM : M = Q * R) (hQ : Qᵀ * Q = 1) (hR : R.BlockTriangular id) (hinv : Rinv * R = 1) :
    let Rd := Qᵀ * Md - (strictLower (Qᵀ * Md * Rinv) - (strictLower (Qᵀ * Md * Rinv))ᵀ) * R
    Rdᵀ * R + Rᵀ * Rd = Mdᵀ * M + Mᵀ * Md ∧ Rd.BlockTriangular id :=
  ⟨qr_corrected_rule_gram_correct Q R _ M Md hM hQ (strictLower_antisymm _), triangular_rule_is_triangular R Rinv _ hR hinv⟩

/-- non-vacuity: on the witness of `qr_rule_block_incorrect` the triangular rule returns `Ṙ = !![4/5, 3/5; 0, -3/5]`
(upper triangular; `2 R₂₂ Ṙ₂₂ = -6/5` and `(Ṙ₁₂R₁₁ − R₁₂Ṙ₁₁)/R₁₁² = -1/5` are the true derivatives of `ex_values`) -/
example : exQᵀ * exMd - (strictLower (exQᵀ * exMd * !![1, -1; 0, 1]) - (strictLower (exQᵀ * exMd * !![1, -1; 0, 1]))ᵀ) * exR = !![4/5, 3/5; 0, -3/5] := by
  ext i j; fin_cases i <;> fin_cases j <;>
    norm_num [exQ, exMd, exR, strictLower, Matrix.mul_apply, Fin.sum_univ_two, Matrix.sub_apply, Matrix.transpose_apply]

end trirule

/-! ## 3. dual numbers are an exact derivative oracle -/
section dual
variable {𝕜 : Type} [NontriviallyNormedField 𝕜]

/-- **ring-homomorphism property.** `re : Dual K → K` is a ring homomorphism (`Pdq.Dual.reHom`), constants embed
(`Pdq.Dual.constHom`), `Dual K` is a commutative ring with the model's operations, and `ε² = 0`. -/
theorem dual_re_ring_hom {K : Type} [CommRing K] (x y : Dual K) :
    (x + y).re = x.re + y.re ∧ (x * y).re = x.re * y.re ∧ (x - y).re = x.re - y.re ∧ (-x).re = -x.re ∧
    (1 : Dual K).re = 1 ∧ (0 : Dual K).re = 0 ∧ (⟨0, 1⟩ : Dual K) * ⟨0, 1⟩ = 0 ∧
    (x * y).eps = x.re * y.eps + x.eps * y.re :=
  ⟨rfl, rfl, rfl, rfl, rfl, rfl, Dual.eps_sq_zero, rfl⟩

/-- the model's division of dual numbers is the ring's division by a unit, and `re` commutes with it -/
theorem dual_div_spec {K : Type} [Field K] (x y : Dual K) (hy : y.re ≠ 0) :
    x / y * y = x ∧ (x / y).re = x.re / y.re := ⟨Dual.div_mul_cancel' x y hy, rfl⟩

/-! ### rational expressions -/

/-- no division by zero along the evaluation -/
def RExprDefined (env : Nat → 𝕜) : RExpr → Prop
  | .var _ => True
  | .nat _ => True
  | .add a b => RExprDefined env a ∧ RExprDefined env b
  | .sub a b => RExprDefined env a ∧ RExprDefined env b
  | .neg a => RExprDefined env a
  | .mul a b => RExprDefined env a ∧ RExprDefined env b
  | .div a b => RExprDefined env a ∧ RExprDefined env b ∧ b.eval env ≠ 0
  | .pow a _ => RExprDefined env a

/-- **C16, the derivative oracle.**  For every rational expression `e` (variables, numerals, `+ − · /`, natural powers),
every differentiable curve of inputs `env i : 𝕜 → 𝕜` with 1-jets `denv i` at `t` (value in `re`, derivative in `eps`):
evaluating `e` *in the model's dual numbers* at the jets gives the 1-jet of `s ↦ e(env s)`, i.e. its `eps`-part is the
derivative (`HasDerivAt`), as long as no denominator vanishes at `t`.  Proved operation by operation
(`IsJet.add/sub/neg/mul/div/powN` in `Pdq.Lemmas.Jet`: sum, Leibniz, quotient and power rules). -/
theorem dual_number_derivative (e : RExpr) (env : Nat → 𝕜 → 𝕜) (denv : Nat → Dual 𝕜) (t : 𝕜)
    (h : ∀ i, IsJet (env i) t (denv i)) (hd : RExprDefined (fun i => env i t) e) :
    IsJet (fun s => e.eval fun i => env i s) t (e.eval denv) := by
  induction e with
  | var i => exact h i
  | nat k => exact IsJet.natCast k t
  | add a b iha ihb => exact (iha hd.1).add (ihb hd.2)
  | sub a b iha ihb => exact (iha hd.1).sub (ihb hd.2)
  | neg a iha => exact (iha hd).neg
  | mul a b iha ihb => exact (iha hd.1).mul (ihb hd.2)
  | div a b iha ihb => exact (iha hd.1).div (ihb hd.2.1) hd.2.2
  | pow a k iha => exact (iha hd).powN k

/-- directional derivatives: seed the inputs with `⟨aᵢ, vᵢ⟩`, read off `d/ds e(a + s v)|₀` -/
theorem dual_number_directional_derivative (e : RExpr) (a v : Nat → 𝕜) (hd : RExprDefined a e) :
    (e.eval fun i => (⟨a i, v i⟩ : Dual 𝕜)).re = e.eval a ∧
    HasDerivAt (fun s => e.eval fun i => a i + s * v i) (e.eval fun i => (⟨a i, v i⟩ : Dual 𝕜)).eps 0 := by
  have h : ∀ i, IsJet (fun s => a i + s * v i) 0 (⟨a i, v i⟩ : Dual 𝕜) := by
    intro i
    have := (IsJet.const (a i) (0 : 𝕜)).add ((IsJet.var (0 : 𝕜)).mul (IsJet.const (v i) 0))
    convert this using 1
    ext <;> simp [Dual.const, Dual.var]
  have := dual_number_derivative e (fun i s => a i + s * v i) _ 0 h (by simpa using hd)
  exact ⟨by simpa using this.1, this.2⟩

/-- non-vacuity: `x²/(1+x)` at `x = 1` has value `1/2` and derivative `3/4` -/
example : (RExpr.div (.pow (.var 0) 2) (.add (.nat 1) (.var 0))).eval (fun _ => (⟨1, 1⟩ : Dual ℚ)) = ⟨1/2, 3/4⟩ := by
  apply Dual.ext' <;> norm_num [RExpr.eval, Pdq.powN]
example : RExprDefined (fun _ => (1 : ℝ)) (RExpr.div (.pow (.var 0) 2) (.add (.nat 1) (.var 0))) := by
  norm_num [RExprDefined, RExpr.eval]

section model
variable {m n k : Nat} {t : 𝕜}

/-- **C16, the oracle for the solver.**  `Pdq.Model.Solver.step` (any strategy) evaluated at dual numbers is the 1-jet of
`s ↦ Solver.step (tr s) (lin s) (st s) (Gt s) (Gu s)`: if the transition, the state and the gain certificates are
differentiable curves with the given jets and the linearisation maps jets to jets (`hlin`; e.g. `affine_lin_dual_is_derivative`,
or constants supplied by the harness), then means, covariances and backward conditionals of the result carry their exact
derivatives in the `eps`-parts.  (Smoothers divide by the preconditioner, which must not vanish.) -/
theorem solver_step_dual_is_derivative (sg : Strategy)
    {tr : 𝕜 → PCond n n 𝕜} {trd} (htr : PCondJet tr t trd)
    (lin : 𝕜 → Vec n 𝕜 → Cond k n 𝕜) (lind : Vec n (Dual 𝕜) → Cond k n (Dual 𝕜))
    (hlin : ∀ (x : 𝕜 → Vec n 𝕜) xd, VecJet x t xd → CondJet (fun s => lin s (x s)) t (lind xd))
    {st : 𝕜 → SolState n 𝕜} {std} (hst : SolStateJet st t std)
    {Gt : 𝕜 → Mat n n 𝕜} {Gtd} (hGt : MatJet Gt t Gtd) {Gu : 𝕜 → Mat n k 𝕜} {Gud} (hGu : MatJet Gu t Gud)
    (hnz : sg = .filter ∨ ((∀ i, ((tr t).tl).get i ≠ 0) ∧ ∀ i, ((tr t).tob).get i ≠ 0)) :
    SolStateJet (fun s => Solver.step sg (tr s) (lin s) (st s) (Gt s) (Gu s)) t
      (Solver.step sg trd lind std Gtd Gud) := by
  have hp := SolStateJet.predict sg htr hst hGt hnz
  have hc := hlin _ _ hp.u.mean
  exact ⟨GaussJet.bayesZero hc hp.u hGu, hp.bw⟩

/-- the same for the calibration term of `solver_mle.step` (squared whitened residual) … -/
theorem mle_term_dual_is_derivative (sg : Strategy)
    {tr : 𝕜 → PCond n n 𝕜} {trd} (htr : PCondJet tr t trd)
    (lin : 𝕜 → Vec n 𝕜 → Cond k n 𝕜) (lind : Vec n (Dual 𝕜) → Cond k n (Dual 𝕜))
    (hlin : ∀ (x : 𝕜 → Vec n 𝕜) xd, VecJet x t xd → CondJet (fun s => lin s (x s)) t (lind xd))
    {st : 𝕜 → SolState n 𝕜} {std} (hst : SolStateJet st t std)
    {Gt : 𝕜 → Mat n n 𝕜} {Gtd} (hGt : MatJet Gt t Gtd) {W : 𝕜 → Mat k k 𝕜} {Wd} (hW : MatJet W t Wd)
    (hnz : sg = .filter ∨ ((∀ i, ((tr t).tl).get i ≠ 0) ∧ ∀ i, ((tr t).tob).get i ≠ 0)) :
    IsJet (fun s => Solver.mleTerm sg (tr s) (lin s) (st s) (Gt s) (W s)) t
      (Solver.mleTerm sg trd lind std Gtd Wd) := by
  have hp := SolStateJet.predict sg htr hst hGt hnz
  have ho := GaussJet.marg (hlin _ _ hp.u.mean) hp.u
  have hr : VecJet (fun s => (Vec.zero : Vec k 𝕜).sub ((lin s ((sg.predict (tr s) (st s) (Gt s)).u.mean)).marg
      (sg.predict (tr s) (st s) (Gt s)).u).mean) t _ := VecJet.zero.sub ho.mean
  exact IsJet.dot hr (VecJet.mulVec hW hr)

/-- … and for the running mean of the squared scale -/
theorem mle_running_dual_is_derivative {a2 num b2 : 𝕜 → 𝕜} {a2d numd b2d} (ha : IsJet a2 t a2d) (hn : IsJet num t numd)
    (hb : IsJet b2 t b2d) (h0 : num t + 1 ≠ 0) :
    IsJet (fun s => Solver.mleRunning (a2 s) (num s) (b2 s)) t (Solver.mleRunning a2d numd b2d) :=
  ((hn.mul ha).add hb).div (hn.add (IsJet.one t)) h0

/-- the shipped prior: `Iwp.transition1` at dual step size / scale is the jet of the transition (for `h ≠ 0`) -/
theorem iwp_transition_dual_is_derivative [CharZero 𝕜] (q : Nat) {h s2 : 𝕜 → 𝕜} {hd s2d} (hh : IsJet h t hd)
    (hs : IsJet s2 t s2d) (h0 : h t ≠ 0) :
    PCondJet (fun s => Iwp.transition1 q (h s) (s2 s)) t (Iwp.transition1 q hd s2d) :=
  PCondJet.iwpTransition1 q hh hs h0

/-- the linearisation of the affine test problem `u' = a u + c` (TS0 and TS1) maps jets to jets: the hypothesis `hlin`
of `solver_step_dual_is_derivative` for the driver op `du_run_affine` -/
theorem affine_lin_dual_is_derivative (q : Nat) (ts1 : Bool) {a c d2 : 𝕜 → 𝕜} {ad cd d2d} (ha : IsJet a t ad)
    (hc : IsJet c t cd) (hd : IsJet d2 t d2d) (x : 𝕜 → Vec (q+1) 𝕜) (xd : Vec (q+1) (Dual 𝕜)) (hx : VecJet x t xd) :
    CondJet (fun s => Pdq.affineLin q ts1 (a s) (c s) (d2 s) (x s)) t (Pdq.affineLin q ts1 ad cd d2d xd) :=
  CondJet.affineLin q ts1 ha hc hd x xd hx

end model

/-! ### the gain certificate at dual numbers pins down the derivative of the gain -/
section cert
variable {m n : Nat} {t : 𝕜}

/-- a dual gain accepted by the certificate `G S = C` is unique as soon as `S` has a (dual) right inverse -/
theorem dual_gain_unique (Sd Wd : Mat m m (Dual 𝕜)) (Cd Gd Gd' : Mat n m (Dual 𝕜))
    (hW : Sd.mul Wd = Mat.one) (h1 : Gd.mul Sd = Cd) (h2 : Gd'.mul Sd = Cd) : Gd = Gd' := by
  apply Mat.ext'
  have hW' : Sd.toM * Wd.toM = 1 := by rw [← toM_mul, hW, toM_one]
  have e1 : Gd.toM * Sd.toM = Cd.toM := by rw [← toM_mul, h1]
  have e2 : Gd'.toM * Sd.toM = Cd.toM := by rw [← toM_mul, h2]
  calc Gd.toM = Gd.toM * (Sd.toM * Wd.toM) := by rw [hW', Matrix.mul_one]
    _ = Cd.toM * Wd.toM := by rw [← Matrix.mul_assoc, e1]
    _ = Gd'.toM * (Sd.toM * Wd.toM) := by rw [← Matrix.mul_assoc, e2]
    _ = Gd'.toM := by rw [hW', Matrix.mul_one]

/-- **the certified dual gain is the jet of every differentiable certified gain curve**: if `G(s) S(s) = C(s)`
along the curve and `G` has a jet at `t`, then that jet satisfies the dual certificate; with `dual_gain_unique`
it is the one the driver found. -/
theorem gain_jet_satisfies_dual_cert {S : 𝕜 → Mat m m 𝕜} {Sd} {C G : 𝕜 → Mat n m 𝕜} {Cd Gj}
    (hS : MatJet S t Sd) (hC : MatJet C t Cd) (hG : MatJet G t Gj) (hcert : ∀ s, (G s).mul (S s) = C s) :
    Gj.mul Sd = Cd := by
  have h := hG.mul hS
  simp only [hcert] at h
  exact h.unique hC

theorem driver_gain_is_jet {S : 𝕜 → Mat m m 𝕜} {Sd} {C G : 𝕜 → Mat n m 𝕜} {Cd Gj} (Wd : Mat m m (Dual 𝕜)) (Gd : Mat n m (Dual 𝕜))
    (hS : MatJet S t Sd) (hC : MatJet C t Cd) (hG : MatJet G t Gj) (hcert : ∀ s, (G s).mul (S s) = C s)
    (hW : Sd.mul Wd = Mat.one) (hGd : Gd.mul Sd = Cd) : MatJet G t Gd := by
  rw [dual_gain_unique Sd Wd Cd Gd Gj hW hGd (gain_jet_satisfies_dual_cert hS hC hG hcert)]
  exact hG

end cert
end dual

/-- non-vacuity of `solver_step_dual_is_derivative`: all its hypotheses hold for `u' = θ u` (TS1, `θ`-dependent
linearisation and initial state) differentiated at `θ = -1` -/
example :
    SolStateJet
      (fun θ : ℝ => Solver.step .filter (Iwp.transition1 1 (1/2 : ℝ) 1) (affineLin 1 true θ 0 0)
        (SolState.init { mean := ⟨fun i => if i.val = 0 then 1 else θ⟩, cov := Mat.zero }) Mat.zero Mat.zero) (-1)
      (Solver.step .filter (Iwp.transition1 1 (Dual.const (1/2 : ℝ)) (Dual.const 1)) (affineLin 1 true (Dual.var (-1)) (Dual.const 0) (Dual.const 0))
        (SolState.init { mean := ⟨fun i => if i.val = 0 then Dual.const 1 else Dual.var (-1)⟩, cov := Mat.zero }) Mat.zero Mat.zero) := by
  refine solver_step_dual_is_derivative (k := 1) .filter
    (iwp_transition_dual_is_derivative 1 (IsJet.const _ _) (IsJet.const _ _) (by norm_num))
    (fun θ => affineLin 1 true θ 0 0) _
    (fun x xd hx => affine_lin_dual_is_derivative 1 true (IsJet.var _) (IsJet.const _ _) (IsJet.const _ _) x xd hx)
    (SolStateJet.init ⟨?_, MatJet.zero⟩) MatJet.zero MatJet.zero (Or.inl rfl)
  intro i
  by_cases h : i.val = 0
  · simp only [h, if_true]; exact IsJet.const 1 _
  · simp only [h, if_false]; exact IsJet.var _

/-! ### non-vacuity: one model step of `u' = θ u` at `θ = −1`, differentiated with respect to `θ`, TS1 -/
section example_
def exTrD : PCond 2 2 (Dual Rat) := Iwp.transition1 1 ⟨1/2, 0⟩ ⟨1, 0⟩
def exLinD : Vec 2 (Dual Rat) → Cond 1 2 (Dual Rat) := affineLin 1 true ⟨-1, 1⟩ ⟨0, 0⟩ ⟨0, 0⟩
def exStD : SolState 2 (Dual Rat) :=
  SolState.init { mean := ⟨fun i => if i.val = 0 then ⟨1, 0⟩ else ⟨-1, 1⟩⟩, cov := Mat.zero }
def exPredD : SolState 2 (Dual Rat) := Strategy.filter.predict exTrD exStD Mat.zero
def exSD : Mat 1 1 (Dual Rat) := ((exLinD exPredD.u.mean).marg exPredD.u).cov
def exWD : Mat 1 1 (Dual Rat) := exSD.dualInv ⟨fun _ _ => 1 / (exSD.get 0 0).re⟩
def exGuD : Mat 2 1 (Dual Rat) := ((exLinD exPredD.u.mean).cross exPredD.u).mul exWD
/-- the certificates the driver checks hold at `Dual Rat` (value and derivative identity) … -/
example : exSD.invOk exWD = true ∧ (exLinD exPredD.u.mean).gainOk exPredD.u exGuD = true := by decide +kernel
/-- … and the step returns value and `θ`-derivative of the posterior mean of `u(1/2)`: `23/38 ≈ e^{-1/2}` and `111/361 ≈ ½e^{-1/2}` -/
example : ((Solver.step .filter exTrD exLinD exStD Mat.zero exGuD).u.mean.get 0) = ⟨23/38, 111/361⟩ := by decide +kernel
end example_

end Pdq.C16
