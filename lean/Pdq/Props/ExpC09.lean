import Pdq.Model.ExpGram
import Pdq.Generated.Consts
import Pdq.Bridge
import Pdq.Lemmas.ExpGram
import Pdq.Lemmas.Iwp
import Pdq.Props.C09
import Mathlib.Data.Matrix.Block
import Mathlib.LinearAlgebra.Matrix.NonsingularInverse

/-!
# C09 — exponential priors: Padé/Legendre tables as the code assembles them, doubling, drifts

* `pade_table_q`, `legendre_table_q`, `legendre_norms_q` (`q ∈ {3,5,7,9,13}`): the **generated** tables
  (`Pdq.Consts.pade*`, `leg*`, `legNorms*`, re-extracted from `util/gram_util.py` on every run) satisfy the closed
  forms of the diagonal Padé approximant and of the Legendre moments.
* `pade_effective_q`, `init_effective_poly_q`: the polynomials that the transcription of each `init` *actually
  assembles* (its `A2, A4, …` products, its `k`-loop over the generated `plLoopKs*`, with or without `P = A2 @ P`
  according to the generated `plLoopAdvancesP*`) are `D_q`, `N_q` and `Σ_k C[i,k] z^k`.
* `init_spec_q`: hence, for every size and all matrices `A, B`, the model executed by the driver returns
  `D_q(A)`, `N_q(A)`, `(Σ_k C[i,k] A^k) B`; `init_result_spec`: with a certified inverse `W` of `D_q(A)` it returns
  `D_q(A)⁻¹ N_q(A)` and `Σ_i (1/ν_i) X_i X_iᵀ`, `X_i = D_q(A)⁻¹ (Σ_k C[i,k] A^k) B`.
* `gram_doubling`, `double_spec`, `doubling_iter`: the doubling step is exact at the Gram level.
* `numDoublings_spec`: the number of doublings is the least `s` with `‖A‖₁ ≤ η 2^s`, `n - 1 ≤ q 2^s`.
* `ou_drift`, `matern_drift`, `matern_charpoly`: the drift matrices are the companion forms of the stated SDEs.

Not a theorem (the property is *partial* here): that `D_q(A)⁻¹ N_q(A)` and the Legendre sum approximate `e^A`
and the Gramian to working precision for `‖A‖₁ ≤ η` — approximation theory with floating-point content.
-/
set_option linter.unusedSectionVars false
open Matrix
open scoped Kronecker

namespace Pdq.C09
open Pdq.ExpGram Pdq.Consts

/-! ## the closed forms of the tables -/

/-- `[z^k] c_i(z) = k!/((k-i)!(k+i+1)!)` (`k ≥ i`): moments of the shifted Legendre polynomials against `e^{sz}` -/
def cmom (i k : Nat) : Rat :=
  if k < i then 0 else (factN k : Rat) / ((factN (k - i) : Rat) * (factN (k + i + 1) : Rat))

/-- `[z^j] D_q(z) = b_j (-1)^j` -/
def Dcoef (b : List Int) (j : Nat) : Rat := (((-1 : Int)^j * coef b j : Int) : Rat)

/-- `(2i+1) · [z^k](D_q(z) · c_i(z))` -/
def legFormula (b : List Int) (i k : Nat) : Rat :=
  ((2*i+1 : Nat) : Rat) * ((List.range (k+1)).map (fun j => Dcoef b j * cmom i (k - j))).sum

/-- `b_j (2q)! j! (q-j)! = b_0 (2q-j)! q!`, i.e. `b_j = b_0 (2q-j)! q! / ((2q)! j! (q-j)!)`; `b_q = 1` -/
def PadeTable (b : List Int) (q : Nat) : Prop :=
  b.length = q + 1 ∧ coef b q = 1 ∧
  ∀ j ≤ q, coef b j * (factN (2*q) * factN j * factN (q - j) : Nat) = coef b 0 * (factN (2*q - j) * factN q : Nat)

def LegendreTable (b : List Int) (C : List (List Int)) (q : Nat) : Prop :=
  C.length = q + 1 ∧ ∀ i ≤ q, (C.getD i []).length = q + 1 ∧ ∀ k ≤ q, ((tab C i k : Int) : Rat) = legFormula b i k

def NormsTable (norms : List Int) (q : Nat) : Prop :=
  norms = (List.range (q + 1)).map fun i => ((2*i+1 : Nat) : Int)

instance (b q) : Decidable (PadeTable b q) := by unfold PadeTable; infer_instance
instance (b C q) : Decidable (LegendreTable b C q) := by unfold LegendreTable; infer_instance
instance (n q) : Decidable (NormsTable n q) := by unfold NormsTable; infer_instance

theorem pade_table_3 : PadeTable pade3 plQ3 := by decide +kernel
theorem pade_table_5 : PadeTable pade5 plQ5 := by decide +kernel
theorem pade_table_7 : PadeTable pade7 plQ7 := by decide +kernel
theorem pade_table_9 : PadeTable pade9 plQ9 := by decide +kernel
theorem pade_table_13 : PadeTable pade13 plQ13 := by decide +kernel

theorem legendre_table_3 : LegendreTable pade3 leg3 plQ3 := by decide +kernel
theorem legendre_table_5 : LegendreTable pade5 leg5 plQ5 := by decide +kernel
theorem legendre_table_7 : LegendreTable pade7 leg7 plQ7 := by decide +kernel
theorem legendre_table_9 : LegendreTable pade9 leg9 plQ9 := by decide +kernel
theorem legendre_table_13 : LegendreTable pade13 leg13 plQ13 := by decide +kernel

theorem legendre_norms_3 : NormsTable legNorms3 plQ3 := by decide +kernel
theorem legendre_norms_5 : NormsTable legNorms5 plQ5 := by decide +kernel
theorem legendre_norms_7 : NormsTable legNorms7 plQ7 := by decide +kernel
theorem legendre_norms_9 : NormsTable legNorms9 plQ9 := by decide +kernel
theorem legendre_norms_13 : NormsTable legNorms13 plQ13 := by decide +kernel

theorem orders_offered : plOrders = [3, 5, 7, 9, 13] ∧ plQ3 = 3 ∧ plQ5 = 5 ∧ plQ7 = 7 ∧ plQ9 = 9 ∧ plQ13 = 13 := by
  decide +kernel

/-! ## the polynomials the code actually assembles -/

/-- the Padé halves assembled by `init` satisfy `V - U = D_q(z) = Σ b_j (-z)^j` and `V + U = N_q(z) = Σ b_j z^j` -/
def PadeEffective (q : Nat) (b : List Int) : Prop :=
  (padeUV polyAlg q b symA).map (fun uv => (dropZ (addL uv.2 (smulL (-1) uv.1)), dropZ (addL uv.2 uv.1)))
    = some (dropZ (altSigns b), dropZ b)

/-- the Legendre right-hand sides assembled by `init` (k-loop included) are the table polynomials `Σ_k C[i,k] z^k` -/
def RowsEffective (q : Nat) (C : List (List Int)) (ks : List Nat) (adv : Bool) : Prop :=
  (rows polyAlg q C ks adv symA symB).map (List.map dropZ) = some (C.map dropZ)

instance (q b) : Decidable (PadeEffective q b) := by unfold PadeEffective; infer_instance
instance (q C ks adv) : Decidable (RowsEffective q C ks adv) := by unfold RowsEffective; infer_instance

theorem pade_effective_3 : PadeEffective plQ3 pade3 := by decide +kernel
theorem pade_effective_5 : PadeEffective plQ5 pade5 := by decide +kernel
theorem pade_effective_7 : PadeEffective plQ7 pade7 := by decide +kernel
theorem pade_effective_9 : PadeEffective plQ9 pade9 := by decide +kernel
theorem pade_effective_13 : PadeEffective plQ13 pade13 := by decide +kernel

theorem init_effective_poly_3 : RowsEffective plQ3 leg3 plLoopKs3 plLoopAdvancesP3 := by decide +kernel
/-- False on the tree before repository commit d46cfd3 (`P = A2 @ P` missing in the loop of order 5: row 0 then
carries `C[0,4] z²` instead of `C[0,4] z⁴`); `plLoopAdvancesP5` is re-extracted from the source on every run. -/
theorem init_effective_poly_5 : RowsEffective plQ5 leg5 plLoopKs5 plLoopAdvancesP5 := by decide +kernel
theorem init_effective_poly_7 : RowsEffective plQ7 leg7 plLoopKs7 plLoopAdvancesP7 := by decide +kernel
theorem init_effective_poly_9 : RowsEffective plQ9 leg9 plLoopKs9 plLoopAdvancesP9 := by decide +kernel
theorem init_effective_poly_13 : RowsEffective plQ13 leg13 plLoopKs13 plLoopAdvancesP13 := by decide +kernel

/-- the order-5 loop **without** `P = A2 @ P` (the defect D3 repaired by d46cfd3) does *not* assemble the table
polynomial: this is what the generated flag protects against. -/
theorem init_effective_poly_5_needs_advance : ¬ RowsEffective 5 leg5 [2] false := by decide +kernel

/-! ## from polynomials to the matrices the driver computes -/

section spec
variable {K : Type} [Field K] {n m : Nat}

theorem evalL_neg_one_smul {R : Type} [Ring R] (u v : List Int) (x : R) :
    evalL (addL v (smulL (-1) u)) x = evalL v x - evalL u x := by
  rw [evalL_addL, evalL_smulL]; simp [sub_eq_add_neg]

/-- **what `init` computes, for all sizes and all matrices**, given the two kernel-checked facts about the order -/
theorem initParts_spec (q : Nat) (b : List Int) (C : List (List Int)) (ks : List Nat) (adv : Bool)
    (hP : PadeEffective q b) (hR : RowsEffective q C ks adv) (A : Mat n n K) (B : Mat n m K) :
    ∃ p, initParts q b C ks adv A B = some p ∧
      p.den.toM = evalL (altSigns b) A.toM ∧ p.num.toM = evalL b A.toM ∧
      p.ls.map Mat.toM = C.map (fun row => evalL row A.toM * B.toM) := by
  have hU := padeUV_eval (K := K) q b A
  have hL := rows_eval_of_table (K := K) q C ks adv hR A B
  unfold PadeEffective at hP
  cases hp : padeUV polyAlg q b symA with
  | none => rw [hp] at hP; simp at hP
  | some uv =>
    obtain ⟨u, v⟩ := uv
    rw [hp] at hP hU
    simp only [Option.map_some, Option.some.injEq, Prod.mk.injEq] at hP
    cases hm : padeUV (matAlg (α := K) n n) q b (box A) with
    | none => rw [hm] at hU; simp at hU
    | some UV =>
      obtain ⟨U, V⟩ := UV
      rw [hm] at hU
      simp only [Option.map_some, Option.some.injEq, Prod.map_apply, Prod.mk.injEq] at hU
      cases hr : rows (matAlg (α := K) n m) q C ks adv (box A) (box B) with
      | none => rw [hr] at hL; simp at hL
      | some ls =>
        rw [hr] at hL
        simp only [Option.map_some, Option.some.injEq] at hL
        refine ⟨{ den := V.m.sub U.m, num := V.m.add U.m, ls := ls.map (·.m) }, ?_, ?_, ?_, ?_⟩
        · simp [initParts, hm, hr]
        · simp only [toM_sub, hU.1, hU.2]
          rw [← evalL_neg_one_smul, evalL_congr_dropZ hP.1]
        · simp only [toM_add, hU.1, hU.2]
          rw [← evalL_addL, evalL_congr_dropZ hP.2]
        · rw [← hL, List.map_map]; rfl

/-- the table-based parts are `D_q(A)`, `N_q(A)`, `(Σ_k C[i,k] A^k) B` by construction … -/
theorem initPartsTable_spec (b : List Int) (C : List (List Int)) (A : Mat n n K) (B : Mat n m K) :
    (initPartsTable b C A B).den.toM = evalL (altSigns b) A.toM ∧
    (initPartsTable b C A B).num.toM = evalL b A.toM ∧
    (initPartsTable b C A B).ls.map Mat.toM = C.map (fun row => evalL row A.toM * B.toM) := by
  refine ⟨polyEvalMat_toM _ A, polyEvalMat_toM _ A, ?_⟩
  simp [initPartsTable, polyEvalMat_toM]

/-- … hence what `init` assembles agrees with the tables whenever the two kernel-checked facts hold
(this is the oracle of the failing-input search of part (ii): driver ops `pl_init` vs `pl_init_table`) -/
theorem initParts_eq_table (q : Nat) (b : List Int) (C : List (List Int)) (ks : List Nat) (adv : Bool)
    (hP : PadeEffective q b) (hR : RowsEffective q C ks adv) (A : Mat n n K) (B : Mat n m K) :
    ∃ p, initParts q b C ks adv A B = some p ∧
      p.den.toM = (initPartsTable b C A B).den.toM ∧ p.num.toM = (initPartsTable b C A B).num.toM ∧
      p.ls.map Mat.toM = (initPartsTable b C A B).ls.map Mat.toM := by
  obtain ⟨p, h0, h1, h2, h3⟩ := initParts_spec q b C ks adv hP hR A B
  obtain ⟨t1, t2, t3⟩ := initPartsTable_spec b C A B
  exact ⟨p, h0, by rw [h1, t1], by rw [h2, t2], by rw [h3, t3]⟩

theorem init_spec_3 (A : Mat n n K) (B : Mat n m K) :
    ∃ p, initParts plQ3 pade3 leg3 plLoopKs3 plLoopAdvancesP3 A B = some p ∧
      p.den.toM = evalL (altSigns pade3) A.toM ∧ p.num.toM = evalL pade3 A.toM ∧
      p.ls.map Mat.toM = leg3.map (fun row => evalL row A.toM * B.toM) :=
  initParts_spec _ _ _ _ _ pade_effective_3 init_effective_poly_3 A B
theorem init_spec_5 (A : Mat n n K) (B : Mat n m K) :
    ∃ p, initParts plQ5 pade5 leg5 plLoopKs5 plLoopAdvancesP5 A B = some p ∧
      p.den.toM = evalL (altSigns pade5) A.toM ∧ p.num.toM = evalL pade5 A.toM ∧
      p.ls.map Mat.toM = leg5.map (fun row => evalL row A.toM * B.toM) :=
  initParts_spec _ _ _ _ _ pade_effective_5 init_effective_poly_5 A B
theorem init_spec_7 (A : Mat n n K) (B : Mat n m K) :
    ∃ p, initParts plQ7 pade7 leg7 plLoopKs7 plLoopAdvancesP7 A B = some p ∧
      p.den.toM = evalL (altSigns pade7) A.toM ∧ p.num.toM = evalL pade7 A.toM ∧
      p.ls.map Mat.toM = leg7.map (fun row => evalL row A.toM * B.toM) :=
  initParts_spec _ _ _ _ _ pade_effective_7 init_effective_poly_7 A B
theorem init_spec_9 (A : Mat n n K) (B : Mat n m K) :
    ∃ p, initParts plQ9 pade9 leg9 plLoopKs9 plLoopAdvancesP9 A B = some p ∧
      p.den.toM = evalL (altSigns pade9) A.toM ∧ p.num.toM = evalL pade9 A.toM ∧
      p.ls.map Mat.toM = leg9.map (fun row => evalL row A.toM * B.toM) :=
  initParts_spec _ _ _ _ _ pade_effective_9 init_effective_poly_9 A B
theorem init_spec_13 (A : Mat n n K) (B : Mat n m K) :
    ∃ p, initParts plQ13 pade13 leg13 plLoopKs13 plLoopAdvancesP13 A B = some p ∧
      p.den.toM = evalL (altSigns pade13) A.toM ∧ p.num.toM = evalL pade13 A.toM ∧
      p.ls.map Mat.toM = leg13.map (fun row => evalL row A.toM * B.toM) :=
  initParts_spec _ _ _ _ _ pade_effective_13 init_effective_poly_13 A B

/-- the Gram matrix of `solve(V-U, concat(Ls_i/sqrt(ν_i)))` -/
theorem gramRows_spec (W : Mat n n K) (Ls : List (Mat n m K)) (norms : List Int) :
    (gramRows W Ls norms).toM =
      ((Ls.zip norms).map fun Lν => (1 / (Lν.2 : K)) • ((W.toM * Lν.1.toM) * (W.toM * Lν.1.toM)ᵀ)).sum := by
  induction Ls generalizing norms with
  | nil => simp [gramRows]
  | cons L Ls ih =>
    cases norms with
    | nil => simp [gramRows]
    | cons nu norms => simp [gramRows, ih]

/-- with a certified inverse `W` of the denominator, `init` returns `D⁻¹ N` and the weighted Gram sum -/
theorem init_result_spec (p : InitParts n m K) (norms : List Int) (W : Mat n n K)
    (hW : p.den.toM * W.toM = 1) :
    (initWith p norms W).1.toM = p.den.toM⁻¹ * p.num.toM ∧
    (initWith p norms W).2.toM =
      ((p.ls.zip norms).map fun Lν => (1 / (Lν.2 : K)) • ((p.den.toM⁻¹ * Lν.1.toM) * (p.den.toM⁻¹ * Lν.1.toM)ᵀ)).sum := by
  have hinv : p.den.toM⁻¹ = W.toM := Matrix.inv_eq_right_inv hW
  constructor
  · simp [initWith, hinv]
  · simp [initWith, gramRows_spec, hinv]

/-! ## doubling -/

/-- **`gram_doubling`.** For block upper-triangular `M = [[E, F],[0, E⁻ᵀ]]` (Van Loan's form: `exp [[A, BBᵀ],[0,-Aᵀ]]`),
the pair `(E, G := F Eᵀ)` of `M²` is `(E², G + E G Eᵀ)`: squaring the block matrix is exactly the doubling step. -/
theorem gram_doubling (E Ei F : Matrix (Fin n) (Fin n) K) (hE : E * Ei = 1) :
    Matrix.fromBlocks E F 0 Eiᵀ * Matrix.fromBlocks E F 0 Eiᵀ
      = Matrix.fromBlocks (E * E) (E * F + F * Eiᵀ) 0 (Eiᵀ * Eiᵀ) ∧
    (E * F + F * Eiᵀ) * (E * E)ᵀ = F * Eᵀ + E * (F * Eᵀ) * Eᵀ := by
  constructor
  · rw [Matrix.fromBlocks_multiply]; simp
  · have h1 : Eiᵀ * Eᵀ = 1 := by rw [← Matrix.transpose_mul, hE, Matrix.transpose_one]
    rw [Matrix.transpose_mul, Matrix.add_mul, Matrix.mul_assoc F, ← Matrix.mul_assoc Eiᵀ, h1, Matrix.one_mul, add_comm]
    simp only [Matrix.mul_assoc]

/-- the model's `double` (= `_exp_gram_cholesky_double` at the Gram level) is that step -/
theorem double_spec (E G : Mat n n K) :
    (double (E, G)).1.toM = E.toM * E.toM ∧ (double (E, G)).2.toM = G.toM + E.toM * G.toM * E.toMᵀ := by
  simp [double]

/-- **`doubling_iter`.** For every exact flow (`Ef (t+u) = Ef u · Ef t`, `Gf (t+u) = Gf u + Ef u · Gf t · (Ef u)ᵀ` — the
composition rule of transitions, cf. `iwp_semigroup`), `s` doublings of the exact pair at `t` give the exact pair at
`2^s t`: with `t = 2^{-s}` (i.e. `A/2^s`, `B/2^{s/2}`) the doubling loop returns the pair for `(A, B)`. -/
theorem doubling_iter (Ef Gf : ℕ → Matrix (Fin n) (Fin n) K)
    (hEf : ∀ t u, Ef (t + u) = Ef u * Ef t)
    (hGf : ∀ t u, Gf (t + u) = Gf u + Ef u * Gf t * (Ef u)ᵀ)
    (s t : ℕ) (E G : Mat n n K) (hE : E.toM = Ef t) (hG : G.toM = Gf t) :
    (iterDouble s (E, G)).1.toM = Ef (2 ^ s * t) ∧ (iterDouble s (E, G)).2.toM = Gf (2 ^ s * t) := by
  induction s generalizing t E G with
  | zero => simp [iterDouble, hE, hG]
  | succ s ih =>
    obtain ⟨d1, d2⟩ := double_spec E G
    have h2 : 2 ^ (s + 1) * t = 2 ^ s * (t + t) := by ring
    rw [h2]
    simp only [iterDouble]
    exact ih (t + t) (double (E, G)).1 (double (E, G)).2
      (by rw [d1, hE, hEf]) (by rw [d2, hG, hE, hGf])

end spec

/-! ## number of doublings -/

section num
variable {α : Type} [Add α] [Mul α] [Neg α] [Zero α] [One α] [NatCast α] [LT α] [DecidableLT α] [LE α] [DecidableLE α]

/-- the condition `‖A‖₁ ≤ η 2^s ∧ n - 1 ≤ q 2^s` (⟺ `ceil(max(log2(‖A‖₁/η), log2((n-1)/q))) ≤ s` for `η, q > 0`) -/
def NumOk (eta normA : α) (n q s : Nat) : Prop :=
  normA ≤ eta * pow2 s ∧ ((n - 1 : Nat) : α) ≤ ((q : Nat) : α) * pow2 s

theorem numDoublingsFrom_spec (eta normA : α) (n q fuel s0 s : Nat)
    (h : numDoublingsFrom eta normA n q fuel s0 = some s) :
    s0 ≤ s ∧ NumOk eta normA n q s ∧ ∀ s', s0 ≤ s' → s' < s → ¬ NumOk eta normA n q s' := by
  induction fuel generalizing s0 with
  | zero => simp [numDoublingsFrom] at h
  | succ fuel ih =>
    unfold numDoublingsFrom at h
    split at h
    · next hc =>
      simp only [Option.some.injEq] at h
      subst h
      exact ⟨le_refl _, hc, fun s' h1 h2 => absurd h1 (by omega)⟩
    · next hc =>
      obtain ⟨h1, h2, h3⟩ := ih (s0 + 1) h
      refine ⟨by omega, h2, fun s' hs hs' => ?_⟩
      by_cases he : s' = s0
      · subst he; exact hc
      · exact h3 s' (by omega) hs'

/-- **the number of doublings is the least admissible one** -/
theorem numDoublings_spec (eta normA : α) (n q fuel s : Nat) (h : numDoublings eta normA n q fuel = some s) :
    NumOk eta normA n q s ∧ ∀ s' < s, ¬ NumOk eta normA n q s' := by
  obtain ⟨_, h2, h3⟩ := numDoublingsFrom_spec eta normA n q fuel 0 s h
  exact ⟨h2, fun s' hs => h3 s' (Nat.zero_le _) hs⟩

end num

/-! ## drifts of the Ornstein–Uhlenbeck and Matérn priors -/

section drift
variable {K : Type} [Field K] [CharZero K]

theorem chooseA_eq (n k : ℕ) : chooseA n k = n.choose k := by
  induction n generalizing k with
  | zero => cases k <;> simp [chooseA]
  | succ n ih => cases k with
    | zero => simp [chooseA]
    | succ k => simp [chooseA, Nat.choose_succ_succ, ih]

theorem powA_eq (x : K) (k : ℕ) : powA x k = x ^ k := by
  induction k with
  | zero => simp [powA]
  | succ k ih => simp [powA, pow_succ, ih]

/-- companion matrix of `(d/dt + z)^(q+1)`: shift rows, last row `-C(q+1, j) z^(q+1-j)` -/
def companion (q : ℕ) (z : K) : Matrix (Fin (q+1)) (Fin (q+1)) K :=
  Matrix.of fun i j => if i.val < q then (if j.val = i.val + 1 then 1 else 0)
    else - (((q+1).choose j.val : K) * z ^ (q + 1 - j.val))

theorem shift_index (d : ℕ) (x y : ℕ) (hd : 0 < d) :
    y = x + d ↔ (y / d = x / d + 1 ∧ y % d = x % d) := by
  constructor
  · intro h; subst h
    exact ⟨Nat.add_div_right x hd, Nat.add_mod_right x d⟩
  · intro ⟨h1, h2⟩
    have hy := Nat.div_add_mod y d
    have hx := Nat.div_add_mod x d
    rw [h1, h2] at hy
    calc y = d * (x / d + 1) + x % d := hy.symm
      _ = (d * (x / d) + x % d) + d := by ring
      _ = x + d := by rw [hx]

theorem fin_pos {q d : ℕ} (x : Fin ((q+1)*d)) : 0 < d := by
  rcases Nat.eq_zero_or_pos d with h | h
  · subst h; exact x.elim0
  · exact h

/-- **`ou_drift`.** The drift built for `prior_ornstein_uhlenbeck_integrated` is `F ⊗ I_d + e_q e_qᵀ ⊗ L`:
`u^{(q+1)} = L u^{(q)} + noise`, the `q`-times integrated Ornstein–Uhlenbeck process. -/
theorem ou_drift (q d : ℕ) (L : Mat d d K) :
    (driftOf q d (ouBottom q d L)).toM
      = Matrix.reindex finProdFinEquiv finProdFinEquiv ((Fshift q : Matrix _ _ K) ⊗ₖ (1 : Matrix (Fin d) (Fin d) K) + (Ldiff q) ⊗ₖ L.toM) := by
  funext x y
  have hd := fin_pos x
  have hxm : x.val % d < d := Nat.mod_lt _ hd
  have hym : y.val % d < d := Nat.mod_lt _ hd
  have hxq : x.val / d < q + 1 := x.divNat.isLt
  have hyq : y.val / d < q + 1 := y.divNat.isLt
  have hm : (x.modNat = y.modNat) ↔ (x.val % d = y.val % d) := by rw [Fin.ext_iff]; rfl
  show (driftOf q d (ouBottom q d L)).get x y =
    (Fshift q) x.divNat y.divNat * (1 : Matrix (Fin d) (Fin d) K) x.modNat y.modNat + (Ldiff q) x.divNat y.divNat * L.toM x.modNat y.modNat
  simp only [driftOf, ouBottom, get_ofFn, Fshift, Ldiff, Matrix.of_apply, Matrix.one_apply, hxm, hym, dite_true,
    Fin.divNat, Fin.modNat, toM_apply]
  by_cases h1 : x.val / d < q
  · have h2 : ¬ (x.val / d = q ∧ y.val / d = q) := by omega
    simp only [h1, if_true, h2, if_false, zero_mul, add_zero, shift_index d x.val y.val hd]
    by_cases h3 : y.val / d = x.val / d + 1 <;> by_cases h4 : x.val % d = y.val % d <;> simp [h3, h4, eq_comm]
  · have h2 : x.val / d = q := by omega
    have h3 : ¬ (y.val / d = x.val / d + 1) := by omega
    rw [if_neg h1, if_neg h3]
    simp only [zero_mul, zero_add, h2, true_and]
    split <;> simp

/-- **`matern_drift`.** The drift built for `prior_matern` is `companion(z) ⊗ I_d`: the bottom block carries the
coefficients `-C(D,j) z^(D-j)` (`D = q+1`) of `(d/dt + z)^D u = noise`. -/
theorem matern_drift (q d : ℕ) (z : K) :
    (driftOf q d (maternBottom q d z)).toM
      = Matrix.reindex finProdFinEquiv finProdFinEquiv ((companion q z) ⊗ₖ (1 : Matrix (Fin d) (Fin d) K)) := by
  funext x y
  have hd := fin_pos x
  have hxm : x.val % d < d := Nat.mod_lt _ hd
  have hm : (x.modNat = y.modNat) ↔ (x.val % d = y.val % d) := by rw [Fin.ext_iff]; rfl
  show (driftOf q d (maternBottom q d z)).get x y =
    (companion q z) x.divNat y.divNat * (1 : Matrix (Fin d) (Fin d) K) x.modNat y.modNat
  simp only [driftOf, maternBottom, get_ofFn, companion, Matrix.of_apply, Matrix.one_apply, hxm, dite_true,
    Fin.divNat, Fin.modNat, chooseA_eq, powA_eq]
  by_cases h1 : x.val / d < q
  · simp only [h1, if_true, shift_index d x.val y.val hd]
    by_cases h3 : y.val / d = x.val / d + 1 <;> by_cases h4 : x.val % d = y.val % d <;> simp [h3, h4, eq_comm]
  · simp only [h1, if_false]
    by_cases h4 : x.val % d = y.val % d <;> simp [h4, eq_comm]

/-- the companion coefficients are those of `(X + z)^(q+1)`: the stated Matérn SDE is `(d/dt + z)^(q+1) u = noise` -/
theorem matern_charpoly (q : ℕ) (z : K) :
    (Polynomial.X + Polynomial.C z) ^ (q + 1)
      = Polynomial.X ^ (q + 1) +
        ∑ j ∈ Finset.range (q + 1), Polynomial.C (((q+1).choose j : K) * z ^ (q + 1 - j)) * Polynomial.X ^ j := by
  rw [add_pow, Finset.sum_range_succ, add_comm]
  congr 1
  · simp
  · apply Finset.sum_congr rfl
    intro j _
    rw [Polynomial.C_mul, Polynomial.C_pow, ← Polynomial.C_eq_natCast]
    ring

end drift

/-! ## non-vacuity -/

/-- the driver's own evaluation: order 3, `A = [[1/2]]`, `B = [[1]]`: `D(1/2) = 120 - 30 + 3 - 1/8` -/
example : ((initParts (α := Rat) (n := 1) (m := 1) 3 pade3 leg3 plLoopKs3 plLoopAdvancesP3
    ⟨fun _ _ => 1/2⟩ ⟨fun _ _ => 1⟩).map fun p => p.den.get 0 0) = some (743/8) := by decide +kernel
example : numDoublings (α := Rat) (1/4) 3 5 3 64 = some 4 := by decide +kernel
example : (driftOf 1 1 (maternBottom 1 1 (3 : Rat))).get 1 0 = -9 ∧ (driftOf 1 1 (maternBottom 1 1 (3 : Rat))).get 1 1 = -6 := by
  decide +kernel

/-- hypotheses of `gram_doubling` / `doubling_iter` are satisfiable: `E = 2`, `E⁻¹ = 1/2`; the flow of `A = 0`, `B = 1` -/
example : ((2 : ℚ) • (1 : Matrix (Fin 1) (Fin 1) ℚ)) * ((1 / 2 : ℚ) • (1 : Matrix (Fin 1) (Fin 1) ℚ)) = 1 := by
  rw [Matrix.smul_mul, Matrix.mul_smul, smul_smul]; norm_num
example : (∀ t u : ℕ, (fun _ : ℕ => (1 : Matrix (Fin 2) (Fin 2) ℚ)) (t + u) = (fun _ => 1) u * (fun _ => 1) t) ∧
    (∀ t u : ℕ, (fun t : ℕ => (t : ℚ) • (1 : Matrix (Fin 2) (Fin 2) ℚ)) (t + u)
      = (fun t : ℕ => (t : ℚ) • (1 : Matrix (Fin 2) (Fin 2) ℚ)) u + 1 * ((t : ℚ) • (1 : Matrix (Fin 2) (Fin 2) ℚ)) * (1 : Matrix (Fin 2) (Fin 2) ℚ)ᵀ) := by
  constructor
  · intro t u; simp
  · intro t u; simp [add_smul, add_comm]

end Pdq.C09
