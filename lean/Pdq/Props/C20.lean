import Pdq.Lemmas.Validate
/-!
# C20 — Malformed inputs are rejected loudly instead of being broadcast silently

All statements are about the executable decision functions of `Pdq.Model.Validate` (the functions the
driver runs), for **all** shapes, trees and container lengths.  Per entry point:

* `…_validate_sound`     valid argument sets are accepted (every code variant);
* `…_validate_complete`  every corruption of the named field is rejected (`raise`), stated in the
                          strongest form — *every* value whose shape skeleton / structure / dtype /
                          object kind differs — with the single-site corruption classes
                          (`LeafShapeCorrupt`: wrong rank or wrong length of one leaf; `structEq … = false`:
                          wrong tree structure) shown to be instances;
* where the transcribed code has no check the completeness statement is **false**: `…_not_complete`
  proves the negation with a concrete witness (these are the defects the check reports) and
  `…_validate_complete_partial` excludes exactly the accepted corruptions;  the same statement for
  the *fixed* code variant is proved complete.
-/
set_option linter.unusedSimpArgs false
set_option linter.unusedVariables false

namespace Pdq.C20
open Pdq.Validate

/-! ## plumbing -/

@[simp] theorem bind_ok {α β} (a : α) (f : α → Chk β) : (Except.ok a >>= f) = f a := rfl
@[simp] theorem bind_err {α β} (e : Exc) (f : α → Chk β) : ((Except.error e : Chk α) >>= f) = .error e := rfl
@[simp] theorem failIf_ok (b : Bool) (e : Exc) : failIf b e = .ok () ↔ b = false := by
  cases b <;> simp [failIf]
@[simp] theorem bind_const_error {α} (c : Chk α) (e : Exc) :
    (c >>= fun _ => (Except.error e : Chk Unit)) = .ok () ↔ False := by
  cases c <;> simp
@[simp] theorem bind_unit_ok (c : Chk Unit) : (c >>= fun _ => (Except.ok () : Chk Unit)) = .ok () ↔ c = .ok () := by
  cases c <;> simp
theorem failIf_true (e : Exc) : failIf true e = .error e := rfl
theorem failIf_false (e : Exc) : failIf false e = .ok () := rfl

/-- the decision is a `raise` -/
def Raises (c : Chk Unit) : Prop := ∃ e, c = .error e

theorem raises_iff_not_ok (c : Chk Unit) : Raises c ↔ c ≠ .ok () := by
  unfold Raises
  cases c with
  | error e => simp
  | ok u => simp

theorem raises_outcome (c : Chk Unit) : Raises c ↔ ∃ e, outcome c = .raise e := by
  unfold Raises
  cases c with
  | error e => simp [outcome]
  | ok u => simp [outcome]

/-! ## corruption classes -/

/-- exactly one leaf is replaced by a leaf of a different shape (wrong rank **or** wrong length);
dtype and scalar-ness of the new leaf are arbitrary -/
inductive LeafShapeCorrupt : Tree → Tree → Prop
  | here {s s' d d' p p'} : s ≠ s' → LeafShapeCorrupt (.arr s d p) (.arr s' d' p')
  | child {k pre post x x'} : LeafShapeCorrupt x x' →
      LeafShapeCorrupt (.node k (pre ++ x :: post)) (.node k (pre ++ x' :: post))

theorem LeafShapeCorrupt.erase_ne {t t' : Tree} (h : LeafShapeCorrupt t t') : t.erase ≠ t'.erase := by
  induction h with
  | here hs => simp [Tree.erase, hs]
  | child _ ih =>
    simp only [Tree.erase, Tree.eraseL_eq, List.map_append, List.map_cons, ne_eq, Tree.node.injEq, true_and]
    intro h
    have := List.append_cancel_left h
    simp at this
    exact ih this

/-- a single-leaf shape corruption always changes the shape skeleton -/
theorem LeafShapeCorrupt.not_shapeEq {t t' : Tree} (h : LeafShapeCorrupt t t') : shapeEq t t' = false := by
  rw [← Bool.not_eq_true, shapeEq_iff]; exact h.erase_ne

/-- wrong tree structure (container kind, arity, leaf ↔ container) changes the shape skeleton -/
theorem not_shapeEq_of_not_structEq {t t' : Tree} (h : structEq t t' = false) : shapeEq t t' = false := by
  cases hs : shapeEq t t' with
  | false => rfl
  | true => rw [structEq_of_shapeEq hs] at h; cases h

/-- non-vacuity: wrong rank, wrong length, broadcast-compatible traps, wrong structure -/
example : LeafShapeCorrupt (.node .list [.arr [3] .f false, .arr [3] .f false]) (.node .list [.arr [3] .f false, .arr [] .f false]) :=
  .child (pre := [.arr [3] .f false]) (post := []) (.here (by decide))
example : LeafShapeCorrupt (.arr [3] .f false) (.arr [1] .f false) := .here (by decide)
example : LeafShapeCorrupt (.arr [3] .f false) (.arr [3, 1] .f false) := .here (by decide)
example : structEq (.node .list [.arr [3] .f false]) (.node .list [.node .list [.arr [3] .f false]]) = false := by decide
example : structEq (.node .list [.arr [3] .f false]) (.node .list [.arr [3] .f false, .arr [3] .f false]) = false := by decide

/-! ## Taylor-coefficient containers -/

/-- a valid Taylor-coefficient container: a non-empty list / tuple of coefficient pytrees with one common
shape skeleton -/
structure ValidMean (k : Kind) (x : Tree) (xs : List Tree) : Prop where
  seq : k.isSeq = true
  same : ∀ y ∈ xs, shapeEq x y = true

abbrev mkSeq (k : Kind) (x : Tree) (xs : List Tree) : Arg := .tree (.node k (x :: xs))

def IsSeqMean (a : Arg) : Prop := ∃ k x xs, a = mkSeq k x xs ∧ ValidMean k x xs

/-- the Python literal `True` (default of `is_exact`) -/
abbrev pyTrue : Arg := .tree (.arr [] .b true)

theorem verify_seq {k x xs} (h : ValidMean k x xs) : verifyTcoeffs (mkSeq k x xs) = .ok () := by
  obtain ⟨hk, hs⟩ := h
  cases k with
  | dict ks => simp [Kind.isSeq] at hk
  | list => simp [verifyTcoeffs, List.all_eq_true]; exact hs
  | tuple => simp [verifyTcoeffs, List.all_eq_true]; exact hs

/-- `verify_taylor_coefficient_pytree` accepts exactly the valid containers — and dicts with at least one
key, whose keys it iterates (those fail at the first `x[0]`) -/
theorem verify_accept_iff (a : Arg) :
    verifyTcoeffs a = .ok () ↔ IsSeqMean a ∨ ∃ key keys xs, a = .tree (.node (.dict (key :: keys)) xs) := by
  unfold IsSeqMean mkSeq
  match a with
  | .none => simp [verifyTcoeffs]
  | .fn => simp [verifyTcoeffs]
  | .tree (.arr s d true) => simp [verifyTcoeffs]
  | .tree (.arr s d false) => simp [verifyTcoeffs]
  | .tree (.node (.dict []) xs) =>
    simp [verifyTcoeffs]; intro k x xs hk _ h; subst hk; simpa [Kind.isSeq] using h.seq
  | .tree (.node (.dict (k :: ks)) xs) => simp [verifyTcoeffs]
  | .tree (.node .list []) => simp [verifyTcoeffs]
  | .tree (.node .tuple []) => simp [verifyTcoeffs]
  | .tree (.node .list (x :: xs)) =>
    simp [verifyTcoeffs, List.all_eq_true]
    exact ⟨fun h => ⟨_, _, _, ⟨rfl, rfl, rfl⟩, ⟨rfl, h⟩⟩, fun ⟨_, _, _, ⟨_, h1, h2⟩, h⟩ => by subst h1 h2; exact h.same⟩
  | .tree (.node .tuple (x :: xs)) =>
    simp [verifyTcoeffs, List.all_eq_true]
    exact ⟨fun h => ⟨_, _, _, ⟨rfl, rfl, rfl⟩, ⟨rfl, h⟩⟩, fun ⟨_, _, _, ⟨_, h1, h2⟩, h⟩ => by subst h1 h2; exact h.same⟩

theorem pyHead_dict {key keys xs} : pyHead (.tree (.node (.dict (key :: keys)) xs)) = .error .implicit := rfl

theorem pyHead_seq {k x xs} (hk : k.isSeq = true) : pyHead (mkSeq k x xs) = .ok x := by
  cases k with
  | dict ks => simp [Kind.isSeq] at hk
  | list => rfl
  | tuple => rfl

theorem pyLen_seq {k x xs} (hk : k.isSeq = true) : pyLen (mkSeq k x xs) = .ok (xs.length + 1) := by
  cases k with
  | dict ks => simp [Kind.isSeq] at hk
  | list => rfl
  | tuple => rfl

/-- a `std` with the shape skeleton of a valid mean is itself a valid container -/
theorem validMean_of_shapeEq {k x xs ts} (h : ValidMean k x xs) (he : shapeEq (.node k (x :: xs)) ts = true) :
    ∃ y ys, ts = .node k (y :: ys) ∧ ValidMean k y ys ∧ shapeEq x y = true ∧ ys.length = xs.length := by
  cases ts with
  | arr s d p => simp at he
  | node k' ys' =>
    rw [shapeEq_node] at he
    obtain ⟨hk, hm⟩ := he
    subst hk
    cases ys' with
    | nil => simp at hm
    | cons y ys =>
      simp only [List.map_cons, List.cons.injEq] at hm
      obtain ⟨hxy, hrest⟩ := hm
      refine ⟨y, ys, rfl, ⟨h.seq, ?_⟩, (shapeEq_iff _ _).2 hxy, ?_⟩
      · intro y' hy'
        have : y'.erase ∈ ys.map Tree.erase := List.mem_map_of_mem hy'
        rw [← hrest] at this
        obtain ⟨x', hx', hxe⟩ := List.mem_map.1 this
        rw [shapeEq_iff, ← hxy, ← hxe]
        exact (shapeEq_iff _ _).1 (h.same x' hx')
      · simpa using (congrArg List.length hrest).symm

/-! ## `tcoeffs_std` of `prior_wiener_integrated_diffuse` — dense -/

/-- what the dense `from_mean_and_std` requires of `std` beyond `verify_taylor_coefficient_pytree` -/
def stdOk (v : StdCheck) (tm ts : Tree) : Bool :=
  match v with
  | .leafwise => shapeEq tm ts
  | _ => tm.size == ts.size

/-- exact characterisation of the inputs accepted by `DenseNormal.from_mean_and_std` -/
theorem denseFromMeanStd_accept_iff (v : StdCheck) {k x xs} (h : ValidMean k x xs) (std : Arg) :
    denseFromMeanStd v (mkSeq k x xs) std = .ok () ↔
      ∃ ts, std = .tree ts ∧ verifyTcoeffs std = .ok () ∧ stdOk v (.node k (x :: xs)) ts = true := by
  unfold denseFromMeanStd
  rw [verify_seq h]
  cases hv : verifyTcoeffs std with
  | error e => simp
  | ok u =>
    cases std with
    | none => simp [verifyTcoeffs] at hv
    | fn => simp [verifyTcoeffs] at hv
    | tree ts => cases v <;> simp [stdOk]

theorem processBaseScaleDense_none (x0 : Tree) : processBaseScaleDense .none x0 = .ok () := rfl

/-- **dense, sound**: a `std` with the structure and leaf shapes of the mean is accepted by every code variant -/
theorem dense_diffuse_validate_sound (v : StdCheck) {k x xs ts} (h : ValidMean k x xs)
    (hs : shapeEq (.node k (x :: xs)) ts = true) :
    outcome (densePriorDiffuse v (mkSeq k x xs) (.tree ts) .none) = .accept := by
  obtain ⟨y, ys, rfl, hv, _, _⟩ := validMean_of_shapeEq h hs
  have h1 : denseFromMeanStd v (mkSeq k x xs) (.tree (.node k (y :: ys))) = .ok () := by
    rw [denseFromMeanStd_accept_iff v h]
    refine ⟨_, rfl, verify_seq hv, ?_⟩
    cases v <;> simp [stdOk, hs, size_eq_of_shapeEq hs]
  simp [densePriorDiffuse, h1, pyHead_seq h.seq, processBaseScaleDense_none, outcome]

/-- **dense, strict variant, complete**: *every* `std` that is not a pytree with the mean's shape skeleton
(wrong rank, wrong length, wrong structure, `None`, a function, a bare array) raises -/
theorem dense_std_validate_complete_leafwise {k x xs} (h : ValidMean k x xs) (std os : Arg)
    (hbad : ∀ ts, std = .tree ts → shapeEq (.node k (x :: xs)) ts = false) :
    Raises (densePriorDiffuse .leafwise (mkSeq k x xs) std os) := by
  rw [raises_iff_not_ok]
  intro hok
  have h1 : denseFromMeanStd .leafwise (mkSeq k x xs) std = .ok () := by
    unfold densePriorDiffuse at hok
    cases hd : denseFromMeanStd .leafwise (mkSeq k x xs) std with
    | ok u => rfl
    | error e => rw [hd] at hok; simp at hok
  obtain ⟨ts, rfl, _, hs⟩ := (denseFromMeanStd_accept_iff .leafwise h std).1 h1
  simp [stdOk, hbad ts rfl] at hs

/-- **dense, current tree, NOT complete**: a `std` leaf of shape `(3, 1)` for a mean leaf of shape `(3,)`
(wrong rank, a single-leaf corruption) is accepted: only the flattened sizes are compared -/
theorem dense_std_not_complete :
    ∃ k x xs ts, ValidMean k x xs ∧ LeafShapeCorrupt (.node k (x :: xs)) ts ∧
      outcome (densePriorDiffuse .flatAssert (mkSeq k x xs) (.tree ts) .none) = .accept :=
  ⟨.list, .arr [3] .f false, [], .node .list [.arr [3, 1] .f false], ⟨rfl, by simp⟩,
    .child (pre := []) (post := []) (.here (by decide)), by decide⟩

/-- **dense, current tree, complete except for exactly the size-preserving corruptions**: a `std` that fails
`verify_taylor_coefficient_pytree` or has a different number of entries raises -/
theorem dense_std_validate_complete_partial (v : StdCheck) {k x xs} (h : ValidMean k x xs) (std os : Arg)
    (hbad : ∀ ts, std = .tree ts → verifyTcoeffs std ≠ .ok () ∨ ts.size ≠ Tree.size (.node k (x :: xs))) :
    Raises (densePriorDiffuse v (mkSeq k x xs) std os) := by
  rw [raises_iff_not_ok]
  intro hok
  have h1 : denseFromMeanStd v (mkSeq k x xs) std = .ok () := by
    unfold densePriorDiffuse at hok
    cases hd : denseFromMeanStd v (mkSeq k x xs) std with
    | ok u => rfl
    | error e => rw [hd] at hok; simp at hok
  obtain ⟨ts, rfl, hv, hs⟩ := (denseFromMeanStd_accept_iff v h _).1 h1
  rcases hbad ts rfl with hb | hb
  · exact hb hv
  · cases v <;> simp [stdOk] at hs
    all_goals first | exact hb hs.symm | exact hb (size_eq_of_shapeEq hs).symm

/-- non-vacuity of the partial statement: scalar leaves (the broadcast trap) have a different size -/
example : Raises (densePriorDiffuse .flatAssert (mkSeq .list (.arr [3] .f false) [.arr [3] .f false])
    (.tree (.node .list [.arr [] .f false, .arr [] .f false])) .none) :=
  (raises_outcome _).2 ⟨.assertion, by decide⟩

/-! ## `tcoeffs_std` — isotropic -/

/-- all entries are scalars (shape `()`) -/
def AllScalars (ys : List Tree) : Prop := ∀ y ∈ ys, ∃ d p, y = .arr [] d p

theorem allScalars_of_same {d p} {ys : List Tree} (h : ∀ y ∈ ys, shapeEq (.arr [] d p) y = true) : AllScalars ys := by
  intro y hy
  have := h y hy
  cases y with
  | node k zs => simp at this
  | arr s d' p' => rw [shapeEq_arr] at this; exact ⟨d', p', by rw [← this]⟩

/-- exact characterisation of `IsotropicNormal.from_mean_and_std`: the accepted `std` are exactly the
lists / tuples of as many *scalars* as there are coefficients -/
theorem isoFromMeanStd_accept_iff {k x xs} (h : ValidMean k x xs) (std : Arg) :
    isoFromMeanStd (mkSeq k x xs) std = .ok () ↔
      ∃ k' y ys, std = mkSeq k' y ys ∧ k'.isSeq = true ∧ AllScalars (y :: ys) ∧ ys.length = xs.length := by
  unfold isoFromMeanStd
  rw [verify_seq h, pyHead_seq h.seq, pyLen_seq h.seq]
  constructor
  · intro hok
    cases hv : verifyTcoeffs std with
    | error e => simp [hv] at hok
    | ok u =>
      simp only [hv, bind_ok] at hok
      rcases (verify_accept_iff std).1 hv with ⟨k', y, ys, rfl, hval⟩ | ⟨key, keys, zs, rfl⟩
      · have hk' := hval.seq
        simp only [mkSeq, hk', Bool.not_true] at hok
        cases y with
        | node kk zz => simp at hok
        | arr sy dy py =>
          simp at hok
          obtain ⟨hlen, hsy⟩ := hok
          subst hsy
          refine ⟨k', _, ys, rfl, hk', ?_, hlen⟩
          intro y' hy'
          rcases List.mem_cons.1 hy' with rfl | hy'
          · exact ⟨dy, py, rfl⟩
          · exact allScalars_of_same hval.same y' hy'
      · cases zs <;> simp [Kind.isSeq] at hok
  · rintro ⟨k', y, ys, rfl, hk', hsc, hlen⟩
    obtain ⟨dy, py, rfl⟩ := hsc y (List.mem_cons_self ..)
    have hval : ValidMean k' (.arr [] dy py) ys := ⟨hk', fun y' hy' => by
      obtain ⟨d', p', rfl⟩ := hsc y' (List.mem_cons_of_mem _ hy'); exact shapeEq_arr.2 rfl⟩
    simp [verify_seq hval, mkSeq, hk', hlen]

/-- **isotropic, sound** -/
theorem iso_diffuse_validate_sound {k x xs k' y ys} (h : ValidMean k x xs) (hk' : k'.isSeq = true)
    (hsc : AllScalars (y :: ys)) (hlen : ys.length = xs.length) :
    outcome (isoPriorDiffuse (mkSeq k x xs) (mkSeq k' y ys) .none) = .accept := by
  have := (isoFromMeanStd_accept_iff h (mkSeq k' y ys)).2 ⟨k', y, ys, rfl, hk', hsc, hlen⟩
  simp [isoPriorDiffuse, this, isoBaseScale, outcome]

/-- **isotropic, complete**: every `std` that is not a sequence of exactly `n` scalars raises — in particular
every wrong rank / wrong length of a leaf (`(1,)`, `(d,)`, `(d,1)`), every wrong container length, every wrong
structure, `None`, functions, bare arrays -/
theorem iso_std_validate_complete {k x xs} (h : ValidMean k x xs) (std os : Arg)
    (hbad : ¬ ∃ k' y ys, std = mkSeq k' y ys ∧ k'.isSeq = true ∧ AllScalars (y :: ys) ∧ ys.length = xs.length) :
    Raises (isoPriorDiffuse (mkSeq k x xs) std os) := by
  rw [raises_iff_not_ok]
  intro hok
  apply hbad
  rw [← isoFromMeanStd_accept_iff h]
  unfold isoPriorDiffuse at hok
  cases hd : isoFromMeanStd (mkSeq k x xs) std with
  | ok u => rfl
  | error e => rw [hd] at hok; simp at hok

/-- non-vacuity: the `(1,)` trap is rejected by the isotropic model with a `ValueError` -/
example : outcome (isoPriorDiffuse (mkSeq .list (.arr [3] .f false) [.arr [3] .f false])
    (mkSeq .list (.arr [1] .f false) [.arr [1] .f false]) .none) = .raise .value := by decide
example : outcome (isoPriorDiffuse (mkSeq .list (.arr [3] .f false) [.arr [3] .f false])
    (mkSeq .list (.arr [] .f false) [.arr [] .f false]) .none) = .accept := by decide

/-! ## `tcoeffs_std` — block-diagonal (defect D7) -/

/-- what `BlockDiagNormal.from_mean_and_std` requires of a (verified) `std = [y, …]` of `m` coefficients
against a mean `[x, …]` of `n` coefficients, per code variant -/
def bdStdOk (v : StdCheck) (k : Kind) (x : Tree) (xs : List Tree) (k' : Kind) (y : Tree) (ys : List Tree) : Prop :=
  match v with
  | .none => ys.length = xs.length ∨ ys.length = 0 ∨ xs.length = 0
  | .leafwise => shapeEq (.node k (x :: xs)) (.node k' (y :: ys)) = true
  | _ => y.size = x.size ∧ ys.length = xs.length

/-- exact characterisation of the block-diagonal `from_mean_and_std` for every code variant -/
theorem bdFromMeanStd_accept_iff (v : StdCheck) {k x xs} (h : ValidMean k x xs) (std : Arg) :
    bdFromMeanStd v (mkSeq k x xs) std = .ok () ↔
      ∃ k' y ys, std = mkSeq k' y ys ∧ ValidMean k' y ys ∧ bdStdOk v k x xs k' y ys := by
  unfold bdFromMeanStd
  rw [verify_seq h, pyHead_seq h.seq, pyLen_seq h.seq]
  constructor
  · intro hok
    cases hv : verifyTcoeffs std with
    | error e => simp [hv] at hok
    | ok u =>
      simp only [hv, bind_ok] at hok
      rcases (verify_accept_iff std).1 hv with ⟨k', y, ys, rfl, hval⟩ | ⟨key, keys, zs, rfl⟩
      · refine ⟨k', y, ys, rfl, hval, ?_⟩
        have hk' := hval.seq
        simp only [mkSeq, hk', Bool.not_true] at hok
        cases v <;> simp [bdStdOk] at hok ⊢ <;> first | exact hok | grind
      · cases zs <;> simp [Kind.isSeq] at hok
  · rintro ⟨k', y, ys, rfl, hval, hv⟩
    have hk' := hval.seq
    cases v <;> simp [bdStdOk] at hv <;> simp [verify_seq hval, mkSeq, hk', hv] <;> grind

/-- **block-diagonal, sound** (every variant) -/
theorem bd_diffuse_validate_sound (v : StdCheck) {k x xs ts} (h : ValidMean k x xs)
    (hs : shapeEq (.node k (x :: xs)) ts = true) :
    outcome (bdPriorDiffuse v (mkSeq k x xs) (.tree ts) .none) = .accept := by
  obtain ⟨y, ys, rfl, hv, hxy, hlen⟩ := validMean_of_shapeEq h hs
  have h1 : bdFromMeanStd v (mkSeq k x xs) (.tree (.node k (y :: ys))) = .ok () := by
    rw [bdFromMeanStd_accept_iff v h]
    refine ⟨k, y, ys, rfl, hv, ?_⟩
    cases v <;> simp [bdStdOk, hs, hlen, (size_eq_of_shapeEq hxy).symm]
  simp [bdPriorDiffuse, h1, pyHead_seq h.seq, processBaseScale, outcome]

/-- **D7, general form (current tree)**: for EVERY valid mean and EVERY leaf shape `s` — `()`, `(1,)`, anything —
a `std` made of `n` leaves of shape `s` is accepted by the block-diagonal model: nothing relates `std` leaves to
mean leaves -/
theorem bd_std_not_complete_any_leaf_shape {k x xs} (h : ValidMean k x xs) (s : Shape) :
    outcome (bdPriorDiffuse .none (mkSeq k x xs) (mkSeq k (.arr s .f false) (xs.map fun _ => .arr s .f false)) .none)
      = .accept := by
  have hval : ValidMean k (.arr s .f false) (xs.map fun _ => .arr s .f false) :=
    ⟨h.seq, fun y hy => by obtain ⟨_, _, rfl⟩ := List.mem_map.1 hy; exact shapeEq_arr.2 rfl⟩
  have h1 := (bdFromMeanStd_accept_iff .none h (mkSeq k (.arr s .f false) (xs.map fun _ => .arr s .f false))).2
    ⟨_, _, _, rfl, hval, by simp [bdStdOk]⟩
  simp [bdPriorDiffuse, h1, pyHead_seq h.seq, processBaseScale, outcome]

/-- **D7, second form (current tree)**: a `std` container with a *single* coefficient is accepted for a mean
with any number of coefficients (the one standard deviation is broadcast over all of them) -/
theorem bd_std_not_complete_single_coefficient {k x xs} (h : ValidMean k x xs) (y : Tree) :
    outcome (bdPriorDiffuse .none (mkSeq k x xs) (mkSeq k y []) .none) = .accept := by
  have h1 := (bdFromMeanStd_accept_iff .none h (mkSeq k y [])).2
    ⟨_, _, _, rfl, ⟨h.seq, by simp⟩, by simp [bdStdOk]⟩
  simp [bdPriorDiffuse, h1, pyHead_seq h.seq, processBaseScale, outcome]

/-- the concrete D7 witnesses: mean of three 3-vectors, `std` leaves `()` resp. `(1,)`: single-leaf-shape
corruptions applied to every leaf, accepted -/
theorem bd_std_not_complete :
    ∃ k x xs ts, ValidMean k x xs ∧ shapeEq (.node k (x :: xs)) ts = false ∧
      outcome (bdPriorDiffuse .none (mkSeq k x xs) (.tree ts) .none) = .accept :=
  ⟨.list, .arr [3] .f false, [.arr [3] .f false, .arr [3] .f false],
    .node .list [.arr [] .f false, .arr [] .f false, .arr [] .f false], ⟨rfl, by simp⟩, by decide, by decide⟩

example : outcome (bdPriorDiffuse .none (mkSeq .list (.arr [3] .f false) [.arr [3] .f false, .arr [3] .f false])
    (mkSeq .list (.arr [1] .f false) [.arr [1] .f false, .arr [1] .f false]) .none) = .accept := by decide

/-- **block-diagonal, current tree, complete except for exactly the broadcastable container lengths** -/
theorem bd_std_validate_complete_partial {k x xs} (h : ValidMean k x xs) (std os : Arg)
    (hbad : ∀ k' y ys, std = mkSeq k' y ys → ValidMean k' y ys →
      ys.length ≠ xs.length ∧ ys.length ≠ 0 ∧ xs.length ≠ 0) :
    Raises (bdPriorDiffuse .none (mkSeq k x xs) std os) := by
  rw [raises_iff_not_ok]
  intro hok
  have h1 : bdFromMeanStd .none (mkSeq k x xs) std = .ok () := by
    unfold bdPriorDiffuse at hok
    cases hd : bdFromMeanStd .none (mkSeq k x xs) std with
    | ok u => rfl
    | error e => rw [hd] at hok; simp at hok
  obtain ⟨k', y, ys, rfl, hval, hv⟩ := (bdFromMeanStd_accept_iff .none h _).1 h1
  obtain ⟨h1, h2, h3⟩ := hbad k' y ys rfl hval
  simp [bdStdOk] at hv
  rcases hv with hv | hv | hv
  · exact h1 hv
  · exact h2 (by simpa using hv)
  · exact h3 (by simpa using hv)

/-- **block-diagonal, minimal fix (`fixes/C20-blockdiag-std-shape.diff`), complete for every corruption that
changes the number of entries of a coefficient or the number of coefficients** — this includes the traps `()`,
`(1,)` and the single-coefficient container -/
theorem bd_std_validate_complete_flatValue {k x xs} (h : ValidMean k x xs) (std os : Arg)
    (hbad : ∀ k' y ys, std = mkSeq k' y ys → y.size ≠ x.size ∨ ys.length ≠ xs.length) :
    Raises (bdPriorDiffuse .flatValue (mkSeq k x xs) std os) := by
  rw [raises_iff_not_ok]
  intro hok
  have h1 : bdFromMeanStd .flatValue (mkSeq k x xs) std = .ok () := by
    unfold bdPriorDiffuse at hok
    cases hd : bdFromMeanStd .flatValue (mkSeq k x xs) std with
    | ok u => rfl
    | error e => rw [hd] at hok; simp at hok
  obtain ⟨k', y, ys, rfl, _, hv⟩ := (bdFromMeanStd_accept_iff .flatValue h _).1 h1
  simp [bdStdOk] at hv
  rcases hbad k' y ys rfl with hb | hb
  · exact hb hv.1
  · exact hb hv.2

example : outcome (bdPriorDiffuse .flatValue (mkSeq .list (.arr [3] .f false) [.arr [3] .f false, .arr [3] .f false])
    (mkSeq .list (.arr [] .f false) [.arr [] .f false, .arr [] .f false]) .none) = .raise .value := by decide
example : outcome (bdPriorDiffuse .flatValue (mkSeq .list (.arr [3] .f false) [.arr [3] .f false, .arr [3] .f false])
    (mkSeq .list (.arr [3] .f false) []) .none) = .raise .value := by decide

/-- **block-diagonal, strict fix, complete**: every `std` without the mean's shape skeleton raises -/
theorem bd_std_validate_complete_leafwise {k x xs} (h : ValidMean k x xs) (std os : Arg)
    (hbad : ∀ ts, std = .tree ts → shapeEq (.node k (x :: xs)) ts = false) :
    Raises (bdPriorDiffuse .leafwise (mkSeq k x xs) std os) := by
  rw [raises_iff_not_ok]
  intro hok
  have h1 : bdFromMeanStd .leafwise (mkSeq k x xs) std = .ok () := by
    unfold bdPriorDiffuse at hok
    cases hd : bdFromMeanStd .leafwise (mkSeq k x xs) std with
    | ok u => rfl
    | error e => rw [hd] at hok; simp at hok
  obtain ⟨k', y, ys, rfl, _, hv⟩ := (bdFromMeanStd_accept_iff .leafwise h _).1 h1
  simp [bdStdOk, hbad _ rfl] at hv

/-! ## `tcoeffs` of `prior_wiener_integrated` (defaults for the other fields) -/

theorem isSeqMean_of_verify_head {a : Arg} {x0 : Tree} (hv : verifyTcoeffs a = .ok ()) (hh : pyHead a = .ok x0) :
    IsSeqMean a := by
  rcases (verify_accept_iff a).1 hv with h | ⟨key, keys, xs, rfl⟩
  · exact h
  · simp [pyHead] at hh

theorem zerosLike_ok {a b : Arg} (h : zerosLike a = .ok b) : b = a := by
  cases a <;> simp [zerosLike] at h <;> exact h.symm

/-- **`tcoeffs`, complete (three factorisations, every code variant)**: if `prior_wiener_integrated(tcoeffs)`
accepts, `tcoeffs` is a non-empty list / tuple of coefficient pytrees with one common shape skeleton — arrays,
`None`, functions, Python scalars, empty containers, dicts and ragged containers (one leaf of the wrong rank or
length, one coefficient of another structure) are all rejected -/
theorem prior_tcoeffs_validate_complete (v : Variant) (fact : Fact) (mean os : Arg)
    (h : outcome (prior v fact mean pyTrue os) = .accept) : IsSeqMean mean := by
  have hok : prior v fact mean pyTrue os = .ok () := by
    cases hc : prior v fact mean pyTrue os with
    | ok u => rfl
    | error e => rw [hc] at h; simp [outcome] at h
  cases fact with
  | dense =>
    simp only [prior, densePrior, tcoeffsStd, Arg.isPyBool, if_true] at hok
    cases hz : zerosLike mean with
    | error e => simp [hz] at hok
    | ok std =>
      simp only [hz, bind_ok, densePriorDiffuse, denseFromMeanStd] at hok
      cases hv : verifyTcoeffs mean with
      | error e => simp [hv] at hok
      | ok u =>
        cases hh : pyHead mean with
        | ok x0 => exact isSeqMean_of_verify_head hv hh
        | error e =>
          exfalso
          simp only [hv, bind_ok, hh] at hok
          cases h1 : verifyTcoeffs std <;> simp [h1] at hok
          all_goals (revert hok; cases mean <;> cases std <;> simp <;> (try (split <;> simp [failIf] <;> split <;> simp)))
  | bd =>
    simp only [prior, bdPrior, tcoeffsStd, Arg.isPyBool, if_true] at hok
    cases hz : zerosLike mean with
    | error e => simp [hz] at hok
    | ok std =>
      simp only [hz, bind_ok, bdPriorDiffuse, bdFromMeanStd] at hok
      cases hv : verifyTcoeffs mean with
      | error e => simp [hv] at hok
      | ok u =>
        cases hh : pyHead mean with
        | ok x0 => exact isSeqMean_of_verify_head hv hh
        | error e =>
          exfalso
          simp only [hv, bind_ok, hh] at hok
          cases h1 : verifyTcoeffs std <;> simp [h1] at hok
  | iso =>
    simp only [prior, isoPrior] at hok
    cases hz : isoTcoeffsStd mean pyTrue with
    | error e => simp [hz] at hok
    | ok std =>
      simp only [hz, bind_ok, isoPriorDiffuse, isoFromMeanStd] at hok
      cases hv : verifyTcoeffs mean with
      | error e => simp [hv] at hok
      | ok u =>
        cases hh : pyHead mean with
        | ok x0 => exact isSeqMean_of_verify_head hv hh
        | error e =>
          exfalso
          simp only [hv, bind_ok, hh] at hok
          cases h1 : verifyTcoeffs std <;> simp [h1] at hok

theorem all_structEq_of_same {x : Tree} {xs : List Tree} (h : ∀ y ∈ xs, shapeEq x y = true) :
    xs.all (structEq x) = true := by
  rw [List.all_eq_true]; exact fun y hy => structEq_of_shapeEq (h y hy)

/-- **`prior_wiener_integrated`, sound (three factorisations, every code variant)**: every valid container is
accepted with the default `is_exact=True`, `output_scale=None` -/
theorem prior_validate_sound (v : Variant) (fact : Fact) {k x xs} (h : ValidMean k x xs) :
    outcome (prior v fact (mkSeq k x xs) pyTrue .none) = .accept := by
  cases fact with
  | dense =>
    have := dense_diffuse_validate_sound v.dense h (shapeEq_refl _)
    simpa [prior, densePrior, tcoeffsStd, Arg.isPyBool, zerosLike] using this
  | bd =>
    have := bd_diffuse_validate_sound v.bd h (shapeEq_refl _)
    simpa [prior, bdPrior, tcoeffsStd, Arg.isPyBool, zerosLike] using this
  | iso =>
    have hk := h.seq
    have ht : isoTemplate (mkSeq k x xs) = .ok (.flat k (xs.length + 1)) := by
      simp [isoTemplate, mkSeq, hk, all_structEq_of_same h.same]
    have hstd : isoTcoeffsStd (mkSeq k x xs) pyTrue = .ok (mkSeq k (.arr [] .f false) (List.replicate xs.length (.arr [] .f false))) := by
      simp [isoTcoeffsStd, ht, Arg.isPyBool, scalars, mkSeq, List.replicate_succ]
    have := iso_diffuse_validate_sound (k' := k) (y := .arr [] .f false) (ys := List.replicate xs.length (.arr [] .f false)) h hk
      (by intro y hy
          rcases List.mem_cons.1 hy with rfl | hy
          · exact ⟨_, _, rfl⟩
          · exact ⟨_, _, (List.eq_of_mem_replicate hy)⟩) (by simp)
    simpa [prior, isoPrior, hstd] using this

/-- non-vacuity: a concrete valid container, and concrete rejections by kind -/
example : ValidMean .list (.arr [3] .f false) [.arr [3] .f false, .arr [3] .f false] := ⟨rfl, by simp⟩
example : outcome (prior .current .bd (.tree (.arr [3, 3] .f false)) pyTrue .none) = .raise .type := by decide
example : outcome (prior .current .iso (mkSeq .list (.arr [3] .f false) [.arr [1] .f false]) pyTrue .none) = .raise .value := by decide
example : outcome (prior .current .dense .none pyTrue .none) = .raise .value := by decide

/-! ## `is_exact` — dense and block-diagonal -/

/-- exact characterisation of the element-wise branch of `_tcoeffs_standard_deviation` -/
theorem isExactLeafwise_accept_iff (ti tm : Tree) (std : Arg) :
    isExactLeafwise ti (.tree tm) = .ok std ↔
      std = .tree tm ∧ ∃ ps, zipUpTo ti tm = some ps ∧ (∀ p ∈ ps, p.2.isLeaf = true) ∧
        (∀ p ∈ ps, ∀ sb d q, p.2 = .arr sb d q → p.1.1 = [] ∨ p.1.1 = sb) ∧ (∀ p ∈ ps, p.1.2 = .b) := by
  simp only [isExactLeafwise]
  cases hz : zipUpTo ti tm with
  | none => simp
  | some ps =>
    have e1 : ps.all pairIsLeaf = true ↔ ∀ p ∈ ps, p.2.isLeaf = true := by simp [List.all_eq_true, pairIsLeaf]
    have e3 : ps.all pairIsBool = true ↔ ∀ p ∈ ps, p.1.2 = .b := by simp [List.all_eq_true, pairIsBool]
    have e2 : ps.all pairShapeOk = true ↔ ∀ p ∈ ps, ∀ sb d q, p.2 = .arr sb d q → p.1.1 = [] ∨ p.1.1 = sb := by
      rw [List.all_eq_true]
      constructor
      · intro h p hp sb d q hq
        have := h p hp
        simpa [pairShapeOk, hq] using this
      · intro h p hp
        cases hq : p.2 with
        | node k zs => simp [pairShapeOk, hq]
        | arr sb d q => simpa [pairShapeOk, hq] using h p hp sb d q hq
    simp only [Option.some.injEq, exists_eq_left', ← e1, ← e2, ← e3]
    cases ps.all pairIsLeaf <;> cases ps.all pairShapeOk <;> cases ps.all pairIsBool <;> simp <;>
      exact ⟨fun h => by cases h; rfl, fun h => by rw [h]⟩

/-- every leaf of the tree has dtype `d` -/
def AllDType (d : DType) (t : Tree) : Prop := ∀ l ∈ t.leaves, l.2 = d

/-- **`is_exact`, sound**: a pytree of booleans with the mean's shape skeleton yields the standard deviations
(which have the mean's structure) -/
theorem isExact_validate_sound (ti tm : Tree) (hs : shapeEq ti tm = true) (hb : AllDType .b ti) :
    tcoeffsStd (.tree tm) (.tree ti) = .ok (.tree tm) := by
  unfold tcoeffsStd
  split
  · rfl
  · obtain ⟨ps, hps, hp⟩ := zipUpTo_erase ti tm ((shapeEq_iff _ _).1 hs)
    have hfst := zipUpTo_fst ti tm ps hps
    rw [isExactLeafwise_accept_iff]
    refine ⟨rfl, ps, hps, ?_, ?_, ?_⟩
    · intro p hp'; obtain ⟨d, q, hq⟩ := hp p hp'; simp [hq, Tree.isLeaf]
    · intro p hp' sb d q hq
      obtain ⟨d', q', hq'⟩ := hp p hp'
      rw [hq'] at hq; cases hq; exact Or.inr rfl
    · intro p hp'
      apply hb
      rw [← hfst]; exact List.mem_map_of_mem hp'

/-- **`is_exact`, complete for dtype, structure and object type**: if the element-wise branch accepts, every
flag is a boolean and the flags have the tree structure of the mean.  Hence float / int flags raise
(`TypeError`), and containers of another kind or arity, wrapped / unwrapped leaves raise -/
theorem isExact_validate_complete (ti tm : Tree) (std : Arg) (hnb : Arg.isPyBool (.tree ti) = false)
    (h : tcoeffsStd (.tree tm) (.tree ti) = .ok std) :
    AllDType .b ti ∧ structEq ti tm = true ∧ std = .tree tm := by
  simp only [tcoeffsStd, hnb, Bool.false_eq_true, if_false] at h
  obtain ⟨rfl, ps, hps, hl, _, hb⟩ := (isExactLeafwise_accept_iff ti tm std).1 h
  refine ⟨?_, (structEq_iff _ _).2 (zipUpTo_skel ti tm ps hps hl), rfl⟩
  intro l hl'
  rw [← zipUpTo_fst ti tm ps hps] at hl'
  obtain ⟨p, hp, rfl⟩ := List.mem_map.1 hl'
  exact hb p hp

/-- `None` and plain functions as `is_exact` raise (mean a pytree) -/
theorem isExact_object_validate_complete (tm : Tree) :
    (∃ e, tcoeffsStd (.tree tm) .none = .error e) ∧ (∃ e, tcoeffsStd (.tree tm) .fn = .error e) :=
  ⟨⟨_, rfl⟩, ⟨_, rfl⟩⟩

/-- non-vacuity: float flags → `TypeError`; the `(1,)` trap → `ValueError` (shape before dtype); both at once →
`ValueError` (the order of the checks) -/
example : tcoeffsStd (.tree (.node .list [.arr [3] .f false])) (.tree (.node .list [.arr [3] .f false])) = .error .type := by
  simp [tcoeffsStd, Arg.isPyBool, isExactLeafwise, zipUpTo, zipUpToL, Tree.isLeaf, pairIsLeaf, pairShapeOk, pairIsBool]
example : tcoeffsStd (.tree (.node .list [.arr [3] .f false])) (.tree (.node .list [.arr [1] .b false])) = .error .value := by
  simp [tcoeffsStd, Arg.isPyBool, isExactLeafwise, zipUpTo, zipUpToL, Tree.isLeaf, pairIsLeaf, pairShapeOk, pairIsBool]
example : tcoeffsStd (.tree (.node .list [.arr [3] .f false])) (.tree (.node .list [.arr [1] .f false])) = .error .value := by
  simp [tcoeffsStd, Arg.isPyBool, isExactLeafwise, zipUpTo, zipUpToL, Tree.isLeaf, pairIsLeaf, pairShapeOk, pairIsBool]
example : tcoeffsStd (.tree (.node .list [.arr [3] .f false])) (.tree (.node .list [.arr [] .b true])) =
    .ok (.tree (.node .list [.arr [3] .f false])) := by
  simp [tcoeffsStd, Arg.isPyBool, isExactLeafwise, zipUpTo, zipUpToL, Tree.isLeaf, pairIsLeaf, pairShapeOk, pairIsBool]

/-! ## `output_scale` of the prior constructors -/

/-- exact characterisation of `_process_base_scale`: `None`, or a pytree with the shape skeleton of one
Taylor coefficient -/
theorem processBaseScale_accept_iff (os : Arg) (x0 : Tree) :
    processBaseScale os x0 = .ok () ↔ os = .none ∨ ∃ t, os = .tree t ∧ shapeEq t x0 = true := by
  cases os with
  | none => simp [processBaseScale]
  | fn => simp [processBaseScale]; split <;> simp
  | tree t =>
    simp only [processBaseScale, reduceCtorEq, Arg.tree.injEq, exists_eq_left', false_or]
    cases h1 : shapeEq t x0 with
    | true => simp [structEq_of_shapeEq h1]
    | false => cases structEq t x0 <;> simp <;> split <;> simp

theorem processBaseScaleDense_accept_iff (os : Arg) (x0 : Tree) :
    processBaseScaleDense os x0 = .ok () ↔ os = .none ∨ ∃ t, os = .tree t ∧ shapeEq t x0 = true := by
  cases os with
  | fn => simp [processBaseScaleDense]
  | none => simpa [processBaseScaleDense] using processBaseScale_accept_iff .none x0
  | tree t => simpa [processBaseScaleDense] using processBaseScale_accept_iff (.tree t) x0

/-- **`output_scale`, complete (dense, block-diagonal; every variant; whatever `std` is)**: a scale that is
neither `None` nor a pytree with the shape skeleton of one coefficient raises -/
theorem outputScale_validate_complete (v : Variant) {k x xs} (h : ValidMean k x xs) (std os : Arg)
    (hne : os ≠ .none) (hbad : ∀ t, os = .tree t → shapeEq t x = false) :
    Raises (priorDiffuse v .dense (mkSeq k x xs) std os) ∧ Raises (priorDiffuse v .bd (mkSeq k x xs) std os) := by
  constructor
  · rw [raises_iff_not_ok]; intro hok
    simp only [priorDiffuse, densePriorDiffuse] at hok
    cases hd : denseFromMeanStd v.dense (mkSeq k x xs) std with
    | error e => simp [hd] at hok
    | ok u =>
      simp only [hd, bind_ok, pyHead_seq h.seq] at hok
      rcases (processBaseScaleDense_accept_iff os x).1 hok with h1 | ⟨t, rfl, ht⟩
      · exact hne h1
      · rw [hbad t rfl] at ht; cases ht
  · rw [raises_iff_not_ok]; intro hok
    simp only [priorDiffuse, bdPriorDiffuse] at hok
    cases hd : bdFromMeanStd v.bd (mkSeq k x xs) std with
    | error e => simp [hd] at hok
    | ok u =>
      simp only [hd, bind_ok, pyHead_seq h.seq] at hok
      rcases (processBaseScale_accept_iff os x).1 hok with h1 | ⟨t, rfl, ht⟩
      · exact hne h1
      · rw [hbad t rfl] at ht; cases ht

/-- **`output_scale`, sound (dense, block-diagonal)** -/
theorem outputScale_validate_sound (v : Variant) {k x xs t} (h : ValidMean k x xs) (ht : shapeEq t x = true) :
    outcome (priorDiffuse v .dense (mkSeq k x xs) (mkSeq k x xs) (.tree t)) = .accept ∧
    outcome (priorDiffuse v .bd (mkSeq k x xs) (mkSeq k x xs) (.tree t)) = .accept := by
  have hd : denseFromMeanStd v.dense (mkSeq k x xs) (mkSeq k x xs) = .ok () := by
    rw [denseFromMeanStd_accept_iff _ h]; exact ⟨_, rfl, verify_seq h, by cases v.dense <;> simp [stdOk]⟩
  have hb : bdFromMeanStd v.bd (mkSeq k x xs) (mkSeq k x xs) = .ok () := by
    rw [bdFromMeanStd_accept_iff _ h]; exact ⟨_, _, _, rfl, h, by cases v.bd <;> simp [bdStdOk]⟩
  have h1 := (processBaseScaleDense_accept_iff (.tree t) x).2 (Or.inr ⟨t, rfl, ht⟩)
  have h2 := (processBaseScale_accept_iff (.tree t) x).2 (Or.inr ⟨t, rfl, ht⟩)
  simp [priorDiffuse, densePriorDiffuse, bdPriorDiffuse, hd, hb, pyHead_seq h.seq, h1, h2, outcome]

/-- isotropic: `None` or a scalar -/
theorem isoBaseScale_accept_iff (os : Arg) :
    isoBaseScale os = .ok () ↔ os = .none ∨ ∃ d p, os = .tree (.arr [] d p) := by
  cases os with
  | none => simp [isoBaseScale]
  | fn => simp [isoBaseScale]
  | tree t => cases t <;> simp [isoBaseScale]

example : outcome (priorDiffuse .current .dense (mkSeq .list (.arr [3] .f false) []) (mkSeq .list (.arr [3] .f false) [])
    (.tree (.arr [1] .f false))) = .raise .value := by decide
example : outcome (priorDiffuse .current .bd (mkSeq .list (.arr [3] .f false) []) (mkSeq .list (.arr [3] .f false) [])
    (.tree (.node .list [.arr [3] .f false]))) = .raise .type := by decide
example : outcome (priorDiffuse .current .iso (mkSeq .list (.arr [3] .f false) []) (mkSeq .list (.arr [] .f false) [])
    (.tree (.arr [1] .f false))) = .raise .value := by decide

/-! ## `prior.transition(dt, output_scale)` -/

def calibratedShape (fact : Fact) (d : Nat) : Shape := match fact with | .bd => [d] | _ => []

/-- exact characterisation: the array made of the argument has exactly the calibrated shape -/
theorem transition_accept_iff (fact : Fact) (d : Nat) (os : Arg) :
    transition fact d os = .ok () ↔ asarrayShape os = .ok (calibratedShape fact d) := by
  unfold transition
  cases h : asarrayShape os with
  | error e => simp
  | ok s => cases fact <;> simp [calibratedShape] <;> exact eq_comm

/-- **`transition`, sound and complete for arrays**: an array is accepted iff it has the calibrated shape; every
other rank / length — including the traps `(1,)` for `()` and `()` / `(1,)` / `(d,1)` for `(d,)` — raises `ValueError` -/
theorem transition_validate_sound_complete (fact : Fact) (d : Nat) (s : Shape) (dt : DType) (p : Bool) :
    outcome (transition fact d (.tree (.arr s dt p))) =
      if s = calibratedShape fact d then .accept else .raise .value := by
  cases fact <;> simp [transition, asarrayShape, asarrayTree, calibratedShape, failIf] <;>
    split <;> simp_all [outcome]

theorem transition_object_validate_complete (fact : Fact) (d : Nat) :
    Raises (transition fact d .none) ∧ Raises (transition fact d .fn) := ⟨⟨_, rfl⟩, ⟨_, rfl⟩⟩

example : outcome (transition .bd 3 (.tree (.arr [3] .f false))) = .accept := by decide
example : outcome (transition .bd 3 (.tree (.arr [1] .f false))) = .raise .value := by decide
example : outcome (transition .dense 3 (.tree (.arr [1] .f false))) = .raise .value := by decide

/-! ## the two marginal-likelihood losses -/

theorem stdContainer_accept_iff (std : Arg) (expected : Tree) :
    stdContainer std expected = .ok () ↔ ∃ t, std = .tree t ∧ shapeEq t expected = true := by
  cases std with
  | none => simp [stdContainer]
  | fn => simp [stdContainer]
  | tree t =>
    simp only [stdContainer, failIf_ok, Arg.tree.injEq, exists_eq_left']
    cases h : shapeEq t expected with
    | true => simp [structEq_of_shapeEq h]
    | false => simp

/-- **losses, `std`, complete (every variant, every factorisation)**: a standard-deviation container without the
shape skeleton of `marginals.std[i]` raises (wrong rank, wrong length, wrong structure, `None`, function) -/
theorem lossTerminal_std_validate_complete (v : Variant) (fact : Fact) (isN : Bool) (stdExp uExp : Tree) (u std : Arg)
    (hbad : ∀ t, std = .tree t → shapeEq t stdExp = false) :
    Raises (lossTerminal v fact isN stdExp uExp u std) := by
  rw [raises_iff_not_ok]; intro hok
  unfold lossTerminal at hok
  cases u <;> cases std <;> cases isN <;> simp [failIf, stdContainer] at hok
  all_goals
    rename_i t
    first
    | (have := hbad _ rfl; revert hok; simp [this, not_shapeEq_of_not_structEq])
    | skip
  all_goals
    rename_i t'
    have := hbad _ rfl
    revert hok
    cases hs : structEq t' stdExp <;> simp [this]

/-- **terminal-value loss, sound** -/
theorem lossTerminal_validate_sound (v : Variant) (fact : Fact) (stdExp uExp ts tu : Tree)
    (hs : shapeEq ts stdExp = true) (hu : shapeEq tu uExp = true) :
    outcome (lossTerminal v fact true stdExp uExp (.tree tu) (.tree ts)) = .accept := by
  have h1 := (stdContainer_accept_iff (.tree ts) stdExp).2 ⟨ts, rfl, hs⟩
  have h2 : dataFits fact tu.size uExp.size = true := by
    cases fact <;> simp [dataFits, size_eq_of_shapeEq hu]
  cases hv : v.lossDataCheck <;>
    simp [lossTerminal, failIf, h1, h2, hv, hu, structEq_of_shapeEq hu, outcome]

/-- **terminal-value loss, data `u`, dense, current tree, NOT complete**: a datum of shape `(1,)` for a state of
shape `(3,)` (wrong length, the broadcast trap) is accepted: `u - mean` broadcasts -/
theorem lossTerminal_u_not_complete :
    ∃ stdExp uExp tu ts, LeafShapeCorrupt uExp tu ∧
      outcome (lossTerminal .current .dense true stdExp uExp (.tree tu) (.tree ts)) = .accept :=
  ⟨.arr [3] .f false, .arr [3] .f false, .arr [1] .f false, .arr [3] .f false, .here (by decide), by decide⟩

/-- **… complete except for exactly the data sizes that broadcast (dense) — none for isotropic / block-diagonal —
and the size-preserving re-shapes** -/
theorem lossTerminal_u_validate_complete_partial (v : Variant) (hv : v.lossDataCheck = false) (fact : Fact)
    (stdExp uExp tu : Tree) (std : Arg) (hbad : dataFits fact tu.size uExp.size = false) :
    Raises (lossTerminal v fact true stdExp uExp (.tree tu) std) := by
  rw [raises_iff_not_ok]; intro hok
  unfold lossTerminal at hok
  cases std <;> simp [failIf, hv, hbad] at hok

/-- **… with the proposed data check: complete** (every datum without the shape skeleton of the state raises) -/
theorem lossTerminal_u_validate_complete_fixed (v : Variant) (hv : v.lossDataCheck = true) (fact : Fact) (isN : Bool)
    (stdExp uExp : Tree) (u std : Arg) (hbad : ∀ t, u = .tree t → shapeEq t uExp = false) :
    Raises (lossTerminal v fact isN stdExp uExp u std) := by
  rw [raises_iff_not_ok]; intro hok
  unfold lossTerminal at hok
  cases u with
  | fn => simp at hok
  | none =>
    cases std <;> cases isN <;> simp [failIf, hv] at hok
  | tree t =>
    have := hbad t rfl
    cases std <;> cases isN <;> simp [failIf, hv, this] at hok

example : outcome (lossTerminal .fixed .dense true (.arr [3] .f false) (.arr [3] .f false) (.tree (.arr [1] .f false))
    (.tree (.arr [3] .f false))) = .raise .value := by decide
example : outcome (lossTerminal .current .iso true (.arr [] .f false) (.arr [3] .f false) (.tree (.arr [3] .f false))
    (.tree (.arr [1] .f false))) = .raise .value := by decide

/-- **time-series loss**: wrong posterior type → `TypeError` before anything else -/
theorem lossTimeseries_posterior_validate_complete (v : Variant) (fact : Fact) (s1 su1 : Shape) (T : Nat) (u std : Arg) :
    outcome (lossTimeseries v fact false s1 su1 T u std) = .raise .type := rfl

/-- **time-series loss, sound**: `N` data rows and `N` standard deviations of the right shapes for a posterior on `N`
points (`N ≥ 1`) -/
theorem lossTimeseries_validate_sound (v : Variant) (fact : Fact) (s1 su1 : Shape) (N : Nat) (hN : 0 < N)
    (d1 d2 : DType) (p1 p2 : Bool) :
    outcome (lossTimeseries v fact true s1 su1 N (.tree (.arr (N :: su1) d1 p1)) (.tree (.arr (N :: s1) d2 p2))) = .accept := by
  have h1 : stdContainer (.tree (.arr (N :: s1) d2 p2)) (.arr (N :: s1) .f false) = .ok () :=
    (stdContainer_accept_iff _ _).2 ⟨_, rfl, shapeEq_arr.2 rfl⟩
  have hfit : dataFits fact (prod su1) (prod su1) = true := by cases fact <;> simp [dataFits]
  have hdiv : N * prod su1 / N = prod su1 := Nat.mul_div_cancel_left _ hN
  have hs : structEq (.arr (N :: su1) d1 p1) (.arr [] .f false) = true := by
    rw [structEq_iff]; simp [Tree.skel]
  cases hv : v.lossDataCheck <;>
    simp [lossTimeseries, firstLeaf, failIf, h1, hv, Tree.size, prod, hdiv, hfit, shapeEq_arr.2, hs, outcome]

/-- **time-series loss, `std`, complete**: any other standard-deviation container raises `ValueError`
(fewer / more time points, missing state axis, scalar, wrong structure) -/
theorem lossTimeseries_std_validate_complete (v : Variant) (fact : Fact) (s1 su1 su : Shape) (T N : Nat)
    (d1 : DType) (p1 : Bool) (std : Arg) (hbad : ∀ t, std = .tree t → shapeEq t (.arr (N :: s1) .f false) = false) :
    Raises (lossTimeseries v fact true s1 su1 T (.tree (.arr (N :: su) d1 p1)) std) := by
  rw [raises_iff_not_ok]; intro hok
  simp only [lossTimeseries, failIf, firstLeaf] at hok
  cases std with
  | fn => simp at hok
  | none => simp [stdContainer] at hok
  | tree t =>
    have := hbad t rfl
    have hc : stdContainer (.tree t) (.arr (N :: s1) .f false) = .error .value := by
      simp [stdContainer, this, failIf]
    simp [hc] at hok

/-- **time-series loss, data, dense, current tree, NOT complete**: data of shape `(N,)` or `(N, 1)` for a state of
shape `(3,)` are accepted (each row broadcasts against the mean) -/
theorem lossTimeseries_u_not_complete :
    outcome (lossTimeseries .current .dense true [3] [3] 4 (.tree (.arr [4, 1] .f false)) (.tree (.arr [4, 3] .f false))) = .accept ∧
    outcome (lossTimeseries .current .dense true [3] [3] 4 (.tree (.arr [4] .f false)) (.tree (.arr [4, 3] .f false))) = .accept :=
  ⟨by decide, by decide⟩

example : outcome (lossTimeseries .fixed .dense true [3] [3] 4 (.tree (.arr [4, 1] .f false)) (.tree (.arr [4, 3] .f false))) = .raise .value := by decide
example : outcome (lossTimeseries .current .iso true [] [3] 4 (.tree (.arr [4, 1] .f false)) (.tree (.arr [4] .f false))) = .raise .implicit := by decide

/-! ## `is_exact` — isotropic -/

/-- **isotropic `is_exact`, sound**: a list / tuple (the mean's container kind) of `n` Python or array booleans of shape `()` -/
theorem iso_isExact_validate_sound {k x xs} (h : ValidMean k x xs) (ys : List Tree) (hlen : ys.length = xs.length + 1)
    (hb : ∀ y ∈ ys, ∃ p, y = .arr [] .b p) :
    isoTcoeffsStd (mkSeq k x xs) (.tree (.node k ys)) = .ok (scalars k (xs.length + 1)) := by
  have ht : isoTemplate (mkSeq k x xs) = .ok (.flat k (xs.length + 1)) := by
    simp [isoTemplate, mkSeq, h.seq, all_structEq_of_same h.same]
  have h1 : ys.all Tree.isLeaf = true := by
    rw [List.all_eq_true]; intro y hy; obtain ⟨p, rfl⟩ := hb y hy; rfl
  have h2 : ys.all leafIsScalar = true := by
    rw [List.all_eq_true]; intro y hy; obtain ⟨p, rfl⟩ := hb y hy; rfl
  have h3 : ys.all leafIsBool = true := by
    rw [List.all_eq_true]; intro y hy; obtain ⟨p, rfl⟩ := hb y hy; rfl
  simp only [isoTcoeffsStd, ht, bind_ok, Arg.isPyBool, Bool.false_eq_true, if_false, hlen, h1, h2, h3, bne_self_eq_false,
    Bool.or_self, Bool.not_true]

/-- **isotropic `is_exact`, complete**: if the flags (not the literal `True`/`False`) are accepted they are a container
of the mean's kind with exactly `n` boolean scalars, *or* a bare boolean array of shape `(n,)` — and the latter is then
rejected by `from_mean_and_std` (`TypeError`, see `iso_isExact_bare_array_rejected`) -/
theorem iso_isExact_validate_complete {k x xs} (h : ValidMean k x xs) (ie std : Arg) (hnb : ie.isPyBool = false)
    (hok : isoTcoeffsStd (mkSeq k x xs) ie = .ok std) :
    (∃ ys, ie = .tree (.node k ys) ∧ ys.length = xs.length + 1 ∧ ∀ y ∈ ys, ∃ p, y = .arr [] .b p) ∨
    (∃ p, ie = .tree (.arr [xs.length + 1] .b p) ∧ std = .tree (.arr [xs.length + 1] .f false)) := by
  have ht : isoTemplate (mkSeq k x xs) = .ok (.flat k (xs.length + 1)) := by
    simp [isoTemplate, mkSeq, h.seq, all_structEq_of_same h.same]
  simp only [isoTcoeffsStd, ht, bind_ok, hnb, Bool.false_eq_true, if_false] at hok
  cases ie with
  | none => simp at hok
  | fn => simp at hok
  | tree t =>
    cases t with
    | arr s d p =>
      right
      simp only at hok
      split at hok
      · cases hok
      · split at hok
        · cases hok
        · rename_i hs hd
          simp at hs hd
          subst hs hd
          cases hok
          exact ⟨p, rfl, rfl⟩
    | node k' ys =>
      left
      simp only at hok
      split at hok
      · cases hok
      · rename_i hk
        simp at hk
        obtain ⟨hk, hlen⟩ := hk
        subst hk
        split at hok
        · cases hok
        · rename_i hl
          split at hok
          · cases hok
          · rename_i hs
            split at hok
            · cases hok
            · rename_i hd
              simp [List.all_eq_true] at hl hs hd
              refine ⟨ys, rfl, hlen, ?_⟩
              intro y hy
              cases y with
              | node kk zz => have := hl _ hy; simp [Tree.isLeaf] at this
              | arr s d p =>
                have e1 := hs _ hy
                have e2 := hd _ hy
                simp [leafIsScalar, leafIsBool] at e1 e2
                subst e1 e2
                exact ⟨p, rfl⟩

/-- the bare-array loophole of `_tcoeffs_standard_deviation` is closed by `from_mean_and_std` -/
theorem iso_isExact_bare_array_rejected {k x xs} (h : ValidMean k x xs) (n : Nat) (os : Arg) :
    outcome (isoPriorDiffuse (mkSeq k x xs) (.tree (.arr [n] .f false)) os) = .raise .type := by
  simp only [isoPriorDiffuse, isoFromMeanStd, verify_seq h, bind_ok]
  simp [verifyTcoeffs, outcome]

example : outcome (isoPrior (mkSeq .list (.arr [3] .f false) [.arr [3] .f false])
    (.tree (.node .list [.arr [] .b true, .arr [] .b true])) .none) = .accept := by decide
example : outcome (isoPrior (mkSeq .list (.arr [3] .f false) [.arr [3] .f false])
    (.tree (.node .list [.arr [3] .b false, .arr [3] .b false])) .none) = .raise .value := by decide
example : outcome (isoPrior (mkSeq .list (.arr [3] .f false) [.arr [3] .f false])
    (.tree (.node .list [.arr [] .f true, .arr [] .f true])) .none) = .raise .type := by decide

/-! ## exponential priors -/

/-- isotropic / block-diagonal (and matrix-free) exponential priors raise `NotImplementedError` whatever the arguments -/
theorem priorExp_not_implemented (v : Variant) (o : Obj) (mean ie os : Arg) :
    outcome (priorExp v .iso o mean ie os) = .raise .notImpl ∧ outcome (priorExp v .bd o mean ie os) = .raise .notImpl ∧
    outcome (priorExpDiffuse v .iso o mean ie os) = .raise .notImpl ∧ outcome (priorExpDiffuse v .bd o mean ie os) = .raise .notImpl :=
  ⟨rfl, rfl, rfl, rfl⟩

/-- **dense exponential prior, `ode`, complete**: an ODE whose order differs from the number of Taylor coefficients raises
`TypeError`; an object that is not an autonomous ODE description raises -/
theorem priorExp_ode_validate_complete (v : Variant) {k x xs} (h : ValidMean k x xs) (o : Obj) (std os : Arg)
    (hbad : o ≠ .jetOdeAuto (xs.length + 1)) :
    Raises (priorExpDiffuse v .dense o (mkSeq k x xs) std os) := by
  rw [raises_iff_not_ok]; intro hok
  simp only [priorExpDiffuse, denseExpDiffuse, pyLen_seq h.seq] at hok
  cases o with
  | fn => simp [Obj.nin] at hok
  | none => simp [Obj.nin] at hok
  | jetOdeAuto n =>
    simp only [Obj.nin, bind_ok] at hok
    by_cases hn : n = xs.length + 1
    · exact hbad (by rw [hn])
    · simp [failIf, hn] at hok
  | jetOde n m =>
    simp only [Obj.nin, bind_ok] at hok
    cases h1 : failIf (n != xs.length + 1) .type <;> simp [h1] at hok
    cases h2 : denseFromMeanStd v.dense (mkSeq k x xs) std <;> simp [h2, pyHead_seq h.seq] at hok
  | jetResidual n =>
    simp only [Obj.nin, bind_ok] at hok
    cases h1 : failIf (n != xs.length + 1) .type <;> simp [h1] at hok
    cases h2 : denseFromMeanStd v.dense (mkSeq k x xs) std <;> simp [h2, pyHead_seq h.seq] at hok

/-- **dense exponential prior, sound** -/
theorem priorExp_validate_sound (v : Variant) {k x xs} (h : ValidMean k x xs) :
    outcome (priorExp v .dense (.jetOdeAuto (xs.length + 1)) (mkSeq k x xs) pyTrue .none) = .accept := by
  have hd : denseFromMeanStd v.dense (mkSeq k x xs) (mkSeq k x xs) = .ok () := by
    rw [denseFromMeanStd_accept_iff _ h]; exact ⟨_, rfl, verify_seq h, by cases v.dense <;> simp [stdOk]⟩
  simp [priorExp, denseExp, tcoeffsStd, Arg.isPyBool, zerosLike, denseExpDiffuse, Obj.nin, pyLen_seq h.seq, failIf, hd,
    pyHead_seq h.seq, processBaseScaleDense_none, outcome]

example : outcome (priorExp .current .dense (.jetOdeAuto 1) (mkSeq .list (.arr [3] .f false) [.arr [3] .f false]) pyTrue .none)
    = .raise .type := by decide

/-! ## linearisation constructors -/

/-- **constraints, sound and complete** (dense / isotropic / block-diagonal): `constraint_ode_ts0` and `constraint_ode_ts1`
accept exactly `JetOde` objects, `constraint_residual` exactly `JetResidual` objects; everything else — plain functions,
`None`, autonomous ODEs, the other description — raises `TypeError` -/
theorem constraint_validate (fact : Fact4) (hf : fact ≠ .matfree) (o : Obj) :
    outcome (constraintTs0 fact o) = (if o.isJetOde then .accept else .raise .type) ∧
    outcome (constraintTs1 fact o false) = (if o.isJetOde then .accept else .raise .type) ∧
    outcome (constraintResidual fact o false) = (if o.isJetResidual then .accept else .raise .type) := by
  cases fact <;> cases o <;> simp_all [constraintTs0, constraintTs1, constraintResidual, constraintResidualChecked,
    Obj.isJetOde, Obj.isJetResidual, failIf, outcome]

/-- the type check comes first; a `taylor_point` is only implemented for the dense model -/
theorem constraint_taylor_point (fact : Fact4) (hf : fact ≠ .dense) (n m : Nat) :
    outcome (constraintTs1 fact (.jetOde n m) true) = .raise .notImpl ∧
    outcome (constraintResidual fact (.jetResidual n) true) = .raise .notImpl ∧
    outcome (constraintTs1 fact .fn true) = .raise .type ∧ outcome (constraintResidual fact .fn true) = .raise .type := by
  cases fact <;> simp_all [constraintTs1, constraintResidual, constraintResidualChecked, Obj.isJetOde, Obj.isJetResidual,
    failIf, outcome]

/-! ## jet lifting -/

/-- **`lift_by` range, sound and complete**: the lifted function accepts `K` jet coordinates iff `0 ≤ lift_by ≤ K − order` -/
theorem liftedCall_validate (nin : Nat) (l : Int) (K : Nat) :
    outcome (liftedCall nin l K) = (if 0 ≤ l ∧ l ≤ (K : Int) - nin then .accept else .raise .value) := by
  unfold liftedCall failIf
  by_cases h1 : l < 0 <;> by_cases h2 : l > (K : Int) - nin <;> simp [h1, h2, outcome] <;> omega

/-- **`lift_by` type**: a non-integer raises `TypeError` (ODEs and residuals); lifting a lifted ODE and lifting an
autonomous ODE raise `NotImplementedError` -/
theorem jetLift_validate (nin nout : Nat) (z : Int) :
    outcome (jetLift (.jetOde nin nout) .other) = .raise .type ∧ outcome (jetLift (.jetResidual nin) .other) = .raise .type ∧
    outcome (jetLift (.jetOde nin 1) (.int z)) = .accept ∧ outcome (jetLift (.jetResidual nin) (.int z)) = .accept ∧
    (nout ≠ 1 → outcome (jetLift (.jetOde nin nout) (.int z)) = .raise .notImpl) ∧
    outcome (jetLift (.jetOdeAuto nin) (.int z)) = .raise .notImpl := by
  refine ⟨rfl, rfl, rfl, rfl, ?_, rfl⟩
  intro h; simp [jetLift, failIf, h, outcome]

/-! ## Taylor-coefficient routines and step-size proposals -/

/-- **`jetexpand_*` (padded scan / unroll / via JVP), complete for the object type**: anything that is not a `JetOde`
raises `TypeError`, whatever the other arguments -/
theorem jetexpand_object_validate_complete (alg : JetAlg) (num : Nat) (vf : Obj) (pytree : Bool) (m : Nat)
    (h : vf.isJetOde = false) : outcome (jetexpand alg num vf pytree m) = .raise .type := by
  cases vf <;> simp_all [jetexpand, Obj.isJetOde, outcome]

/-- array-valued initial values: a jet-lifted field raises `ValueError` as soon as something is computed;
pytree-valued initial values of an ODE of order > 2 raise `ValueError`; sound for the standard call -/
theorem jetexpand_validate (alg : JetAlg) (num nin nout m : Nat) (hnum : num ≠ 0) :
    (1 < nout → outcome (jetexpand alg num (.jetOde nin nout) false m) = .raise .value) ∧
    (2 < nin → outcome (jetexpand alg num (.jetOde nin nout) true m) = .raise .value) ∧
    outcome (jetexpand alg num (.jetOde nin 1) false nin) = .accept := by
  refine ⟨?_, ?_, ?_⟩
  · intro h; simp [jetexpand, hnum, h, outcome]
  · intro h
    have h1 : ¬ nin = 1 := by omega
    have h2 : ¬ nin = 2 := by omega
    simp [jetexpand, h1, h2, outcome]
  · simp [jetexpand, hnum, failIf, outcome]

/-- **NOT complete**: with pytree-valued initial values the check for jet-lifted fields is never reached; the model only
knows that the call raises (`implicit`: a shape error deep inside JAX), not a `ValueError` of probdiffeq -/
theorem jetexpand_lifted_pytree_unchecked (alg : JetAlg) (num nin nout m : Nat) (hnum : num ≠ 0) (hn : nin = 1 ∨ nin = 2)
    (h : 1 < nout) : outcome (jetexpand alg num (.jetOde nin nout) true m) = .raise .implicit := by
  rcases hn with rfl | rfl <;> simp [jetexpand, hnum, h, outcome]

/-- **`dt0`, `dt0_adaptive`**: jet-lifted fields and (adaptive) more than one initial value raise `ValueError`;
non-ODE objects raise -/
theorem dt0_validate (nin nout m : Nat) (o : Obj) (ho : o.isJetOde = false) :
    (1 < nout → outcome (dt0 (.jetOde nin nout) m) = .raise .value) ∧
    (1 < m → outcome (dt0Adaptive (.jetOde nin nout) (some m)) = .raise .value) ∧
    (1 < nout → outcome (dt0Adaptive (.jetOde nin nout) (some 1)) = .raise .value) ∧
    outcome (dt0 (.jetOde nin 1) nin) = .accept ∧ outcome (dt0Adaptive (.jetOde 1 1) (some 1)) = .accept ∧
    Raises (dt0 o m) ∧ Raises (dt0Adaptive o (some 1)) := by
  refine ⟨?_, ?_, ?_, ?_, ?_, ?_, ?_⟩
  · intro h; simp [dt0, h, outcome]
  · intro h; simp [dt0Adaptive, h, outcome]
  · intro h; simp [dt0Adaptive, h, outcome]
  · simp [dt0, failIf, outcome]
  · simp [dt0Adaptive, failIf, outcome]
  · cases o <;> simp_all [dt0, Obj.isJetOde, Raises]
  · cases o <;> simp_all [dt0Adaptive, Obj.isJetOde, Raises]

/-! ## residual-based error estimate -/

/-- **dense / block-diagonal, sound and complete** (state dimension `d ≥ 2`): accepted iff the constraint outputs one coefficient -/
theorem errorResidual_validate_dense_bd (v : Variant) (fact : Fact) (hf : fact ≠ .iso) (d m : Nat) (hd : 2 ≤ d) (hm : 1 ≤ m) :
    outcome (errorResidualShape v fact d m) = (if m = 1 then .accept else .raise .value) := by
  have key : (m * d = 1) = False := by
    apply propext; constructor
    · intro h; have := Nat.eq_one_of_mul_eq_one_left h; omega
    · exact False.elim
  have key2 : (m * d = d) = (m = 1) := by
    apply propext; constructor
    · intro h
      have : m * d = 1 * d := by omega
      exact Nat.eq_of_mul_eq_mul_right (by omega) this
    · intro h; subst h; omega
  cases fact with
  | iso => exact absurd rfl hf
  | dense => cases hv : v.errNumOutputs <;> by_cases h1 : m = 1 <;> simp [errorResidualShape, failIf, hv, key, key2, h1, outcome]
  | bd => cases hv : v.errNumOutputs <;> by_cases h1 : m = 1 <;> simp [errorResidualShape, failIf, hv, key, key2, h1, outcome]

/-- **isotropic, current tree, NOT complete**: a constraint with exactly `d` output coefficients (`d ≥ 2`) passes the
comparison of the error shape `(m,)` with the reference shape `(d,)` — for every `d` -/
theorem errorResidual_iso_not_complete (d : Nat) : outcome (errorResidualShape .current .iso d d) = .accept := by
  simp [errorResidualShape, Variant.current, failIf, outcome]

/-- **isotropic, current tree, complete except for exactly `m = d`** -/
theorem errorResidual_iso_validate_complete_partial (d m : Nat) (h1 : m ≠ 1) (h2 : m ≠ d) :
    outcome (errorResidualShape .current .iso d m) = .raise .value := by
  simp [errorResidualShape, Variant.current, failIf, h1, h2, outcome]

/-- **isotropic, proposed fix, complete** -/
theorem errorResidual_iso_validate_complete_fixed (v : Variant) (hv : v.errNumOutputs = true) (d m : Nat) (h1 : m ≠ 1) :
    outcome (errorResidualShape v .iso d m) = .raise .value := by
  simp [errorResidualShape, hv, failIf, h1, outcome]

example : outcome (errorResidualShape .current .iso 2 2) = .accept := by decide
example : outcome (errorResidualShape .fixed .iso 2 2) = .raise .value := by decide
example : outcome (errorResidualShape .current .dense 2 2) = .raise .value := by decide

/-! ## Jacobian handlers, ensembles, `revert_conditional` -/

/-- **`_verify_fun_and_x`, sound and complete**: accepted iff `x` and `fun(x)` are arrays of rank 2 with the same trailing
dimension; non-arrays raise `TypeError` (first), wrong ranks and different trailing dimensions `ValueError` -/
theorem verifyFunAndX_validate (xa fa : Bool) (xs fs : Shape) :
    outcome (verifyFunAndX xa xs fa fs) =
      if !(xa && fa) then .raise .type
      else match xs, fs with
        | [_, d], [_, d2] => if d = d2 then .accept else .raise .value
        | _, _ => .raise .value := by
  cases xa <;> cases fa <;> simp [verifyFunAndX, failIf, outcome]
  rcases xs with _ | ⟨a, _ | ⟨b, _ | ⟨c, r⟩⟩⟩ <;> rcases fs with _ | ⟨a', _ | ⟨b', _ | ⟨c', r'⟩⟩⟩ <;>
    simp [outcome]
  by_cases h : b = b' <;> simp [h]

/-- **ensembles, sound and complete** for rank-3 input: accepted iff there are at least as many members as coefficients -/
theorem ensembles_validate (S n d : Nat) :
    outcome (ensembles [S, n, d]) = if n ≤ S then .accept else .raise .value := by
  by_cases h : n ≤ S
  · have : ¬ S < n := by omega
    simp [ensembles, failIf, h, this, outcome]
  · have : S < n := by omega
    simp [ensembles, failIf, h, this, outcome]

/-- **`revert_conditional`, complete for the rank**: any input that is not a matrix raises `ValueError` -/
theorem revertConditional_rank_validate_complete (a b c : Shape) (h : a.length ≠ 2 ∨ b.length ≠ 2 ∨ c.length ≠ 2) :
    outcome (revertConditional a b c) = .raise .value := by
  have : (a.length != 2 || c.length != 2 || b.length != 2) = true := by
    rcases h with h | h | h <;> simp [h]
  simp [revertConditional, failIf, this, outcome]

example : outcome (revertConditional [3, 3] [3, 2] [2, 2]) = .accept := by decide

/-! ## strategy / routine pairings -/

/-- **documented pairings**: exactly the fixed-interval smoother warns in `solve_adaptive_save_at` (unless `warn=False`),
exactly the fixed-point smoother warns in `solve_fixed_grid` / `solve_adaptive_save_every_step` and raises
`NotImplementedError` in `offgrid_marginals`; `solve_adaptive_terminal_values` never warns -/
theorem routine_validate (r : Routine) (s : Strategy) :
    routine r s true =
      match r, s with
      | .saveAt, .fixedInterval => .warn
      | .fixedGrid, .fixedPoint => .warn
      | .saveEveryStep, .fixedPoint => .warn
      | .offgridMarginals, .fixedPoint => .raise .notImpl
      | _, _ => .accept := by
  cases r <;> cases s <;> rfl

theorem routine_warn_false (s : Strategy) : routine .saveAt s false = .accept := by cases s <;> rfl

/-! ## remaining entry points -/

/-- `JetOde.__call__`: a jet-lifted field raises `ValueError`, an ordinary one is evaluated -/
theorem odeCall_validate (nin nout : Nat) :
    outcome (odeCall (.jetOde nin nout)) = if 1 < nout then .raise .value else .accept := by
  by_cases h : 1 < nout <;> simp [odeCall, failIf, h, outcome]

/-- `jetexpand_ode_doubling_unroll` (no type check in the code): jet-lifted fields raise `ValueError`, every object that is
not an ODE description raises (attribute access), the standard call is accepted -/
theorem jetexpandDoubling_validate (nd nin nout m : Nat) (o : Obj) (ho : o.isJetOde = false) (h : 1 < nout) :
    outcome (jetexpandDoubling nd (.jetOde nin nout) m) = .raise .value ∧ Raises (jetexpandDoubling nd o m) ∧
    outcome (jetexpandDoubling nd (.jetOde 1 1) 1) = .accept := by
  refine ⟨by simp [jetexpandDoubling, h, outcome], ?_, ?_⟩
  · cases o <;> simp_all [jetexpandDoubling, Obj.isJetOde, Raises]
  · cases nd <;> simp [jetexpandDoubling, failIf, outcome]

/-- Ornstein–Uhlenbeck / Matérn priors: sound for the dense model, `NotImplementedError` otherwise; an argument without a
length raises before anything else -/
theorem priorOU_validate (v : Variant) {k x xs} (h : ValidMean k x xs) :
    outcome (priorOU v .dense (mkSeq k x xs) pyTrue .none) = .accept ∧
    outcome (priorOU v .iso (mkSeq k x xs) pyTrue .none) = .raise .notImpl ∧
    outcome (priorOU v .bd (mkSeq k x xs) pyTrue .none) = .raise .notImpl ∧
    Raises (priorOU v .dense .none pyTrue .none) ∧ Raises (priorOU v .dense .fn pyTrue .none) := by
  refine ⟨?_, ?_, ?_, ⟨_, rfl⟩, ⟨_, rfl⟩⟩
  · have := priorExp_validate_sound v h
    simpa [priorOU, denseOU, pyLen_seq h.seq, priorExp] using this
  · simp [priorOU, pyLen_seq h.seq, outcome]
  · simp [priorOU, pyLen_seq h.seq, outcome]

/-- **all proposed fixes together close every gap**: for `Variant.fixed` the `std` checks are leaf-wise, the losses check
the data container, the error estimate counts the output coefficients -/
theorem fixed_variant_closes_gaps :
    Variant.fixed.dense = .leafwise ∧ Variant.fixed.bd = .leafwise ∧ Variant.fixed.lossDataCheck = true ∧
    Variant.fixed.errNumOutputs = true := ⟨rfl, rfl, rfl, rfl⟩

end Pdq.C20
