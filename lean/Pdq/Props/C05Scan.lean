import Pdq.Props.C05Loop
import Pdq.Drv.Adaptive
/-!
# C05, part 3 — `steps_independent_of_checkpoints` for whole runs

For checkpoint lists with the same final checkpoint `T` (all checkpoints `≤ T`) and clipping off, the runs of
`solve_adaptive_save_at` end in states with the same stepper projection
`(core step_from, dt, controller state, error state)` — the same accepted steps, the same `num_steps`, the same
proposals — whatever intermediate checkpoints are requested.

Proof idea.  `LoopsTo T` collects what every such run does: a sequence of `RejectionLoop.loop` calls, each towards some
checkpoint `c ≤ T` (plus bookkeeping that does not touch the projection), ending in a state that is no longer before `T`.
By `C05Loop.loop_proj` a call either leaves the projection alone (no step) or applies one rejection loop, whose
projection does not depend on the checkpoint (`C05Loop.step_indep_of_checkpoint`); a step can only happen while
`t + eps < c ≤ T`.  Hence two such sequences from projection-equal states perform the same steps until the first state
that is not before `T` (`loopsTo_deterministic`, nested induction), and `scan` is such a sequence (`scan_loopsTo`).
-/
set_option linter.unusedSectionVars false
namespace Pdq.C05Loop
variable {K : Type} [Field K] [LinearOrder K] [IsStrictOrderedRing K] {σ X : Type}

/-- a sequence of `loop` calls towards checkpoints `≤ T`, interleaved with projection-preserving bookkeeping -/
inductive LoopsTo (cfg : Cfg K σ) (core : LSolState K → X) (fuelR : Nat) (eps T : K) :
    TimeStepState K σ → TimeStepState K σ → Prop
  | refl (s) : LoopsTo cfg core fuelR eps T s s
  | eqv {s s' s''} : proj core s = proj core s' → LoopsTo cfg core fuelR eps T s' s'' → LoopsTo cfg core fuelR eps T s s''
  | call {s s' s''} (c : K) (sol : LSolState K) : c ≤ T → cfg.loop fuelR s c eps = some (sol, s') →
      LoopsTo cfg core fuelR eps T s' s'' → LoopsTo cfg core fuelR eps T s s''

theorem LoopsTo.trans {cfg : Cfg K σ} {core : LSolState K → X} {fuelR : Nat} {eps T : K}
    {a b c : TimeStepState K σ} (h1 : LoopsTo cfg core fuelR eps T a b) (h2 : LoopsTo cfg core fuelR eps T b c) :
    LoopsTo cfg core fuelR eps T a c := by
  induction h1 with
  | refl _ => exact h2
  | eqv he _ ih => exact LoopsTo.eqv he (ih h2)
  | call c sol hc hl _ ih => exact LoopsTo.call c sol hc hl (ih h2)

theorem LoopsTo.mono {cfg : Cfg K σ} {core : LSolState K → X} {fuelR : Nat} {eps T T' : K} (hTT : T ≤ T')
    {a b : TimeStepState K σ} (h : LoopsTo cfg core fuelR eps T a b) : LoopsTo cfg core fuelR eps T' a b := by
  induction h with
  | refl _ => exact LoopsTo.refl _
  | eqv he _ ih => exact LoopsTo.eqv he ih
  | call c sol hc hl _ ih => exact LoopsTo.call c sol (le_trans hc hTT) hl ih

theorem proj_t (cfg : Cfg K σ) (core : LSolState K → X) (h : CoreLaws cfg core) {s s' : TimeStepState K σ}
    (hs : proj core s = proj core s') : s.stepFrom.t = s'.stepFrom.t := by
  simp only [proj, Prod.mk.injEq] at hs
  exact h.t_core _ _ hs.1

/-- once a state is no longer before `T`, no further call towards a checkpoint `≤ T` changes the projection -/
theorem loopsTo_done (cfg : Cfg K σ) (core : LSolState K → X) (h : CoreLaws cfg core) (fuelR : Nat) (eps T : K)
    {s s2 : TimeStepState K σ} (h2 : LoopsTo cfg core fuelR eps T s s2) (hdone : ¬ s.stepFrom.t + eps < T) :
    proj core s2 = proj core s := by
  induction h2 with
  | refl _ => rfl
  | eqv he _ ih =>
    have ht := proj_t cfg core h he
    rw [ih (by rw [← ht]; exact hdone), he]
  | @call s s' s'' c sol hc hl _ ih =>
    have hn : ¬ s.stepFrom.t + eps < c := fun hlt => hdone (lt_of_lt_of_le hlt hc)
    have hp := loop_proj cfg core h fuelR s c eps
    rw [hl, if_neg hn] at hp
    have hps : proj core s' = proj core s := by simpa using hp
    have ht := proj_t cfg core h hps
    rw [ih (by rw [ht]; exact hdone), hps]

/-- **determinism modulo the projection**: two runs towards the same final checkpoint from projection-equal states, both
ending in states that are no longer before `T`, end in projection-equal states. -/
theorem loopsTo_deterministic (cfg : Cfg K σ) (core : LSolState K → X) (h : CoreLaws cfg core)
    (hclip : cfg.clip = false) (fuelR : Nat) (eps T : K) {s s1 : TimeStepState K σ}
    (h1 : LoopsTo cfg core fuelR eps T s s1) :
    ∀ {s' s2 : TimeStepState K σ}, LoopsTo cfg core fuelR eps T s' s2 → proj core s = proj core s' →
      ¬ s1.stepFrom.t + eps < T → ¬ s2.stepFrom.t + eps < T → proj core s1 = proj core s2 := by
  induction h1 with
  | refl s =>
    intro s' s2 h2 hp hd1 _
    have ht := proj_t cfg core h hp
    have := loopsTo_done cfg core h fuelR eps T h2 (by rw [← ht]; exact hd1)
    rw [this, hp]
  | eqv he _ ih =>
    intro s' s2 h2 hp hd1 hd2
    exact ih h2 (he.symm.trans hp) hd1 hd2
  | @call s sA s1 c sol hc hl hrest ih =>
    intro s' s2 h2 hp hd1 hd2
    have hpl := loop_proj cfg core h fuelR s c eps
    rw [hl] at hpl
    by_cases hlt : s.stepFrom.t + eps < c
    · -- the first run steps: find the first stepping call of the second run
      rw [if_pos hlt] at hpl
      have hbefore : s.stepFrom.t + eps < T := lt_of_lt_of_le hlt hc
      clear hl
      induction h2 with
      | refl s' =>
        exact absurd (by rw [← proj_t cfg core h hp]; exact hbefore) hd2
      | eqv he' _ ih2 => exact ih2 (hp.trans he') hd2
      | @call s' sB s2 c' sol' hc' hl' hrest' ih2 =>
        have hpl' := loop_proj cfg core h fuelR s' c' eps
        rw [hl'] at hpl'
        by_cases hlt' : s'.stepFrom.t + eps < c'
        · rw [if_pos hlt'] at hpl'
          have hstep := step_indep_of_checkpoint cfg core h hclip fuelR s s' c c' hp
          rw [← hpl, ← hpl'] at hstep
          have hAB : proj core sA = proj core sB := by simpa using hstep
          exact ih hrest' hAB hd1 hd2
        · rw [if_neg hlt'] at hpl'
          have hB : proj core sB = proj core s' := by simpa using hpl'
          exact ih2 (hp.trans hB.symm) hd2
    · rw [if_neg hlt] at hpl
      have hA : proj core sA = proj core s := by simpa using hpl
      exact ih h2 (hA.trans hp) hd1 hd2

/-! ### `advance` and `scan` are such sequences -/

theorem advanceWhile_loopsTo (cfg : Cfg K σ) (core : LSolState K → X) (fuelR : Nat) (eps c T : K) (hc : c ≤ T) :
    ∀ (fuelA : Nat) (st : TimeStepState K σ) (sol sol' : LSolState K) (st' : TimeStepState K σ),
      cfg.advanceWhile fuelR c eps fuelA true sol st = some (sol', st') →
      LoopsTo cfg core fuelR eps T st st' ∧ ¬ st'.stepFrom.t + eps < c := by
  intro fuelA
  induction fuelA with
  | zero => intro st sol sol' st' hA; simp [Cfg.advanceWhile] at hA
  | succ n ih =>
    intro st sol sol' st' hA
    unfold Cfg.advanceWhile at hA
    split at hA
    · cases hA
    · next sol1 st1 hl =>
      by_cases hgo : st1.stepFrom.t + eps < c
      · rw [decide_eq_true hgo] at hA
        obtain ⟨hr, hd⟩ := ih st1 sol1 sol' st' hA
        exact ⟨LoopsTo.call c sol1 hc hl hr, hd⟩
      · rw [decide_eq_false hgo, advanceWhile_false] at hA
        cases hA
        exact ⟨LoopsTo.call c _ hc hl (LoopsTo.refl _), hgo⟩

theorem advance_loopsTo (cfg : Cfg K σ) (core : LSolState K → X) (fuelA fuelR : Nat) (eps c T : K) (hc : c ≤ T)
    (p p' : LSolState K × TimeStepState K σ) (hA : cfg.advance fuelA fuelR eps p c = some p') :
    LoopsTo cfg core fuelR eps T p.2 p'.2 ∧ ¬ p'.2.stepFrom.t + eps < c := by
  unfold Cfg.advance at hA
  split at hA
  · cases hA
  · next sol st hw =>
    obtain ⟨hr, hd⟩ := advanceWhile_loopsTo cfg core fuelR eps c T hc fuelA p.2 p.1 sol st hw
    have hq : LoopsTo cfg core fuelR eps T st { st with trace := Event.output c sol :: st.trace } :=
      LoopsTo.eqv (s' := { st with trace := Event.output c sol :: st.trace }) rfl (LoopsTo.refl _)
    cases hA
    exact ⟨hr.trans hq, hd⟩

/-- last element of a non-empty list of checkpoints, or the start value -/
def lastOr (a : K) : List K → K
  | [] => a
  | b :: l => lastOr b l

theorem scan_loopsTo (cfg : Cfg K σ) (core : LSolState K → X) (fuelA fuelR : Nat) (eps T : K) :
    ∀ (ts : List K) (p : LSolState K × TimeStepState K σ) (ys : List (LSolState K)) (pf : LSolState K × TimeStepState K σ),
      (∀ c ∈ ts, c ≤ T) → cfg.scan fuelA fuelR eps ts p = some (ys, pf) →
      LoopsTo cfg core fuelR eps T p.2 pf.2 ∧ (ts ≠ [] → ¬ pf.2.stepFrom.t + eps < lastOr T ts) := by
  intro ts
  induction ts with
  | nil =>
    intro p ys pf _ hS
    simp only [Cfg.scan, Option.some.injEq, Prod.mk.injEq] at hS
    obtain ⟨_, rfl⟩ := hS
    exact ⟨LoopsTo.refl _, fun hne => absurd rfl hne⟩
  | cons c rest ih =>
    intro p ys pf hle hS
    unfold Cfg.scan at hS
    split at hS
    · cases hS
    · next p1 hadv =>
      split at hS
      · cases hS
      · next ys' cf hrest =>
        have hc : c ≤ T := hle c (List.mem_cons_self)
        obtain ⟨hr1, hd1⟩ := advance_loopsTo cfg core fuelA fuelR eps c T hc p p1 hadv
        obtain ⟨hr2, hd2⟩ := ih p1 ys' cf (fun x hx => hle x (List.mem_cons_of_mem _ hx)) hrest
        cases hS
        refine ⟨hr1.trans hr2, fun _ => ?_⟩
        cases rest with
        | nil =>
          simp only [Cfg.scan, Option.some.injEq, Prod.mk.injEq] at hrest
          obtain ⟨_, rfl⟩ := hrest
          simpa [lastOr] using hd1
        | cons b l => simpa [lastOr] using hd2 (by simp)

/-- **C05: the accepted step sequence does not depend on the checkpoint set.**  Two runs of the scan of
`solve_adaptive_save_at` (clipping off) from projection-equal states over checkpoint lists `A` and `B` that are
non-empty, bounded by and ending in the same final checkpoint `T` end in projection-equal states:
same `core step_from` (time, marginal, calibration state, …), same step-size proposal, same controller and error state.
`B ⊇ A` is the special case the property names; no sortedness is needed. -/
theorem steps_independent_of_checkpoints (cfg : Cfg K σ) (core : LSolState K → X) (h : CoreLaws cfg core)
    (hclip : cfg.clip = false) (fuelA fuelR fuelA' : Nat) (eps T : K) (A B : List K)
    (hA : ∀ c ∈ A, c ≤ T) (hB : ∀ c ∈ B, c ≤ T) (hAne : A ≠ []) (hBne : B ≠ [])
    (hAlast : lastOr T A = T) (hBlast : lastOr T B = T)
    (p p' : LSolState K × TimeStepState K σ) (hp : proj core p.2 = proj core p'.2)
    (ysA ysB : List (LSolState K)) (pA pB : LSolState K × TimeStepState K σ)
    (hrunA : cfg.scan fuelA fuelR eps A p = some (ysA, pA))
    (hrunB : cfg.scan fuelA' fuelR eps B p' = some (ysB, pB)) :
    proj core pA.2 = proj core pB.2 := by
  obtain ⟨hrA, hdA⟩ := scan_loopsTo cfg core fuelA fuelR eps T A p ysA pA hA hrunA
  obtain ⟨hrB, hdB⟩ := scan_loopsTo cfg core fuelA' fuelR eps T B p' ysB pB hB hrunB
  have dA := hdA hAne
  have dB := hdB hBne
  rw [hAlast] at dA
  rw [hBlast] at dB
  exact loopsTo_deterministic cfg core h hclip fuelR eps T hrA hrB hp dA dB

/-! ### non-vacuity: a concrete configuration satisfying `CoreLaws`, and two runs with different checkpoint sets -/
section example_

/-- error oracle: attempts of size `≤ 1/8` are accepted (`error_power = 2`), larger ones rejected (`1/2`) -/
def exEst : Est ℚ := { init := 0, estimate := fun es _ _ dt => (if dt ≤ 1/8 then 2 else 1/2, es + 1) }

/-- scripted solver of the C06 driver (its interpolation changes the payload tag, not time / step counter), integral
controller `(1, 1/2, 2)`, clipping off -/
def exCfg : Cfg ℚ Unit :=
  { solver := Drv.scriptedSolver, est := exEst, ctl := ctlI ⟨1, 1/2, 2⟩, clip := false, seed := 9/10 }

def exCore (s : LSolState ℚ) : ℚ × Nat := (s.t, s.numSteps)

theorem exCfg_coreLaws : CoreLaws exCfg exCore where
  step_core := by
    intro a b dt h
    simp only [exCore, Prod.mk.injEq] at h
    simp [exCore, exCfg, Drv.scriptedSolver, h.1, h.2]
  est_core := by intro es a b p q dt _ _; rfl
  t_core := by intro a b h; simp only [exCore, Prod.mk.injEq] at h; exact h.1
  fwd_core := by intro t a b; rfl
  at_core := by intro t a b; rfl

/-- the run to `T = 1` directly and the run through the extra checkpoints `3/16, 1/2, 17/32` both succeed … -/
example :
    ((exCfg.scan 20 20 (1/1048576) [1] (⟨0, 0, 7⟩, exCfg.init ⟨0, 0, 7⟩ (1/2))).map
        fun r => proj exCore r.2.2)
      = ((exCfg.scan 20 20 (1/1048576) [3/16, 1/2, 17/32, 1] (⟨0, 0, 7⟩, exCfg.init ⟨0, 0, 7⟩ (1/2))).map
        fun r => proj exCore r.2.2) ∧
    ((exCfg.scan 20 20 (1/1048576) [1] (⟨0, 0, 7⟩, exCfg.init ⟨0, 0, 7⟩ (1/2))).map
        fun r => (r.2.2.stepFrom.t, r.2.2.stepFrom.numSteps)) = some ((1 : ℚ), 8) := by
  decide +kernel

end example_

end Pdq.C05Loop
