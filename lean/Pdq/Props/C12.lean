import Pdq.Model.Lml
import Pdq.Bridge
import Pdq.Props.C08
import Pdq.Lemmas.Joint
import Mathlib.Algebra.BigOperators.Group.List.Basic
import Mathlib.Analysis.SpecialFunctions.Log.Basic
/-!
# C12 — Marginal-likelihood losses equal the exact Gaussian log-density of the data

About `Pdq.Model.Lml` (the definitions the driver executes), through the abstraction maps of `Pdq.Bridge`.
A log-density `-½ (maha + N log 2π + log det)` is carried as the pair `(maha, det)`.
-/
set_option linter.unusedSectionVars false
open Matrix

namespace Pdq.C12
open Pdq.Joint
variable {K : Type} [Field K] {k n : Nat}

/-- column matrix of a vector -/
abbrev col {ι : Type} (v : ι → K) : Matrix ι Unit K := replicateCol Unit v

theorem col_quad {ι : Type} [Fintype ι] (v w : ι → K) (M : Matrix ι ι K) :
    (col v)ᵀ * M * col w = Matrix.of fun _ _ => v ⬝ᵥ (M *ᵥ w) := by
  rw [Matrix.mul_assoc, ← replicateCol_mulVec, transpose_replicateCol, replicateRow_mul_replicateCol]

theorem col_mulVec {ι κ : Type} [Fintype κ] (M : Matrix ι κ K) (v : κ → K) : col (M *ᵥ v) = M * col v :=
  replicateCol_mulVec M v
theorem col_add {ι : Type} (v w : ι → K) : col (v + w) = col v + col w := replicateCol_add v w
theorem col_sub {ι : Type} (v w : ι → K) : col (v - w) = col v - col w := by
  ext i j; simp [replicateCol_apply]

/-! ## `lml_two_block` -/

/-- **two-block factorisation** (`p(x, y) = p(x) p(y | x)` in `(maha, det)` form).  For a joint covariance
`Σ = [[A, B], [Bᵀ, D]]` with `A` symmetric invertible and Schur complement `S = D − Bᵀ A⁻¹ B` invertible:
`det Σ = det A · det S` and
`[v;w]ᵀ Σ⁻¹ [v;w] = vᵀ A⁻¹ v + (w − Bᵀ A⁻¹ v)ᵀ S⁻¹ (w − Bᵀ A⁻¹ v)`. -/
theorem lml_two_block {ι κ : Type} [Fintype ι] [DecidableEq ι] [Fintype κ] [DecidableEq κ]
    (A : Matrix ι ι K) (B : Matrix ι κ K) (D : Matrix κ κ K)
    [Invertible A] [Invertible (D - Bᵀ * ⅟A * B)] [Invertible (fromBlocks A B Bᵀ D)]
    (hA : Aᵀ = A) (v : Matrix ι Unit K) (w : Matrix κ Unit K) :
    (fromBlocks A B Bᵀ D).det = A.det * (D - Bᵀ * ⅟A * B).det ∧
    (fromRows v w)ᵀ * ⅟(fromBlocks A B Bᵀ D) * fromRows v w
      = vᵀ * ⅟A * v + (w - Bᵀ * ⅟A * v)ᵀ * ⅟(D - Bᵀ * ⅟A * B) * (w - Bᵀ * ⅟A * v) := by
  have hAi : (⅟A)ᵀ = ⅟A := by rw [invOf_eq_nonsing_inv, Matrix.transpose_nonsing_inv, hA]
  exact ⟨joint_det A B D, block_bilin A B D hAi v w v w⟩

/-! ## one Bayes step of `evaluate_lml` against the joint law -/

/-- the model's Gaussian `rv` is the conditional law of the state given the stack -/
def Tracks {ι : Type} [Fintype ι] [DecidableEq ι] (J : JointYX ι (Fin n) K) (y : Matrix ι Unit K)
    (rv : Gauss n K) : Prop :=
  col rv.mean.toV = J.condMean y ∧ rv.cov.toM = J.condCov

/-- a stack covariance one can take log-densities with -/
def Good {ι : Type} [Fintype ι] [DecidableEq ι] (J : JointYX ι (Fin n) K) : Prop :=
  J.SYYᵀ = J.SYY ∧ J.Sxxᵀ = J.Sxx ∧ IsUnit J.SYY.det

theorem ok_iff [DecidableEq K] (o : LmlObs k n K) (rv : Gauss n K) :
    o.ok rv = true ↔ (o.G.toM * (o.c.marg rv).cov.toM = (o.c.cross rv).toM ∧
      (o.c.marg rv).cov.toM * o.W.toM = 1 ∧ (o.c.marg rv).cov.luOk o.L o.U = true) := by
  simp only [LmlObs.ok, Bool.and_eq_true, C08.gainOk_iff, C08.invOk_iff, and_assoc]

/-- **one term.** If `rv` is the conditional law of the state given the data recorded so far, then after
`bayes_rule_and_logpdf` with checked certificates: the `(maha, det)` pair of the joint law of the data *including
the new datum* is the old pair plus / times the returned term, and the updated Gaussian is the conditional law
given all of them. -/
theorem lml_obs_step [DecidableEq K] {ι : Type} [Fintype ι] [DecidableEq ι]
    (J : JointYX ι (Fin n) K) (y : Matrix ι Unit K) (rv : Gauss n K) (o : LmlObs k n K)
    (hJ : Good J) (hT : Tracks J y rv) (hR : o.c.Q.toMᵀ = o.c.Q.toM) (hok : o.ok rv = true) :
    let J' := J.obs o.c.A.toM (col o.c.b.toV) o.c.Q.toM
    let y' := fromRows y (col o.u.toV)
    J'.maha y' = J.maha y + Matrix.of (fun _ _ => (o.step rv).1.maha) ∧
    J'.SYY.det = J.SYY.det * (o.step rv).1.det ∧
    Tracks J' y' (o.step rv).2 ∧ Good J' := by
  intro J' y'
  obtain ⟨hs, hx, hu⟩ := hJ
  obtain ⟨hm, hc⟩ := hT
  obtain ⟨hG, hW, hLU⟩ := (ok_iff o rv).mp hok
  have hdet := C08.det_of_luOk _ _ _ hLU
  have hScov : (o.c.marg rv).cov.toM = o.c.A.toM * J.condCov * o.c.A.toMᵀ + o.c.Q.toM := by
    rw [C08.marg_cov, hc]
  have hSu : IsUnit (o.c.marg rv).cov.toM.det :=
    Matrix.isUnit_det_of_right_inverse hW
  have hG' : o.G.toM * (o.c.marg rv).cov.toM = J.condCov * o.c.A.toMᵀ := by
    rw [hG]; simp [Cond.cross, hc]
  have hmean : col (o.c.marg rv).mean.toV = o.c.A.toM * J.condMean y + col o.c.b.toV := by
    rw [C08.marg_mean, col_add, col_mulVec, hm]
  obtain ⟨h1, h2, h3, h4, h5, h6⟩ :=
    JointYX.obs_step J hs hx hu o.c.A.toM (col o.c.b.toV) o.c.Q.toM hR _ hScov hSu _ hG' y (col o.u.toV)
  refine ⟨?_, ?_, ⟨?_, ?_⟩, ⟨h5, hx, h6⟩⟩
  · have hmaha : (o.step rv).1.maha = (o.u.toV - (o.c.marg rv).mean.toV) ⬝ᵥ
        ((o.c.marg rv).cov.toM⁻¹ *ᵥ (o.u.toV - (o.c.marg rv).mean.toV)) :=
      C08.maha_spec (o.c.marg rv) o.W o.u hW
    rw [h1, ← hmean, ← col_sub, col_quad, hmaha]
  · rw [h2, hdet]; rfl
  · rw [h3, ← hmean, ← col_sub, ← hm, ← col_mulVec, ← col_add]
    congr 1
    simp [LmlObs.step, Cond.revertWith, Cond.applyPt, Matrix.mulVec_sub]
    abel
  · rw [h4, ← hc]
    simp [LmlObs.step, Cond.revertWith, Cond.applyPt]


/-- **between two data.** Marginalising through a stored backward conditional (`prior.marginalise(rv)`) tracks the
joint law with the state replaced by the earlier one; the law of the data recorded so far does not change. -/
theorem lml_trans_step {ι : Type} [Fintype ι] [DecidableEq ι]
    (J : JointYX ι (Fin n) K) (y : Matrix ι Unit K) (rv : Gauss n K) (bw : PCond n n K)
    (hJ : Good J) (hT : Tracks J y rv) (hQ : bw.Q.toMᵀ = bw.Q.toM) :
    let J' := J.trans bw.den.A.toM (col bw.den.b.toV) bw.den.Q.toM
    J'.maha y = J.maha y ∧ J'.SYY = J.SYY ∧ Tracks J' y (bw.marg rv) ∧ Good J' := by
  intro J'
  obtain ⟨hs, hx, hu⟩ := hJ
  obtain ⟨hm, hc⟩ := hT
  obtain ⟨h1, h2, h3, h4⟩ := JointYX.trans_step J bw.den.A.toM (col bw.den.b.toV) bw.den.Q.toM y
  obtain ⟨hdm, hdc⟩ := C08.marg_den bw rv
  have hQ' : bw.den.Q.toMᵀ = bw.den.Q.toM := by
    simp [PCond.den, Matrix.transpose_mul, hQ, Matrix.mul_assoc]
  refine ⟨h3, h4, ⟨?_, ?_⟩, ⟨?_, ?_, ?_⟩⟩
  · rw [h1, hdm, C08.marg_mean, col_add, col_mulVec, hm]
  · rw [h2, hdc, C08.marg_cov, hc]
  · exact hs
  · show (bw.den.A.toM * J.Sxx * bw.den.A.toMᵀ + bw.den.Q.toM)ᵀ
      = bw.den.A.toM * J.Sxx * bw.den.A.toMᵀ + bw.den.Q.toM
    simp [Matrix.transpose_mul, hx, hQ', Matrix.mul_assoc]
  · exact hu

/-! ## whole backward pass: `lml_chain` -/

/-- a stack of recorded data with its joint law with the current state (index type bundled) -/
structure Stack (n : Nat) (K : Type) where
  ι : Type
  ft : Fintype ι
  de : DecidableEq ι
  J : JointYX ι (Fin n) K
  y : Matrix ι Unit K

attribute [instance] Stack.ft Stack.de

/-- nothing recorded yet: the state has the law `g` -/
def initJ (g : Gauss n K) : JointYX PEmpty (Fin n) K :=
  { μY := 0, μx := col g.mean.toV, SYY := 0, SYx := 0, Sxx := g.cov.toM }

def Stack.init (g : Gauss n K) : Stack n K :=
  { ι := PEmpty, ft := inferInstance, de := inferInstance, J := initJ g, y := 0 }

/-- record the datum `o.u` observed through `o.c` -/
def Stack.observe (s : Stack n K) (o : LmlObs k n K) : Stack n K :=
  { ι := s.ι ⊕ Fin k, ft := inferInstance, de := inferInstance,
    J := s.J.obs o.c.A.toM (col o.c.b.toV) o.c.Q.toM, y := fromRows s.y (col o.u.toV) }

/-- move the state through a stored backward conditional -/
def Stack.move (s : Stack n K) (bw : PCond n n K) : Stack n K :=
  { ι := s.ι, ft := s.ft, de := s.de,
    J := s.J.trans bw.den.A.toM (col bw.den.b.toV) bw.den.Q.toM, y := s.y }

/-- the joint law of *all* data visited by `evaluate_lml`, built by the two elementary rules
(append `y = H x + e`; move `x ← G x + b + w`) along the backward Markov chain -/
def lmlStack (s : Stack n K) (o : LmlObs k n K) : List (PCond n n K × LmlObs k n K) → Stack n K
  | [] => s.observe o
  | (bw, o') :: rest => lmlStack ((s.observe o).move bw) o' rest

/-- symmetry of all noise covariances handed to the pass -/
def SymInputs (o : LmlObs k n K) (rest : List (PCond n n K × LmlObs k n K)) : Prop :=
  o.c.Q.toMᵀ = o.c.Q.toM ∧ ∀ x ∈ rest, x.1.Q.toMᵀ = x.1.Q.toM ∧ x.2.c.Q.toMᵀ = x.2.c.Q.toM

theorem lml_chain_aux [DecidableEq K] (s : Stack n K) (rv : Gauss n K) (o : LmlObs k n K)
    (rest : List (PCond n n K × LmlObs k n K))
    (hJ : Good s.J) (hT : Tracks s.J s.y rv) (hsym : SymInputs o rest) (hok : lmlOk rv o rest = true) :
    let s' := lmlStack s o rest
    s'.J.maha s'.y = s.J.maha s.y + Matrix.of (fun _ _ => ((lmlTerms rv o rest).map (·.maha)).sum) ∧
    s'.J.SYY.det = s.J.SYY.det * ((lmlTerms rv o rest).map (·.det)).prod ∧
    Tracks s'.J s'.y (lmlFinal rv o rest) ∧ Good s'.J := by
  induction rest generalizing s rv o with
  | nil =>
    simp only [lmlOk] at hok
    obtain ⟨h1, h2, h3, h4⟩ := lml_obs_step s.J s.y rv o hJ hT hsym.1 hok
    simp only [lmlStack, lmlTerms, lmlFinal, List.map_cons, List.map_nil, List.sum_cons, List.sum_nil,
      List.prod_cons, List.prod_nil, add_zero, mul_one]
    exact ⟨h1, h2, h3, h4⟩
  | cons x rest ih =>
    obtain ⟨bw, o'⟩ := x
    simp only [lmlOk, Bool.and_eq_true] at hok
    obtain ⟨h1, h2, h3, h4⟩ := lml_obs_step s.J s.y rv o hJ hT hsym.1 hok.1
    have hx := hsym.2 (bw, o') (List.mem_cons_self)
    obtain ⟨g1, g2, g3, g4⟩ := lml_trans_step (s.observe o).J (s.observe o).y (o.step rv).2 bw h4 h3 hx.1
    have hsym' : SymInputs o' rest := ⟨hx.2, fun z hz => hsym.2 z (List.mem_cons_of_mem _ hz)⟩
    obtain ⟨i1, i2, i3, i4⟩ := ih ((s.observe o).move bw) (bw.marg (o.step rv).2) o' g4 g3 hsym' hok.2
    simp only [lmlStack, lmlTerms, lmlFinal, List.map_cons, List.sum_cons, List.prod_cons]
    refine ⟨?_, ?_, i3, i4⟩
    · have e1 : ((s.observe o).move bw).J.maha ((s.observe o).move bw).y
          = s.J.maha s.y + Matrix.of (fun _ _ => (o.step rv).1.maha) := g1.trans h1
      refine i1.trans ?_
      rw [e1, add_assoc]
      congr 1
    · have e2 : ((s.observe o).move bw).J.SYY.det = s.J.SYY.det * (o.step rv).1.det := by
        rw [show ((s.observe o).move bw).J.SYY = (s.observe o).J.SYY from g2]; exact h2
      refine i2.trans ?_
      rw [e2, mul_assoc]


theorem init_good (g : Gauss n K) (hP : g.cov.toMᵀ = g.cov.toM) : Good (Stack.init g).J := by
  show Good (initJ g)
  refine ⟨Subsingleton.elim _ _, hP, ?_⟩
  show IsUnit (Matrix.det (0 : Matrix PEmpty PEmpty K))
  rw [Matrix.det_isEmpty]; exact isUnit_one

theorem init_tracks (g : Gauss n K) : Tracks (Stack.init g).J (Stack.init g).y g := by
  show Tracks (initJ g) (0 : Matrix PEmpty Unit K) g
  constructor
  · simp [JointYX.condMean, initJ]
  · simp [JointYX.condCov, initJ]

theorem init_maha (g : Gauss n K) : (Stack.init g).J.maha (Stack.init g).y = 0 := by
  show (initJ g).maha (0 : Matrix PEmpty Unit K) = 0
  simp [JointYX.maha, initJ]

/-- **C12, time-series loss (`lml_chain`).** For every terminal marginal with symmetric covariance, every list of
stored backward conditionals and data (any length), every observation model, and all certificates checked
(`lmlOk`: each innovation covariance `S_k` is invertible, which is what the code needs as well to evaluate
`logpdf`): the sum of the per-time Mahalanobis terms and the product of the per-time determinants returned
by the model of `evaluate_lml` are the quadratic form `(y-μ)ᵀ Σ⁻¹ (y-μ)` and the determinant `det Σ` of the
joint law of **all** data, where `(μ, Σ)` is built from the backward Markov factorisation
(`x_N ~ marginal`, `x_k = G_k x_{k+1} + b_k + w_k`) and `y_k = H_k x_k + e_k`, `e_k ~ N(0, diag(std_k²))`;
in particular `Σ` is invertible.  No state covariance is assumed invertible (noise-free initial states are
covered).  The last conjunct is the filter invariant: the final Gaussian is the law of the earliest state
given all data. -/
theorem lml_chain [DecidableEq K] (term : Gauss n K) (o : LmlObs k n K)
    (rest : List (PCond n n K × LmlObs k n K))
    (hP : term.cov.toMᵀ = term.cov.toM) (hsym : SymInputs o rest) (hok : lmlOk term o rest = true) :
    let s := lmlStack (Stack.init term) o rest
    s.J.maha s.y = Matrix.of (fun _ _ => ((lmlTerms term o rest).map (·.maha)).sum) ∧
    s.J.SYY.det = ((lmlTerms term o rest).map (·.det)).prod ∧
    IsUnit s.J.SYY.det ∧ Tracks s.J s.y (lmlFinal term o rest) := by
  intro s
  obtain ⟨h1, h2, h3, h4⟩ :=
    lml_chain_aux (Stack.init term) term o rest (init_good term hP) (init_tracks term) hsym hok
  refine ⟨?_, ?_, h4.2.2, h3⟩
  · rw [h1, init_maha, zero_add]
  · rw [h2]
    show Matrix.det (0 : Matrix PEmpty PEmpty K) * _ = _
    rw [Matrix.det_isEmpty, one_mul]

/-- what `Stack.observe` / `Stack.move` put into the joint law, spelled out: the new diagonal block is
`H Pˢ Hᵀ + R` with `Pˢ` the (smoothing) marginal covariance of the current state, the new cross block is
`Cov(Y, x) Hᵀ`; moving the state multiplies the cross-covariance by `Gᵀ` and gives the state the marginal
`bw.marg` computes (`evaluate_marginals`). -/
theorem stack_rules (s : Stack n K) (o : LmlObs k n K) (bw : PCond n n K) (g : Gauss n K)
    (hm : s.J.μx = col g.mean.toV) (hc : s.J.Sxx = g.cov.toM) :
    (s.observe o).J.SYY
      = fromBlocks s.J.SYY (s.J.SYx * o.c.A.toMᵀ) (s.J.SYx * o.c.A.toMᵀ)ᵀ
          (o.c.A.toM * g.cov.toM * o.c.A.toMᵀ + o.c.Q.toM) ∧
    (s.move bw).J.SYx = s.J.SYx * bw.den.A.toMᵀ ∧
    (s.move bw).J.μx = col (bw.marg g).mean.toV ∧ (s.move bw).J.Sxx = (bw.marg g).cov.toM := by
  obtain ⟨hdm, hdc⟩ := C08.marg_den bw g
  refine ⟨?_, rfl, ?_, ?_⟩
  · simp [Stack.observe, JointYX.obs, hc]
  · rw [hdm, C08.marg_mean, col_add, col_mulVec, ← hm]; rfl
  · rw [hdc, C08.marg_cov, ← hc]; rfl

/-! ## running mean / sum -/

theorem lml_fold_avg [CharZero K] (rest : List K) (acc : K) (j : ℕ) (hj : 0 < j) :
    rest.foldl (lmlUpdate true) (acc, (j : K)) = ((acc * j + rest.sum) / (j + rest.length : ℕ), ((j + rest.length : ℕ) : K)) := by
  induction rest generalizing acc j with
  | nil =>
    have : (j : K) ≠ 0 := Nat.cast_ne_zero.mpr (Nat.pos_iff_ne_zero.mp hj)
    simp [this]
  | cons x rest ih =>
    have h1 : ((j + 1 : ℕ) : K) ≠ 0 := Nat.cast_ne_zero.mpr (by omega)
    have : lmlUpdate true (acc, (j : K)) x = ((acc * j + x) / ((j + 1 : ℕ) : K), ((j + 1 : ℕ) : K)) := by
      simp [lmlUpdate]
    rw [List.foldl_cons, this, ih _ (j + 1) (by omega)]
    have e : j + 1 + rest.length = j + (x :: rest).length := by simp; omega
    rw [e]
    congr 1
    rw [div_mul_cancel₀ _ h1, List.sum_cons, add_assoc]

theorem lml_fold_sum (rest : List K) (acc num : K) :
    (rest.foldl (lmlUpdate false) (acc, num)).1 = acc + rest.sum := by
  induction rest generalizing acc num with
  | nil => simp
  | cons x rest ih => simp [List.foldl_cons, lmlUpdate, ih, add_assoc]

/-- **`lml_average`.** The running update `(logpdf·num + new)/(num + 1)` started at `(pdf_N, 1)` returns the
arithmetic mean of all per-time log-densities; with `average_pdfs = False` it returns their sum. -/
theorem lml_average [CharZero K] (pdf0 : K) (rest : List K) :
    lmlRunning true pdf0 rest = (pdf0 + rest.sum) / ((rest.length + 1 : ℕ) : K) ∧
    lmlRunning false pdf0 rest = pdf0 + rest.sum := by
  constructor
  · have := lml_fold_avg rest pdf0 1 (by omega)
    simp only [Nat.cast_one] at this
    unfold lmlRunning
    rw [this]
    simp [add_comm]
  · exact lml_fold_sum rest pdf0 1


/-! ## from `(maha, det)` pairs to log-densities -/

/-- the log-density a pair stands for; `c` is the constant `log 2π` -/
noncomputable def logpdfOf (c : ℝ) (k : ℕ) (t : ℝ × ℝ) : ℝ := -(1 / 2) * (t.1 + k * c + Real.log t.2)

/-- **sum of the per-time log-densities = log-density of the pair `(Σ maha, Π det)`** in dimension `N·k`: together with
`lml_chain` this makes `average_pdfs = False` the joint Gaussian log-density of all data, and (by `lml_average`)
`average_pdfs = True` that log-density divided by the number of time points.  (This is the step the harness performs in
float64.) -/
theorem lml_logpdf_sum (c : ℝ) (k : ℕ) (ts : List (ℝ × ℝ)) (hpos : ∀ t ∈ ts, 0 < t.2) :
    (ts.map (logpdfOf c k)).sum
      = logpdfOf c (ts.length * k) ((ts.map Prod.fst).sum, (ts.map Prod.snd).prod) ∧
    0 < (ts.map Prod.snd).prod := by
  induction ts with
  | nil => simp [logpdfOf]
  | cons t rest ih =>
    obtain ⟨h1, h2⟩ := ih (fun x hx => hpos x (List.mem_cons_of_mem _ hx))
    have ht := hpos t List.mem_cons_self
    refine ⟨?_, by simpa using mul_pos ht h2⟩
    simp only [List.map_cons, List.sum_cons, List.prod_cons, List.length_cons, h1]
    simp only [logpdfOf]
    rw [Real.log_mul ht.ne' h2.ne']
    push_cast
    ring

/-! ## terminal-value loss and the observation model -/

/-- **`terminal_lml`.** The terminal-value loss (marginalise the terminal marginal `(m, P)` through the observation
model, then `logpdf`) is the `(maha, det)` pair of `N(H m + b, H P Hᵀ + R)` at the datum, i.e. of the terminal
marginal of the observed coefficient plus independent noise; it is also the one-term case of the time-series
loss. -/
theorem terminal_lml [DecidableEq K] (c : Cond k n K) (rv : Gauss n K) (u : Vec k K) (W L U : Mat k k K)
    (hW : (c.marg rv).cov.invOk W = true) (hLU : (c.marg rv).cov.luOk L U = true) :
    let S := c.A.toM * rv.cov.toM * c.A.toMᵀ + c.Q.toM
    let e := u.toV - (c.A.toM *ᵥ rv.mean.toV + c.b.toV)
    (terminalLml c rv u W U).maha = e ⬝ᵥ (S⁻¹ *ᵥ e) ∧ (terminalLml c rv u W U).det = S.det ∧
    ∀ G, lmlTerms rv { c := c, u := u, G := G, W := W, L := L, U := U } [] = [terminalLml c rv u W U] := by
  intro S e
  have hW' := (C08.invOk_iff _ _).mp hW
  refine ⟨?_, ?_, fun G => rfl⟩
  · have := C08.maha_spec (c.marg rv) W u hW'
    rw [C08.marg_cov, C08.marg_mean] at this
    exact this
  · have := C08.det_of_luOk _ _ _ hLU
    rw [C08.marg_cov] at this
    exact this.symm

/-- **`to_derivative_spec`.** The observation model built by `to_derivative(i, std)` reads Taylor coefficient `i`:
entry `i·d + a` in the dense (coefficient-major) ravel order, entry `i` of a per-dimension slice; it has zero
offset and noise covariance `diag(std²)`. -/
theorem to_derivative_spec (d i : Nat) (x : Vec n K) :
    (∀ (a : Fin d) (h : i * d + a.val < n),
        ((toDerivativeDense n d i : Mat d n K).mulVec x).get a = x.get ⟨i * d + a.val, h⟩) ∧
    (∀ (h : i < n), ((toDerivativeSlice n i : Mat 1 n K).mulVec x).get 0 = x.get ⟨i, h⟩) ∧
    (∀ (H : Mat k n K) (var : Vec k K), (obsCond H var).A = H ∧ (obsCond H var).b.toV = 0 ∧
        (obsCond H var).Q.toM = Matrix.diagonal var.toV) := by
  refine ⟨fun a h => ?_, fun h => ?_, fun H var => ⟨rfl, rfl, by simp [obsCond]⟩⟩
  · simp only [Mat.mulVec, vget_ofFn, vsum_eq, toDerivativeDense]
    rw [Finset.sum_eq_single ⟨i * d + a.val, h⟩]
    · simp
    · intro b _ hb
      have : b.val ≠ i * d + a.val := fun hh => hb (Fin.ext hh)
      simp [this]
    · simp
  · simp only [Mat.mulVec, vget_ofFn, vsum_eq, toDerivativeSlice]
    rw [Finset.sum_eq_single ⟨i, h⟩]
    · simp
    · intro b _ hb
      have : b.val ≠ i := fun hh => hb (Fin.ext hh)
      simp [this]
    · simp

/-! ## non-vacuity: a concrete rational backward pass with two data and checked certificates -/

section examples
open Pdq

def exTerm : Gauss 2 Rat := { mean := ⟨fun i => if i.val = 0 then 1 else 0⟩, cov := Mat.one }
def exH : Mat 1 2 Rat := toDerivativeSlice 2 0
/-- `S = 1 + 1 = 2`, gain `(1/2, 0)` -/
def exO1 : LmlObs 1 2 Rat :=
  { c := obsCond exH ⟨fun _ => 1⟩, u := ⟨fun _ => 2⟩, G := ⟨fun i _ => if i.val = 0 then 1/2 else 0⟩,
    W := ⟨fun _ _ => 1/2⟩, L := Mat.one, U := ⟨fun _ _ => 2⟩ }
def exBw : PCond 2 2 Rat := { A := Mat.one, b := Vec.zero, Q := Mat.one, tl := Vec.ones, tob := Vec.ones }
/-- predicted covariance `diag(3/2, 2)`, noise `1/2`: `S = 2`, gain `(3/4, 0)` -/
def exO0 : LmlObs 1 2 Rat :=
  { c := obsCond exH ⟨fun _ => 1/2⟩, u := ⟨fun _ => 0⟩, G := ⟨fun i _ => if i.val = 0 then 3/4 else 0⟩,
    W := ⟨fun _ _ => 1/2⟩, L := Mat.one, U := ⟨fun _ _ => 2⟩ }

example : lmlOk exTerm exO1 [(exBw, exO0)] = true := by decide +kernel
example : exTerm.cov.toMᵀ = exTerm.cov.toM ∧ SymInputs exO1 [(exBw, exO0)] := by
  have h1 : (Mat.one : Mat 2 2 Rat).toMᵀ = (Mat.one : Mat 2 2 Rat).toM := by simp
  have h2 : ∀ v : Vec 1 Rat, (Mat.diag v).toMᵀ = (Mat.diag v).toM := by intro v; simp
  refine ⟨h1, h2 _, ?_⟩
  intro x hx
  simp only [List.mem_singleton] at hx
  subst hx
  exact ⟨h1, h2 _⟩
example : (lmlTerms exTerm exO1 [(exBw, exO0)]).map (fun t => (t.maha, t.det)) = [(1/2, 2), (9/8, 2)] := by
  decide +kernel
example : lmlRunning true (3 : Rat) [5, 10] = 6 ∧ lmlRunning false (3 : Rat) [5, 10] = 18 := by decide +kernel

end examples

end Pdq.C12
