import Pdq.Model.Solver
import Pdq.Props.C08
import Pdq.Props.C02
/-!
# C03 — Smoothing posterior equals the exact Rauch–Tung–Striebel posterior

About `Pdq.Model.Solver`: the backward conditional stored by the fixed-interval smoother at a step, read
after removal of the scalings, is the RTS backward kernel; marginalising a smoothed marginal through it is
the RTS update; `evaluate_marginals` / `Smoother.finalize` are the RTS recursion by induction over the
number of steps; the final smoothed marginal equals the filtering marginal when the last step ends at the
final time; the fixed-point smoother's merged conditional marginalises like the composition of the
fixed-interval conditionals it merged.
-/
set_option linter.unusedSectionVars false
open Matrix

namespace Pdq.C03
variable {K : Type} [Field K] {n : Nat}

/-- one RTS backward update through a *plain* backward kernel `(G, m - G m⁻, P - G P⁻ Gᵀ)`:
`mˢ_k = m_k + G (mˢ_{k+1} - m⁻_{k+1})`, `Pˢ_k = P_k + G (Pˢ_{k+1} - P⁻_{k+1}) Gᵀ`. -/
theorem rts_update_plain (c : Cond n n K) (g : Gauss n K) (G : Mat n n K) (s : Gauss n K) :
    let r := c.revertWith g G
    (r.2.marg s).mean.toV = g.mean.toV + G.toM *ᵥ (s.mean.toV - r.1.mean.toV) ∧
    (r.2.marg s).cov.toM = g.cov.toM + G.toM * (s.cov.toM - r.1.cov.toM) * G.toMᵀ := by
  intro r
  constructor
  · simp only [r, Cond.revertWith, Cond.marg, toV_add, toV_sub, toV_mulVec, Matrix.mulVec_sub]
    abel
  · simp only [r, Cond.revertWith, Cond.marg, toM_add, toM_sub, toM_mul, toM_tr, Matrix.mul_sub, Matrix.sub_mul]
    abel

/-- **RTS step of the model.** The backward conditional stored by `fixedInterval.predict` (with its reciprocal
scalings) maps a smoothed marginal `s` at the next node to
`m_k + G (mˢ - m⁻)`, `P_k + G (Pˢ - P⁻) Gᵀ`, where `(m⁻, P⁻)` is the predicted marginal through the
de-preconditioned transition and `G = denGain tr Gt` is the smoothing gain of the de-preconditioned problem
(`G P⁻ = P_k Φᵀ` whenever `Gt` is a certified inner gain, `C08.gain_den`). -/
theorem rts_update (tr : PCond n n K) (st : SolState n K) (Gt : Mat n n K) (s : Gauss n K)
    (hl : ∀ i, tr.tl.toV i ≠ 0) (ho : ∀ i, tr.tob.toV i ≠ 0) :
    let p := Strategy.fixedInterval.predict tr st Gt
    let G := C08.denGain tr Gt
    let pred := tr.den.marg st.u
    (p.bw.marg s).mean.toV = st.u.mean.toV + G.toM *ᵥ (s.mean.toV - pred.mean.toV) ∧
    (p.bw.marg s).cov.toM = st.u.cov.toM + G.toM * (s.cov.toM - pred.cov.toM) * G.toMᵀ := by
  intro p G pred
  obtain ⟨hm, hc⟩ := C08.marg_den p.bw s
  have hbw : p.bw.den = (tr.den.revertWith st.u G).2 := by
    obtain ⟨h1, h2, h3⟩ := C08.revert_den tr st.u Gt hl ho
    exact C08.Cond.ext'' h1 h2 h3
  have := rts_update_plain tr.den st.u G s
  rw [hm, hc, hbw]
  exact this

/-- the RTS recursion on Mathlib data, written independently: `steps` = list of
`(filter mean, filter cov, gain, predicted mean, predicted cov)` from the last step to the first -/
def rtsRec (m : Fin n → K) (P : Matrix (Fin n) (Fin n) K) :
    List ((Fin n → K) × Matrix (Fin n) (Fin n) K × Matrix (Fin n) (Fin n) K × (Fin n → K) × Matrix (Fin n) (Fin n) K)
      → List ((Fin n → K) × Matrix (Fin n) (Fin n) K)
  | [] => [(m, P)]
  | (mk, Pk, G, mp, Pp) :: rest =>
    (m, P) :: rtsRec (mk + G *ᵥ (m - mp)) (Pk + G * (P - Pp) * Gᵀ) rest

/-- data of one forward step as stored by the fixed-interval smoother -/
structure FwdStep (n : Nat) (K : Type) [Field K] where
  tr : PCond n n K
  st : SolState n K       -- filter state *before* the step
  Gt : Mat n n K
  hl : ∀ i, tr.tl.toV i ≠ 0
  ho : ∀ i, tr.tob.toV i ≠ 0

def FwdStep.bw (f : FwdStep n K) : PCond n n K := (Strategy.fixedInterval.predict f.tr f.st f.Gt).bw
def FwdStep.rts (f : FwdStep n K) :
    (Fin n → K) × Matrix (Fin n) (Fin n) K × Matrix (Fin n) (Fin n) K × (Fin n → K) × Matrix (Fin n) (Fin n) K :=
  (f.st.u.mean.toV, f.st.u.cov.toM, (C08.denGain f.tr f.Gt).toM, (f.tr.den.marg f.st.u).mean.toV, (f.tr.den.marg f.st.u).cov.toM)

/-- **C03, whole runs.** By induction over the steps (listed from the last to the first):
`evaluate_marginals` started from any terminal marginal and run through the stored backward conditionals
is the RTS recursion. -/
theorem rts_marginals (term : Gauss n K) (steps : List (FwdStep n K)) :
    (evalMarginals term (steps.map FwdStep.bw)).map (fun g => (g.mean.toV, g.cov.toM))
      = rtsRec term.mean.toV term.cov.toM (steps.map FwdStep.rts) := by
  induction steps generalizing term with
  | nil => rfl
  | cons f rest ih =>
    simp only [List.map_cons, evalMarginals, rtsRec]
    congr 1
    obtain ⟨h1, h2⟩ := rts_update f.tr f.st f.Gt term f.hl f.ho
    rw [ih]
    simp only [FwdStep.bw, FwdStep.rts]
    rw [h1, h2]

/-- marginalising through the identity conditional does nothing -/
theorem identity_marg (g : Gauss n K) :
    ((PCond.identity n : PCond n n K).marg g).mean.toV = g.mean.toV ∧
    ((PCond.identity n : PCond n n K).marg g).cov.toM = g.cov.toM := by
  constructor <;> simp [PCond.identity, PCond.marg]

/-- **terminal marginal = filtering marginal.** When the run ends exactly at the final time (fixed grids, exact
hits of `t1`) the backward pass is seeded with the state *at* `t1`, and the first smoothed marginal returned
(the one at the final time) is the calibrated filtering marginal there. -/
theorem terminal_eq_filter (s : Strategy) (hs : s ≠ .filter) (scale : K) (last : SolState n K)
    (bws : List (PCond n n K)) :
    ∃ g rest, smootherFinalize scale (s.atT1 last) bws = g :: rest ∧
      g.mean.toV = last.u.mean.toV ∧ g.cov.toM = (scale ^ 2) • last.u.cov.toM := by
  have hat : s.atT1 last = { u := last.u, bw := PCond.identity n } := by
    cases s <;> simp_all [Strategy.atT1]
  cases bws with
  | nil =>
    refine ⟨_, [], rfl, ?_, ?_⟩
    · rw [hat]; simp [PCond.rescaleNoise, PCond.identity, PCond.marg, Gauss.rescale]
    · rw [hat]; simp [PCond.rescaleNoise, PCond.identity, PCond.marg, Gauss.rescale, pow_two]
  | cons b bs =>
    refine ⟨_, _, rfl, ?_, ?_⟩
    · rw [hat]; simp [PCond.rescaleNoise, PCond.identity, PCond.marg, Gauss.rescale]
    · rw [hat]; simp [PCond.rescaleNoise, PCond.identity, PCond.marg, Gauss.rescale, pow_two]

/-- **fixed-point vs fixed-interval.** The conditional carried by the fixed-point smoother after a step
(`bw0.merge(cond)`) marginalises like the composition of the previously carried conditional with the
fixed-interval conditional of that step; by induction the merged conditional between two checkpoints is the
composition of all fixed-interval conditionals in between, hence equal smoothed marginals at checkpoints. -/
theorem fixedpoint_eq_fixedinterval (tr : PCond n n K) (st : SolState n K) (Gt : Mat n n K) (s : Gauss n K) :
    let pfp := Strategy.fixedPoint.predict tr st Gt
    let pfi := Strategy.fixedInterval.predict tr st Gt
    (pfp.bw.marg s).mean.toV = (st.bw.marg (pfi.bw.marg s)).mean.toV ∧
    (pfp.bw.marg s).cov.toM = (st.bw.marg (pfi.bw.marg s)).cov.toM := by
  intro pfp pfi
  exact C08.pmarg_pmerge st.bw pfi.bw s

/-- rescaling commutes with the backward marginalisation: calibrated smoothed covariances are the
unit-scale ones times `scale²` -/
theorem rescale_marg (c : PCond n n K) (g : Gauss n K) (f : K) :
    ((c.rescaleNoise f).marg (g.rescale f)).mean.toV = (c.marg g).mean.toV ∧
    ((c.rescaleNoise f).marg (g.rescale f)).cov.toM = (f ^ 2) • (c.marg g).cov.toM := by
  constructor
  · simp [PCond.rescaleNoise, PCond.marg, Gauss.rescale]
  · simp [PCond.rescaleNoise, PCond.marg, Gauss.rescale, pow_two, Matrix.mul_add, Matrix.add_mul, Matrix.mul_smul,
      Matrix.smul_mul, smul_add, Matrix.mul_assoc]

end Pdq.C03
