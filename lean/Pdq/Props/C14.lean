import Pdq.Model.Factor
import Pdq.Lemmas.Factor
import Pdq.Props.C04
import Mathlib.Algebra.BigOperators.Field
/-!
# C14 — State-space factorisations agree wherever theory says they must

About `Pdq.Model.Factor` / `Pdq.Model.Solver` / `Pdq.Model.Iwp`.  An isotropic state is `d` slices sharing one
covariance, a block-diagonal state is `d` slices with their own covariances, a dense state is one slice of size
`(q+1)·d`; `embedState` is the dense state a family of slices represents (coefficient-major, `C ⊗ I_d` when the
covariances coincide).

* `embed_step`, `embed_run`: **for every strategy** the dense solver step / run on embedded data is the embedding of
  the sliced step / run, whenever the dense linearisation at an embedded mean is the embedding of the slice
  linearisations; certificates transfer (`embed_gain_cert`);
* `iwp_dense_is_embed`: the dense IWP transition *is* the embedding of the one-dimensional transitions
  (`kron(A, I_d)`, `kron(Q, Λ²)`), `ts0_dense_is_embed`: the dense TS0 linearisation is the embedding of the slice
  linearisations ⇒ `ts0_kron_invariant` (+ `iso_cov_shared`: the slices keep sharing one covariance);
* `dense_iso_all_modes_*`: the dense whitened residual energy is the sum of the slice energies and the sizes agree ⇒
  equal MLE terms and equal dynamic scales, and the dynamic step commutes with the embedding;
* `bd_mle_split`: the per-dimension block-diagonal scales² average to the dense / isotropic scale²;
* `bd_ts1_decoupled`: for a Jacobian that is diagonal along `d` the dense TS1 linearisation is the embedding of the
  block-diagonal ones; `iso_ts1_scalar_jac`: for a Jacobian `a_i·I_d` the isotropic reduction (trace / d) equals the
  diagonal one, hence isotropic TS1 = dense TS1.
-/
set_option linter.unusedSectionVars false
set_option linter.unusedSimpArgs false
open Matrix

namespace Pdq.C14
open Pdq.FactorL Pdq.CalibL
variable {K : Type} [Field K] {k n d : Nat}

/-! ## the generic commutation theorem -/

/-- **one step.** If the dense linearisation at every embedded mean is the embedding of the joint slice
linearisation, then — for every strategy, transition family, state family and family of gains — the dense solver step
from the embedded state with the embedded transition and gains is the embedding of the sliced step. -/
theorem embed_step (s : Strategy) (trs : Fin d → PCond n n K)
    (lins : (Fin d → Vec n K) → Fin d → Cond k n K) (LIN : Vec (n * d) K → Cond (k * d) (n * d) K)
    (hLIN : ∀ ms, LIN (embedVec ms) = embedCond (lins ms))
    (sts : Fin d → SolState n K) (Gts : Fin d → Mat n n K) (Gus : Fin d → Mat n k K) :
    Solver.step s (embedPCond trs) LIN (embedState sts) (embedMat Gts) (embedMat Gus)
      = embedState (Factor.stepSlices s trs lins sts Gts Gus) := by
  simp only [Solver.step, Factor.stepSlices]
  rw [embed_predict]
  simp only [embedState, embedGauss, SolState.update]
  rw [hLIN]
  have := embed_bayesZero (lins fun a => (s.predict (trs a) (sts a) (Gts a)).u.mean)
    (fun a => (s.predict (trs a) (sts a) (Gts a)).u) Gus
  simp only [embedGauss] at this
  rw [this]

/-- a sliced step is `Solver.step` on every slice with the joint linearisation frozen -/
theorem stepSlices_eq (s : Strategy) (trs : Fin d → PCond n n K)
    (lins : (Fin d → Vec n K) → Fin d → Cond k n K)
    (sts : Fin d → SolState n K) (Gts : Fin d → Mat n n K) (Gus : Fin d → Mat n k K) (a : Fin d) :
    Factor.stepSlices s trs lins sts Gts Gus a
      = Solver.step s (trs a) (fun _ => lins (fun b => (s.predict (trs b) (sts b) (Gts b)).u.mean) a) (sts a)
          (Gts a) (Gus a) := rfl

/-- certificates transfer: slice gains certified for the slice problems give a certified dense gain -/
theorem embed_gain_cert (cs : Fin d → Cond k n K) (gs : Fin d → Gauss n K) (Gs : Fin d → Mat n k K)
    (h : ∀ a, (Gs a).toM * ((cs a).marg (gs a)).cov.toM = ((cs a).cross (gs a)).toM) :
    (embedMat Gs).toM * ((embedCond cs).marg (embedGauss gs)).cov.toM
      = ((embedCond cs).cross (embedGauss gs)).toM := by
  rw [embed_cond_marg]
  simp only [embedGauss, Cond.cross, embedCond, embedMat_tr, embedMat_mul, toM_embedMat, blk_mul]
  congr 1
  funext a
  have := h a
  simpa [Cond.cross] using this

/-- the dense whitened residual energy is the sum of the slice energies -/
theorem embed_mleTerm (s : Strategy) (trs : Fin d → PCond n n K)
    (lins : (Fin d → Vec n K) → Fin d → Cond k n K) (LIN : Vec (n * d) K → Cond (k * d) (n * d) K)
    (hLIN : ∀ ms, LIN (embedVec ms) = embedCond (lins ms))
    (sts : Fin d → SolState n K) (Gts : Fin d → Mat n n K) (Ws : Fin d → Mat k k K) :
    Solver.mleTerm s (embedPCond trs) LIN (embedState sts) (embedMat Gts) (embedMat Ws)
      = ∑ a, Factor.mleEnergies s trs lins sts Gts Ws a := by
  simp only [Solver.mleTerm, Factor.mleEnergies]
  rw [embed_predict]
  simp only [embedState, embedGauss]
  rw [hLIN]
  have := embed_whitenedSq (lins fun a => (s.predict (trs a) (sts a) (Gts a)).u.mean)
    (fun a => (s.predict (trs a) (sts a) (Gts a)).u) Ws
  simp only [embedGauss] at this
  rw [this]

/-- **whole runs.** By induction over the steps: all states visited by the dense run are the embeddings of the states
visited by the sliced run. -/
theorem embed_run (s : Strategy) (sts : Fin d → SolState n K)
    (steps : List (FacStep n k d K × (Vec (n * d) K → Cond (k * d) (n * d) K)))
    (size : K) (hLIN : ∀ p ∈ steps, ∀ ms, p.2 (embedVec ms) = embedCond (p.1.lins ms)) :
    Calib.states s (embedState sts) (steps.map fun p => p.1.toDense p.2 size)
      = (Factor.runSlices s sts (steps.map (·.1))).map embedState := by
  induction steps generalizing sts with
  | nil => rfl
  | cons p rest ih =>
    have hp := hLIN p (List.mem_cons_self ..)
    have hr : ∀ p' ∈ rest, ∀ ms, p'.2 (embedVec ms) = embedCond (p'.1.lins ms) :=
      fun p' h => hLIN p' (List.mem_cons_of_mem _ h)
    simp only [List.map_cons, Calib.states, Factor.runSlices, FacStep.toDense]
    rw [embed_step s p.1.trs p.1.lins p.2 hp]
    congr 1
    exact ih _ hr

/-- … and the dense squared whitened-RMS terms are the summed slice energies over the dense size -/
theorem embed_run_terms (s : Strategy) (sts : Fin d → SolState n K)
    (steps : List (FacStep n k d K × (Vec (n * d) K → Cond (k * d) (n * d) K)))
    (size : K) (hLIN : ∀ p ∈ steps, ∀ ms, p.2 (embedVec ms) = embedCond (p.1.lins ms)) :
    Calib.terms s (embedState sts) (steps.map fun p => p.1.toDense p.2 size)
      = (Factor.runEnergies s sts (steps.map (·.1))).map (fun e => Calib.rms2 size (∑ a, e a)) := by
  induction steps generalizing sts with
  | nil => rfl
  | cons p rest ih =>
    have hp := hLIN p (List.mem_cons_self ..)
    have hr : ∀ p' ∈ rest, ∀ ms, p'.2 (embedVec ms) = embedCond (p'.1.lins ms) :=
      fun p' h => hLIN p' (List.mem_cons_of_mem _ h)
    simp only [List.map_cons, Calib.terms, Factor.runEnergies, FacStep.toDense]
    rw [embed_step s p.1.trs p.1.lins p.2 hp, embed_mleTerm s p.1.trs p.1.lins p.2 hp]
    congr 1
    exact ih _ hr

/-! ## the shipped prior and the TS0 / TS1 linearisations have this structure -/

/-- `kron(A_1d, I_d)`, `kron(Q_1d, Λ)`: the dense IWP transition is the embedding of the one-dimensional transitions
with per-dimension squared scale `s2·λ_a²` -/
theorem iwp_dense_is_embed (q d : Nat) (h s2 : K) (lam2 : Vec d K) :
    Iwp.transitionDense q d h s2 lam2 = embedPCond (fun a : Fin d => Iwp.transition1 q h (s2 * lam2.get a)) := by
  apply PCond.ext''
  · funext x y
    have hx := mod_lt_of_fin x
    have h1 : x.val / d < q + 1 := (ix (q + 1) d x).1.isLt
    have h2 : y.val / d < q + 1 := (ix (q + 1) d y).1.isLt
    simp only [Iwp.transitionDense, embedPCond, embedMat, Iwp.transition1, toM_ofFn, Matrix.of_apply, dif_pos hx,
      dif_pos h1, dif_pos h2, Mat.getNz]
  · funext x
    have hx := mod_lt_of_fin x
    have h1 : x.val / d < q + 1 := (ix (q + 1) d x).1.isLt
    simp [Iwp.transitionDense, embedPCond, embedVec, Iwp.transition1, Vec.getNz, dif_pos hx, dif_pos h1, Vec.zero,
      Vec.toV]
  · funext x y
    have hx := mod_lt_of_fin x
    have h1 : x.val / d < q + 1 := (ix (q + 1) d x).1.isLt
    have h2 : y.val / d < q + 1 := (ix (q + 1) d y).1.isLt
    simp only [Iwp.transitionDense, embedPCond, embedMat, Iwp.transition1, toM_ofFn, Matrix.of_apply, dif_pos hx,
      dif_pos h1, dif_pos h2, Mat.getNz, Mat.smul, get_ofFn]
    split <;> ring
  · funext x
    have hx := mod_lt_of_fin x
    have h1 : x.val / d < q + 1 := (ix (q + 1) d x).1.isLt
    simp only [Iwp.transitionDense, embedPCond, embedVec, Iwp.transition1, toV_ofFn, dif_pos hx, dif_pos h1, Vec.getNz]
  · funext x
    have hx := mod_lt_of_fin x
    have h1 : x.val / d < q + 1 := (ix (q + 1) d x).1.isLt
    simp only [Iwp.transitionDense, embedPCond, embedVec, Iwp.transition1, toV_ofFn, dif_pos hx, dif_pos h1, Vec.getNz]

/-- **bd_ts1_decoupled (linearisation).** If the Jacobian is diagonal along `d` (`∂f_a/∂x_{i,b} = 0` for `a ≠ b`:
componentwise-decoupled field), the dense first-order linearisation is the embedding of the block-diagonal slice
linearisations (which keep exactly `∂f_a/∂x_{i,a}`).  With `J = 0` this is TS0 for an arbitrary field. -/
theorem linDense_is_embed (n d Kc : Nat) (fx : Fin d → K) (J : Fin d → Fin n → Fin d → K)
    (m : Fin n → Fin d → K) (damp2 : K) (hJ : ∀ a i b, a ≠ b → J a i b = 0) :
    Factor.linDense n d Kc fx J m damp2
      = embedCond (fun a : Fin d => Factor.linSlice n Kc (fx a) (Factor.jacDiag J a) (fun i => m i a) damp2) := by
  apply C08.Cond.ext''
  · funext r x
    have hr := mod_lt_of_fin r
    have hx := mod_lt_of_fin x
    have h1 : x.val / d < n := (ix n d x).1.isLt
    have h0 : r.val / d < 1 := (ix 1 d r).1.isLt
    simp only [Factor.linDense, embedCond, embedMat, Factor.linSlice, Factor.jacDiag, toM_ofFn, Matrix.of_apply,
      dif_pos hr, dif_pos hx, dif_pos h1, dif_pos h0, Mat.getNz, get_ofFn]
    by_cases hab : r.val % d = x.val % d
    · simp only [hab, and_true, if_true]
    · have : (⟨r.val % d, hr⟩ : Fin d) ≠ ⟨x.val % d, hx⟩ := fun h => hab (Fin.ext_iff.mp h)
      simp only [hab, and_false, if_false, hJ _ _ _ this, sub_zero]
  · funext r
    have hr := mod_lt_of_fin r
    have h0 : r.val / d < 1 := (ix 1 d r).1.isLt
    simp only [Factor.linDense, embedCond, embedVec, Factor.linSlice, Factor.jacDiag, toV_ofFn, dif_pos hr, dif_pos h0,
      Vec.getNz, vget_ofFn, vsum_eq]
    congr 1
    apply Finset.sum_congr rfl
    intro i _
    rw [Finset.sum_eq_single (⟨r.val % d, hr⟩ : Fin d)]
    · intro b _ hb
      rw [hJ _ _ _ (Ne.symm hb), zero_mul]
    · intro h; exact absurd (Finset.mem_univ _) h
  · funext r r'
    have hr := mod_lt_of_fin r
    have h0 : r.val / d < 1 := (ix 1 d r).1.isLt
    have h0' : r'.val / d < 1 := (ix 1 d r').1.isLt
    simp only [Factor.linDense, embedCond, embedMat, Factor.linSlice, toM_ofFn, Matrix.of_apply, dif_pos hr,
      dif_pos h0, dif_pos h0', Mat.getNz, get_ofFn]

/-- TS0: zero Jacobian, any field -/
theorem ts0_dense_is_embed (n d Kc : Nat) (fx : Fin d → K) (m : Fin n → Fin d → K) (damp2 : K) :
    Factor.linDense n d Kc fx (fun _ _ _ => 0) m damp2
      = embedCond (fun a : Fin d => Factor.linSlice n Kc (fx a) (fun _ => 0) (fun i => m i a) damp2) :=
  linDense_is_embed n d Kc fx (fun _ _ _ => 0) m damp2 (fun _ _ _ _ => rfl)

/-- the coefficient view of an embedded mean is the family of slice means -/
def coeffs (x : Vec (n * d) K) : Fin n → Fin d → K := fun i a => x.get (finProdFinEquiv (i, a))

theorem coeffs_embed (ms : Fin d → Vec n K) : coeffs (embedVec ms) = fun i a => (ms a).get i := by
  funext i a
  have h := congrFun (toV_embedVec ms) (finProdFinEquiv (i, a))
  simp only [Vec.toV, blkV, ix, Equiv.symm_apply_apply] at h
  exact h

/-- **ts0_kron_invariant, one step.** TS0 (`H` selects coefficient `K` in every dimension, `b = −f(mean, t)` for an
*arbitrary* field `f` of the whole mean, `R = damp²·I`), squared output scale `s2` and per-dimension base scales
`λ_a` (default: all one): the dense step on the embedded state `(M, blockdiag_a C_a)` — `(M, C ⊗ I_d)` when the
slices share `C` — with `Iwp.transitionDense` is the embedding of the isotropic / block-diagonal slice steps with
`Iwp.transition1`, for every strategy; so the state stays of that form and its per-dimension blocks are the slice
states: means and unit-scale covariances (uncalibrated mode, state part of the MLE mode). -/
theorem ts0_kron_invariant (s : Strategy) (q Kc : Nat) (h s2 damp2 : K) (lam2 : Vec d K)
    (f : (Fin (q + 1) → Fin d → K) → Fin d → K)
    (sts : Fin d → SolState (q + 1) K) (Gts : Fin d → Mat (q + 1) (q + 1) K) (Gus : Fin d → Mat (q + 1) 1 K) :
    Solver.step s (Iwp.transitionDense q d h s2 lam2)
        (fun x => Factor.linDense (q + 1) d Kc (f (coeffs x)) (fun _ _ _ => 0) (coeffs x) damp2)
        (embedState sts) (embedMat Gts) (embedMat Gus)
      = embedState (Factor.stepSlices s (fun a => Iwp.transition1 q h (s2 * lam2.get a))
          (fun ms a => Factor.linSlice (q + 1) Kc (f (fun i b => (ms b).get i) a) (fun _ => 0) (ms a).get damp2)
          sts Gts Gus) := by
  rw [iwp_dense_is_embed]
  apply embed_step
  intro ms
  rw [coeffs_embed, ts0_dense_is_embed]

/-- the data of one TS0 step on the shipped prior -/
structure Ts0Step (q d : Nat) (K : Type) where
  h : K
  f : (Fin (q + 1) → Fin d → K) → Fin d → K
  Gts : Fin d → Mat (q + 1) (q + 1) K
  Gus : Fin d → Mat (q + 1) 1 K
  Ws : Fin d → Mat 1 1 K

def Ts0Step.sliced {q d : Nat} (t : Ts0Step q d K) (Kc : Nat) (s2 damp2 : K) (lam2 : Vec d K) : FacStep (q + 1) 1 d K :=
  { trs := fun a => Iwp.transition1 q t.h (s2 * lam2.get a)
    lins := fun ms a => Factor.linSlice (q + 1) Kc (t.f (fun i b => (ms b).get i) a) (fun _ => 0) (ms a).get damp2
    Gts := t.Gts, Gus := t.Gus, Ws := t.Ws }

def Ts0Step.dense {q d : Nat} (t : Ts0Step q d K) (Kc : Nat) (s2 damp2 size : K) (lam2 : Vec d K) :
    CalStep ((q + 1) * d) (1 * d) K :=
  { tr := Iwp.transitionDense q d t.h s2 lam2
    lin := fun x => Factor.linDense (q + 1) d Kc (t.f (coeffs x)) (fun _ _ _ => 0) (coeffs x) damp2
    Gt := embedMat t.Gts, Gu := embedMat t.Gus, W := embedMat t.Ws, size := size }

/-- **ts0_kron_invariant, whole runs.** For every number of steps, step sizes, fields and strategy: all states
visited by the dense TS0 run from an embedded state are the embeddings of the states visited by the sliced
(isotropic / block-diagonal) TS0 run. -/
theorem ts0_kron_invariant_run (s : Strategy) (q Kc : Nat) (s2 damp2 size : K) (lam2 : Vec d K)
    (sts : Fin d → SolState (q + 1) K) (steps : List (Ts0Step q d K)) :
    Calib.states s (embedState sts) (steps.map fun t => t.dense Kc s2 damp2 size lam2)
      = (Factor.runSlices s sts (steps.map fun t => t.sliced Kc s2 damp2 lam2)).map embedState := by
  have h := embed_run s sts
    (steps.map fun t => (t.sliced Kc s2 damp2 lam2,
      fun x => Factor.linDense (q + 1) d Kc (t.f (coeffs x)) (fun _ _ _ => 0) (coeffs x) damp2)) size
    (by
      intro p hp ms
      simp only [List.mem_map] at hp
      obtain ⟨t, _, rfl⟩ := hp
      simp only [Ts0Step.sliced]
      rw [coeffs_embed, ts0_dense_is_embed])
  simp only [List.map_map, Function.comp_def] at h
  rw [← h]
  congr 1
  apply List.map_congr_left
  intro t _
  simp only [FacStep.toDense, Ts0Step.dense, Ts0Step.sliced]
  rw [iwp_dense_is_embed]

/-- the posterior covariance of a step does not depend on the mean or the offset of the linearisation -/
theorem step_cov_indep (s : Strategy) (tr : PCond n n K) (c c' : Cond k n K)
    (st st' : SolState n K) (Gt : Mat n n K) (Gu : Mat n k K)
    (hP : st.u.cov = st'.u.cov) (hA : c.A = c'.A) (hQ : c.Q = c'.Q) :
    (Solver.step s tr (fun _ => c) st Gt Gu).u.cov = (Solver.step s tr (fun _ => c') st' Gt Gu).u.cov := by
  cases s <;>
    simp only [Solver.step, Strategy.predict, SolState.update, Cond.bayesZero, Cond.revertWith, Cond.applyPt,
      Cond.marg, PCond.marg, PCond.revertWith, PCond.inner, PCond.core, hP, hA, hQ]

/-- **the isotropic invariant.** If all slices share the covariance, the transition and the gains, and the slice
linearisations share `H` and `R` (TS0; TS1 with the trace reduction), then after the step all slices still share
one covariance — the dense state stays of the form `(M, C ⊗ I_d)`. -/
theorem iso_cov_shared (s : Strategy) (tr : PCond n n K) (lins : (Fin d → Vec n K) → Fin d → Cond k n K)
    (sts : Fin d → SolState n K) (Gt : Mat n n K) (Gu : Mat n k K)
    (hP : ∀ a b, (sts a).u.cov = (sts b).u.cov)
    (hA : ∀ ms a b, (lins ms a).A = (lins ms b).A) (hQ : ∀ ms a b, (lins ms a).Q = (lins ms b).Q) (a b : Fin d) :
    (Factor.stepSlices s (fun _ => tr) lins sts (fun _ => Gt) (fun _ => Gu) a).u.cov
      = (Factor.stepSlices s (fun _ => tr) lins sts (fun _ => Gt) (fun _ => Gu) b).u.cov := by
  rw [stepSlices_eq, stepSlices_eq]
  exact step_cov_indep s tr _ _ _ _ Gt Gu (hP a b) (hA _ a b) (hQ _ a b)

/-! ## dense = isotropic in every calibration mode -/

/-- the normalisations agree: `mean_flat.size` is `k·d` for both the dense and the isotropic RMS -/
theorem rmsSize_dense_iso (k d : Nat) : Factorisation.dense.rmsSize k d = Factorisation.iso.rmsSize k d := rfl

/-- **dense_iso_all_modes (MLE term).** Same whitened residual energy (the dense energy is the sum of the slice
energies) and same size ⇒ the same squared whitened RMS in every step, hence the same MLE scale. -/
theorem dense_iso_all_modes_mle (s : Strategy) (trs : Fin d → PCond n n K)
    (lins : (Fin d → Vec n K) → Fin d → Cond k n K) (LIN : Vec (n * d) K → Cond (k * d) (n * d) K)
    (hLIN : ∀ ms, LIN (embedVec ms) = embedCond (lins ms))
    (sts : Fin d → SolState n K) (Gts : Fin d → Mat n n K) (Ws : Fin d → Mat k k K) :
    Calib.rms2 ((Factorisation.dense.rmsSize k d : ℕ) : K)
        (Solver.mleTerm s (embedPCond trs) LIN (embedState sts) (embedMat Gts) (embedMat Ws))
      = Calib.rms2 ((Factorisation.iso.rmsSize k d : ℕ) : K) (∑ a, Factor.mleEnergies s trs lins sts Gts Ws a) := by
  rw [embed_mleTerm s trs lins LIN hLIN, rmsSize_dense_iso]

/-- **dense_iso_all_modes (dynamic scale).** The dense local scale² is the isotropic one. -/
theorem dense_iso_all_modes_dynamic_scale (tr1s : Fin d → PCond n n K)
    (lins : (Fin d → Vec n K) → Fin d → Cond k n K) (LIN : Vec (n * d) K → Cond (k * d) (n * d) K)
    (hLIN : ∀ ms, LIN (embedVec ms) = embedCond (lins ms))
    (sts : Fin d → SolState n K) (Ws : Fin d → Mat k k K) :
    Solver.dynamicScale2 (embedPCond tr1s) LIN (embedState sts) (embedMat Ws) ((Factorisation.dense.rmsSize k d : ℕ) : K)
      = Calib.rms2 ((Factorisation.iso.rmsSize k d : ℕ) : K) (∑ a, Factor.dynamicEnergies tr1s lins sts Ws a) := by
  simp only [Solver.dynamicScale2, Solver.dynamicSq, Factor.dynamicEnergies, rmsSize_dense_iso]
  congr 1
  have hm : (embedState sts).u.mean = embedVec (fun a => (sts a).u.mean) := rfl
  rw [hm, embed_applyPt]
  simp only [embedGauss]
  rw [hLIN]
  have := embed_whitenedSq (lins fun a => ((tr1s a).applyPt (sts a).u.mean).mean)
    (fun a => (tr1s a).applyPt (sts a).u.mean) Ws
  simp only [embedGauss] at this
  rw [this]

/-- **dense_iso_all_modes (dynamic step).** With the calibrated transitions being embeddings of each other (same
local scale, `iwp_dense_is_embed`) the dense dynamic step is the embedding of the sliced dynamic step. -/
theorem dense_iso_all_modes_dynamic_step (s : Strategy) (tr1s trSs : Fin d → PCond n n K)
    (lins : (Fin d → Vec n K) → Fin d → Cond k n K) (LIN : Vec (n * d) K → Cond (k * d) (n * d) K)
    (hLIN : ∀ ms, LIN (embedVec ms) = embedCond (lins ms)) (relin : Bool)
    (sts : Fin d → SolState n K) (Gts : Fin d → Mat n n K) (Gus : Fin d → Mat n k K) :
    Solver.stepDynamic s (embedPCond tr1s) (embedPCond trSs) LIN relin (embedState sts) (embedMat Gts) (embedMat Gus)
      = embedState (Factor.stepSlicesDynamic s tr1s trSs lins relin sts Gts Gus) := by
  simp only [Solver.stepDynamic, Factor.stepSlicesDynamic]
  have hm : (embedState sts).u.mean = embedVec (fun a => (sts a).u.mean) := rfl
  rw [hm, embed_applyPt, embed_predict]
  simp only [embedState, embedGauss, SolState.update]
  rw [hLIN, hLIN]
  cases relin
  · simp only [Bool.false_eq_true, if_false]
    have := embed_bayesZero (lins fun a => ((tr1s a).applyPt (sts a).u.mean).mean)
      (fun a => (s.predict (trSs a) (sts a) (Gts a)).u) Gus
    simp only [embedGauss] at this
    rw [this]
  · simp only [if_true]
    have := embed_bayesZero (lins fun a => (s.predict (trSs a) (sts a) (Gts a)).u.mean)
      (fun a => (s.predict (trSs a) (sts a) (Gts a)).u) Gus
    simp only [embedGauss] at this
    rw [this]

/-- **dense_iso_all_modes (dynamic), one full step**: the dense `solver_dynamic.step` on the embedded state returns
the embedding of the isotropic dynamic step and the same local scale². -/
theorem dense_iso_all_modes_dynamic (s : Strategy) (f : FacDynStep n k d K)
    (LIN : Vec (n * d) K → Cond (k * d) (n * d) K) (hLIN : ∀ ms, LIN (embedVec ms) = embedCond (f.lins ms))
    (sts : Fin d → SolState n K) :
    Calib.stepDynamic s (f.toDense LIN ((Factorisation.dense.rmsSize k d : ℕ) : K)) (embedState sts)
      = (embedState (Factor.stepIsoDynamic s f ((Factorisation.iso.rmsSize k d : ℕ) : K) sts).1,
         (Factor.stepIsoDynamic s f ((Factorisation.iso.rmsSize k d : ℕ) : K) sts).2) := by
  simp only [Calib.stepDynamic, Factor.stepIsoDynamic, FacDynStep.toDense]
  rw [dense_iso_all_modes_dynamic_scale (f.trOfs 1) f.lins LIN hLIN sts f.Ws, vsum_eq,
    dense_iso_all_modes_dynamic_step s (f.trOfs 1) _ f.lins LIN hLIN]

/-- **dense_iso_all_modes (dynamic), whole runs**, by induction over the steps -/
theorem dense_iso_all_modes_dynamic_run (s : Strategy) (sts : Fin d → SolState n K)
    (steps : List (FacDynStep n k d K × (Vec (n * d) K → Cond (k * d) (n * d) K)))
    (hLIN : ∀ p ∈ steps, ∀ ms, p.2 (embedVec ms) = embedCond (p.1.lins ms)) :
    Calib.runDynamic s (embedState sts) (steps.map fun p => p.1.toDense p.2 ((Factorisation.dense.rmsSize k d : ℕ) : K))
      = (Factor.runIsoDynamic s ((Factorisation.iso.rmsSize k d : ℕ) : K) sts (steps.map (·.1))).map
          (fun r => (embedState r.1, r.2)) := by
  induction steps generalizing sts with
  | nil => rfl
  | cons p rest ih =>
    have hp := hLIN p (List.mem_cons_self ..)
    have hr : ∀ p' ∈ rest, ∀ ms, p'.2 (embedVec ms) = embedCond (p'.1.lins ms) :=
      fun p' h => hLIN p' (List.mem_cons_of_mem _ h)
    simp only [List.map_cons, Calib.runDynamic, Factor.runIsoDynamic]
    rw [dense_iso_all_modes_dynamic s p.1 p.2 hp]
    congr 1
    exact ih _ hr

/-- **dense_iso_all_modes (MLE), whole runs**: the running squared scale of the dense MLE run is the fold over the
isotropic terms (pooled slice energies over `k·d`), hence the same reported scale with and without correction. -/
theorem dense_iso_all_modes_mle_run (s : Strategy) (sts : Fin d → SolState n K)
    (steps : List (FacStep n k d K × (Vec (n * d) K → Cond (k * d) (n * d) K)))
    (hLIN : ∀ p ∈ steps, ∀ ms, p.2 (embedVec ms) = embedCond (p.1.lins ms)) :
    (Calib.runMle s (embedState sts) 0 0
        (steps.map fun p => p.1.toDense p.2 ((Factorisation.dense.rmsSize k d : ℕ) : K))).2
      = Solver.mleFold 0 0 ((Factor.runEnergies s sts (steps.map (·.1))).map
          (fun e => Calib.rms2 ((Factorisation.iso.rmsSize k d : ℕ) : K) (∑ a, e a))) := by
  rw [C04.runMle_eq_fold, embed_run_terms s sts steps _ hLIN, rmsSize_dense_iso]

/-! ## the block-diagonal MLE scale is the per-dimension split of the same residual energy -/

/-- one step: the per-dimension squared RMS terms (size `k`) average over the `d` dimensions to the isotropic /
dense term (size `k·d`) -/
theorem bd_mle_split_term (e : Fin d → K) (k : Nat) :
    (∑ a, Calib.rms2 ((Factorisation.bd.rmsSize k d : ℕ) : K) (e a)) / (d : K)
      = Calib.rms2 ((Factorisation.iso.rmsSize k d : ℕ) : K) (∑ a, e a) := by
  simp only [Calib.rms2, Factorisation.rmsSize, Nat.cast_mul]
  rw [← Finset.sum_div, div_div]

/-- **bd_mle_split.** Over a whole run with per-step slice energies `E` (the same slice run serves the
block-diagonal and the isotropic model when the covariances are `C ⊗ I`): the block-diagonal per-dimension MLE
scales² average to the dense / isotropic MLE scale². -/
theorem bd_mle_split [CharZero K] (E : List (Fin d → K)) (k : Nat) :
    (∑ a, (Solver.mleFold 0 0 (E.map fun e => Calib.rms2 ((Factorisation.bd.rmsSize k d : ℕ) : K) (e a))).1) / (d : K)
      = (Solver.mleFold 0 0 (E.map fun e => Calib.rms2 ((Factorisation.iso.rmsSize k d : ℕ) : K) (∑ a, e a))).1 := by
  simp only [C04.running_rms, List.length_map]
  rw [← Finset.sum_div]
  have h2 : (E.map fun e => (∑ a, e a) / ((k : K) * (d : K))).sum
      = (E.map fun e => (∑ a, e a) / (k : K)).sum / (d : K) := by
    induction E with
    | nil => simp
    | cons e rest ih => simp only [List.map_cons, List.sum_cons, ih, add_div, div_div]
  have h := FactorL.list_sum_finset_sum E (fun x => x / ((k : ℕ) : K)) (fun x y => add_div x y _) (zero_div _)
  simp only [Calib.rms2, Factorisation.rmsSize, Nat.cast_mul]
  rw [h, h2]
  ring

/-! ## first-order linearisation: decoupled problems and scalar Jacobians -/

/-- **bd_ts1_decoupled.** For a componentwise-decoupled field (Jacobian diagonal along `d`) the dense TS1 step on
the embedded state is the embedding of the block-diagonal TS1 slice steps — i.e. of `d` independent solves, each with
its own scalar field; every strategy, any per-dimension base scales. -/
theorem bd_ts1_decoupled (s : Strategy) (q Kc : Nat) (h s2 damp2 : K) (lam2 : Vec d K)
    (f : (Fin (q + 1) → Fin d → K) → Fin d → K)
    (J : (Fin (q + 1) → Fin d → K) → Fin d → Fin (q + 1) → Fin d → K)
    (hJ : ∀ m a i b, a ≠ b → J m a i b = 0)
    (sts : Fin d → SolState (q + 1) K) (Gts : Fin d → Mat (q + 1) (q + 1) K) (Gus : Fin d → Mat (q + 1) 1 K) :
    Solver.step s (Iwp.transitionDense q d h s2 lam2)
        (fun x => Factor.linDense (q + 1) d Kc (f (coeffs x)) (J (coeffs x)) (coeffs x) damp2)
        (embedState sts) (embedMat Gts) (embedMat Gus)
      = embedState (Factor.stepSlices s (fun a => Iwp.transition1 q h (s2 * lam2.get a))
          (fun ms a => Factor.linSlice (q + 1) Kc (f (fun i b => (ms b).get i) a)
            (Factor.jacDiag (J (fun i b => (ms b).get i)) a) (ms a).get damp2)
          sts Gts Gus) := by
  rw [iwp_dense_is_embed]
  apply embed_step
  intro ms
  rw [coeffs_embed, linDense_is_embed _ _ _ _ _ _ _ (hJ _)]

/-- the isotropic reduction of a Jacobian `a_i · I_d` is `a_i`: trace / d -/
theorem jacTrace_scalar [CharZero K] (hd : d ≠ 0) (jj : Fin n → K) (J : Fin d → Fin n → Fin d → K)
    (hJ : ∀ a i b, J a i b = if a = b then jj i else 0) (a : Fin d) :
    Factor.jacTrace J = Factor.jacDiag J a := by
  funext i
  simp only [Factor.jacTrace, Factor.jacDiag, vsum_eq, hJ, if_true, Finset.sum_const, Finset.card_univ,
    Fintype.card_fin, nsmul_eq_mul]
  have : ((d : ℕ) : K) ≠ 0 := Nat.cast_ne_zero.mpr hd
  field_simp

/-- **iso_ts1_scalar_jac.** If the Jacobian is `a_i·I_d` (e.g. `f = a·u + g(t)` componentwise with the same `a`), the
isotropic TS1 step (trace / d for every dimension) is the dense TS1 step on `(M, C ⊗ I_d)`. -/
theorem iso_ts1_scalar_jac [CharZero K] (hd : d ≠ 0) (s : Strategy) (q Kc : Nat) (h s2 damp2 lam2 : K)
    (f : (Fin (q + 1) → Fin d → K) → Fin d → K)
    (jj : (Fin (q + 1) → Fin d → K) → Fin (q + 1) → K)
    (J : (Fin (q + 1) → Fin d → K) → Fin d → Fin (q + 1) → Fin d → K)
    (hJ : ∀ m a i b, J m a i b = if a = b then jj m i else 0)
    (sts : Fin d → SolState (q + 1) K) (Gts : Fin d → Mat (q + 1) (q + 1) K) (Gus : Fin d → Mat (q + 1) 1 K) :
    Solver.step s (Iwp.transitionDense q d h s2 ⟨fun _ => lam2⟩)
        (fun x => Factor.linDense (q + 1) d Kc (f (coeffs x)) (J (coeffs x)) (coeffs x) damp2)
        (embedState sts) (embedMat Gts) (embedMat Gus)
      = embedState (Factor.stepSlices s (fun _ => Iwp.transition1 q h (s2 * lam2))
          (fun ms a => Factor.linSlice (q + 1) Kc (f (fun i b => (ms b).get i) a)
            (Factor.jacTrace (J (fun i b => (ms b).get i))) (ms a).get damp2)
          sts Gts Gus) := by
  have hJ0 : ∀ m a i b, a ≠ b → J m a i b = 0 := fun m a i b hab => by rw [hJ, if_neg hab]
  rw [bd_ts1_decoupled s q Kc h s2 damp2 ⟨fun _ => lam2⟩ f J hJ0]
  congr 2
  funext ms a
  rw [jacTrace_scalar hd (jj _) _ (hJ _) a]

/-! ## non-vacuity -/
section examples
/-- a concrete dense IWP transition (`q = 1`, `d = 2`, `h = 1/2`, base scales² `(1, 4)`) equals the embedding -/
example : (Iwp.transitionDense 1 2 (1/2 : Rat) 3 ⟨fun a => if a.val = 0 then 1 else 4⟩).Q.beq
    (embedPCond (fun a : Fin 2 => Iwp.transition1 1 (1/2 : Rat) (3 * (if a.val = 0 then 1 else 4)))).Q = true := by
  decide +kernel
/-- a concrete TS0 linearisation, `d = 2`, `q + 1 = 2`: dense rows select `x'` in each dimension -/
example : (Factor.linDense 2 2 1 (fun a => if a.val = 0 then (3 : Rat) else 5) (fun _ _ _ => 0) (fun _ _ => 7) (1/4)).A.beq
    (embedCond (fun a : Fin 2 => Factor.linSlice 2 1 (if a.val = 0 then (3 : Rat) else 5) (fun _ => 0) (fun _ => 7) (1/4))).A
      = true := by decide +kernel
/-- a decoupled Jacobian (`hJ` of `bd_ts1_decoupled`) and a scalar one (`hJ` of `iso_ts1_scalar_jac`) -/
example : ∀ a i b : Fin 2, a ≠ b → (fun (a : Fin 2) (_ : Fin 2) (b : Fin 2) => if a = b then (2 : Rat) else 0) a i b = 0 := by
  decide
end examples

end Pdq.C14
