import Pdq.Props.C03
/-!
# C03 — whole runs of the fixed-point smoother

`solve_adaptive_save_at` smooths with the *fixed-point* smoother: between two checkpoints it carries one merged
backward conditional instead of storing one conditional per step.  This file proves, for runs of every length,
that the two smoothers visit the same filtering marginals, that the conditional carried by the fixed-point
smoother after `k` steps is the left fold of `merge` over the `k` conditionals the fixed-interval smoother stores
(`fp_run`), that marginalising through such a fold is marginalising through the conditionals one after the other,
last step first (`merge_chain`), and hence that the smoothed marginal reported at the previous checkpoint is the
last marginal of `evaluate_marginals` over the stored conditionals (`fixedpoint_checkpoint_eq_rts`), which
`C03.rts_marginals` identifies with the Rauch–Tung–Striebel recursion.
-/
set_option linter.unusedSectionVars false
open Matrix

namespace Pdq.C03
variable {K : Type} [Field K] {n k : Nat}

/-- the state after a run of `solver.step` over `steps` (time order) -/
def endState (s : Strategy) (st : SolState n K) (steps : List (C02.StepData n k K)) : SolState n K :=
  steps.foldl (fun st d => Solver.step s d.tr d.lin st d.Gt d.Gu) st

/-- the backward conditionals stored by the fixed-interval smoother along the run, in time order -/
def fiBws (st : SolState n K) : List (C02.StepData n k K) → List (PCond n n K)
  | [] => []
  | d :: rest =>
    let st' := Solver.step .fixedInterval d.tr d.lin st d.Gt d.Gu
    st'.bw :: fiBws st' rest

/-- one step: same marginal, carried conditional = previous one merged with the step's own conditional -/
theorem fp_step (tr : PCond n n K) (lin : Vec n K → Cond k n K) (st st' : SolState n K) (Gt : Mat n n K)
    (Gu : Mat n k K) (h : st.u = st'.u) :
    (Solver.step .fixedPoint tr lin st Gt Gu).u = (Solver.step .fixedInterval tr lin st' Gt Gu).u ∧
    (Solver.step .fixedPoint tr lin st Gt Gu).bw
      = st.bw.merge (Solver.step .fixedInterval tr lin st' Gt Gu).bw := by
  simp [Solver.step, Strategy.predict, SolState.update, h]

/-- **fixed-point run.** For every number of steps: the fixed-point and the fixed-interval smoother started from
states with the same marginal end in the same marginal, and the conditional carried by the fixed-point smoother
is the fold of `merge` over the fixed-interval smoother's stored conditionals. -/
theorem fp_run (st st' : SolState n K) (h : st.u = st'.u) (steps : List (C02.StepData n k K)) :
    (endState .fixedPoint st steps).u = (endState .fixedInterval st' steps).u ∧
    (endState .fixedPoint st steps).bw = (fiBws st' steps).foldl PCond.merge st.bw := by
  induction steps generalizing st st' with
  | nil => exact ⟨h, rfl⟩
  | cons d rest ih =>
    obtain ⟨hu, hb⟩ := fp_step d.tr d.lin st st' d.Gt d.Gu h
    obtain ⟨h1, h2⟩ := ih _ _ hu
    refine ⟨by simpa [endState] using h1, ?_⟩
    simp only [endState, List.foldl_cons, fiBws] at h2 ⊢
    rw [h2, hb]

/-- marginalising through a merged conditional, as an equation between Gaussians -/
theorem marg_merge (c2 c1 : PCond n n K) (g : Gauss n K) : (c2.merge c1).marg g = c2.marg (c1.marg g) := by
  obtain ⟨h1, h2⟩ := C08.pmarg_pmerge c2 c1 g
  exact C08.Gauss.ext'' h1 h2

/-- **merged conditionals marginalise one after the other** (last step first), for every number of merges -/
theorem merge_chain (bw0 : PCond n n K) (bws : List (PCond n n K)) (s : Gauss n K) :
    (bws.foldl PCond.merge bw0).marg s = bw0.marg (bws.foldr (fun b acc => b.marg acc) s) := by
  induction bws generalizing bw0 with
  | nil => rfl
  | cons b rest ih => simp only [List.foldl_cons, List.foldr_cons]; rw [ih, marg_merge]

/-- the last marginal of `evaluate_marginals` is the fold of the backward marginalisations -/
theorem evalMarginals_getLast (s : Gauss n K) (bws : List (PCond n n K)) :
    (evalMarginals s bws).getLast? = some (bws.foldl (fun acc b => b.marg acc) s) := by
  induction bws generalizing s with
  | nil => rfl
  | cons b rest ih =>
    have hne : evalMarginals (b.marg s) rest ≠ [] := by cases rest <;> simp [evalMarginals]
    simp only [evalMarginals, List.foldl_cons]
    rw [List.getLast?_cons_of_ne_nil hne]; exact ih _

/-- **C03 for the fixed-point smoother, whole runs.**  Start at a checkpoint (identity conditional), take any number
of steps, and marginalise any Gaussian `s` at the end through the carried conditional: the result is the last
entry of `evaluate_marginals` run from `s` over the conditionals a fixed-interval smoother would have stored for
the same steps (last step first) — by `rts_marginals` the Rauch–Tung–Striebel marginal at the checkpoint. -/
theorem fixedpoint_checkpoint_eq_rts (u0 : Gauss n K) (steps : List (C02.StepData n k K)) (s : Gauss n K) :
    some ((endState .fixedPoint (SolState.init u0) steps).bw.marg s)
      = (evalMarginals s (fiBws (SolState.init u0) steps).reverse).getLast? := by
  obtain ⟨_, hb⟩ := fp_run (SolState.init u0) (SolState.init u0) rfl steps
  rw [hb, merge_chain, evalMarginals_getLast, List.foldl_reverse]
  congr 1
  obtain ⟨h1, h2⟩ := identity_marg ((fiBws (SolState.init u0) steps).foldr (fun b acc => b.marg acc) s)
  exact C08.Gauss.ext'' h1 h2

/-- a concrete instance evaluated by the kernel: two steps of the example of `C02` with a non-zero smoothing gain;
the mean and covariance obtained through the carried (merged) conditional are those obtained by marginalising
through the two stored conditionals one after the other -/
def exGt : Mat 2 2 Rat := ⟨fun i j => if i.val = j.val then 1/2 else 1/4⟩
def exSteps : List (C02.StepData 2 1 Rat) :=
  [{ tr := C02.exTr, lin := C02.exLin, Gt := exGt, Gu := C02.exGu },
   { tr := C02.exTr, lin := C02.exLin, Gt := exGt, Gu := C02.exGu }]
def exS : Gauss 2 Rat := { mean := ⟨fun i => if i.val = 0 then 3 else -1⟩, cov := ⟨fun i j => if i.val = j.val then 2 else 1/2⟩ }
example :
    let l := (endState .fixedPoint C02.exSt exSteps).bw.marg exS
    let r := (fiBws C02.exSt exSteps).foldr (fun b acc => b.marg acc) exS
    l.mean.toList = r.mean.toList ∧ l.cov.toList = r.cov.toList ∧ l.mean.toList ≠ exS.mean.toList := by
  decide +kernel

end Pdq.C03
