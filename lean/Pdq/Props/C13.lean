import Pdq.Model.Sample
import Pdq.Bridge
import Pdq.Props.C08
import Pdq.Lemmas.Joint
/-!
# C13 — Posterior samples are exact affine images of the normal draws

About `Pdq.Model.Sample` (the definitions the driver executes).
-/
set_option linter.unusedSectionVars false
open Matrix

namespace Pdq.C13
open Pdq.Joint
variable {K : Type} [Field K] {n p : Nat}

/-- one step of the scan, with the scalings absorbed: `x ↦ G x + b + L ξ`, `(G, b) = den(cond)` -/
theorem sample_step (nd : SampleNode n p K) (x : Vec n K) :
    (sampleFlat (nd.bw.applyPt x).mean nd.L nd.xi).toV
      = nd.bw.den.A.toM *ᵥ x.toV + nd.bw.den.b.toV + nd.L.toM *ᵥ nd.xi.toV := by
  rw [sampleFlat, toV_add, toV_mulVec, (C08.applyPt_den nd.bw x).1, (C08.applyPt_spec nd.bw.den x).1]

/-- **`sample_affine`.** The model of `MarkovSequence.sample` is `x_0 = m + L_0 ξ_0`,
`x_{j+1} = den(c_j)(x_j) + L_{j+1} ξ_{j+1}` (that is its definition, see `sample_step`), hence an affine function
of the draws: every sample is the sample with all draws zero plus the linear part `sampleLin` applied to the draws. -/
theorem sample_affine_seq (x0 v : Vec n K) (nodes : List (SampleNode n p K)) :
    (sampleSeq (x0.add v) nodes).map Vec.toV
      = List.zipWith (· + ·) ((sampleSeq x0 (zeroDraws nodes)).map Vec.toV) ((sampleLinSeq v nodes).map Vec.toV) := by
  induction nodes generalizing x0 v with
  | nil => simp [sampleSeq, sampleLinSeq, zeroDraws]
  | cons nd rest ih =>
    simp only [sampleSeq, sampleLinSeq, zeroDraws, List.map_cons, List.zipWith_cons_cons]
    congr 1
    · simp
    · have key : sampleFlat (nd.bw.applyPt (x0.add v)).mean nd.L nd.xi
          = (sampleFlat (nd.bw.applyPt x0).mean nd.L Vec.zero).add
              ((nd.bw.den.A.mulVec v).add (nd.L.mulVec nd.xi)) := by
        apply Vec.ext'
        rw [sample_step, toV_add, toV_add, toV_add, toV_mulVec, toV_mulVec]
        have := sample_step { nd with xi := Vec.zero } x0
        simp only at this
        rw [this]
        simp [Matrix.mulVec_add]
        abel
      rw [key]
      exact ih _ _

theorem sample_affine (mean : Vec n K) (L0 : Mat n p K) (xi0 : Vec p K) (nodes : List (SampleNode n p K)) :
    (sampleChain mean L0 xi0 nodes).map Vec.toV
      = List.zipWith (· + ·) ((sampleChain mean L0 Vec.zero (zeroDraws nodes)).map Vec.toV)
          ((sampleLin L0 xi0 nodes).map Vec.toV) := by
  have h0 : sampleFlat mean L0 xi0 = (sampleFlat mean L0 Vec.zero).add (L0.mulVec xi0) := by
    apply Vec.ext'; simp [sampleFlat]
  rw [sampleChain, h0, sample_affine_seq]; rfl

/-- **`sample_zero_draws`.** With all draws zero the samples are the means of `evaluate_marginals`
(`Pdq.Model.Solver.evalMarginals`, the smoothing means by C03), at every output time. -/
theorem sample_zero_draws (term : Gauss n K) (L0 : Mat n p K) (nodes : List (SampleNode n p K)) :
    (sampleChain term.mean L0 Vec.zero (zeroDraws nodes)).map Vec.toV
      = (evalMarginals term (nodes.map (·.bw))).map (·.mean.toV) := by
  have h0 : sampleFlat term.mean L0 Vec.zero = term.mean := by
    apply Vec.ext'; simp [sampleFlat]
  rw [sampleChain, h0]
  clear h0
  induction nodes generalizing term with
  | nil => rfl
  | cons nd rest ih =>
    simp only [zeroDraws, List.map_cons, sampleSeq, evalMarginals]
    congr 1
    have h1 : sampleFlat (nd.bw.applyPt term.mean).mean nd.L Vec.zero = (nd.bw.marg term).mean := by
      apply Vec.ext'; simp [sampleFlat, PCond.applyPt, PCond.marg]
    rw [h1]
    exact ih (nd.bw.marg term)


/-! ## `sample_gram`: the linear part of the sampling map has the joint covariance as its Gram matrix -/

abbrev col {ι : Type} (v : ι → K) : Matrix ι Unit K := replicateCol Unit v

/-- joint law of the states sampled so far (stack, index `ι`) and the current state, together with the matrix of the
sampling map: `MY`, `Mx` map the stacked draws (index `δ`) to the stacked / current *linear* sample; `sel` are the
selection matrices reading the individual sampled states off the stack, in visiting order. -/
structure SLaw (n : Nat) (K : Type) where
  ι : Type
  ft : Fintype ι
  de : DecidableEq ι
  δ : Type
  ftd : Fintype δ
  J : JointYX ι (Fin n) K
  MY : Matrix ι δ K
  Mx : Matrix (Fin n) δ K
  xi : Matrix δ Unit K
  sel : List (Matrix (Fin n) ι K)

attribute [instance] SLaw.ft SLaw.de SLaw.ftd

/-- before anything is recorded: the current state is `m + L₀ ξ₀` -/
def SLaw.start (mean : Vec n K) (L0 : Mat n p K) (xi0 : Vec p K) : SLaw n K :=
  { ι := PEmpty, ft := inferInstance, de := inferInstance, δ := Fin p, ftd := inferInstance
    J := { μY := 0, μx := col mean.toV, SYY := 0, SYx := 0, Sxx := L0.toM * L0.toMᵀ }
    MY := 0, Mx := L0.toM, xi := col xi0.toV, sel := [] }

/-- the current state becomes an output: append a copy of it to the stack (`obs` with `H = 1`, no noise) -/
def SLaw.record (s : SLaw n K) : SLaw n K :=
  { ι := s.ι ⊕ Fin n, ft := inferInstance, de := inferInstance, δ := s.δ, ftd := s.ftd
    J := s.J.obs 1 0 0
    MY := fromRows s.MY s.Mx, Mx := s.Mx, xi := s.xi
    sel := s.sel.map (fun E => fromCols E 0) ++ [fromCols 0 1] }

/-- one scan step: `x ← G x + b + L ξ` with a fresh draw; the law uses the covariance `L Lᵀ` the factor represents -/
def SLaw.move (s : SLaw n K) (nd : SampleNode n p K) : SLaw n K :=
  { ι := s.ι, ft := s.ft, de := s.de, δ := s.δ ⊕ Fin p, ftd := inferInstance
    J := s.J.trans nd.bw.den.A.toM (col nd.bw.den.b.toV) (nd.L.toM * nd.L.toMᵀ)
    MY := fromCols s.MY 0, Mx := fromCols (nd.bw.den.A.toM * s.Mx) nd.L.toM
    xi := fromRows s.xi (col nd.xi.toV), sel := s.sel }

/-- the law of the whole sampled sequence, by the two elementary rules along the chain -/
def sampleLaw (s : SLaw n K) : List (SampleNode n p K) → SLaw n K
  | [] => s.record
  | nd :: rest => sampleLaw (s.record.move nd) rest

/-- Gram invariant: the sampling map reproduces all second moments of the law -/
def SLaw.Gram (s : SLaw n K) : Prop :=
  s.MY * s.MYᵀ = s.J.SYY ∧ s.MY * s.Mxᵀ = s.J.SYx ∧ s.Mx * s.Mxᵀ = s.J.Sxx

/-! pure block-matrix identities (generic index types), applied below up to definitional unfolding -/
section blocks
variable {ι δ π ν : Type} [Fintype δ] [Fintype π] [Fintype ν] [DecidableEq ν]

theorem empty_mat_eq {m : Type} (A B : Matrix PEmpty m K) : A = B := by ext i; exact i.elim

theorem rec_YY (MY : Matrix ι δ K) (Mx : Matrix ν δ K) :
    fromRows MY Mx * (fromRows MY Mx)ᵀ
      = fromBlocks (MY * MYᵀ) ((MY * Mxᵀ) * 1ᵀ) ((MY * Mxᵀ) * 1ᵀ)ᵀ (1 * (Mx * Mxᵀ) * 1ᵀ + 0) := by
  rw [transpose_fromRows, fromRows_mul_fromCols]
  simp [transpose_mul]
theorem rec_Yx (MY : Matrix ι δ K) (Mx : Matrix ν δ K) :
    fromRows MY Mx * Mxᵀ = fromRows (MY * Mxᵀ) (1 * (Mx * Mxᵀ)) := by
  rw [fromRows_mul, Matrix.one_mul]
theorem mov_YY (MY : Matrix ι δ K) :
    fromCols MY (0 : Matrix ι π K) * (fromCols MY (0 : Matrix ι π K))ᵀ = MY * MYᵀ := by
  rw [transpose_fromCols, fromCols_mul_fromRows]; simp
theorem mov_Yx (MY : Matrix ι δ K) (Mx : Matrix ν δ K) (G : Matrix ν ν K) (L : Matrix ν π K) :
    fromCols MY (0 : Matrix ι π K) * (fromCols (G * Mx) L)ᵀ = (MY * Mxᵀ) * Gᵀ := by
  rw [transpose_fromCols, fromCols_mul_fromRows, transpose_mul, ← Matrix.mul_assoc]; simp
theorem mov_xx (Mx : Matrix ν δ K) (G : Matrix ν ν K) (L : Matrix ν π K) :
    fromCols (G * Mx) L * (fromCols (G * Mx) L)ᵀ = G * (Mx * Mxᵀ) * Gᵀ + L * Lᵀ := by
  rw [transpose_fromCols, fromCols_mul_fromRows, transpose_mul]
  simp only [Matrix.mul_assoc]
end blocks

theorem start_gram (mean : Vec n K) (L0 : Mat n p K) (xi0 : Vec p K) : (SLaw.start mean L0 xi0).Gram :=
  ⟨empty_mat_eq _ _, empty_mat_eq _ _, rfl⟩

theorem record_gram (s : SLaw n K) (h : s.Gram) : s.record.Gram := by
  obtain ⟨h1, h2, h3⟩ := h
  refine ⟨?_, ?_, h3⟩
  · have := rec_YY s.MY s.Mx
    rw [h1, h2, h3] at this
    exact this
  · have := rec_Yx s.MY s.Mx
    rw [h2, h3] at this
    exact this

theorem move_gram (s : SLaw n K) (nd : SampleNode n p K) (h : s.Gram) : (s.move nd).Gram := by
  obtain ⟨h1, h2, h3⟩ := h
  refine ⟨?_, ?_, ?_⟩
  · exact (mov_YY (π := Fin p) s.MY).trans h1
  · have := mov_Yx s.MY s.Mx nd.bw.den.A.toM nd.L.toM
    rw [h2] at this
    exact this
  · have := mov_xx s.Mx nd.bw.den.A.toM nd.L.toM
    rw [h3] at this
    exact this

theorem sampleLaw_gram (s : SLaw n K) (nodes : List (SampleNode n p K)) (h : s.Gram) :
    (sampleLaw s nodes).Gram := by
  induction nodes generalizing s with
  | nil => exact record_gram s h
  | cons nd rest ih => exact ih _ (move_gram _ nd (record_gram s h))


section values
variable {ι δ π ν : Type} [Fintype ι] [Fintype δ] [Fintype π] [Fintype ν] [DecidableEq ν]

theorem val_rec_old (E : Matrix ν ι K) (MY : Matrix ι δ K) (Mx : Matrix ν δ K) (xi : Matrix δ Unit K) :
    fromCols E (0 : Matrix ν ν K) * (fromRows MY Mx * xi) = E * (MY * xi) := by
  rw [fromRows_mul, fromCols_mul_fromRows]; simp
theorem val_rec_new (MY : Matrix ι δ K) (Mx : Matrix ν δ K) (xi : Matrix δ Unit K) :
    fromCols (0 : Matrix ν ι K) 1 * (fromRows MY Mx * xi) = Mx * xi := by
  rw [fromRows_mul, fromCols_mul_fromRows]; simp
theorem val_mov (MY : Matrix ι δ K) (xi : Matrix δ Unit K) (z : Matrix π Unit K) :
    fromCols MY (0 : Matrix ι π K) * fromRows xi z = MY * xi := by
  rw [fromCols_mul_fromRows]; simp
theorem val_mov_cur (Mx : Matrix ν δ K) (G : Matrix ν ν K) (L : Matrix ν π K) (xi : Matrix δ Unit K)
    (z : Matrix π Unit K) :
    fromCols (G * Mx) L * fromRows xi z = G * (Mx * xi) + L * z := by
  rw [fromCols_mul_fromRows, Matrix.mul_assoc]
end values

/-- the values read off the stack: selection matrices applied to `MY ξ` -/
def SLaw.vals (s : SLaw n K) : List (Matrix (Fin n) Unit K) := s.sel.map fun E => E * (s.MY * s.xi)
/-- the covariance blocks read off the stack -/
def SLaw.diagBlocks (s : SLaw n K) : List (Matrix (Fin n) (Fin n) K) := s.sel.map fun E => E * s.J.SYY * Eᵀ

theorem record_vals (s : SLaw n K) : s.record.vals = s.vals ++ [s.Mx * s.xi] := by
  simp only [SLaw.vals, SLaw.record, List.map_append, List.map_map, List.map_cons, List.map_nil]
  congr 1
  · apply List.map_congr_left
    intro E _
    exact val_rec_old E s.MY s.Mx s.xi
  · congr 1
    exact val_rec_new s.MY s.Mx s.xi

theorem move_vals (s : SLaw n K) (nd : SampleNode n p K) : (s.move nd).vals = s.vals := by
  simp only [SLaw.vals, SLaw.move]
  apply List.map_congr_left
  intro E _
  congr 1
  exact val_mov s.MY s.xi (col nd.xi.toV)

theorem sampleLaw_vals (s : SLaw n K) (v : Vec n K) (nodes : List (SampleNode n p K))
    (hv : col v.toV = s.Mx * s.xi) :
    (sampleLaw s nodes).vals = s.vals ++ (sampleLinSeq v nodes).map (fun x => col x.toV) := by
  induction nodes generalizing s v with
  | nil => rw [sampleLaw, record_vals, ← hv]; rfl
  | cons nd rest ih =>
    have hcur : col ((nd.bw.den.A.mulVec v).add (nd.L.mulVec nd.xi)).toV = (s.record.move nd).Mx * (s.record.move nd).xi := by
      have := val_mov_cur s.Mx nd.bw.den.A.toM nd.L.toM s.xi (col nd.xi.toV)
      rw [← hv] at this
      refine Eq.trans ?_ this.symm
      rw [toV_add, toV_mulVec, toV_mulVec]
      simp only [col, replicateCol_add, replicateCol_mulVec]
    rw [sampleLaw, ih _ _ hcur, move_vals, record_vals, ← hv]
    simp [sampleLinSeq]


section blocks2
variable {ι ν : Type} [Fintype ι] [Fintype ν] [DecidableEq ν]
theorem blk_old (E : Matrix ν ι K) (A : Matrix ι ι K) (B : Matrix ι ν K) (C : Matrix ν ι K) (D : Matrix ν ν K) :
    fromCols E (0 : Matrix ν ν K) * fromBlocks A B C D * (fromCols E (0 : Matrix ν ν K))ᵀ = E * A * Eᵀ := by
  rw [fromCols_mul_fromBlocks, transpose_fromCols, fromCols_mul_fromRows]; simp
theorem blk_new (A : Matrix ι ι K) (B : Matrix ι ν K) (C : Matrix ν ι K) (D : Matrix ν ν K) :
    fromCols (0 : Matrix ν ι K) 1 * fromBlocks A B C D * (fromCols (0 : Matrix ν ι K) 1)ᵀ = D := by
  rw [fromCols_mul_fromBlocks, transpose_fromCols, fromCols_mul_fromRows]; simp
end blocks2

theorem record_blocks (s : SLaw n K) : s.record.diagBlocks = s.diagBlocks ++ [s.J.Sxx] := by
  simp only [SLaw.diagBlocks, SLaw.record, List.map_append, List.map_map, List.map_cons, List.map_nil]
  congr 1
  · apply List.map_congr_left
    intro E _
    exact blk_old E _ _ _ _
  · congr 1
    refine (blk_new _ _ _ _).trans ?_
    simp

theorem sampleLaw_blocks (s : SLaw n K) (g : Gauss n K) (nodes : List (SampleNode n p K))
    (hg : s.J.Sxx = g.cov.toM) (hL : ∀ nd ∈ nodes, nd.L.toM * nd.L.toMᵀ = nd.bw.den.Q.toM) :
    (sampleLaw s nodes).diagBlocks = s.diagBlocks ++ (evalMarginals g (nodes.map (·.bw))).map (·.cov.toM) := by
  induction nodes generalizing s g with
  | nil => rw [sampleLaw, record_blocks, hg]; rfl
  | cons nd rest ih =>
    have hnd := hL nd List.mem_cons_self
    have hg' : (s.record.move nd).J.Sxx = (nd.bw.marg g).cov.toM := by
      rw [(C08.marg_den nd.bw g).2, C08.marg_cov, ← hg, ← hnd]; rfl
    rw [sampleLaw, ih _ _ hg' (fun x hx => hL x (List.mem_cons_of_mem _ hx))]
    have : (s.record.move nd).diagBlocks = s.record.diagBlocks := rfl
    rw [this, record_blocks, hg]
    simp [evalMarginals]

/-- **`sample_gram`.** Let `S = sampleLaw (start m L₀ ξ₀) nodes` be the joint law of all sampled states built by the
two elementary rules of the backward Markov factorisation (`x_0 ~ (m, L₀L₀ᵀ)`, `x_{j+1} = G_j x_j + b_j + w_j`,
`Cov w_j = L_{j+1} L_{j+1}ᵀ`), so that `Cov(x_j, x_l) = G_{j-1} ⋯ G_l Cov(x_l)` for `j ≥ l`
(rule `trans`: `Cov(Y, x') = Cov(Y, x) Gᵀ`).  Then, for **whatever factors** `L_j` the implementation carries:
1. the linear part of the model of `sample` is the matrix `S.MY` applied to the stacked draws (read off with the
   selection matrices `S.sel`);
2. `S.MY S.MYᵀ = S.J.SYY`: the Gram matrix of the sampling map is the joint covariance;
3. if the factors are square roots of the conditionals' noise (`L_j L_jᵀ = den(c_j).Q`, `L₀L₀ᵀ = P`), the diagonal blocks
   of that joint covariance are the covariances of `evaluate_marginals` (the smoothing covariances, C03). -/
theorem sample_gram (term : Gauss n K) (L0 : Mat n p K) (xi0 : Vec p K) (nodes : List (SampleNode n p K)) :
    let S := sampleLaw (SLaw.start term.mean L0 xi0) nodes
    S.vals = (sampleLin L0 xi0 nodes).map (fun x => col x.toV) ∧
    S.MY * S.MYᵀ = S.J.SYY ∧
    (L0.toM * L0.toMᵀ = term.cov.toM → (∀ nd ∈ nodes, nd.L.toM * nd.L.toMᵀ = nd.bw.den.Q.toM) →
      S.diagBlocks = (evalMarginals term (nodes.map (·.bw))).map (·.cov.toM)) := by
  intro S
  refine ⟨?_, (sampleLaw_gram _ nodes (start_gram _ _ _)).1, fun h0 hL => ?_⟩
  · have hv : col (L0.mulVec xi0).toV = (SLaw.start term.mean L0 xi0).Mx * (SLaw.start term.mean L0 xi0).xi := by
      rw [toV_mulVec]; exact replicateCol_mulVec _ _
    have := sampleLaw_vals _ _ nodes hv
    rw [show (SLaw.start term.mean L0 xi0).vals = [] from rfl, List.nil_append] at this
    exact this
  · have := sampleLaw_blocks (SLaw.start term.mean L0 xi0) term nodes h0 hL
    rw [show (SLaw.start term.mean L0 xi0).diagBlocks = [] from rfl, List.nil_append] at this
    exact this


/-- the rule behind the off-diagonal blocks: moving the state through `x' = G x + b + w` multiplies the
cross-covariance with everything recorded so far by `Gᵀ`, recording copies `Cov(Y, x)`, `Cov(x)` into the stack;
iterating, `Cov(x_j, x_l) = G_{j-1} ⋯ G_l Cov(x_l)` for `j ≥ l` (visiting order). -/
theorem cross_rule (s : SLaw n K) (nd : SampleNode n p K) :
    (s.move nd).J.SYx = s.J.SYx * nd.bw.den.A.toMᵀ ∧
    s.record.J.SYx = fromRows s.J.SYx (1 * s.J.Sxx) ∧
    s.record.J.SYY = fromBlocks s.J.SYY (s.J.SYx * 1ᵀ) (s.J.SYx * 1ᵀ)ᵀ (1 * s.J.Sxx * 1ᵀ + 0) :=
  ⟨rfl, rfl, rfl⟩

/-- the order in which the code returns the samples: `reverse = True` (posteriors of smoothers) visits the nodes from
the last time to the first and returns them in time order -/
theorem sample_output_order (reverse : Bool) (mean : Vec n K) (L0 : Mat n p K) (xi0 : Vec p K)
    (nodes : List (SampleNode n p K)) :
    (sampleOutput reverse mean L0 xi0 nodes).length = nodes.length + 1 ∧
    sampleOutput true mean L0 xi0 nodes = (sampleOutput false mean L0 xi0 nodes).reverse := by
  constructor
  · have : ∀ (x : Vec n K) (l : List (SampleNode n p K)), (sampleSeq x l).length = l.length + 1 := by
      intro x l
      induction l generalizing x with
      | nil => rfl
      | cons a l ih => simp [sampleSeq, ih]
    cases reverse <;> simp [sampleOutput, sampleChain, this]
  · simp [sampleOutput]

/-! ## `from_grid` -/

theorem gridDiffs_get (g : List K) (j : Nat) :
    (gridDiffs g)[j]? = if h : j + 1 < g.length then some (g[j + 1] - g[j]) else none := by
  induction g generalizing j with
  | nil => simp [gridDiffs]
  | cons a rest ih =>
    cases rest with
    | nil => simp [gridDiffs]
    | cons b rest' =>
      cases j with
      | zero => simp [gridDiffs]
      | succ j =>
        have := ih j
        simp only [gridDiffs, List.getElem?_cons_succ, List.length_cons] at this ⊢
        rw [this]
        simp

/-- **`prior_grid_law`.** `MarkovSequence.from_grid(prior, grid, reverse)` stores `prior.init` and, for every interval
of the grid, the prior's transition over `t_{j+1} - t_j`; `sample` / `evaluate_marginals` visit them in grid order
(`reverse = False`) or in reversed order.  Hence (`sample_affine`, `sample_zero_draws`, `sample_gram` applied to
these nodes) samples from a prior on a grid are `m + L₀ξ₀` pushed through the prior's own transitions: zero draws give
the prior means `Φ(h_j) ⋯ Φ(h_0) m`, and the Gram matrix of the sampling map is the prior's joint covariance on the
grid built from `(Φ(h_j), Q(h_j)) = den(transition(h_j))`. -/
theorem prior_grid_law (tr : K → PCond n n K) (grid : List K) :
    (∀ j, (fromGridConds tr grid false)[j]?
        = if h : j + 1 < grid.length then some (tr (grid[j + 1] - grid[j])) else none) ∧
    fromGridConds tr grid true = (fromGridConds tr grid false).reverse ∧
    ∀ rev, (fromGridConds tr grid rev).length = grid.length - 1 := by
  refine ⟨fun j => ?_, by simp [fromGridConds], fun rev => ?_⟩
  · simp only [fromGridConds, Bool.false_eq_true, if_false, List.getElem?_map, gridDiffs_get]
    split <;> simp
  · have hl : (gridDiffs grid).length = grid.length - 1 := by
      induction grid with
      | nil => rfl
      | cons a rest ih =>
        cases rest with
        | nil => rfl
        | cons b r => simp only [gridDiffs, List.length_cons] at ih ⊢; omega
    cases rev <;> simp [fromGridConds, hl]

/-! ## shapes and keys -/

/-- **`sample_shape`.** An entry `idx` of a sample of shape `shape` exists exactly when `idx` lies inside the shape
(same length, every index below its dimension) — the requested shape is prepended to the shape of one sample —
and it is computed by the un-batched `sample` with the key reached by splitting along `idx`. -/
theorem sample_shape (key : KeyPath) (shape idx : List Nat) (k : KeyPath) :
    shapedKey key shape idx = some k ↔ (List.Forall₂ (· < ·) idx shape ∧ k = key ++ idx) := by
  induction shape generalizing key idx with
  | nil =>
    cases idx with
    | nil => simp [shapedKey, eq_comm]
    | cons i idx => simp [shapedKey]
  | cons s shape ih =>
    cases idx with
    | nil => simp [shapedKey]
    | cons i idx =>
      simp only [shapedKey, List.forall₂_cons]
      by_cases h : i < s
      · simp [h, ih, List.append_assoc]
      · simp [h]

theorem sampleKeys_prefix (key : KeyPath) (cnt : Nat) : ∀ k ∈ sampleKeys key cnt, key <+: k ∧ k ≠ key := by
  induction cnt generalizing key with
  | zero => intro k hk; simp [sampleKeys] at hk; subst hk; simp
  | succ c ih =>
    intro k hk
    simp only [sampleKeys, List.mem_cons] at hk
    rcases hk with rfl | hk
    · simp
    · obtain ⟨h1, _⟩ := ih _ k hk
      refine ⟨(List.prefix_append key [0]).trans h1, ?_⟩
      intro h
      subst h
      have := h1.length_le
      simp at this

/-- **distinct keys per node.** The un-batched `sample` hands pairwise distinct keys to the `cnt + 1` calls of
`sample_flat` (one per output time) -/
theorem sample_keys_nodup (key : KeyPath) (cnt : Nat) :
    (sampleKeys key cnt).Nodup ∧ (sampleKeys key cnt).length = cnt + 1 := by
  induction cnt generalizing key with
  | zero => simp [sampleKeys]
  | succ c ih =>
    obtain ⟨h1, h2⟩ := ih (key ++ [0])
    refine ⟨?_, by simp [sampleKeys, h2]⟩
    simp only [sampleKeys, List.nodup_cons]
    refine ⟨fun hmem => ?_, h1⟩
    obtain ⟨hp, _⟩ := sampleKeys_prefix _ _ _ hmem
    have := hp.eq_of_length (by simp)
    simp at this

/-- **distinct keys per sample.** Two different entries of a shaped sample never share a key -/
theorem sample_keys_disjoint (key : KeyPath) (shape idx idx' : List Nat) (cnt : Nat) (ks ks' : List KeyPath)
    (h : shapedSampleKeys key shape idx cnt = some ks) (h' : shapedSampleKeys key shape idx' cnt = some ks')
    (hne : idx ≠ idx') : ∀ k ∈ ks, k ∉ ks' := by
  simp only [shapedSampleKeys, Option.map_eq_some_iff] at h h'
  obtain ⟨k0, hk0, rfl⟩ := h
  obtain ⟨k0', hk0', rfl⟩ := h'
  obtain ⟨f1, rfl⟩ := (sample_shape _ _ _ _).mp hk0
  obtain ⟨f2, rfl⟩ := (sample_shape _ _ _ _).mp hk0'
  intro k hk hk'
  obtain ⟨p1, _⟩ := sampleKeys_prefix _ _ _ hk
  obtain ⟨p2, _⟩ := sampleKeys_prefix _ _ _ hk'
  have hlen : idx.length = idx'.length := f1.length_eq.trans f2.length_eq.symm
  have e1 := List.prefix_iff_eq_take.mp p1
  have e2 := List.prefix_iff_eq_take.mp p2
  have : key ++ idx = key ++ idx' := by
    rw [e1, e2]; simp [hlen]
  exact hne (List.append_cancel_left this)


/-! ## the shipped isotropic `sample_flat` violates the Gram clause for `d > 1` -/

/-- linear part of `isoSampleFlatShared` for two dimensions: both get `L ξ`, i.e. the stacked map is `[L; L]` -/
theorem iso_shared_linear (m0 m1 : Vec n K) (L : Mat n p K) (xi : Vec p K) :
    (isoSampleFlatShared [m0, m1] L xi).map Vec.toV
      = [m0.toV + L.toM *ᵥ xi.toV, m1.toV + L.toM *ᵥ xi.toV] := by
  simp [isoSampleFlatShared, sampleFlat]

/-- **negation of `sample_gram` for the isotropic class as shipped.** With one draw shared by the dimensions the Gram
matrix of the sampling map `[L; L]` is `[[C, C], [C, C]]`, `C = L Lᵀ`, whereas the isotropic law (`to_multivariate_normal`,
`logpdf`) is `C ⊗ I_d = [[C, 0], [0, C]]`; they differ whenever `C ≠ 0`. -/
theorem iso_shared_draws_gram_violated (L : Matrix (Fin n) (Fin p) K) (hC : L * Lᵀ ≠ 0) :
    fromRows L L * (fromRows L L)ᵀ = fromBlocks (L * Lᵀ) (L * Lᵀ) (L * Lᵀ) (L * Lᵀ) ∧
    fromRows L L * (fromRows L L)ᵀ ≠ fromBlocks (L * Lᵀ) 0 0 (L * Lᵀ) := by
  have h : fromRows L L * (fromRows L L)ᵀ = fromBlocks (L * Lᵀ) (L * Lᵀ) (L * Lᵀ) (L * Lᵀ) := by
    rw [transpose_fromRows, fromRows_mul_fromCols]
  refine ⟨h, fun h2 => hC ?_⟩
  rw [h] at h2
  exact (Matrix.fromBlocks_inj.mp h2).2.1

/-- concrete witness: `q = 0`, `d = 2`, unit factor -/
example : (1 : Matrix (Fin 1) (Fin 1) ℚ) * (1 : Matrix (Fin 1) (Fin 1) ℚ)ᵀ ≠ 0 := by
  simp

/-! ## non-vacuity: a concrete rational chain with non-unit scalings and a non-zero offset -/

section examples
open Pdq

def exMean : Vec 2 Rat := ⟨fun i => if i.val = 0 then 1 else 2⟩
def exL0 : Mat 2 2 Rat := ⟨fun i j => if j.val ≤ i.val then 1 else 0⟩
def exBw : PCond 2 2 Rat :=
  { A := ⟨fun i j => if i = j then 1 else 1/2⟩, b := ⟨fun _ => 3⟩, Q := ⟨fun i j => if i = j then 1 else 0⟩,
    tl := ⟨fun i => if i.val = 0 then 2 else 1/2⟩, tob := ⟨fun i => if i.val = 0 then 1/2 else 2⟩ }
/-- factor of `apply_flat(x)`: `|to_observed| · I`, so `L Lᵀ = den(c).Q = diag(1/4, 4)` -/
def exL : Mat 2 2 Rat := ⟨fun i j => if i = j then (if i.val = 0 then 1/2 else 2) else 0⟩
def exNode (a b : Rat) : SampleNode 2 2 Rat := { bw := exBw, L := exL, xi := ⟨fun i => if i.val = 0 then a else b⟩ }

example : (sampleOutput true exMean exL0 Vec.zero [exNode 0 0]).map Vec.toList = [[11/4, 10], [1, 2]] := by
  decide +kernel
example : (sampleOutput true exMean exL0 ⟨fun _ => 1⟩ [exNode 1 (-1)]).map Vec.toList = [[9/2, 12], [2, 4]] := by
  decide +kernel
example : ((exL.mul exL.tr).beq exBw.den.Q) = true := by decide +kernel
example : shapedSampleKeys [] [2, 3] [1, 2] 1 = some [[1, 2, 1], [1, 2, 0, 1]] := by decide +kernel
example : shapedSampleKeys [] [2, 3] [2, 0] 1 = none := by decide +kernel

end examples

end Pdq.C13
