import Pdq.Model.GaussNewton
import Pdq.Lemmas.GaussNewton
import Pdq.Bridge
import Mathlib.LinearAlgebra.Matrix.NonsingularInverse
import Mathlib.Logic.Function.Iterate
import Mathlib.Tactic.Abel
import Mathlib.Tactic.Linarith

/-!
# C19 — Constrained least-squares points are feasible, optimal, exact if affine

All statements are about the executable definitions of `Pdq.Model.GaussNewton` (what the driver runs at
`Rat`), for every size `D, k, r`, every constraint `g` with any Jacobian oracle `J`, every mean, every
factor `L` (singular ones included), every least-squares oracle `solve`, every tolerance and budget.
What is assumed about `solve` is exactly what the driver checks before it prints anything: the normal
equations (`lstsqOk`) and, where stated, the row-space witness (`minNormOk`).
-/
set_option linter.unusedSectionVars false
open Matrix

namespace Pdq.C19
open Pdq Pdq.GN

variable {K : Type} {D k r : Nat}

/-! ## one Gauss–Newton step -/

section field
variable [Field K]

/-- every iterate after the first step is `m − L·dy`: its displacement from the mean lies in the range
of the factor, whatever the constraint -/
theorem gn_body_point (p : Problem D k r K) (solve : Mat k r K → Vec k K → Vec r K) (s : State D k K) :
    (body p solve s).x.toV = p.m.toV - p.L.toM *ᵥ (solve (p.H s.x) (p.rhs s)).toV :=
  bodyWith_x p s _

/-- **first-order optimality up to the last increment.** If the solver's answer is the minimum-norm one
(`dy = (J L)ᵀ z`), the displacement of the new iterate from the mean lies in the range of `P Jᵀ`,
`P = L Lᵀ`, `J` the Jacobian at the iterate the step started from — the KKT condition
`P⁻¹(x − m) ∈ range Jᵀ` of `min ‖L⁻¹(x − m)‖² s.t. g(x) = 0`, with `J(x_prev)` in place of `J(x)`. -/
theorem gn_displacement_range (p : Problem D k r K) (s : State D k K) (y : Vec r K) (z : Vec k K)
    (hmin : y.toV = (p.H s.x).toMᵀ *ᵥ z.toV) :
    (bodyWith p s y).x.toV - p.m.toV = (p.P.toM * (p.J s.x).toMᵀ) *ᵥ (- z.toV) := by
  rw [bodyWith_x, hmin, toM_H, toM_P, Matrix.transpose_mul, Matrix.mulVec_neg]
  simp only [Matrix.mulVec_mulVec, Matrix.mul_assoc]
  abel

/-! ## affine constraints `g(x) = C x − e` -/

/-- for an affine constraint the right-hand side of the least-squares problem does not depend on the
current iterate: it is `C m − e` -/
theorem affine_rhs (C : Mat k D K) (e : Vec k K) (m : Vec D K) (L : Mat D r K) (s : State D k K)
    (hfx : s.fx = (Problem.affine C e m L).g s.x) :
    (Problem.affine C e m L).rhs s = (C.mulVec m).sub e := by
  apply Vec.ext'
  rw [toV_rhs, hfx]
  simp only [Problem.affine, toV_sub, toV_mulVec, Matrix.mulVec_sub]
  abel

/-- **affine ⇒ one step from anywhere.** For `g(x) = C x − e`, one iteration from *any* state (any `x0`)
returns `m − L·dy` with `dy = solve (C L) (C m − e)` — the same point, independent of where it started. -/
theorem gn_affine_one_step (C : Mat k D K) (e : Vec k K) (m : Vec D K) (L : Mat D r K)
    (solve : Mat k r K → Vec k K → Vec r K) (s : State D k K) (hfx : s.fx = (Problem.affine C e m L).g s.x) :
    (body (Problem.affine C e m L) solve s).x.toV
      = m.toV - L.toM *ᵥ (solve (C.mul L) ((C.mulVec m).sub e)).toV := by
  rw [gn_body_point, affine_rhs C e m L s hfx]
  rfl

/-- … and with `C P Cᵀ` invertible (`C L` of full row rank) and a certified minimum-norm answer this is
the **Gaussian conditional mean** `m − P Cᵀ (C P Cᵀ)⁻¹ (C m − e)`, `P = L Lᵀ`. -/
theorem gn_affine_cond_mean (C : Mat k D K) (e : Vec k K) (m : Vec D K) (L : Mat D r K)
    (y : Vec r K) (z : Vec k K)
    (hls : ((C.toM * L.toM)ᵀ * (C.toM * L.toM)) *ᵥ y.toV = (C.toM * L.toM)ᵀ *ᵥ (C.toM *ᵥ m.toV - e.toV))
    (hmin : y.toV = (C.toM * L.toM)ᵀ *ᵥ z.toV)
    (hS : IsUnit (C.toM * (L.toM * L.toMᵀ) * C.toMᵀ).det) :
    m.toV - L.toM *ᵥ y.toV
      = m.toV - ((L.toM * L.toMᵀ) * C.toMᵀ * (C.toM * (L.toM * L.toMᵀ) * C.toMᵀ)⁻¹) *ᵥ (C.toM *ᵥ m.toV - e.toV) := by
  set H := C.toM * L.toM with hH
  set ρ := C.toM *ᵥ m.toV - e.toV with hρ
  have hHH : C.toM * (L.toM * L.toMᵀ) * C.toMᵀ = H * Hᵀ := by
    simp only [hH, Matrix.transpose_mul, Matrix.mul_assoc]
  rw [hHH] at hS ⊢
  -- H Hᵀ z = ρ
  have h1 : (H * Hᵀ) *ᵥ ((H * Hᵀ) *ᵥ z.toV) = (H * Hᵀ) *ᵥ ρ := by
    have := congrArg (fun v => H *ᵥ v) hls
    simp only [hmin, Matrix.mulVec_mulVec] at this
    simpa only [Matrix.mulVec_mulVec, Matrix.mul_assoc] using this
  have hcancel : ∀ v : Fin k → K, (H * Hᵀ)⁻¹ *ᵥ ((H * Hᵀ) *ᵥ v) = v := by
    intro v; rw [Matrix.mulVec_mulVec, Matrix.nonsing_inv_mul _ hS, Matrix.one_mulVec]
  have h2 : (H * Hᵀ) *ᵥ z.toV = ρ := by
    rw [← hcancel ((H * Hᵀ) *ᵥ z.toV), h1, hcancel]
  have h3 : z.toV = (H * Hᵀ)⁻¹ *ᵥ ρ := by
    rw [← h2, hcancel]
  rw [hmin, h3]
  simp only [hH, Matrix.transpose_mul, Matrix.mulVec_mulVec, Matrix.mul_assoc]

end field

section ordered
variable [Field K] [LinearOrder K] [IsStrictOrderedRing K]

/-- **feasibility after one step, singular factors included.** If the affine constraint can be met on
`m + range L` at all (`C L y0 = C m − e` for some `y0`; automatic when `C L` has full row rank), then for
*any* answer `dy` satisfying the normal equations the new iterate satisfies the constraint exactly. -/
theorem gn_affine_feasible (C : Mat k D K) (e : Vec k K) (m : Vec D K) (L : Mat D r K)
    (s : State D k K) (y : Vec r K) (y0 : Fin r → K)
    (hls : ((C.toM * L.toM)ᵀ * (C.toM * L.toM)) *ᵥ y.toV = (C.toM * L.toM)ᵀ *ᵥ (C.toM *ᵥ m.toV - e.toV))
    (hcons : (C.toM * L.toM) *ᵥ y0 = C.toM *ᵥ m.toV - e.toV) :
    (bodyWith (Problem.affine C e m L) s y).fx.toV = 0 := by
  have hy := normal_eq_consistent _ _ _ _ hls hcons
  have hx := bodyWith_x (Problem.affine C e m L) s y
  have hfx : (bodyWith (Problem.affine C e m L) s y).fx.toV
      = C.toM *ᵥ (bodyWith (Problem.affine C e m L) s y).x.toV - e.toV := by
    simp [bodyWith, Problem.affine]
  rw [hfx, hx]
  simp only [Problem.affine, Matrix.mulVec_sub, Matrix.mulVec_mulVec]
  rw [hy]
  abel

/-- **the two certificates determine the solver's answer.** Any two answers that pass `lstsqOk` and
`minNormOk` coincide: the exact model and LAPACK's SVD least-squares (`jnp.linalg.lstsq`, minimum-norm)
compute the same `dy` whenever the numerical rank is the exact rank. -/
theorem lstsq_answer_unique (H : Mat k r K) (rhs : Vec k K) (y1 y2 : Vec r K) (z1 z2 : Vec k K)
    (h1 : lstsqOk H rhs y1 = true) (h2 : lstsqOk H rhs y2 = true)
    (m1 : minNormOk H y1 z1 = true) (m2 : minNormOk H y2 z2 = true) : y1 = y2 := by
  rw [lstsqOk_iff] at h1 h2
  rw [minNormOk_iff] at m1 m2
  exact Vec.ext' (lstsq_cert_unique _ _ _ _ _ _ h1 h2 m1 m2)

/-! ## the loop: termination test, budget, reported statistics -/

theorem cont_eq_false_iff (tol2 : K) (maxiter : Nat) (s : State D k K) :
    cont tol2 maxiter s = false ↔
      (normSq s.fx ≤ tol2 * (k : K) ∨ maxiter ≤ s.i ∨ normSq s.dx ≤ tol2 * (D : K)) := by
  simp only [cont, Bool.and_eq_false_iff, decide_eq_false_iff_not, not_lt, or_assoc]

theorem cont_true_lt (tol2 : K) (maxiter : Nat) (s : State D k K) (h : cont tol2 maxiter s = true) :
    s.i < maxiter := by
  simp only [cont, Bool.and_eq_true, decide_eq_true_eq] at h
  exact h.1.2

theorem body_i (p : Problem D k r K) (solve : Mat k r K → Vec k K → Vec r K) (s : State D k K) :
    (body p solve s).i = s.i + 1 := rfl

theorem body_fx (p : Problem D k r K) (solve : Mat k r K → Vec k K → Vec r K) (s : State D k K) :
    (body p solve s).fx = p.g (body p solve s).x := rfl

theorem body_dx (p : Problem D k r K) (solve : Mat k r K → Vec k K → Vec r K) (s : State D k K) :
    (body p solve s).dx = (body p solve s).x.sub s.x := rfl

/-- the loop is a prefix of the orbit of `body`: it returns `body^[n] s` for the first `n` at which the
test fails (or the fuel ends) -/
theorem loop_spec (p : Problem D k r K) (solve : Mat k r K → Vec k K → Vec r K) (tol2 : K) (maxiter : Nat) :
    ∀ (fuel : Nat) (s : State D k K), ∃ n, n ≤ fuel ∧
      loop p solve tol2 maxiter fuel s = (body p solve)^[n] s ∧
      (∀ j, j < n → cont tol2 maxiter ((body p solve)^[j] s) = true) ∧
      (n < fuel → cont tol2 maxiter ((body p solve)^[n] s) = false)
  | 0, s => ⟨0, le_refl _, rfl, by intro j hj; omega, by intro h; omega⟩
  | fuel + 1, s => by
    by_cases hc : cont tol2 maxiter s = true
    · obtain ⟨n, hn, heq, hall, hex⟩ := loop_spec p solve tol2 maxiter fuel (body p solve s)
      refine ⟨n + 1, by omega, ?_, ?_, ?_⟩
      · simp only [loop, hc, if_true, Function.iterate_succ, Function.comp]; exact heq
      · intro j hj
        cases j with
        | zero => simpa using hc
        | succ j => simpa only [Function.iterate_succ, Function.comp] using hall j (by omega)
      · intro h
        simpa only [Function.iterate_succ, Function.comp] using hex (by omega)
    · refine ⟨0, by omega, ?_, by intro j hj; omega, ?_⟩
      · simp only [loop, hc, Function.iterate_zero, id]; rfl
      · intro _; simpa using hc

theorem iterate_i (p : Problem D k r K) (solve : Mat k r K → Vec k K → Vec r K) (s : State D k K) (n : Nat) :
    ((body p solve)^[n] s).i = s.i + n := by
  induction n generalizing s with
  | zero => rfl
  | succ n ih => rw [Function.iterate_succ, Function.comp, ih, body_i]; omega

/-- **exit condition.** On return the `while_loop` has really stopped: the constraint is met to the stated
tolerance (`‖f‖² ≤ tol²·size`), *or* the budget is exhausted (`i = maxiter`), *or* the increments have
converged (`‖dx‖² ≤ tol²·size`); and never more than `maxiter` iterations are made. Fuel `maxiter`
is enough for every problem, solver, tolerance and starting point. -/
theorem gn_exit (p : Problem D k r K) (solve : Mat k r K → Vec k K → Vec r K) (tol2 : K) (maxiter : Nat)
    (x0 : Vec D K) :
    let f := runState p solve tol2 maxiter x0
    (normSq f.fx ≤ tol2 * (k : K) ∨ f.i = maxiter ∨ normSq f.dx ≤ tol2 * (D : K)) ∧ f.i ≤ maxiter := by
  intro f
  obtain ⟨n, hn, heq, hall, hex⟩ := loop_spec p solve tol2 maxiter maxiter (init p x0)
  have hf : f = (body p solve)^[n] (init p x0) := heq
  have hi : f.i = n := by rw [hf, iterate_i]; simp [init]
  refine ⟨?_, by omega⟩
  rcases Nat.lt_or_ge n maxiter with h | h
  · have := (cont_eq_false_iff tol2 maxiter f).mp (by rw [hf]; exact hex h)
    rcases this with h1 | h2 | h3
    · exact Or.inl h1
    · exact Or.inr (Or.inl (by omega))
    · exact Or.inr (Or.inr h3)
  · exact Or.inr (Or.inl (by omega))

/-- **the statistics are truthful.** `iters` is exactly the number of Gauss–Newton steps made (the
returned state is `body^[iters] init`, and the test held at every earlier iterate);
`final_constraint` is the constraint at the returned point; `final_increment` is the difference between
the returned point and the previous iterate (for `iters = 0` it is the initial `ones_like(x0)`). -/
theorem gn_stats_truthful (p : Problem D k r K) (solve : Mat k r K → Vec k K → Vec r K) (tol2 : K)
    (maxiter : Nat) (x0 : Vec D K) :
    let res := run p solve tol2 maxiter x0
    let orbit := fun j => (body p solve)^[j] (init p x0)
    res.x = (orbit res.iters).x ∧
    (∀ j, j < res.iters → cont tol2 maxiter (orbit j) = true) ∧
    res.finalConstraint = p.g res.x ∧
    (0 < res.iters → res.finalIncrement = res.x.sub (orbit (res.iters - 1)).x) ∧
    (res.iters = 0 → res.x = x0 ∧ res.finalIncrement = Vec.ones) := by
  intro res orbit
  obtain ⟨n, hn, heq, hall, hex⟩ := loop_spec p solve tol2 maxiter maxiter (init p x0)
  have hf : runState p solve tol2 maxiter x0 = orbit n := heq
  have hi : res.iters = n := by
    show (runState p solve tol2 maxiter x0).i = n
    rw [hf, iterate_i]; simp [init]
  have hx : res.x = (orbit n).x := by show (runState p solve tol2 maxiter x0).x = _; rw [hf]
  have hfc : res.finalConstraint = (orbit n).fx := by show (runState p solve tol2 maxiter x0).fx = _; rw [hf]
  have hdx : res.finalIncrement = (orbit n).dx := by show (runState p solve tol2 maxiter x0).dx = _; rw [hf]
  refine ⟨by rw [hi]; exact hx, by rw [hi]; exact hall, ?_, ?_, ?_⟩
  · rw [hfc, hx]
    cases n with
    | zero => rfl
    | succ n => simp only [orbit, Function.iterate_succ_apply']; rfl
  · intro hpos
    rw [hdx, hx, hi]
    cases n with
    | zero => omega
    | succ n => simp only [orbit, Function.iterate_succ_apply', Nat.add_sub_cancel]; rfl
  · intro h0
    have : n = 0 := by omega
    subst this
    exact ⟨by rw [hx]; rfl, by rw [hdx]; rfl⟩

/-! ## affine constraints: the whole run -/

/-- for an affine constraint the routine returns either the starting point untouched (zero iterations:
the start already passed the test) or the point `m − L·dy`, `dy = solve (C L) (C m − e)` — however many
iterations the budget allowed -/
theorem gn_affine_run (C : Mat k D K) (e : Vec k K) (m : Vec D K) (L : Mat D r K)
    (solve : Mat k r K → Vec k K → Vec r K) (tol2 : K) (maxiter : Nat) (x0 : Vec D K) :
    let res := run (Problem.affine C e m L) solve tol2 maxiter x0
    (res.iters = 0 ∧ res.x = x0) ∨
      res.x.toV = m.toV - L.toM *ᵥ (solve (C.mul L) ((C.mulVec m).sub e)).toV := by
  intro res
  set p := Problem.affine C e m L with hp
  obtain ⟨n, hn, heq, -, -⟩ := loop_spec p solve tol2 maxiter maxiter (init p x0)
  have hinv : ∀ j, ((body p solve)^[j] (init p x0)).fx = p.g ((body p solve)^[j] (init p x0)).x := by
    intro j
    cases j with
    | zero => rfl
    | succ j => rw [Function.iterate_succ_apply']; rfl
  have hx : res.x = ((body p solve)^[n] (init p x0)).x := by
    show (runState p solve tol2 maxiter x0).x = _
    unfold runState; rw [heq]
  have hi : res.iters = n := by
    show (runState p solve tol2 maxiter x0).i = n
    unfold runState; rw [heq, iterate_i]; simp [init]
  cases n with
  | zero => exact Or.inl ⟨hi, by rw [hx]; rfl⟩
  | succ n =>
    right
    rw [hx, Function.iterate_succ_apply']
    exact gn_affine_one_step C e m L solve _ (hinv n)

/-- **affine, consistent ⇒ exactly one iteration.** If the start does not pass the test, the constraint
can be met on `m + range L` and the solver's answer at the start satisfies the normal equations, the
routine makes exactly one step, returns `m − L·dy`, and reports a zero constraint residual. -/
theorem gn_affine_one_iteration (C : Mat k D K) (e : Vec k K) (m : Vec D K) (L : Mat D r K)
    (solve : Mat k r K → Vec k K → Vec r K) (tol2 : K) (htol : 0 ≤ tol2) (maxiter : Nat) (x0 : Vec D K)
    (hstart : cont tol2 maxiter (init (Problem.affine C e m L) x0) = true)
    (y0 : Fin r → K) (hcons : (C.toM * L.toM) *ᵥ y0 = C.toM *ᵥ m.toV - e.toV)
    (hls : ((C.toM * L.toM)ᵀ * (C.toM * L.toM)) *ᵥ (solve (C.mul L) ((C.mulVec m).sub e)).toV
        = (C.toM * L.toM)ᵀ *ᵥ (C.toM *ᵥ m.toV - e.toV)) :
    let res := run (Problem.affine C e m L) solve tol2 maxiter x0
    res.iters = 1 ∧ res.x.toV = m.toV - L.toM *ᵥ (solve (C.mul L) ((C.mulVec m).sub e)).toV ∧
      res.finalConstraint.toV = 0 := by
  intro res
  set p := Problem.affine C e m L with hp
  have hlt := cont_true_lt tol2 maxiter _ hstart
  obtain ⟨f, hfuel⟩ : ∃ f, maxiter = f + 1 := ⟨maxiter - 1, by simp [init] at hlt; omega⟩
  set s1 := body p solve (init p x0) with hs1
  have hrhs : p.rhs (init p x0) = (C.mulVec m).sub e := affine_rhs C e m L _ rfl
  have hs1fx : s1.fx.toV = 0 := by
    have : s1 = bodyWith p (init p x0) (solve (C.mul L) ((C.mulVec m).sub e)) := by
      rw [hs1]; unfold body; rw [hrhs]; rfl
    rw [this]
    exact gn_affine_feasible C e m L _ _ y0 hls hcons
  have hstop : cont tol2 maxiter s1 = false := by
    rw [cont_eq_false_iff]
    left
    rw [normSq_eq, hs1fx, dotProduct_zero]
    exact mul_nonneg htol (Nat.cast_nonneg k)
  have hrun : runState p solve tol2 maxiter x0 = s1 := by
    unfold runState
    subst hfuel
    rw [loop, if_pos hstart]
    cases f with
    | zero => rfl
    | succ f => rw [loop, ← hs1, if_neg (by rw [hstop]; exact Bool.false_ne_true)]
  refine ⟨?_, ?_, ?_⟩
  · show (runState p solve tol2 maxiter x0).i = 1
    rw [hrun]; rfl
  · show (runState p solve tol2 maxiter x0).x.toV = _
    rw [hrun]
    exact gn_affine_one_step C e m L solve _ rfl
  · show (runState p solve tol2 maxiter x0).fx.toV = 0
    rw [hrun]; exact hs1fx

end ordered

/-! ## the point as Taylor point of a filter update -/

section link
variable [Field K]

/-- linearising an affine constraint is exact at *every* Taylor point (the Gauss–Newton point in
particular): `DenseResidual.linearize` builds `y | x ~ N(C x − e, 0)` -/
theorem linearize_affine_exact (C : Mat k D K) (e : Vec k K) (m : Vec D K) (L : Mat D r K) (ξ : Vec D K) :
    ((Problem.affine C e m L).linearizeAt ξ).A = C ∧
    ((Problem.affine C e m L).linearizeAt ξ).b.toV = - e.toV ∧
    ((Problem.affine C e m L).linearizeAt ξ).Q.toM = 0 := by
  refine ⟨rfl, ?_, by simp [Problem.linearizeAt]⟩
  simp only [Problem.linearizeAt, Problem.affine, toV_sub, toV_mulVec]
  abel

/-- **used as linearisation point, the update is exact for affine constraints.** Conditioning
`N(m, L Lᵀ)` on the linearised constraint `= 0` with *any* certified gain (`G S = P Cᵀ`, the hypothesis of
`C08.revert_joint`, which makes the returned pair the exact joint law) gives a posterior mean equal to the
Gauss–Newton point; with `S = C P Cᵀ` invertible both are the Gaussian conditional mean. -/
theorem gn_as_taylor_point_exact (C : Mat k D K) (e : Vec k K) (m : Vec D K) (L : Mat D r K) (ξ : Vec D K)
    (G : Mat D k K) (y : Vec r K) (z : Vec k K)
    (hls : ((C.toM * L.toM)ᵀ * (C.toM * L.toM)) *ᵥ y.toV = (C.toM * L.toM)ᵀ *ᵥ (C.toM *ᵥ m.toV - e.toV))
    (hmin : y.toV = (C.toM * L.toM)ᵀ *ᵥ z.toV)
    (hS : IsUnit (C.toM * (L.toM * L.toMᵀ) * C.toMᵀ).det) :
    let p := Problem.affine C e m L
    let prior : Gauss D K := { mean := m, cov := p.P }
    let c := p.linearizeAt ξ
    G.toM * (c.marg prior).cov.toM = (c.cross prior).toM →
      (((c.revertWith prior G).2).applyPt Vec.zero).mean.toV = m.toV - L.toM *ᵥ y.toV := by
  intro p prior c hG
  have hcm := gn_affine_cond_mean C e m L y z hls hmin hS
  rw [hcm]
  have hA : c.A.toM = C.toM := rfl
  have hb : c.b.toV = - e.toV := (linearize_affine_exact C e m L ξ).2.1
  have hQ : c.Q.toM = 0 := (linearize_affine_exact C e m L ξ).2.2
  have hScov : (c.marg prior).cov.toM = C.toM * (L.toM * L.toMᵀ) * C.toMᵀ := by
    have hL : p.L = L := rfl
    simp [Cond.marg, hA, hQ, prior, toM_P, hL]
  have hcross : (c.cross prior).toM = (L.toM * L.toMᵀ) * C.toMᵀ := by
    have hL : p.L = L := rfl
    simp [Cond.cross, hA, prior, toM_P, hL]
  have hGeq : G.toM = (L.toM * L.toMᵀ) * C.toMᵀ * (C.toM * (L.toM * L.toMᵀ) * C.toMᵀ)⁻¹ := by
    rw [hScov, hcross] at hG
    rw [← hG, Matrix.mul_assoc, Matrix.mul_nonsing_inv _ hS, Matrix.mul_one]
  have hmean : (((c.revertWith prior G).2).applyPt Vec.zero).mean.toV
      = m.toV - G.toM *ᵥ (C.toM *ᵥ m.toV - e.toV) := by
    simp only [Cond.revertWith, Cond.applyPt, Cond.marg, toV_add, toV_sub, toV_mulVec, toV_zero,
      Matrix.mulVec_zero, zero_add, hA, hb, prior]
    rw [sub_eq_add_neg (C.toM *ᵥ m.toV) e.toV]
  rw [hmean, hGeq]

end link

/-! ## non-vacuity: concrete rational instances (one with a singular factor) -/
section examples

def exC : Mat 1 2 Rat := ⟨fun _ _ => 1⟩
def exE : Vec 1 Rat := ⟨fun _ => 1⟩
def exM : Vec 2 Rat := ⟨fun _ => 0⟩
/-- regular factor `diag(1, 2)` -/
def exL : Mat 2 2 Rat := ⟨fun i j => if i = j then (if i.val = 0 then 1 else 2) else 0⟩
/-- singular factor `diag(1, 0)` -/
def exL0 : Mat 2 2 Rat := ⟨fun i j => if i.val = 0 ∧ j.val = 0 then 1 else 0⟩
-- regular: H = (1, 2), rhs = −1, dy = Hᵀ(H Hᵀ)⁻¹ rhs = (−1/5, −2/5), witness z = −1/5
def exY : Vec 2 Rat := ⟨fun i => if i.val = 0 then -1/5 else -2/5⟩
def exZ : Vec 1 Rat := ⟨fun _ => -1/5⟩
example : lstsqOk (exC.mul exL) ((exC.mulVec exM).sub exE) exY = true := by decide +kernel
example : minNormOk (exC.mul exL) exY exZ = true := by decide +kernel
-- singular: H = (1, 0), dy = (−1, 0), witness z = −1; the constraint is consistent on m + range L
def exY0 : Vec 2 Rat := ⟨fun i => if i.val = 0 then -1 else 0⟩
def exZ0 : Vec 1 Rat := ⟨fun _ => -1⟩
example : lstsqOk (exC.mul exL0) ((exC.mulVec exM).sub exE) exY0 = true := by decide +kernel
example : minNormOk (exC.mul exL0) exY0 exZ0 = true := by decide +kernel
-- the run from x0 = (5, 7) with tol² = 10⁻¹², budget 10: one iteration, constraint met exactly
example : (run (Problem.affine exC exE exM exL) (fun _ _ => exY) (1/10^12) 10 ⟨fun _ => 5⟩).iters = 1 := by
  decide +kernel
example : normSq (run (Problem.affine exC exE exM exL) (fun _ _ => exY) (1/10^12) 10 ⟨fun _ => 5⟩).finalConstraint = 0 := by
  decide +kernel
-- a nonlinear constraint x₀² + x₁ − 2 = 0 with an (unhelpful) zero answer of the solver: the budget of 3
-- is exhausted… no: dx = m − x vanishes after the first step, the loop stops on the increment test
example : (run (Problem.ofPoly (⟨fun _ => [⟨1, [2, 0]⟩, ⟨1, [0, 1]⟩, ⟨-2, []⟩]⟩ : Poly 1 Rat) exM exL)
    (fun _ _ => Vec.zero) (1/10^12) 3 ⟨fun _ => 5⟩).iters = 2 := by decide +kernel

end examples

end Pdq.C19
