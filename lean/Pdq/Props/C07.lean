import Pdq.Model.ErrorEst
import Pdq.Lemmas.ErrorEst
import Mathlib.Analysis.SpecialFunctions.Pow.Real
import Mathlib.Analysis.SpecialFunctions.Sqrt

/-!
# C07 — The acceptance quantity equals the documented local error estimate

Theorems about `Pdq.Model.ErrorEst` (the definitions the driver executes), for every size, every field
(ordered where `|·|`/`max` occur, `ℝ` where a root or a real power occurs), every transition, every
linearisation and every certified inverse / gain.

Notation of the statements (all on Mathlib matrices, written independently of the model; the definitions live in
`Pdq.Lemmas.ErrorEst`, section *documented quantities*):
`(Φ, q₀, Q) = den tr1` (the unit-scale transition with the Taylor preconditioner removed; `q₀ = 0`, `Φ = Φ(h)`,
`Q = Q(h)·Λ²` for the shipped IWP), `(H, b, R)` the linearisation in use (`chosen`: the cache or the
re-linearisation at the extrapolated means),

* `predMean s = Φ m_prev + q₀`, `innov s c = H Q Hᵀ + R`, `resid s c = H m⁻ + b`,
  `whitened2 s c = rᵀ S⁻¹ r`, `postCov s c G = Q − G S Gᵀ`;
* `refDoc dps j s _ a = max(|u_prev|, |u_new|)` on Taylor coefficient `j`, dimension `a`;
* `resPower cfg = residual_order − 1 (+1)`, `statePower cfg = derivative_idx (+1)`, `stepDoc h n = (hⁿ/n!)²`;
* `statDoc` / `stateStatDoc`: the pair (`rᵀS⁻¹r`, variances) of slice `j` of a collection.

Per-slice facts proved there and used here: `wsq_spec` (the model's squared whitened residual is `rᵀS⁻¹r` for every
certified inverse), `residualStat_spec` (variances `diag S`), `stateStat_spec` (posterior variances of one coefficient).

Main theorems: `errnorm_spec` (+ `_rms`, `_iso`, `_iso_rms`, `_bd`, `_bd_rms`), `errnorm_state_spec`,
`errnorm_indep_cov`, `cached_vs_relinearised_cached/_relin`, `errnorm_scale_invariant` (+ `_state_`),
`scale_invariance_needs_zero_damp` (witness that the `damp = 0` hypothesis is needed), `error_power_relation`,
`accept_iff`, `shape_error_of_num_outputs`, and the norms `scale_then_rms_documented`, `rms_then_scale_documented`.
-/
set_option linter.unusedSectionVars false
set_option linter.unusedSimpArgs false
open Matrix

namespace Pdq.C07
variable {K : Type} [Field K] {k n : Nat}

/-- what the driver checks before it executes the model (`invOk`, `gainOk`) are exactly the certificate hypotheses of
the theorems of this file -/
theorem certificates_iff [DecidableEq K] (s : ErrView k n K) (c : Cond k n K) :
    ((c.marg s.extrapolate).cov.invOk s.W = true ↔ innov s c * s.W.toM = 1) ∧
    (c.gainOk s.extrapolate s.G = true ↔ s.G.toM * innov s c = s.tr1.den.Q.toM * c.A.toMᵀ) := by
  obtain ⟨_, h2⟩ := marg_extrapolate s c
  obtain ⟨_, h4⟩ := extrapolate_spec s
  constructor
  · rw [C08.invOk_iff, h2]
  · rw [C08.gainOk_iff, h2]; simp [Cond.cross, h4]

/-! ## the squared error vector of the three factorisations -/

/-- dense: `σ̂² = rᵀS⁻¹r / k` times the variances -/
theorem err2Of_dense (hk : k ≠ 0) (t : SliceStat K) :
    ErrorEst.err2Of .dense k [t] = some (t.vars.map fun v => t.wsq / (k : K) * v) := by
  simp [ErrorEst.err2Of, hk]

/-- isotropic: the whitened residuals of all `d` slices are pooled, `σ̂² = Σ_a r_aᵀS⁻¹r_a / (k·d)`,
and multiply the (shared) variances once -/
theorem err2Of_iso (hk : k ≠ 0) (t : SliceStat K) (rest : List (SliceStat K)) :
    ErrorEst.err2Of .iso k (t :: rest)
      = some (t.vars.map fun v => ((t :: rest).map (·.wsq)).sum / (((rest.length + 1) * k : Nat) : K) * v) := by
  simp [ErrorEst.err2Of, hk]

/-- block-diagonal: one scale per slice, `σ̂_a² = r_aᵀS_a⁻¹r_a / k`, concatenated -/
theorem err2Of_bd (hk : k ≠ 0) (ts : List (SliceStat K)) :
    ErrorEst.err2Of .bd k ts = some (ts.flatMap fun t => t.vars.map fun v => t.wsq / (k : K) * v) := by
  simp [ErrorEst.err2Of, hk]

/-! ## the two norms (squared) -/
section norms
variable [LinearOrder K] [IsStrictOrderedRing K]

/-- the same on `Fin`-indexed vectors -/
theorem scaleThenRmsSq_spec {m : Nat} (hm : m ≠ 0) (e2 ref : Fin m → K) (atol rtol : K) :
    ErrorEst.scaleThenRmsSq ((List.finRange m).map e2) ((List.finRange m).map ref) atol rtol
      = some ((∑ i, e2 i / (atol + rtol * |ref i|) ^ 2) / (m : K)) := by
  have hne : (List.finRange m).map ref ≠ [] := by
    intro h; have := congrArg List.length h; simp at this; exact hm this
  rw [scaleThenRmsSq_lists _ _ atol rtol (by simp) hne, zipWith_map_finRange, sum_map_finRange]
  simp [relSq]

/-- `rms_then_scale` with `ρ = rms(reference)` supplied: `mean(e²) / (atol + rtol·ρ)²` -/
theorem rmsThenScaleSq_spec (e2 : List K) (atol rtol ρ : K) (hne : e2 ≠ []) :
    ErrorEst.rmsThenScaleSq e2 atol rtol ρ = some (e2.sum / (e2.length : K) / (atol + rtol * ρ) ^ 2) := by
  simp [ErrorEst.rmsThenScaleSq, mean_eq _ hne, pow_two]

theorem meanSq_spec {m : Nat} (hm : m ≠ 0) (ref : Fin m → K) :
    ErrorEst.meanSq ((List.finRange m).map ref) = some ((∑ i, ref i ^ 2) / (m : K)) := by
  have hne : ((List.finRange m).map ref).map (fun x => x * x) ≠ [] := by
    intro h; have := congrArg List.length h; simp at this; exact hm this
  rw [ErrorEst.meanSq, mean_eq _ hne, List.map_map, sum_map_finRange]
  simp [pow_two]

end norms

/-- **the norms are the documented ones** (over `ℝ`, where the roots exist): for standard deviations `err`,
`scale_then_rms` returns `(‖err / (atol + rtol·|ref|)‖₂ / √size)²`. -/
theorem scale_then_rms_documented {m : Nat} (hm : m ≠ 0) (err ref : Fin m → ℝ) (atol rtol : ℝ) :
    ErrorEst.scaleThenRmsSq ((List.finRange m).map fun i => err i ^ 2) ((List.finRange m).map ref) atol rtol
      = some ((Real.sqrt (∑ i, (err i / (atol + rtol * |ref i|)) ^ 2) / Real.sqrt m) ^ 2) := by
  rw [scaleThenRmsSq_spec hm]
  have h1 : (0 : ℝ) ≤ ∑ i, (err i / (atol + rtol * |ref i|)) ^ 2 := Finset.sum_nonneg fun i _ => sq_nonneg _
  rw [div_pow, Real.sq_sqrt h1, Real.sq_sqrt (Nat.cast_nonneg m)]
  simp only [div_pow]

/-- `rms_then_scale` returns `(rms(err) / (atol + rtol·rms(ref)))²` when the supplied `ρ` is `rms(ref)`,
i.e. `ρ ≥ 0` and `ρ² = meanSq ref` (the radicand the model returns). -/
theorem rms_then_scale_documented {m m' : Nat} (hm : m ≠ 0) (hm' : m' ≠ 0) (err : Fin m → ℝ) (ref : Fin m' → ℝ)
    (atol rtol ρ : ℝ) (hρ : 0 ≤ ρ) (hρ2 : ErrorEst.meanSq ((List.finRange m').map ref) = some (ρ ^ 2)) :
    ρ = Real.sqrt (∑ i, ref i ^ 2) / Real.sqrt m' ∧
    ErrorEst.rmsThenScaleSq ((List.finRange m).map fun i => err i ^ 2) atol rtol ρ
      = some ((Real.sqrt (∑ i, err i ^ 2) / Real.sqrt m / (atol + rtol * ρ)) ^ 2) := by
  rw [meanSq_spec hm'] at hρ2
  have hB : (∑ i, ref i ^ 2) / (m' : ℝ) = ρ ^ 2 := by simpa using hρ2
  constructor
  · rw [← Real.sqrt_div' _ (Nat.cast_nonneg m'), hB, Real.sqrt_sq hρ]
  · have hne : (List.finRange m).map (fun i => err i ^ 2) ≠ [] := by
      intro h; have := congrArg List.length h; simp at this; exact hm this
    rw [rmsThenScaleSq_spec _ _ _ _ hne, sum_map_finRange]
    have h1 : (0 : ℝ) ≤ ∑ i, err i ^ 2 := Finset.sum_nonneg fun i _ => sq_nonneg _
    rw [div_pow, div_pow, Real.sq_sqrt h1, Real.sq_sqrt (Nat.cast_nonneg m)]
    simp

/-! ## `error_residual_std.estimate_error_norm` equals the documented estimate -/
section spec
variable [LinearOrder K] [IsStrictOrderedRing K]

/-- the documented squared error estimate of a dense model, entry `i`:
`e_i² = σ̂² · (H Q(h) Hᵀ + R)_ii · (h^n/n!)²`, `σ̂² = rᵀ S⁻¹ r / k` -/
noncomputable def errDoc (s : ErrView k n K) (c : Cond k n K) (dt : K) (pw : Nat) (i : Fin k) : K :=
  whitened2 s c / (k : K) * innov s c i i * (dt ^ pw / (pw.factorial : K)) ^ 2

/-- **C07, residual estimator, dense, `scale_then_rms`.** For every transition, linearisation (cached or
re-evaluated, as configured), previous/proposed means, step, tolerances and certified inverse, the model returns
`norm² = mean_i e_i² / (atol + rtol·ref_i)²` with `e_i = σ̂·sqrt(diag(HQ(h)Hᵀ+R))_i·hⁿ/n!`,
`σ̂² = rᵀS⁻¹r/k`, `n = residual_order − 1 (+1)`, `ref = max(|u_prev|,|u_new|)` on coefficient 0, and the rate
`n/k = q + 1`. (`k = dps`: one output coefficient, as the code demands.) -/
theorem errnorm_spec (cfg : ErrCfg) (lin : List (Vec n K) → Nat → Cond k n K) (s : ErrView k n K)
    (dt atol rtol ρ : K) (hf : cfg.fact = .dense) (hnorm : cfg.norm = .scaleThenRms)
    (hdps : cfg.dps = k) (hk : k ≠ 0) (hkn : (0 + 1) * k ≤ n) (hres : cfg.resOrder ≠ 0)
    (hW : innov s (chosen1 cfg lin s) * s.W.toM = 1) :
    ErrorEst.residualStdV cfg lin [s] dt atol rtol ρ
      = .ok ((∑ i, errDoc s (chosen1 cfg lin s) dt (resPower cfg) i / (atol + rtol * |refDoc k 0 s hkn i|) ^ 2) / (k : K),
             n / k) := by
  obtain ⟨hw, hv⟩ := residualStat_spec s (chosen1 cfg lin s) hW
  have hkn' : ¬ n < k := by omega
  have hkk : k / k = 1 := Nat.div_self (Nat.pos_of_ne_zero hk)
  simp only [ErrorEst.residualStdV, hdps, hk, hkn', or_self, if_false, hf, residualStats_singleton,
    err2Of_dense hk, reference_singleton k 0 s hkn]
  rw [show ErrorEst.chosen cfg.relin lin (ErrorEst.means [s]) 0 s = chosen1 cfg lin s from rfl, hw, hv]
  simp only [List.map_map, List.length_map, List.length_finRange, ErrorEst.shapeOk, hkk, beq_self_eq_true,
    Bool.or_true, Bool.and_self, Bool.not_true, Bool.false_eq_true, if_false, ErrorEst.residualPower, hres,
    ErrorEst.finish, hnorm, ErrorEst.applyNorm]
  rw [scaleThenRmsSq_spec hk]
  simp only [Function.comp_def, stepFactor2_eq, errDoc, resPower]

/-- **C07, residual estimator, dense, `rms_then_scale`.** `norm² = mean_i e_i² / (atol + rtol·ρ)²` with the same
`e_i` and `ρ = rms(ref)` (see `rms_then_scale_documented` for the root). -/
theorem errnorm_spec_rms (cfg : ErrCfg) (lin : List (Vec n K) → Nat → Cond k n K) (s : ErrView k n K)
    (dt atol rtol ρ : K) (hf : cfg.fact = .dense) (hnorm : cfg.norm = .rmsThenScale)
    (hdps : cfg.dps = k) (hk : k ≠ 0) (hkn : (0 + 1) * k ≤ n) (hres : cfg.resOrder ≠ 0)
    (hW : innov s (chosen1 cfg lin s) * s.W.toM = 1) :
    ErrorEst.residualStdV cfg lin [s] dt atol rtol ρ
      = .ok ((∑ i, errDoc s (chosen1 cfg lin s) dt (resPower cfg) i) / (k : K) / (atol + rtol * ρ) ^ 2, n / k) ∧
    ErrorEst.meanSq (ErrorEst.reference cfg.dps 0 [s]) = some ((∑ i, refDoc k 0 s hkn i ^ 2) / (k : K)) := by
  obtain ⟨hw, hv⟩ := residualStat_spec s (chosen1 cfg lin s) hW
  have hkn' : ¬ n < k := by omega
  have hkk : k / k = 1 := Nat.div_self (Nat.pos_of_ne_zero hk)
  constructor
  · simp only [ErrorEst.residualStdV, hdps, hk, hkn', or_self, if_false, hf, residualStats_singleton,
      err2Of_dense hk, reference_singleton k 0 s hkn]
    rw [show ErrorEst.chosen cfg.relin lin (ErrorEst.means [s]) 0 s = chosen1 cfg lin s from rfl, hw, hv]
    have hne : (List.finRange k).map (refDoc k 0 s hkn) ≠ [] := by
      intro h; have := congrArg List.length h; simp at this; exact hk this
    have hne2 : ∀ f : Fin k → K, (List.finRange k).map f ≠ [] := by
      intro f h; have := congrArg List.length h; simp at this; exact hk this
    simp only [List.map_map, List.length_map, List.length_finRange, ErrorEst.shapeOk, hkk, beq_self_eq_true,
      Bool.or_true, Bool.and_self, Bool.not_true, Bool.false_eq_true, if_false, ErrorEst.residualPower, hres,
      ErrorEst.finish, hnorm, ErrorEst.applyNorm, List.isEmpty_iff, hne]
    rw [rmsThenScaleSq_spec _ _ _ _ (hne2 _), sum_map_finRange]
    simp only [Function.comp_def, stepFactor2_eq, errDoc, resPower, List.length_map, List.length_finRange]
  · rw [hdps, reference_singleton k 0 s hkn, meanSq_spec hk]

theorem residualStats_spec (relin : Bool) (lin : List (Vec n K) → Nat → Cond k n K) (vs : List (ErrView k n K))
    (hW : ∀ j (h : j < vs.length),
      innov vs[j] (ErrorEst.chosen relin lin (ErrorEst.means vs) j vs[j]) * vs[j].W.toM = 1) :
    ErrorEst.residualStats relin lin vs = vs.mapIdx (statDoc relin lin vs) := by
  rw [ErrorEst.residualStats, List.mapIdx_eq_mapIdx_iff]
  intro j h
  obtain ⟨h1, h2⟩ := residualStat_spec vs[j] _ (hW j h)
  rw [statDoc]
  cases hs : vs[j].residualStat (ErrorEst.chosen relin lin (ErrorEst.means vs) j vs[j]) with
  | mk w v => rw [hs] at h1 h2; simp only at h1 h2; rw [h1, h2]

/-- in a block-diagonal (scalar-slice) model the local scale cancels the variance: `σ̂_a² S_a = r_a²` -/
theorem bd_scale_cancels (s : ErrView 1 n K) (c : Cond 1 n K) (hS : innov s c 0 0 ≠ 0) :
    whitened2 s c / ((1 : Nat) : K) * innov s c 0 0 = resid s c 0 ^ 2 := by
  have hdet : (innov s c).det = innov s c 0 0 := by simp [Matrix.det_fin_one]
  have hinv : (innov s c)⁻¹ 0 0 = (innov s c 0 0)⁻¹ := by
    rw [Matrix.inv_def, hdet]
    simp [Matrix.adjugate_fin_one, Ring.inverse_eq_inv']
  simp only [whitened2, dotProduct, Matrix.mulVec, Fin.sum_univ_one, Fin.isValue, hinv, Nat.cast_one, div_one]
  field_simp

/-- **C07, residual estimator, isotropic, `scale_then_rms`** (one output coefficient, `k = dps = 1`, `d` slices
sharing the covariance).  The local scale pools all slices with `size = d`:
`σ̂² = Σ_a r_a²/S / d`; the error estimate is the single number `e² = σ̂²·S·(hⁿ/n!)²` (shape `(1,)`), broadcast
against the `d` references: `norm² = mean_a e² / (atol + rtol·ref_a)²`. -/
theorem errnorm_spec_iso (cfg : ErrCfg) (lin : List (Vec n K) → Nat → Cond 1 n K)
    (s : ErrView 1 n K) (rest : List (ErrView 1 n K)) (dt atol rtol ρ : K)
    (hf : cfg.fact = .iso) (hnorm : cfg.norm = .scaleThenRms) (hdps : cfg.dps = 1) (hn : (0 + 1) * 1 ≤ n)
    (hres : cfg.resOrder ≠ 0)
    (hW : ∀ j (h : j < (s :: rest).length),
      innov (s :: rest)[j] (ErrorEst.chosen cfg.relin lin (ErrorEst.means (s :: rest)) j (s :: rest)[j])
        * (s :: rest)[j].W.toM = 1) :
    let vs := s :: rest
    let σ2 := ((vs.mapIdx (statDoc cfg.relin lin vs)).map (·.wsq)).sum / (vs.length : K)
    let e2 := σ2 * innov s (ErrorEst.chosen cfg.relin lin (ErrorEst.means vs) 0 s) 0 0 * stepDoc dt (resPower cfg)
    ErrorEst.residualStdV cfg lin vs dt atol rtol ρ
      = .ok ((vs.map fun t => e2 / (atol + rtol * |refDoc 1 0 t hn 0|) ^ 2).sum / (vs.length : K), n / 1) := by
  intro vs σ2 e2
  have hn' : ¬ n < 1 := by omega
  have hne : vs.map (fun t => refDoc 1 0 t hn 0) ≠ [] := by simp [vs]
  simp only [ErrorEst.residualStdV, hdps, one_ne_zero, hn', or_self, if_false, hf,
    residualStats_spec cfg.relin lin vs hW, reference_dps_one 0 vs hn]
  rw [show vs.mapIdx (statDoc cfg.relin lin vs)
      = statDoc cfg.relin lin vs 0 s :: rest.mapIdx (fun i => statDoc cfg.relin lin vs (i + 1)) from List.mapIdx_cons,
    err2Of_iso one_ne_zero]
  simp only [statDoc, List.finRange_succ, List.finRange_zero, List.map_nil, List.map_cons, List.length_cons,
    List.length_nil, List.length_map, List.length_mapIdx, ErrorEst.shapeOk, Nat.div_self, Nat.lt_one_iff,
    beq_self_eq_true, Bool.true_or, Bool.and_self, Bool.not_true, Bool.false_eq_true, if_false,
    ErrorEst.residualPower, hres, ErrorEst.finish, hnorm, ErrorEst.applyNorm, Nat.zero_lt_one, Nat.one_pos]
  rw [scaleThenRmsSq_single _ _ _ _ hne]
  simp only [List.map_map, List.length_map, vs, List.length_cons, Except.ok.injEq, Prod.mk.injEq, and_true,
    Option.some.injEq]
  congr 2
  apply List.map_congr_left
  intro t _
  simp only [Function.comp_def, relSq, e2, σ2, stepDoc, stepFactor2_eq, resPower, vs, statDoc, List.mapIdx_cons,
    List.map_cons, List.length_cons, Nat.mul_one, Fin.isValue]

/-- **C07, residual estimator, block-diagonal, `scale_then_rms`** (`k = dps = 1`, `d` slices with their own
covariance).  One local scale per slice with `size = 1`: `σ̂_a² = r_a²/S_a`, `e_a² = σ̂_a²·S_a·(hⁿ/n!)²`
(shape `(d,)`), `norm² = mean_a e_a² / (atol + rtol·ref_a)²`. -/
theorem errnorm_spec_bd (cfg : ErrCfg) (lin : List (Vec n K) → Nat → Cond 1 n K)
    (vs : List (ErrView 1 n K)) (dt atol rtol ρ : K)
    (hf : cfg.fact = .bd) (hnorm : cfg.norm = .scaleThenRms) (hdps : cfg.dps = 1) (hn : (0 + 1) * 1 ≤ n)
    (hres : cfg.resOrder ≠ 0) (hne : vs ≠ [])
    (hW : ∀ j (h : j < vs.length),
      innov vs[j] (ErrorEst.chosen cfg.relin lin (ErrorEst.means vs) j vs[j]) * vs[j].W.toM = 1) :
    ErrorEst.residualStdV cfg lin vs dt atol rtol ρ
      = .ok ((vs.mapIdx fun j t =>
                let c := ErrorEst.chosen cfg.relin lin (ErrorEst.means vs) j t
                (whitened2 t c / ((1 : Nat) : K) * innov t c 0 0 * stepDoc dt (resPower cfg))
                  / (atol + rtol * |refDoc 1 0 t hn 0|) ^ 2).sum / (vs.length : K), n / 1) := by
  have hn' : ¬ n < 1 := by omega
  have hne' : vs.map (fun t => refDoc 1 0 t hn 0) ≠ [] := by simpa using hne
  simp only [ErrorEst.residualStdV, hdps, one_ne_zero, hn', or_self, if_false, hf,
    residualStats_spec cfg.relin lin vs hW, reference_dps_one 0 vs hn, err2Of_bd one_ne_zero]
  rw [flatMap_mapIdx_single (fun t : SliceStat K => t.vars.map fun v => t.wsq / ((1 : Nat) : K) * v) vs
    (statDoc cfg.relin lin vs)
    (fun j t => whitened2 t (ErrorEst.chosen cfg.relin lin (ErrorEst.means vs) j t) / ((1 : Nat) : K)
      * innov t (ErrorEst.chosen cfg.relin lin (ErrorEst.means vs) j t) 0 0)
    (by intro j t; simp [statDoc, List.finRange_succ])]
  simp only [List.length_map, List.length_mapIdx, ErrorEst.shapeOk, Nat.div_self, Nat.zero_lt_one,
    beq_self_eq_true, Bool.or_true, Bool.and_self, Bool.not_true, Bool.false_eq_true, if_false,
    ErrorEst.residualPower, hres, ErrorEst.finish, hnorm, ErrorEst.applyNorm]
  rw [scaleThenRmsSq_lists _ _ _ _ (by simp) hne']
  simp only [map_mapIdx', zipWith_mapIdx_map, List.length_map, relSq, stepFactor2_eq, stepDoc, resPower]

/-- **C07, residual estimator, isotropic, `rms_then_scale`**: the single pooled estimate over
`(atol + rtol·ρ)²`, `ρ = rms(ref)` over the `d` slices. -/
theorem errnorm_spec_iso_rms (cfg : ErrCfg) (lin : List (Vec n K) → Nat → Cond 1 n K)
    (s : ErrView 1 n K) (rest : List (ErrView 1 n K)) (dt atol rtol ρ : K)
    (hf : cfg.fact = .iso) (hnorm : cfg.norm = .rmsThenScale) (hdps : cfg.dps = 1) (hn : (0 + 1) * 1 ≤ n)
    (hres : cfg.resOrder ≠ 0)
    (hW : ∀ j (h : j < (s :: rest).length),
      innov (s :: rest)[j] (ErrorEst.chosen cfg.relin lin (ErrorEst.means (s :: rest)) j (s :: rest)[j])
        * (s :: rest)[j].W.toM = 1) :
    let vs := s :: rest
    let σ2 := ((vs.mapIdx (statDoc cfg.relin lin vs)).map (·.wsq)).sum / (vs.length : K)
    let e2 := σ2 * innov s (ErrorEst.chosen cfg.relin lin (ErrorEst.means vs) 0 s) 0 0 * stepDoc dt (resPower cfg)
    ErrorEst.residualStdV cfg lin vs dt atol rtol ρ = .ok (e2 / (atol + rtol * ρ) ^ 2, n / 1) := by
  intro vs σ2 e2
  have hn' : ¬ n < 1 := by omega
  simp only [ErrorEst.residualStdV, hdps, one_ne_zero, hn', or_self, if_false, hf,
    residualStats_spec cfg.relin lin vs hW, reference_dps_one 0 vs hn]
  rw [show vs.mapIdx (statDoc cfg.relin lin vs)
      = statDoc cfg.relin lin vs 0 s :: rest.mapIdx (fun i => statDoc cfg.relin lin vs (i + 1)) from List.mapIdx_cons,
    err2Of_iso one_ne_zero]
  simp only [statDoc, List.finRange_succ, List.finRange_zero, List.map_nil, List.map_cons, List.length_cons,
    List.length_nil, List.length_map, List.length_mapIdx, ErrorEst.shapeOk, Nat.div_self, Nat.lt_one_iff,
    beq_self_eq_true, Bool.true_or, Bool.and_self, Bool.not_true, Bool.false_eq_true, if_false,
    ErrorEst.residualPower, hres, ErrorEst.finish, hnorm, ErrorEst.applyNorm, Nat.zero_lt_one, Nat.one_pos,
    vs, List.isEmpty_cons]
  rw [rmsThenScaleSq_spec _ _ _ _ (by simp)]
  simp only [List.sum_cons, List.sum_nil, add_zero, List.length_cons, List.length_nil, Nat.cast_one, div_one,
    Nat.zero_add, Except.ok.injEq, Prod.mk.injEq, and_true]
  simp only [e2, σ2, stepDoc, stepFactor2_eq, resPower, vs, statDoc, List.mapIdx_cons,
    List.map_cons, List.length_cons, Nat.mul_one, Fin.isValue, List.sum_cons]

/-- **C07, residual estimator, block-diagonal, `rms_then_scale`**: `mean_a e_a² / (atol + rtol·ρ)²`. -/
theorem errnorm_spec_bd_rms (cfg : ErrCfg) (lin : List (Vec n K) → Nat → Cond 1 n K)
    (vs : List (ErrView 1 n K)) (dt atol rtol ρ : K)
    (hf : cfg.fact = .bd) (hnorm : cfg.norm = .rmsThenScale) (hdps : cfg.dps = 1) (hn : (0 + 1) * 1 ≤ n)
    (hres : cfg.resOrder ≠ 0) (hne : vs ≠ [])
    (hW : ∀ j (h : j < vs.length),
      innov vs[j] (ErrorEst.chosen cfg.relin lin (ErrorEst.means vs) j vs[j]) * vs[j].W.toM = 1) :
    ErrorEst.residualStdV cfg lin vs dt atol rtol ρ
      = .ok ((vs.mapIdx fun j t =>
                let c := ErrorEst.chosen cfg.relin lin (ErrorEst.means vs) j t
                whitened2 t c / ((1 : Nat) : K) * innov t c 0 0 * stepDoc dt (resPower cfg)).sum
              / (vs.length : K) / (atol + rtol * ρ) ^ 2, n / 1) := by
  have hn' : ¬ n < 1 := by omega
  have hne' : vs.map (fun t => refDoc 1 0 t hn 0) ≠ [] := by simpa using hne
  simp only [ErrorEst.residualStdV, hdps, one_ne_zero, hn', or_self, if_false, hf,
    residualStats_spec cfg.relin lin vs hW, reference_dps_one 0 vs hn, err2Of_bd one_ne_zero]
  rw [flatMap_mapIdx_single (fun t : SliceStat K => t.vars.map fun v => t.wsq / ((1 : Nat) : K) * v) vs
    (statDoc cfg.relin lin vs)
    (fun j t => whitened2 t (ErrorEst.chosen cfg.relin lin (ErrorEst.means vs) j t) / ((1 : Nat) : K)
      * innov t (ErrorEst.chosen cfg.relin lin (ErrorEst.means vs) j t) 0 0)
    (by intro j t; simp [statDoc, List.finRange_succ])]
  have hne2 : (vs.mapIdx fun j t =>
      whitened2 t (ErrorEst.chosen cfg.relin lin (ErrorEst.means vs) j t) / ((1 : Nat) : K)
        * innov t (ErrorEst.chosen cfg.relin lin (ErrorEst.means vs) j t) 0 0).map
          (fun e => e * ErrorEst.stepFactor2 dt (cfg.resOrder - 1 + if cfg.perUnitStep = true then 1 else 0)) ≠ [] := by
    simpa [List.mapIdx_eq_nil_iff] using hne
  simp only [List.length_map, List.length_mapIdx, ErrorEst.shapeOk, Nat.div_self, Nat.zero_lt_one,
    beq_self_eq_true, Bool.or_true, Bool.and_self, Bool.not_true, Bool.false_eq_true, if_false,
    ErrorEst.residualPower, hres, ErrorEst.finish, hnorm, ErrorEst.applyNorm, List.isEmpty_iff, hne']
  rw [rmsThenScaleSq_spec _ _ _ _ hne2]
  simp only [map_mapIdx', List.length_map, List.length_mapIdx, stepFactor2_eq, stepDoc, resPower]

end spec

/-! ## `error_state_std.estimate_error_norm` -/
section statespec
variable [LinearOrder K] [IsStrictOrderedRing K]

/-- documented squared state error of a dense model, dimension `a`: posterior variance of Taylor coefficient
`derivative_idx` times the squared local scale times `(hⁿ/n!)²` -/
noncomputable def errStateDoc (dps idx : Nat) (s : ErrView k n K) (c : Cond k n K) (hidx : (idx + 1) * dps ≤ n)
    (dt : K) (pw : Nat) (a : Fin dps) : K :=
  whitened2 s c / (k : K)
    * postCov s c s.G.toM ⟨idx * dps + a.val, by have := a.isLt; nlinarith [Nat.succ_mul idx dps]⟩
        ⟨idx * dps + a.val, by have := a.isLt; nlinarith [Nat.succ_mul idx dps]⟩
    * stepDoc dt pw

/-- **C07, state estimator, dense, `scale_then_rms`.** `norm² = mean_a e_a² / (atol + rtol·ref_a)²` with
`e_a = σ̂ · posterior std of coefficient derivative_idx · hⁿ/n!`, `σ̂² = rᵀS⁻¹r/k`, `n = derivative_idx (+1)`,
the posterior being that of the mean-only extrapolation `N(Φm, Q(h))` conditioned on the linearised constraint,
`ref = max(|u_prev|,|u_new|)` on coefficient `derivative_idx`; rate `n/dps = q + 1`. -/
theorem errnorm_state_spec (cfg : ErrCfg) (lin : List (Vec n K) → Nat → Cond k n K) (s : ErrView k n K)
    (dt atol rtol ρ : K) (hf : cfg.fact = .dense) (hnorm : cfg.norm = .scaleThenRms)
    (hdps : cfg.dps ≠ 0) (hk : k ≠ 0) (hidx : (cfg.derivIdx + 1) * cfg.dps ≤ n)
    (hW : innov s (chosen1 cfg lin s) * s.W.toM = 1) :
    ErrorEst.stateStdV cfg lin [s] dt atol rtol ρ
      = .ok ((∑ a, errStateDoc cfg.dps cfg.derivIdx s (chosen1 cfg lin s) hidx dt (statePower cfg) a
                / (atol + rtol * |refDoc cfg.dps cfg.derivIdx s hidx a|) ^ 2) / (cfg.dps : K), n / cfg.dps) := by
  obtain ⟨hw, hv⟩ := stateStat_spec cfg.dps cfg.derivIdx s (chosen1 cfg lin s) hW hidx
  have hidx' : ¬ n < (cfg.derivIdx + 1) * cfg.dps := by omega
  simp only [ErrorEst.stateStdV, hdps, hidx', or_self, if_false, hf, stateStats_singleton,
    err2Of_dense hk, reference_singleton cfg.dps cfg.derivIdx s hidx]
  rw [show ErrorEst.chosen cfg.relin lin (ErrorEst.means [s]) 0 s = chosen1 cfg lin s from rfl, hw, hv]
  simp only [List.map_map, ErrorEst.finish, hnorm, ErrorEst.applyNorm]
  rw [scaleThenRmsSq_spec hdps]
  simp only [Function.comp_def, stepFactor2_eq, errStateDoc, statePower, ErrorEst.statePower, stepDoc]

/-- the posterior covariance used by the state estimator is the textbook one, `Q − Q Hᵀ S⁻¹ H Q`, whenever the
gain is certified (`G S = Q Hᵀ`), `S` is invertible and `Q`, `S` are symmetric -/
theorem postCov_textbook (s : ErrView k n K) (c : Cond k n K)
    (hG : s.G.toM * innov s c = s.tr1.den.Q.toM * c.A.toMᵀ) (hW : innov s c * s.W.toM = 1)
    (hQ : s.tr1.den.Q.toMᵀ = s.tr1.den.Q.toM) (hS : (innov s c)ᵀ = innov s c) :
    postCov s c s.G.toM
      = s.tr1.den.Q.toM - s.tr1.den.Q.toM * c.A.toMᵀ * (innov s c)⁻¹ * c.A.toM * s.tr1.den.Q.toM := by
  have hinv : (innov s c)⁻¹ = s.W.toM := Matrix.inv_eq_right_inv hW
  have hGW : s.G.toM = s.tr1.den.Q.toM * c.A.toMᵀ * s.W.toM := by
    calc s.G.toM = s.G.toM * (innov s c * s.W.toM) := by rw [hW, Matrix.mul_one]
      _ = s.tr1.den.Q.toM * c.A.toMᵀ * s.W.toM := by rw [← Matrix.mul_assoc, hG]
  have hWt : s.W.toMᵀ = s.W.toM := by rw [← hinv, Matrix.transpose_nonsing_inv, hS]
  have hGt : s.G.toMᵀ = s.W.toM * c.A.toM * s.tr1.den.Q.toM := by
    rw [hGW, Matrix.transpose_mul, Matrix.transpose_mul, Matrix.transpose_transpose, hWt, hQ, Matrix.mul_assoc]
  rw [postCov, hG, hGt, hinv]
  simp only [Matrix.mul_assoc]

/-- state estimator, all factorisations: every slice contributes `rᵀS⁻¹r` and the posterior variances of
coefficient `derivative_idx`; `err2Of_dense/iso/bd` then say how they are pooled -/
theorem stateStats_spec (relin : Bool) (lin : List (Vec n K) → Nat → Cond k n K) (dps idx : Nat)
    (hidx : (idx + 1) * dps ≤ n) (vs : List (ErrView k n K))
    (hW : ∀ j (h : j < vs.length),
      innov vs[j] (ErrorEst.chosen relin lin (ErrorEst.means vs) j vs[j]) * vs[j].W.toM = 1) :
    ErrorEst.stateStats relin lin dps idx vs = vs.mapIdx (stateStatDoc relin lin dps idx hidx vs) := by
  rw [ErrorEst.stateStats, List.mapIdx_eq_mapIdx_iff]
  intro j h
  obtain ⟨h1, h2⟩ := stateStat_spec dps idx vs[j] _ (hW j h) hidx
  rw [stateStatDoc]
  cases hs : vs[j].stateStat dps idx (ErrorEst.chosen relin lin (ErrorEst.means vs) j vs[j]) with
  | mk w v => rw [hs] at h1 h2; simp only at h1 h2; rw [h1, h2]

end statespec

/-! ## no dependence on the previous covariance; cached vs re-linearised -/
section structural

/-- two inputs that agree in everything the estimators read: same transition, same previous **mean**, same
proposed mean, same cache and certificates — the previous (and proposed) covariances and backward models are free -/
def SameRead (a b : ErrIn k n K) : Prop :=
  a.tr1 = b.tr1 ∧ a.previous.u.mean = b.previous.u.mean ∧ a.proposed.u.mean = b.proposed.u.mean ∧
  a.cached = b.cached ∧ a.W = b.W ∧ a.G = b.G

/-- **C07, "computed from the previous mean only".** Both estimators return the same `(norm², rate)` (or the same
failure) for any two histories whose previous states have the same mean: the previous covariance, the backward
conditional and the proposed covariance never enter.  (A syntactic fact: the estimators factor through `ErrIn.view`.) -/
theorem errnorm_indep_cov [LT K] [DecidableLT K] (cfg : ErrCfg) (lin : List (Vec n K) → Nat → Cond k n K)
    (ins ins' : List (ErrIn k n K)) (dt atol rtol ρ : K) (h : List.Forall₂ SameRead ins ins') :
    ErrorEst.residualStd cfg lin ins dt atol rtol ρ = ErrorEst.residualStd cfg lin ins' dt atol rtol ρ ∧
    ErrorEst.stateStd cfg lin ins dt atol rtol ρ = ErrorEst.stateStd cfg lin ins' dt atol rtol ρ := by
  have hv : ins.map ErrIn.view = ins'.map ErrIn.view := by
    apply forall2_map_eq ErrIn.view _ h
    rintro a b ⟨h1, h2, h3, h4, h5, h6⟩
    simp [ErrIn.view, h1, h2, h3, h4, h5, h6]
  simp only [ErrorEst.residualStd, ErrorEst.stateStd, hv, and_self]

/-- in particular: replacing the previous state by *any* state with the same mean changes nothing -/
theorem errnorm_indep_cov_one [LT K] [DecidableLT K] (cfg : ErrCfg) (lin : List (Vec n K) → Nat → Cond k n K)
    (a : ErrIn k n K) (p : SolState n K) (hp : p.u.mean = a.previous.u.mean) (dt atol rtol ρ : K) :
    ErrorEst.residualStd cfg lin [{ a with previous := p }] dt atol rtol ρ
      = ErrorEst.residualStd cfg lin [a] dt atol rtol ρ ∧
    ErrorEst.stateStd cfg lin [{ a with previous := p }] dt atol rtol ρ
      = ErrorEst.stateStd cfg lin [a] dt atol rtol ρ :=
  errnorm_indep_cov cfg lin _ _ dt atol rtol ρ
    (List.Forall₂.cons ⟨rfl, hp, rfl, rfl, rfl, rfl⟩ List.Forall₂.nil)

/-- **cached.** With `re_linearize_before_error = False` the linearisation in use is `proposed.fun_evals`:
the constraint's `linearize` is never consulted. -/
theorem cached_vs_relinearised_cached [LT K] [DecidableLT K] (cfg : ErrCfg) (hc : cfg.relin = false)
    (lin lin' : List (Vec n K) → Nat → Cond k n K) (vs : List (ErrView k n K)) (dt atol rtol ρ : K) :
    ErrorEst.residualStdV cfg lin vs dt atol rtol ρ = ErrorEst.residualStdV cfg lin' vs dt atol rtol ρ ∧
    ErrorEst.stateStdV cfg lin vs dt atol rtol ρ = ErrorEst.stateStdV cfg lin' vs dt atol rtol ρ ∧
    ∀ means j s, ErrorEst.chosen cfg.relin lin means j s = s.cached := by
  refine ⟨residualStdV_congr cfg lin lin' vs vs dt atol rtol ρ ?_ rfl,
    stateStdV_congr cfg lin lin' vs vs dt atol rtol ρ ?_ rfl, ?_⟩
  · simp [ErrorEst.residualStats, ErrorEst.chosen, hc]
  · simp [ErrorEst.stateStats, ErrorEst.chosen, hc]
  · intro means j s; simp [ErrorEst.chosen, hc]

/-- two views that differ at most in the cache -/
def SameButCache (a b : ErrView k n K) : Prop :=
  a.tr1 = b.tr1 ∧ a.m0 = b.m0 ∧ a.m1 = b.m1 ∧ a.W = b.W ∧ a.G = b.G

/-- **re-linearised.** With `re_linearize_before_error = True` the cache is never read, and the constraint is
linearised exactly at the extrapolated means `Φ(h)·mean_prev + q₀` (`means_spec`): two linearisation routines that
agree there give the same result. -/
theorem cached_vs_relinearised_relin [LT K] [DecidableLT K] (cfg : ErrCfg) (hc : cfg.relin = true)
    (lin lin' : List (Vec n K) → Nat → Cond k n K) (vs vs' : List (ErrView k n K)) (dt atol rtol ρ : K)
    (hv : List.Forall₂ SameButCache vs vs')
    (hlin : ∀ j, lin (ErrorEst.means vs) j = lin' (ErrorEst.means vs) j) :
    ErrorEst.residualStdV cfg lin vs dt atol rtol ρ = ErrorEst.residualStdV cfg lin' vs' dt atol rtol ρ ∧
    ErrorEst.stateStdV cfg lin vs dt atol rtol ρ = ErrorEst.stateStdV cfg lin' vs' dt atol rtol ρ := by
  have hmeans : ErrorEst.means vs = ErrorEst.means vs' := by
    apply forall2_map_eq _ _ hv
    rintro a b ⟨h1, h2, _, _, _⟩
    simp [ErrView.extrapolate, h1, h2]
  have href : ∀ j, ErrorEst.reference cfg.dps j vs = ErrorEst.reference cfg.dps j vs' := by
    intro j
    apply forall2_flatMap_eq _ _ hv
    rintro a b ⟨_, h2, h3, _, _⟩
    simp [h2, h3]
  refine ⟨residualStdV_congr cfg lin lin' vs vs' dt atol rtol ρ ?_ (href 0),
    stateStdV_congr cfg lin lin' vs vs' dt atol rtol ρ ?_ (href _)⟩
  · apply forall2_mapIdx_eq _ _ _ hv
    rintro j a b ⟨h1, h2, _, h4, _⟩
    simp [ErrorEst.chosen, hc, ← hmeans, hlin, ErrView.residualStat, ErrView.extrapolate, h1, h2, h4]
  · apply forall2_mapIdx_eq _ _ _ hv
    rintro j a b ⟨h1, h2, _, h4, h5⟩
    simp [ErrorEst.chosen, hc, ← hmeans, hlin, ErrView.stateStat, ErrView.extrapolate, h1, h2, h4, h5]

/-- the points of re-linearisation are the extrapolated means `Φ(h) m_prev + q₀` -/
theorem means_spec (vs : List (ErrView k n K)) (j : Nat) (h : j < vs.length) :
    ((ErrorEst.means vs)[j]'(by simpa [ErrorEst.means] using h)).toV = predMean vs[j] := by
  simp only [ErrorEst.means, List.getElem_map]
  exact (extrapolate_spec vs[j]).1

/-- a solver that linearises at its predicted mean caches exactly the re-linearisation (in exact arithmetic):
the filter prediction through a transition with the same `A, b` and scalings has the extrapolated mean -/
theorem predicted_mean_eq_extrapolated (tr : PCond n n K) (s : ErrView k n K) (st : SolState n K) (Gt : Mat n n K)
    (hA : tr.A = s.tr1.A) (hb : tr.b = s.tr1.b) (hl : tr.tl = s.tr1.tl) (ho : tr.tob = s.tr1.tob)
    (hm : st.u.mean = s.m0) :
    (Strategy.filter.predict tr st Gt).u.mean = s.extrapolate.mean := by
  simp [Strategy.predict, PCond.marg, ErrView.extrapolate, PCond.applyPt, hA, hb, hl, ho, hm]

end structural

/-! ## invariance under rescaling the base output scale -/
section scale

/-- for the shipped IWP this is literally `Λ ↦ cΛ`: the noise covariance is `h·s2·H1` with `s2 = Λ²` -/
theorem iwp_scaled (q : Nat) (h s2 c : K) :
    Iwp.transition1 q h ((c * c) * s2) = scaledTr c (Iwp.transition1 q h s2) := by
  simp only [Iwp.transition1, scaledTr]
  congr 1
  apply Mat.ext'
  simp only [toM_smul, smul_smul]
  congr 1; ring

/-- **C07, scale invariance.** Replace the base output scale `Λ` by `cΛ` (`scaledTr`: the process noise of every
slice is multiplied by `c²`), keep means, cache and linearisation routine.  If `c ≠ 0`, the linearisations in use
carry no observation noise (`damp = 0`: `R = 0`) and the innovation covariances are invertible (certificates `W`, `W'`
exist for both problems — otherwise the whitened residual is undefined), then the residual estimator returns the
same `(norm², rate)`: `Q ↦ c²Q`, `S ↦ c²S`, `σ̂² ↦ c⁻²σ̂²`, `σ̂²·diag S` unchanged.  These are the hypotheses the
proof forces; with `R ≠ 0` the statement is false (`σ̂²·diag(c²HQHᵀ + R)` is not homogeneous). -/
theorem errnorm_scale_invariant [LT K] [DecidableLT K] (cfg : ErrCfg) (lin : List (Vec n K) → Nat → Cond k n K)
    (c : K) (hc : c ≠ 0) (vs vs' : List (ErrView k n K)) (dt atol rtol ρ : K)
    (hv : List.Forall₂ (fun s s' => Rescaled c s s' ∧
      ∀ lc : Cond k n K, (lc = s.cached ∨ ∃ j, lc = lin (ErrorEst.means vs) j) →
        lc.Q.toM = 0 ∧ innov s lc * s.W.toM = 1 ∧ innov s' lc * s'.W.toM = 1) vs vs') :
    ErrorEst.residualStdV cfg lin vs' dt atol rtol ρ = ErrorEst.residualStdV cfg lin vs dt atol rtol ρ := by
  have hmeans : ErrorEst.means vs' = ErrorEst.means vs := by
    symm
    apply forall2_map_eq _ _ (hv.imp fun s s' h => h.1)
    rintro a b ⟨h1, h2, _, _⟩
    simp [ErrView.extrapolate, PCond.applyPt, h1, h2, scaledTr]
  have href : ErrorEst.reference cfg.dps 0 vs' = ErrorEst.reference cfg.dps 0 vs := by
    symm
    apply forall2_flatMap_eq _ _ (hv.imp fun s s' h => h.1)
    rintro a b ⟨_, h2, h3, _⟩
    simp [h2, h3]
  have hstats : List.Forall₂ (StatScaled (c ^ 2)) (ErrorEst.residualStats cfg.relin lin vs)
      (ErrorEst.residualStats cfg.relin lin vs') := by
    apply forall2_mapIdx _ _ _ hv
    rintro j s s' ⟨hr, hlc⟩
    have hch : ErrorEst.chosen cfg.relin lin (ErrorEst.means vs') j s'
        = ErrorEst.chosen cfg.relin lin (ErrorEst.means vs) j s := by
      simp [ErrorEst.chosen, hmeans, hr.2.2.2]
    rw [hch]
    have hmem : ErrorEst.chosen cfg.relin lin (ErrorEst.means vs) j s = s.cached ∨
        ∃ j', ErrorEst.chosen cfg.relin lin (ErrorEst.means vs) j s = lin (ErrorEst.means vs) j' := by
      cases hb : cfg.relin <;> simp [ErrorEst.chosen, hb]
    obtain ⟨hR, hW, hW'⟩ := hlc _ hmem
    exact residualStat_scaled c hc s s' hr _ hR hW hW'
  simp only [ErrorEst.residualStdV, href, err2Of_scaled cfg.fact k (c ^ 2) (pow_ne_zero 2 hc) hstats]

/-- the same for the state estimator: the gain is invariant, the posterior covariance scales with `c²` -/
theorem errnorm_state_scale_invariant [LT K] [DecidableLT K] (cfg : ErrCfg)
    (lin : List (Vec n K) → Nat → Cond k n K)
    (c : K) (hc : c ≠ 0) (vs vs' : List (ErrView k n K)) (dt atol rtol ρ : K)
    (hv : List.Forall₂ (fun s s' => Rescaled c s s' ∧
      ∀ lc : Cond k n K, (lc = s.cached ∨ ∃ j, lc = lin (ErrorEst.means vs) j) →
        lc.Q.toM = 0 ∧ innov s lc * s.W.toM = 1 ∧ innov s' lc * s'.W.toM = 1 ∧
        s.G.toM * innov s lc = s.tr1.den.Q.toM * lc.A.toMᵀ ∧
        s'.G.toM * innov s' lc = s'.tr1.den.Q.toM * lc.A.toMᵀ) vs vs') :
    ErrorEst.stateStdV cfg lin vs' dt atol rtol ρ = ErrorEst.stateStdV cfg lin vs dt atol rtol ρ := by
  by_cases hidx : cfg.dps = 0 ∨ n < (cfg.derivIdx + 1) * cfg.dps
  · simp [ErrorEst.stateStdV, hidx]
  have hidx' : (cfg.derivIdx + 1) * cfg.dps ≤ n := by omega
  have hmeans : ErrorEst.means vs' = ErrorEst.means vs := by
    symm
    apply forall2_map_eq _ _ (hv.imp fun s s' h => h.1)
    rintro a b ⟨h1, h2, _, _⟩
    simp [ErrView.extrapolate, PCond.applyPt, h1, h2, scaledTr]
  have href : ErrorEst.reference cfg.dps cfg.derivIdx vs' = ErrorEst.reference cfg.dps cfg.derivIdx vs := by
    symm
    apply forall2_flatMap_eq _ _ (hv.imp fun s s' h => h.1)
    rintro a b ⟨_, h2, h3, _⟩
    simp [h2, h3]
  have hstats : List.Forall₂ (StatScaled (c ^ 2)) (ErrorEst.stateStats cfg.relin lin cfg.dps cfg.derivIdx vs)
      (ErrorEst.stateStats cfg.relin lin cfg.dps cfg.derivIdx vs') := by
    apply forall2_mapIdx _ _ _ hv
    rintro j s s' ⟨hr, hlc⟩
    have hch : ErrorEst.chosen cfg.relin lin (ErrorEst.means vs') j s'
        = ErrorEst.chosen cfg.relin lin (ErrorEst.means vs) j s := by
      simp [ErrorEst.chosen, hmeans, hr.2.2.2]
    rw [hch]
    have hmem : ErrorEst.chosen cfg.relin lin (ErrorEst.means vs) j s = s.cached ∨
        ∃ j', ErrorEst.chosen cfg.relin lin (ErrorEst.means vs) j s = lin (ErrorEst.means vs) j' := by
      cases hb : cfg.relin <;> simp [ErrorEst.chosen, hb]
    obtain ⟨hR, hW, hW', hG, hG'⟩ := hlc _ hmem
    exact stateStat_scaled cfg.dps cfg.derivIdx c hc s s' hr _ hidx' hR hW hW' hG hG'
  simp only [ErrorEst.stateStdV, href, err2Of_scaled cfg.fact k (c ^ 2) (pow_ne_zero 2 hc) hstats]

end scale

/-! ## the number compared with one: `error_power = norm^(−1/rate)` -/
section power

/-- the harness' abstraction: from the implementation's `error_power = norm^(−1/rate)` the squared norm is
recovered as `error_power^(−2·rate)` -/
theorem error_power_relation (norm : ℝ) (rate : ℕ) (hn : 0 ≤ norm) (hr : rate ≠ 0) :
    (norm ^ (-(1 : ℝ) / rate)) ^ (-(2 * (rate : ℝ))) = norm ^ 2 := by
  have hr' : (rate : ℝ) ≠ 0 := Nat.cast_ne_zero.mpr hr
  rw [← Real.rpow_mul hn, ← Real.rpow_two]
  congr 1
  field_simp

/-- the rejection loop repeats while `error_power < 1`: a step is accepted iff `norm² ≤ 1` -/
theorem accept_iff (norm : ℝ) (rate : ℕ) (hn : 0 < norm) (hr : rate ≠ 0) :
    ¬ (norm ^ (-(1 : ℝ) / rate) < 1) ↔ norm ^ 2 ≤ 1 := by
  have hr' : (0 : ℝ) < rate := Nat.cast_pos.mpr (Nat.pos_of_ne_zero hr)
  have hy : -(1 : ℝ) / rate < 0 := by
    rw [neg_div]; exact neg_neg_of_pos (one_div_pos.mpr hr')
  rw [Real.rpow_lt_one_iff_of_pos hn]
  constructor
  · intro h
    by_contra hc
    exact h (Or.inl ⟨by nlinarith, hy⟩)
  · rintro h (⟨h1, _⟩ | ⟨_, h2⟩)
    · nlinarith
    · exact absurd h2 (not_lt.mpr (le_of_lt hy))

/-- the contraction rate returned by the model is the number of Taylor coefficients `q + 1` -/
theorem rate_eq (q d : Nat) (hd : d ≠ 0) : ((q + 1) * d) / d = q + 1 := Nat.mul_div_cancel _ (Nat.pos_of_ne_zero hd)

end power

/-! ## the documented `ValueError` as a decision -/
section shape

theorem shapeOk_iff (numOutputs errLen refLen : Nat) :
    ErrorEst.shapeOk numOutputs errLen refLen = true ↔ numOutputs = 1 ∧ (errLen = 1 ∨ errLen = refLen) := by
  simp [ErrorEst.shapeOk]

/-- a constraint with more than one output coefficient (`k / dps ≠ 1`, e.g. a jet-lifted ODE or a DAE) is rejected
by the residual estimator in every factorisation — in particular the isotropic case with `d` output coefficients,
whose error shape `(d,)` coincides with the reference shape, does not slip through -/
theorem shape_error_of_num_outputs [LT K] [DecidableLT K] (cfg : ErrCfg) (lin : List (Vec n K) → Nat → Cond k n K)
    (vs : List (ErrView k n K)) (dt atol rtol ρ : K) (hno : k / cfg.dps ≠ 1)
    (hdom : ¬ (cfg.dps = 0 ∨ n < cfg.dps))
    (hdef : (ErrorEst.err2Of cfg.fact k (ErrorEst.residualStats cfg.relin lin vs)).isSome) :
    ErrorEst.residualStdV cfg lin vs dt atol rtol ρ = .error .shape := by
  obtain ⟨e2, he2⟩ := Option.isSome_iff_exists.mp hdef
  simp [ErrorEst.residualStdV, hdom, he2, ErrorEst.shapeOk, hno]

/-- ODE constraints (one output coefficient) pass the check in all three factorisations: the error has the shape of
the reference (dense, block-diagonal) or shape `(1,)` (isotropic) -/
theorem shapeOk_ode (d : Nat) : ErrorEst.shapeOk 1 d d = true ∧ ErrorEst.shapeOk 1 1 d = true := by
  simp [ErrorEst.shapeOk]

end shape

/-! ## non-vacuity: concrete rational instances (hypotheses satisfiable, values as documented) -/
section examples

/-- dense, `d = 2`, `q = 1`, `h = 1/2`: state `(u₁, u₂, u₁', u₂')`, base scales `Λ² = (1, 4)` times `s2` -/
def exTr (s2 : Rat) : PCond 4 4 Rat := Iwp.transitionDense 1 2 (1/2) s2 ⟨fun a => if a.val = 0 then 1 else 4⟩
def exPrev (v : Rat) : SolState 4 Rat :=
  SolState.init { mean := ⟨fun i => if i.val = 0 then 1 else if i.val = 1 then -1 else 1⟩,
                  cov := ⟨fun i j => if i = j then v else 0⟩ }
def exProp : SolState 4 Rat :=
  SolState.init { mean := ⟨fun i => if i.val = 0 then 3/2 else if i.val = 1 then -1/2 else 2⟩, cov := ⟨fun _ _ => 0⟩ }
/-- TS0 linearisation: `H` selects the first derivative, `b = −f`, `R = damp²·I` -/
def exCached (R : Rat) : Cond 2 4 Rat :=
  { A := ⟨fun a j => if j.val = 2 + a.val then 1 else 0⟩, b := ⟨fun a => if a.val = 0 then -9/4 else 1/4⟩,
    Q := ⟨fun a b => if a = b then R else 0⟩ }
def exIn (s2 R w1 w2 v : Rat) : ErrIn 2 4 Rat :=
  { tr1 := exTr s2, previous := exPrev v, proposed := exProp, cached := exCached R,
    W := ⟨fun a b => if a = b then (if a.val = 0 then w1 else w2) else 0⟩, G := Mat.zero }
def exCfg (nrm : ErrNorm) (perUnit : Bool) : ErrCfg :=
  { fact := .dense, norm := nrm, relin := false, perUnitStep := perUnit, resOrder := 2, dps := 2, derivIdx := 0 }
def exLin : List (Vec 4 Rat) → Nat → Cond 2 4 Rat := fun _ _ => exCached 0

/-- the certificate hypothesis of `errnorm_spec` holds: `S = diag(1/2, 2)`, `W = diag(2, 1/2)` -/
example : ((exCached 0).marg (exIn 1 0 2 (1/2) 3).view.extrapolate).cov.invOk (exIn 1 0 2 (1/2) 3).W = true := by
  decide +kernel

/-- `r = (−5/4, 5/4)`, `σ̂² = (r₁²·2 + r₂²/2)/2`, `e² = σ̂²·(1/2, 2)·h²`, `ref = (3/2, 1)`, tolerances `1/100` -/
example : ErrorEst.residualStd (exCfg .scaleThenRms false) exLin [exIn 1 0 2 (1/2) 3] (1/2) (1/100) (1/100) 0
    = .ok (90625/64, 2) := by decide +kernel

/-- `error_per_unit_step`: one more power of `h` and `2!` -/
example : ErrorEst.residualStd (exCfg .scaleThenRms true) exLin [exIn 1 0 2 (1/2) 3] (1/2) (1/100) (1/100) 0
    = .ok (90625/1024, 2) := by decide +kernel

/-- the previous covariance is irrelevant (`errnorm_indep_cov`): `3·I` vs `1000·I` -/
example : ErrorEst.residualStd (exCfg .scaleThenRms false) exLin [exIn 1 0 2 (1/2) 1000] (1/2) (1/100) (1/100) 0
    = .ok (90625/64, 2) := by decide +kernel

/-- scale invariance with `R = 0` (`errnorm_scale_invariant`, `c = 3`): certificate `W' = W/9` -/
example : ((exCached 0).marg (exIn 9 0 (2/9) (1/18) 3).view.extrapolate).cov.invOk (exIn 9 0 (2/9) (1/18) 3).W = true := by
  decide +kernel
example : ErrorEst.residualStd (exCfg .scaleThenRms false) exLin [exIn 9 0 (2/9) (1/18) 3] (1/2) (1/100) (1/100) 0
    = .ok (90625/64, 2) := by decide +kernel

/-- **the hypothesis `R = 0` of `errnorm_scale_invariant` cannot be dropped**: with `damp² = 1/2` and two dimensions
of different base scale, `Λ ↦ 3Λ` changes the acceptance quantity (both certificates are valid). -/
theorem scale_invariance_needs_zero_damp :
    ((exCached (1/2)).marg (exIn 1 (1/2) 1 (2/5) 3).view.extrapolate).cov.invOk (exIn 1 (1/2) 1 (2/5) 3).W = true ∧
    ((exCached (1/2)).marg (exIn 9 (1/2) (1/5) (2/37) 3).view.extrapolate).cov.invOk (exIn 9 (1/2) (1/5) (2/37) 3).W = true ∧
    ErrorEst.residualStd (exCfg .scaleThenRms false) exLin [exIn 1 (1/2) 1 (2/5) 3] (1/2) (1/100) (1/100) 0
      = .ok (137375/128, 2) ∧
    ErrorEst.residualStd (exCfg .scaleThenRms false) exLin [exIn 9 (1/2) (1/5) (2/37) 3] (1/2) (1/100) (1/100) 0
      = .ok (6374375/4736, 2) := by decide +kernel

/-- `rms_then_scale` with a supplied `ρ`; and a reference whose rms is rational: `ref = (7, 1)`, `ρ = 5` -/
example : ErrorEst.residualStd (exCfg .rmsThenScale false) exLin [exIn 1 0 2 (1/2) 3] (1/2) (1/100) (1/100) (5/4)
    = .ok (390625/324, 2) := by decide +kernel
example : ErrorEst.meanSq ([7, 1] : List Rat) = some (5 ^ 2) := by decide +kernel

/-- the documented `ValueError`: the same slice read as one dimension with two output coefficients -/
example : ErrorEst.residualStd { exCfg .scaleThenRms false with dps := 1 } exLin [exIn 1 0 2 (1/2) 3] (1/2) (1/100) (1/100) 0
    = .error .shape := by decide +kernel

/-- scalar slices (`q = 1`, `h = 1/2`) for the isotropic / block-diagonal models and the state estimator -/
def ex1In (s2 R W g0 g1 : Rat) : ErrIn 1 2 Rat :=
  { tr1 := Iwp.transition1 1 (1/2) s2,
    previous := SolState.init { mean := ⟨fun _ => 1⟩, cov := ⟨fun _ _ => 3⟩ },
    proposed := SolState.init { mean := ⟨fun i => if i.val = 0 then 3/2 else 2⟩, cov := ⟨fun _ _ => 0⟩ },
    cached := { A := ⟨fun _ j => if j.val = 1 then 1 else 0⟩, b := ⟨fun _ => -9/4⟩, Q := ⟨fun _ _ => R⟩ },
    W := ⟨fun _ _ => W⟩, G := ⟨fun i _ => if i.val = 0 then g0 else g1⟩ }
def ex1Cfg (f : Fact) (perUnit : Bool) : ErrCfg :=
  { fact := f, norm := .scaleThenRms, relin := false, perUnitStep := perUnit, resOrder := 2, dps := 1, derivIdx := 0 }
def ex1Lin : List (Vec 2 Rat) → Nat → Cond 1 2 Rat := fun _ _ => (ex1In 1 0 2 0 0).cached

/-- isotropic and block-diagonal: `σ̂²·S = mean r²` resp. `r_a²` — here `r = −5/4` in both slices -/
example : ErrorEst.residualStd (ex1Cfg .iso false) ex1Lin [ex1In 1 0 2 0 0, ex1In 1 0 2 0 0] (1/2) (1/100) (1/100) 0
    = .ok (625, 2) := by decide +kernel
example : ErrorEst.residualStd (ex1Cfg .bd false) ex1Lin [ex1In 1 0 2 0 0, ex1In 1 0 2 0 0] (1/2) (1/100) (1/100) 0
    = .ok (625, 2) := by decide +kernel

/-- state estimator: gain `G = Q(h) Hᵀ/S = (1/4, 1)` is certified, posterior variance of `u` is `1/24 − 1/32 = 1/96` -/
example : (ex1In 1 0 2 (1/4) 1).cached.gainOk (ex1In 1 0 2 (1/4) 1).view.extrapolate (ex1In 1 0 2 (1/4) 1).G = true := by
  decide +kernel
example : ErrorEst.stateStd (ex1Cfg .dense false) ex1Lin [ex1In 1 0 2 (1/4) 1] (1/2) (1/100) (1/100) 0
    = .ok (625/12, 2) := by decide +kernel
example : ErrorEst.stateStd (ex1Cfg .dense true) ex1Lin [ex1In 1 0 2 (1/4) 1] (1/2) (1/100) (1/100) 0
    = .ok (625/48, 2) := by decide +kernel

end examples

end Pdq.C07
