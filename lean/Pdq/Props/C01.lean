import Pdq.Model.Solver
import Pdq.Model.Iwp
import Pdq.Props.C08
import Pdq.Props.C02
import Pdq.Props.C03
import Pdq.Lemmas.IwpDen
import Pdq.Props.C06
/-!
# C01 — Adaptive solves meet the tolerance; fixed-step solves converge at order q+1  *(partial: consistency)*

The property itself ("error ≤ modest multiple of the tolerance for every smooth IVP", "global error `O(h^(q+1))`")
is a statement of numerical analysis about the extended Kalman recursion in floating point and is **not** proved
here; the check `harness/checks/c01.py` explores it on closed-form problems and says so.  What *is* proved,
about the definitions the driver executes (`Pdq.Model.Iwp`, `Pdq.Model.Solver`):

* `predictor_polynomial_exact` — the de-preconditioned IWP transition is the Taylor shift: it maps the jet
  `(p, p', …, p^(q))(t)` of every polynomial of degree `≤ q` to the jet at `t + h` (degree of precision `q`,
  i.e. local order `q + 1`);
* `step_mean_exact`, `run_means_exact`, `filter_exact_on_polynomial_quadrature` — whenever the predictor is exact on
  the true trajectory and the linearised residual vanishes there (polynomial quadrature problems `u^(ord) = g(t)`
  with solution of degree `≤ q`; TS0 and TS1 coincide since `∂f/∂u = 0`), **every** posterior mean of the filter
  and of both smoothers is exact: for every grid, every output scale (unit scale of `solver`/`solver_mle`, the
  local scale of `solver_dynamic` — which is `0` here, `dynamic_scale_zero`), every damping, every initial
  covariance and every gain (certified or not), by induction over the grid;
* `fixedInterval_smoothed_means_exact`, `run_fixedPoint_bw_exact` — the same for the smoothed marginals;
* `dense_predictor_polynomial_exact`, `dense_filter_exact_on_polynomial_quadrature` — the same for the dense
  `d`-dimensional slice `kron(Φ, I_d)` (isotropic / block-diagonal states are `d` one-dimensional slices);
* `estimate_order` — closed form in `h` of the variance behind the TS0 local error estimate,
  `H Q(h) Hᵀ = s2 h^(2(q-ord)+1) / ((2(q-ord)+1) ((q-ord)!)²)`;
* `d8_every_gain_certified` — in the situation of finding D8 (dynamic calibration, exact data, damp = 0) the
  innovation covariance is `0`, every gain is certified and the model's posterior mean is still exact; the
  real code divided `0/0` there (repaired in the repository by flooring the local scale at machine epsilon);
* `accepted_steps_meet_estimate` — corollary of `C06.step_accepts` about `Pdq.Model.Adaptive`: the state a
  rejection loop returns was proposed by an attempt whose scaled local error estimate is `≤ 1`.
-/
set_option linter.unusedSectionVars false
open Matrix Polynomial

namespace Pdq.C01
variable {K : Type} [Field K] {k n : Nat}

/-! ## 1. the predictor is exact on polynomials of degree ≤ q -/

/-- bridge: the model's de-preconditioned transition matrix is `Φ(h)`, `Φ_ij = h^(j-i)/(j-i)!` -/
theorem iwp_den_A [CharZero K] (q : ℕ) (h s2 : K) (hh : h ≠ 0) :
    (Iwp.transition1 q h s2).den.A.toM = IwpDen.Phi q h := IwpDen.den_A q h s2 hh

/-- bridge: the model's de-preconditioned process noise is `Q(h)`,
`Q_ij = s2 h^(2q+1-i-j)/((2q+1-i-j)(q-i)!(q-j)!)`, and the offset is zero -/
theorem iwp_den_Q [CharZero K] (q : ℕ) (h s2 : K) :
    (Iwp.transition1 q h s2).den.Q.toM = IwpDen.Qmat q h s2 ∧ (Iwp.transition1 q h s2).den.b.toV = 0 :=
  ⟨IwpDen.den_Q q h s2, IwpDen.den_b q h s2⟩

/-- **C01, consistency of the predictor.** For every order `q`, step `h ≠ 0`, output scale and every
polynomial `p` of degree `≤ q`: the de-preconditioned IWP transition maps the jet of `p` at `t` to the jet
at `t + h`. -/
theorem predictor_polynomial_exact [CharZero K] (q : ℕ) (h s2 : K) (hh : h ≠ 0) (p : K[X])
    (hp : p.natDegree ≤ q) (t : K) :
    (Iwp.transition1 q h s2).den.A.toM *ᵥ IwpDen.jet q p t + (Iwp.transition1 q h s2).den.b.toV
      = IwpDen.jet q p (t + h) := by
  rw [IwpDen.den_A q h s2 hh, IwpDen.den_b, add_zero, IwpDen.phi_mulVec_jet q p hp]

/-- the predicted mean of every strategy is the textbook prediction through the de-preconditioned transition -/
theorem predict_mean (s : Strategy) (tr : PCond n n K) (st : SolState n K) (Gt : Mat n n K) :
    (s.predict tr st Gt).u.mean.toV = tr.den.A.toM *ᵥ st.u.mean.toV + tr.den.b.toV := by
  have hf := (C02.filter_predict_eq_textbook tr st Gt).1
  have hs := C02.smoother_predict_marginal tr st Gt
  cases s
  · exact hf
  · rw [hs.1]; exact hf
  · rw [hs.2.2, hs.1]; exact hf

/-- the predicted mean of filter and smoothers on a polynomial jet is the jet at the next grid point -/
theorem predict_mean_polynomial_exact [CharZero K] (s : Strategy) (q : ℕ) (h s2 : K) (hh : h ≠ 0) (p : K[X])
    (hp : p.natDegree ≤ q) (t : K) (st : SolState (q+1) K) (Gt : Mat (q+1) (q+1) K)
    (hst : st.u.mean.toV = IwpDen.jet q p t) :
    (s.predict (Iwp.transition1 q h s2) st Gt).u.mean.toV = IwpDen.jet q p (t + h) := by
  rw [predict_mean, hst, predictor_polynomial_exact q h s2 hh p hp t]

/-! ## 2. zero residual ⇒ the update leaves the mean alone, for any gain; induction over the grid -/

/-- one step along an exact trajectory `x ↦ x'`: the transition maps `x` to `x'` and the residual of the
constraint linearised at `x'` vanishes at `x'`. -/
structure ExactStep (tr : PCond n n K) (lin : Vec n K → Cond k n K) (x x' : Fin n → K) : Prop where
  pred : tr.den.A.toM *ᵥ x + tr.den.b.toV = x'
  res : (lin ⟨x'⟩).A.toM *ᵥ x' + (lin ⟨x'⟩).b.toV = 0

theorem predict_mean_eq (s : Strategy) (tr : PCond n n K) (lin : Vec n K → Cond k n K) (st : SolState n K)
    (Gt : Mat n n K) (x x' : Fin n → K) (hx : st.u.mean.toV = x) (he : ExactStep tr lin x x') :
    (s.predict tr st Gt).u.mean = ⟨x'⟩ := by
  apply Vec.ext'
  rw [predict_mean, hx, he.pred]; rfl

/-- **one step.** If the state mean is the exact `x`, the new mean is the exact `x'` — for every strategy,
every covariance, every damping and **every** gain `Gt`, `Gu` (no certificate needed: the residual is zero). -/
theorem step_mean_exact (s : Strategy) (tr : PCond n n K) (lin : Vec n K → Cond k n K) (st : SolState n K)
    (Gt : Mat n n K) (Gu : Mat n k K) (x x' : Fin n → K) (hx : st.u.mean.toV = x) (he : ExactStep tr lin x x') :
    (Solver.step s tr lin st Gt Gu).u.mean.toV = x' := by
  have hpm := predict_mean_eq s tr lin st Gt x x' hx he
  simp only [Solver.step, SolState.update]
  rw [(C02.bayesZero_spec _ _ Gu).1, hpm]
  show x' - Gu.toM *ᵥ ((lin ⟨x'⟩).A.toM *ᵥ x' + (lin ⟨x'⟩).b.toV) = x'
  rw [he.res, Matrix.mulVec_zero, sub_zero]

/-- the squared whitened residual vanishes when the residual does (whatever the certified inverse `W`) -/
theorem whitenedSq_zero (c : Cond k n K) (rv : Gauss n K) (W : Mat k k K)
    (h : c.A.toM *ᵥ rv.mean.toV + c.b.toV = 0) : c.whitenedSq rv W = 0 := by
  have hr : (Vec.zero.sub (c.marg rv).mean : Vec k K).toV = 0 := by
    rw [toV_sub, toV_zero, C08.marg_mean, h, sub_zero]
  simp only [Cond.whitenedSq, Gauss.maha, Mat.bilin]
  rw [dot_eq, hr, zero_dotProduct]

/-- the MLE calibration term of an exact step is zero (so `solver_mle` reports output scale 0 on such problems) -/
theorem mleTerm_zero (s : Strategy) (tr : PCond n n K) (lin : Vec n K → Cond k n K) (st : SolState n K)
    (Gt : Mat n n K) (W : Mat k k K) (x x' : Fin n → K) (hx : st.u.mean.toV = x) (he : ExactStep tr lin x x') :
    Solver.mleTerm s tr lin st Gt W = 0 := by
  have hpm := predict_mean_eq s tr lin st Gt x x' hx he
  simp only [Solver.mleTerm]
  apply whitenedSq_zero
  rw [hpm]; exact he.res

/-- **dynamic calibration on exact data: the local scale is exactly 0** (this is the input of finding D8) -/
theorem dynamic_scale_zero (tr1 : PCond n n K) (lin : Vec n K → Cond k n K) (st : SolState n K)
    (W : Mat k k K) (x x' : Fin n → K) (hx : st.u.mean.toV = x) (he : ExactStep tr1 lin x x') :
    Solver.dynamicSq tr1 lin st W = 0 := by
  have hup : (tr1.applyPt st.u.mean).mean = ⟨x'⟩ := by
    apply Vec.ext'
    rw [(C08.applyPt_den tr1 st.u.mean).1, (C08.applyPt_spec _ _).1, hx, he.pred]; rfl
  simp only [Solver.dynamicSq]
  apply whitenedSq_zero
  rw [hup]; exact he.res

/-- `solver_dynamic.step` along an exact trajectory (with or without re-linearisation; `trS` is the transition
re-discretised with the calibrated scale, whatever it is): the new mean is exact, for every gain. -/
theorem stepDynamic_mean_exact (s : Strategy) (tr1 trS : PCond n n K) (lin : Vec n K → Cond k n K) (relin : Bool)
    (st : SolState n K) (Gt : Mat n n K) (Gu : Mat n k K) (x x' : Fin n → K) (hx : st.u.mean.toV = x)
    (he1 : ExactStep tr1 lin x x') (heS : ExactStep trS lin x x') :
    (Solver.stepDynamic s tr1 trS lin relin st Gt Gu).u.mean.toV = x' := by
  have hup : (tr1.applyPt st.u.mean).mean = ⟨x'⟩ := by
    apply Vec.ext'
    rw [(C08.applyPt_den tr1 st.u.mean).1, (C08.applyPt_spec _ _).1, hx, he1.pred]; rfl
  have hpm := predict_mean_eq s trS lin st Gt x x' hx heS
  have hc : (if relin = true then lin (s.predict trS st Gt).u.mean else lin (tr1.applyPt st.u.mean).mean) = lin ⟨x'⟩ := by
    rw [hpm, hup]; simp
  simp only [Solver.stepDynamic, SolState.update]
  rw [hc, (C02.bayesZero_spec _ _ Gu).1, hpm]
  show x' - Gu.toM *ᵥ ((lin ⟨x'⟩).A.toM *ᵥ x' + (lin ⟨x'⟩).b.toV) = x'
  rw [heS.res, Matrix.mulVec_zero, sub_zero]

/-- the model's fixed-grid run (`solve_fixed_grid`'s scan over `solver.step`) for any strategy: all visited states -/
def run (s : Strategy) (st : SolState n K) : List (C02.StepData n k K) → List (SolState n K)
  | [] => []
  | d :: rest => let st' := Solver.step s d.tr d.lin st d.Gt d.Gu; st' :: run s st' rest

/-- the steps follow the exact trajectory `x, xs` -/
def ExactRun : (Fin n → K) → List (C02.StepData n k K) → List (Fin n → K) → Prop
  | _, [], [] => True
  | x, d :: ds, x' :: xs => ExactStep d.tr d.lin x x' ∧ ExactRun x' ds xs
  | _, _, _ => False

/-- **whole grids.** By induction over the grid: along an exact trajectory every posterior mean of the run is
exact — every strategy, every number of steps, every gain. -/
theorem run_means_exact (s : Strategy) (st : SolState n K) (steps : List (C02.StepData n k K))
    (x : Fin n → K) (xs : List (Fin n → K)) (hx : st.u.mean.toV = x) (he : ExactRun x steps xs) :
    (run s st steps).map (fun st' => st'.u.mean.toV) = xs := by
  induction steps generalizing st x xs with
  | nil => cases xs with
    | nil => rfl
    | cons _ _ => exact he.elim
  | cons d ds ih => cases xs with
    | nil => exact he.elim
    | cons x' xs =>
      obtain ⟨h1, h2⟩ := he
      have hstep := step_mean_exact s d.tr d.lin st d.Gt d.Gu x x' hx h1
      simp only [run, List.map_cons]
      rw [hstep, ih _ x' xs hstep h2]

/-! ## 3. smoothers: the backward conditionals reproduce the exact trajectory -/

/-- `bw` maps every marginal whose mean is the exact `xk` to a marginal with the exact mean `x0` -/
def BwExact (x0 : Fin n → K) (bw : PCond n n K) (xk : Fin n → K) : Prop :=
  ∀ s : Gauss n K, s.mean.toV = xk → (bw.marg s).mean.toV = x0

theorem bwExact_identity (x : Fin n → K) : BwExact x (PCond.identity n) x := fun s hs => by
  rw [(C03.identity_marg s).1, hs]

theorem bwExact_rescale (x0 xk : Fin n → K) (bw : PCond n n K) (f : K) (h : BwExact x0 bw xk) :
    BwExact x0 (bw.rescaleNoise f) xk := fun s hs => by
  have : ((bw.rescaleNoise f).marg s).mean = (bw.marg s).mean := rfl
  rw [this]; exact h s hs

/-- units: the scalings of a transition are invertible (true for the shipped one when `h ≠ 0`) -/
def Units (tr : PCond n n K) : Prop := (∀ i, tr.tl.toV i ≠ 0) ∧ (∀ i, tr.tob.toV i ≠ 0)

/-- the backward conditional stored by the fixed-interval smoother at an exact step is exact
(RTS: `mˢ_k = m_k + G (mˢ_{k+1} - m⁻_{k+1})` with `mˢ_{k+1} = m⁻_{k+1}`), for every gain -/
theorem bwExact_fixedInterval (tr : PCond n n K) (st : SolState n K) (Gt : Mat n n K) (x x' : Fin n → K)
    (hu : Units tr) (hx : st.u.mean.toV = x) (hp : tr.den.A.toM *ᵥ x + tr.den.b.toV = x') :
    BwExact x (Strategy.fixedInterval.predict tr st Gt).bw x' := fun s hs => by
  obtain ⟨h1, _⟩ := C03.rts_update tr st Gt s hu.1 hu.2
  rw [h1, hs, C08.marg_mean, hx, hp, sub_self, Matrix.mulVec_zero, add_zero]

/-- the merged conditional carried by the fixed-point smoother stays exact with respect to the checkpoint `x0` -/
theorem bwExact_fixedPoint (tr : PCond n n K) (st : SolState n K) (Gt : Mat n n K) (x0 x x' : Fin n → K)
    (hu : Units tr) (hx : st.u.mean.toV = x) (hp : tr.den.A.toM *ᵥ x + tr.den.b.toV = x')
    (hb : BwExact x0 st.bw x) :
    BwExact x0 (Strategy.fixedPoint.predict tr st Gt).bw x' := fun s hs => by
  rw [(C03.fixedpoint_eq_fixedinterval tr st Gt s).1]
  exact hb _ (bwExact_fixedInterval tr st Gt x x' hu hx hp s hs)

/-- every state of a fixed-interval run carries an exact backward conditional to its predecessor -/
def BwRun : (Fin n → K) → List (SolState n K) → List (Fin n → K) → Prop
  | _, [], [] => True
  | x, st :: sts, x' :: xs => BwExact x st.bw x' ∧ BwRun x' sts xs
  | _, _, _ => False

theorem run_fixedInterval_bw_exact (st : SolState n K) (steps : List (C02.StepData n k K))
    (x : Fin n → K) (xs : List (Fin n → K)) (hx : st.u.mean.toV = x) (he : ExactRun x steps xs)
    (hu : ∀ d ∈ steps, Units d.tr) :
    BwRun x (run .fixedInterval st steps) xs := by
  induction steps generalizing st x xs with
  | nil => cases xs with
    | nil => trivial
    | cons _ _ => exact he.elim
  | cons d ds ih => cases xs with
    | nil => exact he.elim
    | cons x' xs =>
      obtain ⟨h1, h2⟩ := he
      have hstep := step_mean_exact .fixedInterval d.tr d.lin st d.Gt d.Gu x x' hx h1
      refine ⟨?_, ih _ x' xs hstep h2 (fun d' hd' => hu d' (List.mem_cons_of_mem _ hd'))⟩
      exact bwExact_fixedInterval d.tr st d.Gt x x' (hu d List.mem_cons_self) hx h1.pred

/-- **fixed-point smoother between checkpoints**: started from a state whose backward conditional is exact with
respect to the checkpoint value `x0` (e.g. the identity right after a checkpoint, `bwExact_identity`), every
state of the run carries a conditional that maps the exact current value back to `x0`. -/
theorem run_fixedPoint_bw_exact (st : SolState n K) (steps : List (C02.StepData n k K))
    (x0 x : Fin n → K) (xs : List (Fin n → K)) (hx : st.u.mean.toV = x) (hb : BwExact x0 st.bw x)
    (he : ExactRun x steps xs) (hu : ∀ d ∈ steps, Units d.tr) :
    List.Forall₂ (fun st' x' => BwExact x0 st'.bw x') (run .fixedPoint st steps) xs := by
  induction steps generalizing st x xs with
  | nil => cases xs with
    | nil => exact List.Forall₂.nil
    | cons _ _ => exact he.elim
  | cons d ds ih => cases xs with
    | nil => exact he.elim
    | cons x' xs =>
      obtain ⟨h1, h2⟩ := he
      have hstep := step_mean_exact .fixedPoint d.tr d.lin st d.Gt d.Gu x x' hx h1
      have hbw : BwExact x0 (Solver.step .fixedPoint d.tr d.lin st d.Gt d.Gu).bw x' :=
        bwExact_fixedPoint d.tr st d.Gt x0 x x' (hu d List.mem_cons_self) hx h1.pred hb
      exact List.Forall₂.cons hbw (ih _ x' xs hstep hbw h2 (fun d' hd' => hu d' (List.mem_cons_of_mem _ hd')))

theorem evalMarginals_append (term : Gauss n K) (l : List (PCond n n K)) (b : PCond n n K) :
    evalMarginals term (l ++ [b]) = evalMarginals term l ++ [b.marg (l.foldl (fun g c => c.marg g) term)] := by
  induction l generalizing term with
  | nil => rfl
  | cons c l ih => simp only [List.cons_append, evalMarginals, List.foldl_cons, ih]

/-- backward marginalisation through exact conditionals (given in time order, as the run produces them,
possibly rescaled by the calibration) returns the exact trajectory -/
theorem evalMarginals_means_exact (f : K) (states : List (SolState n K)) (x : Fin n → K) (xs : List (Fin n → K))
    (hb : BwRun x states xs) (term : Gauss n K) (hterm : term.mean.toV = (x :: xs).getLast (List.cons_ne_nil _ _)) :
    (evalMarginals term (states.reverse.map fun st => st.bw.rescaleNoise f)).map (fun g => g.mean.toV) = (x :: xs).reverse ∧
    ((states.reverse.map fun st => st.bw.rescaleNoise f).foldl (fun g c => c.marg g) term).mean.toV = x := by
  induction states generalizing x xs with
  | nil => cases xs with
    | nil => exact ⟨by simp [evalMarginals, hterm], by simpa using hterm⟩
    | cons _ _ => exact hb.elim
  | cons st sts ih => cases xs with
    | nil => exact hb.elim
    | cons x' xs =>
      obtain ⟨h1, h2⟩ := hb
      have hterm' : term.mean.toV = (x' :: xs).getLast (List.cons_ne_nil _ _) := by
        rw [hterm, List.getLast_cons (List.cons_ne_nil _ _)]
      obtain ⟨ihl, ihf⟩ := ih x' xs h2 hterm'
      have hm := bwExact_rescale x x' st.bw f h1 _ ihf
      simp only [List.reverse_cons, List.map_append, List.map_cons, List.map_nil, List.foldl_append, List.foldl_cons,
        List.foldl_nil]
      refine ⟨?_, hm⟩
      rw [evalMarginals_append, List.map_append, ihl]
      simp only [List.map_cons, List.map_nil, hm, List.reverse_cons]

/-- **fixed-interval smoother on a fixed grid.** Along an exact trajectory all smoothed means returned by
`solve_fixed_grid` + `Smoother.finalize` are exact, initial one first — every grid, every calibration scale,
every gain. -/
theorem fixedInterval_smoothed_means_exact (scale : K) (st : SolState n K) (steps : List (C02.StepData n k K))
    (x : Fin n → K) (xs : List (Fin n → K)) (hx : st.u.mean.toV = x) (he : ExactRun x steps xs)
    (hu : ∀ d ∈ steps, Units d.tr) (last : SolState n K)
    (hlast : last.u.mean.toV = (x :: xs).getLast (List.cons_ne_nil _ _)) :
    (solveFixedGridSmoothed .fixedInterval scale (run .fixedInterval st steps) last).map (fun g => g.mean.toV)
      = x :: xs := by
  have hb := run_fixedInterval_bw_exact st steps x xs hx he hu
  have hseed : (((Strategy.fixedInterval.atT1 last).bw.rescaleNoise scale).marg
      ((Strategy.fixedInterval.atT1 last).u.rescale scale)).mean.toV = last.u.mean.toV := by
    simp [Strategy.atT1, PCond.rescaleNoise, PCond.identity, PCond.marg, Gauss.rescale]
  have := (evalMarginals_means_exact scale (run .fixedInterval st steps) x xs hb _ (hseed.trans hlast)).1
  simp only [solveFixedGridSmoothed, smootherFinalize, List.map_reverse, List.map_map] at this ⊢
  rw [← List.reverse_inj, List.reverse_reverse]
  simpa [Function.comp_def] using this

/-! ## 4. the polynomial quadrature problem `u^(ord) = g(t)` -/

/-- TS0 linearisation of `u^(ord) = g(t)` at the new time (`gt = g(t+h)`), written out:
`H = e_ord`, `b = -g(t+h)`, `R = damp²`.  It does not depend on the linearisation point, and TS1 is the same
constraint because `∂f/∂u = 0`. -/
def quadLin {α : Type} [Zero α] [One α] [Neg α] (q ord : ℕ) (gt damp2 : α) : Cond 1 (q+1) α :=
  { A := ⟨fun _ j => if j.val = ord then 1 else 0⟩, b := ⟨fun _ => -gt⟩, Q := ⟨fun _ _ => damp2⟩ }

/-- what varies from step to step: step size, squared output scale used in the transition (1 for `solver` /
`solver_mle`, the local scale for `solver_dynamic`), squared damping, and the two gains -/
structure GridStep (q : ℕ) (K : Type) where
  h : K
  s2 : K
  damp2 : K
  Gt : Mat (q+1) (q+1) K
  Gu : Mat (q+1) 1 K

/-- the solver steps of the quadrature problem with solution `p` along a grid starting at `t` -/
noncomputable def quadSteps (q ord : ℕ) (p : K[X]) : K → List (GridStep q K) → List (C02.StepData (q+1) 1 K)
  | _, [] => []
  | t, g :: gs =>
    { tr := Iwp.transition1 q g.h g.s2
      lin := fun _ => quadLin q ord ((derivative^[ord] p).eval (t + g.h)) g.damp2
      Gt := g.Gt, Gu := g.Gu } :: quadSteps q ord p (t + g.h) gs

/-- the exact jets at the grid points after `t` -/
noncomputable def jets (q : ℕ) (p : K[X]) : K → List (GridStep q K) → List (Fin (q+1) → K)
  | _, [] => []
  | t, g :: gs => IwpDen.jet q p (t + g.h) :: jets q p (t + g.h) gs

theorem quadLin_residual (q ord : ℕ) (hord : ord ≤ q) (p : K[X]) (t damp2 : K) :
    (quadLin q ord ((derivative^[ord] p).eval t) damp2).A.toM *ᵥ IwpDen.jet q p t
      + (quadLin q ord ((derivative^[ord] p).eval t) damp2).b.toV = 0 := by
  funext i
  have hio : ord < q + 1 := by omega
  simp only [quadLin, Mat.toM, Vec.toV, Matrix.mulVec, dotProduct, Matrix.of_apply, Pi.add_apply, Pi.zero_apply,
    IwpDen.jet, ite_mul, one_mul, zero_mul]
  rw [Finset.sum_eq_single (⟨ord, hio⟩ : Fin (q+1))]
  · simp
  · intro j _ hj
    have : ¬ j.val = ord := fun h => hj (Fin.ext h)
    simp [this]
  · intro h; exact (h (Finset.mem_univ _)).elim

theorem quad_exactStep [CharZero K] (q ord : ℕ) (hord : ord ≤ q) (p : K[X]) (hp : p.natDegree ≤ q) (t : K)
    (g : GridStep q K) (hh : g.h ≠ 0) :
    ExactStep (Iwp.transition1 q g.h g.s2)
      (fun _ => quadLin q ord ((derivative^[ord] p).eval (t + g.h)) g.damp2)
      (IwpDen.jet q p t) (IwpDen.jet q p (t + g.h)) :=
  ⟨predictor_polynomial_exact q g.h g.s2 hh p hp t, quadLin_residual q ord hord p (t + g.h) g.damp2⟩

theorem quad_exactRun [CharZero K] (q ord : ℕ) (hord : ord ≤ q) (p : K[X]) (hp : p.natDegree ≤ q) (t : K)
    (gs : List (GridStep q K)) (hh : ∀ g ∈ gs, g.h ≠ 0) :
    ExactRun (IwpDen.jet q p t) (quadSteps q ord p t gs) (jets q p t gs) := by
  induction gs generalizing t with
  | nil => trivial
  | cons g gs ih =>
    exact ⟨quad_exactStep q ord hord p hp t g (hh g List.mem_cons_self),
      ih (t + g.h) (fun g' hg' => hh g' (List.mem_cons_of_mem _ hg'))⟩

/-- **C01, consistency of the whole solver (degree of precision `q`).** Problem `u^(ord) = g(t)`, `ord ≤ q`, whose
solution `p` is a polynomial of degree `≤ q` (`g = p^(ord)`); initial mean = the jet of `p` at `t0` (any initial
covariance). Then for every strategy (filter, fixed-interval, fixed-point), every grid with non-zero steps, every
output scale per step (unit, MLE, dynamic — including `0`), every damping and every pair of gains per step, all
posterior means of the model's solver run are the exact jets of `p` at the grid points. -/
theorem filter_exact_on_polynomial_quadrature [CharZero K] (s : Strategy) (q ord : ℕ) (hord : ord ≤ q) (p : K[X])
    (hp : p.natDegree ≤ q) (t0 : K) (gs : List (GridStep q K)) (hh : ∀ g ∈ gs, g.h ≠ 0)
    (st : SolState (q+1) K) (hst : st.u.mean.toV = IwpDen.jet q p t0) :
    (run s st (quadSteps q ord p t0 gs)).map (fun st' => st'.u.mean.toV) = jets q p t0 gs :=
  run_means_exact s st _ _ _ hst (quad_exactRun q ord hord p hp t0 gs hh)

theorem quadSteps_units [CharZero K] (q ord : ℕ) (p : K[X]) (t : K) (gs : List (GridStep q K))
    (hh : ∀ g ∈ gs, g.h ≠ 0) : ∀ d ∈ quadSteps q ord p t gs, Units d.tr := by
  induction gs generalizing t with
  | nil => intro d hd; simp [quadSteps] at hd
  | cons g gs ih =>
    intro d hd
    simp only [quadSteps, List.mem_cons] at hd
    rcases hd with rfl | hd
    · exact ⟨IwpDen.tl_ne q g.h g.s2 (hh g List.mem_cons_self), IwpDen.tob_ne q g.h g.s2 (hh g List.mem_cons_self)⟩
    · exact ih (t + g.h) (fun g' hg' => hh g' (List.mem_cons_of_mem _ hg')) d hd

/-- the same for the smoothed marginals of the fixed-interval smoother on a fixed grid -/
theorem smoother_exact_on_polynomial_quadrature [CharZero K] (scale : K) (q ord : ℕ) (hord : ord ≤ q) (p : K[X])
    (hp : p.natDegree ≤ q) (t0 : K) (gs : List (GridStep q K)) (hh : ∀ g ∈ gs, g.h ≠ 0)
    (st : SolState (q+1) K) (hst : st.u.mean.toV = IwpDen.jet q p t0) (last : SolState (q+1) K)
    (hlast : last.u.mean.toV = (IwpDen.jet q p t0 :: jets q p t0 gs).getLast (List.cons_ne_nil _ _)) :
    (solveFixedGridSmoothed .fixedInterval scale (run .fixedInterval st (quadSteps q ord p t0 gs)) last).map
      (fun g => g.mean.toV) = IwpDen.jet q p t0 :: jets q p t0 gs :=
  fixedInterval_smoothed_means_exact scale st _ _ _ hst (quad_exactRun q ord hord p hp t0 gs hh)
    (quadSteps_units q ord p t0 gs hh) last hlast

/-! ### the dense factorisation: `d`-dimensional problems, one slice of size `(q+1) d` -/

/-- predictor exactness for the dense `d`-dimensional transition `kron(Φ(h), I_d)` -/
theorem dense_predictor_polynomial_exact [CharZero K] (q d : ℕ) (h s2 : K) (lam2 : Vec d K) (hh : h ≠ 0)
    (p : Fin d → K[X]) (hp : ∀ a, (p a).natDegree ≤ q) (t : K) :
    (Iwp.transitionDense q d h s2 lam2).den.A.toM *ᵥ IwpDen.jetD q d p t
        + (Iwp.transitionDense q d h s2 lam2).den.b.toV = IwpDen.jetD q d p (t + h) := by
  rw [IwpDen.dense_den_b, add_zero, IwpDen.dense_mulVec_jet q d h s2 lam2 hh p hp]

/-- dense TS0 (= TS1) linearisation of `u^(ord) = g(t)`: `H = kron(e_ord, I_d)`, `b = -g(t+h)`, `R = damp² I` -/
def quadLinDense {α : Type} [Zero α] [One α] [Neg α] (q ord d : ℕ) (gt : Vec d α) (damp2 : α) : Cond d ((q+1)*d) α :=
  { A := ⟨fun a y => if y.val = ord * d + a.val then 1 else 0⟩, b := ⟨fun a => - gt.get a⟩
    Q := ⟨fun a b => if a = b then damp2 else 0⟩ }

/-- values of `g = p^(ord)` at `t`, per dimension -/
noncomputable def gAt (ord d : ℕ) (p : Fin d → K[X]) (t : K) : Vec d K := ⟨fun a => (derivative^[ord] (p a)).eval t⟩

theorem quadLinDense_residual (q ord d : ℕ) (hord : ord ≤ q) (p : Fin d → K[X]) (t damp2 : K) :
    (quadLinDense q ord d (gAt ord d p t) damp2).A.toM *ᵥ IwpDen.jetD q d p t
      + (quadLinDense q ord d (gAt ord d p t) damp2).b.toV = 0 := by
  funext a
  have hlt : ord * d + a.val < (q + 1) * d := by
    have h1 : ord * d + a.val < (ord + 1) * d := by rw [Nat.succ_mul]; exact Nat.add_lt_add_left a.isLt _
    exact lt_of_lt_of_le h1 (Nat.mul_le_mul_right d (Nat.succ_le_succ hord))
  have hd : 0 < d := by have := a.isLt; omega
  have hdiv : (ord * d + a.val) / d = ord := by
    rw [Nat.add_comm, Nat.mul_comm, Nat.add_mul_div_left _ _ hd, Nat.div_eq_of_lt a.isLt, Nat.zero_add]
  have hmod : (ord * d + a.val) % d = a.val := by
    rw [Nat.add_comm, Nat.mul_comm, Nat.add_mul_mod_self_left, Nat.mod_eq_of_lt a.isLt]
  simp only [quadLinDense, gAt, Mat.toM, Vec.toV, Matrix.mulVec, dotProduct, Matrix.of_apply, Pi.add_apply, Pi.zero_apply,
    ite_mul, one_mul, zero_mul]
  rw [Finset.sum_eq_single (⟨ord * d + a.val, hlt⟩ : Fin ((q+1)*d))]
  · simp only [if_true, IwpDen.jetD]
    have hfin : (⟨(ord * d + a.val) % d, IwpDen.di_lt q d ⟨ord * d + a.val, hlt⟩⟩ : Fin d) = a := Fin.ext hmod
    rw [hdiv, hfin, add_neg_cancel]
  · intro y _ hy
    have : ¬ y.val = ord * d + a.val := fun h => hy (Fin.ext h)
    simp [this]
  · intro h; exact (h (Finset.mem_univ _)).elim

/-- data of one dense step -/
structure GridStepD (q d : ℕ) (K : Type) where
  h : K
  s2 : K
  lam2 : Vec d K
  damp2 : K
  Gt : Mat ((q+1)*d) ((q+1)*d) K
  Gu : Mat ((q+1)*d) d K

noncomputable def quadStepsD (q ord d : ℕ) (p : Fin d → K[X]) :
    K → List (GridStepD q d K) → List (C02.StepData ((q+1)*d) d K)
  | _, [] => []
  | t, g :: gs =>
    { tr := Iwp.transitionDense q d g.h g.s2 g.lam2
      lin := fun _ => quadLinDense q ord d (gAt ord d p (t + g.h)) g.damp2
      Gt := g.Gt, Gu := g.Gu } :: quadStepsD q ord d p (t + g.h) gs

noncomputable def jetsD (q d : ℕ) (p : Fin d → K[X]) : K → List (GridStepD q d K) → List (Fin ((q+1)*d) → K)
  | _, [] => []
  | t, g :: gs => IwpDen.jetD q d p (t + g.h) :: jetsD q d p (t + g.h) gs

theorem quadD_exactRun [CharZero K] (q ord d : ℕ) (hord : ord ≤ q) (p : Fin d → K[X]) (hp : ∀ a, (p a).natDegree ≤ q)
    (t : K) (gs : List (GridStepD q d K)) (hh : ∀ g ∈ gs, g.h ≠ 0) :
    ExactRun (IwpDen.jetD q d p t) (quadStepsD q ord d p t gs) (jetsD q d p t gs) := by
  induction gs generalizing t with
  | nil => trivial
  | cons g gs ih =>
    exact ⟨⟨dense_predictor_polynomial_exact q d g.h g.s2 g.lam2 (hh g List.mem_cons_self) p hp t,
        quadLinDense_residual q ord d hord p (t + g.h) g.damp2⟩,
      ih (t + g.h) (fun g' hg' => hh g' (List.mem_cons_of_mem _ hg'))⟩

/-- **the dense factorisation**: `d`-dimensional quadrature problem `u^(ord) = g(t)` with polynomial solutions
`p_a` of degree `≤ q`, per-dimension base scales `lam2`: all posterior means of every strategy are exact. -/
theorem dense_filter_exact_on_polynomial_quadrature [CharZero K] (s : Strategy) (q ord d : ℕ) (hord : ord ≤ q)
    (p : Fin d → K[X]) (hp : ∀ a, (p a).natDegree ≤ q) (t0 : K) (gs : List (GridStepD q d K))
    (hh : ∀ g ∈ gs, g.h ≠ 0) (st : SolState ((q+1)*d) K) (hst : st.u.mean.toV = IwpDen.jetD q d p t0) :
    (run s st (quadStepsD q ord d p t0 gs)).map (fun st' => st'.u.mean.toV) = jetsD q d p t0 gs :=
  run_means_exact s st _ _ _ hst (quadD_exactRun q ord d hord p hp t0 gs hh)

/-- with a linearisation that does not depend on the point (quadrature), `solver_dynamic.step` is `solver.step`
with the re-discretised transition — so the run theorem above covers the dynamic mode with `s2` = local scale -/
theorem stepDynamic_const_lin (s : Strategy) (tr1 trS : PCond n n K) (c : Cond k n K) (relin : Bool)
    (st : SolState n K) (Gt : Mat n n K) (Gu : Mat n k K) :
    Solver.stepDynamic s tr1 trS (fun _ => c) relin st Gt Gu = Solver.step s trS (fun _ => c) st Gt Gu := by
  cases relin <;> rfl

/-! ## 5. the local error estimate: closed form in `h` -/

/-- **`estimate_order`.** The variance of the residual of an order-`ord` ODE under the mean-only prediction over
a step `h` (what `error_residual_std` calibrates and rescales): entry `(ord, ord)` of `Q(h)` plus the damping,
`s2 · h^(2(q-ord)+1) / ((2(q-ord)+1) ((q-ord)!)²) + damp²`. The standard deviation therefore scales like
`h^(q-ord+1/2)`, and after multiplication by `dt^(ord-1)/(ord-1)!` and the calibrated scale the estimate
contracts with the exponent `q + 1` used in `error_power = norm^(-1/(q+1))`. -/
theorem estimate_order [CharZero K] (q ord : ℕ) (hord : ord ≤ q) (h s2 gt damp2 : K) (m : Vec (q+1) K) :
    ((quadLin q ord gt damp2).marg ((Iwp.transition1 q h s2).applyPt m)).cov.get 0 0
      = s2 * h ^ (2 * (q - ord) + 1)
          / (((2 * (q - ord) + 1 : ℕ) : K) * ((q - ord).factorial : K) ^ 2) + damp2 := by
  have hio : ord < q + 1 := by omega
  have hH : ∀ j : Fin (q+1), (if j.val = ord then (1 : K) else 0) = if j = ⟨ord, hio⟩ then 1 else 0 := by
    intro j; simp [Fin.ext_iff]
  rw [← toM_apply, C08.marg_cov, (C08.applyPt_den _ m).2, (C08.applyPt_spec _ m).2, IwpDen.den_Q]
  simp only [quadLin, Mat.toM, Matrix.add_apply, Matrix.mul_apply, Matrix.transpose_apply, Matrix.of_apply, hH,
    ite_mul, one_mul, zero_mul, mul_ite, mul_one, mul_zero, Finset.sum_ite_eq', Finset.mem_univ,
    if_true, IwpDen.Qmat]
  have he : 2 * q + 1 - ord - ord = 2 * (q - ord) + 1 := by omega
  rw [he, pow_two, mul_assoc]

/-! ## 5b. the acceptance invariant -/

/-- **`accepted_steps_meet_estimate`.** About the loop model `Pdq.Model.Adaptive` (every solver, every estimator,
every controller, every fuel, every history): whatever `RejectionLoop.step` returns was proposed by its last
attempt, and that attempt's squared scaled local error estimate `norm2 a` is `≤ 1` — for every estimator whose
acceptance quantity is `error_power = norm^(-1/rate)`, stated root-free as `error_power^(2·rate) · norm² = 1`
(the relation documented in `Pdq.Model.ErrorEst` / C07; `rate = q + 1` for the shipped estimators; an estimate
of exactly `0` gives `error_power = ∞` in the code and is outside this algebraic statement — it is accepted too). -/
theorem accepted_steps_meet_estimate {K σ : Type} [Field K] [LinearOrder K] [IsStrictOrderedRing K]
    (cfg : Cfg K σ) (hseed : cfg.seed < 1) (fuel : Nat) (s s' : TimeStepState K σ) (t1 : K)
    (h : cfg.step fuel s t1 = some s') (rate : ℕ) (norm2 : AttemptRec K σ → K)
    (hrel : ∀ a : AttemptRec K σ, 0 < a.ep → a.ep ^ (2 * rate) * norm2 a = 1) :
    ∃ a tl, s'.trace = Event.attempt a :: tl ∧ s'.stepFrom = a.proposed ∧ a.src = s.stepFrom ∧ norm2 a ≤ 1 := by
  obtain ⟨a, tl, htr, hep, hsrc, _, hprop, _⟩ := C06.step_accepts cfg hseed fuel s s' t1 h
  refine ⟨a, tl, htr, hprop, hsrc, ?_⟩
  have hpos : 0 < a.ep := lt_of_lt_of_le one_pos hep
  have hpow : 1 ≤ a.ep ^ (2 * rate) := one_le_pow₀ hep
  have hne : a.ep ^ (2 * rate) ≠ 0 := (lt_of_lt_of_le one_pos hpow).ne'
  have hn : norm2 a = (a.ep ^ (2 * rate))⁻¹ := eq_inv_of_mul_eq_one_right (hrel a hpos)
  rw [hn]
  exact inv_le_one_of_one_le₀ hpow

/-- non-vacuity: an attempt with `error_power = 2`, `rate = 3`, `norm² = 1/64` satisfies the relation -/
example : (2 : ℚ) ^ (2 * 3) * (1 / 64) = 1 := by norm_num

/-! ## 6. finding D8: zero local scale, zero covariance, zero damping -/

/-- In the situation of D8 (exact initial state: zero covariance; dynamic calibration returned the local scale 0;
damp = 0) the predicted covariance, the innovation covariance and the cross-covariance all vanish, so **every**
gain `G` satisfies the certificate `G S = P⁻ Hᵀ`; by `step_mean_exact` the posterior mean is exact for each of
them. The model is total there; the real `solver_dynamic.step` evaluated `solve_triu(0, 0)` and returned NaN
(finding D8, since repaired in the repository: the local scale is floored at machine epsilon). -/
theorem d8_every_gain_certified [CharZero K] (q ord : ℕ) (h gt : K) (st : SolState (q+1) K)
    (hcov : st.u.cov.toM = 0) (Gt : Mat (q+1) (q+1) K) (G : Mat (q+1) 1 K) :
    let pred := Strategy.filter.predict (Iwp.transition1 q h 0) st Gt
    pred.u.cov.toM = 0 ∧
    G.toM * ((quadLin q ord gt 0).marg pred.u).cov.toM = ((quadLin q ord gt 0).cross pred.u).toM := by
  intro pred
  have hQ0 : (Iwp.transition1 q h (0 : K)).den.Q.toM = 0 := by
    rw [IwpDen.den_Q]; funext i j; simp [IwpDen.Qmat]
  have hP : pred.u.cov.toM = 0 := by
    rw [(C02.filter_predict_eq_textbook _ st Gt).2, hcov, hQ0]; simp
  refine ⟨hP, ?_⟩
  have hR : (quadLin q ord gt (0 : K)).Q.toM = 0 := by funext i j; rfl
  rw [C08.marg_cov, hP, hR]
  simp [Cond.cross, hP]

/-! ## non-vacuity: `u' = 1 + 2t`, `u(0) = 1/2`, `q = 2`, grid `[0, 1/4, 3/4, 1]` (the instance of D8) -/
section example_
/-- jet of `p(t) = 1/2 + t + t²` at `t` -/
def exJet (t : Rat) : Vec 3 Rat := ⟨fun i => if i.val = 0 then 1/2 + t + t*t else if i.val = 1 then 1 + 2*t else 2⟩
def exSt : SolState 3 Rat := SolState.init { mean := exJet 0, cov := ⟨fun _ _ => 0⟩ }
/-- gain of the unit-scale step `h = 1/4`: `Q(h) e_1 / Q_11(h)` -/
def exGu : Mat 3 1 Rat := ⟨fun i _ => if i.val = 0 then 3/32 else if i.val = 1 then 1 else 6⟩
def exStep (t h : Rat) (st : SolState 3 Rat) (Gu : Mat 3 1 Rat) : SolState 3 Rat :=
  Solver.step .filter (Iwp.transition1 2 h 1) (fun _ => quadLin 2 1 (1 + 2*(t+h)) 0) st Mat.zero Gu
/-- the certificate holds for `exGu` (so the instance is inside the certified regime as well) -/
example : let p := Strategy.filter.predict (Iwp.transition1 2 (1/4) 1) exSt Mat.zero
    (quadLin 2 1 (1 + 2*(1/4 : Rat)) 0).gainOk p.u exGu = true := by decide +kernel
/-- the first posterior mean is the exact jet at `1/4`: `u(1/4) = 13/16 = 0.8125` -/
example : ((exStep 0 (1/4) exSt exGu).u.mean.beq (exJet (1/4))) = true := by decide +kernel
/-- … and also for a gain that is *not* certified (the zero gain), as the theorem says -/
example : ((exStep 0 (1/4) exSt Mat.zero).u.mean.beq (exJet (1/4))) = true := by decide +kernel
/-- three steps: `u = 13/16, 29/16, 5/2` = `0.8125, 1.8125, 2.5` -/
example : let s1 := exStep 0 (1/4) exSt exGu; let s2 := exStep (1/4) (1/2) s1 Mat.zero
    let s3 := exStep (3/4) (1/4) s2 Mat.zero
    (s1.u.mean.get 0, s2.u.mean.get 0, s3.u.mean.get 0) = (13/16, 29/16, 5/2) := by decide +kernel
/-- the closed form of the estimate's variance on the instance: `h³/3` at `h = 1/4` is `1/192` -/
example : ((quadLin 2 1 (0 : Rat) 0).marg ((Iwp.transition1 2 (1/4 : Rat) 1).applyPt (exJet 0))).cov.get 0 0 = 1/192 := by
  decide +kernel
end example_

end Pdq.C01
