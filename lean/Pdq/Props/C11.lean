import Pdq.Props.C10
import Pdq.Model.Linearize
import Pdq.Lemmas.Linearize
import Pdq.Bridge
import Mathlib.Algebra.DualNumber

/-!
# C11 — Jet-lifting and constraint constructors differentiate constraints exactly

Statements about the executable definitions of `Pdq.Model.Linearize` (run by `pdqdrv` at `Rat`):

* `lift_spec`: `JetAbstract.lift` (argument reordering of `args_autonomous_and_jet_compatible`
  included) returns `[g, Dg, …, D^m g]` on the supplied coefficients, `D` the formal total time
  derivative (`C10.D_is_time_derivative`); convention: unnormalised derivatives
  (`jet(..., is_tcoeff=False)` = `factorial_scaled=True`);
* `lift_range`: accepted iff `0 ≤ lift_by ≤ len(jet_coords) − K`;
* `ode_lift_indices`, `ode_lift_indices_correct`: output indices `idx … idx+m`, and they are the
  right ones along the exact solution;
* `residual_from_ode_spec`, `residual_from_ode_order`, `stack_spec`;
* `pd_is_partial_derivative` (dual numbers), `linearize_{dense,blockdiag,iso}_{jac,value}`,
  `linearize_iso_exact_of_isotropic`, `ts0_value`, `ts0_dense_value`, `ts1_eq_residual`;
* `residual_route_determines` (for C10): a coefficient list starting with `inits` annihilates the
  lifted ODE residual iff it is `taylorCoeffs`.
-/
set_option linter.unusedSectionVars false
open Matrix

namespace Pdq.C11
open Pdq Pdq.Expr Pdq.Lin Pdq.Jet Pdq.C10
variable {K : Type}


section lifting
variable [Field K] [CharZero K]

/-- **`lift_range`**: a lift order is accepted iff `0 ≤ lift_by ≤ len(jet_coords) − K` -/
theorem lift_range (Kk : ℕ) (fs : List (Expr K)) (liftBy : ℤ) (jc : List (List K)) (t : K) :
    (lift Kk fs liftBy jc t).isSome = true ↔ 0 ≤ liftBy ∧ liftBy ≤ (jc.length : ℤ) - (Kk : ℤ) := by
  unfold lift
  by_cases h : liftBy < 0 ∨ liftBy > (jc.length : ℤ) - (Kk : ℤ)
  · simp only [h, if_true, Option.isSome_none]
    constructor
    · intro h'; cases h'
    · intro h'; omega
  · simp only [h, if_false]
    constructor
    · intro _; omega
    · intro _; split <;> rfl

/-- **`lift_spec`**: lifting by `m` returns `[g, Dg, …, D^m g]` evaluated on the supplied coefficients
(unnormalised derivatives: `jet(..., is_tcoeff=False)`, i.e. `factorial_scaled=True`), including the
explicit time dependence.  Only the first `K + m` coefficients are read. -/
theorem lift_spec (Kk : ℕ) (gs : List (Expr K)) (m : ℕ) (jc : List (List K)) (t : K)
    (hK : 1 ≤ Kk) (hord : ∀ g ∈ gs, g.order ≤ Kk) (hm : Kk + m ≤ jc.length) :
    lift Kk gs (m : ℤ) jc t = some (tabulate (m + 1) fun j => gs.map fun g => evalOn jc t (iter D j g)) := by
  unfold lift
  have hr : ¬ ((m : ℤ) < 0 ∨ (m : ℤ) > (jc.length : ℤ) - (Kk : ℤ)) := by omega
  simp only [hr, if_false, Int.toNat_natCast]
  have hlen : (jc.take (Kk + m)).length = Kk + m := by simp; omega
  have hs : (argsAuto (jc.take (Kk + m)) Kk).2.getD 0 [] = ((jc.take (Kk + m)).drop 1).take m := by
    rw [argsAuto_series _ Kk 0 (by omega) (by omega), hlen]; simp
  have hsl : ((argsAuto (jc.take (Kk + m)) Kk).2.getD 0 []).length = m := by
    rw [hs]; simp; omega
  rcases Nat.eq_zero_or_pos m with rfl | hm1
  · have : ((argsAuto (jc.take (Kk + 0)) Kk).2.getD 0 []).isEmpty = true := by
      rw [List.isEmpty_iff_length_eq_zero, hsl]
    simp only [this, if_true]
    congr 1
    simp only [tabulate]
    congr 1
    refine List.map_congr_left fun g hg => ?_
    rw [argsAuto_fst]
    refine evalOn_congr _ _ _ _ fun k hk => ?_
    have := hord g hg
    simp [List.getD_eq_getElem?_getD, show k < Kk by omega]
  · have : ((argsAuto (jc.take (Kk + m)) Kk).2.getD 0 []).isEmpty = false := by
      rw [← Bool.not_eq_true, List.isEmpty_iff_length_eq_zero, hsl]; omega
    simp only [this, hsl]
    rw [C10.jet_exact gs (jc.take (Kk + m)) Kk m t hord hlen hm1]
    simp only [Bool.false_eq_true, if_false]
    congr 1
    refine tabulate_congr fun j hj => ?_
    refine List.map_congr_left fun g hg => ?_
    refine evalOn_congr _ _ _ _ fun k hk => ?_
    have := hord g hg
    have := order_iter_D_le g j
    simp [List.getD_eq_getElem?_getD, show k < Kk + m by omega]

/-- **`ode_lift_indices`**: the lifted ODE reports the outputs `idx, idx+1, …, idx+m` -/
theorem ode_lift_indices (idx m : ℕ) :
    (liftIndices idx m).length = m + 1 ∧ ∀ j ≤ m, (liftIndices idx m).getD j 0 = idx + j := by
  refine ⟨by simp [liftIndices], fun j hj => ?_⟩
  simp [liftIndices, List.getD_eq_getElem?_getD, show j < m + 1 by omega]

/-- … and these are the right indices: along the exact solution (`taylorCoeffs`), the `j`-th output
of the lifted vector field *is* the coefficient `u_{K+j}` -/
theorem ode_lift_indices_correct (fs : List (Expr K)) (inits : List (List K)) (t : K) (m N : ℕ)
    (hK : 1 ≤ inits.length) (hord : ∀ f ∈ fs, f.order ≤ inits.length) (hN : m < N) :
    lift inits.length fs (m : ℤ) (taylorCoeffs fs inits t N) t
      = some ((liftIndices inits.length m).map fun idx => (taylorCoeffs fs inits t N).getD idx []) := by
  rw [lift_spec inits.length fs m _ t hK hord (by rw [tc_length]; omega)]
  congr 1
  unfold liftIndices tabulate
  rw [List.map_map]
  refine List.map_congr_left fun j hj => ?_
  simp only [Function.comp]
  rw [tc_get fs inits t hord (by have := List.mem_range.mp hj; omega)]

end lifting


section constructors
variable [Field K]

/-- **`residual_from_ode_spec`**: the `q`-th block of `residual_from_ode` evaluates to
`u^(idx_q) − f_q(u, …, t)`, componentwise -/
theorem residual_from_ode_spec (idxs : List ℕ) (vf : List (List (Expr K))) (u : ℕ → ℕ → K) (t : K)
    (q a : ℕ) (hq : q < idxs.length) (hq' : q < vf.length) (ha : a < (vf.getD q []).length) :
    eval id u t (((residualFromOde idxs vf).getD q []).getD a (const 0))
      = u (idxs.getD q 0) a - eval id u t ((vf.getD q []).getD a (const 0)) := by
  unfold residualFromOde
  simp only [List.getD_eq_getElem?_getD, List.getElem?_zipWith, List.getElem?_eq_getElem hq,
    List.getElem?_eq_getElem hq', Option.getD_some] at ha ⊢
  simp only [List.getElem?_map, List.getElem?_range ha, Option.map_some, Option.getD_some, eval]
  ring

/-- the residual of an ODE of order `K` reads `K + 1` coefficients -/
theorem residual_from_ode_order (Kk : ℕ) (f : List (Expr K)) (hord : ∀ g ∈ f, g.order ≤ Kk) :
    ∀ r ∈ (residualFromOde [Kk] [f]).getD 0 [], r.order ≤ residualFromOdeOrder Kk := by
  intro r hr
  simp only [residualFromOde, List.zipWith_cons_cons, List.zipWith_nil_right, List.getD_cons_zero,
    List.mem_map, List.mem_range] at hr
  obtain ⟨a, ha, rfl⟩ := hr
  have : (f.getD a (const 0)) ∈ f := by simp [List.getD_eq_getElem?_getD, ha]
  have := hord _ this
  simp only [Expr.order, residualFromOdeOrder]; omega

/-- **`stack_spec`**: a stacked residual evaluates each part on its own coefficients
`jet_coords[:K_part]`; this equals the stacked program on the full coefficient list whenever every
part only mentions its own `K_part` coefficients -/
theorem stack_spec (parts : List (ℕ × List (List (Expr K)))) (jc : List (List K)) (t : K)
    (hord : ∀ p ∈ parts, ∀ r ∈ p.2, ∀ g ∈ r, g.order ≤ p.1) :
    (stackEval parts jc t).flatten = (stackExprs parts).map fun r => r.map (evalOn jc t) := by
  unfold stackEval stackExprs
  rw [List.flatMap_def, List.map_flatten, List.map_map]
  congr 1
  refine List.map_congr_left fun p hp => ?_
  simp only [Function.comp]
  refine List.map_congr_left fun r hr => ?_
  refine List.map_congr_left fun g hg => ?_
  refine evalOn_congr _ _ _ _ fun k hk => ?_
  have := hord p hp r hr g hg
  simp [List.getD_eq_getElem?_getD, show k < p.1 by omega]

end constructors

section partial_derivative
variable [CommRing K]
open DualNumber TrivSqZeroExt

/-- **`pd k i` is the partial derivative** with respect to `u^(k)_i`: perturbing that variable by the
dual unit `ε` (`ε² = 0`) changes the value by `ε · (pd k i g)(u, t)` -/
theorem pd_is_partial_derivative (g : Expr K) (u : ℕ → ℕ → K) (t : K) (k i : ℕ) :
    eval (fun a => (inl a : DualNumber K))
        (fun k' i' => if k' = k ∧ i' = i then inl (u k' i') + ε else inl (u k' i')) (inl t) g
      = inl (eval id u t g) + (eval id u t (pd k i g)) • ε := by
  induction g with
  | const a => simp [eval, pd]
  | var k' i' =>
      by_cases h : k' = k ∧ i' = i
      · simp [eval, pd, h]
      · simp [eval, pd, h]
  | time => simp [eval, pd]
  | add p q ihp ihq =>
      simp only [eval, pd, ihp, ihq, inl_add, add_smul]; abel
  | mul p q ihp ihq =>
      simp only [eval, pd, ihp, ihq]
      ext
      · simp
      · simp [DualNumber.snd_eps]; ring
  | neg p ih =>
      simp only [eval, pd, ih, inl_neg, neg_smul]; abel

end partial_derivative


section linearise
variable [Field K]


/-! ### dense -/

/-- dense linearisation, Jacobian: the full `J[a, k·d+i] = ∂r_a/∂u^(k)_i` at the linearisation point -/
theorem linearize_dense_jac (n d : ℕ) (rs : List (Expr K)) (ξ : List (List K)) (t : K)
    (a : Fin rs.length) (j : Fin (n * d)) :
    (linDense n d rs ξ t).1.get a j = evalOn ξ t (pd (j.val / d) (j.val % d) (rs.get a)) := by
  simp [linDense]

/-- dense linearisation, value: `J ξ + b = r(ξ)` (`b = r(ξ) − J ξ`, sign of the offset) -/
theorem linearize_dense_value (n d : ℕ) (rs : List (Expr K)) (ξ : List (List K)) (t : K) :
    (linDense n d rs ξ t).1.toM *ᵥ (fun j : Fin (n * d) => getU ξ (j.val / d) (j.val % d))
      + (linDense n d rs ξ t).2.toV = fun a => evalOn ξ t (rs.get a) := by
  simp only [linDense, toV_sub, toV_mulVec, toV_ofFn]
  abel

/-! ### block-diagonal -/

theorem linearize_blockdiag_jac (n d m : ℕ) (rs : List (Expr K)) (ξ : List (List K)) (t : K) (j : ℕ)
    (a : Fin m) (k : Fin n) :
    (linBlockDiag n d m rs ξ t j).1.get a k = evalOn ξ t (pd k.val j (rAt d rs a.val j)) := by
  simp [linBlockDiag]

theorem linearize_blockdiag_value (n d m : ℕ) (rs : List (Expr K)) (ξ : List (List K)) (t : K) (j : ℕ) :
    (linBlockDiag n d m rs ξ t j).1.toM *ᵥ (fun k : Fin n => getU ξ k.val j)
      + (linBlockDiag n d m rs ξ t j).2.toV = fun a : Fin m => evalOn ξ t (rAt d rs a.val j) := by
  simp only [linBlockDiag, toV_sub, toV_mulVec, toV_ofFn]
  abel

/-! ### isotropic -/

theorem linearize_iso_jac (n d m : ℕ) (rs : List (Expr K)) (ξ : List (List K)) (t : K)
    (a : Fin m) (k : Fin n) :
    (linIso n d m rs ξ t).1.get a k
      = (∑ j : Fin d, evalOn ξ t (pd k.val j.val (rAt d rs a.val j.val))) / (d : K) := by
  simp [linIso, vsum_eq, natK_eq]

theorem linearize_iso_value (n d m : ℕ) (rs : List (Expr K)) (ξ : List (List K)) (t : K) :
    (linIso n d m rs ξ t).1.toM * (Matrix.of fun (k : Fin n) (j : Fin d) => getU ξ k.val j.val)
      + (linIso n d m rs ξ t).2.toM
      = Matrix.of fun (a : Fin m) (j : Fin d) => evalOn ξ t (rAt d rs a.val j.val) := by
  simp only [linIso, toM_sub, toM_mul, toM_ofFn]
  abel

/-- the trace average is the right normalisation: if the Jacobian really is isotropic
(`∂r_{a,j}/∂u^(k)_j = h a k` for every dimension `j`), the isotropic linearisation returns `h` -/
theorem linearize_iso_exact_of_isotropic [CharZero K] (n d m : ℕ) (hd : 0 < d) (rs : List (Expr K))
    (ξ : List (List K)) (t : K) (h : Fin m → Fin n → K)
    (hiso : ∀ (a : Fin m) (k : Fin n) (j : Fin d), evalOn ξ t (pd k.val j.val (rAt d rs a.val j.val)) = h a k)
    (a : Fin m) (k : Fin n) : (linIso n d m rs ξ t).1.get a k = h a k := by
  rw [linearize_iso_jac]
  simp only [hiso, Finset.sum_const, Finset.card_univ, Fintype.card_fin, nsmul_eq_mul]
  have : (d : K) ≠ 0 := by exact_mod_cast (Nat.pos_iff_ne_zero.mp hd)
  field_simp


/-- **`ts1_eq_residual`**: the first-order linearisation of the ODE constraint (`constraint_ode_ts1`)
*is* the linearisation of the residual `u^(K) − f = 0`: its Jacobian is `e_K ⊗ I − ∂f/∂x` and its
value at the linearisation point is `ξ_K − f(ξ, t)` -/
theorem ts1_eq_residual (n d Kk : ℕ) (f : List (Expr K)) (ξ : List (List K)) (t : K)
    (a : Fin (odeResidual Kk f).length) (j : Fin (n * d)) :
    (linDense n d (odeResidual Kk f) ξ t).1.get a j
      = (if j.val / d = Kk ∧ j.val % d = a.val then 1 else 0)
        - evalOn ξ t (pd (j.val / d) (j.val % d) (f.getD a.val (const 0))) ∧
    evalOn ξ t ((odeResidual Kk f).get a) = getU ξ Kk a.val - evalOn ξ t (f.getD a.val (const 0)) := by
  rw [linearize_dense_jac, odeResidual_get]
  constructor
  · simp only [pd, evalOn, eval]
    by_cases h : Kk = j.val / d ∧ a.val = j.val % d
    · have h' : j.val / d = Kk ∧ j.val % d = a.val := ⟨h.1.symm, h.2.symm⟩
      rw [if_pos h, if_pos h']; simp only [eval, id_eq]; ring
    · have h' : ¬ (j.val / d = Kk ∧ j.val % d = a.val) := fun hh => h ⟨hh.1.symm, hh.2.symm⟩
      rw [if_neg h, if_neg h']; simp only [eval, id_eq]; ring
  · simp only [evalOn, eval]; ring

/-! ### TS0 -/

/-- TS0, isotropic / per block: the linear operator selects the output coefficients and the offset is
`−f(ξ, t)`, so that `H ξ + b = ξ_{idx} − f(ξ, t)`: the value of the constraint `u^(idx) − f` at the
linearisation point, with *no* Jacobian of `f` -/
theorem ts0_value (n d : ℕ) (idxs : List ℕ) (fv : List (List K)) (ξ : List (List K))
    (q : Fin idxs.length) (j : Fin d) (hq : idxs.getD q.val 0 < n) :
    ((linTs0Iso n d idxs fv).1.toM * (Matrix.of fun (k : Fin n) (j : Fin d) => getU ξ k.val j.val)
      + (linTs0Iso n d idxs fv).2.toM) q j = getU ξ (idxs.getD q.val 0) j.val - getU fv q.val j.val := by
  simp only [linTs0Iso, toM_ofFn, Matrix.add_apply, Matrix.mul_apply, Matrix.of_apply]
  rw [Finset.sum_eq_single (⟨idxs.getD q.val 0, hq⟩ : Fin n)]
  · simp; ring
  · intro k _ hk
    have : k.val ≠ idxs.getD q.val 0 := fun h => hk (Fin.ext h)
    rw [if_neg this, zero_mul]
  · intro h; exact absurd (Finset.mem_univ _) h

/-- TS0, dense: the same selector in the coefficient-major ravel order -/
theorem ts0_dense_value (n d : ℕ) (idxs : List ℕ) (fv : List (List K)) (ξ : List (List K))
    (r : Fin (idxs.length * d)) (hq : idxs.getD (r.val / d) 0 < n) :
    ((linTs0Dense n d idxs fv).1.toM *ᵥ (fun j : Fin (n * d) => getU ξ (j.val / d) (j.val % d))
      + (linTs0Dense n d idxs fv).2.toV) r
      = getU ξ (idxs.getD (r.val / d) 0) (r.val % d) - getU fv (r.val / d) (r.val % d) := by
  have hd : 0 < d := by
    rcases Nat.eq_zero_or_pos d with rfl | h
    · exact absurd r.isLt (by simp)
    · exact h
  have hlt : idxs.getD (r.val / d) 0 * d + r.val % d < n * d := by
    have h1 : r.val % d < d := Nat.mod_lt _ hd
    calc idxs.getD (r.val / d) 0 * d + r.val % d < idxs.getD (r.val / d) 0 * d + d := by omega
      _ = (idxs.getD (r.val / d) 0 + 1) * d := by ring
      _ ≤ n * d := Nat.mul_le_mul_right d hq
  simp only [linTs0Dense, toM_ofFn, toV_ofFn, Pi.add_apply, Matrix.mulVec, dotProduct, Matrix.of_apply]
  rw [Finset.sum_eq_single (⟨idxs.getD (r.val / d) 0 * d + r.val % d, hlt⟩ : Fin (n * d))]
  · have h1 : (idxs.getD (r.val / d) 0 * d + r.val % d) / d = idxs.getD (r.val / d) 0 := by
      rw [Nat.add_comm, Nat.add_mul_div_right _ _ hd, Nat.div_eq_of_lt (Nat.mod_lt _ hd), Nat.zero_add]
    have h2 : (idxs.getD (r.val / d) 0 * d + r.val % d) % d = r.val % d := by
      rw [Nat.add_comm, Nat.add_mul_mod_self_right, Nat.mod_mod]
    simp only [h1, h2, and_self, if_true, one_mul]; ring
  · intro c _ hc
    have : ¬ (c.val / d = idxs.getD (r.val / d) 0 ∧ c.val % d = r.val % d) := by
      rintro ⟨e1, e2⟩
      apply hc
      apply Fin.ext
      simp only
      rw [← e1, ← e2]; exact (Nat.div_add_mod' c.val d).symm
    rw [if_neg this, zero_mul]
  · intro h; exact absurd (Finset.mem_univ _) h



end linearise


/-! ## the residual route (C10): the lifted ODE residual determines the Taylor coefficients -/

section residual_route
variable [Field K] [CharZero K]

theorem odeResidual_order (Kk : ℕ) (f : List (Expr K)) (hord : ∀ g ∈ f, g.order ≤ Kk) :
    ∀ r ∈ odeResidual Kk f, r.order ≤ Kk + 1 := residual_from_ode_order Kk f hord

/-- evaluated lifted ODE residual, entry `(j, a)`: `u^(K+j)_a − (D^j f_a)(c, t)` -/
theorem lifted_residual_entry (Kk : ℕ) (fs : List (Expr K)) (c : List (List K)) (t : K) (j a : ℕ)
    (ha : a < fs.length) :
    ((odeResidual Kk fs).map fun g => evalOn c t (iter D j g)).getD a 0
      = getU c (Kk + j) a - evalOn c t (iter D j (fs.getD a (const 0))) := by
  have hl : a < (odeResidual Kk fs).length := by rw [odeResidual_length]; exact ha
  have h1 : (odeResidual Kk fs)[a] = (odeResidual Kk fs).getD a (const 0) := by
    simp [List.getD_eq_getElem?_getD, hl]
  simp only [List.getD_eq_getElem?_getD, List.getElem?_map, List.getElem?_eq_getElem hl, Option.map_some,
    Option.getD_some]
  rw [h1, odeResidual_getD Kk fs a ha, iter_D_residual]
  simp only [evalOn, eval, List.getD_eq_getElem?_getD]
  ring

/-- **the residual route determines the coefficients** (C10, last sentence): a coefficient list that
starts with `inits` annihilates the ODE residual `u^(K) − f` lifted by `num − 1` (all its total
derivatives up to order `num − 1`) iff it is `taylorCoeffs`.  This is the feasible set of the
constrained least-squares problem solved by `jetexpand_residual`. -/
theorem residual_route_determines (fs : List (Expr K)) (inits : List (List K)) (t : K) (num : ℕ)
    (hK : 1 ≤ inits.length) (hnum : 1 ≤ num) (hord : ∀ f ∈ fs, f.order ≤ inits.length)
    (c : List (List K)) (hlen : c.length = inits.length + num) (hinit : c.take inits.length = inits)
    (hdim : ∀ j < num, (c.getD (inits.length + j) []).length = fs.length) :
    lift (inits.length + 1) (odeResidual inits.length fs) ((num - 1 : ℕ) : ℤ) c t
        = some (List.replicate num (List.replicate fs.length 0))
      ↔ c = taylorCoeffs fs inits t num := by
  rw [lift_spec (inits.length + 1) (odeResidual inits.length fs) (num - 1) c t (by omega)
    (odeResidual_order _ fs hord) (by omega), show num - 1 + 1 = num by omega]
  simp only [Option.some.injEq]
  have hinit' : ∀ k < inits.length, c.getD k [] = inits.getD k [] := by
    intro k hk
    conv_rhs => rw [← hinit]
    simp [List.getD_eq_getElem?_getD, hk]
  have entry : ∀ j < num, (tabulate num fun j => (odeResidual inits.length fs).map fun g => evalOn c t (iter D j g)).getD j []
      = (odeResidual inits.length fs).map fun g => evalOn c t (iter D j g) := fun j hj => tabulate_getD_lt _ hj _
  constructor
  · intro h
    refine tc_unique fs inits t num hord c hlen hinit' fun j hj => ?_
    have hj' : (odeResidual inits.length fs).map (fun g => evalOn c t (iter D j g)) = List.replicate fs.length 0 := by
      rw [← entry j hj, h]; simp [List.getD_eq_getElem?_getD, hj]
    refine list_ext_getD 0 (by rw [hdim j hj]; simp) fun a ha => ?_
    have ha' : a < fs.length := by rw [hdim j hj] at ha; exact ha
    have h2 := congrArg (fun l => l.getD a 0) hj'
    simp only [lifted_residual_entry _ fs c t j a ha'] at h2
    have h3 : (List.replicate fs.length (0 : K)).getD a 0 = 0 := by
      simp [List.getD_eq_getElem?_getD, ha']
    rw [h3, sub_eq_zero] at h2
    have e : fs.getD a (const 0) = fs[a] := by simp [List.getD_eq_getElem?_getD, ha']
    rw [show (c.getD (inits.length + j) []).getD a 0 = getU c (inits.length + j) a from rfl, h2, e]
    simp [List.getD_eq_getElem?_getD, ha']
  · intro h
    refine list_ext_getD [] (by simp) fun j hj => ?_
    have hj' : j < num := by simpa using hj
    rw [entry j hj']
    have : (List.replicate num (List.replicate fs.length (0 : K))).getD j [] = List.replicate fs.length 0 := by
      simp [List.getD_eq_getElem?_getD, hj']
    rw [this]
    refine list_ext_getD 0 (by simp [odeResidual_length]) fun a ha => ?_
    have ha' : a < fs.length := by simpa [odeResidual_length] using ha
    rw [lifted_residual_entry _ fs c t j a ha']
    have h3 : (List.replicate fs.length (0 : K)).getD a 0 = 0 := by
      simp [List.getD_eq_getElem?_getD, ha']
    rw [h3, sub_eq_zero, h]
    have := tc_get fs inits t hord hj'
    unfold getU
    rw [this]
    have e : fs.getD a (const 0) = fs[a] := by simp [List.getD_eq_getElem?_getD, ha']
    rw [e]
    simp [List.getD_eq_getElem?_getD, ha']



end residual_route

/-! ## non-vacuity -/

/-- a second-order residual in two dimensions: `r = [u_0·u'_1 + t, u_1² − u'_0·t]` -/
def exampleResidual : List (Expr ℚ) :=
  [add (mul (var 0 0) (var 1 1)) time, add (mul (var 0 1) (var 0 1)) (neg (mul (var 1 0) time))]

def exampleCoeffs : List (List ℚ) := [[1, 2], [3, 4], [5, 6], [7, 8]]

theorem example_ord : ∀ g ∈ exampleResidual, g.order ≤ 2 := by decide

/-- `lift_spec` on a time-dependent residual: `[g, Dg]` with `Dg = [u'_0 u'_1 + u_0 u''_1 + 1, …]` -/
example : lift 2 exampleResidual 1 exampleCoeffs (1/2) = some [[9/2, 5/2], [19, 21/2]] := by
  rw [show ((1 : ℤ)) = ((1 : ℕ) : ℤ) from rfl, lift_spec 2 exampleResidual 1 exampleCoeffs (1/2) (by decide) example_ord (by decide)]
  decide +kernel

/-- `lift_range`: with four coefficients and `K = 2` exactly `lift_by ∈ {0, 1, 2}` is accepted -/
example : (lift 2 exampleResidual 2 exampleCoeffs (1/2)).isSome = true ∧
    lift 2 exampleResidual 3 exampleCoeffs (1/2) = none ∧ lift 2 exampleResidual (-1) exampleCoeffs (1/2) = none := by
  decide +kernel

/-- dense / isotropic / block-diagonal linearisations of the example (the values returned by the real
code for this input, see `harness/checks/c11.py::corpus`) -/
example : (linDense 4 2 exampleResidual exampleCoeffs (1/2)).1.toList
      = [4, 0, 0, 1, 0, 0, 0, 0, 0, 4, -1/2, 0, 0, 0, 0, 0] ∧
    (linDense 4 2 exampleResidual exampleCoeffs (1/2)).2.toList = [-7/2, -4] ∧
    (linIso 4 2 1 exampleResidual exampleCoeffs (1/2)).1.toList = [4, 0, 0, 0] ∧
    (linIso 4 2 1 exampleResidual exampleCoeffs (1/2)).2.toList = [1/2, -11/2] ∧
    (linBlockDiag 4 2 1 exampleResidual exampleCoeffs (1/2) 1).1.toList = [4, 0, 0, 0] ∧
    (linBlockDiag 4 2 1 exampleResidual exampleCoeffs (1/2) 1).2.toList = [-11/2] := by
  decide +kernel

example : (linDense 4 2 (odeResidual 2 exampleResidual) exampleCoeffs (1/2)).1.toList
      = [-4, 0, 0, -1, 1, 0, 0, 0, 0, -4, 1/2, 0, 0, 1, 0, 0] := by
  decide +kernel



theorem odeResidual_witness : odeResidual 1 [witnessD4] = [add (var 1 0) (neg witnessD4)] := by
  rfl

/-- `residual_route_determines`: the exact coefficients of `u' = t·u + t²`, `u(1/2) = 1` annihilate the
ODE residual lifted twice; the frozen-time list of D4 does not -/
example : lift 2 (odeResidual 1 [witnessD4]) 2 [[1], [3/4], [19/8], [75/16]] (1/2) = some [[0], [0], [0]] ∧
    lift 2 (odeResidual 1 [witnessD4]) 2 [[1], [3/4], [3/8], [3/16]] (1/2) = some [[0], [-2], [-7/2]] := by
  rw [odeResidual_witness]
  decide +kernel

end Pdq.C11
