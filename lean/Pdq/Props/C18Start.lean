import Pdq.Props.C18
import Pdq.Props.C06Term

/-!
# C18 — "a proposal returned by either helper lets an adaptive solve start"

`C18.dt0_fixed_pos` / `C18.dt0_adaptive_pos` give strictly positive proposals for every input;
`C06.first_step_terminates` says that the first `RejectionLoop.step` returns for every positive initial step
(contracting controller, small enough steps acceptable).  Composed: the first step of an adaptive solve started
with the proposal of either helper returns, whatever the initial value and vector field.
-/
namespace Pdq.C18
open Pdq Pdq.StepInit Pdq.C06

variable {K : Type} [Field K] [LinearOrder K] [IsStrictOrderedRing K] [Archimedean K] {σ : Type}

/-- the repaired simple helper: the first step of the adaptive loop returns, for every `‖u0‖` (also `0`) -/
theorem dt0_fixed_lets_solve_start (scale nugget n0 n1 : K) (hs : 0 < scale) (hn : 0 < nugget) (h1 : 0 ≤ n1)
    (cfg : Cfg K σ) (Inv : σ → Prop) (ρ h : K) (hρ : 0 ≤ ρ) (hρ1 : ρ < 1) (hh : 0 < h)
    (hpos : CtlPos cfg.ctl) (hinv : CtlInv cfg.ctl Inv) (hcon : CtlContracts cfg.ctl Inv ρ)
    (hest : ∀ es a b dt, 0 ≤ (cfg.est.estimate es a b dt).1) (t1 : K)
    (s0 : LSolState K) (hahead : cfg.clip = true → s0.t < t1)
    (hacc : ∀ dt, 0 < dt → dt ≤ h → ¬ (cfg.est.estimate cfg.est.init s0 (cfg.solver.step s0 dt) dt).1 < 1) :
    ∃ N, ∀ fuel, N ≤ fuel →
      ∃ s', cfg.step fuel (cfg.init s0 (dt0Fixed scale nugget n0 n1)) t1 = some s' ∧ s'.interpFrom = s0 :=
  first_step_terminates cfg Inv ρ h hρ hρ1 hh hpos hinv hcon hest t1 s0 _ (dt0_fixed_pos scale nugget n0 n1 hs hn h1)
    hahead hacc

/-- the tolerance-aware helper: the first step of the adaptive loop returns, for all norms, every vector field, every
contraction rate -/
theorem dt0_adaptive_lets_solve_start (L : AdLits K) (hL : Admissible L) (root : K → Nat → K)
    (hroot : ∀ x k, 0 < x → 0 < root x k) (d0 d1 : K) (n2 : K → K) (rate : Nat)
    (cfg : Cfg K σ) (Inv : σ → Prop) (ρ h : K) (hρ : 0 ≤ ρ) (hρ1 : ρ < 1) (hh : 0 < h)
    (hpos : CtlPos cfg.ctl) (hinv : CtlInv cfg.ctl Inv) (hcon : CtlContracts cfg.ctl Inv ρ)
    (hest : ∀ es a b dt, 0 ≤ (cfg.est.estimate es a b dt).1) (t1 : K)
    (s0 : LSolState K) (hahead : cfg.clip = true → s0.t < t1)
    (hacc : ∀ dt, 0 < dt → dt ≤ h → ¬ (cfg.est.estimate cfg.est.init s0 (cfg.solver.step s0 dt) dt).1 < 1) :
    ∃ N, ∀ fuel, N ≤ fuel →
      ∃ s', cfg.step fuel (cfg.init s0 (dt0Adaptive L root d0 d1 n2 rate)) t1 = some s' ∧ s'.interpFrom = s0 :=
  first_step_terminates cfg Inv ρ h hρ hρ1 hh hpos hinv hcon hest t1 s0 _
    (dt0_adaptive_pos L hL root hroot d0 d1 n2 rate) hahead hacc

end Pdq.C18
