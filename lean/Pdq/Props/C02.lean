import Pdq.Model.Solver
import Pdq.Props.C08
/-!
# C02 — Filter posterior equals the exact Gaussian posterior of the linearised model

Theorems about `Pdq.Model.Solver` (the definitions the driver executes): one solver step with the filter
strategy *is* the textbook extended-Kalman step for the de-preconditioned transition `(Φ, q, Q) = den tr`
and the linearised observation `(H, b, R) = lin m⁻`; a whole fixed-grid run is the textbook recursion
(induction over the grid); the update is the Gaussian conditional of the joint law at the datum 0.
All statements hold for every size, every field, every transition, every linearisation and every
certified gain — no invertibility assumption, so noise-free (damp = 0) and exact initial states are covered.
-/
set_option linter.unusedSectionVars false
open Matrix

namespace Pdq.C02
variable {K : Type} [Field K] {k n : Nat}

/-- **update = Gaussian conditional.** `bayes_rule_tree(0, rv)` returns
`N(m - G(Hm + b), P - G S Gᵀ)` for the certified gain `G` (`G S = P Hᵀ`). -/
theorem bayesZero_spec (c : Cond k n K) (rv : Gauss n K) (G : Mat n k K) :
    (c.bayesZero rv G).mean.toV = rv.mean.toV - G.toM *ᵥ (c.A.toM *ᵥ rv.mean.toV + c.b.toV) ∧
    (c.bayesZero rv G).cov.toM
      = rv.cov.toM - G.toM * (c.A.toM * rv.cov.toM * c.A.toMᵀ + c.Q.toM) * G.toMᵀ := by
  constructor
  · simp [Cond.bayesZero, Cond.revertWith, Cond.applyPt, Cond.marg]
  · simp [Cond.bayesZero, Cond.revertWith, Cond.applyPt, Cond.marg]

/-- the update is the backward kernel of the exact joint law of `(x, Hx + b + ε)` evaluated at the datum `0`:
together with `C08.revert_joint` (the pair `(observed, backward)` has the joint law of `(rv, c)` for every
certified gain) this is "the exact Gaussian posterior of the linearised model". -/
theorem update_is_conditional (c : Cond k n K) (rv : Gauss n K) (G : Mat n k K)
    (hP : rv.cov.toMᵀ = rv.cov.toM) (hQ : c.Q.toMᵀ = c.Q.toM)
    (hG : G.toM * (c.marg rv).cov.toM = (c.cross rv).toM) :
    let r := c.revertWith rv G
    (c.bayesZero rv G) = r.2.applyPt Vec.zero ∧
    (let j := Cond.jointRev r.2 r.1; let j0 := c.joint rv
     j.mx.toV = j0.mx.toV ∧ j.my.toV = j0.my.toV ∧ j.cxx.toM = j0.cxx.toM ∧
       j.cxy.toM = j0.cxy.toM ∧ j.cyy.toM = j0.cyy.toM) :=
  ⟨rfl, C08.revert_joint c rv G hP hQ hG⟩

/-- the textbook prediction through the de-preconditioned transition -/
theorem filter_predict_eq_textbook (tr : PCond n n K) (st : SolState n K) (Gt : Mat n n K) :
    let p := Strategy.filter.predict tr st Gt
    p.u.mean.toV = tr.den.A.toM *ᵥ st.u.mean.toV + tr.den.b.toV ∧
    p.u.cov.toM = tr.den.A.toM * st.u.cov.toM * tr.den.A.toMᵀ + tr.den.Q.toM := by
  intro p
  have h := C08.marg_den tr st.u
  constructor
  · simpa [p, Strategy.predict, Cond.marg] using h.1
  · simpa [p, Strategy.predict, Cond.marg] using h.2

/-- the textbook extended Kalman filter step on Mathlib matrices, written independently of the model -/
structure Ekf (n : Nat) (K : Type) where
  m : Fin n → K
  P : Matrix (Fin n) (Fin n) K

def ekfStep (Φ : Matrix (Fin n) (Fin n) K) (q : Fin n → K) (Q : Matrix (Fin n) (Fin n) K)
    (lin : (Fin n → K) → Matrix (Fin k) (Fin n) K × (Fin k → K) × Matrix (Fin k) (Fin k) K)
    (G : Matrix (Fin n) (Fin k) K) (s : Ekf n K) : Ekf n K :=
  let mp := Φ *ᵥ s.m + q
  let Pp := Φ * s.P * Φᵀ + Q
  let (H, b, R) := lin mp
  { m := mp - G *ᵥ (H *ᵥ mp + b), P := Pp - G * (H * Pp * Hᵀ + R) * Gᵀ }

def absState (st : SolState n K) : Ekf n K := { m := st.u.mean.toV, P := st.u.cov.toM }
def absLin (lin : Vec n K → Cond k n K) :
    (Fin n → K) → Matrix (Fin k) (Fin n) K × (Fin k → K) × Matrix (Fin k) (Fin k) K :=
  fun x => let c := lin ⟨x⟩; (c.A.toM, c.b.toV, c.Q.toM)

/-- **C02, one step.** For every transition, linearisation, state and certified gain, the model's solver
step with the filter strategy is the textbook EKF step
`m⁻ = Φm + q, P⁻ = ΦPΦᵀ + Q, S = HP⁻Hᵀ + R, m = m⁻ - G(Hm⁻ + b), P = P⁻ - G S Gᵀ`
with `(Φ, q, Q) = den tr` (the Taylor preconditioner cancels) and `(H, b, R) = lin m⁻`. -/
theorem filter_step_eq_textbook (tr : PCond n n K) (lin : Vec n K → Cond k n K)
    (st : SolState n K) (Gt : Mat n n K) (Gu : Mat n k K) :
    absState (Solver.step .filter tr lin st Gt Gu)
      = ekfStep tr.den.A.toM tr.den.b.toV tr.den.Q.toM (absLin lin) Gu.toM (absState st) := by
  obtain ⟨hm, hc⟩ := filter_predict_eq_textbook tr st Gt
  have hmean : (Strategy.filter.predict tr st Gt).u.mean
      = ⟨tr.den.A.toM *ᵥ st.u.mean.toV + tr.den.b.toV⟩ := by
    apply Vec.ext'; simpa [Vec.toV] using hm
  obtain ⟨h1, h2⟩ := bayesZero_spec (lin (Strategy.filter.predict tr st Gt).u.mean)
    (Strategy.filter.predict tr st Gt).u Gu
  simp only [absState, Solver.step, SolState.update, ekfStep, absLin]
  rw [h1, h2, hm, hc, hmean]

/-- data of one step of a run -/
structure StepData (n k : Nat) (K : Type) where
  tr : PCond n n K
  lin : Vec n K → Cond k n K
  Gt : Mat n n K
  Gu : Mat n k K

/-- the model's fixed-grid run (`solve_fixed_grid`'s scan over `solver.step`): all visited states -/
def runFilter (st : SolState n K) : List (StepData n k K) → List (SolState n K)
  | [] => []
  | s :: rest => let st' := Solver.step .filter s.tr s.lin st s.Gt s.Gu; st' :: runFilter st' rest

def ekfRun (s : Ekf n K) : List (StepData n k K) → List (Ekf n K)
  | [] => []
  | d :: rest =>
    let s' := ekfStep d.tr.den.A.toM d.tr.den.b.toV d.tr.den.Q.toM (absLin d.lin) d.Gu.toM s
    s' :: ekfRun s' rest

/-- **C02, whole grids.** By induction over the grid: every state visited by the model's fixed-grid
filter run is the state of the textbook recursion, for every number of steps. -/
theorem filter_run_eq_textbook (st : SolState n K) (steps : List (StepData n k K)) :
    (runFilter st steps).map absState = ekfRun (absState st) steps := by
  induction steps generalizing st with
  | nil => rfl
  | cons d rest ih =>
    simp only [runFilter, ekfRun, List.map_cons]
    rw [filter_step_eq_textbook, ih, filter_step_eq_textbook]

/-- the smoothers take the same forward (filtering) path: their predicted marginal is the filter's -/
theorem smoother_predict_marginal (tr : PCond n n K) (st : SolState n K) (Gt : Mat n n K) :
    (Strategy.fixedInterval.predict tr st Gt).u.mean.toV = (Strategy.filter.predict tr st Gt).u.mean.toV ∧
    (Strategy.fixedInterval.predict tr st Gt).u.cov.toM = (Strategy.filter.predict tr st Gt).u.cov.toM ∧
    (Strategy.fixedPoint.predict tr st Gt).u = (Strategy.fixedInterval.predict tr st Gt).u := by
  obtain ⟨h1, h2⟩ := C08.revert_obs tr st.u Gt
  exact ⟨by simpa [Strategy.predict] using h1, by simpa [Strategy.predict] using h2, rfl⟩

/-- `finalize` of the filter: calibrated covariances are the unit-scale covariances times `scale²` -/
theorem filter_finalize_rescale (g : Gauss n K) (c : K) :
    (g.rescale c).mean.toV = g.mean.toV ∧ (g.rescale c).cov.toM = (c ^ 2) • g.cov.toM :=
  C08.rescale_spec g c

/-! ### non-vacuity: a concrete two-step run -/
section example_
def exTr : PCond 2 2 Rat :=
  { A := ⟨fun i j => if i.val ≤ j.val then 1 else 0⟩, b := ⟨fun _ => 0⟩,
    Q := ⟨fun i j => if i.val = 0 ∧ j.val = 0 then 1/6 else if i.val = 1 ∧ j.val = 1 then 1/2 else 1/4⟩,
    tl := ⟨fun i => if i.val = 0 then 2 else 1⟩, tob := ⟨fun i => if i.val = 0 then 1/2 else 1⟩ }
def exLin : Vec 2 Rat → Cond 1 2 Rat := fun x =>
  { A := ⟨fun _ j => if j.val = 1 then 1 else 0⟩, b := ⟨fun _ => - (x.get 0 * x.get 0)⟩, Q := ⟨fun _ _ => 0⟩ }
def exSt : SolState 2 Rat := SolState.init { mean := ⟨fun i => if i.val = 0 then 1 else 1⟩, cov := ⟨fun _ _ => 0⟩ }
/-- predicted covariance is `den(exTr).Q`, innovation `S = 1/2`, gain `(1/4, 1/2)/(1/2)` -/
def exGu : Mat 2 1 Rat := ⟨fun i _ => if i.val = 0 then 1/4 else 1⟩
example : let p := Strategy.filter.predict exTr exSt Mat.zero
    (exLin p.u.mean).gainOk p.u exGu = true := by decide +kernel
end example_

end Pdq.C02
