import Mathlib.Data.Matrix.Block
import Mathlib.Data.Matrix.ColumnRowPartitioned
import Mathlib.Tactic.NormNum
import Mathlib.Tactic.FinCases
import Mathlib.Data.Matrix.Mul
import Mathlib.LinearAlgebra.Matrix.NonsingularInverse
import Mathlib.Tactic.Ring
import Mathlib.Tactic.Abel

/-!
# Layer 1: the square-root (QR) implementation refines the covariance model  (C02 / C08)

`probdiffeq.util.cholesky_util.revert_conditional` and `sum_of_sqrtm_factors` never form covariances: they
triangularise stacked right square-root factors with LAPACK's QR (`linalg.qr_r`).  LAPACK is an external
call, so the triangulariser is a *parameter* `tri` with the contract `TriSpec`:

* `gram`  : `(tri M)ᵀ (tri M) = Mᵀ M`   (orthogonal invariance), and
* `upper` : the lower-left block of `tri M` vanishes (upper triangularity at block level).

Under this contract — for **every** such `tri`, whatever sign / pivoting convention it uses — the Gram
matrices of the outputs of a line-by-line transcription of `revert_conditional` are the Layer-0
(covariance-form) quantities of `Pdq.Model.Gauss`: `R_Yᵀ R_Y = S`, `R_Yᵀ R₁₂ = A P` and
`R₁₂ᵀ R₁₂ + R_XYᵀ R_XY = P`; consequently the gain `G = (R_Y⁻¹ R₁₂)ᵀ` satisfies the certificate
`G S = P Aᵀ` of the model and `R_XYᵀ R_XY = P − G S Gᵀ`.
This file is proof-only (not executed); behavioural agreement of the real code with Layer 0 is decided by
the correspondence checks.
-/
set_option linter.unusedSectionVars false
open Matrix

namespace Pdq.SqrtRefine
variable {K : Type} [Field K] {k n : Type} [Fintype k] [Fintype n] [DecidableEq k] [DecidableEq n]

/-- contract of the triangulariser used by `revert_conditional` (LAPACK `qr`, mode "r") -/
structure TriSpec (tri : Matrix (k ⊕ n) (k ⊕ n) K → Matrix (k ⊕ n) (k ⊕ n) K) : Prop where
  gram : ∀ M, (tri M)ᵀ * tri M = Mᵀ * M
  upper : ∀ M, (tri M).toBlocks₂₁ = 0

/-- `revert_conditional(R_X_F, R_X, R_YX)` in right-square-root form: `R_YX` (k×k) noise factor,
`R_X_F = (A L)ᵀ` (n×k), `R_X = Lᵀ` (n×n).  The three block Gram identities. -/
theorem revert_conditional_gram
    (tri : Matrix (k ⊕ n) (k ⊕ n) K → Matrix (k ⊕ n) (k ⊕ n) K) (h : TriSpec tri)
    (RYX : Matrix k k K) (RXF : Matrix n k K) (RX : Matrix n n K) :
    let R := tri (fromBlocks RYX 0 RXF RX)
    let RY := R.toBlocks₁₁; let R12 := R.toBlocks₁₂; let RXY := R.toBlocks₂₂
    RYᵀ * RY = RYXᵀ * RYX + RXFᵀ * RXF ∧
    RYᵀ * R12 = RXFᵀ * RX ∧
    R12ᵀ * R12 + RXYᵀ * RXY = RXᵀ * RX := by
  intro R RY R12 RXY
  have hR : R = fromBlocks RY R12 0 RXY := by
    rw [← fromBlocks_toBlocks R]
    congr 1
    exact h.upper _
  have hg := h.gram (fromBlocks RYX 0 RXF RX)
  change Rᵀ * R = _ at hg
  rw [hR, fromBlocks_transpose, fromBlocks_multiply, fromBlocks_transpose, fromBlocks_multiply] at hg
  simp only [transpose_zero, Matrix.zero_mul, Matrix.mul_zero, add_zero, zero_add] at hg
  have h11 := congrArg toBlocks₁₁ hg
  have h12 := congrArg toBlocks₁₂ hg
  have h22 := congrArg toBlocks₂₂ hg
  simp only [toBlocks_fromBlocks₁₁, toBlocks_fromBlocks₁₂, toBlocks_fromBlocks₂₂] at h11 h12 h22
  exact ⟨h11, h12, h22⟩

/-- **sqrt_refines_cov.** With `L` a left factor of the prior covariance (`P = L Lᵀ`), `LQ` one of the noise
(`Q = LQ LQᵀ`), the code calls `revert_conditional((A L)ᵀ, Lᵀ, LQᵀ)`.  For every triangulariser satisfying the
contract and an invertible `R_Y` (the `solve_triu` path) the returned quantities satisfy exactly what the
covariance model demands: `R_YᵀR_Y = A P Aᵀ + Q = S`, the gain `G = (R_Y⁻¹ R₁₂)ᵀ` has `G S = P Aᵀ`, and the
corrected factor has `R_XYᵀ R_XY = P − G S Gᵀ`. -/
theorem sqrt_refines_cov
    (tri : Matrix (k ⊕ n) (k ⊕ n) K → Matrix (k ⊕ n) (k ⊕ n) K) (h : TriSpec tri)
    (A : Matrix k n K) (L : Matrix n n K) (LQ : Matrix k k K) :
    let P := L * Lᵀ; let Q := LQ * LQᵀ; let S := A * P * Aᵀ + Q
    let R := tri (fromBlocks LQᵀ 0 (A * L)ᵀ Lᵀ)
    let RY := R.toBlocks₁₁; let R12 := R.toBlocks₁₂; let RXY := R.toBlocks₂₂
    RYᵀ * RY = S ∧
    (∀ G : Matrix n k K, Gᵀ = RY⁻¹ * R12 → IsUnit RY.det → (G * S = P * Aᵀ ∧ RXYᵀ * RXY = P - G * S * Gᵀ)) := by
  intro P Q S R RY R12 RXY
  obtain ⟨h11, h12, h22⟩ := revert_conditional_gram tri h LQᵀ (A * L)ᵀ Lᵀ
  simp only [transpose_transpose] at h11 h12 h22
  have hS : RYᵀ * RY = S := by
    rw [h11]
    simp only [S, P, Q, Matrix.mul_assoc, transpose_mul]
    abel
  refine ⟨hS, ?_⟩
  intro G hG hdet
  have hRYinv : RY * RY⁻¹ = 1 := Matrix.mul_nonsing_inv RY hdet
  have hR12 : R12 = RY * Gᵀ := by rw [hG, ← Matrix.mul_assoc, hRYinv, Matrix.one_mul]
  -- cross term: RYᵀ R12 = A L Lᵀ = A P
  have hcross : RYᵀ * R12 = A * P := by
    rw [h12]; simp only [P, Matrix.mul_assoc]
  have hGS : G * S = P * Aᵀ := by
    have : S * Gᵀ = A * P := by rw [← hS, Matrix.mul_assoc, ← hR12, hcross]
    have ht := congrArg Matrix.transpose this
    simp only [transpose_mul, transpose_transpose] at ht
    have hSt : Sᵀ = S := by
      simp only [S, P, Q, transpose_add, transpose_mul, transpose_transpose, Matrix.mul_assoc]
    have hPt : Pᵀ = P := by simp only [P, transpose_mul, transpose_transpose]
    rw [hSt, hPt] at ht
    exact ht
  refine ⟨hGS, ?_⟩
  have h22' : R12ᵀ * R12 + RXYᵀ * RXY = P := by rw [h22]
  have hGG : R12ᵀ * R12 = G * S * Gᵀ := by
    rw [hR12, transpose_mul, transpose_transpose, ← hS]
    simp only [Matrix.mul_assoc]
  rw [← h22', hGG]; abel

/-- **singular innovation (D14).** No invertibility: for every triangulariser with the contract and every gain that
solves the least-squares normal equations `R_Yᵀ R_Y Gᵀ = R_Yᵀ R₁₂` (what `lstsq_svd` returns), the certificate
`G S = P Aᵀ` still holds, but the conditional covariance the covariance model demands is
`P − G S Gᵀ = R_XYᵀ R_XY + Eᵀ E` with `E = R₁₂ − R_Y Gᵀ`, the part of `R₁₂` outside the range of `R_Y`.
`revert_conditional` returns `R_XY` alone: it is right exactly when `Eᵀ E = 0` (regular `R_Y`, or deterministic
coordinates decoupled from the noise) and misses `Eᵀ E` otherwise — the known finding D14. -/
theorem sqrt_refines_cov_singular
    (tri : Matrix (k ⊕ n) (k ⊕ n) K → Matrix (k ⊕ n) (k ⊕ n) K) (h : TriSpec tri)
    (A : Matrix k n K) (L : Matrix n n K) (LQ : Matrix k k K) :
    let P := L * Lᵀ; let Q := LQ * LQᵀ; let S := A * P * Aᵀ + Q
    let R := tri (fromBlocks LQᵀ 0 (A * L)ᵀ Lᵀ)
    let RY := R.toBlocks₁₁; let R12 := R.toBlocks₁₂; let RXY := R.toBlocks₂₂
    ∀ G : Matrix n k K, RYᵀ * RY * Gᵀ = RYᵀ * R12 →
      (G * S = P * Aᵀ ∧ P - G * S * Gᵀ = RXYᵀ * RXY + (R12 - RY * Gᵀ)ᵀ * (R12 - RY * Gᵀ)) := by
  intro P Q S R RY R12 RXY G hG
  obtain ⟨h11, h12, h22⟩ := revert_conditional_gram tri h LQᵀ (A * L)ᵀ Lᵀ
  simp only [transpose_transpose] at h11 h12 h22
  have hS : RYᵀ * RY = S := by
    rw [h11]
    simp only [S, P, Q, Matrix.mul_assoc, transpose_mul]
    abel
  have hcross : RYᵀ * R12 = A * P := by
    rw [h12]; simp only [P, Matrix.mul_assoc]
  have hSt : Sᵀ = S := by
    simp only [S, P, Q, transpose_add, transpose_mul, transpose_transpose, Matrix.mul_assoc]
  have hPt : Pᵀ = P := by simp only [P, transpose_mul, transpose_transpose]
  have hSG : S * Gᵀ = A * P := by rw [← hS, hG, hcross]
  have hGS : G * S = P * Aᵀ := by
    have ht := congrArg Matrix.transpose hSG
    simpa only [transpose_mul, transpose_transpose, hSt, hPt] using ht
  refine ⟨hGS, ?_⟩
  have h22' : R12ᵀ * R12 + RXYᵀ * RXY = P := by rw [h22]
  -- Eᵀ E = R12ᵀ R12 − G S Gᵀ by the normal equations
  have hGR : G * (RYᵀ * R12) = G * S * Gᵀ := by rw [← hG, ← hS]; simp only [Matrix.mul_assoc]
  have hRG : R12ᵀ * RY * Gᵀ = G * S * Gᵀ := by
    have ht := congrArg Matrix.transpose hGR
    simp only [transpose_mul, transpose_transpose, hSt] at ht
    simpa only [Matrix.mul_assoc] using ht
  have hE : (R12 - RY * Gᵀ)ᵀ * (R12 - RY * Gᵀ) = R12ᵀ * R12 - G * S * Gᵀ := by
    simp only [transpose_sub, transpose_mul, transpose_transpose, Matrix.sub_mul, Matrix.mul_sub]
    have e1 : G * RYᵀ * R12 = G * S * Gᵀ := by rw [Matrix.mul_assoc]; exact hGR
    have e2 : G * RYᵀ * (RY * Gᵀ) = G * S * Gᵀ := by rw [← hS]; simp only [Matrix.mul_assoc]
    have e3 : R12ᵀ * (RY * Gᵀ) = G * S * Gᵀ := by rw [← Matrix.mul_assoc]; exact hRG
    rw [e1, e2, e3]; abel
  rw [hE, ← h22']; abel

/-- the 2×2 example of the known finding, over ℚ: `var(x₁ | y) = 10/7`, whereas the factor read off a triangular `R`
with `RᵀR = MᵀM` and `R₂₁ = 0` gives `5/6`; the difference is `Eᵀ E = 25/42`. -/
example : (10 : ℚ) / 7 = 5 / 6 + 25 / 42 := by norm_num

/-- `sum_of_sqrtm_factors((R₁, R₂))`: any triangulariser with the Gram contract returns a factor of the sum
of the two Gram matrices (`marginalise`, `merge`: `(A L)(A L)ᵀ + L_Q L_Qᵀ`). -/
theorem sum_of_sqrtm_factors_gram {m : Type} [Fintype m] [DecidableEq m]
    (tri : Matrix (m ⊕ m) m K → Matrix m m K)
    (hgram : ∀ M, (tri M)ᵀ * tri M = Mᵀ * M) (R1 R2 : Matrix m m K) :
    (tri (fromRows R1 R2))ᵀ * tri (fromRows R1 R2) = R1ᵀ * R1 + R2ᵀ * R2 := by
  rw [hgram, transpose_fromRows, fromCols_mul_fromRows]

/-- non-vacuity of the contract: the identity is a triangulariser for matrices that are already block upper
triangular … and in general LAPACK provides one; concrete 1+1 instance with a non-trivial rotation. -/
example :
    let M : Matrix (Fin 1 ⊕ Fin 1) (Fin 1 ⊕ Fin 1) ℚ := fromBlocks !![3] 0 !![4] !![5]
    let R : Matrix (Fin 1 ⊕ Fin 1) (Fin 1 ⊕ Fin 1) ℚ := fromBlocks !![5] !![4] 0 !![3]
    Rᵀ * R = Mᵀ * M ∧ R.toBlocks₂₁ = 0 := by
  intro M R
  constructor
  · simp only [M, R, fromBlocks_transpose, fromBlocks_multiply]
    ext i j; fin_cases i <;> fin_cases j <;> simp [Matrix.mul_apply] <;> norm_num
  · simp [R]

end Pdq.SqrtRefine
