import Pdq.Props.C03
import Mathlib.LinearAlgebra.Matrix.PosDef
import Mathlib.Analysis.RCLike.Basic
/-!
# C03 — smoothed covariances never exceed filtered ones (Loewner order), over ℝ

`A ⪯ B` is `(B - A).PosSemidef`.  One backward step of the model preserves
"smoothed ⪯ filtered" given "smoothed at the next node ⪯ predicted at the next node"; the update never
increases the covariance ("filtered ⪯ predicted") when the innovation covariance is positive semidefinite;
together, by induction over the backward pass started with smoothed = filtered at the final time, every
smoothed covariance is below the filtered one — in particular every smoothed variance (diagonal entry).
-/
set_option linter.unusedSectionVars false
open Matrix

namespace Pdq.C03
variable {n k : Nat}

/-- backward step: if `Pˢ_{k+1} ⪯ P⁻_{k+1}` then `Pˢ_k ⪯ P_k` (for any gain) -/
theorem smoothed_le_filtered_step (tr : PCond n n ℝ) (st : SolState n ℝ) (Gt : Mat n n ℝ) (s : Gauss n ℝ)
    (hl : ∀ i, tr.tl.toV i ≠ 0) (ho : ∀ i, tr.tob.toV i ≠ 0)
    (h : ((tr.den.marg st.u).cov.toM - s.cov.toM).PosSemidef) :
    (st.u.cov.toM - ((Strategy.fixedInterval.predict tr st Gt).bw.marg s).cov.toM).PosSemidef := by
  obtain ⟨_, hc⟩ := rts_update tr st Gt s hl ho
  rw [hc]
  have := h.mul_mul_conjTranspose_same (C08.denGain tr Gt).toM
  rw [conjTranspose_eq_transpose_of_trivial] at this
  convert this using 1
  simp only [Matrix.mul_sub, Matrix.sub_mul]
  abel

/-- update: if the innovation covariance `S = H P⁻ Hᵀ + R` is positive semidefinite, the posterior covariance is
below the predicted one, `P ⪯ P⁻` (for any gain) -/
theorem filtered_le_predicted (c : Cond k n ℝ) (rv : Gauss n ℝ) (G : Mat n k ℝ)
    (hS : (c.marg rv).cov.toM.PosSemidef) :
    (rv.cov.toM - (c.bayesZero rv G).cov.toM).PosSemidef := by
  obtain ⟨_, hc⟩ := C02.bayesZero_spec c rv G
  rw [hc]
  have := hS.mul_mul_conjTranspose_same G.toM
  rw [conjTranspose_eq_transpose_of_trivial, C08.marg_cov] at this
  convert this using 1
  abel

/-- transitivity of the Loewner order -/
theorem loewner_trans {A B C : Matrix (Fin n) (Fin n) ℝ} (h1 : (B - A).PosSemidef) (h2 : (C - B).PosSemidef) :
    (C - A).PosSemidef := by
  have := h1.add h2
  convert this using 1
  abel

/-- the whole backward pass: steps listed from the last to the first; `filt_next f` is the filtering covariance at
the node *after* step `f` (the node whose smoothed marginal is fed into `f`'s backward conditional).
Hypotheses: at every step the filtering covariance of the next node is below the predicted one
(`filtered_le_predicted`), and the pass starts with a marginal below the filtering covariance of the last
node (equal to it when the run ends at the final time, `terminal_eq_filter`).  Conclusion: every smoothed
covariance is below the filtering covariance of its node. -/
theorem smoothed_le_filtered_run :
    ∀ (steps : List (FwdStep n ℝ)) (term : Gauss n ℝ) (filtNext : Matrix (Fin n) (Fin n) ℝ),
      (filtNext - term.cov.toM).PosSemidef →
      (List.IsChain (fun (f g : FwdStep n ℝ) => ((g.tr.den.marg g.st.u).cov.toM - f.st.u.cov.toM).PosSemidef) steps) →
      (∀ f, steps.head? = some f → ((f.tr.den.marg f.st.u).cov.toM - filtNext).PosSemidef) →
      ∀ p ∈ (evalMarginals term (steps.map FwdStep.bw)).zip (filtNext :: steps.map (fun f => f.st.u.cov.toM)),
        (p.2 - p.1.cov.toM).PosSemidef := by
  intro steps
  induction steps with
  | nil =>
    intro term filtNext h0 _ _ p hp
    simp only [List.map_nil, evalMarginals, List.zip_cons_cons, List.zip_nil_right, List.mem_singleton] at hp
    subst hp; exact h0
  | cons f rest ih =>
    intro term filtNext h0 hchain hhead p hp
    simp only [List.map_cons, evalMarginals, List.zip_cons_cons, List.mem_cons] at hp
    rcases hp with rfl | hp
    · exact h0
    · have hpred : ((f.tr.den.marg f.st.u).cov.toM - term.cov.toM).PosSemidef :=
        loewner_trans h0 (hhead f rfl)
      have hstep := smoothed_le_filtered_step f.tr f.st f.Gt term f.hl f.ho hpred
      refine ih (f.bw.marg term) f.st.u.cov.toM hstep ?_ ?_ p hp
      · exact (List.isChain_cons.mp hchain).2
      · intro g hg
        cases rest with
        | nil => simp at hg
        | cons g' rest' =>
          simp only [List.head?_cons, Option.some.injEq] at hg
          subst hg
          exact (List.isChain_cons_cons.mp hchain).1

end Pdq.C03
