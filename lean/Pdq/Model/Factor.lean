import Pdq.Model.Solver
import Pdq.Model.Iwp
import Pdq.Model.Calib
/-!
# Pdq.Model.Factor — the three state-space factorisations as collections of slices

An isotropic state is `d` slices (the columns of the `(n, d)` mean) that share one `n × n` covariance, a
block-diagonal state is `d` slices with their own covariances, a dense state is a single slice of size `n·d`
in coefficient-major order (`index = i·d + a`, `i` the coefficient, `a` the dimension; this is the ravel order of
`DenseTreeFlatten` and of `to_multivariate_normal` of the two structured factorisations).

* `embedVec`, `embedMat`, `embedGauss`, `embedCond`, `embedPCond`, `embedState`: the dense object represented by a
  family of slices (`x ↦ (x / d, x % d)` as in `Iwp.transitionDense`);
* `Factor.stepSlices`: one solver step of a sliced (isotropic / block-diagonal) model — the slices are coupled only
  through the joint linearisation;
* `Factor.linDense`, `Factor.linSlice`, `Factor.jacDiag`, `Factor.jacTrace`: the constraint
  `x_K − f(x_0,…,x_{K-1}, t) = 0` linearised with the full Jacobian (dense), its diagonal along `d`
  (block-diagonal, `calculate_diagonal_along_d`) and its trace along `d` divided by `d` (isotropic,
  `calculate_trace_along_d`); zero Jacobian = TS0;
* `Factorisation.rmsSize`: the normalisation of `residual_whitened_rms_*` in each factorisation.
-/
namespace Pdq

inductive Factorisation where
  | dense | iso | bd
  deriving DecidableEq, Repr

/-- `mean_flat.size` in `residual_whitened_rms_flat`: `k` observed coefficients, `d` dimensions.
Dense: the whole `(k·d,)` vector; isotropic: the whole `(k, d)` array; block-diagonal: `(k,)` per dimension. -/
def Factorisation.rmsSize : Factorisation → Nat → Nat → Nat
  | .dense, k, d => k * d
  | .iso, k, d => k * d
  | .bd, k, _ => k

section
variable {α : Type} [Zero α]

/-- bound-checked access (total) -/
def Vec.getNz {n : Nat} (v : Vec n α) (i : Nat) : α := if h : i < n then v.get ⟨i, h⟩ else 0
def Mat.getNz {m n : Nat} (A : Mat m n α) (i j : Nat) : α :=
  if h1 : i < m then (if h2 : j < n then A.get ⟨i, h1⟩ ⟨j, h2⟩ else 0) else 0

/-- coefficient-major stacking of `d` slice vectors: entry `i·d + a` is entry `i` of slice `a` -/
def embedVec {n d : Nat} (vs : Fin d → Vec n α) : Vec (n * d) α :=
  Vec.ofFn fun x => if h : x.val % d < d then (vs ⟨x.val % d, h⟩).getNz (x.val / d) else 0

/-- block structure in coefficient-major order: entry `(i·d + a, j·d + b)` is `X_a[i, j]` if `a = b`, else `0`
(`C ⊗ I_d` when all `X_a = C`) -/
def embedMat {m n d : Nat} (Xs : Fin d → Mat m n α) : Mat (m * d) (n * d) α :=
  Mat.ofFn fun x y =>
    if h : x.val % d < d then
      (if x.val % d = y.val % d then (Xs ⟨x.val % d, h⟩).getNz (x.val / d) (y.val / d) else 0)
    else 0

def embedGauss {n d : Nat} (gs : Fin d → Gauss n α) : Gauss (n * d) α :=
  { mean := embedVec fun a => (gs a).mean, cov := embedMat fun a => (gs a).cov }

def embedCond {k n d : Nat} (cs : Fin d → Cond k n α) : Cond (k * d) (n * d) α :=
  { A := embedMat fun a => (cs a).A, b := embedVec fun a => (cs a).b, Q := embedMat fun a => (cs a).Q }

def embedPCond {m n d : Nat} (cs : Fin d → PCond m n α) : PCond (m * d) (n * d) α :=
  { A := embedMat fun a => (cs a).A, b := embedVec fun a => (cs a).b, Q := embedMat fun a => (cs a).Q
    tl := embedVec fun a => (cs a).tl, tob := embedVec fun a => (cs a).tob }

def embedState {n d : Nat} (sts : Fin d → SolState n α) : SolState (n * d) α :=
  { u := embedGauss fun a => (sts a).u, bw := embedPCond fun a => (sts a).bw }

end

section
variable {α : Type} [Add α] [Mul α] [Sub α] [Neg α] [Zero α] [One α] [Div α]

/-- the slice means of a sliced state -/
def Factor.means {n d : Nat} (sts : Fin d → SolState n α) : Fin d → Vec n α := fun a => (sts a).u.mean

/-- one solver step (`solver.step`, state part of `solver_mle.step`) of a sliced model: every slice is predicted
through its transition, the constraint is linearised *jointly* at the predicted slice means, every slice is
updated with its part of the linearisation. -/
def Factor.stepSlices {k n d : Nat} (s : Strategy) (trs : Fin d → PCond n n α)
    (lins : (Fin d → Vec n α) → Fin d → Cond k n α) (sts : Fin d → SolState n α)
    (Gts : Fin d → Mat n n α) (Gus : Fin d → Mat n k α) : Fin d → SolState n α :=
  let preds := fun a => s.predict (trs a) (sts a) (Gts a)
  let cs := lins (fun a => (preds a).u.mean)
  fun a => (preds a).update ((cs a).bayesZero (preds a).u (Gus a))

/-- whitened residual energies of the slices at the joint linearisation -/
def Factor.mleEnergies {k n d : Nat} (s : Strategy) (trs : Fin d → PCond n n α)
    (lins : (Fin d → Vec n α) → Fin d → Cond k n α) (sts : Fin d → SolState n α)
    (Gts : Fin d → Mat n n α) (Ws : Fin d → Mat k k α) : Fin d → α :=
  let preds := fun a => s.predict (trs a) (sts a) (Gts a)
  let cs := lins (fun a => (preds a).u.mean)
  fun a => (cs a).whitenedSq (preds a).u (Ws a)

/-- `solver_dynamic.step` of a sliced model (`relin = false`): the calibrated transitions `trSs` are built by the
caller from the local scale -/
def Factor.stepSlicesDynamic {k n d : Nat} (s : Strategy) (tr1s trSs : Fin d → PCond n n α)
    (lins : (Fin d → Vec n α) → Fin d → Cond k n α) (relin : Bool) (sts : Fin d → SolState n α)
    (Gts : Fin d → Mat n n α) (Gus : Fin d → Mat n k α) : Fin d → SolState n α :=
  let ups := fun a => (tr1s a).applyPt (sts a).u.mean
  let c0 := lins (fun a => (ups a).mean)
  let preds := fun a => s.predict (trSs a) (sts a) (Gts a)
  let cs := if relin then lins (fun a => (preds a).u.mean) else c0
  fun a => (preds a).update ((cs a).bayesZero (preds a).u (Gus a))

/-- whitened energies of the mean-only predictions of the slices -/
def Factor.dynamicEnergies {k n d : Nat} (tr1s : Fin d → PCond n n α)
    (lins : (Fin d → Vec n α) → Fin d → Cond k n α) (sts : Fin d → SolState n α)
    (Ws : Fin d → Mat k k α) : Fin d → α :=
  let ups := fun a => (tr1s a).applyPt (sts a).u.mean
  let c0 := lins (fun a => (ups a).mean)
  fun a => (c0 a).whitenedSq (ups a) (Ws a)

/-! ### whole runs of a sliced model -/

/-- everything one step of a sliced (isotropic / block-diagonal) run consumes -/
structure FacStep (n k d : Nat) (α : Type) where
  trs : Fin d → PCond n n α
  lins : (Fin d → Vec n α) → Fin d → Cond k n α
  Gts : Fin d → Mat n n α
  Gus : Fin d → Mat n k α
  Ws : Fin d → Mat k k α

/-- all visited sliced states -/
def Factor.runSlices {k n d : Nat} (s : Strategy) (sts : Fin d → SolState n α) :
    List (FacStep n k d α) → List (Fin d → SolState n α)
  | [] => []
  | f :: rest =>
    let sts' := Factor.stepSlices s f.trs f.lins sts f.Gts f.Gus
    sts' :: Factor.runSlices s sts' rest

/-- the whitened energies of all steps, per slice -/
def Factor.runEnergies {k n d : Nat} (s : Strategy) (sts : Fin d → SolState n α) :
    List (FacStep n k d α) → List (Fin d → α)
  | [] => []
  | f :: rest =>
    Factor.mleEnergies s f.trs f.lins sts f.Gts f.Ws
      :: Factor.runEnergies s (Factor.stepSlices s f.trs f.lins sts f.Gts f.Gus) rest

/-- the dense step that corresponds to a sliced step: embedded transition and certificates, a dense linearisation
`LIN`, RMS size `size` -/
def FacStep.toDense {k n d : Nat} (f : FacStep n k d α) (LIN : Vec (n * d) α → Cond (k * d) (n * d) α) (size : α) :
    CalStep (n * d) (k * d) α :=
  { tr := embedPCond f.trs, lin := LIN, Gt := embedMat f.Gts, Gu := embedMat f.Gus, W := embedMat f.Ws, size := size }

/-- one dynamic step of a sliced model: `trOfs σ²` are the slice transitions for squared output scale `σ²` -/
structure FacDynStep (n k d : Nat) (α : Type) where
  trOfs : α → Fin d → PCond n n α
  lins : (Fin d → Vec n α) → Fin d → Cond k n α
  relin : Bool
  Gts : Fin d → Mat n n α
  Gus : Fin d → Mat n k α
  Ws : Fin d → Mat k k α

/-- `solver_dynamic.step` of the isotropic model: one local scale from the pooled whitened energy of the mean-only
predictions (`size = k·d`), re-discretisation of every slice with it -/
def Factor.stepIsoDynamic {k n d : Nat} (s : Strategy) (f : FacDynStep n k d α) (size : α)
    (sts : Fin d → SolState n α) : (Fin d → SolState n α) × α :=
  let s2 := Calib.rms2 size (vsum (Factor.dynamicEnergies (f.trOfs 1) f.lins sts f.Ws))
  (Factor.stepSlicesDynamic s (f.trOfs 1) (f.trOfs s2) f.lins f.relin sts f.Gts f.Gus, s2)

/-- the dense dynamic step data that corresponds to a sliced one -/
def FacDynStep.toDense {k n d : Nat} (f : FacDynStep n k d α) (LIN : Vec (n * d) α → Cond (k * d) (n * d) α)
    (size : α) : DynStep (n * d) (k * d) α :=
  { trOf := fun x => embedPCond (f.trOfs x), lin := LIN, relin := f.relin, Gt := embedMat f.Gts, Gu := embedMat f.Gus,
    W := embedMat f.Ws, size := size }

/-- a whole isotropic dynamic run -/
def Factor.runIsoDynamic {k n d : Nat} (s : Strategy) (size : α) (sts : Fin d → SolState n α) :
    List (FacDynStep n k d α) → List ((Fin d → SolState n α) × α)
  | [] => []
  | f :: rest =>
    let r := Factor.stepIsoDynamic s f size sts
    r :: Factor.runIsoDynamic s size r.1 rest

/-! ### linearisations of the ODE constraint `x_K − f(x, t) = 0` -/

/-- one slice: `H[0, i] = [i = K] − j_i`, `b = −f_a + Σ_i j_i m_i`, `R = damp²`.
`j` is the reduced Jacobian row of `f_a` with respect to the coefficients (zero for TS0). -/
def Factor.linSlice (n Kc : Nat) (fa : α) (j : Fin n → α) (ma : Fin n → α) (damp2 : α) : Cond 1 n α :=
  { A := Mat.ofFn fun _ i => (if i.val = Kc then 1 else 0) - j i
    b := Vec.ofFn fun _ => vsum (fun i => j i * ma i) - fa
    Q := Mat.ofFn fun _ _ => damp2 }

/-- dense: `H[a, i·d + b] = [i = K ∧ a = b] − J a i b`, `b_a = −f_a + Σ_{i,b} J a i b · m i b`, `R = damp²·I`;
rows indexed by `Fin (1 * d)` (one observed coefficient, `d` dimensions), `J a i b = ∂f_a/∂x_{i,b}`. -/
def Factor.linDense (n d Kc : Nat) (fx : Fin d → α) (J : Fin d → Fin n → Fin d → α)
    (m : Fin n → Fin d → α) (damp2 : α) : Cond (1 * d) (n * d) α :=
  let row (r : Fin (1 * d)) : Nat := r.val % d
  { A := Mat.ofFn fun r x =>
      if ha : row r < d then
        (if hi : x.val / d < n then
          (if hb : x.val % d < d then
            (if x.val / d = Kc ∧ row r = x.val % d then 1 else 0) - J ⟨row r, ha⟩ ⟨x.val / d, hi⟩ ⟨x.val % d, hb⟩
           else 0)
         else 0)
      else 0
    b := Vec.ofFn fun r =>
      if ha : row r < d then
        vsum (fun i : Fin n => vsum (fun b : Fin d => J ⟨row r, ha⟩ i b * m i b)) - fx ⟨row r, ha⟩
      else 0
    Q := Mat.ofFn fun r r' => if row r = row r' then damp2 else 0 }

/-- `calculate_diagonal_along_d`: the part of the Jacobian the block-diagonal model keeps for dimension `a` -/
def Factor.jacDiag {n d : Nat} (J : Fin d → Fin n → Fin d → α) (a : Fin d) : Fin n → α := fun i => J a i a

/-- `calculate_trace_along_d` divided by `d`: the Jacobian the isotropic model uses for every dimension -/
def Factor.jacTrace {n d : Nat} [NatCast α] (J : Fin d → Fin n → Fin d → α) : Fin n → α :=
  fun i => vsum (fun b : Fin d => J b i b) / ((d : Nat) : α)

end
end Pdq
