import Pdq.Model.LinAlg
/-!
# Pdq.Model.Jacobian — Jacobian handlers of `probdiffeq/_probdiffeq/jacobians.py` (C17)

A handler receives `fun : (n_in, d) → (n_out, d)` and a point `x`; everything it returns is a
function of the Jacobian tensor `J = jax.jacfwd(fun)(x)` with axes `(n_out, d, n_in, d)`
(output axes first, then input axes).  The model takes `J` as data (autodiff itself is modelled, not
verified: `linearize` is the map `v ↦ J·v`, `vjp` the map `v ↦ vᵀ·J`) and transcribes

* `jacobian_materialize`: dense tensor, `linalg.trace(dfx, axis1=1, axis2=3)`,
  `linalg.einsum("mdnd->dmn", dfx)`;
* `jacobian_monte_carlo_fwd` / `_rev`: the four `einsum` / broadcast expressions, with the
  Rademacher probes `v` as an *argument* and the `num_probes` average `np.mean(…, axis=0)`;
* `_verify_fun_and_x` as a decision on shapes.

Import-free; generic in the scalar type.
-/
namespace Pdq

/-- Jacobian tensor of a map `(nIn, d) → (nOut, d)`:
`J.get m d' n dd = ∂ fun(x)[m, d'] / ∂ x[n, dd]` (axis order of `jax.jacfwd(fun)(x)`). -/
structure Jac (nOut nIn d : Nat) (α : Type) where
  get : Fin nOut → Fin d → Fin nIn → Fin d → α

/-- 3-axis array with layout `(a, b, c)` -/
structure Ten3 (a b c : Nat) (α : Type) where
  get : Fin a → Fin b → Fin c → α

section
variable {α : Type}

/-- materialise (memoise) a 3-axis array given by a closure; total, falls back to the closure -/
def Ten3.ofFn {a b c : Nat} (f : Fin a → Fin b → Fin c → α) : Ten3 a b c α :=
  let arr : Array (Array (Array α)) :=
    Array.ofFn (fun i : Fin a => Array.ofFn (fun j : Fin b => Array.ofFn (fun k : Fin c => f i j k)))
  ⟨fun i j k => match arr[i.val]? with
    | some m => (match m[j.val]? with
      | some row => (match row[k.val]? with | some x => x | none => f i j k)
      | none => f i j k)
    | none => f i j k⟩

/-- `np.transpose(T, axes=(2, 0, 1))`: result axis `j` is input axis `axes[j]`, i.e.
`result[k, i, j] = T[i, j, k]` -/
def Ten3.transpose201 {a b c : Nat} (T : Ten3 a b c α) : Ten3 c a b α := ⟨fun k i j => T.get i j k⟩

/-- row-major serialisation -/
def Ten3.toList {a b c : Nat} (T : Ten3 a b c α) : List α :=
  (List.finRange a).flatMap fun i => (List.finRange b).flatMap fun j => (List.finRange c).map fun k => T.get i j k

def Jac.toList {nOut nIn d : Nat} (J : Jac nOut nIn d α) : List α :=
  (List.finRange nOut).flatMap fun m => (List.finRange d).flatMap fun d' =>
    (List.finRange nIn).flatMap fun n => (List.finRange d).map fun dd => J.get m d' n dd

/-- `materialize_dense`: the 4-axis tensor itself -/
def Jac.dense {nOut nIn d : Nat} (J : Jac nOut nIn d α) : Jac nOut nIn d α := J

/-- `J.reshape((m * d, -1))` of `DenseResidual.linearize` (row-major): row `m*d + d'`, column `n*d + dd` -/
def Jac.flatten {nOut nIn d : Nat} (J : Jac nOut nIn d α) : Mat (nOut * d) (nIn * d) α :=
  ⟨fun r c =>
    have hd : 0 < d := Nat.pos_of_ne_zero (by
      intro h; subst h; exact absurd r.isLt (by simp))
    J.get ⟨r.val / d, Nat.div_lt_of_lt_mul (Nat.lt_of_lt_of_eq r.isLt (Nat.mul_comm _ _))⟩ ⟨r.val % d, Nat.mod_lt _ hd⟩
          ⟨c.val / d, Nat.div_lt_of_lt_mul (Nat.lt_of_lt_of_eq c.isLt (Nat.mul_comm _ _))⟩ ⟨c.val % d, Nat.mod_lt _ hd⟩⟩
end

section
variable {α : Type} [Add α] [Mul α] [Sub α] [Neg α] [Zero α] [One α]
variable {nOut nIn d : Nat}

/-! ### `jacobian_materialize` -/

/-- `linalg.trace(dfx, axis1=1, axis2=3)`: the remaining axes `(0, 2)` keep their order -/
def Jac.traceD (J : Jac nOut nIn d α) : Mat nOut nIn α :=
  Mat.ofFn fun m n => vsum fun i => J.get m i n i

/-- `linalg.einsum("mdnd->dmn", dfx)` -/
def Jac.diagD (J : Jac nOut nIn d α) : Ten3 d nOut nIn α := ⟨fun dd m n => J.get m dd n dd⟩

/-! ### automatic differentiation (modelled) -/

/-- `jax.linearize(fun, x)[1]`: `(n_in, d) → (n_out, d)`, `v ↦ J·v` -/
def Jac.jvp (J : Jac nOut nIn d α) (v : Mat nIn d α) : Mat nOut d α :=
  Mat.ofFn fun m d' => vsum fun n => vsum fun dd => J.get m d' n dd * v.get n dd

/-- `jax.vjp(fun, x)[1]`: `(n_out, d) → (n_in, d)`, `v ↦ vᵀ·J` -/
def Jac.vjp (J : Jac nOut nIn d α) (v : Mat nOut d α) : Mat nIn d α :=
  Mat.ofFn fun n dd => vsum fun m => vsum fun d' => v.get m d' * J.get m d' n dd

/-! ### the four index expressions (one probe, i.e. one value of the leading `s` axis)

(`@[noinline]` only steers the compiler: the arguments — materialised `jvp`/`vjp` results — are
evaluated once, before the call, instead of inside the entry closure.) -/

/-- `einsum("smd,snd->snm", a, b)` at fixed `s`: `a : (M, D)`, `b : (N, D)`, result `(N, M)` -/
@[noinline] def einsumMdNdNm {M N D : Nat} (a : Mat M D α) (b : Mat N D α) : Mat N M α :=
  Mat.ofFn fun n m => vsum fun dd => a.get m dd * b.get n dd

/-- `einsum("snd,smd->smn", a, b)` at fixed `s`: `a : (N, D)`, `b : (M, D)`, result `(M, N)` -/
@[noinline] def einsumNdMdMn {M N D : Nat} (a : Mat N D α) (b : Mat M D α) : Mat M N α :=
  Mat.ofFn fun m n => vsum fun dd => a.get n dd * b.get m dd

/-- `a[:, None, :, :] * b[:, :, None, :]` at fixed `s`: `a : (N, D)`, `b : (M, D)`, result `(M, N, D)` -/
@[noinline] def bcastMul {M N D : Nat} (a : Mat N D α) (b : Mat M D α) : Ten3 M N D α :=
  Ten3.ofFn fun m n dd => a.get n dd * b.get m dd

/-- forward mode, trace: `vJv = einsum("smd,snd->snm", v, Jv)`; `v : (n_in, d)` -/
def Jac.fwdTrace1 (J : Jac nOut nIn d α) (v : Mat nIn d α) : Mat nOut nIn α :=
  einsumMdNdNm v (J.jvp v)

/-- forward mode, diagonal, before the final transposition: `v[:,None,:,:] * Jv[:,:,None,:]` -/
def Jac.fwdDiagRaw1 (J : Jac nOut nIn d α) (v : Mat nIn d α) : Ten3 nOut nIn d α :=
  bcastMul v (J.jvp v)

/-- reverse mode, trace: `einsum("snd,smd->smn", vjpx, v)`; `v : (n_out, d)` -/
def Jac.revTrace1 (J : Jac nOut nIn d α) (v : Mat nOut d α) : Mat nOut nIn α :=
  einsumNdMdMn (J.vjp v) v

/-- reverse mode, diagonal, before the final transposition: `vjpx[:,None,:,:] * v[:,:,None,:]` -/
def Jac.revDiagRaw1 (J : Jac nOut nIn d α) (v : Mat nOut d α) : Ten3 nOut nIn d α :=
  bcastMul (J.vjp v) v

/-- single-probe diagonal estimators in the returned layout `(d, n_out, n_in)` -/
def Jac.fwdDiag1 (J : Jac nOut nIn d α) (v : Mat nIn d α) : Ten3 d nOut nIn α := (J.fwdDiagRaw1 v).transpose201
def Jac.revDiag1 (J : Jac nOut nIn d α) (v : Mat nOut d α) : Ten3 d nOut nIn α := (J.revDiagRaw1 v).transpose201

/-! ### Rademacher probes -/

/-- a sign -/
def sgn (b : Bool) : α := if b then 1 else -1

/-- the probe `v ∈ {±1}^(n×d)` with sign pattern `b` -/
def probe {n d : Nat} (b : Fin n × Fin d → Bool) : Mat n d α := ⟨fun i j => sgn (b (i, j))⟩

end

section
variable {α : Type} [Add α] [Mul α] [Sub α] [Neg α] [Zero α] [One α] [Div α] [NatCast α]
variable {nOut nIn d : Nat}

/-! ### `np.mean(…, axis=0)` over the `num_probes` axis

`num_probes = 0` is not totalised (NumPy returns NaN there): `none`. -/

/-- Evaluation barrier (no mathematical content).  After compilation a `Mat`/`Ten3` is a bare
closure, and the compiler eta-expands `fun p => est (V p)` into a function of `(p, i, j)`, so that a
table of such values would hold unevaluated partial applications and every entry access would
re-run the estimator.  A `Box` is a genuine constructor object: building it runs the computation. -/
structure Box (β : Type) where
  val : β
  tag : Unit

/-- entrywise mean of `s` evaluated matrices (`@[noinline]` only steers the compiler) -/
@[noinline] def meanMatOfVec {m n s : Nat} (g : Vec s (Box (Mat m n α))) : Mat m n α :=
  Mat.ofFn fun i j => (vsum fun p => (g.get p).val.get i j) / (s : α)

@[noinline] def meanTen3OfVec {a b c s : Nat} (g : Vec s (Box (Ten3 a b c α))) : Ten3 a b c α :=
  Ten3.ofFn fun i j k => (vsum fun p => (g.get p).val.get i j k) / (s : α)

/-- `jacobian_monte_carlo_fwd.calculate_trace_along_d` (second output), probes `V : (s, n_in, d)` -/
def Jac.fwdTrace (J : Jac nOut nIn d α) {s : Nat} (V : Fin s → Mat nIn d α) : Option (Mat nOut nIn α) :=
  if s = 0 then none else some (meanMatOfVec (Vec.ofFn fun p : Fin s => Box.mk (J.fwdTrace1 (V p)) ()))

/-- `jacobian_monte_carlo_fwd.calculate_diagonal_along_d`: mean, then `np.transpose(axes=(2,0,1))` -/
def Jac.fwdDiag (J : Jac nOut nIn d α) {s : Nat} (V : Fin s → Mat nIn d α) : Option (Ten3 d nOut nIn α) :=
  if s = 0 then none else
    some (Ten3.transpose201 (meanTen3OfVec (Vec.ofFn fun p : Fin s => Box.mk (J.fwdDiagRaw1 (V p)) ())))

/-- `jacobian_monte_carlo_rev.calculate_trace_along_d`, probes `V : (s, n_out, d)` -/
def Jac.revTrace (J : Jac nOut nIn d α) {s : Nat} (V : Fin s → Mat nOut d α) : Option (Mat nOut nIn α) :=
  if s = 0 then none else some (meanMatOfVec (Vec.ofFn fun p : Fin s => Box.mk (J.revTrace1 (V p)) ()))

/-- `jacobian_monte_carlo_rev.calculate_diagonal_along_d` -/
def Jac.revDiag (J : Jac nOut nIn d α) {s : Nat} (V : Fin s → Mat nOut d α) : Option (Ten3 d nOut nIn α) :=
  if s = 0 then none else
    some (Ten3.transpose201 (meanTen3OfVec (Vec.ofFn fun p : Fin s => Box.mk (J.revDiagRaw1 (V p)) ())))

end

/-! ### `_verify_fun_and_x`

`x` / `fx`: `none` when the object is not an array (`isinstance(x, Array)` is false, resp.
`eval_shape` did not return a `ShapeDtypeStruct`), otherwise its shape. -/

inductive VerifyErr where
  | typeError
  | valueError
  deriving DecidableEq, Repr

def verifyFunAndX (x fx : Option (List Nat)) : Except VerifyErr (Nat × Nat × Nat) :=
  match x, fx with
  | some xs, some fs =>
    -- `if x.ndim != 2 or fx_like.ndim != 2: raise ValueError`
    if xs.length ≠ 2 ∨ fs.length ≠ 2 then .error .valueError else
    match xs, fs with
    | [nIn, d], [nOut, d2] =>
      -- `if d != d2: raise ValueError`
      if d ≠ d2 then .error .valueError else .ok (nIn, nOut, d)
    | _, _ => .error .valueError
  | _, _ => .error .typeError   -- `if not x_is_array or not fx_is_array_like: raise TypeError`

end Pdq
