/-!
# Pdq.Model.Control — step-size controllers (`probdiffeq/_ivpsolve/controllers.py`)

Import-free, generic over the scalar type.  `Ctl α σ` is the protocol `controllers.Control`
(`init`, `apply`); `ctlI` transcribes `control_integral`, `ctlPI` transcribes
`control_proportional_integral`.  Real powers `x ** e` are a parameter `pw : α → α → α`
(the driver instantiates it with natural-number exponents or with a finite table of float64 powers
supplied by the harness; the theorems only use order hypotheses on `pw`).
-/
namespace Pdq

/-- `controllers.Control[T]`: `init(dt) -> T`, `apply(dt, state, error_power) -> (dt_proposed, state)` -/
structure Ctl (α σ : Type) where
  init : α → σ
  apply : α → σ → α → α × σ

/-- parameters of `control_integral` -/
structure ICtlP (α : Type) where
  safety : α
  fmin : α
  fmax : α

/-- parameters of `control_proportional_integral` -/
structure PICtlP (α : Type) where
  safety : α
  fmin : α
  fmax : α
  expI : α
  expP : α

section
variable {α : Type} [Mul α] [Div α] [LE α] [DecidableLE α] [Min α] [Max α] [One α]

/-- `np.maximum(factor_min, np.minimum(step_ratio_unclipped, factor_max))` -/
def clipFactor (fmin fmax r : α) : α := max fmin (min r fmax)

/-- `control_integral`: `init` returns `()`, `apply` returns `(scale_factor * dt, ())` with
`scale_factor = clip(safety * error_power)` -/
def ctlI (p : ICtlP α) : Ctl α Unit where
  init := fun _ => ()
  apply := fun dt _ ep => (clipFactor p.fmin p.fmax (p.safety * ep) * dt, ())

/-- `control_proportional_integral`: the state is `error_norm_inv_prev` (initially `1.0`), it is
overwritten by `error_power` only when `error_power >= 1.0` (i.e. only by accepted attempts). -/
def ctlPI (pw : α → α → α) (p : PICtlP α) : Ctl α α where
  init := fun _ => 1
  apply := fun dt prev ep =>
    let gainIntegral := pw ep p.expI
    let gainProportional := pw (ep / prev) p.expP
    let stepRatioUnclipped := p.safety * gainIntegral * gainProportional
    let scaleFactor := clipFactor p.fmin p.fmax stepRatioUnclipped
    let prev' := if 1 ≤ ep then ep else prev
    (scaleFactor * dt, prev')

end
end Pdq
