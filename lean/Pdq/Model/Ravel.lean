/-!
# Pdq.Model.Ravel — the ravel orders of the three state-space factorisations, and pytree flattening

Import-free index arithmetic.  Arrays are modelled by their **row-major buffer** `Nat → α` together with
explicitly passed extents; the NumPy operations the code uses are transcribed as index maps:

* `reshape` is the identity on the row-major buffer (NumPy's documented C-order semantics);
* `x.T` of an `(r, c)` array is `transpose2 r c`;
* `np.stack(rows)` of `n` vectors of length `d` is the `(n, d)` buffer `x ↦ rows (x / d) (x % d)`;
* `einsum("nm,dt->ndmt", C, I)` / `einsum("dnm,dt->ndmt", C, I)` produce `(n, d, n, d)` buffers.

Sources: `DenseTreeFlatten`, `IsotropicTreeFlatten`, `BlockDiagTreeFlatten`
(`flatten_tree`, `unflatten_array`), `*Normal.to_multivariate_normal` of
`ssm_impl_dense.py`, `ssm_impl_isotropic.py`, `ssm_impl_blockdiag.py`; `backend/tree.py`
(`ravel_pytree`, `tree_flatten_depth_one`, `tree_leaves_depth_one`).

Totality: buffers are total functions `Nat → α` and the list-level functions use `getD` / `take`; the code *rejects*
coefficient containers whose coefficients differ in size and buffers of the wrong length — the driver refuses such
inputs before calling the model (`rowsOk`, length checks in `Pdq/Drv/Ravel.lean`), and the theorems carry the
corresponding hypotheses (`a < d`, `i < n`, equal row lengths, `xs.length = size`).

Conventions: `n` = number of Taylor coefficients (`q+1`), `d` = number of scalar components of one
coefficient; `i, j < n` index coefficients, `a, b < d` index components.
-/
namespace Pdq.Ravel

/-! ### index maps -/

/-- dense (coefficient-major) position of coefficient `i`, component `a` -/
def denseIdx (d i a : Nat) : Nat := i * d + a
/-- isotropic storage: `mean_flat` has shape `(n, d)`; row-major position of `(i, a)` -/
def isoIdx (d i a : Nat) : Nat := i * d + a
/-- block-diagonal storage: `mean_flat` has shape `(d, n)`; row-major position of `(a, i)` -/
def bdIdx (n i a : Nat) : Nat := a * n + i

/-- dense position ↦ position in the block-diagonal `(d, n)` buffer -/
def denseToBd (n d y : Nat) : Nat := bdIdx n (y / d) (y % d)
/-- position in the block-diagonal `(d, n)` buffer ↦ dense position -/
def bdToDense (n d x : Nat) : Nat := denseIdx d (x % n) (x / n)
/-- dense position ↦ position in the isotropic `(n, d)` buffer (the same order) -/
def denseToIso (d y : Nat) : Nat := isoIdx d (y / d) (y % d)

section buffers
variable {α : Type}

/-- `.T` of a row-major `(r, c)` array: row-major buffer of the `(c, r)` result -/
def transpose2 (r c : Nat) (f : Nat → α) : Nat → α := fun y => f ((y % r) * c + y / r)

/-- `np.stack` of `n` rows of length `d` -/
def stackRows (d : Nat) (rows : Nat → Nat → α) : Nat → α := fun x => rows (x / d) (x % d)

/-- multi-index `(i, a, j, b)` of the row-major position `z` in an array of shape `(·, s1, s2, s3)` -/
def unravel4 (s1 s2 s3 z : Nat) : Nat × Nat × Nat × Nat :=
  (z / (s1 * s2 * s3), (z / (s2 * s3)) % s1, (z / s3) % s2, z % s3)

/-! ### `flatten_tree` / `unflatten_array` on the level of coefficient rows

`leaf i a` is element `a` of `ravel_pytree(M_i)`, the `i`-th Taylor coefficient. -/

/-- `DenseTreeFlatten.flatten_tree`: `ravel_pytree([M_0, …, M_q])` = concatenation of the rows -/
def bufFlattenDense (d : Nat) (leaf : Nat → Nat → α) : Nat → α := fun x => leaf (x / d) (x % d)
/-- `IsotropicTreeFlatten.flatten_tree`: `np.stack(leaves_flat)`, shape `(n, d)` -/
def bufFlattenIso (d : Nat) (leaf : Nat → Nat → α) : Nat → α := stackRows d leaf
/-- `BlockDiagTreeFlatten.flatten_tree`: `np.stack(leaves_flat).T`, shape `(d, n)` -/
def bufFlattenBd (n d : Nat) (leaf : Nat → Nat → α) : Nat → α := transpose2 n d (stackRows d leaf)

/-- `DenseTreeFlatten.unflatten_array`: row `i`, element `a` -/
def bufUnflattenDense (d : Nat) (x : Nat → α) : Nat → Nat → α := fun i a => x (i * d + a)
/-- `IsotropicTreeFlatten.unflatten_array`: `[*x]` are the rows of the `(n, d)` buffer -/
def bufUnflattenIso (d : Nat) (x : Nat → α) : Nat → Nat → α := fun i a => x (i * d + a)
/-- `BlockDiagTreeFlatten.unflatten_array`: `[*x.T]`, `x` of shape `(d, n)` -/
def bufUnflattenBd (n d : Nat) (x : Nat → α) : Nat → Nat → α := fun i a => transpose2 d n x (i * d + a)

end buffers

/-! ### `to_multivariate_normal` -/
section mvn
variable {α : Type} [Mul α] [Zero α] [One α]

/-- `np.eye(d)` as a row-major buffer -/
def eyeBuf (d : Nat) : Nat → α := fun z => if z / d = z % d then 1 else 0

/-- `einsum("nm,dt->ndmt", cov, eye)`; result shape `(n, d, n, d)` -/
def einsumIso (n d : Nat) (cov eye : Nat → α) : Nat → α := fun z =>
  let (i, a, j, b) := unravel4 d n d z
  cov (i * n + j) * eye (a * d + b)

/-- `einsum("dnm,dt->ndmt", covs, eye)`, `covs` of shape `(d, n, n)`; result shape `(n, d, n, d)` -/
def einsumBd (n d : Nat) (covs eye : Nat → α) : Nat → α := fun z =>
  let (i, a, j, b) := unravel4 d n d z
  covs ((a * n + i) * n + j) * eye (a * d + b)

/-- `IsotropicNormal.to_multivariate_normal`: mean `mean_flat.reshape(-1)`, covariance
`einsum(...).reshape((n*d, -1))` — both reshapes are the identity on the buffer.  `cov = L Lᵀ` is an input
(square roots never enter the model). -/
def isoMvnMean (mean : Nat → α) : Nat → α := mean
def isoMvnCov (n d : Nat) (cov : Nat → α) : Nat → α := einsumIso n d cov (eyeBuf d)

/-- `BlockDiagNormal.to_multivariate_normal`: mean `reshape(mean_flat.T, (-1,))` with `mean_flat : (d, n)`,
covariance `einsum("dnm,dt->ndmt", covs, eye(d)).reshape((n*d, -1))` -/
def bdMvnMean (n d : Nat) (mean : Nat → α) : Nat → α := transpose2 d n mean
def bdMvnCov (n d : Nat) (covs : Nat → α) : Nat → α := einsumBd n d covs (eyeBuf d)

/-- `DenseNormal.to_multivariate_normal`: `(mean_flat, L Lᵀ)` as they are -/
def denseMvnMean (mean : Nat → α) : Nat → α := mean
def denseMvnCov (cov : Nat → α) : Nat → α := cov

end mvn

/-! ### pytrees

`PyTree`: array leaves (shape + row-major data) and containers.  JAX's registry flattens tuples / lists in
order, namedtuples in field order, dicts in **sorted key order** (documented; taken as the definition). -/

inductive Kind where
  | tuple | dict | named
  deriving DecidableEq, Repr

mutual
inductive PyTree (α : Type) where
  | leaf (shape : List Nat) (data : List α)
  | node (kind : Kind) (children : PyForest α)
inductive PyForest (α : Type) where
  | nil
  | cons (key : String) (t : PyTree α) (rest : PyForest α)
end

section tree
variable {α β : Type}

/-- insert into a key-sorted forest (stable: after equal keys) -/
def PyForest.insert (k : String) (t : PyTree α) : PyForest α → PyForest α
  | .nil => .cons k t .nil
  | .cons k' t' rest => if k < k' then .cons k t (.cons k' t' rest) else .cons k' t' (PyForest.insert k t rest)

/-- insertion sort by key -/
def PyForest.sort : PyForest α → PyForest α
  | .nil => .nil
  | .cons k t rest => PyForest.insert k t (PyForest.sort rest)

mutual
/-- canonical child order: dict children sorted by key, recursively -/
def PyTree.canon : PyTree α → PyTree α
  | .leaf s d => .leaf s d
  | .node .dict f => .node .dict (PyForest.sort (PyForest.canon f))
  | .node k f => .node k (PyForest.canon f)
def PyForest.canon : PyForest α → PyForest α
  | .nil => .nil
  | .cons k t rest => .cons k (PyTree.canon t) (PyForest.canon rest)
end

mutual
/-- leaf data in traversal order (row-major within a leaf) -/
def PyTree.leaves : PyTree α → List α
  | .leaf _ d => d
  | .node _ f => PyForest.leaves f
def PyForest.leaves : PyForest α → List α
  | .nil => []
  | .cons _ t rest => PyTree.leaves t ++ PyForest.leaves rest
end

mutual
/-- number of scalars -/
def PyTree.size : PyTree α → Nat
  | .leaf _ d => d.length
  | .node _ f => PyForest.size f
def PyForest.size : PyForest α → Nat
  | .nil => 0
  | .cons _ t rest => PyTree.size t + PyForest.size rest
end

mutual
/-- refill the leaves from a list (`unravel`): consumes `size` entries, returns the rest -/
def PyTree.fill : PyTree β → List α → PyTree α × List α
  | .leaf s d, xs => (.leaf s (xs.take d.length), xs.drop d.length)
  | .node k f, xs => let r := PyForest.fill f xs; (.node k r.1, r.2)
def PyForest.fill : PyForest β → List α → PyForest α × List α
  | .nil, xs => (.nil, xs)
  | .cons k t rest, xs =>
    let r1 := PyTree.fill t xs
    let r2 := PyForest.fill rest r1.2
    (.cons k r1.1 r2.1, r2.2)
end

/-- `ravel_pytree(t)[0]` -/
def PyTree.ravel (t : PyTree α) : List α := t.canon.leaves
/-- `ravel_pytree(example)[1](xs)` -/
def PyTree.unravel (example_ : PyTree β) (xs : List α) : PyTree α := (example_.canon.fill xs).1

def PyForest.toList : PyForest α → List (PyTree α)
  | .nil => []
  | .cons _ t rest => t :: PyForest.toList rest

def PyForest.keys : PyForest α → List String
  | .nil => []
  | .cons k _ rest => k :: PyForest.keys rest

/-- keys strictly increasing (dict keys are distinct) -/
def PyForest.sortedB : PyForest α → Bool
  | .nil => true
  | .cons _ _ .nil => true
  | .cons k _ (.cons k' t' rest) => decide (k < k') && PyForest.sortedB (.cons k' t' rest)

mutual
/-- every dict node lists its children in sorted key order (what `tree_unflatten` produces) -/
def PyTree.isCanonical : PyTree α → Bool
  | .leaf _ _ => true
  | .node .dict f => PyForest.sortedB f && PyForest.isCanonical f
  | .node _ f => PyForest.isCanonical f
def PyForest.isCanonical : PyForest α → Bool
  | .nil => true
  | .cons _ t rest => PyTree.isCanonical t && PyForest.isCanonical rest
end

/-- `[*x]` of a coefficient container `x = [M_0, …, M_q]` (a sequence: tuple / list / namedtuple):
`tree_leaves_depth_one(x)` and the leaves of `tree_flatten_depth_one(x)` -/
def PyTree.coeffs : PyTree α → List (PyTree α)
  | .leaf s d => [.leaf s d]
  | .node _ f => f.toList

/-- rows `ravel_pytree(M_i)[0]` -/
def PyTree.rows (t : PyTree α) : List (List α) := t.coeffs.map PyTree.ravel

/-- `DenseTreeFlatten.flatten_tree(x) = ravel_pytree(x)[0]` -/
def PyTree.flattenDense (t : PyTree α) : List α := t.ravel
/-- `IsotropicTreeFlatten.flatten_tree(x)`: `(n, d)`, row-major = the rows one after the other -/
def PyTree.flattenIso (t : PyTree α) : List α := t.rows.flatten

end tree

section treeBd
variable {α : Type} [Inhabited α]
/-- entry `a` of row `i` (total: default outside) -/
def rowsGet (rows : List (List α)) (i a : Nat) : α := (rows.getD i []).getD a default
/-- `BlockDiagTreeFlatten.flatten_tree(x)`: `(d, n)` row-major, through the transpose of the stack -/
def PyTree.flattenBd (t : PyTree α) : List α :=
  let rows := t.rows
  let n := rows.length
  let d := (rows.getD 0 []).length
  (List.range (d * n)).map (bufFlattenBd n d (rowsGet rows))

/-- `unflatten_array` of the three classes: rows from the buffer, then `tree_unflatten` of the depth-one
treedef and `unravel_leaf` (the unraveller of the *first* coefficient) on every row -/
def unflattenWith (rowsOf : (Nat → α) → Nat → Nat → α) (example_ : PyTree α) (xs : List α) : List (PyTree α) :=
  let cs := example_.coeffs
  let n := cs.length
  let first := cs.getD 0 (.leaf [] [])
  let d := first.canon.size
  let buf : Nat → α := fun z => xs.getD z default
  (List.range n).map fun i => first.unravel ((List.range d).map fun a => rowsOf buf i a)

/-- `DenseTreeFlatten.unflatten_array`: the unraveller of the whole container -/
def PyTree.unflattenDense (example_ : PyTree α) (xs : List α) : List (PyTree α) := (example_.unravel xs).coeffs
def PyTree.unflattenIso (example_ : PyTree α) (xs : List α) : List (PyTree α) :=
  unflattenWith (bufUnflattenIso (example_.coeffs.getD 0 (.leaf [] [])).canon.size) example_ xs
def PyTree.unflattenBd (example_ : PyTree α) (xs : List α) : List (PyTree α) :=
  unflattenWith (bufUnflattenBd example_.coeffs.length (example_.coeffs.getD 0 (.leaf [] [])).canon.size) example_ xs
end treeBd

end Pdq.Ravel
