/-!
# Pdq.Model.Validate — decision model of the input validation of probdiffeq (property C20)

Import-free, purely discrete.  Every public entry point of the package that validates an argument is
transcribed as a decision function returning `accept | warn | raise kind`, performing the checks **in
the order the code performs them**, so that the *kind* of exception is the kind the code raises.

Abstract description of a Python argument (the abstraction function lives in `harness/checks/c20.py`):

* `Tree`  — a pytree of arrays: `arr shape dtype py` (a JAX array, or a Python scalar when `py`),
            `node kind children` (list / tuple / dict with sorted keys);
* `Arg`   — a top-level argument: a `Tree`, `None`, or an opaque non-array object (a plain function);
* `Exc`   — `type`, `value`, `assertion`, `notImpl` are the exceptions raised by an explicit check of
            probdiffeq (`raise TypeError(..)`, `assert`, ...);  `implicit` stands for an exception
            raised by Python/JAX itself on the way (unpacking, attribute access, `tree_map` on
            mismatching structures, broadcasting of incompatible shapes, ...): the model pins down
            *that* the call raises, not which class.

NumPy broadcasting is modelled where the code relies on it: a shape that broadcasts silently comes
out as `accept` (that is how the defects D7 ff. become visible as theorems about this model).

Domain: inner containers of a `Tree` are non-empty (Python's `() == ()` identifies an empty tuple
container with a 0-d shape; the harness never generates them); dict keys are strings (so `x[0]` on a
dict raises).
-/
namespace Pdq.Validate

abbrev Shape := List Nat

inductive DType | b | i | f
  deriving DecidableEq, Repr

inductive Kind | list | tuple | dict (keys : List Nat)
  deriving DecidableEq, Repr

/-- a pytree of arrays -/
inductive Tree
  | arr (s : Shape) (d : DType) (py : Bool)
  | node (k : Kind) (xs : List Tree)
  deriving Repr

/-- a top-level Python argument -/
inductive Arg
  | tree (t : Tree)
  | none
  | fn
  deriving Repr

inductive Exc | type | value | assertion | notImpl | implicit
  deriving DecidableEq, Repr

inductive Outcome | accept | warn | raise (e : Exc)
  deriving DecidableEq, Repr

abbrev Chk := Except Exc

def outcome : Chk Unit → Outcome
  | .ok _ => .accept
  | .error e => .raise e

/-- `if bad: raise e` -/
def failIf (bad : Bool) (e : Exc) : Chk Unit := if bad then .error e else .ok ()

inductive Fact | dense | iso | bd
  deriving DecidableEq, Repr

/-! ## trees: equality, shape skeleton (`tree_map(np.shape, ·)`), tree structure (`tree_structure`) -/

mutual
def Tree.beq : Tree → Tree → Bool
  | .arr s d p, .arr s' d' p' => s == s' && d == d' && p == p'
  | .node k xs, .node k' xs' => k == k' && Tree.beqL xs xs'
  | _, _ => false
def Tree.beqL : List Tree → List Tree → Bool
  | [], [] => true
  | x :: xs, y :: ys => x.beq y && Tree.beqL xs ys
  | _, _ => false
end

mutual
/-- forget dtype and scalar-ness: what `tree_map(np.shape, ·)` sees -/
def Tree.erase : Tree → Tree
  | .arr s _ _ => .arr s .f false
  | .node k xs => .node k (Tree.eraseL xs)
def Tree.eraseL : List Tree → List Tree
  | [] => []
  | x :: xs => x.erase :: Tree.eraseL xs
end

mutual
/-- forget the leaves entirely: what `tree_structure(·)` sees -/
def Tree.skel : Tree → Tree
  | .arr _ _ _ => .arr [] .f false
  | .node k xs => .node k (Tree.skelL xs)
def Tree.skelL : List Tree → List Tree
  | [] => []
  | x :: xs => x.skel :: Tree.skelL xs
end

/-- `tree_map(np.shape, a) == tree_map(np.shape, b)` -/
def shapeEq (a b : Tree) : Bool := a.erase.beq b.erase
/-- `tree_structure(a) == tree_structure(b)` -/
def structEq (a b : Tree) : Bool := a.skel.beq b.skel

def prod : Shape → Nat
  | [] => 1
  | n :: ns => n * prod ns

mutual
/-- `ravel_pytree(t)[0].size` -/
def Tree.size : Tree → Nat
  | .arr s _ _ => prod s
  | .node _ xs => Tree.sizeL xs
def Tree.sizeL : List Tree → Nat
  | [] => 0
  | x :: xs => x.size + Tree.sizeL xs
end

def Tree.isLeaf : Tree → Bool
  | .arr .. => true
  | .node .. => false

def Kind.isSeq : Kind → Bool
  | .list | .tuple => true
  | .dict _ => false

/-- a Python `bool` (`isinstance(x, bool)`) -/
def Arg.isPyBool : Arg → Bool
  | .tree (.arr [] .b true) => true
  | _ => false

mutual
/-- `treedef(a).flatten_up_to(b)`: leaves of `a` paired with the sub-trees of `b` at the same position;
`none` when `b` does not have `a` as a prefix (JAX raises `ValueError`) -/
def zipUpTo : Tree → Tree → Option (List ((Shape × DType) × Tree))
  | .arr s d _, b => some [((s, d), b)]
  | .node k xs, .node k' ys => if k = k' then zipUpToL xs ys else none
  | .node _ _, .arr .. => none
def zipUpToL : List Tree → List Tree → Option (List ((Shape × DType) × Tree))
  | [], [] => some []
  | x :: xs, y :: ys =>
    match zipUpTo x y, zipUpToL xs ys with
    | some a, some b => some (a ++ b)
    | _, _ => none
  | _, _ => none
end

/-! ## `utilities.verify_taylor_coefficient_pytree` (utilities.py:100-120) -/

def verifyTcoeffs : Arg → Chk Unit
  | .tree (.arr _ _ false) => .error .type          -- isinstance(x, Array)
  | .tree (.arr _ _ true) => .error .value          -- `[*x]` fails inside the try block
  | .none => .error .value
  | .fn => .error .value
  | .tree (.node (.dict keys) _) =>                 -- `[*x]` are the (string) keys, all of shape ()
    failIf keys.isEmpty .value
  | .tree (.node _ []) => .error .value             -- x_list[0]
  | .tree (.node _ (x :: xs)) => failIf (!(xs.all (shapeEq x))) .value

/-- `len(x)` -/
def pyLen : Arg → Chk Nat
  | .tree (.node (.dict keys) _) => .ok keys.length
  | .tree (.node _ xs) => .ok xs.length
  | .tree (.arr (n :: _) _ false) => .ok n
  | _ => .error .implicit

/-- `x[0]` -/
def pyHead : Arg → Chk Tree
  | .tree (.node (.dict _) _) => .error .implicit    -- KeyError: keys are strings
  | .tree (.node _ (x :: _)) => .ok x
  | .tree (.arr (_ :: s) d false) => .ok (.arr s d false)
  | _ => .error .implicit

/-! ## which check the `from_mean_and_std` constructors perform on `std` (variants of the code) -/

/-- `none`: no check at all (block-diagonal, current tree — defect D7);
`flatAssert`: `assert mean_flat.shape == std_flat.shape` (dense, current tree);
`flatValue`: the same comparison of the flattened shapes raising `ValueError` (proposed minimal fix);
`leafwise`: leaf-by-leaf comparison of `tree_map(np.shape, ·)` raising `ValueError` (proposed strict fix) -/
inductive StdCheck | none | flatAssert | flatValue | leafwise
  deriving DecidableEq, Repr

/-! ## dense (ssm_impl_dense.py) -/

/-- `DenseNormal.from_mean_and_std` (118-129) -/
def denseFromMeanStd (v : StdCheck) (mean std : Arg) : Chk Unit := do
  verifyTcoeffs mean
  verifyTcoeffs std
  match mean, std with
  | .tree tm, .tree ts =>
    match v with
    | .leafwise => failIf (!(shapeEq tm ts)) .value
    | .flatValue => failIf (tm.size != ts.size) .value
    | _ => failIf (tm.size != ts.size) .assertion
  | _, _ => .error .implicit

/-- `_process_base_scale` (686-715) and the identical block of the block-diagonal model (510-532):
`expected` has the structure and leaf shapes of `tcoeffs_mean[0]` -/
def processBaseScale (os : Arg) (x0 : Tree) : Chk Unit :=
  match os with
  | .none => .ok ()
  | .fn =>
    -- a non-array leaf: structure `*`; `np.asarray(fn)` raises
    if x0.isLeaf then .error .implicit else .error .type
  | .tree t =>
    if !(structEq t x0) then .error .type
    else if !(shapeEq t x0) then
      -- the message is built with `base_scale.shape`, which does not exist on a container
      (if t.isLeaf then .error .value else .error .implicit)
    else .ok ()

/-- the dense `_process_base_scale` maps `np.asarray` over the argument *before* comparing structures -/
def processBaseScaleDense (os : Arg) (x0 : Tree) : Chk Unit :=
  match os with
  | .fn => .error .implicit
  | _ => processBaseScale os x0

/-- `prior_wiener_integrated_diffuse` (480-514), `diffuse_derivatives = 0` -/
def densePriorDiffuse (v : StdCheck) (mean std os : Arg) : Chk Unit := do
  denseFromMeanStd v mean std
  let x0 ← pyHead mean
  processBaseScaleDense os x0

/-- result of `tree_map(np.zeros_like, mean)` -/
def zerosLike : Arg → Chk Arg
  | .fn => .error .implicit
  | a => .ok a

/-- one pair of `tree_map(f, is_exact, tcoeffs_mean)`: the mean side is an array -/
def pairIsLeaf (p : (Shape × DType) × Tree) : Bool := p.2.isLeaf
/-- `np.shape(a) in [(), np.shape(b)]` -/
def pairShapeOk (p : (Shape × DType) × Tree) : Bool :=
  match p.2 with
  | .arr sb _ _ => p.1.1 == [] || p.1.1 == sb
  | .node .. => true
/-- `np.asarray(s).dtype == bool` after promotion (`a * ones(b.shape, dtype=bool)` keeps the dtype class of `a`) -/
def pairIsBool (p : (Shape × DType) × Tree) : Bool := p.1.2 == .b

/-- the `else` branch of `_tcoeffs_standard_deviation` (dense 645-669, block-diagonal 615-639) -/
def isExactLeafwise (ie : Tree) (mean : Arg) : Chk Arg :=
  match mean with
  | .tree tm =>
    match zipUpTo ie tm with
    | .none => .error .implicit                       -- tree_map: structures differ (ValueError from JAX)
    | some ps =>
      if !(ps.all pairIsLeaf) then .error .implicit   -- prefix: `b.shape` on a container
      else if !(ps.all pairShapeOk) then .error .value
      else if !(ps.all pairIsBool) then .error .type
      else .ok (.tree tm)
  | _ => .error .implicit

/-- `_tcoeffs_standard_deviation` of the dense and block-diagonal models -/
def tcoeffsStd (mean ie : Arg) : Chk Arg :=
  if ie.isPyBool then zerosLike mean
  else match ie with
    | .tree t => isExactLeafwise t mean
    | .none =>                                         -- tree_map(f, None, mean)
      (match mean with | .none => .ok .none | _ => .error .implicit)
    | .fn => .error .implicit                          -- a leaf against the whole mean: `b.shape` fails

/-- `prior_wiener_integrated` (458-478) -/
def densePrior (v : StdCheck) (mean ie os : Arg) : Chk Unit := do
  let std ← tcoeffsStd mean ie
  densePriorDiffuse v mean std os

/-- kind of object passed where an ODE / residual description is expected -/
inductive Obj
  | jetOde (nin nout : Nat)        -- problems.JetOde; `nout > 1` iff jet-lifted
  | jetOdeAuto (nin : Nat)         -- problems.JetOdeAutonomous
  | jetResidual (nin : Nat)
  | fn | none
  deriving DecidableEq, Repr

def Obj.nin : Obj → Chk Nat
  | .jetOde n _ | .jetOdeAuto n | .jetResidual n => .ok n
  | _ => .error .implicit

/-- `prior_exponential_diffuse` (541-629) -/
def denseExpDiffuse (v : StdCheck) (ode : Obj) (mean std os : Arg) : Chk Unit := do
  let k ← ode.nin
  let n ← pyLen mean
  failIf (k != n) .type
  denseFromMeanStd v mean std
  let x0 ← pyHead mean
  processBaseScaleDense os x0
  match ode with
  | .jetOdeAuto _ => .ok ()
  | _ => .error .implicit                               -- `ode.autonomous`

/-- `prior_exponential` (516-539) -/
def denseExp (v : StdCheck) (ode : Obj) (mean ie os : Arg) : Chk Unit := do
  let std ← tcoeffsStd mean ie
  denseExpDiffuse v ode mean std os

/-- `prior_ornstein_uhlenbeck_integrated` / `prior_matern` (ssm_impl_api.py:380-516): `len(tcoeffs)` is
evaluated first, the ODE then has the matching order -/
def denseOU (v : StdCheck) (mean ie os : Arg) : Chk Unit := do
  let n ← pyLen mean
  denseExp v (.jetOdeAuto n) mean ie os

/-! ## isotropic (ssm_impl_isotropic.py) -/

/-- `IsotropicNormal.from_mean_and_std` (161-178) -/
def isoFromMeanStd (mean std : Arg) : Chk Unit := do
  verifyTcoeffs mean
  verifyTcoeffs std
  let _ ← pyHead mean                                   -- tree_flatten_depth_one(mean): `tree[0]`
  let n ← pyLen mean
  match std with
  | .tree (.node k (y :: ys)) =>
    if !k.isSeq then .error .implicit                   -- `std[0]`
    else match y with
      | .node .. => .error .implicit                    -- np.stack of containers
      | .arr sy _ _ => failIf ((ys.length + 1) :: sy != [n]) .value
  | _ => .error .implicit

def isoBaseScale : Arg → Chk Unit
  | .none => .ok ()
  | .fn => .error .implicit                              -- a leaf; `np.asarray(fn)` raises
  | .tree (.node ..) => .error .type
  | .tree (.arr s _ _) => failIf (s != []) .value

/-- `prior_wiener_integrated_diffuse` (431-482) -/
def isoPriorDiffuse (mean std os : Arg) : Chk Unit := do
  isoFromMeanStd mean std
  isoBaseScale os

/-- what `tree_flatten_depth_one(tcoeffs_mean)` returns, as far as the code uses it -/
inductive IsoTemplate
  | leaf                       -- the mean is a bare array: it is its own depth-one leaf
  | flat (k : Kind) (n : Nat)  -- container of `n` coefficients of equal structure
  | irregular                  -- coefficients of different tree structure

def isoTemplate : Arg → Chk IsoTemplate
  | .tree (.arr (_ :: _) _ false) => .ok .leaf
  | .tree (.node k (x :: xs)) =>
    if !k.isSeq then .error .implicit
    else if xs.all (structEq x) then .ok (.flat k (xs.length + 1)) else .ok .irregular
  | _ => .error .implicit

def scalars (k : Kind) (n : Nat) : Arg := .tree (.node k (List.replicate n (.arr [] .f false)))

/-- `np.shape(a) == ()` for an array flag (containers are rejected before) -/
def leafIsScalar : Tree → Bool
  | .arr s _ _ => s == []
  | .node .. => true
/-- `np.asarray(s).dtype == bool` -/
def leafIsBool : Tree → Bool
  | .arr _ d _ => d == .b
  | .node .. => true

/-- `_tcoeffs_standard_deviation` (519-554) -/
def isoTcoeffsStd (mean ie : Arg) : Chk Arg := do
  let tmpl ← isoTemplate mean
  if ie.isPyBool then
    match tmpl with
    | .leaf => .ok (.tree (.arr [] .f false))
    | .flat k n => .ok (scalars k n)
    | .irregular => .error .value                        -- reached `verify(mean)` in from_mean_and_std
  else match tmpl, ie with
    | .irregular, _ => .error .implicit
    | _, .none => .error .implicit                       -- tree_map(f, None, template)
    | .leaf, .fn => .error .implicit                     -- np.asarray(fn) in std_init
    | .flat .., .fn => .error .value                     -- shape () against (n,)
    | .leaf, .tree (.node ..) => .error .implicit
    | .leaf, .tree (.arr s d _) =>
      if s != [] then .error .value
      else if d != .b then .error .type
      else .ok (.tree (.arr [] .f false))
    | .flat _ n, .tree (.arr s d _) =>
      -- a leaf against the whole template: np.shape(list of n scalars) = (n,)
      if s != [n] then .error .value
      else if d != .b then .error .type
      else .ok (.tree (.arr [n] .f false))
    | .flat k n, .tree (.node k' ys) =>
      if k' != k || ys.length != n then .error .implicit
      else if !(ys.all Tree.isLeaf) then .error .implicit
      else if !(ys.all leafIsScalar) then .error .value
      else if !(ys.all leafIsBool) then .error .type
      else .ok (scalars k n)

/-- `prior_wiener_integrated` (409-429) -/
def isoPrior (mean ie os : Arg) : Chk Unit := do
  let std ← isoTcoeffsStd mean ie
  isoPriorDiffuse mean std os

/-! ## block-diagonal (ssm_impl_blockdiag.py) -/

/-- `BlockDiagNormal.from_mean_and_std` (236-253).  Current tree (`StdCheck.none`): the stacked
`std` of shape `(e, m)` is multiplied as `(e, m, 1) * (1, n, n)`, which NumPy broadcasts whenever
`m = n`, `m = 1` or `n = 1` — whatever `e` is. -/
def bdFromMeanStd (v : StdCheck) (mean std : Arg) : Chk Unit := do
  verifyTcoeffs mean
  verifyTcoeffs std
  let _ ← pyHead mean
  let n ← pyLen mean
  match mean, std with
  | .tree tm, .tree (.node k (y :: ys)) =>
    if !k.isSeq then .error .implicit
    else
      let m := ys.length + 1
      match v with
      | .leafwise => failIf (!(shapeEq tm (.node k (y :: ys)))) .value
      | .flatValue | .flatAssert =>
        -- (e, m) against (d, n)
        match pyHead mean with
        | .ok x0 => failIf (y.size != x0.size || m != n) .value
        | .error e => .error e
      | .none => failIf (!(m == n || m == 1 || n == 1)) .implicit
  | _, _ => .error .implicit

/-- `prior_wiener_integrated_diffuse` (485-547) -/
def bdPriorDiffuse (v : StdCheck) (mean std os : Arg) : Chk Unit := do
  bdFromMeanStd v mean std
  let x0 ← pyHead mean
  processBaseScale os x0

def bdPrior (v : StdCheck) (mean ie os : Arg) : Chk Unit := do
  let std ← tcoeffsStd mean ie
  bdPriorDiffuse v mean std os

/-! ## the three factorisations behind one name -/

/-- code variant: the `std` check of the dense and of the block-diagonal `from_mean_and_std` -/
structure Variant where
  dense : StdCheck := .flatAssert
  bd : StdCheck := .none
  /-- the losses compare the shape of the data with the marginal mean (proposed fix) -/
  lossDataCheck : Bool := false
  /-- `error_residual_std` rejects constraints with more than one output coefficient (proposed fix) -/
  errNumOutputs : Bool := false
  deriving Repr

/-- the unchanged tree -/
def Variant.current : Variant := {}
/-- all proposed patches applied (strict leaf-wise `std` check) -/
def Variant.fixed : Variant := { dense := .leafwise, bd := .leafwise, lossDataCheck := true, errNumOutputs := true }
/-- only the minimal D7 patch applied -/
def Variant.d7 : Variant := { bd := .flatValue }

def priorDiffuse (v : Variant) : Fact → Arg → Arg → Arg → Chk Unit
  | .dense => densePriorDiffuse v.dense
  | .iso => isoPriorDiffuse
  | .bd => bdPriorDiffuse v.bd

def prior (v : Variant) : Fact → Arg → Arg → Arg → Chk Unit
  | .dense => densePrior v.dense
  | .iso => isoPrior
  | .bd => bdPrior v.bd

/-- `prior_exponential`: only the dense model implements it (isotropic 484-517, block-diagonal 549-582,
matrix-free 325-357 raise `NotImplementedError` before looking at any argument) -/
def priorExp (v : Variant) : Fact → Obj → Arg → Arg → Arg → Chk Unit
  | .dense => denseExp v.dense
  | _ => fun _ _ _ _ => .error .notImpl

def priorExpDiffuse (v : Variant) : Fact → Obj → Arg → Arg → Arg → Chk Unit
  | .dense => denseExpDiffuse v.dense
  | _ => fun _ _ _ _ => .error .notImpl

def priorOU (v : Variant) : Fact → Arg → Arg → Arg → Chk Unit
  | .dense => denseOU v.dense
  | _ => fun mean _ _ => do let _ ← pyLen mean; .error .notImpl

/-! ## `prior.transition(dt, output_scale)` -/

mutual
/-- shape of `np.asarray(x)` for a (nested) sequence of arrays -/
def asarrayTree : Tree → Chk Shape
  | .arr s _ _ => .ok s
  | .node k xs =>
    if !k.isSeq then .error .implicit
    else match asarrayL xs with
      | .ok .none => .ok [0]
      | .ok (some s) => .ok (xs.length :: s)
      | .error e => .error e
/-- common `asarray`-shape of the children (`none` for no children); ragged input raises -/
def asarrayL : List Tree → Chk (Option Shape)
  | [] => .ok .none
  | x :: xs =>
    match asarrayTree x, asarrayL xs with
    | .ok s, .ok .none => .ok (some s)
    | .ok s, .ok (some s') => if s == s' then .ok (some s) else .error .implicit
    | .error e, _ => .error e
    | _, .error e => .error e
end

def asarrayShape : Arg → Chk Shape
  | .tree t => asarrayTree t
  | _ => .error .implicit

/-- dense 347-353, isotropic 367-373: expected `()`;  block-diagonal 406-416: expected `(d,)` -/
def transition (fact : Fact) (d : Nat) (os : Arg) : Chk Unit := do
  let s ← asarrayShape os
  match fact with
  | .bd => failIf (s != [d]) .value
  | _ => failIf (s != []) .value

/-! ## linearisation constructors (`constraint_ode_ts0 / ts1 / residual`) -/

inductive Fact4 | dense | iso | bd | matfree
  deriving DecidableEq, Repr

def Obj.isJetOde : Obj → Bool | .jetOde .. => true | _ => false
def Obj.isJetResidual : Obj → Bool | .jetResidual .. => true | _ => false

def constraintResidualChecked (fact : Fact4) (tpGiven : Bool) : Chk Unit :=
  match fact with
  | .dense => .ok ()
  | _ => failIf tpGiven .notImpl

def constraintTs0 (fact : Fact4) (o : Obj) : Chk Unit :=
  match fact with
  | .matfree => .error .notImpl
  | _ => failIf (!o.isJetOde) .type

def constraintTs1 (fact : Fact4) (o : Obj) (tpGiven : Bool) : Chk Unit := do
  failIf (!o.isJetOde) .type                             -- ssm_impl_api.py:554
  constraintResidualChecked fact tpGiven

def constraintResidual (fact : Fact4) (o : Obj) (tpGiven : Bool) : Chk Unit := do
  failIf (!o.isJetResidual) .type
  constraintResidualChecked fact tpGiven

/-! ## jet lifting (problems.py) -/

/-- the `lift_by` argument: a Python `int` (a `bool` is an `int` in Python), or anything else -/
inductive LiftBy | int (z : Int) | other
  deriving DecidableEq, Repr

/-- `JetOde.jet_lift` (232-251), `JetOdeAutonomous.jet_lift` (279), `JetResidual.jet_lift` (421-429) -/
def jetLift (o : Obj) (l : LiftBy) : Chk Unit :=
  match o with
  | .jetOdeAuto _ => .error .notImpl
  | .jetOde _ nout =>
    match l with
    | .other => .error .type
    | .int _ => failIf (nout != 1) .notImpl
  | .jetResidual _ =>
    match l with
    | .other => .error .type
    | .int _ => .ok ()
  | _ => .error .implicit

/-- calling a lifted function on `K` jet coordinates (`JetAbstract.lift.fun_lifted`, 106-114) -/
def liftedCall (nin : Nat) (liftBy : Int) (K : Nat) : Chk Unit :=
  failIf (decide (liftBy < 0) || decide (liftBy > (K : Int) - (nin : Int))) .value

/-- `_JetOdeCommon.__call__` (189-196) -/
def odeCall (o : Obj) : Chk Unit :=
  match o with
  | .jetOde _ nout => failIf (decide (nout > 1)) .value
  | .jetOdeAuto _ => .ok ()
  | _ => .error .implicit

/-! ## Taylor-coefficient routines (jet_expansion_algorithms.py) and step-size proposals -/

inductive JetAlg | paddedScan | unroll | viaJvp
  deriving DecidableEq, Repr

/-- `pytree`: the initial values are pytrees rather than arrays; `m`: how many there are -/
def jetexpand (_alg : JetAlg) (num : Nat) (vf : Obj) (pytree : Bool) (m : Nat) : Chk Unit :=
  match vf with
  | .jetOde nin nout =>
    if pytree then
      -- _allow_pytree_inits (351-387) re-wraps the field: the lifted check is not reached
      if !(nin == 1 || nin == 2) then .error .value
      else if num == 0 then .ok ()
      else if nout > 1 then .error .implicit
      else failIf (m != nin) .implicit
    else if num == 0 then .ok ()
    else if nout > 1 then .error .value
    else failIf (m != nin) .implicit                     -- `[y] = jet_coords`
  | _ => .error .type                                    -- _error_if_vf_not_odefunction_type (338-348)

/-- `jetexpand_ode_doubling_unroll` (228-262), array-valued initial values: no type check -/
def jetexpandDoubling (numDoublings : Nat) (vf : Obj) (m : Nat) : Chk Unit :=
  match vf with
  | .jetOde nin nout =>
    if nout > 1 then .error .value
    else if m != 1 then .error .implicit                 -- `(u0,) = inits`
    else if numDoublings == 0 then .ok ()
    else failIf (nin != 1) .implicit
  | _ => .error .implicit                                 -- attribute error, see DESIGN §4 C20

/-- `ivpsolve.dt0` (stepsize_initialisers.py:7-21) -/
def dt0 (vf : Obj) (m : Nat) : Chk Unit :=
  match vf with
  | .jetOde nin nout =>
    if nout > 1 then .error .value else failIf (m != nin) .implicit
  | _ => .error .implicit

/-- `ivpsolve.dt0_adaptive` (24-62): `mSized = none` when `len(initial_values)` fails -/
def dt0Adaptive (vf : Obj) (m : Option Nat) : Chk Unit :=
  match m with
  | .none => .error .implicit
  | some m =>
    if m > 1 then .error .value
    else match vf with
      | .jetOde nin nout =>
        if nout > 1 then .error .value else failIf (m != nin) .implicit
      | _ => .error .implicit

/-! ## losses (estimators_and_losses.py) -/

/-- shape-container check shared by both losses (33-41, 80-88): every exception of the comparison is
turned into `ValueError` -/
def stdContainer (std : Arg) (expected : Tree) : Chk Unit :=
  match std with
  | .fn => .error .implicit                               -- np.asarray(fn) before the check
  | .none => .error .value
  | .tree t => failIf (!(structEq t expected && shapeEq t expected)) .value

/-- does a datum of `su` entries go through `logpdf` against a mean of `d` entries?
dense: `u - mean_flat` broadcasts a single entry; isotropic / block-diagonal: `vmap` needs equal sizes -/
def dataFits (fact : Fact) (su d : Nat) : Bool :=
  match fact with
  | .dense => su == d || su == 1 || d == 1
  | _ => su == d

/-- `loss_lml_terminal_values` (20-50).  `isNormal`: `marginals` is a `*Normal`;
`stdExp`: `marginals.std[tcoeff_index]`; `uExp`: `marginals.mean[tcoeff_index]` -/
def lossTerminal (v : Variant) (fact : Fact) (isNormal : Bool) (stdExp uExp : Tree) (u std : Arg) :
    Chk Unit := do
  match u with | .fn => .error .implicit | _ => pure ()
  match std with | .fn => .error .implicit | _ => pure ()
  failIf (!isNormal) .implicit                            -- `marginals.std`
  stdContainer std stdExp
  match u with
  | .tree tu =>
    if v.lossDataCheck then failIf (!(structEq tu uExp && shapeEq tu uExp)) .value
    else failIf (!(dataFits fact tu.size uExp.size)) .implicit
  | _ => if v.lossDataCheck then .error .value else .error .implicit

/-- first leaf of a tree -/
def firstLeaf : Tree → Option Shape
  | .arr s _ _ => some s
  | .node _ [] => .none
  | .node _ (x :: _) => firstLeaf x

/-- `loss_lml_timeseries` (53-105), array-valued observations.  `isMarkov`: the posterior is a
`MarkovSequence`; `s1` / `su1`: shape of `posterior.marginal.std[tcoeff_index]` / of
`posterior.marginal.mean[tcoeff_index]` (one time point); `T`: number of time points of the posterior -/
def lossTimeseries (v : Variant) (fact : Fact) (isMarkov : Bool) (s1 su1 : Shape) (T : Nat) (u std : Arg) :
    Chk Unit := do
  failIf (!isMarkov) .type
  match u with
  | .tree tu =>
    match firstLeaf tu with
    | some (N :: _) =>
      match std with | .fn => .error .implicit | _ => pure ()
      -- std_expected = stack([s] * N)
      stdContainer std (.arr (N :: s1) .f false)
      if v.lossDataCheck then
        failIf (!(structEq tu (.arr [] .f false) && shapeEq tu (.arr (N :: su1) .f false))) .value
        failIf (N != T) .implicit
      else
        failIf (N != T) .implicit
        failIf (!(tu.size % N == 0 && dataFits fact (tu.size / N) (prod su1))) .implicit
    | _ => .error .implicit
  | _ => .error .implicit

/-! ## residual-based error estimate (solvers.py:982-989) -/

/-- `m`: number of Taylor coefficients the constraint outputs (`1 + lift_by`), `d`: state dimension.
The error has one entry per output coefficient (isotropic) resp. per output coefficient and dimension. -/
def errorResidualShape (v : Variant) (fact : Fact) (d m : Nat) : Chk Unit := do
  if v.errNumOutputs then failIf (m != 1) .value
  let e := match fact with | .iso => m | _ => m * d
  failIf (!(e == 1 || e == d)) .value

/-! ## Jacobian handlers (jacobians.py:49-75) -/

/-- `xArr`/`fxArr`: `x` is a JAX array / `fun(x)` is a single array -/
def verifyFunAndX (xArr : Bool) (xs : Shape) (fxArr : Bool) (fs : Shape) : Chk Unit := do
  failIf (!xArr || !fxArr) .type
  failIf (xs.length != 2 || fs.length != 2) .value
  match xs, fs with
  | [_, d], [_, d2] => failIf (d != d2) .value
  | _, _ => .error .implicit

/-! ## matrix-free ensembles (ssm_impl_matfree.py:375-397), `revert_conditional` (cholesky_util.py:58-66) -/

def ensembles (s : Shape) : Chk Unit :=
  match s with
  | [S, n, _] => failIf (decide (n > S)) .value
  | _ => .error .implicit

def revertConditional (rX rXF rYX : Shape) : Chk Unit := do
  failIf (rX.length != 2 || rYX.length != 2 || rXF.length != 2) .value
  match rX, rXF, rYX with
  | [n1, _], [n2, k2], [_, k4] => failIf (n1 != n2 || k2 != k4) .implicit     -- np.block
  | _, _, _ => .error .implicit

/-! ## strategy / routine suitability (estimators_and_losses.py:361-366, 519-524, 605-610) -/

inductive Strategy | filter | fixedInterval | fixedPoint
  deriving DecidableEq, Repr
inductive Routine | saveAt | fixedGrid | saveEveryStep | terminalValues | offgridMarginals
  deriving DecidableEq, Repr

def suitableSaveAt : Strategy → Bool | .fixedInterval => false | _ => true
def suitableSaveEveryStep : Strategy → Bool | .fixedPoint => false | _ => true
def suitableOffgrid : Strategy → Bool | .fixedPoint => false | _ => true

/-- solvers_via_adaptive_steps.py:81-85, solvers_via_fixed_steps.py:15-19, test_util.py:23-27,
solvers.py:163-164 -/
def routine (r : Routine) (s : Strategy) (warnFlag : Bool) : Outcome :=
  match r with
  | .saveAt => if !(suitableSaveAt s) && warnFlag then .warn else .accept
  | .fixedGrid | .saveEveryStep => if !(suitableSaveEveryStep s) then .warn else .accept
  | .terminalValues => .accept
  | .offgridMarginals => if !(suitableOffgrid s) then .raise .notImpl else .accept

end Pdq.Validate
