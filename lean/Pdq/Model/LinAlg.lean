/-!
# Pdq.Model.LinAlg — import-free generic vectors and matrices

The executable model of probdiffeq is written over these two structures, generic in the scalar
type.  The driver instantiates the scalars at core `Rat`; the theorems instantiate them at an
arbitrary field through the abstraction maps of `Pdq.Bridge`.

No imports: this file (and everything under `Pdq/Model`) must stay Mathlib-free so that the
driver links as a plain `lean_exe`.
-/
namespace Pdq

structure Vec (n : Nat) (α : Type) where
  get : Fin n → α

structure Mat (m n : Nat) (α : Type) where
  get : Fin m → Fin n → α

section
variable {α : Type}

/-- materialise (memoise) a matrix given by a closure; total, falls back to the closure -/
def Mat.ofFn {m n : Nat} (f : Fin m → Fin n → α) : Mat m n α :=
  let arr : Array (Array α) := Array.ofFn (fun i : Fin m => Array.ofFn (fun j : Fin n => f i j))
  ⟨fun i j => match arr[i.val]? with
    | some row => (match row[j.val]? with | some x => x | none => f i j)
    | none => f i j⟩

def Vec.ofFn {n : Nat} (f : Fin n → α) : Vec n α :=
  let arr : Array α := Array.ofFn f
  ⟨fun i => match arr[i.val]? with | some x => x | none => f i⟩

def Mat.tr {m n : Nat} (A : Mat m n α) : Mat n m α := ⟨fun i j => A.get j i⟩

def Vec.toList {n : Nat} (v : Vec n α) : List α := (List.finRange n).map v.get
def Mat.toList {m n : Nat} (A : Mat m n α) : List α :=
  (List.finRange m).flatMap fun i => (List.finRange n).map fun j => A.get i j

end

section
variable {α : Type} [Add α] [Mul α] [Sub α] [Neg α] [Zero α] [One α]

def vsum {n : Nat} (f : Fin n → α) : α := ((List.finRange n).map f).sum

def Mat.zero {m n : Nat} : Mat m n α := ⟨fun _ _ => 0⟩
def Vec.zero {n : Nat} : Vec n α := ⟨fun _ => 0⟩
def Mat.one {n : Nat} : Mat n n α := ⟨fun i j => if i = j then 1 else 0⟩
def Vec.ones {n : Nat} : Vec n α := ⟨fun _ => 1⟩
def Mat.diag {n : Nat} (v : Vec n α) : Mat n n α := ⟨fun i j => if i = j then v.get i else 0⟩

def Mat.mul {m n k : Nat} (A : Mat m n α) (B : Mat n k α) : Mat m k α :=
  Mat.ofFn (fun i j => vsum (fun l => A.get i l * B.get l j))
def Mat.add {m n : Nat} (A B : Mat m n α) : Mat m n α := Mat.ofFn fun i j => A.get i j + B.get i j
def Mat.sub {m n : Nat} (A B : Mat m n α) : Mat m n α := Mat.ofFn fun i j => A.get i j - B.get i j
def Mat.neg {m n : Nat} (A : Mat m n α) : Mat m n α := Mat.ofFn fun i j => - A.get i j
def Mat.smul {m n : Nat} (c : α) (A : Mat m n α) : Mat m n α := Mat.ofFn fun i j => c * A.get i j
def Mat.mulVec {m n : Nat} (A : Mat m n α) (v : Vec n α) : Vec m α :=
  Vec.ofFn fun i => vsum (fun l => A.get i l * v.get l)

/-- `diag(r) * A` -/
def Mat.rowScale {m n : Nat} (r : Vec m α) (A : Mat m n α) : Mat m n α :=
  Mat.ofFn fun i j => r.get i * A.get i j
/-- `A * diag(c)` -/
def Mat.colScale {m n : Nat} (A : Mat m n α) (c : Vec n α) : Mat m n α :=
  Mat.ofFn fun i j => A.get i j * c.get j
/-- `diag(r) * A * diag(r)` for a square matrix -/
def Mat.congrScale {n : Nat} (r : Vec n α) (A : Mat n n α) : Mat n n α :=
  Mat.ofFn fun i j => r.get i * A.get i j * r.get j

def Vec.add {n : Nat} (u v : Vec n α) : Vec n α := Vec.ofFn fun i => u.get i + v.get i
def Vec.sub {n : Nat} (u v : Vec n α) : Vec n α := Vec.ofFn fun i => u.get i - v.get i
def Vec.neg {n : Nat} (u : Vec n α) : Vec n α := Vec.ofFn fun i => - u.get i
def Vec.smul {n : Nat} (c : α) (u : Vec n α) : Vec n α := Vec.ofFn fun i => c * u.get i
/-- entrywise product -/
def Vec.hmul {n : Nat} (u v : Vec n α) : Vec n α := Vec.ofFn fun i => u.get i * v.get i
def Vec.dot {n : Nat} (u v : Vec n α) : α := vsum fun i => u.get i * v.get i

/-- diagonal of a square matrix -/
def Mat.diagVec {n : Nat} (A : Mat n n α) : Vec n α := ⟨fun i => A.get i i⟩

/-- quadratic form `uᵀ A v` -/
def Mat.bilin {m n : Nat} (u : Vec m α) (A : Mat m n α) (v : Vec n α) : α := u.dot (A.mulVec v)

end

section
variable {α : Type} [Div α] [One α]
/-- entrywise reciprocal -/
def Vec.inv {n : Nat} (u : Vec n α) : Vec n α := Vec.ofFn fun i => 1 / u.get i
end

section
variable {α : Type} [DecidableEq α]
def Vec.beq {n : Nat} (u v : Vec n α) : Bool := (List.finRange n).all fun i => decide (u.get i = v.get i)
def Mat.beq {m n : Nat} (A B : Mat m n α) : Bool :=
  (List.finRange m).all fun i => (List.finRange n).all fun j => decide (A.get i j = B.get i j)
end

end Pdq
