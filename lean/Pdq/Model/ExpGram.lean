import Pdq.Model.LinAlg
import Pdq.Model.Iwp
/-!
# Pdq.Model.ExpGram — matrix exponential + finite-horizon Gramian (`util/gram_util.py`) and the
exponential-prior drifts (`ssm_impl_api.py`, `ssm_impl_dense.py`)

`exp_gram_cholesky` = scale `A, B` by `2^-s`, Padé/Legendre initialiser `init`, `s` doubling steps.
The model transcribes each `init` operation by operation over an abstract record of operations `Alg π β`
(`π`: square things — `ident`, `A2`, `A4`, `P`, `U`, `V`; `β`: right-hand-side blocks — `B`, `P @ B`, the `L_even/L_odd`
entries).  The same transcription is instantiated

* at matrices over `Rat` by the driver (this is what is compared with the real code), and
* at coefficient lists (`List Int`, polynomials in the symbol `A`) by the table theorems, which thereby speak
  about *the polynomial the code actually assembles*, k-loop and `P`-updates included.

The tables, the loop indices `ks` and the flag "`P = A2 @ P` is present in the loop body" are **parameters** here;
driver and theorems instantiate them with `Pdq.Consts.*`, regenerated from the source on every run.

Square roots never enter: `Ls[i] / sqrt(norm_i)` becomes the weight `1/norm_i` in the Gram matrix,
`B / sqrt(2^s)` becomes `1/2^s` on the Gram matrix.  Linear solves are certificates (`W` with `(V-U) W = 1`).
-/
namespace Pdq.ExpGram

/-- the code's `C[i, k]` -/
def tab (C : List (List Int)) (i k : Nat) : Int := (C.getD i []).getD k 0
/-- the code's `b[j]` -/
def coef (b : List Int) (j : Nat) : Int := b.getD j 0

/-- operations used by the initialisers -/
structure Alg (π β : Type) where
  one : π                 -- `ident`
  mul : π → π → π         -- `linalg.vector_dot(X, Y)` / `X @ Y` on square matrices
  add : π → π → π
  smul : Int → π → π      -- `b[j] * X`
  app : π → β → β         -- `X @ ell`
  addB : β → β → β
  smulB : Int → β → β     -- `ell * C[i, k]`
  zeroB : β               -- `np.zeros_like(B)`

section generic
variable {π β : Type} (g : Alg π β)

/-! ### Padé numerator / denominator halves `U` (odd part) and `V` (even part), per order, as written in the code -/

def padeUV3 (b : List Int) (a : π) : π × π :=
  let a2 := g.mul a a
  let u := g.mul a (g.add (g.smul (coef b 3) a2) (g.smul (coef b 1) g.one))
  let v := g.add (g.smul (coef b 2) a2) (g.smul (coef b 0) g.one)
  (u, v)

def padeUV5 (b : List Int) (a : π) : π × π :=
  let a2 := g.mul a a
  let a4 := g.mul a2 a2
  let u := g.mul a (g.add (g.add (g.smul (coef b 5) a4) (g.smul (coef b 3) a2)) (g.smul (coef b 1) g.one))
  let v := g.add (g.add (g.smul (coef b 4) a4) (g.smul (coef b 2) a2)) (g.smul (coef b 0) g.one)
  (u, v)

def padeUV7 (b : List Int) (a : π) : π × π :=
  let a2 := g.mul a a
  let a4 := g.mul a2 a2
  let a6 := g.mul a4 a2
  let u := g.mul a (g.add (g.add (g.add (g.smul (coef b 7) a6) (g.smul (coef b 5) a4)) (g.smul (coef b 3) a2))
            (g.smul (coef b 1) g.one))
  let v := g.add (g.add (g.add (g.smul (coef b 6) a6) (g.smul (coef b 4) a4)) (g.smul (coef b 2) a2))
            (g.smul (coef b 0) g.one)
  (u, v)

def padeUV9 (b : List Int) (a : π) : π × π :=
  let a2 := g.mul a a
  let a4 := g.mul a2 a2
  let a6 := g.mul a4 a2
  let a8 := g.mul a6 a2
  let u := g.mul a (g.add (g.add (g.add (g.add (g.smul (coef b 9) a8) (g.smul (coef b 7) a6)) (g.smul (coef b 5) a4))
            (g.smul (coef b 3) a2)) (g.smul (coef b 1) g.one))
  let v := g.add (g.add (g.add (g.add (g.smul (coef b 8) a8) (g.smul (coef b 6) a6)) (g.smul (coef b 4) a4))
            (g.smul (coef b 2) a2)) (g.smul (coef b 0) g.one)
  (u, v)

def padeUV13 (b : List Int) (a : π) : π × π :=
  let a2 := g.mul a a
  let a4 := g.mul a2 a2
  let a6 := g.mul a4 a2
  let u := g.mul a
    (g.add (g.add (g.add (g.add
      (g.mul a6 (g.add (g.add (g.smul (coef b 13) a6) (g.smul (coef b 11) a4)) (g.smul (coef b 9) a2)))
      (g.smul (coef b 7) a6)) (g.smul (coef b 5) a4)) (g.smul (coef b 3) a2)) (g.smul (coef b 1) g.one))
  let v :=
    g.add (g.add (g.add (g.add
      (g.mul a6 (g.add (g.add (g.smul (coef b 12) a6) (g.smul (coef b 10) a4)) (g.smul (coef b 8) a2)))
      (g.smul (coef b 6) a6)) (g.smul (coef b 4) a4)) (g.smul (coef b 2) a2)) (g.smul (coef b 0) g.one)
  (u, v)

def padeUV (q : Nat) (b : List Int) (a : π) : Option (π × π) :=
  if q = 3 then some (padeUV3 g b a) else if q = 5 then some (padeUV5 g b a)
  else if q = 7 then some (padeUV7 g b a) else if q = 9 then some (padeUV9 g b a)
  else if q = 13 then some (padeUV13 g b a) else none

/-! ### Legendre right-hand sides `Ls` (before the `1/sqrt(norm)` scaling and the solve) -/

/-- `Ls.append(l_i); Ls.append(l_o)` over `zip(L_even, L_odd)` -/
def interleave : List β → List β → List β
  | e :: es, o :: os => e :: o :: interleave es os
  | _, _ => []

/-- order 3 (no loop):
`L_even = [P@B*C[0,2] + B*C[0,0], P@B*C[2,2]]`, `L_odd = [A@B*C[1,1], A@P@B*C[3,3]]`, `P = A2` -/
def rows3 (C : List (List Int)) (a : π) (bB : β) : List β :=
  let a2 := g.mul a a
  let p := a2
  let pb := g.app p bB
  let ev := [g.addB (g.smulB (tab C 0 2) pb) (g.smulB (tab C 0 0) bB), g.smulB (tab C 2 2) pb]
  let od := [g.smulB (tab C 1 1) (g.app a bB), g.smulB (tab C 3 3) (g.app (g.mul a p) bB)]
  interleave ev od

/-- `[ell + P @ B * C[2*i + par, 2*k + par] for i, ell in enumerate(L)]` (`par = 0`: even list, `1`: odd list),
`i` counted from `i0` -/
def bump (C : List (List Int)) (par k : Nat) (pb : β) : Nat → List β → List β
  | _, [] => []
  | i, ell :: r => g.addB ell (g.smulB (tab C (2*i+par) (2*k+par)) pb) :: bump C par k pb (i+1) r

/-- the `for k in ks:` loop; `adv` says whether the body contains `P = A2 @ P` -/
def rowsLoop (C : List (List Int)) (adv : Bool) (a2 : π) (bB : β) : List Nat → π → List β → List β → List β × List β
  | [], _, ev, od => (ev, od)
  | k :: ks, p, ev, od =>
    let p' := if adv then g.mul a2 p else p
    let pb := g.app p' bB
    rowsLoop C adv a2 bB ks p' (bump g C 0 k pb 0 ev) (bump g C 1 k pb 0 od)

/-- orders 5, 7, 9, 13 (`m = (q+1)/2` entries per list):
`L_even = [P@B*C[0,2] + B*C[0,0], P@B*C[2,2], zeros, …]`, `L_odd = [P@B*C[1,3] + B*C[1,1], P@B*C[3,3], zeros, …]`,
the loop, then `L_odd = [A @ ell for ell in L_odd]`, interleaved -/
def rowsGen (C : List (List Int)) (m : Nat) (ks : List Nat) (adv : Bool) (a : π) (bB : β) : List β :=
  let a2 := g.mul a a
  let p := a2
  let pb := g.app p bB
  let ev := g.addB (g.smulB (tab C 0 2) pb) (g.smulB (tab C 0 0) bB) :: g.smulB (tab C 2 2) pb :: List.replicate (m - 2) g.zeroB
  let od := g.addB (g.smulB (tab C 1 3) pb) (g.smulB (tab C 1 1) bB) :: g.smulB (tab C 3 3) pb :: List.replicate (m - 2) g.zeroB
  let r := rowsLoop g C adv a2 bB ks p ev od
  interleave r.1 (r.2.map (g.app a))

def rows (q : Nat) (C : List (List Int)) (ks : List Nat) (adv : Bool) (a : π) (bB : β) : Option (List β) :=
  if q = 3 then some (rows3 g C a bB)
  else if q = 5 ∨ q = 7 ∨ q = 9 ∨ q = 13 then some (rowsGen g C ((q + 1) / 2) ks adv a bB)
  else none

end generic

/-! ### instance 1: polynomials in the symbol `A` with integer coefficients (coefficient lists, lowest first) -/

def addL : List Int → List Int → List Int
  | [], r => r
  | p, [] => p
  | c :: p, d :: r => (c + d) :: addL p r

def smulL (c : Int) (p : List Int) : List Int := p.map (c * ·)

def mulL : List Int → List Int → List Int
  | [], _ => []
  | c :: p, r => addL (smulL c r) (0 :: mulL p r)

/-- remove trailing zeros -/
def dropZ (p : List Int) : List Int := p.foldr (fun c acc => if acc = [] ∧ c = 0 then [] else c :: acc) []

def polyAlg : Alg (List Int) (List Int) :=
  { one := [1], mul := mulL, add := addL, smul := smulL, app := mulL, addB := addL, smulB := smulL, zeroB := [] }

/-- the symbol `A` -/
def symA : List Int := [0, 1]
/-- the symbol `B` (polynomial `1`, so that `p(A) @ B ↦ p`) -/
def symB : List Int := [1]

/-- coefficients of `(-z)`-substitution: `D(z) = Σ b_j (-z)^j` -/
def altSigns : List Int → List Int
  | [] => []
  | c :: p => c :: (altSigns p).map (fun x => -x)

/-! ### instance 2: matrices (the driver instantiates `α := Rat`) -/

section mat
variable {α : Type} [Add α] [Mul α] [Sub α] [Neg α] [Zero α] [One α] [Div α] [IntCast α] [NatCast α]

/-- Boxed matrix.  `Mat` is a one-field structure of function type, which the compiler represents by the function
itself; a record field of type `Mat → Mat → Mat` would then be compiled as a 4-ary function and lose the sharing
provided by `Mat.ofFn` (every entry access would recompute the whole operand: exponential in the nesting depth).
The extra field forces a real constructor whose argument is evaluated once.  Purely a run-time matter: `.m` is the matrix. -/
structure BMat (n m : Nat) (α : Type) where
  m : Mat n m α
  tag : Nat

def box {n m : Nat} (X : Mat n m α) : BMat n m α := ⟨X, 0⟩

def matAlg (n m : Nat) : Alg (BMat n n α) (BMat n m α) :=
  { one := box Mat.one, mul := fun X Y => box (Mat.mul X.m Y.m), add := fun X Y => box (Mat.add X.m Y.m),
    smul := fun c X => box (Mat.smul (c : α) X.m),
    app := fun X L => box (Mat.mul X.m L.m), addB := fun X Y => box (Mat.add X.m Y.m),
    smulB := fun c X => box (Mat.smul (c : α) X.m), zeroB := box Mat.zero }

/-- `Σ_i (1/norm_i) (W L_i)(W L_i)ᵀ`: the Gram matrix of `solve(V-U, concat(Ls_i / sqrt(norm_i)))`, `W = (V-U)⁻¹` -/
def gramRows {n m : Nat} (W : Mat n n α) : List (Mat n m α) → List Int → Mat n n α
  | L :: Ls, nu :: norms =>
    let X := W.mul L
    (Mat.smul (1 / (nu : α)) (X.mul X.tr)).add (gramRows W Ls norms)
  | _, _ => Mat.zero

/-- result of `init(A, B)`: the denominator `V - U` (to be inverted by the caller), and, given a certified inverse
`W` of it, `eA = W (V + U)` and the Gram matrix of the returned factor -/
structure InitParts (n m : Nat) (α : Type) where
  den : Mat n n α      -- V - U
  num : Mat n n α      -- V + U
  ls : List (Mat n m α)

def initParts {n m : Nat} (q : Nat) (b : List Int) (C : List (List Int)) (ks : List Nat) (adv : Bool)
    (A : Mat n n α) (B : Mat n m α) : Option (InitParts n m α) :=
  match padeUV (matAlg n n) q b (box A), rows (matAlg n m) q C ks adv (box A) (box B) with
  | some (u, v), some ls => some { den := v.m.sub u.m, num := v.m.add u.m, ls := ls.map (·.m) }
  | _, _ => none

def initWith {n m : Nat} (p : InitParts n m α) (norms : List Int) (W : Mat n n α) : Mat n n α × Mat n n α :=
  (W.mul p.num, gramRows W p.ls norms)


/-! ### the same parts straight from the tables (independent of how `init` assembles them)

`D_q(A) = Σ b_j (-A)^j`, `N_q(A) = Σ b_j A^j`, rows `(Σ_k C[i,k] A^k) B` by Horner's rule.  By the theorems
`init_spec_q` this coincides with `initParts` **iff** the code's assembly (k-loop, `P` updates) is right; the
correspondence check compares the implementation with both, so that a wrong assembly yields a concrete failing input. -/

def polyEvalMat {n : Nat} (p : List Int) (A : Mat n n α) : Mat n n α :=
  p.foldr (fun (c : Int) (acc : Mat n n α) => (Mat.smul ((c : Int) : α) Mat.one).add (A.mul acc)) Mat.zero

def initPartsTable {n m : Nat} (b : List Int) (C : List (List Int)) (A : Mat n n α) (B : Mat n m α) : InitParts n m α :=
  { den := polyEvalMat (altSigns b) A, num := polyEvalMat b A, ls := C.map fun row => (polyEvalMat row A).mul B }

/-- `_exp_gram_cholesky_double` at the Gram level: `U ← chol([U, eA U][U, eA U]ᵀ) = G + E G Eᵀ`, `eA ← eA @ eA` -/
def double {n : Nat} (EG : Mat n n α × Mat n n α) : Mat n n α × Mat n n α :=
  (EG.1.mul EG.1, EG.2.add ((EG.1.mul EG.2).mul EG.1.tr))

def iterDouble {n : Nat} : Nat → Mat n n α × Mat n n α → Mat n n α × Mat n n α
  | 0, x => x
  | s+1, x => iterDouble s (double x)

end mat

/-! ### number of doublings -/

section num
variable {α : Type} [Add α] [Mul α] [Neg α] [Zero α] [One α] [NatCast α] [LT α] [DecidableLT α] [LE α] [DecidableLE α]

def absA (x : α) : α := if x < 0 then -x else x
def maxA (x y : α) : α := if x < y then y else x

/-- `linalg.matrix_norm(A, order=1)`: maximal absolute column sum -/
def norm1 {n : Nat} (A : Mat n n α) : α :=
  ((List.finRange n).map fun j => ((List.finRange n).map fun i => absA (A.get i j)).foldl (· + ·) 0).foldl maxA 0

def pow2 : Nat → α
  | 0 => 1
  | s+1 => pow2 s * ((2 : Nat) : α)

/-- `num = max(0, ceil(max(log2(‖A‖₁/η), log2((n-1)/q))))` without logarithms: the least `s ≥ 0` with
`‖A‖₁ ≤ η 2^s` and `n - 1 ≤ q 2^s` (since `ceil(log2 x) ≤ s ⟺ x ≤ 2^s`).  Search from `s0` with fuel. -/
def numDoublingsFrom (eta normA : α) (n q : Nat) : Nat → Nat → Option Nat
  | 0, _ => none
  | fuel+1, s =>
    if normA ≤ eta * pow2 s ∧ ((n - 1 : Nat) : α) ≤ ((q : Nat) : α) * pow2 s then some s
    else numDoublingsFrom eta normA n q fuel (s + 1)

def numDoublings (eta normA : α) (n q : Nat) (fuel : Nat) : Option Nat := numDoublingsFrom eta normA n q fuel 0

end num

/-! ### the whole of `exp_gram_cholesky` and `DenseExponential.transition` (covariance form) -/

section pipeline
variable {α : Type} [Add α] [Mul α] [Sub α] [Neg α] [Zero α] [One α] [Div α] [IntCast α] [NatCast α]

/-- `A / 2**num` (the `B / sqrt(2**num)` is accounted for in `expGramWith`) -/
def scaleA {n : Nat} (s : Nat) (A : Mat n n α) : Mat n n α := Mat.smul (1 / pow2 s) A

/-- `init` on the scaled inputs (parts `p`, certified inverse `W` of its denominator), then `s` doublings -/
def expGramWith {n m : Nat} (s : Nat) (p : InitParts n m α) (norms : List Int) (W : Mat n n α) :
    Mat n n α × Mat n n α :=
  let eg := initWith p norms W
  iterDouble s (eg.1, Mat.smul (1 / pow2 s) eg.2)

/-- inputs of `exp_gram` in `DenseExponential.transition` for `dt = h > 0`:
`A_p = dt * p_inv[:, None] * A * p[None, :]`, and `B_p / sqrt(dt) = p_inv[:, None] * B`; `p` repeated `d` times -/
def precondDrift (q d : Nat) (h : α) (A : Mat ((q+1)*d) ((q+1)*d) α) (B : Mat ((q+1)*d) d α) :
    Mat ((q+1)*d) ((q+1)*d) α × Mat ((q+1)*d) d α × Vec ((q+1)*d) α × Vec ((q+1)*d) α :=
  let pp := Iwp.precon q h
  let getV (v : Vec (q+1) α) (i : Nat) : α := if h1 : i < q+1 then v.get ⟨i,h1⟩ else 0
  let p : Vec ((q+1)*d) α := Vec.ofFn fun x => getV pp.1 (x.val / d)
  let pinv : Vec ((q+1)*d) α := Vec.ofFn fun x => getV pp.2 (x.val / d)
  (Mat.smul h ((Mat.rowScale pinv A).colScale p), Mat.rowScale pinv B, pinv, p)

/-- the conditional returned by `DenseExponential.transition(dt=h, output_scale)`, `s2 = output_scale²`, given the
pair `(E, G)` computed by `exp_gram` on `(A_p, B_p/sqrt(h))`: noise covariance `s2 · h · G` -/
def expTransition (q d : Nat) (h s2 : α) (E G : Mat ((q+1)*d) ((q+1)*d) α) (pinv p : Vec ((q+1)*d) α) :
    PCond ((q+1)*d) ((q+1)*d) α :=
  { A := E, b := Vec.zero, Q := Mat.smul (s2 * h) G, tl := pinv, tob := p }

end pipeline

/-! ### drift and dispersion of the exponential priors (`prior_exponential_diffuse`, OU, Matérn) -/

section drift
variable {α : Type} [Add α] [Mul α] [Sub α] [Neg α] [Zero α] [One α] [NatCast α]

/-- `A = kron(diag(ones(q), k=1), eye(d)); A[-d:, :] = bottom_block` (coefficient-major index `i·d + a`) -/
def driftOf (q d : Nat) (bottom : Mat d ((q+1)*d) α) : Mat ((q+1)*d) ((q+1)*d) α :=
  Mat.ofFn fun x y =>
    if x.val / d < q then (if y.val = x.val + d then 1 else 0)
    else if h : x.val % d < d then bottom.get ⟨x.val % d, h⟩ y else 0

/-- `B = kron(e_q, Lambda)`, `Lambda = diag(base scales)` -/
def dispersionOf (q d : Nat) (lam : Vec d α) : Mat ((q+1)*d) d α :=
  Mat.ofFn fun x b => if x.val / d = q ∧ x.val % d = b.val then lam.get b else 0

/-- Jacobian of `jet_coords ↦ linop(jet_coords[-1])`: `[0 … 0 | L]` -/
def ouBottom (q d : Nat) (L : Mat d d α) : Mat d ((q+1)*d) α :=
  Mat.ofFn fun a y => if y.val / d = q then (if h : y.val % d < d then L.get a ⟨y.val % d, h⟩ else 0) else 0

def powA (x : α) : Nat → α
  | 0 => 1
  | k+1 => powA x k * x

def chooseA : Nat → Nat → Nat
  | _, 0 => 1
  | 0, _+1 => 0
  | n+1, k+1 => chooseA n k + chooseA n (k+1)

/-- Jacobian of `jet_coords ↦ -Σ_i comb(D, i) z^(D-i) jet_coords[i]`, `D = q+1` coefficients, `z = sqrt(2(D-1/2))/ℓ`
(passed in: square roots stay outside the model) -/
def maternBottom (q d : Nat) (z : α) : Mat d ((q+1)*d) α :=
  Mat.ofFn fun a y => if y.val % d = a.val then - (((chooseA (q+1) (y.val / d) : Nat) : α) * powA z (q + 1 - y.val / d)) else 0

end drift

end Pdq.ExpGram
