/-!
# Pdq.Model.BatchedWhile — `lax.while_loop`, `lax.cond`, `lax.scan` and what `vmap` makes of them

`whileLoop cond body fuel s` is `lax.while_loop(cond, body, s)` with a fuel bound (total; the real loop has no
bound — "given enough fuel" in the theorems is the termination hypothesis).

`batchedWhile` is the *documented* batching rule of `lax.while_loop` under `jax.vmap` when the predicate is
batched (taken as the definition, not verified against the JAX sources): the loop runs while **any** lane's
predicate holds; the body is evaluated on **all** lanes; a lane whose predicate is false keeps its carry
through `select(pred, new, old)`.  `batchedCond` is the rule for `lax.cond` / `lax.switch` with a batched
predicate: **both** branches are evaluated on every lane and the result is chosen by `select`.

A lane is a state that carries its own constants (tolerances, checkpoints), so `cond`/`body` are the same
functions for all lanes.

`scanL` is `lax.scan`; `saveAt` the stacking done by `solve_adaptive_save_at` + `userfriendly_output`.
-/
namespace Pdq.Batched

section
variable {σ : Type}

/-- `lax.while_loop(cond, body, s)` with fuel -/
def whileLoop (cond : σ → Bool) (body : σ → σ) : Nat → σ → σ
  | 0, s => s
  | fuel + 1, s => if cond s then whileLoop cond body fuel (body s) else s

/-- number of iterations the un-batched loop performs (within the fuel) -/
def whileIters (cond : σ → Bool) (body : σ → σ) : Nat → σ → Nat
  | 0, _ => 0
  | fuel + 1, s => if cond s then whileIters cond body fuel (body s) + 1 else 0

/-- `select(pred, on_true, on_false)`, lane-wise -/
def select (p : Bool) (x y : σ) : σ := if p then x else y

/-- one iteration of the batched loop: body on all lanes, masked by the lane predicates -/
def batchedStep (cond : σ → Bool) (body : σ → σ) (lanes : List σ) : List σ :=
  lanes.map fun s => select (cond s) (body s) s

/-- `vmap(while_loop)`: iterate while any lane's predicate holds -/
def batchedWhile (cond : σ → Bool) (body : σ → σ) : Nat → List σ → List σ
  | 0, lanes => lanes
  | fuel + 1, lanes =>
    if lanes.any cond then batchedWhile cond body fuel (batchedStep cond body lanes) else lanes

/-- number of iterations of the batched loop -/
def batchedIters (cond : σ → Bool) (body : σ → σ) : Nat → List σ → Nat
  | 0, _ => 0
  | fuel + 1, lanes =>
    if lanes.any cond then batchedIters cond body fuel (batchedStep cond body lanes) + 1 else 0

/-- the same with an arbitrary *batched body* (e.g. one that itself contains a batched inner loop):
`bodyB` acts on all lanes at once; masking as above -/
def batchedWhileG (cond : σ → Bool) (bodyB : List σ → List σ) : Nat → List σ → List σ
  | 0, lanes => lanes
  | fuel + 1, lanes =>
    if lanes.any cond then
      batchedWhileG cond bodyB fuel
        (List.zipWith (fun s new => select (cond s) new s) lanes (bodyB lanes))
    else lanes

end

section
variable {σ τ : Type}

/-- `lax.cond(p, f, g, s)` -/
def condOp (p : σ → Bool) (f g : σ → τ) (s : σ) : τ := if p s then f s else g s

/-- `vmap(lax.cond)` with a batched predicate: both branches on every lane, then `select` -/
def batchedCond (p : σ → Bool) (f g : σ → τ) (lanes : List σ) : List τ :=
  let ft := lanes.map f
  let gt := lanes.map g
  List.zipWith (fun s (fg : τ × τ) => select (p s) fg.1 fg.2) lanes (List.zip ft gt)

/-- `lax.switch(idx, branches, s)` (index clamped into range as `lax.switch` does) -/
def switchOp (idx : σ → Nat) (branches : List (σ → τ)) (dflt : σ → τ) (s : σ) : τ :=
  (branches.getD (min (idx s) (branches.length - 1)) dflt) s

/-- `vmap(lax.switch)` with a batched index: every branch on every lane, then selection by index -/
def batchedSwitch (idx : σ → Nat) (branches : List (σ → τ)) (dflt : σ → τ) (lanes : List σ) : List τ :=
  let all : List (List τ) := branches.map fun br => lanes.map br
  (List.range lanes.length).zipWith (fun l s =>
      ((all.getD (min (idx s) (branches.length - 1)) []).getD l (dflt s))) lanes

end

section
variable {σ β γ : Type}

/-- `lax.scan(f, init, xs)`: final carry and the stacked outputs -/
def scanL (f : σ → β → σ × γ) : σ → List β → σ × List γ
  | s, [] => (s, [])
  | s, x :: xs => let r := f s x; let rest := scanL f r.1 xs; (rest.1, r.2 :: rest.2)

/-- `solve_adaptive_save_at`: scan `advance` over `save_at[1:]`, then `userfriendly_output` puts the initial
solution in front (`ts = concatenate([solution0.t[None], solution.t])`, likewise the marginals) -/
def saveAt (advance : σ → β → σ × γ) (init : σ) (sol0 : γ) (saveAtGrid : List β) : List γ :=
  sol0 :: (scanL advance init saveAtGrid.tail).2

/-- `solve_fixed_grid`: scan `step` over `diff(grid)`, initial state in front -/
def fixedGrid (step : σ → β → σ × γ) (init : σ) (sol0 : γ) (dts : List β) : List γ :=
  sol0 :: (scanL step init dts).2

end

end Pdq.Batched
