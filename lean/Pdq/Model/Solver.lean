import Pdq.Model.Gauss
/-!
# Pdq.Model.Solver — strategies (filter / fixed-interval / fixed-point) and solver steps, covariance form

Transcribes, at the level of one *dense slice* (see DESIGN §2.2; isotropic / block-diagonal states are
collections of such slices with a shared / own covariance):

* `estimators_and_losses.py`: `strategy_filter.predict`, `strategy_smoother_fixedinterval.predict`,
  `strategy_smoother_fixedpoint.predict` (`bw0.merge(cond)`), `apply_updates`, `init_posterior`,
  `MarkovSequence.evaluate_marginals`, `Smoother.finalize`, `rescale_cholesky`;
* `ssm_impl_api.py`: `bayes_rule_tree` (revert, then apply the backward kernel to the datum 0),
  `bayes_rule_and_residual_whitened_rms_tree`;
* `solvers.py`: `solver.step`, `solver_mle.step` (running mean of squared whitened residuals),
  `solver_dynamic.step` (mean-only prediction → local scale → re-discretisation).

The transition is an argument (any `PCond`; `Pdq.Model.Iwp` provides the shipped one), the
linearisation is an argument `lin : Vec n α → Cond k n α` (what `constraint.linearize` returns for the
predicted mean), and every linear solve is a certificate argument.
-/
namespace Pdq

inductive Strategy where
  | filter | fixedInterval | fixedPoint
  deriving DecidableEq, Repr

/-- `u` : current marginal; `bw` : backward conditional carried by the smoothers
(`MarkovSequence.conditional`); the filter ignores it. -/
structure SolState (n : Nat) (α : Type) where
  u : Gauss n α
  bw : PCond n n α

section
variable {α : Type} [Add α] [Mul α] [Sub α] [Neg α] [Zero α] [One α] [Div α]

/-- `identity_conditional` -/
def PCond.identity (n : Nat) : PCond n n α :=
  { A := Mat.one, b := Vec.zero, Q := Mat.zero, tl := Vec.ones, tob := Vec.ones }

/-- `init_posterior` -/
def SolState.init {n} (u : Gauss n α) : SolState n α := { u := u, bw := PCond.identity n }

/-- `strategy.predict(posterior, transition)`; `Gt` is the gain certificate of the reversal (unused by the filter) -/
def Strategy.predict {n} (s : Strategy) (tr : PCond n n α) (st : SolState n α) (Gt : Mat n n α) : SolState n α :=
  match s with
  | .filter => { u := tr.marg st.u, bw := st.bw }
  | .fixedInterval => let r := tr.revertWith st.u Gt; { u := r.1, bw := r.2 }
  | .fixedPoint => let r := tr.revertWith st.u Gt; { u := r.1, bw := st.bw.merge r.2 }

/-- `bayes_rule_tree(zeros, rv)`: condition `rv` on `c(x) = 0`; `Gu` certificate with `Gu S = P Hᵀ` -/
def Cond.bayesZero {k n} (c : Cond k n α) (rv : Gauss n α) (Gu : Mat n k α) : Gauss n α :=
  (c.revertWith rv Gu).2.applyPt Vec.zero

/-- `apply_updates` -/
def SolState.update {n} (pred : SolState n α) (post : Gauss n α) : SolState n α := { u := post, bw := pred.bw }

/-- squared whitened residual of the datum `0`: `oᵀ S⁻¹ o` for `o = H m + b`, `W` a certified inverse of `S`
(not yet divided by the size) -/
def Cond.whitenedSq {k n} (c : Cond k n α) (rv : Gauss n α) (W : Mat k k α) : α :=
  (c.marg rv).maha W Vec.zero

/-- `solver.step` (and the state part of `solver_mle.step`): predict with the given transition, linearise at
the predicted mean, update. -/
def Solver.step {k n} (s : Strategy) (tr : PCond n n α) (lin : Vec n α → Cond k n α)
    (st : SolState n α) (Gt : Mat n n α) (Gu : Mat n k α) : SolState n α :=
  let pred := s.predict tr st Gt
  let c := lin pred.u.mean
  pred.update (c.bayesZero pred.u Gu)

/-- the new term of the MLE calibration in `solver_mle.step`: squared whitened residual of the prediction -/
def Solver.mleTerm {k n} (s : Strategy) (tr : PCond n n α) (lin : Vec n α → Cond k n α)
    (st : SolState n α) (Gt : Mat n n α) (W : Mat k k α) : α :=
  let pred := s.predict tr st Gt
  (lin pred.u.mean).whitenedSq pred.u W

/-- running update of the squared MLE scale: `hypot(√(n/(n+1)) a, √(1/(n+1)) b)² = (n a² + b²)/(n+1)` -/
def Solver.mleRunning (a2 : α) (num : α) (b2 : α) : α := (num * a2 + b2) / (num + 1)

/-- `solver_dynamic.step`, calibration part: mean-only prediction through the unit-scale transition `tr1`,
linearisation there, squared whitened residual of `0` (not yet divided by the size) -/
def Solver.dynamicSq {k n} (tr1 : PCond n n α) (lin : Vec n α → Cond k n α)
    (st : SolState n α) (W : Mat k k α) : α :=
  let up := tr1.applyPt st.u.mean
  (lin up.mean).whitenedSq up W

/-- `solver_dynamic.step` for one slice, given the calibrated transition `trS` (the caller builds it from the
scale returned by `dynamicSq`); `relin = false` keeps the linearisation made at the mean-only prediction,
which has the same mean as the full prediction. -/
def Solver.stepDynamic {k n} (s : Strategy) (tr1 trS : PCond n n α) (lin : Vec n α → Cond k n α)
    (relin : Bool) (st : SolState n α) (Gt : Mat n n α) (Gu : Mat n k α) : SolState n α :=
  let up := tr1.applyPt st.u.mean
  let c0 := lin up.mean
  let pred := s.predict trS st Gt
  let c := if relin then lin pred.u.mean else c0
  pred.update (c.bayesZero pred.u Gu)

/-! ### finalisation -/

/-- `MarkovSequence.rescale_cholesky` on one backward conditional -/
def PCond.rescaleNoise {m n} (c : PCond m n α) (f : α) : PCond m n α :=
  { c with Q := Mat.smul (f * f) c.Q }

/-- `evaluate_marginals` (reverse = True): from the terminal marginal through the stored backward
conditionals `bws = [bw_{N-1→…}, …]` listed from the last to the first; returns the marginals in the same
(backward) order, terminal first. -/
def evalMarginals {n} (term : Gauss n α) : List (PCond n n α) → List (Gauss n α)
  | [] => [term]
  | bw :: rest => term :: evalMarginals (bw.marg term) rest

/-- `Smoother.finalize`: calibrate, seed the backward pass with `posterior1.conditional.marginalise(posterior1.marginal)`,
marginalise backwards. `bws` are the backward conditionals of the saved states, last first. -/
def smootherFinalize {n} (scale : α) (post1 : SolState n α) (bws : List (PCond n n α)) : List (Gauss n α) :=
  let p1m := post1.u.rescale scale
  let p1c := post1.bw.rescaleNoise scale
  let rvT := p1c.marg p1m
  evalMarginals rvT (bws.map fun c => c.rescaleNoise scale)

/-- `interpolate_fwd_at_t1(...).step_from`: the state from which stepping resumes after a step that ended
exactly at a checkpoint / at the final grid point.  Smoothers reset the backward model to the identity
(fixed-point: always; fixed-interval: since repository fix for D1), the filter keeps its marginal. -/
def Strategy.atT1 {n} (s : Strategy) (st : SolState n α) : SolState n α :=
  match s with
  | .filter => st
  | _ => { u := st.u, bw := PCond.identity n }

/-- `solve_fixed_grid` + `Smoother.finalize` for a smoother: `states` are the saved states in time order
(after each step), all marginals (smoothed) are returned in time order, initial one first. -/
def solveFixedGridSmoothed {n} (s : Strategy) (scale : α) (states : List (SolState n α)) (last : SolState n α) :
    List (Gauss n α) :=
  (smootherFinalize scale (s.atT1 last) (states.reverse.map (·.bw))).reverse

end
end Pdq
