import Pdq.Model.LinAlg
/-!
# Pdq.Model.Gauss — Gaussians and (preconditioned) affine-Gaussian conditionals, covariance form

Layer 0 of DESIGN §2.2.  `PCond` transcribes `probdiffeq/_probdiffeq/ssm_impl_dense.py`
(`DenseLatentCond`: `apply_flat`, `marginalise`, `merge`, `revert`, `preconditioner_apply`)
with every Cholesky factor `L` replaced by the covariance `L Lᵀ` it represents.  The diagonal
scalings `to_latent`, `to_observed` are kept as they are in the code.

Linear solves are never performed here: the gain of `revert` is a *certificate* argument that
is checked (`Cond.gainOk`) by whoever executes the model.
-/
namespace Pdq

structure Gauss (n : Nat) (α : Type) where
  mean : Vec n α
  cov : Mat n n α

/-- `y | x ~ N(A x + b, Q)` -/
structure Cond (m n : Nat) (α : Type) where
  A : Mat m n α
  b : Vec m α
  Q : Mat m m α

/-- `y | x ~ N(T_o (A (T_l x) + b), T_o Q T_o)` as in `AbstractLatentCond(A, noise, to_latent, to_observed)` -/
structure PCond (m n : Nat) (α : Type) where
  A : Mat m n α
  b : Vec m α
  Q : Mat m m α
  tl : Vec n α
  tob : Vec m α

section
variable {α : Type} [Add α] [Mul α] [Sub α] [Neg α] [Zero α] [One α]

/-! ### plain conditionals (the dense textbook formulas) -/

/-- apply to a point -/
def Cond.applyPt {m n} (c : Cond m n α) (x : Vec n α) : Gauss m α :=
  { mean := (c.A.mulVec x).add c.b, cov := c.Q }

def Cond.marg {m n} (c : Cond m n α) (g : Gauss n α) : Gauss m α :=
  { mean := (c.A.mulVec g.mean).add c.b
    cov := ((c.A.mul g.cov).mul c.A.tr).add c.Q }

/-- composition: `c2 ∘ c1` (first `c1 : x ↦ y`, then `c2 : y ↦ z`) -/
def Cond.merge {k m n} (c2 : Cond k m α) (c1 : Cond m n α) : Cond k n α :=
  { A := c2.A.mul c1.A
    b := (c2.A.mulVec c1.b).add c2.b
    Q := ((c2.A.mul c1.Q).mul c2.A.tr).add c2.Q }

/-- cross-covariance `Cov(x, y) = P Aᵀ` -/
def Cond.cross {m n} (c : Cond m n α) (g : Gauss n α) : Mat n m α := g.cov.mul c.A.tr

/-- backward conditional given a gain certificate `G` (should satisfy `G S = P Aᵀ`) -/
def Cond.revertWith {m n} (c : Cond m n α) (g : Gauss n α) (G : Mat n m α) : Gauss m α × Cond n m α :=
  let obs := c.marg g
  (obs, { A := G, b := g.mean.sub (G.mulVec obs.mean), Q := g.cov.sub ((G.mul obs.cov).mul G.tr) })

/-- joint law of `(x, y)`, `x ~ g`, `y | x ~ c`: mean of x, mean of y, Cov x, Cov(x,y), Cov y -/
structure Joint (n m : Nat) (α : Type) where
  mx : Vec n α
  my : Vec m α
  cxx : Mat n n α
  cxy : Mat n m α
  cyy : Mat m m α

def Cond.joint {m n} (c : Cond m n α) (g : Gauss n α) : Joint n m α :=
  let o := c.marg g
  { mx := g.mean, my := o.mean, cxx := g.cov, cxy := c.cross g, cyy := o.cov }

/-- the same joint law, parametrised backwards: `y ~ o`, `x | y ~ bw` -/
def Cond.jointRev {m n} (bw : Cond n m α) (o : Gauss m α) : Joint n m α :=
  let x := bw.marg o
  { mx := x.mean, my := o.mean, cxx := x.cov, cxy := (bw.cross o).tr, cyy := o.cov }

/-! ### preconditioned conditionals: line-by-line covariance-form transcription of `DenseLatentCond` -/

/-- `preconditioner_apply`: absorb the scalings -/
def PCond.den {m n} (c : PCond m n α) : Cond m n α :=
  { A := (Mat.rowScale c.tob c.A).colScale c.tl
    b := c.tob.hmul c.b
    Q := Mat.congrScale c.tob c.Q }

def Cond.toP {m n} (c : Cond m n α) : PCond m n α :=
  { A := c.A, b := c.b, Q := c.Q, tl := Vec.ones, tob := Vec.ones }

/-- `apply_flat` -/
def PCond.applyPt {m n} (c : PCond m n α) (x : Vec n α) : Gauss m α :=
  let x' := c.tl.hmul x
  { mean := c.tob.hmul ((c.A.mulVec x').add c.b)
    cov := Mat.congrScale c.tob c.Q }

/-- `marginalise` -/
def PCond.marg {m n} (c : PCond m n α) (g : Gauss n α) : Gauss m α :=
  let mean := c.tl.hmul g.mean
  let cov := Mat.congrScale c.tl g.cov
  let covNew := ((c.A.mul cov).mul c.A.tr).add c.Q
  { mean := c.tob.hmul ((c.A.mulVec mean).add c.b)
    cov := Mat.congrScale c.tob covNew }

/-- `merge`: `self = c2` (outer), `other = c1` (inner) -/
def PCond.merge {k m n} (c2 : PCond k m α) (c1 : PCond m n α) : PCond k n α :=
  let T := c2.tl.hmul c1.tob
  { A := c2.A.mul (Mat.rowScale T c1.A)
    b := (c2.A.mulVec (T.hmul c1.b)).add c2.b
    Q := ((c2.A.mul (Mat.congrScale T c1.Q)).mul c2.A.tr).add c2.Q
    tl := c1.tl
    tob := c2.tob }

/-- the inner (preconditioned) Gaussian and innovation that `revert` works with -/
def PCond.inner {m n} (c : PCond m n α) (g : Gauss n α) : Gauss n α :=
  { mean := c.tl.hmul g.mean, cov := Mat.congrScale c.tl g.cov }

def PCond.core {m n} (c : PCond m n α) : Cond m n α := { A := c.A, b := c.b, Q := c.Q }

end

section
variable {α : Type} [Add α] [Mul α] [Sub α] [Neg α] [Zero α] [One α] [Div α]

/-- `revert` with a gain certificate for the *inner* problem: `G (A P' Aᵀ + Q) = P' Aᵀ`.
Returns the observed marginal and the backward conditional (with reciprocal scalings, as the code). -/
def PCond.revertWith {m n} (c : PCond m n α) (g : Gauss n α) (G : Mat n m α) : Gauss m α × PCond n m α :=
  let gi := c.inner g
  let r := c.core.revertWith gi G
  let obs := r.1
  ( { mean := c.tob.hmul obs.mean, cov := Mat.congrScale c.tob obs.cov },
    { A := r.2.A, b := r.2.b, Q := r.2.Q, tl := c.tob.inv, tob := c.tl.inv } )

end

section
variable {α : Type} [Add α] [Mul α] [Sub α] [Neg α] [Zero α] [One α] [DecidableEq α]

/-- the certificate check: `G S = P Aᵀ` -/
def Cond.gainOk {m n} (c : Cond m n α) (g : Gauss n α) (G : Mat n m α) : Bool :=
  (G.mul (c.marg g).cov).beq (c.cross g)

/-- certificate check for an inverse: `S W = 1` -/
def Mat.invOk {n} (S W : Mat n n α) : Bool := (S.mul W).beq Mat.one

/-- `Z = S⁺` (Moore–Penrose), the four Penrose conditions, exactly -/
def Mat.pinvOk {n} (S Z : Mat n n α) : Bool :=
  ((S.mul Z).mul S).beq S && ((Z.mul S).mul Z).beq Z && (S.mul Z).beq (S.mul Z).tr && (Z.mul S).beq (Z.mul S).tr

end

section
variable {α : Type} [Add α] [Mul α] [Sub α] [Neg α] [Zero α] [One α]

/-! ### Gaussian functionals (`DenseNormal`) in root-free form -/

/-- squared standard deviations: `diag(L Lᵀ)` -/
def Gauss.var {n} (g : Gauss n α) : Vec n α := g.cov.diagVec

/-- `rescale_cholesky(c)`: covariance times `c²` -/
def Gauss.rescale {n} (g : Gauss n α) (c : α) : Gauss n α :=
  { mean := g.mean, cov := Mat.smul (c * c) g.cov }

/-- Mahalanobis form `(u-m)ᵀ W (u-m)` with `W` a certified inverse of the covariance -/
def Gauss.maha {n} (g : Gauss n α) (W : Mat n n α) (u : Vec n α) : α :=
  let r := u.sub g.mean
  Mat.bilin r W r

/-- product of the diagonal -/
def Mat.diagProd {n} (U : Mat n n α) : α := ((List.finRange n).map fun i => U.get i i).foldl (· * ·) 1

def Mat.isLowerUnit {n} [DecidableEq α] (L : Mat n n α) : Bool :=
  (List.finRange n).all fun i => (List.finRange n).all fun j =>
    if i.val < j.val then decide (L.get i j = 0) else if i = j then decide (L.get i j = 1) else true
def Mat.isUpper {n} [DecidableEq α] (U : Mat n n α) : Bool :=
  (List.finRange n).all fun i => (List.finRange n).all fun j =>
    if j.val < i.val then decide (U.get i j = 0) else true

/-- determinant certificate `S = L U`, `L` unit lower, `U` upper; then `det S = Π U_ii` -/
def Mat.luOk {n} [DecidableEq α] (S L U : Mat n n α) : Bool :=
  L.isLowerUnit && U.isUpper && (L.mul U).beq S

end

end Pdq
