/-!
# Pdq.Model.StepInit — the two initial step-size helpers (`probdiffeq/_ivpsolve/stepsize_initialisers.py`)

Square roots never enter the model: the Euclidean norms `‖u0‖`, `‖f0‖`, `‖(f1 - f0)/scale‖` are
*inputs* (computed by the harness from the exact squared norms), and the final real power
`x ** (1/(rate+1))` of `dt0_adaptive` is an abstract function `root x k` (`= x^(1/k)`), applied in the
harness in float64 to the exact radicand the model returns.

* `dt0Current`  — `ivpsolve.dt0` as it is on the unchanged tree: `scale·‖u0‖ / (‖f0‖ + nugget)`;
* `dt0Fixed`    — the repaired helper: `scale·max(‖u0‖, nugget) / (‖f0‖ + nugget)`;
* `stage1`, `stage2`, `dt0Adaptive` — `ivpsolve.dt0_adaptive`, literal for literal (`AdLits` holds the
  ten numeric literals of the function in source order; `np.where(c, a, b)` is `if c then a else b`).

The second stage needs the vector field once more, at `y0 + h0·f0`; the model therefore takes the
scaled difference norm as a *function of the trial step*, `n2 h0 = ‖(f(y0 + h0 f0, t0 + h0) - f0)/scale‖`.
No imports.
-/
namespace Pdq.StepInit

section
variable {α : Type} [Add α] [Mul α] [Div α] [Max α]

/-- `dt0` on the unchanged tree: `scale * norm_y0 / (norm_f0 + nugget)` -/
def dt0Current (scale nugget n0 n1 : α) : α := scale * n0 / (n1 + nugget)

/-- `dt0` after the repair: `scale * maximum(norm_y0, nugget) / (norm_f0 + nugget)` -/
def dt0Fixed (scale nugget n0 n1 : α) : α := scale * max n0 nugget / (n1 + nugget)

end

/-- the numeric literals of `dt0_adaptive`, in source order -/
structure AdLits (α : Type) where
  /-- `d0 < 1e-5` -/
  small0 : α
  /-- `d1 < 1e-5` -/
  small1 : α
  /-- first-stage fallback `1e-6` -/
  hSmall : α
  /-- `0.01 * d0 / d1` -/
  c0 : α
  /-- `d1 <= 1e-15` -/
  tiny1 : α
  /-- `d2 <= 1e-15` -/
  tiny2 : α
  /-- `maximum(1e-6, …)` -/
  hMin : α
  /-- `dt0 * 1e-3` -/
  shrink : α
  /-- `0.01 / maximum(d1, d2)` -/
  c1 : α
  /-- `100.0 * dt0` -/
  grow : α

/-- what the second stage hands to the final `minimum`: either a finished value (guard branch) or the
radicand of the `(rate+1)`-th root -/
inductive Stage2 (α : Type) where
  | guard (v : α)
  | radicand (x : α)

section
variable {α : Type} [Add α] [Mul α] [Div α] [LT α] [LE α] [DecidableLT α] [DecidableLE α] [Max α] [Min α]

/-- `dt0 = where((d0 < 1e-5) | (d1 < 1e-5), 1e-6, 0.01 * d0 / d1)` -/
def stage1 (L : AdLits α) (d0 d1 : α) : α :=
  if d0 < L.small0 ∨ d1 < L.small1 then L.hSmall else L.c0 * d0 / d1

/-- `dt1 = where((d1 <= 1e-15) & (d2 <= 1e-15), maximum(1e-6, dt0 * 1e-3), (0.01 / maximum(d1, d2)) ** …)` -/
def stage2 (L : AdLits α) (d1 d2 h0 : α) : Stage2 α :=
  if d1 ≤ L.tiny1 ∧ d2 ≤ L.tiny2 then .guard (max L.hMin (h0 * L.shrink))
  else .radicand (L.c1 / max d1 d2)

/-- finish the second stage with the real power `root x k = x ** (1/k)` -/
def Stage2.eval (root : α → Nat → α) (rate : Nat) : Stage2 α → α
  | .guard v => v
  | .radicand x => root x (rate + 1)

/-- `d2 = norm((f1 - f0) / scale) / dt0` -/
def d2Of (n2 h0 : α) : α := n2 / h0

/-- `dt0_adaptive`: `minimum(100 * dt0, dt1)` -/
def dt0Adaptive (L : AdLits α) (root : α → Nat → α) (d0 d1 : α) (n2 : α → α) (rate : Nat) : α :=
  let h0 := stage1 L d0 d1
  let d2 := d2Of (n2 h0) h0
  min (L.grow * h0) ((stage2 L d1 d2 h0).eval root rate)

end

end Pdq.StepInit
