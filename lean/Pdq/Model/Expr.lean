/-!
# Pdq.Model.Expr — polynomial jet programs, the formal total time derivative, truncated series

Vector fields and residuals of the correspondence checks C10/C11 are *polynomial programs*
`Expr K` in the jet variables `u^(k)_i` (`var k i`: `k`-th time derivative, component `i`) and the
time `t`.  This file contains

* `Expr`, `eval` (in any type with `+ * -`), the formal total time derivative `D`
  (`D u_k = u_{k+1}`, `D t = 1`, Leibniz), partial derivatives `pd k i`, `pdt`,
* truncated power-series arithmetic on lists (`TSer n K`, Cauchy product) — what
  `jax.experimental.jet` propagates through a polynomial program,
* `jet`: the transcription of `jax.experimental.jet.jet(fun, primals, series, factorial_scaled=True)`
  for a polynomial program (normalise by `1/j!`, propagate, multiply by `j!`),
* `argsAuto`/`seriesT`: the transcription of `problems.args_autonomous_and_jet_compatible`
  (Python slice semantics included).

No imports: everything under `Pdq/Model` stays Mathlib-free.
-/
namespace Pdq

/-- polynomial expressions in the jet variables `var k i = u^(k)_i` and the time -/
inductive Expr (K : Type) where
  | const : K → Expr K
  | var : Nat → Nat → Expr K
  | time : Expr K
  | add : Expr K → Expr K → Expr K
  | mul : Expr K → Expr K → Expr K
  | neg : Expr K → Expr K

/-- `iter f n a = f (f (… a))` (`n` times); equals Mathlib's `f^[n] a` -/
def iter {α : Type} (f : α → α) : Nat → α → α
  | 0, a => a
  | n + 1, a => iter f n (f a)

/-- `[f 0, f 1, …, f (n-1)]` -/
def tabulate {α : Type} (n : Nat) (f : Nat → α) : List α := (List.range n).map f

/-- coefficient `k`, component `i` of a list of coefficient vectors (zero outside; the driver
rejects programs that read outside the supplied coefficients, see `Expr.wf`) -/
def getU {K : Type} [Zero K] (c : List (List K)) (k i : Nat) : K := (c.getD k []).getD i 0

namespace Expr
variable {K : Type}

/-- evaluation in any `R` with `+ * -`, given an embedding of the constants, values for the jet
variables and the time -/
def eval {R : Type} [Add R] [Mul R] [Neg R] (c : K → R) (u : Nat → Nat → R) (t : R) : Expr K → R
  | const a => c a
  | var k i => u k i
  | time => t
  | add p q => eval c u t p + eval c u t q
  | mul p q => eval c u t p * eval c u t q
  | neg p => - eval c u t p

/-- evaluation on a list of coefficient vectors -/
def evalOn [Add K] [Mul K] [Neg K] [Zero K] (cs : List (List K)) (t : K) (g : Expr K) : K :=
  eval id (getU cs) t g

/-- number of Taylor coefficients the program reads (`1 +` the highest differential order) -/
def order : Expr K → Nat
  | const _ => 0
  | var k _ => k + 1
  | time => 0
  | add p q => max (order p) (order q)
  | mul p q => max (order p) (order q)
  | neg p => order p

/-- `1 +` the highest component index read -/
def width : Expr K → Nat
  | const _ => 0
  | var _ i => i + 1
  | time => 0
  | add p q => max (width p) (width q)
  | mul p q => max (width p) (width q)
  | neg p => width p

/-- all variables are `var k i` with `k < n`, `i < d` -/
def wf (n d : Nat) (g : Expr K) : Bool := decide (order g ≤ n) && decide (width g ≤ d)

/-- the program does not mention `t` (autonomous) -/
def timeFree : Expr K → Bool
  | const _ => true
  | var _ _ => true
  | time => false
  | add p q => timeFree p && timeFree q
  | mul p q => timeFree p && timeFree q
  | neg p => timeFree p

/-- replace `t` by the constant `t0` (what a Python closure over `t` does) -/
def freeze (t0 : K) : Expr K → Expr K
  | const a => const a
  | var k i => var k i
  | time => const t0
  | add p q => add (freeze t0 p) (freeze t0 q)
  | mul p q => mul (freeze t0 p) (freeze t0 q)
  | neg p => neg (freeze t0 p)

section deriv
variable [Zero K] [One K]

/-- formal total time derivative: `D u_k = u_{k+1}`, `D t = 1`, Leibniz -/
def D : Expr K → Expr K
  | const _ => const 0
  | var k i => var (k + 1) i
  | time => const 1
  | add p q => add (D p) (D q)
  | mul p q => add (mul (D p) q) (mul p (D q))
  | neg p => neg (D p)

/-- partial derivative with respect to `u^(k)_i` -/
def pd (k i : Nat) : Expr K → Expr K
  | const _ => const 0
  | var k' i' => if k' = k ∧ i' = i then const 1 else const 0
  | time => const 0
  | add p q => add (pd k i p) (pd k i q)
  | mul p q => add (mul (pd k i p) q) (mul p (pd k i q))
  | neg p => neg (pd k i p)

/-- partial derivative with respect to `t` -/
def pdt : Expr K → Expr K
  | const _ => const 0
  | var _ _ => const 0
  | time => const 1
  | add p q => add (pdt p) (pdt q)
  | mul p q => add (mul (pdt p) q) (mul p (pdt q))
  | neg p => neg (pdt p)

/-- forward-mode directional derivative (`jax.jvp`) of a program in `u_0 … u_{n-1}, t` along the
first-order system: the tangent of `u_k` is `u_{k+1}` for `k + 1 < n` and the vector field `fs`
for `k = n - 1`; the tangent of `t` is the constant `dt` (`0` when `t` is a closed-over constant,
`1` when the state is augmented with the time).  This is `_fwd_recursion_iterate` of
`jet_expansion_algorithms.py`. -/
def lie (n : Nat) (fs : List (Expr K)) (dt : K) : Expr K → Expr K
  | const _ => const 0
  | var k i => if k + 1 < n then var (k + 1) i else fs.getD i (const 0)
  | time => const dt
  | add p q => add (lie n fs dt p) (lie n fs dt q)
  | mul p q => add (mul (lie n fs dt p) q) (mul p (lie n fs dt q))
  | neg p => neg (lie n fs dt p)

end deriv
end Expr

/-! ## truncated power series (normalised Taylor coefficients) -/

/-- truncated power series with `n` coefficients `a_0 + a_1 ε + … + a_{n-1} ε^{n-1}` -/
structure TSer (n : Nat) (K : Type) where
  coeffs : List K

namespace TSer
variable {K : Type} {n : Nat}

def get [Zero K] (a : TSer n K) (j : Nat) : K := a.coeffs.getD j 0

def ofFn (n : Nat) (f : Nat → K) : TSer n K := ⟨tabulate n f⟩

def const [Zero K] (n : Nat) (a : K) : TSer n K := ofFn n fun j => if j = 0 then a else 0

/-- Cauchy product coefficient `Σ_{i ≤ j} a_i b_{j-i}` -/
def cauchy [Zero K] [Add K] [Mul K] (a b : Nat → K) (j : Nat) : K :=
  ((List.range (j + 1)).map fun i => a i * b (j - i)).sum

instance [Zero K] [Add K] : Add (TSer n K) := ⟨fun a b => ofFn n fun j => a.get j + b.get j⟩
instance [Zero K] [Neg K] : Neg (TSer n K) := ⟨fun a => ofFn n fun j => - a.get j⟩
instance [Zero K] [Add K] [Mul K] : Mul (TSer n K) := ⟨fun a b => ofFn n (cauchy a.get b.get)⟩

end TSer

section jet
variable {K : Type} [Zero K] [One K] [Add K] [Mul K] [Neg K] [Div K]

/-- `n` as an element of `K` -/
def natK : Nat → K
  | 0 => 0
  | n + 1 => natK n + 1

/-- `n!` as an element of `K` -/
def factK : Nat → K
  | 0 => 1
  | n + 1 => natK (n + 1) * factK n

/-- truncated-series evaluation of a program: the series of `u^(k)_i` is `S k i`, of the time `T` -/
def evalTS (n : Nat) (S : Nat → Nat → TSer n K) (T : TSer n K) (g : Expr K) : TSer n K :=
  Expr.eval (TSer.const n) S T g

/-- forward-mode tangent (`jax.jvp` / `jax.linearize`) of the truncated-series evaluation of a program
with respect to the series of the state: `V k i` is the tangent of the series of `u^(k)_i`, the time
series carries no tangent.  (Product rule in the truncated-series ring.) -/
def jvpTS (n : Nat) (S V : Nat → Nat → TSer n K) (T : TSer n K) : Expr K → TSer n K
  | .const _ => TSer.const n 0
  | .var k i => V k i
  | .time => TSer.const n 0
  | .add p q => jvpTS n S V T p + jvpTS n S V T q
  | .mul p q => jvpTS n S V T p * evalTS n S T q + evalTS n S T p * jvpTS n S V T q
  | .neg p => - jvpTS n S V T p

/-- `jax.experimental.jet.jet(fun, primals, series, factorial_scaled=True)` for the polynomial
program `fs` (vector valued) in the arguments `u_0, …, u_{K-1}, t`:
`pu` are the primals of the `u_k`, `su[k] = [s_1, …, s_n]` their series (derivative coefficients,
*not* divided by factorials), `t`/`st` primal and series of the time argument.  The order `n` is the
common series length (`st.length`).  Returns `[primal_out, series_out_1, …, series_out_n]`, each a
vector with one entry per program of `fs`. -/
def jet (fs : List (Expr K)) (pu : List (List K)) (su : List (List (List K))) (t : K) (st : List K) :
    List (List K) :=
  let n := st.length
  let S : Nat → Nat → TSer (n + 1) K := fun k i =>
    TSer.ofFn (n + 1) fun j => if j = 0 then getU pu k i else getU (su.getD k []) (j - 1) i / factK j
  let T : TSer (n + 1) K := TSer.ofFn (n + 1) fun j => if j = 0 then t else st.getD (j - 1) 0 / factK j
  let outs : List (TSer (n + 1) K) := fs.map (evalTS (n + 1) S T)
  tabulate (n + 1) fun j => outs.map fun o => factK j * o.get j

end jet

section args
variable {α : Type}

/-- Python `l[start:stop]` with `start ≥ 0` (or `None`, same as `0`) and `stop` either `None` (end),
non-negative, or negative (counted from the end) -/
def pySlice (l : List α) (start : Nat) (stop : Option Int) : List α :=
  let e : Nat := match stop with
    | none => l.length
    | some z => if z < 0 then ((l.length : Int) + z).toNat else min z.toNat l.length
  (l.take e).drop start

/-- `problems.args_autonomous_and_jet_compatible(taylor_series, num_tcoeffs_in_args=K, t=…)`, the
part acting on the state coefficients: `(primals_u, series_u)` with
`series_u[k] = series[mask(k) : mask(k + 1 - K)]`, `series = taylor_series[1:]`, `mask 0 = None`. -/
def argsAuto (ts : List α) (K : Nat) : List α × List (List α) :=
  let series := ts.drop 1
  (ts.take K,
   (List.range K).map fun (k : Nat) =>
     let stop : Int := (k : Int) + 1 - (K : Int)
     pySlice series k (if stop = 0 then none else some stop))

/-- the series attached to the time argument: `[1.0, *[0.0 for _ in range(n - 1)]]` where `n` is the
length of the first state series -/
def seriesT {K : Type} [Zero K] [One K] (n : Nat) : List K := 1 :: List.replicate (n - 1) 0

end args

end Pdq
