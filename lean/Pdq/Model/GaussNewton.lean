import Pdq.Model.Gauss
/-!
# Pdq.Model.GaussNewton — `lstsq_constrained_gauss_newton` (`probdiffeq/_probdiffeq/taylor_points.py`)

Transcription of the constrained weighted least-squares routine

    minimise ‖L⁻¹(x − m)‖²  subject to  g(x) = 0

as the code runs it: state `(x, fx, dx, i)`, `cond_fun` (three-way termination test), `body_fun`
(one Gauss–Newton step `dx = m − x − L·lstsq(J L, fx + J (m − x))`), `while_loop`, statistics.

* the constraint `g` and its Jacobian `J` are parameters (any functions); `Poly` below provides the
  polynomial constraints the driver executes, `Problem.affine` the affine ones;
* `lstsq` is a parameter `solve` (LAPACK's SVD is an external call): nothing it returns is trusted, the
  answer is checked by the exact certificates `lstsqOk` (normal equations `HᵀH y = Hᵀ r`) and
  `minNormOk` (`y = Hᵀ z`, i.e. `y` is the minimum-norm solution `jnp.linalg.lstsq` returns);
* the termination test is on *squared* norms (`‖fx‖ > tol·√size  ⇔  ‖fx‖² > tol²·size` for `tol ≥ 0`),
  so no roots are needed; `tol2 = tol²` is formed exactly by the harness;
* the `while_loop` takes fuel `maxiter` (enough by `cond2`; `Props/C19.lean` proves the loop has really
  stopped when it returns).
No Mathlib imports.
-/
namespace Pdq.GN

/-- the data of one call `nlstsq(constraint, x0, mean, cholesky)` -/
structure Problem (D k r : Nat) (α : Type) where
  /-- `constraint` -/
  g : Vec D α → Vec k α
  /-- `jacfwd(constraint)` -/
  J : Vec D α → Mat k D α
  /-- `mean` -/
  m : Vec D α
  /-- `cholesky` (a left square-root factor of the covariance `P = L Lᵀ`) -/
  L : Mat D r α

/-- the loop carry `State(x, fx, dx, i)` -/
structure State (D k : Nat) (α : Type) where
  x : Vec D α
  fx : Vec k α
  dx : Vec D α
  i : Nat

/-- what the routine returns: the point and `stats = {iters, final_constraint, final_increment}` -/
structure Result (D k : Nat) (α : Type) where
  x : Vec D α
  iters : Nat
  finalConstraint : Vec k α
  finalIncrement : Vec D α

section
variable {α : Type} [Add α] [Mul α] [Sub α] [Neg α] [Zero α] [One α]
variable {D k r : Nat}

def normSq {n : Nat} (v : Vec n α) : α := v.dot v

/-- `H = Jx @ cholesky` -/
def Problem.H (p : Problem D k r α) (x : Vec D α) : Mat k r α := (p.J x).mul p.L

/-- `r = state.fx + Jx @ (mean - state.x)` -/
def Problem.rhs (p : Problem D k r α) (s : State D k α) : Vec k α :=
  s.fx.add ((p.J s.x).mulVec (p.m.sub s.x))

/-- the covariance the factor stands for -/
def Problem.P (p : Problem D k r α) : Mat D D α := p.L.mul p.L.tr

/-- `init = State(x0, constraint(x0), dx=ones_like(x0), i=0)` -/
def init (p : Problem D k r α) (x0 : Vec D α) : State D k α :=
  { x := x0, fx := p.g x0, dx := Vec.ones, i := 0 }

/-- `body_fun`, given the answer `dy` of the least-squares solver -/
def bodyWith (p : Problem D k r α) (s : State D k α) (dy : Vec r α) : State D k α :=
  let dx := (p.m.sub s.x).sub (p.L.mulVec dy)
  let xnew := s.x.add dx
  { x := xnew, fx := p.g xnew, dx := xnew.sub s.x, i := s.i + 1 }

/-- `body_fun` with a least-squares oracle `solve H r` -/
def body (p : Problem D k r α) (solve : Mat k r α → Vec k α → Vec r α) (s : State D k α) : State D k α :=
  bodyWith p s (solve (p.H s.x) (p.rhs s))

def toResult (s : State D k α) : Result D k α :=
  { x := s.x, iters := s.i, finalConstraint := s.fx, finalIncrement := s.dx }

/-- affine constraint `g(x) = C x − e` -/
def Problem.affine (C : Mat k D α) (e : Vec k α) (m : Vec D α) (L : Mat D r α) : Problem D k r α :=
  { g := fun x => (C.mulVec x).sub e, J := fun _ => C, m := m, L := L }

/-- the affine observation model that `DenseResidual.linearize` builds at the Taylor point `ξ`
(`damp = 0`): `y | x ~ N(J(ξ) x + (g(ξ) − J(ξ) ξ), 0)` -/
def Problem.linearizeAt (p : Problem D k r α) (ξ : Vec D α) : Cond k D α :=
  { A := p.J ξ, b := (p.g ξ).sub ((p.J ξ).mulVec ξ), Q := Mat.zero }

end

section
variable {α : Type} [Add α] [Mul α] [Sub α] [Neg α] [Zero α] [One α] [NatCast α] [LT α] [DecidableLT α]
variable {D k r : Nat}

/-- `cond_fun`: continue iff constraint not yet satisfied ∧ budget not exhausted ∧ increments not yet
converged; `tol2 = tol²`, sizes `fx.size = k`, `dx.size = D` -/
def cont (tol2 : α) (maxiter : Nat) (s : State D k α) : Bool :=
  (decide (tol2 * (k : α) < normSq s.fx) && decide (s.i < maxiter)) && decide (tol2 * (D : α) < normSq s.dx)

/-- `while_loop(cond_fun, body_fun, ·)` with fuel -/
def loop (p : Problem D k r α) (solve : Mat k r α → Vec k α → Vec r α) (tol2 : α) (maxiter : Nat) :
    Nat → State D k α → State D k α
  | 0, s => s
  | fuel + 1, s => if cont tol2 maxiter s then loop p solve tol2 maxiter fuel (body p solve s) else s

/-- all states the loop visits, the returned one last -/
def trace (p : Problem D k r α) (solve : Mat k r α → Vec k α → Vec r α) (tol2 : α) (maxiter : Nat) :
    Nat → State D k α → List (State D k α)
  | 0, s => [s]
  | fuel + 1, s => if cont tol2 maxiter s then s :: trace p solve tol2 maxiter fuel (body p solve s) else [s]

/-- the whole routine: final state of the loop started at `x0`, fuel `maxiter` -/
def runState (p : Problem D k r α) (solve : Mat k r α → Vec k α → Vec r α) (tol2 : α) (maxiter : Nat)
    (x0 : Vec D α) : State D k α :=
  loop p solve tol2 maxiter maxiter (init p x0)

def run (p : Problem D k r α) (solve : Mat k r α → Vec k α → Vec r α) (tol2 : α) (maxiter : Nat)
    (x0 : Vec D α) : Result D k α :=
  toResult (runState p solve tol2 maxiter x0)

end

section
variable {α : Type} [Add α] [Mul α] [Sub α] [Neg α] [Zero α] [One α] [DecidableEq α]
variable {k r : Nat}

/-- certificate: `y` solves the normal equations of `min ‖H y − rhs‖` -/
def lstsqOk (H : Mat k r α) (rhs : Vec k α) (y : Vec r α) : Bool :=
  ((H.tr.mul H).mulVec y).beq (H.tr.mulVec rhs)

/-- certificate: `y` lies in the row space of `H` (witness `z`), i.e. it is the minimum-norm solution -/
def minNormOk (H : Mat k r α) (y : Vec r α) (z : Vec k α) : Bool := y.beq (H.tr.mulVec z)

end

/-! ### polynomial constraints (what the driver executes for `g` and `J`) -/

/-- a monomial `coef · Π_j x_j ^ pows[j]` (missing exponents are 0) -/
structure Mono (α : Type) where
  coef : α
  pows : List Nat

section
variable {α : Type} [Add α] [Mul α] [Zero α] [One α] [NatCast α]
variable {D k r : Nat}

def pw (x : α) : Nat → α
  | 0 => 1
  | n + 1 => pw x n * x

def Mono.eval (t : Mono α) (x : Vec D α) : α :=
  (List.finRange D).foldl (fun acc j => acc * pw (x.get j) (t.pows.getD j.val 0)) t.coef

/-- formal partial derivative with respect to variable `j` -/
def Mono.diff (t : Mono α) (j : Nat) : Mono α :=
  let e := t.pows.getD j 0
  { coef := (e : α) * t.coef, pows := t.pows.set j (e - 1) }

/-- one polynomial per constraint row -/
abbrev Poly (k : Nat) (α : Type) := Vec k (List (Mono α))

def Poly.eval (q : Poly k α) (x : Vec D α) : Vec k α :=
  Vec.ofFn fun i => ((q.get i).map fun t => t.eval x).sum

def Poly.jac (q : Poly k α) (x : Vec D α) : Mat k D α :=
  Mat.ofFn fun i j => ((q.get i).map fun t => (t.diff j.val).eval x).sum

def Problem.ofPoly (q : Poly k α) (m : Vec D α) (L : Mat D r α) : Problem D k r α :=
  { g := q.eval, J := q.jac, m := m, L := L }

end

end Pdq.GN
