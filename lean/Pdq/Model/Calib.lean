import Pdq.Model.Solver
import Pdq.Model.Iwp
/-!
# Pdq.Model.Calib — output-scale calibration over whole runs (root-free)

Transcribes the calibration book-keeping of `probdiffeq/_probdiffeq/solvers.py` on top of the one-step model
`Pdq.Model.Solver`:

* `solver_mle.step`: `hypot(√(n/(n+1))·a, √(1/(n+1))·b)` — here on squares, `Solver.mleRunning`; folded over the
  per-step terms by `Solver.mleFold`;
* `*Normal.residual_whitened_rms_*`: whitened energy divided by the `size` of the factorisation
  (`Calib.rms2`; the sizes are `Factorisation.rmsSize` in `Pdq.Model.Factor`);
* `solver_mle.userfriendly_output`: the `1/√num_steps` correction (`Solver.mleFinal`, squared);
* `solver_dynamic.step`: local scale from the mean-only prediction (`Solver.dynamicScale2`), re-discretisation with it
  (`Calib.stepDynamic`);
* `error_residual_std.estimate_error_norm`: the squared error estimate before the norm (`Calib.errorVar`);
* whole runs: `Calib.states`, `Calib.terms`, `Calib.runMle`, `Calib.runDynamic` (structural recursion over the step list).

Square roots never enter: every scale is carried squared.
-/
namespace Pdq

section
variable {α : Type} [Add α] [Mul α] [Sub α] [Neg α] [Zero α] [One α] [Div α]

/-- the running update of `solver_mle.step`, folded over a list of squared whitened-RMS terms; returns the running
squared scale and the number of data -/
def Solver.mleFold (a2 num : α) : List α → α × α
  | [] => (a2, num)
  | b2 :: rest => Solver.mleFold (Solver.mleRunning a2 num b2) (num + 1) rest

/-- `solver_mle.userfriendly_output`: the reported squared scale; `output_scale / sqrt(num_steps)` when
`correct_asymptotic_underconfidence` -/
def Solver.mleFinal (correct : Bool) (running2 numSteps : α) : α :=
  if correct then running2 / numSteps else running2

/-- squared whitened RMS: whitened energy `rᵀ S⁻¹ r` (summed over the slices that share the normalisation) divided
by the `size` used by the factorisation -/
def Calib.rms2 (size energy : α) : α := energy / size

/-- `rescale_cholesky` with the squared factor given: covariance times `s2` -/
def Gauss.rescale2 {n} (g : Gauss n α) (s2 : α) : Gauss n α :=
  { mean := g.mean, cov := Mat.smul s2 g.cov }

/-- noise covariance times `s2` (what `prior.transition(dt, output_scale = σ)` does to the unit-scale
transition, with `s2 = σ²`) -/
def PCond.scaleQ {m n} (c : PCond m n α) (s2 : α) : PCond m n α := { c with Q := Mat.smul s2 c.Q }

/-- plain conditional with the noise covariance multiplied by `f²` -/
def Cond.rescaleNoise {m n} (c : Cond m n α) (f : α) : Cond m n α := { c with Q := Mat.smul (f * f) c.Q }

/-- calibration of a whole solver state (`MarkovSequence.rescale_cholesky`): marginal and backward noise times `f²` -/
def SolState.rescale {n} (st : SolState n α) (f : α) : SolState n α :=
  { u := st.u.rescale f, bw := st.bw.rescaleNoise f }

/-- `solver_dynamic.step`, calibration part: the squared local scale -/
def Solver.dynamicScale2 {k n} (tr1 : PCond n n α) (lin : Vec n α → Cond k n α)
    (st : SolState n α) (W : Mat k k α) (size : α) : α :=
  Calib.rms2 size (Solver.dynamicSq tr1 lin st W)

/-- squared local error estimate of `error_residual_std` before the `dt`-power, the tolerance scaling and the
norm: `σ̂² · diag(S)`, `S` the innovation covariance of the mean-only prediction (the cached linearisation is the
one made at the predicted mean, which is the mean of the mean-only prediction) -/
def Calib.errorVar {k n} (tr1 : PCond n n α) (lin : Vec n α → Cond k n α)
    (st : SolState n α) (W : Mat k k α) (size : α) : Vec k α :=
  let up := tr1.applyPt st.u.mean
  let obs := (lin up.mean).marg up
  Vec.smul (Solver.dynamicScale2 tr1 lin st W size) obs.cov.diagVec

/-! ### whole runs -/

/-- everything one step of an uncalibrated / MLE run consumes: the (unit-scale) transition, the linearisation,
the two gain certificates, the certified inverse of the innovation covariance and the RMS size -/
structure CalStep (n k : Nat) (α : Type) where
  tr : PCond n n α
  lin : Vec n α → Cond k n α
  Gt : Mat n n α
  Gu : Mat n k α
  W : Mat k k α
  size : α

/-- the same step data for the prior whose base scale is multiplied by `c`: process noise `× c²`, and the
inverse certificate of the (`c²` times larger) innovation covariance -/
def CalStep.rescale {n k} (d : CalStep n k α) (c : α) : CalStep n k α :=
  { d with tr := d.tr.rescaleNoise c, W := Mat.smul (1 / (c * c)) d.W }

/-- all states visited by `solve_fixed_grid` / the accepted steps of an adaptive run (`solver.step` and the state
part of `solver_mle.step`) -/
def Calib.states {k n} (s : Strategy) (st : SolState n α) : List (CalStep n k α) → List (SolState n α)
  | [] => []
  | d :: rest =>
    let st' := Solver.step s d.tr d.lin st d.Gt d.Gu
    st' :: Calib.states s st' rest

/-- the squared whitened-RMS terms `new_term²` of all steps -/
def Calib.terms {k n} (s : Strategy) (st : SolState n α) : List (CalStep n k α) → List α
  | [] => []
  | d :: rest =>
    Calib.rms2 d.size (Solver.mleTerm s d.tr d.lin st d.Gt d.W)
      :: Calib.terms s (Solver.step s d.tr d.lin st d.Gt d.Gu) rest

/-- `solver_mle` over a whole run: final state, running squared scale, number of data -/
def Calib.runMle {k n} (s : Strategy) (st : SolState n α) (a2 num : α) : List (CalStep n k α) → SolState n α × α × α
  | [] => (st, a2, num)
  | d :: rest =>
    let term := Calib.rms2 d.size (Solver.mleTerm s d.tr d.lin st d.Gt d.W)
    Calib.runMle s (Solver.step s d.tr d.lin st d.Gt d.Gu) (Solver.mleRunning a2 num term) (num + 1) rest

/-- one step of a dynamic run: `trOf σ²` is `prior.transition(dt, output_scale = σ)` -/
structure DynStep (n k : Nat) (α : Type) where
  trOf : α → PCond n n α
  lin : Vec n α → Cond k n α
  relin : Bool
  Gt : Mat n n α
  Gu : Mat n k α
  W : Mat k k α
  size : α

/-- the dynamic step data of the prior whose base scale is multiplied by `c` -/
def DynStep.rescale {n k} (d : DynStep n k α) (c : α) : DynStep n k α :=
  { d with trOf := fun x => d.trOf (c * c * x), W := Mat.smul (1 / (c * c)) d.W }

/-- `solver_dynamic.step`: new state and the squared local scale it used -/
def Calib.stepDynamic {k n} (s : Strategy) (d : DynStep n k α) (st : SolState n α) : SolState n α × α :=
  let s2 := Solver.dynamicScale2 (d.trOf 1) d.lin st d.W d.size
  (Solver.stepDynamic s (d.trOf 1) (d.trOf s2) d.lin d.relin st d.Gt d.Gu, s2)

/-- a whole dynamic run: visited states with their local squared scales -/
def Calib.runDynamic {k n} (s : Strategy) (st : SolState n α) : List (DynStep n k α) → List (SolState n α × α)
  | [] => []
  | d :: rest =>
    let r := Calib.stepDynamic s d st
    r :: Calib.runDynamic s r.1 rest

end
end Pdq
