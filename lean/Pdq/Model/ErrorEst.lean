import Pdq.Model.Gauss
import Pdq.Model.Iwp
import Pdq.Model.Solver
/-!
# Pdq.Model.ErrorEst — the acceptance quantity of the adaptive solvers, root-free

Transcribes `probdiffeq/_probdiffeq/solvers.py`:

* `error_norm_scale_then_rms`, `error_norm_rms_then_scale` (returning the **squared** norm),
* `error_residual_std.estimate_error_norm`, `error_state_std.estimate_error_norm`
  (returning `norm²` and the contraction rate; the caller relates `error_power` to them by
  `error_power^(−2·rate) = norm²`),
* `residual_whitened_rms_flat` of `DenseNormal` / `IsotropicNormal` / `BlockDiagNormal` (squared; the
  three differ in the `size` by which the squared whitened residual is divided and in what is pooled),
* the documented `ValueError` on an error / reference shape mismatch as a decision function.

A state is a list of *dense slices* (DESIGN §2.2, `harness/solvermodel.py`): dense = one slice of size
`(q+1)·d` with `dps = d` dimensions per slice (coefficient-major: entry `j·dps + a`), isotropic = `d` slices
of size `q+1` sharing one covariance, block-diagonal = `d` slices with their own covariance (`dps = 1`).

Square roots never enter: standard deviations are variances, the local scale is its square, both norms
return `norm²`.  The only irreducible root — `rms(reference)` inside `rms_then_scale` — is an *input* `ρ`
(the harness computes it in float from the radicand `meanSq ref` which the model also returns; the theorems
are stated under `ρ ≥ 0 ∧ ρ² = meanSq ref`).  Linear solves are certificates (`W`: inverse of the innovation
covariance, `G`: gain of the update), checked by whoever executes the model.
-/
namespace Pdq

/-- the three state-space factorisations -/
inductive Fact where
  | dense | iso | bd
  deriving DecidableEq, Repr

/-- the two shipped error norms -/
inductive ErrNorm where
  | scaleThenRms | rmsThenScale
  deriving DecidableEq, Repr

/-- why `estimate_error_norm` does not return a number -/
inductive ErrFail where
  /-- the documented `ValueError`: error estimate and reference have different shapes -/
  | shape
  /-- outside the domain of the code (empty state, index out of range, zero sizes): the code raises an
  `IndexError` or returns `nan` there; the model refuses instead of inventing a value -/
  | undefined
  deriving DecidableEq, Repr

/-- static configuration of an estimator object -/
structure ErrCfg where
  fact : Fact
  norm : ErrNorm
  /-- `re_linearize_before_error` -/
  relin : Bool
  /-- `error_per_unit_step` -/
  perUnitStep : Bool
  /-- `constraint.residual_order` (ODE of order `K`: `K + 1`) -/
  resOrder : Nat
  /-- dimensions per slice (dense: `d`; isotropic, block-diagonal: `1`) -/
  dps : Nat
  /-- `derivative_idx` (state estimator only) -/
  derivIdx : Nat

/-- what `estimate_error_norm` is handed, for one slice: the unit-scale transition
`previous.prior.transition(dt, output_scale = ones)`, the **full** previous and proposed states, the cached
linearisation `proposed.fun_evals`, and the two certificates. -/
structure ErrIn (k n : Nat) (α : Type) where
  tr1 : PCond n n α
  previous : SolState n α
  proposed : SolState n α
  cached : Cond k n α
  W : Mat k k α
  G : Mat n k α

/-- what the estimators *read* of an `ErrIn`: of the two states only the means. -/
structure ErrView (k n : Nat) (α : Type) where
  tr1 : PCond n n α
  /-- `previous.u.mean_flat` -/
  m0 : Vec n α
  /-- `proposed.u.mean` -/
  m1 : Vec n α
  cached : Cond k n α
  W : Mat k k α
  G : Mat n k α

def ErrIn.view {k n : Nat} {α : Type} (s : ErrIn k n α) : ErrView k n α :=
  { tr1 := s.tr1, m0 := s.previous.u.mean, m1 := s.proposed.u.mean, cached := s.cached, W := s.W, G := s.G }

/-- per slice: squared whitened residual of the datum `0`, and the variances that get multiplied with the
local scale (residual estimator: `diag S`; state estimator: posterior variances of one Taylor coefficient) -/
structure SliceStat (α : Type) where
  wsq : α
  vars : List α

/-- total read with a default that is never reached behind the guards of the callers -/
def Vec.getN {n : Nat} {α : Type} [Zero α] (v : Vec n α) (i : Nat) : α :=
  if h : i < n then v.get ⟨i, h⟩ else 0

/-- Taylor coefficient `j` of a slice vector with `dps` dimensions per slice: entries `j·dps + a` -/
def Vec.coeff {n : Nat} {α : Type} [Zero α] (dps j : Nat) (v : Vec n α) : List α :=
  (List.finRange dps).map fun a => v.getN (j * dps + a.val)

section order
variable {α : Type} [Neg α] [Zero α] [LT α] [DecidableLT α]

/-- `np.abs` -/
def absM (x : α) : α := if x < 0 then -x else x
/-- `np.maximum` -/
def maxM (x y : α) : α := if x < y then y else x

/-- `np.maximum(np.abs(u0), np.abs(u1))` -/
def refOf (u0 u1 : List α) : List α := List.zipWith (fun a b => maxM (absM a) (absM b)) u0 u1

end order

section
variable {α : Type} [Add α] [Mul α] [Sub α] [Neg α] [Zero α] [One α] [Div α] [NatCast α]

/-! ### the pieces of `estimate_error_norm` -/

/-- `rv = transition.apply_flat(previous.u.mean_flat)`: extrapolation of the *mean only*;
the covariance is the process noise of the step alone. -/
def ErrView.extrapolate {k n} (s : ErrView k n α) : Gauss n α := s.tr1.applyPt s.m0

/-- `linearized = constraint.linearize(rv, …)` if `re_linearize_before_error` else `proposed.fun_evals`.
`lin means j` is the linearisation of slice `j` when the slices are linearised at `means` (the isotropic
Jacobian trace couples the slices). -/
def ErrorEst.chosen {k n} (relin : Bool) (lin : List (Vec n α) → Nat → Cond k n α)
    (means : List (Vec n α)) (j : Nat) (s : ErrView k n α) : Cond k n α :=
  if relin then lin means j else s.cached

/-- residual estimator, one slice: `observed = linearized.marginalise(rv)`, whitened residual of `zeros`, `observed.std²` -/
def ErrView.residualStat {k n} (s : ErrView k n α) (c : Cond k n α) : SliceStat α :=
  let rv := s.extrapolate
  { wsq := c.whitenedSq rv s.W, vars := (c.marg rv).var.toList }

/-- state estimator, one slice: `bayes_rule_and_residual_whitened_rms_tree(zeros, rv)`, then
`conditional.std[derivative_idx]²` -/
def ErrView.stateStat {k n} (dps idx : Nat) (s : ErrView k n α) (c : Cond k n α) : SliceStat α :=
  let rv := s.extrapolate
  { wsq := c.whitenedSq rv s.W, vars := (c.bayesZero rv s.G).var.coeff dps idx }

/-- `residual_whitened_rms_flat(…)²` of the three Normal classes followed by `rescale_cholesky(scale).std²`
(resp. `output_scale * std`, squared): the squared error vector.

* dense: one slice, `size = mean_flat.size = k`;
* isotropic: the whitened residuals of all slices are pooled, `size = mean_flat.size = k · d`; the covariance
  is shared, so the variances are those of the first slice and the error has that shape (`(1,)` for an ODE);
* block-diagonal: one scale per slice, `size = m.size = k`, the error is the concatenation. -/
def ErrorEst.err2Of (f : Fact) (k : Nat) (stats : List (SliceStat α)) : Option (List α) :=
  if k = 0 then none else
  match f with
  | .dense =>
    match stats with
    | [s] => some (s.vars.map fun v => s.wsq / ((k : Nat) : α) * v)
    | _ => none
  | .iso =>
    match stats with
    | [] => none
    | s :: rest =>
      let sc := ((s :: rest).map (·.wsq)).sum / (((s :: rest).length * k : Nat) : α)
      some (s.vars.map fun v => sc * v)
  | .bd => some (stats.flatMap fun s => s.vars.map fun v => s.wsq / ((k : Nat) : α) * v)

/-- `(dt**n / factorial(n))²` -/
def ErrorEst.stepFactor2 (dt : α) (n : Nat) : α :=
  let f := powN dt n / ((factN n : Nat) : α)
  f * f

/-- `n = residual_order − 1 (+ 1 if error_per_unit_step)` -/
def ErrorEst.residualPower (resOrder : Nat) (perUnitStep : Bool) : Option Nat :=
  if resOrder = 0 then none else some (resOrder - 1 + (if perUnitStep then 1 else 0))

/-- `n = derivative_idx (+ 1 if error_per_unit_step)` -/
def ErrorEst.statePower (idx : Nat) (perUnitStep : Bool) : Nat := idx + (if perUnitStep then 1 else 0)

/-- the documented `ValueError`: raised iff `num_outputs != 1 or error.shape not in [(1,), reference.shape]` -/
def ErrorEst.shapeOk (numOutputs errLen refLen : Nat) : Bool :=
  numOutputs == 1 && (errLen == 1 || errLen == refLen)

/-- numpy broadcasting of the error against the reference, restricted to the two shapes the code admits -/
def ErrorEst.broadcast (e : List α) (m : Nat) : Option (List α) :=
  if e.length = m then some e else
  match e with
  | [x] => some (List.replicate m x)
  | _ => none

/-- mean of a non-empty list -/
def ErrorEst.mean (l : List α) : Option α :=
  if l.isEmpty then none else some (l.sum / ((l.length : Nat) : α))

/-- mean of the squares: the radicand of `rms` -/
def ErrorEst.meanSq (l : List α) : Option α := ErrorEst.mean (l.map fun x => x * x)

end

section
variable {α : Type} [Add α] [Mul α] [Sub α] [Neg α] [Zero α] [One α] [Div α] [NatCast α] [LT α] [DecidableLT α]

/-- `error_norm_scale_then_rms()(error_abs, reference, atol, rtol)²` on squared errors:
mean of `e_i² / (atol + rtol·|ref_i|)²` -/
def ErrorEst.scaleThenRmsSq (e2 ref : List α) (atol rtol : α) : Option α :=
  match ErrorEst.broadcast e2 ref.length with
  | none => none
  | some e2' =>
    ErrorEst.mean (List.zipWith (fun e r => let s := atol + rtol * absM r; e / (s * s)) e2' ref)

/-- `error_norm_rms_then_scale()(error_abs, reference, atol, rtol)²` on squared errors, with `ρ = rms(reference)`
supplied: `mean(e²) / (atol + rtol·ρ)²` -/
def ErrorEst.rmsThenScaleSq (e2 : List α) (atol rtol ρ : α) : Option α :=
  match ErrorEst.mean e2 with
  | none => none
  | some a => let s := atol + rtol * ρ; some (a / (s * s))

def ErrorEst.applyNorm (nrm : ErrNorm) (e2 ref : List α) (atol rtol ρ : α) : Option α :=
  match nrm with
  | .scaleThenRms => ErrorEst.scaleThenRmsSq e2 ref atol rtol
  | .rmsThenScale => if ref.isEmpty then none else ErrorEst.rmsThenScaleSq e2 atol rtol ρ

/-! ### the two estimators on views -/

/-- reference `max(|u0|, |u1|)` on Taylor coefficient `j`, concatenated over the slices -/
def ErrorEst.reference {k n} (dps j : Nat) (vs : List (ErrView k n α)) : List α :=
  vs.flatMap fun s => refOf (s.m0.coeff dps j) (s.m1.coeff dps j)

/-- the points at which `re_linearize_before_error` linearises -/
def ErrorEst.means {k n} (vs : List (ErrView k n α)) : List (Vec n α) := vs.map fun s => s.extrapolate.mean

def ErrorEst.residualStats {k n} (relin : Bool) (lin : List (Vec n α) → Nat → Cond k n α)
    (vs : List (ErrView k n α)) : List (SliceStat α) :=
  vs.mapIdx fun j s => s.residualStat (ErrorEst.chosen relin lin (ErrorEst.means vs) j s)

def ErrorEst.stateStats {k n} (relin : Bool) (lin : List (Vec n α) → Nat → Cond k n α) (dps idx : Nat)
    (vs : List (ErrView k n α)) : List (SliceStat α) :=
  vs.mapIdx fun j s => s.stateStat dps idx (ErrorEst.chosen relin lin (ErrorEst.means vs) j s)

/-- common tail: `error_abs = error · dt^n/n!`, the selected norm, and the contraction rate
(`len(previous.u.mean)` = number of Taylor coefficients = `n / dps`) -/
def ErrorEst.finish (nrm : ErrNorm) (stateDim dps : Nat) (e2 ref : List α) (pw : Nat) (dt atol rtol ρ : α) :
    Except ErrFail (α × Nat) :=
  let eabs2 := e2.map fun e => e * ErrorEst.stepFactor2 dt pw
  match ErrorEst.applyNorm nrm eabs2 ref atol rtol ρ with
  | none => .error .undefined
  | some v => .ok (v, stateDim / dps)

/-- `error_residual_std(...).estimate_error_norm` on views: `(norm², rate)` -/
def ErrorEst.residualStdV {k n} (cfg : ErrCfg) (lin : List (Vec n α) → Nat → Cond k n α)
    (vs : List (ErrView k n α)) (dt atol rtol ρ : α) : Except ErrFail (α × Nat) :=
  if cfg.dps = 0 ∨ n < cfg.dps then .error .undefined else
  match ErrorEst.err2Of cfg.fact k (ErrorEst.residualStats cfg.relin lin vs) with
  | none => .error .undefined
  | some e2 =>
    let ref := ErrorEst.reference cfg.dps 0 vs
    if !(ErrorEst.shapeOk (k / cfg.dps) e2.length ref.length) then .error .shape else
    match ErrorEst.residualPower cfg.resOrder cfg.perUnitStep with
    | none => .error .undefined
    | some pw => ErrorEst.finish cfg.norm n cfg.dps e2 ref pw dt atol rtol ρ

/-- `error_state_std(...).estimate_error_norm` on views: `(norm², rate)`; no shape check in the code -/
def ErrorEst.stateStdV {k n} (cfg : ErrCfg) (lin : List (Vec n α) → Nat → Cond k n α)
    (vs : List (ErrView k n α)) (dt atol rtol ρ : α) : Except ErrFail (α × Nat) :=
  if cfg.dps = 0 ∨ n < (cfg.derivIdx + 1) * cfg.dps then .error .undefined else
  match ErrorEst.err2Of cfg.fact k (ErrorEst.stateStats cfg.relin lin cfg.dps cfg.derivIdx vs) with
  | none => .error .undefined
  | some e2 =>
    let ref := ErrorEst.reference cfg.dps cfg.derivIdx vs
    ErrorEst.finish cfg.norm n cfg.dps e2 ref (ErrorEst.statePower cfg.derivIdx cfg.perUnitStep) dt atol rtol ρ

/-! ### the estimators on the full inputs (what the driver executes) -/

def ErrorEst.residualStd {k n} (cfg : ErrCfg) (lin : List (Vec n α) → Nat → Cond k n α)
    (ins : List (ErrIn k n α)) (dt atol rtol ρ : α) : Except ErrFail (α × Nat) :=
  ErrorEst.residualStdV cfg lin (ins.map ErrIn.view) dt atol rtol ρ

def ErrorEst.stateStd {k n} (cfg : ErrCfg) (lin : List (Vec n α) → Nat → Cond k n α)
    (ins : List (ErrIn k n α)) (dt atol rtol ρ : α) : Except ErrFail (α × Nat) :=
  ErrorEst.stateStdV cfg lin (ins.map ErrIn.view) dt atol rtol ρ

end
end Pdq
