import Pdq.Model.Solver
/-!
# Pdq.Model.Interp — strategy-level interpolation (dense output / checkpoints), covariance form

Transcribes `interpolate_fwd`, `interpolate_fwd_at_t1` and `interpolate_offgrid_marginals` of
`strategy_filter`, `strategy_smoother_fixedpoint`, `strategy_smoother_fixedinterval`
(`estimators_and_losses.py:393-421,534-591,622-717`).  The two transitions (`t0 → t` and `t → t1`) are
arguments (the solver builds them with `dt = t - interp_from.t`, `dt = interp_to.t - t` and the output
scale of `interp_to`), gains are certificates.
-/
namespace Pdq

/-- `(estimate, interpolated), InterpResult(step_from, interp_from)` -/
structure InterpOut (n : Nat) (α : Type) where
  interpolated : SolState n α
  stepFrom : SolState n α
  interpFrom : SolState n α

section
variable {α : Type} [Add α] [Mul α] [Sub α] [Neg α] [Zero α] [One α] [Div α]

/-- `strategy.interpolate_fwd(posterior_t0, posterior_t1, transition_t0_t, transition_t_t1)` -/
def Strategy.interpolate {n} (s : Strategy) (p0 p1 : SolState n α) (tr0t trt1 : PCond n n α)
    (G0 G1 : Mat n n α) : InterpOut n α :=
  match s with
  | .filter =>
    let it := Strategy.filter.predict tr0t p0 G0
    { interpolated := it, stepFrom := p1, interpFrom := it }
  | .fixedPoint =>
    let ext := Strategy.fixedPoint.predict tr0t p0 G0
    let prevNew : SolState n α := { u := ext.u, bw := PCond.identity n }
    let ext1 := Strategy.fixedPoint.predict trt1 prevNew G1
    { interpolated := { u := ext.u, bw := ext.bw }
      stepFrom := { u := p1.u, bw := ext1.bw }
      interpFrom := prevNew }
  | .fixedInterval =>
    let at_t := Strategy.fixedInterval.predict tr0t p0 G0
    let ext1 := Strategy.fixedInterval.predict trt1 at_t G1
    { interpolated := at_t
      stepFrom := { u := p1.u, bw := ext1.bw }
      interpFrom := at_t }

/-- `strategy.interpolate_fwd_at_t1(posterior_t1)` -/
def Strategy.interpolateAtT1 {n} (s : Strategy) (p1 : SolState n α) : InterpOut n α :=
  match s with
  | .filter => { interpolated := p1, stepFrom := p1, interpFrom := p1 }
  | .fixedPoint =>
    let resume : SolState n α := { u := p1.u, bw := PCond.identity n }
    { interpolated := p1, stepFrom := resume, interpFrom := resume }
  | .fixedInterval =>
    { interpolated := p1, stepFrom := { u := p1.u, bw := PCond.identity n }, interpFrom := p1 }

/-- `strategy_smoother_fixedinterval.interpolate_offgrid_marginals`: from the filtering marginal at `t0` and the
smoothed marginal at `t1` -/
def offgridFixedInterval {n} (filt0 smooth1 : Gauss n α) (tr0t trt1 : PCond n n α) (G0 G1 : Mat n n α) : Gauss n α :=
  let post := SolState.init filt0
  let at_t := Strategy.fixedInterval.predict tr0t post G0
  let ext1 := Strategy.fixedInterval.predict trt1 at_t G1
  ext1.bw.marg smooth1

end
end Pdq
