import Pdq.Model.Expr
import Pdq.Model.LinAlg
/-!
# Pdq.Model.Linearize — jet lifting, constraint constructors, linearisation of constraints (C11)

Transcriptions of `problems.JetAbstract.lift`, `JetOde.jet_lift{,_max}`, `JetResidual.jet_lift{,_max}`,
`residual_from_ode`, `residual_from_stack`, and of the `linearize` methods of
`{Dense,Isotropic,BlockDiag}OdeTs0` / `{Dense,Isotropic,BlockDiag}Residual` (with an exact Jacobian
handler, `jacobian_materialize`; the stochastic handlers are C17).

State layout: `ξ : List (List K)` is the list of the `n` Taylor coefficients, each a `d`-vector.
Dense models ravel coefficient-major (`index = k·d + i`); isotropic models store `(n, d)`,
block-diagonal models `(d, n)`.
-/
namespace Pdq
namespace Lin
open Expr
variable {K : Type} [Zero K] [One K] [Add K] [Mul K] [Neg K] [Sub K] [Div K]

/-! ## jet lifting -/

/-- `JetAbstract.lift(fun, lift_by=liftBy)(jet_coords=jc, t=t)` for a polynomial program `fs` of
`Kk = num_tcoeffs_in_args` coefficients; `none` is the `ValueError` of the range check -/
def lift (Kk : Nat) (fs : List (Expr K)) (liftBy : Int) (jc : List (List K)) (t : K) :
    Option (List (List K)) :=
  let upper : Int := (jc.length : Int) - (Kk : Int)
  if liftBy < 0 ∨ liftBy > upper then none else
  let order := Kk + liftBy.toNat
  let tcoeffs := jc.take order
  let (ps, ss) := argsAuto tcoeffs Kk
  -- `if len(tree_leaves(ss[0])) == 0: return [jet_call(*ps)]`
  if (ss.getD 0 []).isEmpty then some [fs.map (evalOn ps t)]
  else some (jet fs ps ss t (seriesT (ss.getD 0 []).length))

/-- `JetOde.jet_lift`: `tcoeff_indices_output = [idx + ell for ell in range(lift_by + 1)]` -/
def liftIndices (idx liftBy : Nat) : List Nat := (List.range (liftBy + 1)).map fun ell => idx + ell

/-- `JetOde.jet_lift_max(num_tcoeffs)`: `lift_by = num_tcoeffs - output_idx - 1` -/
def odeLiftMax (numTcoeffs idx : Nat) : Int := (numTcoeffs : Int) - (idx : Int) - 1

/-- `JetResidual.jet_lift_max(num_tcoeffs)`: `lift_by = num_tcoeffs - num_tcoeffs_in_args` -/
def residualLiftMax (numTcoeffs Kk : Nat) : Int := (numTcoeffs : Int) - (Kk : Int)

/-- the lifted program as a list of programs: `[g, Dg, …, D^m g]` (what `lift` evaluates, by
`C11.lift_spec`) -/
def liftExprs (m : Nat) (gs : List (Expr K)) : List (List (Expr K)) :=
  tabulate (m + 1) fun j => gs.map (iter D j)

/-! ## constraint constructors -/

/-- `residual_from_ode(ode)`: `[jet_coords[i] for i in tcoeff_indices_output] - vector_field(jet_coords[:K])`;
`vf` lists one vector of programs per output index -/
def residualFromOde (idxs : List Nat) (vf : List (List (Expr K))) : List (List (Expr K)) :=
  List.zipWith (fun idx f => (List.range f.length).map fun a =>
    add (var idx a) (neg (f.getD a (const 0)))) idxs vf

/-- the residual program of the ODE `u^(K) = f`: `residual_from_ode` of an unlifted ODE -/
def odeResidual (Kk : Nat) (f : List (Expr K)) : List (Expr K) := (residualFromOde [Kk] [f]).getD 0 []

/-- number of coefficients read by `residual_from_ode`: `ode.num_tcoeffs_in_args + 1` -/
def residualFromOdeOrder (Kk : Nat) : Nat := Kk + 1

/-- `residual_from_stack(*parts)` evaluated: every part sees `jet_coords[:K_part]` -/
def stackEval (parts : List (Nat × List (List (Expr K)))) (jc : List (List K)) (t : K) :
    List (List (List K)) :=
  parts.map fun p => p.2.map fun r => r.map (evalOn (jc.take p.1) t)

/-- `num_tcoeffs_in_args` of the stack: `max` over the parts -/
def stackOrder (parts : List (Nat × List (List (Expr K)))) : Nat := (parts.map (·.1)).foldl max 0

/-- the stacked program (each part keeps its own variables) -/
def stackExprs (parts : List (Nat × List (List (Expr K)))) : List (List (Expr K)) := parts.flatMap (·.2)

/-! ## linearisation at a point `ξ` -/

/-- dense: full Jacobian `J[a, k·d+i] = ∂r_a/∂u^(k)_i (ξ, t)`, offset `b = r(ξ) - J ξ` -/
def linDense (n d : Nat) (rs : List (Expr K)) (ξ : List (List K)) (t : K) :
    Mat rs.length (n * d) K × Vec rs.length K :=
  let J : Mat rs.length (n * d) K := Mat.ofFn fun a j => evalOn ξ t (pd (j.val / d) (j.val % d) (rs.get a))
  let x : Vec (n * d) K := Vec.ofFn fun j => getU ξ (j.val / d) (j.val % d)
  let r : Vec rs.length K := Vec.ofFn fun a => evalOn ξ t (rs.get a)
  (J, r.sub (J.mulVec x))

/-- residual output `(a, j)` of an `(m, d)`-shaped residual (flattened row-major) -/
def rAt (d : Nat) (rs : List (Expr K)) (a j : Nat) : Expr K := rs.getD (a * d + j) (const 0)

/-- block-diagonal: for the state dimension `j` the block `J_j[a, k] = ∂r_{a,j}/∂u^(k)_j (ξ, t)`
(`einsum("mdnd->dmn")` of the full Jacobian), offset `b_j = r_{·,j}(ξ) - J_j ξ_{·,j}` -/
def linBlockDiag (n d m : Nat) (rs : List (Expr K)) (ξ : List (List K)) (t : K) (j : Nat) :
    Mat m n K × Vec m K :=
  let J : Mat m n K := Mat.ofFn fun a k => evalOn ξ t (pd k.val j (rAt d rs a.val j))
  let x : Vec n K := Vec.ofFn fun k => getU ξ k.val j
  let r : Vec m K := Vec.ofFn fun a => evalOn ξ t (rAt d rs a.val j)
  (J, r.sub (J.mulVec x))

/-- isotropic: `H[a, k] = (Σ_j ∂r_{a,j}/∂u^(k)_j (ξ, t)) / d` (`trace(axis1=1, axis2=3) / d`),
offset `b[a, j] = r_{a,j}(ξ) - Σ_k H[a,k] ξ_{k,j}` -/
def linIso (n d m : Nat) (rs : List (Expr K)) (ξ : List (List K)) (t : K) : Mat m n K × Mat m d K :=
  let H : Mat m n K := Mat.ofFn fun a k =>
    (vsum fun j : Fin d => evalOn ξ t (pd k.val j.val (rAt d rs a.val j.val))) / natK d
  let X : Mat n d K := Mat.ofFn fun k j => getU ξ k.val j.val
  let R : Mat m d K := Mat.ofFn fun a j => evalOn ξ t (rAt d rs a.val j.val)
  (H, R.sub (H.mul X))

/-- TS0 (dense): `H = ∂(selector of the output coefficients)/∂x`, `b = -f(ξ, t)`;
`idxs = tcoeff_indices_output`, `fv` the evaluated vector field (one `d`-vector per output index) -/
def linTs0Dense (n d : Nat) (idxs : List Nat) (fv : List (List K)) :
    Mat (idxs.length * d) (n * d) K × Vec (idxs.length * d) K :=
  (Mat.ofFn fun r c => if c.val / d = idxs.getD (r.val / d) 0 ∧ c.val % d = r.val % d then 1 else 0,
   Vec.ofFn fun r => - getU fv (r.val / d) (r.val % d))

/-- TS0 (isotropic; every block of the block-diagonal model is the same matrix):
`H[q, k] = [k = idxs[q]]`, `b[q, j] = -f_{q,j}` -/
def linTs0Iso (n d : Nat) (idxs : List Nat) (fv : List (List K)) :
    Mat idxs.length n K × Mat idxs.length d K :=
  (Mat.ofFn fun q k => if k.val = idxs.getD q.val 0 then 1 else 0,
   Mat.ofFn fun q j => - getU fv q.val j.val)

end Lin
end Pdq
