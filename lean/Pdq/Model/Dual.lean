import Pdq.Model.Solver
import Pdq.Model.Iwp
/-!
# Pdq.Model.Dual — dual numbers `a + b ε` (`ε² = 0`) over any scalar type; the derivative oracle of C16

Every model function (`Pdq.Model.Gauss`, `Pdq.Model.Solver`, `Pdq.Model.Iwp`) is generic over the scalar
type with core classes only, so it can be instantiated at `Dual α`.  `Pdq.Props.C16` proves that the
`eps`-part then is the exact derivative (`dual_number_derivative` and its lifts to the matrix
operations and to `Solver.step`); the driver (`Pdq.Drv.Dual`) runs the model at `Dual Rat`.

Also here: rational expressions `RExpr` with generic evaluation (the statement "for polynomial / rational
expressions the `eps`-part is the derivative" is proved for them by induction), and the affine test
problem used by the driver's short fixed-grid run.

No imports besides `Pdq.Model.*`.
-/
namespace Pdq

structure Dual (α : Type) where
  re : α
  eps : α
  deriving DecidableEq

namespace Dual
variable {α : Type}

/-- a constant: derivative 0 -/
def const [Zero α] (a : α) : Dual α := ⟨a, 0⟩
/-- the variable one differentiates with respect to: derivative 1 -/
def var [One α] (a : α) : Dual α := ⟨a, 1⟩

instance [Zero α] : Zero (Dual α) := ⟨⟨0, 0⟩⟩
instance [Zero α] [One α] : One (Dual α) := ⟨⟨1, 0⟩⟩
instance [Add α] : Add (Dual α) := ⟨fun x y => ⟨x.re + y.re, x.eps + y.eps⟩⟩
instance [Sub α] : Sub (Dual α) := ⟨fun x y => ⟨x.re - y.re, x.eps - y.eps⟩⟩
instance [Neg α] : Neg (Dual α) := ⟨fun x => ⟨-x.re, -x.eps⟩⟩
/-- Leibniz rule -/
instance [Add α] [Mul α] : Mul (Dual α) := ⟨fun x y => ⟨x.re * y.re, x.re * y.eps + x.eps * y.re⟩⟩
/-- quotient rule -/
instance [Add α] [Sub α] [Mul α] [Div α] : Div (Dual α) :=
  ⟨fun x y => ⟨x.re / y.re, (x.eps * y.re - x.re * y.eps) / (y.re * y.re)⟩⟩
instance [Zero α] [NatCast α] : NatCast (Dual α) := ⟨fun n => ⟨(n : α), 0⟩⟩

end Dual

/-! ### real and infinitesimal parts of vectors and matrices -/

def Vec.re {n} {α} (v : Vec n (Dual α)) : Vec n α := ⟨fun i => (v.get i).re⟩
def Vec.eps {n} {α} (v : Vec n (Dual α)) : Vec n α := ⟨fun i => (v.get i).eps⟩
def Mat.re {m n} {α} (A : Mat m n (Dual α)) : Mat m n α := ⟨fun i j => (A.get i j).re⟩
def Mat.eps {m n} {α} (A : Mat m n (Dual α)) : Mat m n α := ⟨fun i j => (A.get i j).eps⟩
def Vec.dual {n} {α} (a b : Vec n α) : Vec n (Dual α) := ⟨fun i => ⟨a.get i, b.get i⟩⟩
def Mat.dual {m n} {α} (A B : Mat m n α) : Mat m n (Dual α) := ⟨fun i j => ⟨A.get i j, B.get i j⟩⟩

section
variable {α : Type} [Add α] [Mul α] [Sub α] [Neg α] [Zero α] [One α]

/-- inverse of a dual matrix from an inverse `W` of its real part: `(S + Ṡ ε)⁻¹ = W − W Ṡ W ε`
(a candidate only; whoever uses it checks `Mat.invOk` at `Dual α`) -/
def Mat.dualInv {n} (S : Mat n n (Dual α)) (W : Mat n n α) : Mat n n (Dual α) :=
  Mat.dual W ((W.mul S.eps).mul W).neg

end

/-! ### rational expressions -/

inductive RExpr where
  | var : Nat → RExpr
  | nat : Nat → RExpr
  | add : RExpr → RExpr → RExpr
  | sub : RExpr → RExpr → RExpr
  | neg : RExpr → RExpr
  | mul : RExpr → RExpr → RExpr
  | div : RExpr → RExpr → RExpr
  | pow : RExpr → Nat → RExpr

section
variable {α : Type} [Add α] [Mul α] [Sub α] [Neg α] [Zero α] [One α] [Div α] [NatCast α]

/-- evaluation in any scalar type (powers through `powN` of `Pdq.Model.Iwp`) -/
def RExpr.eval (env : Nat → α) : RExpr → α
  | .var i => env i
  | .nat k => (k : α)
  | .add a b => a.eval env + b.eval env
  | .sub a b => a.eval env - b.eval env
  | .neg a => - a.eval env
  | .mul a b => a.eval env * b.eval env
  | .div a b => a.eval env / b.eval env
  | .pow a k => powN (a.eval env) k

/-! ### an affine test problem for a whole model run: `u' = a u + c`, one dimension -/

/-- TS0 linearisation of `u' - (a u + c) = 0` at the state mean `m = [u, u', …]`: `H = e₁`, `b = -(a m₀ + c)`;
TS1: `H = e₁ - a e₀`, `b = -c`.  Noise `damp²`. -/
def affineLin (q : Nat) (ts1 : Bool) (a c damp2 : α) (m : Vec (q+1) α) : Cond 1 (q+1) α :=
  let m0 : α := m.get ⟨0, Nat.succ_pos q⟩
  { A := Mat.ofFn fun _ j => if ts1 then (if j.val = 1 then 1 else if j.val = 0 then -a else 0)
                                     else (if j.val = 1 then 1 else 0)
    b := Vec.ofFn fun _ => if ts1 then -c else -(a * m0 + c)
    Q := Mat.ofFn fun _ _ => damp2 }

end
end Pdq
