import Pdq.Model.Control
/-!
# Pdq.Model.Adaptive — the adaptive time-stepping state machine

Transcription of `probdiffeq/_ivpsolve/solvers_via_adaptive_steps.py`
(`TimeStepState`, `_RejectionLoopState`, `RejectionLoop.{init, loop, step, step_init_loopstate,
step_attempt, step_extract_timestep_state, interp_skip, interp_beyond_t1, interp_at_t1}`,
`solve_adaptive_save_at` (`advance` + `scan`), `solve_adaptive_terminal_values`) and of the python
loop of `probdiffeq/util/test_util.solve_adaptive_save_every_step`.

LSolver, error estimator and controller are *parameters* with the signature of
`solver_protocols.LSolver` / `controllers.Control`; the solver state carries only what the state
machine reads (`t`), what the property talks about (`num_steps`) and an opaque payload id (`tag`).
`lax.while_loop`s take fuel and return `none` when it runs out (never a silently truncated run).

Every function additionally threads a ghost `trace` (newest event first) that records the calls made
to the protocol objects; the trace never influences a decision.
-/
namespace Pdq

/-- what the state machine sees of a solver state (`ProbabilisticSolution`): time, step counter, payload id -/
structure LSolState (α : Type) where
  t : α
  numSteps : Nat
  tag : Nat

/-- result of `interpolate_fwd` / `interpolate_fwd_at_t1`: `(solution, InterpResult(step_from, interp_from))` -/
structure InterpRes (α : Type) where
  sol : LSolState α
  stepFrom : LSolState α
  interpFrom : LSolState α

/-- `solver_protocols.LSolver` -/
structure LSolver (α : Type) where
  init : α → Nat → LSolState α
  step : LSolState α → α → LSolState α
  /-- arguments: `t`, `interp_from`, `interp_to` -/
  interpFwd : α → LSolState α → LSolState α → InterpRes α
  /-- arguments: `t`, `interp_from`, `interp_to` -/
  interpAtT1 : α → LSolState α → LSolState α → InterpRes α

/-- error estimator: `init_error()`, `estimate_error_norm(error_state, previous, proposed, dt)`
returning `(error_power, error_state)`; the error state is an opaque payload id. -/
structure Est (α : Type) where
  init : Nat
  estimate : Nat → LSolState α → LSolState α → α → α × Nat

/-- one call of `step_attempt`, as seen by the protocol objects -/
structure AttemptRec (α σ : Type) where
  /-- the checkpoint the rejection loop is heading for -/
  t1 : α
  /-- `state.step_from` (argument of `solver.step`) -/
  src : LSolState α
  /-- the step size actually attempted (after clipping) -/
  dt : α
  /-- result of `solver.step` -/
  proposed : LSolState α
  /-- `error_power` returned by the estimator; the attempt is accepted iff `¬ ep < 1` -/
  ep : α
  /-- proposal returned by the controller -/
  dtNew : α
  esIn : Nat
  esOut : Nat
  cIn : σ
  cOut : σ

inductive Event (α σ : Type) where
  | attempt (a : AttemptRec α σ)
  /-- branch taken by `RejectionLoop.loop`: 0 = skip, 1 = `interpolate_fwd`, 2 = `interpolate_fwd_at_t1`,
  with the `interp_from` / `interp_to` arguments -/
  | interp (branch : Nat) (t1 : α) (iFrom iTo : LSolState α)
  /-- a solution handed back to the caller for checkpoint `t1` -/
  | output (t1 : α) (s : LSolState α)

/-- `TimeStepState` (+ ghost trace) -/
structure TimeStepState (α σ : Type) where
  dt : α
  stepFrom : LSolState α
  interpFrom : LSolState α
  control : σ
  errorStepFrom : Nat
  trace : List (Event α σ)

/-- `_RejectionLoopState` (+ ghost trace) -/
structure RejState (α σ : Type) where
  dt : α
  acceptanceFactorProposed : α
  control : σ
  proposed : LSolState α
  stepFrom : LSolState α
  errorStepFrom : Nat
  errorProposed : Nat
  trace : List (Event α σ)

/-- everything `RejectionLoop.__init__` receives, plus the literal `acceptance_factor_init` -/
structure Cfg (α σ : Type) where
  solver : LSolver α
  est : Est α
  ctl : Ctl α σ
  clip : Bool
  /-- `acceptance_factor_init` of `step_init_loopstate` (shipped value: `Pdq.Consts.acceptanceFactorInit`) -/
  seed : α

section
variable {α σ : Type} [Add α] [Sub α] [LT α] [DecidableLT α] [Min α] [One α]

/-- `RejectionLoop.init` -/
def Cfg.init (cfg : Cfg α σ) (s0 : LSolState α) (dt : α) : TimeStepState α σ :=
  { dt := dt, stepFrom := s0, interpFrom := s0, control := cfg.ctl.init dt,
    errorStepFrom := cfg.est.init, trace := [] }

/-- `tree_map(np.ones_like, state)` -/
def LSolState.onesLike (_ : LSolState α) : LSolState α := ⟨1, 1, 1⟩

/-- `step_init_loopstate` -/
def Cfg.stepInitLoopstate (cfg : Cfg α σ) (s0 : TimeStepState α σ) : RejState α σ :=
  { acceptanceFactorProposed := cfg.seed, dt := s0.dt, control := s0.control,
    stepFrom := s0.stepFrom, errorStepFrom := s0.errorStepFrom,
    proposed := s0.stepFrom.onesLike, errorProposed := 1, trace := s0.trace }

/-- the step size handed to `solver.step`: `np.minimum(dt, t1 - state.step_from.t)` if `clip_dt` -/
def Cfg.clipDt (cfg : Cfg α σ) (t1 : α) (src : LSolState α) (dtIn : α) : α :=
  if cfg.clip then min dtIn (t1 - src.t) else dtIn

/-- the protocol calls of one `step_attempt` from `step_from = src`, `error_step_from = es`,
step-size proposal `dtIn`, controller state `cIn`: clip, `solver.step`, `estimate_error_norm`, `control.apply` -/
def Cfg.mkAttempt (cfg : Cfg α σ) (t1 : α) (src : LSolState α) (es : Nat) (dtIn : α) (cIn : σ) : AttemptRec α σ :=
  let dt := cfg.clipDt t1 src dtIn
  let proposed := cfg.solver.step src dt
  let ee := cfg.est.estimate es src proposed dt
  let dc := cfg.ctl.apply dt cIn ee.1
  { t1 := t1, src := src, dt := dt, proposed := proposed, ep := ee.1, dtNew := dc.1,
    esIn := es, esOut := ee.2, cIn := cIn, cOut := dc.2 }

/-- `step_attempt` -/
def Cfg.stepAttempt (cfg : Cfg α σ) (t1 : α) (r : RejState α σ) : RejState α σ :=
  let a := cfg.mkAttempt t1 r.stepFrom r.errorStepFrom r.dt r.control
  { dt := a.dtNew, acceptanceFactorProposed := a.ep, proposed := a.proposed, control := a.cOut,
    errorProposed := a.esOut, errorStepFrom := r.errorStepFrom, stepFrom := r.stepFrom,
    trace := Event.attempt a :: r.trace }

/-- `while_loop(cond, step_attempt, init)` with `cond = acceptance_factor_proposed < 1.0` -/
def Cfg.whileRej (cfg : Cfg α σ) (t1 : α) : Nat → RejState α σ → Option (RejState α σ)
  | 0, r => if r.acceptanceFactorProposed < 1 then none else some r
  | fuel + 1, r =>
    if r.acceptanceFactorProposed < 1 then cfg.whileRej t1 fuel (cfg.stepAttempt t1 r) else some r

/-- `step_extract_timestep_state` -/
def RejState.extract (r : RejState α σ) : TimeStepState α σ :=
  { dt := r.dt, stepFrom := r.proposed, interpFrom := r.stepFrom, control := r.control,
    errorStepFrom := r.errorProposed, trace := r.trace }

/-- `RejectionLoop.step` -/
def Cfg.step (cfg : Cfg α σ) (fuel : Nat) (s : TimeStepState α σ) (t1 : α) : Option (TimeStepState α σ) :=
  match cfg.whileRej t1 fuel (cfg.stepInitLoopstate s) with
  | none => none
  | some r => some r.extract

/-- `interp_skip` -/
def Cfg.interpSkip (_cfg : Cfg α σ) (s : TimeStepState α σ) (t1 : α) : LSolState α × TimeStepState α σ :=
  (s.stepFrom, { s with trace := Event.interp 0 t1 s.interpFrom s.stepFrom :: s.trace })

/-- `interp_beyond_t1` -/
def Cfg.interpBeyond (cfg : Cfg α σ) (s : TimeStepState α σ) (t1 : α) : LSolState α × TimeStepState α σ :=
  let r := cfg.solver.interpFwd t1 s.interpFrom s.stepFrom
  (r.sol, { dt := s.dt, stepFrom := r.stepFrom, interpFrom := r.interpFrom, control := s.control,
            errorStepFrom := s.errorStepFrom,
            trace := Event.interp 1 t1 s.interpFrom s.stepFrom :: s.trace })

/-- `interp_at_t1` -/
def Cfg.interpAt (cfg : Cfg α σ) (s : TimeStepState α σ) (t1 : α) : LSolState α × TimeStepState α σ :=
  let r := cfg.solver.interpAtT1 t1 s.interpFrom s.stepFrom
  (r.sol, { dt := s.dt, stepFrom := r.stepFrom, interpFrom := r.interpFrom, control := s.control,
            errorStepFrom := s.errorStepFrom,
            trace := Event.interp 2 t1 s.interpFrom s.stepFrom :: s.trace })

/-- the `switch` of `RejectionLoop.loop` on `branch_idx = where(is_before_t1, 0, where(is_after_t1, 1, 2))` -/
def Cfg.interpolate (cfg : Cfg α σ) (s : TimeStepState α σ) (t1 eps : α) : LSolState α × TimeStepState α σ :=
  if s.stepFrom.t + eps < t1 then cfg.interpSkip s t1
  else if s.stepFrom.t > t1 + eps then cfg.interpBeyond s t1
  else cfg.interpAt s t1

/-- `RejectionLoop.loop` -/
def Cfg.loop (cfg : Cfg α σ) (fuel : Nat) (s0 : TimeStepState α σ) (t1 eps : α) :
    Option (LSolState α × TimeStepState α σ) :=
  match (if s0.stepFrom.t + eps < t1 then cfg.step fuel s0 t1 else some s0) with
  | none => none
  | some s => some (cfg.interpolate s t1 eps)

/-- the `while_loop` of `advance` in `solve_adaptive_save_at`; `go` is `do_continue` -/
def Cfg.advanceWhile (cfg : Cfg α σ) (fuelR : Nat) (tNext eps : α) :
    Nat → Bool → LSolState α → TimeStepState α σ → Option (LSolState α × TimeStepState α σ)
  | _, false, sol, st => some (sol, st)
  | 0, true, _, _ => none
  | fuel + 1, true, _, st =>
    match cfg.loop fuelR st tNext eps with
    | none => none
    | some (sol', st') => cfg.advanceWhile fuelR tNext eps fuel (decide (st'.stepFrom.t + eps < tNext)) sol' st'

/-- `advance` (always enters the loop once); the returned solution is also logged as an `output` event -/
def Cfg.advance (cfg : Cfg α σ) (fuelA fuelR : Nat) (eps : α) (c : LSolState α × TimeStepState α σ) (tNext : α) :
    Option (LSolState α × TimeStepState α σ) :=
  match cfg.advanceWhile fuelR tNext eps fuelA true c.1 c.2 with
  | none => none
  | some (sol, st) => some (sol, { st with trace := Event.output tNext sol :: st.trace })

/-- `flow.scan(advance, init, xs)` -/
def Cfg.scan (cfg : Cfg α σ) (fuelA fuelR : Nat) (eps : α) :
    List α → LSolState α × TimeStepState α σ → Option (List (LSolState α) × (LSolState α × TimeStepState α σ))
  | [], c => some ([], c)
  | t :: ts, c =>
    match cfg.advance fuelA fuelR eps c t with
    | none => none
    | some c' =>
      match cfg.scan fuelA fuelR eps ts c' with
      | none => none
      | some (ys, cf) => some (c'.1 :: ys, cf)

/-- result of a solve: `solution0`, the stacked `solution`, and the final `TimeStepState`
(`solution1 = state.step_from`), i.e. the three arguments of `userfriendly_output` -/
structure SolveResult (α σ : Type) where
  solution0 : LSolState α
  solution : List (LSolState α)
  final : TimeStepState α σ

/-- `solve_adaptive_save_at(...)(u, save_at, dt0, eps)`; `save_at[0]` of an empty array is an error -/
def Cfg.solveSaveAt (cfg : Cfg α σ) (fuelA fuelR : Nat) (u : Nat) (saveAt : List α) (dt0 eps : α) :
    Option (SolveResult α σ) :=
  match saveAt with
  | [] => none
  | t0 :: xs =>
    let solution0 := cfg.solver.init t0 u
    let state := cfg.init solution0 dt0
    match cfg.scan fuelA fuelR eps xs (solution0, state) with
    | none => none
    | some (ys, cf) => some { solution0 := solution0, solution := ys, final := cf.2 }

/-- `solve_adaptive_terminal_values(...)(u, t0, t1, dt0, eps)`: `save_at = [t0, t1]`, last entry -/
def Cfg.solveTerminal (cfg : Cfg α σ) (fuelA fuelR : Nat) (u : Nat) (t0 t1 dt0 eps : α) :
    Option (LSolState α × TimeStepState α σ) :=
  match cfg.solveSaveAt fuelA fuelR u [t0, t1] dt0 eps with
  | some { solution := [y], final := st, .. } => some (y, st)
  | _ => none

/-- driving `RejectionLoop.loop` directly with an arbitrary list of targets (each solution is handed back) -/
def Cfg.loopSeq (cfg : Cfg α σ) (fuelR : Nat) (eps : α) :
    List α → TimeStepState α σ → Option (List (LSolState α) × TimeStepState α σ)
  | [], st => some ([], st)
  | t1 :: ts, st =>
    match cfg.loop fuelR st t1 eps with
    | none => none
    | some (sol, st') =>
      match cfg.loopSeq fuelR eps ts { st' with trace := Event.output t1 sol :: st'.trace } with
      | none => none
      | some (ys, sf) => some (sol :: ys, sf)

/-- `RejectionLoop.init` followed by `loop` calls for the given targets -/
def Cfg.solveLoopSeq (cfg : Cfg α σ) (fuelR : Nat) (u : Nat) (t0 : α) (targets : List α) (dt0 eps : α) :
    Option (SolveResult α σ) :=
  let solution0 := cfg.solver.init t0 u
  match cfg.loopSeq fuelR eps targets (cfg.init solution0 dt0) with
  | none => none
  | some (ys, sf) => some { solution0 := solution0, solution := ys, final := sf }

/-- loop condition of `test_util.solve_adaptive_save_every_step`. `withEps = false`: the shipped
`state.step_from.t < t1`; `withEps = true`: the proposed repair `state.step_from.t + eps < t1`
(`fixes/C06-save-every-step-stall.diff`); the harness reads from the source which one is in force. -/
def everyStepCond (withEps : Bool) (t eps t1 : α) : Bool :=
  if withEps then decide (t + eps < t1) else decide (t < t1)

/-- the python loop of `test_util.solve_adaptive_save_every_step`:
`while state.step_from.t < t1: solution, state = loop(state, t1); solutions.append(solution)` -/
def Cfg.everyStepWhile (cfg : Cfg α σ) (withEps : Bool) (fuelR : Nat) (t1 eps : α) :
    Nat → TimeStepState α σ → Option (List (LSolState α) × TimeStepState α σ)
  | 0, st => if everyStepCond withEps st.stepFrom.t eps t1 then none else some ([], st)
  | fuel + 1, st =>
    if everyStepCond withEps st.stepFrom.t eps t1 then
      match cfg.loop fuelR st t1 eps with
      | none => none
      | some (sol, st') =>
        match cfg.everyStepWhile withEps fuelR t1 eps fuel { st' with trace := Event.output t1 sol :: st'.trace } with
        | none => none
        | some (ys, sf) => some (sol :: ys, sf)
    else some ([], st)

/-- `solve_adaptive_save_every_step(...)(u, t0, t1, dt0, eps)` -/
def Cfg.solveEveryStep (cfg : Cfg α σ) (withEps : Bool) (fuelA fuelR : Nat) (u : Nat) (t0 t1 dt0 eps : α) :
    Option (SolveResult α σ) :=
  let solution0 := cfg.solver.init t0 u
  let state := cfg.init solution0 dt0
  match cfg.everyStepWhile withEps fuelR t1 eps fuelA state with
  | none => none
  | some (ys, sf) => some { solution0 := solution0, solution := ys, final := sf }

end

/-! ## observers of the ghost trace (used by the theorems and printed by the driver) -/
section
variable {α σ : Type}

/-- number of accepted attempts (`¬ ep < 1`) recorded in a trace -/
def accCount [LT α] [DecidableLT α] [One α] : List (Event α σ) → Nat
  | [] => 0
  | Event.attempt a :: tl => if a.ep < 1 then accCount tl else accCount tl + 1
  | _ :: tl => accCount tl

/-- sum of the step sizes of the accepted attempts recorded in a trace -/
def accSum [LT α] [DecidableLT α] [One α] [Zero α] [Add α] : List (Event α σ) → α
  | [] => 0
  | Event.attempt a :: tl => if a.ep < 1 then accSum tl else accSum tl + a.dt
  | _ :: tl => accSum tl

/-- the solutions handed back, oldest first -/
def outputsOf : List (Event α σ) → List (α × LSolState α)
  | [] => []
  | Event.output t1 s :: tl => outputsOf tl ++ [(t1, s)]
  | _ :: tl => outputsOf tl

end
end Pdq
