import Pdq.Model.Gauss
import Pdq.Model.Solver
/-!
# Pdq.Model.Sample — `MarkovSequence.sample`, `MarkovSequence.from_grid`, key bookkeeping

Transcribes `estimators_and_losses.py: MarkovSequence.sample / from_grid` and `sample_flat` of the three
normal classes, for one dense slice.  Square roots never enter: the factor `L` of every node is an *input*
(any matrix; the covariance it represents is `L Lᵀ`), and so are the base draws `ξ`.

`sample` (un-batched): `x_0 = m + L_0 ξ_0` for the stored marginal, then for every conditional in the order
the scan visits them `x_{j+1} = cond_j.apply_flat(x_j).mean + L_{j+1} ξ_{j+1}` where `L_{j+1}` is the factor of
`cond_j.apply_flat(x_j)` (`|to_observed| · noise.cholesky`, independent of `x_j`).

Keys are modelled as paths in the splitting tree (`split(key, n)[i] = key ++ [i]`), i.e. the free key algebra:
what is proved about them (distinctness) holds for every splitting function without collisions.
-/
namespace Pdq

/-- one visited conditional with the factor of the Gaussian it produces and the base draw used there -/
structure SampleNode (n p : Nat) (α : Type) where
  bw : PCond n n α
  L : Mat n p α
  xi : Vec p α

section
variable {α : Type} [Add α] [Mul α] [Sub α] [Neg α] [Zero α] [One α]

/-- `sample_flat`: `mean + L ξ` -/
def sampleFlat {n p : Nat} (mean : Vec n α) (L : Mat n p α) (xi : Vec p α) : Vec n α :=
  mean.add (L.mulVec xi)

/-- `IsotropicNormal.sample_flat` as shipped: the state is `d` slices (one per dimension) with a common factor, and
**one** base draw `ξ` of length `q+1` is added, through `L`, to every dimension -/
def isoSampleFlatShared {n p : Nat} (means : List (Vec n α)) (L : Mat n p α) (xi : Vec p α) : List (Vec n α) :=
  means.map fun m => sampleFlat m L xi

/-- the scan of `sample`: from the current sample `x` through the remaining nodes; returns all samples in
visiting order, current one first -/
def sampleSeq {n p : Nat} (x : Vec n α) : List (SampleNode n p α) → List (Vec n α)
  | [] => [x]
  | nd :: rest => x :: sampleSeq (sampleFlat (nd.bw.applyPt x).mean nd.L nd.xi) rest

/-- `MarkovSequence.sample(key, shape=())` in visiting order (stored marginal first) -/
def sampleChain {n p : Nat} (mean : Vec n α) (L0 : Mat n p α) (xi0 : Vec p α)
    (nodes : List (SampleNode n p α)) : List (Vec n α) :=
  sampleSeq (sampleFlat mean L0 xi0) nodes

/-- what the code returns: `reverse = True` appends the first sample at the end (time order = reversed
visiting order), `reverse = False` prepends it (time order = visiting order) -/
def sampleOutput {n p : Nat} (reverse : Bool) (mean : Vec n α) (L0 : Mat n p α) (xi0 : Vec p α)
    (nodes : List (SampleNode n p α)) : List (Vec n α) :=
  if reverse then (sampleChain mean L0 xi0 nodes).reverse else sampleChain mean L0 xi0 nodes

/-- the linear part of the sampling map: the same recursion with all offsets removed -/
def sampleLinSeq {n p : Nat} (v : Vec n α) : List (SampleNode n p α) → List (Vec n α)
  | [] => [v]
  | nd :: rest => v :: sampleLinSeq ((nd.bw.den.A.mulVec v).add (nd.L.mulVec nd.xi)) rest

def sampleLin {n p : Nat} (L0 : Mat n p α) (xi0 : Vec p α) (nodes : List (SampleNode n p α)) : List (Vec n α) :=
  sampleLinSeq (L0.mulVec xi0) nodes

/-- the same nodes with all draws set to zero -/
def zeroDraws {n p : Nat} (nodes : List (SampleNode n p α)) : List (SampleNode n p α) :=
  nodes.map fun nd => { nd with xi := Vec.zero }

/-! ### `from_grid` -/

/-- `np.diff(grid)` -/
def gridDiffs : List α → List α
  | a :: b :: rest => (b - a) :: gridDiffs (b :: rest)
  | _ => []

/-- `MarkovSequence.from_grid(prior, grid, reverse)`: marginal `prior.init`, conditionals
`prior.transition(dt_i, output_scale = 1)` for `dt = diff(grid)`; returns the conditionals in the order in which
`sample` / `evaluate_marginals` visit them (the scan runs over the stacked conditionals backwards when
`reverse = True`). `tr` is the prior's transition at unit calibrated scale (e.g. `Iwp.transition1 q · s2`). -/
def fromGridConds {n : Nat} (tr : α → PCond n n α) (grid : List α) (reverse : Bool) : List (PCond n n α) :=
  let cs := (gridDiffs grid).map tr
  if reverse then cs.reverse else cs

end

/-! ### keys and shapes -/

/-- a key is identified with its path in the splitting tree -/
abbrev KeyPath := List Nat

/-- `random.split(key, num)` -/
def KeyPath.split (key : KeyPath) (num : Nat) : List KeyPath := (List.range num).map fun i => key ++ [i]

/-- keys handed to `sample_flat` by the un-batched `sample` for a chain with `cnt` conditionals, in visiting
order: `key, subkey = split(key, 2)` before the stored marginal and before every conditional -/
def sampleKeys (key : KeyPath) : Nat → List KeyPath
  | 0 => [key ++ [1]]
  | cnt + 1 => (key ++ [1]) :: sampleKeys (key ++ [0]) cnt

/-- the key with which the un-batched `sample` is called for the entry `idx` of a sample of shape `shape`
(`keys = split(key, n)`, `vmap` over the keys, recursively); `none` outside the shape -/
def shapedKey (key : KeyPath) : List Nat → List Nat → Option KeyPath
  | [], [] => some key
  | s :: shape, i :: idx => if i < s then shapedKey (key ++ [i]) shape idx else none
  | _, _ => none

/-- all keys handed to `sample_flat` for entry `idx` -/
def shapedSampleKeys (key : KeyPath) (shape idx : List Nat) (cnt : Nat) : Option (List KeyPath) :=
  (shapedKey key shape idx).map fun k => sampleKeys k cnt

end Pdq
