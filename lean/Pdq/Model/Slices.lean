import Pdq.Model.Solver
/-!
# Pdq.Model.Slices — one solver step of a factorised (isotropic / block-diagonal) state

The isotropic and block-diagonal factorisations carry `d` dense slices of size `n = q+1` (one per state
component; isotropic: all with the same covariance).  The prediction and the update act slice by slice
(`Solver.step` of `Pdq.Model.Solver`); the only coupling is the linearisation, which sees the predicted means
of *all* slices (`constraint.linearize` evaluates the vector field at the full predicted state).
-/
namespace Pdq

section
variable {α : Type} [Add α] [Mul α] [Sub α] [Neg α] [Zero α] [One α] [Div α]

/-- `solver.step` on `d` slices: `lin means a` is the observation model of slice `a` given all predicted means -/
def Solver.stepSlices {d k n : Nat} (s : Strategy) (tr : Fin d → PCond n n α)
    (lin : (Fin d → Vec n α) → Fin d → Cond k n α) (st : Fin d → SolState n α)
    (Gt : Fin d → Mat n n α) (Gu : Fin d → Mat n k α) : Fin d → SolState n α :=
  let pred : Fin d → SolState n α := fun b => s.predict (tr b) (st b) (Gt b)
  let c := lin fun b => (pred b).u.mean
  fun a => (pred a).update ((c a).bayesZero (pred a).u (Gu a))

end
end Pdq
