import Pdq.Model.Expr
/-!
# Pdq.Model.Jet — the Taylor-coefficient routines of `jet_expansion_algorithms.py`

`fs` is the vector field of the ODE `u^(K) = f(u, …, u^(K-1), t)` as a list of polynomial programs
(one per state component), `inits = [u_0, …, u_{K-1}]` the initial coefficient vectors.

* `taylorCoeffs` — the specification: `u_{K+j} = (D^j f)(u_0, …, t)`;
* `increment`, `unroll`, `paddedScan` — `jetexpand_ode_coefficient_increment`,
  `jetexpand_ode_unroll`, `jetexpand_ode_padded_scan`;
* `jvpVariant` — `jetexpand_ode_via_jvp` (current code: closes over `t`);
  `jvpVariantAug` — the same recursion on the time-augmented state (proposed repair);
* `doubling` — `jetexpand_ode_doubling_unroll` (current code: closes over `t`);
  `doublingAug` — time-augmented repair.
-/
namespace Pdq
namespace Jet
open Expr
variable {K : Type} [Zero K] [One K] [Add K] [Mul K] [Neg K] [Div K]

/-- evaluate the vector field on a coefficient list -/
def evalVec (fs : List (Expr K)) (c : List (List K)) (t : K) : List K := fs.map (evalOn c t)

/-- **specification**: extend `inits` by `num` coefficients, `u_{K+j} = (D^j f)(u_0, …, u_{K+j-1}, t)` -/
def taylorCoeffs (fs : List (Expr K)) (inits : List (List K)) (t : K) : Nat → List (List K)
  | 0 => inits
  | num + 1 =>
    let c := taylorCoeffs fs inits t num
    c ++ [fs.map fun f => evalOn c t (iter D num f)]

/-- `jetexpand_ode_coefficient_increment(num_arguments=K)`:
`primals, series = args_autonomous_and_jet_compatible(tc, K, t)`; `p, s_new = jet(vf, primals, series)`;
`return [*tc[:K], p, *s_new]` -/
def increment (Kk : Nat) (fs : List (Expr K)) (tc : List (List K)) (t : K) : List (List K) :=
  let (pu, su) := argsAuto tc Kk
  let st : List K := seriesT (su.getD 0 []).length
  tc.take Kk ++ jet fs pu su t st

/-- `jetexpand_ode_unroll(num=num)` -/
def unroll (fs : List (Expr K)) (inits : List (List K)) (t : K) (num : Nat) : List (List K) :=
  if num = 0 then inits else
  let Kk := inits.length
  let tc0 := inits ++ [evalVec fs inits t]
  iter (fun tc => increment Kk fs tc t) (num - 1) tc0

/-- `_pad_to_length(x, length, value)`: `x + [value] * (length - len(x))` -/
def padTo {α : Type} (x : List α) (length : Nat) (value : α) : List α :=
  x ++ List.replicate (length - x.length) value

/-- `jetexpand_ode_padded_scan(num=num)` -/
def paddedScan (fs : List (Expr K)) (inits : List (List K)) (t : K) (num : Nat) : List (List K) :=
  if num = 0 then inits else
  let Kk := inits.length
  let primals := evalVec fs inits t
  let tc0 := inits ++ [primals]
  if num = 1 then tc0 else
  let zeros : List K := primals.map fun _ => 0
  let tc1 := padTo tc0 (Kk + num) zeros
  iter (fun tc => (increment Kk fs tc t).dropLast) (num - 1) tc1

/-- `jetexpand_ode_via_jvp(num=num)`, current code: `g_0 = f`, `g_{n+1} = jvp(g_n, x, (x_1, …, f(x)))`
with `t` closed over; returns `[*inits, g_0(inits), …, g_{num-1}(inits)]` -/
def jvpVariant (fs : List (Expr K)) (inits : List (List K)) (t : K) (num : Nat) : List (List K) :=
  if num = 0 then inits else
  let Kk := inits.length
  inits ++ tabulate num fun n => fs.map fun f => evalOn inits t (iter (lie Kk fs 0) n f)

/-- proposed repair of `jetexpand_ode_via_jvp` (fixes/C10-jvp-time.diff): `t` is an explicit argument
of the differentiated function with tangent `1` (state augmented with the time) -/
def jvpVariantAug (fs : List (Expr K)) (inits : List (List K)) (t : K) (num : Nat) : List (List K) :=
  if num = 0 then inits else
  let Kk := inits.length
  inits ++ tabulate num fun n => fs.map fun f => evalOn inits t (iter (lie Kk fs 1) n f)

/-! ### Newton doubling (first-order ODEs only; normalised coefficients) -/

def vadd (a b : List K) : List K := List.zipWith (· + ·) a b
def vdivNat (a : List K) (n : Nat) : List K := a.map (· / natK n)

/-- `jet_embedded(vf, *c, degree=deg, t=t)` with `n = 2·deg`: normalised coefficients `c_0 … c_{deg-1}`
padded by `deg` zeros, pushed through `jet(..., is_tcoeff=True)`; `T` is the series of the time argument
(`const t` in the current code, which closes over `t`).  Returns `n` normalised coefficient vectors. -/
def jetEmbeddedN (n : Nat) (fs : List (Expr K)) (c : List (List K)) (T : TSer n K) : List (List K) :=
  let deg := c.length
  let zeros : List K := (c.getD 0 []).map fun _ => 0
  let emb := c ++ List.replicate deg zeros
  let S : Nat → Nat → TSer n K := fun _ i => TSer.ofFn n fun j => getU emb j i
  let outs := fs.map (evalTS n S T)
  tabulate n fun j => outs.map fun o => o.get j

/-- the JVP (`jax.linearize`) of `jet_embedded` with respect to `c_0 … c_{deg-1}` in the direction
`v_0 … v_{deg-1}` (forward mode through the truncated-series program, `jvpTS`) -/
def jetEmbeddedJvpN (n : Nat) (fs : List (Expr K)) (c v : List (List K)) (T : TSer n K) : List (List K) :=
  let deg := c.length
  let zeros : List K := (c.getD 0 []).map fun _ => 0
  let emb := c ++ List.replicate deg zeros
  let S : Nat → Nat → TSer n K := fun _ i => TSer.ofFn n fun j => getU emb j i
  let V : Nat → Nat → TSer n K := fun _ i => TSer.ofFn n fun j => if j < deg then getU v j i else 0
  let outs := fs.map (jvpTS n S V T)
  tabulate n fun j => outs.map fun o => o.get j

/-- one `double` step with series length `n = 2·deg`: from `deg` to `2·deg + 1` normalised coefficients -/
def doubleN (n : Nat) (fs : List (Expr K)) (tc : List (List K)) (T : TSer n K) : List (List K) :=
  let deg := tc.length
  let fx := jetEmbeddedN n fs tc T
  let zeros : List K := (tc.getD 0 []).map fun _ => 0
  let cs0 : List (List K) := vdivNat (fx.getD (deg - 1) []) deg :: List.replicate deg zeros
  let cs := (List.range deg).foldl (fun (cs : List (List K)) i =>
      let lin := (jetEmbeddedJvpN n fs tc cs.dropLast T).getD i []
      let new := vdivNat (vadd (fx.getD (deg + i) []) lin) (i + deg + 1)
      cs.set (i + 1) new) cs0
  tc ++ cs

/-- `jetexpand_ode_coefficient_double` -/
def double (fs : List (Expr K)) (tc : List (List K)) (T : TSer (2 * tc.length) K) : List (List K) :=
  doubleN (2 * tc.length) fs tc T

/-- `_apply_factorial_scaling` -/
def factorialScale (c : List (List K)) : List (List K) :=
  tabulate c.length fun j => (c.getD j []).map fun x => x * factK j

/-- `jetexpand_ode_doubling_unroll(num_doublings)`, current code (`t` closed over: the series of
the time argument is the constant `t`) -/
def doubling (fs : List (Expr K)) (u0 : List K) (t : K) (numDoublings : Nat) : List (List K) :=
  factorialScale (iter (fun tc => double fs tc (TSer.const _ t)) numDoublings [u0])

/-- time-aware variant: the series of the time argument is `t + ε` -/
def doublingAug (fs : List (Expr K)) (u0 : List K) (t : K) (numDoublings : Nat) : List (List K) :=
  factorialScale (iter (fun tc => double fs tc
    (TSer.ofFn _ fun j => if j = 0 then t else if j = 1 then 1 else 0)) numDoublings [u0])

/-- number of coefficients after `n` doublings: `1, 3, 7, 15, …` (`= 2^(n+1) − 1`) -/
def dlen : Nat → Nat
  | 0 => 1
  | n + 1 => 2 * dlen n + 1


end Jet
end Pdq
