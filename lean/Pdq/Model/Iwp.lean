import Pdq.Model.Gauss
/-!
# Pdq.Model.Iwp — the integrated-Wiener-process transition, as the code builds it

Transcribes `utilities.system_matrices_1d_iwp` (flipped Pascal matrix, flipped Hilbert Gram matrix —
the code stores a Cholesky factor of it, the model stores the Gram matrix itself),
`utilities.preconditioner_taylor` and `*WienerIntegrated.transition` of the three factorisations.

Conventions (DESIGN §1.1): state `[u, u', …, u^(q)]`, `A_1d[i,j] = C(q-i, j-i)`,
`(Q_1d Q_1dᵀ)[i,j] = 1/(2q+1-i-j)`, `p_i(h) = h^(q-i)/(q-i)!`.
`h > 0` is assumed (the property's quantifier); the code's `|dt|` is then `dt`.
-/
namespace Pdq

def factN : Nat → Nat
  | 0 => 1
  | n+1 => (n+1) * factN n

/-- Pascal recursion -/
def chooseN : Nat → Nat → Nat
  | _, 0 => 1
  | 0, _+1 => 0
  | n+1, k+1 => chooseN n k + chooseN n (k+1)

section
variable {α : Type} [Add α] [Mul α] [Sub α] [Neg α] [Zero α] [One α] [Div α] [NatCast α]

def powN (x : α) : Nat → α
  | 0 => 1
  | k+1 => powN x k * x

/-- `A_1d`: `flip(pascal)`; `A[i,j] = C(q-i, j-i)` for `j ≥ i`, else 0 -/
def Iwp.A1 (q : Nat) : Mat (q+1) (q+1) α :=
  Mat.ofFn fun i j => if i.val ≤ j.val then ((chooseN (q - i.val) (j.val - i.val) : Nat) : α) else 0

/-- Gram matrix of `Q_1d`: the flipped Hilbert matrix `1/(2q+1-i-j)` -/
def Iwp.H1 (q : Nat) : Mat (q+1) (q+1) α :=
  Mat.ofFn fun i j => 1 / (((2 * q + 1 - i.val - j.val : Nat) : α))

/-- `preconditioner_taylor(q)(h)`: `p_i = h^(q-i)/(q-i)!` and its entrywise inverse -/
def Iwp.precon (q : Nat) (h : α) : Vec (q+1) α × Vec (q+1) α :=
  (Vec.ofFn fun i => powN h (q - i.val) / ((factN (q - i.val) : Nat) : α),
   Vec.ofFn fun i => ((factN (q - i.val) : Nat) : α) / powN h (q - i.val))

/-- one-dimensional transition over a step `h` with squared total output scale `s2`
(= (`output_scale` × base scale)²): noise covariance `h · s2 · H1`, scalings `to_latent = p⁻¹`, `to_observed = p`. -/
def Iwp.transition1 (q : Nat) (h s2 : α) : PCond (q+1) (q+1) α :=
  let pp := Iwp.precon q h
  { A := Iwp.A1 q, b := Vec.zero, Q := Mat.smul (h * s2) (Iwp.H1 q), tl := pp.2, tob := pp.1 }

/-- dense `d`-dimensional transition, coefficient-major index `i*d + a`:
`A = kron(A1, I_d)`, noise covariance `h · s2 · kron(H1, diag(lam2))`, scalings repeated `d` times. -/
def Iwp.transitionDense (q d : Nat) (h s2 : α) (lam2 : Vec d α) : PCond ((q+1)*d) ((q+1)*d) α :=
  let pp := Iwp.precon q h
  let A1 : Mat (q+1) (q+1) α := Iwp.A1 q
  let H1 : Mat (q+1) (q+1) α := Iwp.H1 q
  let co (x : Fin ((q+1)*d)) : Nat := x.val / d      -- coefficient index
  let di (x : Fin ((q+1)*d)) : Nat := x.val % d      -- dimension index
  let getM (M : Mat (q+1) (q+1) α) (i j : Nat) : α := if h1 : i < q+1 then (if h2 : j < q+1 then M.get ⟨i,h1⟩ ⟨j,h2⟩ else 0) else 0
  let getV (v : Vec (q+1) α) (i : Nat) : α := if h1 : i < q+1 then v.get ⟨i,h1⟩ else 0
  let getL (a : Nat) : α := if h1 : a < d then lam2.get ⟨a,h1⟩ else 0
  { A := Mat.ofFn fun x y => if di x = di y then getM A1 (co x) (co y) else 0
    b := Vec.zero
    Q := Mat.ofFn fun x y => if di x = di y then h * s2 * getL (di x) * getM H1 (co x) (co y) else 0
    tl := Vec.ofFn fun x => getV pp.2 (co x)
    tob := Vec.ofFn fun x => getV pp.1 (co x) }

/-! ### `cholesky_hilbert` (W. Kahan's recurrence), with the square roots factored out

`cholesky_util.cholesky_hilbert(n)` returns `L[j,i] = U[i,j] · sqrt(2i+1) · (1/f_j)` (`i ≤ j`) where `U` and `f` are
computed by rational recurrences.  The model keeps the rational part `M[j,i] = U[i,j]/f_j` and the squared column
scales `2i+1` separately (square roots never enter the model): `L = M · diag(sqrt(2i+1))`, `L Lᵀ = M diag(2i+1) Mᵀ`. -/

/-- `f[0] = 1`, `f[idx] = (((f[idx-1] / idx) * (2 idx)) / idx) * (2 idx + 1)` (shift `K = 0`) -/
def Iwp.kahanF : Nat → α
  | 0 => 1
  | i+1 => (((Iwp.kahanF i / ((i+1 : Nat) : α)) * ((2*(i+1) : Nat) : α)) / ((i+1 : Nat) : α)) * ((2*(i+1)+1 : Nat) : α)

/-- column `j` of `U`, downward recurrence from the diagonal: entry at distance `k` above the diagonal.
`g[i] = (g[i+1] / (j - i)) * (i + 1 + j + 1)` with `i = j-1-k`. -/
def Iwp.kahanU (j : Nat) : Nat → α
  | 0 => 1
  | k+1 => (Iwp.kahanU j k / ((k+1 : Nat) : α)) * (((j-1-k) + 1 + j + 1 : Nat) : α)

/-- rational part of `cholesky_hilbert(n)`: `L[j,i] = hilbCholRat[j,i] · sqrt(2i+1)` -/
def Iwp.hilbCholRat (n : Nat) : Mat n n α :=
  Mat.ofFn fun j i => if i.val ≤ j.val then Iwp.kahanU j.val (j.val - i.val) * (1 / Iwp.kahanF j.val) else 0

/-- squared column scales `dr² = odds = (1, 3, …, 2n-1)` -/
def Iwp.hilbCholColSq (n : Nat) : Vec n α := Vec.ofFn fun i => ((2 * i.val + 1 : Nat) : α)

/-- `L Lᵀ` for `L = cholesky_hilbert(n)` -/
def Iwp.hilbCholGram (n : Nat) : Mat n n α :=
  ((Iwp.hilbCholRat n).colScale (Iwp.hilbCholColSq n)).mul (Iwp.hilbCholRat n).tr

/-- squared entries `L[j,i]²` -/
def Iwp.hilbCholSq (n : Nat) : Mat n n α :=
  Mat.ofFn fun j i => (Iwp.hilbCholRat n).get j i * (Iwp.hilbCholRat n).get j i * (Iwp.hilbCholColSq n).get i

/-- the Hilbert matrix `1/(i+j+1)` -/
def Iwp.hilbert (n : Nat) : Mat n n α := Mat.ofFn fun i j => 1 / (((i.val + j.val + 1 : Nat) : α))

/-- the closed form of the squared entries: `L[i,j]² = (2j+1) (i!)⁴ / ((i-j)! (i+j+1)!)²`, `j ≤ i` -/
def Iwp.hilbCholSqClosed (n : Nat) : Mat n n α :=
  Mat.ofFn fun i j => if j.val ≤ i.val then
    (((2 * j.val + 1) * (factN i.val)^4 : Nat) : α) / ((((factN (i.val - j.val)) * factN (i.val + j.val + 1))^2 : Nat) : α)
  else 0

end
end Pdq
