import Pdq.Model.Gauss
import Pdq.Model.Solver
/-!
# Pdq.Model.Lml — marginal-likelihood losses, root-free form

Transcribes, for one *dense slice* (dense: the whole state; isotropic: one dimension, all dimensions
share the covariance; block-diagonal: one dimension with its own covariance; the code sums the
log-densities of the slices):

* `estimators_and_losses.py`: `MarkovSequence.evaluate_lml` (backward filtering of the data through the
  stored backward conditionals with the running mean / sum of the per-time log-densities),
  `loss_lml_timeseries`, `loss_lml_terminal_values`;
* `ssm_impl_api.py`: `bayes_rule_and_logpdf_tree` (`revert`, `logpdf` of the observed marginal, apply the
  reverted kernel to the datum);
* `ssm_impl_*.py`: `to_derivative` (observation model selecting Taylor coefficient `i`, noise `diag(std²)`).

A log-density `-½ (maha + k log 2π + log det S)` is represented by the pair `(maha, det S)`
(`LmlTerm`); the logarithm is taken by the harness.  Linear solves are certificates: the gain `G`
(`G S = P Hᵀ`), an inverse `W` of `S` and an `L U` factorisation of `S` (so that `det S = Π U_ii`).
-/
namespace Pdq

/-- the root-free content of one Gaussian log-density: `-½ (maha + k log 2π + log det)` -/
structure LmlTerm (α : Type) where
  maha : α
  det : α

/-- one datum with its observation model and the certificates of the Bayes step -/
structure LmlObs (k n : Nat) (α : Type) where
  c : Cond k n α
  u : Vec k α
  G : Mat n k α
  W : Mat k k α
  L : Mat k k α
  U : Mat k k α

section
variable {α : Type} [Add α] [Mul α] [Sub α] [Neg α] [Zero α] [One α]

/-! ### observation models (`to_derivative`) -/

/-- dense ravel order is coefficient-major (`index = i·d + a`): row `a` selects entry `i·d + a` -/
def toDerivativeDense (n d i : Nat) : Mat d n α := ⟨fun a c => if c.val = i * d + a.val then 1 else 0⟩

/-- isotropic / block-diagonal slices hold the `q+1` coefficients of one dimension: row selects entry `i` -/
def toDerivativeSlice (n i : Nat) : Mat 1 n α := ⟨fun _ c => if c.val = i then 1 else 0⟩

/-- `from_linop_and_noise(linop, from_mean_and_std(0, std))`: unit scalings, zero offset, noise `diag(std²)`;
`var` are the *squared* standard deviations -/
def obsCond {k n : Nat} (H : Mat k n α) (var : Vec k α) : Cond k n α :=
  { A := H, b := Vec.zero, Q := Mat.diag var }

/-! ### `bayes_rule_and_logpdf_tree` -/

/-- `(logpdf, updated)`: log-density of the datum under the observed marginal (as `(maha, det)`), and the
reverted kernel applied to the datum -/
def LmlObs.step {k n : Nat} (o : LmlObs k n α) (rv : Gauss n α) : LmlTerm α × Gauss n α :=
  let r := o.c.revertWith rv o.G
  ({ maha := r.1.maha o.W o.u, det := o.U.diagProd }, r.2.applyPt o.u)

/-- `evaluate_lml`, the per-time terms.  `rv` is the terminal marginal, `o` the terminal datum, the list holds
`(backward conditional, datum)` from the last interval to the first (the order in which the reverse scan
visits them).  Returns the terms in that order, terminal first. -/
def lmlTerms {k n : Nat} (rv : Gauss n α) (o : LmlObs k n α) :
    List (PCond n n α × LmlObs k n α) → List (LmlTerm α)
  | [] => [(o.step rv).1]
  | (bw, o') :: rest => (o.step rv).1 :: lmlTerms (bw.marg (o.step rv).2) o' rest

/-- the final filtering marginal of the backward pass (the law of the earliest state given all data);
not returned by the code, used to state the invariant -/
def lmlFinal {k n : Nat} (rv : Gauss n α) (o : LmlObs k n α) :
    List (PCond n n α × LmlObs k n α) → Gauss n α
  | [] => (o.step rv).2
  | (bw, o') :: rest => lmlFinal (bw.marg (o.step rv).2) o' rest

/-- `loss_lml_terminal_values`: marginalise the marginal through the observation model, then `logpdf` -/
def terminalLml {k n : Nat} (c : Cond k n α) (rv : Gauss n α) (u : Vec k α) (W U : Mat k k α) : LmlTerm α :=
  { maha := (c.marg rv).maha W u, det := U.diagProd }

end

section
variable {α : Type} [Add α] [Mul α] [Sub α] [Neg α] [Zero α] [One α] [DecidableEq α]

/-- the certificate checks of one Bayes step at the Gaussian it is applied to -/
def LmlObs.ok {k n : Nat} (o : LmlObs k n α) (rv : Gauss n α) : Bool :=
  o.c.gainOk rv o.G && (o.c.marg rv).cov.invOk o.W && (o.c.marg rv).cov.luOk o.L o.U

/-- all certificates along the backward pass -/
def lmlOk {k n : Nat} (rv : Gauss n α) (o : LmlObs k n α) :
    List (PCond n n α × LmlObs k n α) → Bool
  | [] => o.ok rv
  | (bw, o') :: rest => o.ok rv && lmlOk (bw.marg (o.step rv).2) o' rest

end

section
variable {β : Type} [Add β] [Mul β] [Div β] [One β]

/-- the running bookkeeping of `evaluate_lml` on an abstract value type: state `(logpdf, num_data)`,
update `(logpdf·num + new)/(num+1)` (average) or `logpdf + new` (sum) -/
def lmlUpdate (avg : Bool) (st : β × β) (new : β) : β × β :=
  (if avg then (st.1 * st.2 + new) / (st.2 + 1) else st.1 + new, st.2 + 1)

/-- `evaluate_lml`, the value returned: start from the terminal term with `num_data = 1`, fold the others -/
def lmlRunning (avg : Bool) (pdf0 : β) (rest : List β) : β := (rest.foldl (lmlUpdate avg) (pdf0, 1)).1

end
end Pdq
