import Pdq.Model.StepInit
import Pdq.Drv.Core
/-! driver ops for `Pdq.Model.StepInit` (C18) -/
namespace Pdq.Drv
open Pdq Pdq.StepInit

/-- the ten literals of `dt0_adaptive`, in source order -/
def pAdLits : P (AdLits Q) := do
  let small0 ← pRat; let small1 ← pRat; let hSmall ← pRat; let c0 ← pRat
  let tiny1 ← pRat; let tiny2 ← pRat; let hMin ← pRat; let shrink ← pRat; let c1 ← pRat; let grow ← pRat
  pure { small0, small1, hSmall, c0, tiny1, tiny2, hMin, shrink, c1, grow }

def opsStepInit : List (String × Handler) := [
  ("dt0_current", do
    let scale ← pRat; let nugget ← pRat; let n0 ← pRat; let n1 ← pRat; pEnd
    if n1 + nugget = 0 then throw "norm_f0 + nugget = 0"
    pure (showRat (dt0Current scale nugget n0 n1))),
  ("dt0_fixed", do
    let scale ← pRat; let nugget ← pRat; let n0 ← pRat; let n1 ← pRat; pEnd
    if n1 + nugget = 0 then throw "norm_f0 + nugget = 0"
    pure (showRat (dt0Fixed scale nugget n0 n1))),
  ("dt0ad_stage1", do
    -- answer: h0, and which branch was taken (1 = fallback literal, 0 = ratio)
    let L ← pAdLits; let d0 ← pRat; let d1 ← pRat; pEnd
    let fb : Nat := if d0 < L.small0 ∨ d1 < L.small1 then 1 else 0
    if fb = 0 ∧ d1 = 0 then throw "d1 = 0 in the ratio branch"
    pure (showRat (stage1 L d0 d1) ++ " " ++ toString fb)),
  ("dt0ad_stage2", do
    -- answer: tag (0 = guard value, 1 = radicand of the root), that value, grow*h0, d2
    let L ← pAdLits; let d1 ← pRat; let n2 ← pRat; let h0 ← pRat; pEnd
    if h0 = 0 then throw "h0 = 0"
    let d2 := d2Of n2 h0
    let out := match stage2 L d1 d2 h0 with
      | .guard v => "0 " ++ showRat v
      | .radicand x => "1 " ++ showRat x
    pure (out ++ " " ++ showRat (L.grow * h0) ++ " " ++ showRat d2))
]
end Pdq.Drv
