import Pdq.Model.Linearize
import Pdq.Drv.Expr
/-!
driver ops for `Pdq.Model.Linearize` (C11)

A *residual request* is `n d m` (state: `n` coefficients of dimension `d`; program: `m` output
vectors), `t`, the `n·d` entries of the linearisation point (coefficient-major), followed by the
`m·d'` programs.  Lifted programs are sent as `lift K liftBy` + base programs and expanded with
`Lin.liftExprs` (`C11.lift_spec`).
-/
namespace Pdq.Drv
open Pdq

/-- a *program spec* on the wire, expanded to the flat list of output programs and the number of
coefficients it reads:
`res K m nout e…`   — a residual of `K` coefficients with `nout` outputs, jet-lifted by `m`
                      (`[g, Dg, …, D^m g]`, `Lin.liftExprs`; `C11.lift_spec`);
`ode K m e…(d)`     — `residual_from_ode` of the ODE `u^(K) = f` jet-lifted by `m`
                      (`Lin.residualFromOde (liftIndices K m) (liftExprs m f)`);
`stack np spec…`    — `residual_from_stack`. -/
def pProgram (d : Nat) : Nat → P (List (Expr Q) × Nat)
  | 0 => throw "program too deep"
  | fuel + 1 => do
    let tk ← tok
    match tk with
    | "res" => do
      let k ← pNat; let m ← pNat; let nout ← pNat
      let gs ← pExprs nout
      checkWf gs k d
      pure ((Lin.liftExprs m gs).flatten, k + m)
    | "ode" => do
      let k ← pNat; let m ← pNat
      let f ← pExprs d
      checkWf f k d
      pure ((Lin.residualFromOde (Lin.liftIndices k m) (Lin.liftExprs m f)).flatten, k + m + 1)
    | "stack" => do
      let np ← pNat
      let mut out : List (Expr Q) := []
      let mut ord := 0
      for _ in [0:np] do
        let (p, o) ← pProgram d fuel
        out := out ++ p
        ord := max ord o
      pure (out, ord)
    | _ => throw s!"bad program token '{tk}'"

def opsLinearize : List (String × Handler) := [
  -- lift: K d liftBy(int) L t coeffs(L*d) ng exprs(ng)  ->  "none" | "some" values
  ("lin_lift", do
    let k ← pNat; let d ← pNat; let liftBy ← pInt; let len ← pNat; let t ← pRat
    let jc ← pCoeffs len d
    let ng ← pNat
    let gs ← pExprs ng
    pEnd
    if k = 0 then throw "K = 0"
    checkWf gs k d
    match Lin.lift k gs liftBy jc t with
    | none => pure "none"
    | some out => pure ("some " ++ showCoeffs out)),
  -- the lifted program evaluated symbolically: K d m L t coeffs ng exprs -> [g, Dg, .., D^m g](coeffs)
  ("lin_lift_exprs", do
    let k ← pNat; let d ← pNat; let m ← pNat; let len ← pNat; let t ← pRat
    let jc ← pCoeffs len d
    let ng ← pNat
    let gs ← pExprs ng
    pEnd
    checkWf gs k d
    if len < k + m then throw "not enough coefficients"
    pure (showCoeffs ((Lin.liftExprs m gs).map fun r => r.map (Expr.evalOn jc t)))),
  ("lin_lift_indices", do
    let idx ← pNat; let m ← pNat; pEnd
    pure (" ".intercalate ((Lin.liftIndices idx m).map toString))),
  ("lin_lift_max", do
    let numT ← pNat; let idx ← pNat; let k ← pNat; pEnd
    pure s!"{Lin.odeLiftMax numT idx} {Lin.residualLiftMax numT k}"),
  -- evaluate a program spec: n d t xi(n*d) spec -> order, values
  ("lin_eval", do
    let n ← pNat; let d ← pNat; let t ← pRat
    let xi ← pCoeffs n d
    let (rs, ord) ← pProgram d 8
    pEnd
    if n < ord then throw "not enough coefficients"
    pure (s!"{ord} " ++ showList (rs.map (Expr.evalOn xi t)))),
  -- dense linearisation: n d t xi(n*d) spec -> J (M x n*d) b (M)
  ("lin_dense", do
    let n ← pNat; let d ← pNat; let t ← pRat
    let xi ← pCoeffs n d
    let (rs, ord) ← pProgram d 8
    pEnd
    if n < ord then throw "not enough coefficients"
    let (J, b) := Lin.linDense n d rs xi t
    pure (showMat J ++ " " ++ showVec b)),
  -- block-diagonal: n d m t xi exprs(m*d) -> for j<d: J_j (m x n) b_j (m)
  ("lin_bd", do
    let n ← pNat; let d ← pNat; let t ← pRat
    let xi ← pCoeffs n d
    let (rs, ord) ← pProgram d 8
    pEnd
    if n < ord then throw "not enough coefficients"
    if d = 0 then throw "d = 0"
    if rs.length % d ≠ 0 then throw "outputs are not (m, d)-shaped"
    let m := rs.length / d
    let parts := (List.range d).map fun j =>
      let (J, b) := Lin.linBlockDiag n d m rs xi t j
      showMat J ++ " " ++ showVec b
    pure (" ".intercalate parts)),
  -- isotropic: n d m t xi exprs(m*d) -> H (m x n) B (m x d)
  ("lin_iso", do
    let n ← pNat; let d ← pNat; let t ← pRat
    let xi ← pCoeffs n d
    let (rs, ord) ← pProgram d 8
    pEnd
    if n < ord then throw "not enough coefficients"
    if d = 0 then throw "d = 0"
    if rs.length % d ≠ 0 then throw "outputs are not (m, d)-shaped"
    let m := rs.length / d
    let (H, B) := Lin.linIso n d m rs xi t
    pure (showMat H ++ " " ++ showMat B)),
  -- TS0: n d p idxs(p) fv(p*d) -> dense H (p*d x n*d), b (p*d); iso H (p x n), B (p x d)
  ("lin_ts0", do
    let n ← pNat; let d ← pNat; let p ← pNat
    let mut idxs : Array Nat := #[]
    for _ in [0:p] do
      idxs := idxs.push (← pNat)
    let fv ← pCoeffs p d
    pEnd
    for i in idxs do
      if i ≥ n then throw "output index outside the state"
    let (Hd, bd) := Lin.linTs0Dense n d idxs.toList fv
    let (Hi, Bi) := Lin.linTs0Iso n d idxs.toList fv
    pure (showMat Hd ++ " " ++ showVec bd ++ " " ++ showMat Hi ++ " " ++ showMat Bi)),
  -- residual_from_ode: p idxs(p) d vf(p*d exprs) -> evaluated at: L t coeffs(L*d)
  ("lin_res_from_ode", do
    let p ← pNat
    let mut idxs : Array Nat := #[]
    for _ in [0:p] do
      idxs := idxs.push (← pNat)
    let d ← pNat
    let mut vf : Array (List (Expr Q)) := #[]
    for _ in [0:p] do
      vf := vf.push (← pExprs d)
    let len ← pNat; let t ← pRat
    let jc ← pCoeffs len d
    pEnd
    for f in vf do checkWf f len d
    for i in idxs do
      if i ≥ len then throw "output index outside the coefficients"
    let rs := Lin.residualFromOde idxs.toList vf.toList
    pure (showCoeffs (rs.map fun r => r.map (Expr.evalOn jc t)))),
  -- residual_from_stack: nparts, per part: K m exprs(m*d) ; then d L t coeffs
  ("lin_stack", do
    let d ← pNat; let np ← pNat
    let mut parts : Array (Nat × List (List (Expr Q))) := #[]
    for _ in [0:np] do
      let k ← pNat; let m ← pNat
      let mut outs : Array (List (Expr Q)) := #[]
      for _ in [0:m] do
        let e ← pExprs d
        checkWf e k d
        outs := outs.push e
      parts := parts.push (k, outs.toList)
    let len ← pNat; let t ← pRat
    let jc ← pCoeffs len d
    pEnd
    if len < Lin.stackOrder parts.toList then throw "not enough coefficients"
    let out := Lin.stackEval parts.toList jc t
    pure (s!"{Lin.stackOrder parts.toList} " ++ showList (out.flatten.flatten)))
]

end Pdq.Drv
