import Pdq.Model.Linearize
import Pdq.Drv.Expr
/-!
driver ops for `Pdq.Model.Linearize` (C11)

A *residual request* is `n d m` (state: `n` coefficients of dimension `d`; program: `m` output
vectors), `t`, the `n·d` entries of the linearisation point (coefficient-major), followed by the
`m·d'` programs.  Lifted programs are sent as `lift K liftBy` + base programs and expanded with
`Lin.liftExprs` (`C11.lift_spec`).
-/
namespace Pdq.Drv
open Pdq

def opsLinearize : List (String × Handler) := [
  -- lift: K d liftBy(int) L t coeffs(L*d) ng exprs(ng)  ->  "none" | "some" values
  ("lin_lift", do
    let k ← pNat; let d ← pNat; let liftBy ← pInt; let len ← pNat; let t ← pRat
    let jc ← pCoeffs len d
    let ng ← pNat
    let gs ← pExprs ng
    pEnd
    if k = 0 then throw "K = 0"
    checkWf gs k d
    match Lin.lift k gs liftBy jc t with
    | none => pure "none"
    | some out => pure ("some " ++ showCoeffs out)),
  -- the lifted program evaluated symbolically: K d m L t coeffs ng exprs -> [g, Dg, .., D^m g](coeffs)
  ("lin_lift_exprs", do
    let k ← pNat; let d ← pNat; let m ← pNat; let len ← pNat; let t ← pRat
    let jc ← pCoeffs len d
    let ng ← pNat
    let gs ← pExprs ng
    pEnd
    checkWf gs k d
    if len < k + m then throw "not enough coefficients"
    pure (showCoeffs ((Lin.liftExprs m gs).map fun r => r.map (Expr.evalOn jc t)))),
  ("lin_lift_indices", do
    let idx ← pNat; let m ← pNat; pEnd
    pure (" ".intercalate ((Lin.liftIndices idx m).map toString))),
  ("lin_lift_max", do
    let numT ← pNat; let idx ← pNat; let k ← pNat; pEnd
    pure s!"{Lin.odeLiftMax numT idx} {Lin.residualLiftMax numT k}"),
  -- dense linearisation: n d t xi(n*d) M exprs(M) -> J (M x n*d) b (M) r (M)
  ("lin_dense", do
    let n ← pNat; let d ← pNat; let t ← pRat
    let xi ← pCoeffs n d
    let m ← pNat
    let rs ← pExprs m
    pEnd
    checkWf rs n d
    let (J, b) := Lin.linDense n d rs xi t
    pure (showMat J ++ " " ++ showVec b)),
  -- block-diagonal: n d m t xi exprs(m*d) -> for j<d: J_j (m x n) b_j (m)
  ("lin_bd", do
    let n ← pNat; let d ← pNat; let m ← pNat; let t ← pRat
    let xi ← pCoeffs n d
    let rs ← pExprs (m * d)
    pEnd
    checkWf rs n d
    let parts := (List.range d).map fun j =>
      let (J, b) := Lin.linBlockDiag n d m rs xi t j
      showMat J ++ " " ++ showVec b
    pure (" ".intercalate parts)),
  -- isotropic: n d m t xi exprs(m*d) -> H (m x n) B (m x d)
  ("lin_iso", do
    let n ← pNat; let d ← pNat; let m ← pNat; let t ← pRat
    let xi ← pCoeffs n d
    let rs ← pExprs (m * d)
    pEnd
    if d = 0 then throw "d = 0"
    checkWf rs n d
    let (H, B) := Lin.linIso n d m rs xi t
    pure (showMat H ++ " " ++ showMat B)),
  -- TS0: n d p idxs(p) fv(p*d) -> dense H (p*d x n*d), b (p*d); iso H (p x n), B (p x d)
  ("lin_ts0", do
    let n ← pNat; let d ← pNat; let p ← pNat
    let mut idxs : Array Nat := #[]
    for _ in [0:p] do
      idxs := idxs.push (← pNat)
    let fv ← pCoeffs p d
    pEnd
    for i in idxs do
      if i ≥ n then throw "output index outside the state"
    let (Hd, bd) := Lin.linTs0Dense n d idxs.toList fv
    let (Hi, Bi) := Lin.linTs0Iso n d idxs.toList fv
    pure (showMat Hd ++ " " ++ showVec bd ++ " " ++ showMat Hi ++ " " ++ showMat Bi)),
  -- residual_from_ode: p idxs(p) d vf(p*d exprs) -> evaluated at: L t coeffs(L*d)
  ("lin_res_from_ode", do
    let p ← pNat
    let mut idxs : Array Nat := #[]
    for _ in [0:p] do
      idxs := idxs.push (← pNat)
    let d ← pNat
    let mut vf : Array (List (Expr Q)) := #[]
    for _ in [0:p] do
      vf := vf.push (← pExprs d)
    let len ← pNat; let t ← pRat
    let jc ← pCoeffs len d
    pEnd
    for f in vf do checkWf f len d
    for i in idxs do
      if i ≥ len then throw "output index outside the coefficients"
    let rs := Lin.residualFromOde idxs.toList vf.toList
    pure (showCoeffs (rs.map fun r => r.map (Expr.evalOn jc t)))),
  -- residual_from_stack: nparts, per part: K m exprs(m*d) ; then d L t coeffs
  ("lin_stack", do
    let d ← pNat; let np ← pNat
    let mut parts : Array (Nat × List (List (Expr Q))) := #[]
    for _ in [0:np] do
      let k ← pNat; let m ← pNat
      let mut outs : Array (List (Expr Q)) := #[]
      for _ in [0:m] do
        let e ← pExprs d
        checkWf e k d
        outs := outs.push e
      parts := parts.push (k, outs.toList)
    let len ← pNat; let t ← pRat
    let jc ← pCoeffs len d
    pEnd
    if len < Lin.stackOrder parts.toList then throw "not enough coefficients"
    let out := Lin.stackEval parts.toList jc t
    pure (s!"{Lin.stackOrder parts.toList} " ++ showList (out.flatten.flatten)))
]

end Pdq.Drv
