import Pdq.Model.Adaptive
import Pdq.Generated.Consts
import Pdq.Drv.Core
/-!
driver ops for the adaptive state machine (C06).

`c06_run`: executes `Pdq.Cfg.solveSaveAt` / `solveTerminal` / `solveEveryStep` at `Rat` with

* the scripted solver of the harness (`step` adds `dt` to `t`, 1 to `num_steps`, rehashes the payload id;
  the interpolations return the times documented in `solvers.py` and payload ids that depend on
  *which* states were passed as `interp_from` / `interp_to`),
* a scripted error estimator: a finite table `(t, dt) ↦ error_power` (exact match) over a
  piecewise-constant profile `t ↦ (h, acc, rej)` (`error_power = acc` if `dt ≤ h` else `rej`),
* `control_integral` / `control_proportional_integral` with the given parameters, powers either with
  natural exponents or looked up in a table of float64 powers supplied by the harness,
* the acceptance seed taken from `Pdq.Consts.acceptanceFactorInit` (i.e. from the current source).

and prints the trace.
-/
namespace Pdq.Drv
open Pdq

def tagStep (tag : Nat) : Nat := (3 * tag + 1) % 1009
def tagInterp (a b : LSolState Q) (k : Nat) : Nat := (3 * b.tag + 5 * a.tag + k) % 1009

/-- the scripted solver (mirrors `ScriptedSolver` in `harness/checks/c06.py`) -/
def scriptedSolver : LSolver Q where
  init := fun t u => ⟨t, 0, u⟩
  step := fun s dt => ⟨s.t + dt, s.numSteps + 1, tagStep s.tag⟩
  interpFwd := fun t a b =>
    { sol := ⟨t, b.numSteps, tagInterp a b 2⟩, stepFrom := ⟨b.t, b.numSteps, tagInterp a b 3⟩,
      interpFrom := ⟨t, a.numSteps, tagInterp a b 4⟩ }
  interpAtT1 := fun _ a b =>
    { sol := ⟨b.t, b.numSteps, tagInterp a b 5⟩, stepFrom := ⟨b.t, b.numSteps, tagInterp a b 6⟩,
      interpFrom := ⟨b.t, a.numSteps, tagInterp a b 7⟩ }

structure Script where
  bps : List Q
  hs : List Q
  accs : List Q
  rejs : List Q
  table : List (Q × Q × Q)

def Script.errorPower (s : Script) (t dt : Q) : Q :=
  match s.table.find? (fun e => e.1 == t && e.2.1 == dt) with
  | some e => e.2.2
  | none =>
    let idx := (s.bps.filter (fun b => b ≤ t)).length
    if dt ≤ s.hs.getD idx 0 then s.accs.getD idx 0 else s.rejs.getD idx 0

def scriptedEst (s : Script) : Est Q where
  init := 0
  estimate := fun es prev prop dt => (s.errorPower prev.t dt, (7 * es + prop.tag + 1) % 1013)

def natExp? (e : Q) : Option Nat := if e.den = 1 ∧ 0 ≤ e.num then some e.num.toNat else none

/-- powers with natural exponents (validated by the parser); `0` never reached for a valid request -/
def pwNat (x e : Q) : Q := match natExp? e with | some n => x ^ n | none => 0

/-- powers from a table `(x, e) ↦ v`; a miss yields `-1`, which `c06_run` turns into an error -/
def pwTable (tab : List (Q × Q × Q)) (x e : Q) : Q :=
  match tab.find? (fun r => r.1 == x && r.2.1 == e) with
  | some r => r.2.2
  | none => -1

def showSol (s : LSolState Q) : String := s!"{showRat s.t} {s.numSteps} {s.tag}"

def showEvent {σ} (showC : σ → String) : Event Q σ → String
  | .attempt a =>
    s!"A {showRat a.t1} {showSol a.src} {showRat a.dt} {showSol a.proposed} {showRat a.ep} {showRat a.dtNew} {a.esIn} {a.esOut} {showC a.cIn} {showC a.cOut}"
  | .interp b t1 f g => s!"I {b} {showRat t1} {showSol f} {showSol g}"
  | .output t1 s => s!"O {showRat t1} {showSol s}"

def showResult {σ} (showC : σ → String) (r : SolveResult Q σ) : String :=
  let evs := r.final.trace.reverse.map (showEvent showC)
  let ys := r.solution.map fun y => "Y " ++ showSol y
  let st := r.final
  " ".intercalate (evs ++ [s!"S0 {showSol r.solution0}"] ++ ys ++
    [s!"F {showRat st.dt} {showSol st.stepFrom} {showSol st.interpFrom} {st.errorStepFrom} {showC st.control}",
     s!"N {accCount st.trace} {showRat (accSum st.trace)}"])

def runMode {σ} (cfg : Cfg Q σ) (showC : σ → String) (mode fuelA fuelR u : Nat) (save : List Q) (dt0 eps : Q) :
    Except String String :=
  match mode with
  | 0 => match cfg.solveSaveAt fuelA fuelR u save dt0 eps with
    | some r => pure (showResult showC r)
    | none => pure "FUEL"
  | 1 => match save with
    | [t0, t1] => match cfg.solveTerminal fuelA fuelR u t0 t1 dt0 eps with
      | some (y, st) => pure (showResult showC { solution0 := cfg.solver.init t0 u, solution := [y], final := st })
      | none => pure "FUEL"
    | _ => throw "mode 1 needs save = [t0, t1]"
  | 2 => match save with
    | [t0, t1] => match cfg.solveEveryStep false fuelA fuelR u t0 t1 dt0 eps with
      | some r => pure (showResult showC r)
      | none => pure "FUEL"
    | _ => throw "mode 2 needs save = [t0, t1]"
  | 3 => match save with
    | [t0, t1] => match cfg.solveEveryStep true fuelA fuelR u t0 t1 dt0 eps with
      | some r => pure (showResult showC r)
      | none => pure "FUEL"
    | _ => throw "mode 3 needs save = [t0, t1]"
  | 4 => match save with
    | t0 :: targets => match cfg.solveLoopSeq fuelR u t0 targets dt0 eps with
      | some r => pure (showResult showC r)
      | none => pure "FUEL"
    | [] => throw "mode 4 needs save = t0 :: targets"
  | _ => throw "bad mode"

def pQList (n : Nat) : P (List Q) := do
  let a ← pList n
  pure a.toList

def pTriples (n : Nat) : P (List (Q × Q × Q)) := do
  let mut out : Array (Q × Q × Q) := #[]
  for _ in [0:n] do
    let a ← pRat; let b ← pRat; let c ← pRat
    out := out.push (a, b, c)
  pure out.toList

def opsAdaptive : List (String × Handler) := [
  ("c06_run", do
    let mode ← pNat
    let ctlKind ← pNat
    let safety ← pRat; let fmin ← pRat; let fmax ← pRat; let expI ← pRat; let expP ← pRat
    let pwMode ← pNat
    let clip ← pNat
    let seedSrc ← pNat
    let seed ← if seedSrc = 0 then pure Pdq.Consts.acceptanceFactorInit else pRat
    let dt0 ← pRat; let eps ← pRat
    let fuelA ← pNat; let fuelR ← pNat; let u ← pNat
    let nSave ← pNat; let save ← pQList nSave
    let nB ← pNat; let bps ← pQList nB
    let hs ← pQList (nB + 1); let accs ← pQList (nB + 1); let rejs ← pQList (nB + 1)
    let nTab ← pNat; let table ← pTriples nTab
    let nPw ← pNat; let pwTab ← pTriples nPw
    pEnd
    let script : Script := { bps, hs, accs, rejs, table }
    let est := scriptedEst script
    if ctlKind = 0 then
      let cfg : Cfg Q Unit := { solver := scriptedSolver, est, ctl := ctlI ⟨safety, fmin, fmax⟩, clip := clip != 0, seed }
      match runMode cfg (fun _ => "0") mode fuelA fuelR u save dt0 eps with
      | .ok s => pure s
      | .error e => throw e
    else if ctlKind = 1 then
      if pwMode = 0 && ((natExp? expI).isNone || (natExp? expP).isNone) then throw "pwMode 0 needs natural exponents"
      let pw : Q → Q → Q := if pwMode = 0 then pwNat else pwTable pwTab
      let cfg : Cfg Q Q := { solver := scriptedSolver, est, ctl := ctlPI pw ⟨safety, fmin, fmax, expI, expP⟩, clip := clip != 0, seed }
      -- a table miss anywhere in the run is an error of the request, never a silent default
      let missing (st : TimeStepState Q Q) : Bool := st.trace.any fun
        | .attempt a => pw a.ep expI == -1 || pw (a.ep / a.cIn) expP == -1
        | _ => false
      let bad : Bool := match mode, save with
        | 0, _ => match cfg.solveSaveAt fuelA fuelR u save dt0 eps with | some r => missing r.final | none => false
        | 1, [t0, t1] => match cfg.solveTerminal fuelA fuelR u t0 t1 dt0 eps with | some r => missing r.2 | none => false
        | 2, [t0, t1] => match cfg.solveEveryStep false fuelA fuelR u t0 t1 dt0 eps with | some r => missing r.final | none => false
        | 3, [t0, t1] => match cfg.solveEveryStep true fuelA fuelR u t0 t1 dt0 eps with | some r => missing r.final | none => false
        | 4, t0 :: targets => match cfg.solveLoopSeq fuelR u t0 targets dt0 eps with | some r => missing r.final | none => false
        | _, _ => false
      if bad then throw "pw-table-miss"
      match runMode cfg showRat mode fuelA fuelR u save dt0 eps with
      | .ok s => pure s
      | .error e => throw e
    else throw "bad controller kind"),
  ("c06_ctl_apply", do
    -- one controller application: kind safety fmin fmax expI expP(natural) dt mem ep -> dt' mem'
    let ctlKind ← pNat
    let safety ← pRat; let fmin ← pRat; let fmax ← pRat; let expI ← pRat; let expP ← pRat
    let dt ← pRat; let mem ← pRat; let ep ← pRat
    pEnd
    if ctlKind = 0 then
      let r := (ctlI (α := Q) ⟨safety, fmin, fmax⟩).apply dt () ep
      pure s!"{showRat r.1} 0"
    else
      if (natExp? expI).isNone || (natExp? expP).isNone then throw "natural exponents needed"
      if mem = 0 then throw "division by zero memory"
      let r := (ctlPI pwNat ⟨safety, fmin, fmax, expI, expP⟩).apply dt mem ep
      pure s!"{showRat r.1} {showRat r.2}")
]
end Pdq.Drv
