import Pdq.Model.Jet
import Pdq.Drv.Core
/-!
driver ops for `Pdq.Model.Expr` / `Pdq.Model.Jet` (C10)

Expression syntax on the wire (prefix, one token each):
`c <rat>` constant · `v <k> <i>` the variable `u^(k)_i` · `t` time · `+ e e` · `* e e` · `~ e` negation.
-/
namespace Pdq.Drv
open Pdq

def pExprFuel : Nat → P (Expr Q)
  | 0 => throw "expression too deep"
  | fuel + 1 => do
    let tk ← tok
    match tk with
    | "c" => return Expr.const (← pRat)
    | "v" => do let k ← pNat; let i ← pNat; return Expr.var k i
    | "t" => return Expr.time
    | "+" => do let a ← pExprFuel fuel; let b ← pExprFuel fuel; return Expr.add a b
    | "*" => do let a ← pExprFuel fuel; let b ← pExprFuel fuel; return Expr.mul a b
    | "~" => do let a ← pExprFuel fuel; return Expr.neg a
    | _ => throw s!"bad expression token '{tk}'"

def pExpr : P (Expr Q) := do
  let n := (← get).length
  pExprFuel (n + 1)

def pExprs (m : Nat) : P (List (Expr Q)) := do
  let mut out : Array (Expr Q) := #[]
  for _ in [0:m] do
    out := out.push (← pExpr)
  pure out.toList

/-- `k` vectors of `d` rationals -/
def pCoeffs (k d : Nat) : P (List (List Q)) := do
  let mut out : Array (List Q) := #[]
  for _ in [0:k] do
    out := out.push (← pList d).toList
  pure out.toList

def showCoeffs (c : List (List Q)) : String := showList c.flatten

def checkWf (fs : List (Expr Q)) (n d : Nat) : P Unit := do
  for f in fs do
    if !(f.wf n d) then throw s!"ill-formed program: reads a variable outside u^(<{n})_(<{d})"

/-- common request shape of the ODE routines: `K d num t inits(K*d) exprs(d)` -/
def pOdeProblem : P (Nat × List (Expr Q) × List (List Q) × Q × Nat) := do
  let k ← pNat; let d ← pNat; let num ← pNat; let t ← pRat
  let inits ← pCoeffs k d
  let fs ← pExprs d
  pEnd
  if k = 0 then throw "K = 0"
  checkWf fs k d
  pure (d, fs, inits, t, num)

def opsExpr : List (String × Handler) := [
  ("jet_taylor", do
    let (_, fs, inits, t, num) ← pOdeProblem
    pure (showCoeffs (Jet.taylorCoeffs fs inits t num))),
  ("jet_unroll", do
    let (_, fs, inits, t, num) ← pOdeProblem
    pure (showCoeffs (Jet.unroll fs inits t num))),
  ("jet_scan", do
    let (_, fs, inits, t, num) ← pOdeProblem
    pure (showCoeffs (Jet.paddedScan fs inits t num))),
  ("jet_jvp", do
    let (_, fs, inits, t, num) ← pOdeProblem
    pure (showCoeffs (Jet.jvpVariant fs inits t num))),
  -- = jet_jvp by `C10.jvp_variant_spec` + `C10.paddedScan_exact` (polynomial instead of exponential cost)
  ("jet_jvp_frozen", do
    let (_, fs, inits, t, num) ← pOdeProblem
    pure (showCoeffs (Jet.paddedScan (fs.map (Expr.freeze t)) inits t num))),
  ("jet_jvp_aug", do
    let (_, fs, inits, t, num) ← pOdeProblem
    pure (showCoeffs (Jet.jvpVariantAug fs inits t num))),
  ("jet_doubling", do
    let (_, fs, inits, t, num) ← pOdeProblem
    match inits with
    | [u0] => pure (showCoeffs (Jet.doubling fs u0 t num))
    | _ => throw "doubling: first-order ODEs only"),
  ("jet_doubling_aug", do
    let (_, fs, inits, t, num) ← pOdeProblem
    match inits with
    | [u0] => pure (showCoeffs (Jet.doublingAug fs u0 t num))
    | _ => throw "doubling: first-order ODEs only")
]

end Pdq.Drv
