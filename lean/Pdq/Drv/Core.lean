import Pdq.Model.LinAlg
/-!
# Pdq.Drv.Core — line-protocol plumbing for the model driver (not part of the model)

* token parser (`Nat`, `Int`, `Rat` as `num/den`), printers;
* **unverified** exact linear-algebra helpers over `Rat` (Gauss–Jordan solve, pseudo-inverse, LU).
  Nothing they return is trusted: every result is checked by an exact certificate predicate of the
  model (`gainOk`, `invOk`, `pinvOk`, `luOk`) before it is used.
-/
namespace Pdq.Drv
open Pdq

abbrev Q := Rat

/-- parser state: remaining tokens -/
abbrev P := StateT (List String) (Except String)

def tok : P String := do
  match (← get) with
  | [] => throw "unexpected end of line"
  | t :: ts => set ts; pure t

def pNat : P Nat := do
  let t ← tok
  match t.toNat? with
  | some n => pure n
  | none => throw s!"bad nat '{t}'"

def pInt : P Int := do
  let t ← tok
  match t.toInt? with
  | some n => pure n
  | none => throw s!"bad int '{t}'"

def parseRat (t : String) : Option Q :=
  match t.splitOn "/" with
  | [a] => a.toInt?.map fun z => (z : Q)
  | [a, b] => match a.toInt?, b.toNat? with
    | some z, some d => if d = 0 then none else some (mkRat z d)
    | _, _ => none
  | _ => none

def pRat : P Q := do
  let t ← tok
  match parseRat t with
  | some q => pure q
  | none => throw s!"bad rational '{t}'"

def pList (n : Nat) : P (Array Q) := do
  let mut a : Array Q := Array.mkEmpty n
  for _ in [0:n] do
    a := a.push (← pRat)
  pure a

def pVec (n : Nat) : P (Vec n Q) := do
  let a ← pList n
  pure ⟨fun i => a.getD i.val 0⟩

/-- row-major -/
def pMat (m n : Nat) : P (Mat m n Q) := do
  let a ← pList (m * n)
  pure ⟨fun i j => a.getD (i.val * n + j.val) 0⟩

def pEnd : P Unit := do
  match (← get) with
  | [] => pure ()
  | t :: _ => throw s!"trailing token '{t}'"

def showRat (q : Q) : String := if q.den = 1 then toString q.num else s!"{q.num}/{q.den}"
def showList (l : List Q) : String := " ".intercalate (l.map showRat)
def showVec {n} (v : Vec n Q) : String := showList v.toList
def showMat {m n} (A : Mat m n Q) : String := showList A.toList

/-! ### unverified helpers over `Rat` -/

/-- reduced row echelon form of an `r × c` array-of-rows; returns the matrix and pivot columns -/
def rref (rows : Array (Array Q)) (ncols : Nat) : Array (Array Q) × Array Nat := Id.run do
  let mut a := rows
  let nrows := a.size
  let mut piv : Array Nat := #[]
  let mut r := 0
  for c in [0:ncols] do
    if r < nrows then
      -- find pivot
      let mut p := nrows
      for i in [r:nrows] do
        if p = nrows && (a[i]!)[c]! ≠ 0 then p := i
      if p < nrows then
        let tmp := a[p]!
        a := a.set! p a[r]!
        a := a.set! r tmp
        let pv := (a[r]!)[c]!
        a := a.set! r ((a[r]!).map (· / pv))
        for i in [0:nrows] do
          if i ≠ r then
            let f := (a[i]!)[c]!
            if f ≠ 0 then
              let rowr := a[r]!
              a := a.set! i ((a[i]!).mapIdx fun j x => x - f * rowr[j]!)
        piv := piv.push c
        r := r + 1
  (a, piv)

def matRows {m n} (A : Mat m n Q) : Array (Array Q) :=
  Array.ofFn fun i : Fin m => Array.ofFn fun j : Fin n => A.get i j

def ofRows {m n} (a : Array (Array Q)) : Mat m n Q := Mat.ofFn fun i j => (a.getD i.val #[]).getD j.val 0

/-- some solution `X` of `S X = B` (`S : k×k`, `B : k×n`) if the system is consistent with free
variables set to zero; unverified -/
def solveLeft {k n} (S : Mat k k Q) (B : Mat k n Q) : Mat k n Q :=
  let aug := Array.ofFn fun i : Fin k => (Array.ofFn fun j : Fin k => S.get i j) ++ (Array.ofFn fun j : Fin n => B.get i j)
  let (R, piv) := rref aug (k)
  -- X[piv[r], :] = R[r, k:]
  let X : Array (Array Q) := Id.run do
    let mut x : Array (Array Q) := Array.replicate k (Array.replicate n 0)
    for r in [0:piv.size] do
      x := x.set! piv[r]! ((R[r]!).extract k (k + n))
    x
  ofRows X

/-- unverified inverse -/
def invGJ {k} (S : Mat k k Q) : Mat k k Q := solveLeft S Mat.one

/-- unverified Moore–Penrose pseudo-inverse via a full-rank factorisation `S = B C` -/
def pinvGJ {k} (S : Mat k k Q) : Mat k k Q :=
  let (R, piv) := rref (matRows S) k
  let r := piv.size
  if r = 0 then Mat.zero else
  -- B = columns piv of S (k×r); C = first r rows of R (r×k)
  let B : Mat k r Q := Mat.ofFn fun i j => S.get i ⟨(piv.getD j.val 0) % k, Nat.mod_lt _ (Nat.pos_of_ne_zero (by intro h; subst h; exact i.elim0))⟩
  let C : Mat r k Q := Mat.ofFn fun i j => (R.getD i.val #[]).getD j.val 0
  let CCt := invGJ (C.mul C.tr)
  let BtB := invGJ (B.tr.mul B)
  ((C.tr.mul CCt).mul BtB).mul B.tr

/-- unverified Doolittle LU without pivoting: returns `(L, U)` -/
def luGJ {k} (S : Mat k k Q) : Mat k k Q × Mat k k Q := Id.run do
  let mut L : Array (Array Q) := Array.ofFn fun i : Fin k => Array.ofFn fun j : Fin k => if i = j then (1 : Q) else 0
  let mut U : Array (Array Q) := matRows S
  for c in [0:k] do
    let pv := (U[c]!)[c]!
    if pv ≠ 0 then
      for i in [c+1:k] do
        let f := (U[i]!)[c]! / pv
        if f ≠ 0 then
          let rowc := U[c]!
          U := U.set! i ((U[i]!).mapIdx fun j x => x - f * rowc[j]!)
        L := L.set! i ((L[i]!).set! c f)
  (ofRows L, ofRows U)

/-- an op handler: parse the rest of the line, produce the answer text -/
abbrev Handler := P String

def runHandler (h : Handler) (toks : List String) : String :=
  match (h.run toks) with
  | .ok (s, _) => "ok " ++ s
  | .error e => "err " ++ e

end Pdq.Drv
