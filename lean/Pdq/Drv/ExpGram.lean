import Pdq.Model.ExpGram
import Pdq.Generated.Consts
import Pdq.Drv.Gauss
/-! driver ops for `Pdq.Model.ExpGram` (C09, exponential priors) and the Hilbert factor.
Tables, loop facts and thresholds come from `Pdq.Consts` (regenerated from the source on every run). -/
namespace Pdq.Drv
open Pdq Pdq.ExpGram

structure PLTables where
  q : Nat
  pade : List Int
  leg : List (List Int)
  norms : List Int
  ks : List Nat
  adv : Bool
  eta64 : Q
  eta32 : Q

def plTables (q : Nat) : Except String PLTables :=
  if q = 3 then pure ⟨Consts.plQ3, Consts.pade3, Consts.leg3, Consts.legNorms3, Consts.plLoopKs3, Consts.plLoopAdvancesP3, Consts.plEta64_3, Consts.plEta32_3⟩
  else if q = 5 then pure ⟨Consts.plQ5, Consts.pade5, Consts.leg5, Consts.legNorms5, Consts.plLoopKs5, Consts.plLoopAdvancesP5, Consts.plEta64_5, Consts.plEta32_5⟩
  else if q = 7 then pure ⟨Consts.plQ7, Consts.pade7, Consts.leg7, Consts.legNorms7, Consts.plLoopKs7, Consts.plLoopAdvancesP7, Consts.plEta64_7, Consts.plEta32_7⟩
  else if q = 9 then pure ⟨Consts.plQ9, Consts.pade9, Consts.leg9, Consts.legNorms9, Consts.plLoopKs9, Consts.plLoopAdvancesP9, Consts.plEta64_9, Consts.plEta32_9⟩
  else if q = 13 then pure ⟨Consts.plQ13, Consts.pade13, Consts.leg13, Consts.legNorms13, Consts.plLoopKs13, Consts.plLoopAdvancesP13, Consts.plEta64_13, Consts.plEta32_13⟩
  else throw s!"no Pade/Legendre order {q}"

def liftE {β : Type} (e : Except String β) : P β :=
  match e with
  | .ok x => pure x
  | .error s => throw s

/-- `init(A, B)`: parts, *certified* inverse of the denominator, result -/
def plInit {n m : Nat} (t : PLTables) (A : Mat n n Q) (B : Mat n m Q) : Except String (Mat n n Q × Mat n n Q) := do
  match initParts t.q t.pade t.leg t.ks t.adv A B with
  | none => throw "initParts: unsupported order"
  | some p =>
    let W := invGJ p.den
    if p.den.invOk W then pure (initWith p t.norms W) else throw "cert: Pade denominator not invertible (invOk failed)"

def plNum {n : Nat} (t : PLTables) (dt : Nat) (A : Mat n n Q) : Except String (Nat × Q) := do
  let eta := if dt = 64 then t.eta64 else t.eta32
  let na := norm1 A
  match numDoublings eta na n t.q 4000 with
  | some s => pure (s, na)
  | none => throw "numDoublings: out of fuel"

def plExpGram {n m : Nat} (t : PLTables) (dt : Nat) (A : Mat n n Q) (B : Mat n m Q) :
    Except String (Nat × Mat n n Q × Mat n n Q) := do
  let (s, _) ← plNum t dt A
  match initParts t.q t.pade t.leg t.ks t.adv (scaleA s A) B with
  | none => throw "initParts: unsupported order"
  | some p =>
    let W := invGJ p.den
    if p.den.invOk W then
      let r := expGramWith s p t.norms W
      pure (s, r.1, r.2)
    else throw "cert: Pade denominator not invertible (invOk failed)"

def opsExpGram : List (String × Handler) := [
  ("hilbert_chol", do
    let n ← pNat; pEnd
    pure (showMat (Iwp.hilbCholSq (α := Q) n) ++ " " ++ showMat (Iwp.hilbCholGram (α := Q) n))),
  ("pl_init", do
    let q ← pNat; let n ← pNat; let m ← pNat
    let A ← pMat n n; let B ← pMat n m; pEnd
    let t ← liftE (plTables q)
    let r ← liftE (plInit t A B)
    pure (showMat r.1 ++ " " ++ showMat r.2)),
  ("pl_init_table", do
    let q ← pNat; let n ← pNat; let m ← pNat
    let A ← pMat n n; let B ← pMat n m; pEnd
    let t ← liftE (plTables q)
    let p := initPartsTable t.pade t.leg A B
    let W := invGJ p.den
    if p.den.invOk W then
      let r := initWith p t.norms W
      pure (showMat r.1 ++ " " ++ showMat r.2)
    else throw "cert: Pade denominator not invertible (invOk failed)"),
  ("pl_num", do
    let q ← pNat; let dt ← pNat; let n ← pNat
    let A ← pMat n n; pEnd
    let t ← liftE (plTables q)
    let r ← liftE (plNum t dt A)
    pure (toString r.1 ++ " " ++ showRat r.2)),
  ("pl_double", do
    let n ← pNat
    let E ← pMat n n; let G ← pMat n n; pEnd
    let r := double (E, G)
    pure (showMat r.1 ++ " " ++ showMat r.2)),
  ("pl_expgram", do
    let q ← pNat; let dt ← pNat; let n ← pNat; let m ← pNat
    let A ← pMat n n; let B ← pMat n m; pEnd
    let t ← liftE (plTables q)
    let r ← liftE (plExpGram t dt A B)
    pure (toString r.1 ++ " " ++ showMat r.2.1 ++ " " ++ showMat r.2.2)),
  ("exp_drift_ou", do
    let q ← pNat; let d ← pNat
    let L ← pMat d d; pEnd
    pure (showMat (driftOf q d (ouBottom q d L)))),
  ("exp_drift_matern", do
    let q ← pNat; let d ← pNat
    let z ← pRat; pEnd
    pure (showMat (driftOf q d (maternBottom q d z)))),
  -- general exponential prior: bottom block = Jacobian of the (linear) autonomous vector field
  ("exp_drift_general", do
    let q ← pNat; let d ← pNat
    let bottom ← pMat d ((q+1)*d); pEnd
    pure (showMat (driftOf q d bottom))),
  ("exp_dispersion", do
    let q ← pNat; let d ← pNat
    let lam ← pVec d; pEnd
    pure (showMat (dispersionOf q d lam))),
  -- DenseExponential.transition(dt=h, output_scale) for h > 0: s2 = output_scale², order plq, dtype dt
  ("exp_transition", do
    let q ← pNat; let d ← pNat; let plq ← pNat; let dt ← pNat
    let h ← pRat; let s2 ← pRat
    let A ← pMat ((q+1)*d) ((q+1)*d); let B ← pMat ((q+1)*d) d; pEnd
    if h ≤ 0 then throw "h <= 0"
    let t ← liftE (plTables plq)
    let (Ap, Bp, pinv, p) := precondDrift q d h A B
    let (s, E, G) ← liftE (plExpGram t dt Ap Bp)
    pure (toString s ++ " " ++ showPCond (expTransition q d h s2 E G pinv p)))
]
end Pdq.Drv
