import Pdq.Model.GaussNewton
import Pdq.Drv.Core
/-! driver ops for `Pdq.Model.GaussNewton` (C19).

The least-squares oracle is the unverified `pinvGJ`: `z = (H Hᵀ)⁺ r`, `y = Hᵀ z`.  Every answer that is
used is checked by the model's exact certificates `lstsqOk` (normal equations) and `minNormOk`
(row-space witness) — for whole runs at every visited state — before anything is printed. -/
namespace Pdq.Drv
open Pdq Pdq.GN

def pPoly (k D : Nat) : P (Poly k Q) := do
  let mut rows : Array (List (Mono Q)) := Array.mkEmpty k
  for _ in [0:k] do
    let nmon ← pNat
    let mut row : Array (Mono Q) := #[]
    for _ in [0:nmon] do
      let coef ← pRat
      let mut pows : Array Nat := Array.mkEmpty D
      for _ in [0:D] do
        pows := pows.push (← pNat)
      row := row.push { coef := coef, pows := pows.toList }
    rows := rows.push row.toList
  pure ⟨fun i => rows.getD i.val []⟩

/-- unverified: minimum-norm least-squares solution and its row-space witness -/
def lsSolve {k r : Nat} (H : Mat k r Q) (rhs : Vec k Q) : Vec r Q × Vec k Q :=
  let z := (pinvGJ (H.mul H.tr)).mulVec rhs
  (H.tr.mulVec z, z)

def lsSolveY {k r : Nat} (H : Mat k r Q) (rhs : Vec k Q) : Vec r Q := (lsSolve H rhs).1

/-- both certificates for the answer `(y, z)` at one state -/
def certAt {D k r : Nat} (p : Problem D k r Q) (s : State D k Q) (yz : Vec r Q × Vec k Q) : Bool :=
  let H := p.H s.x
  let rhs := p.rhs s
  lstsqOk H rhs yz.1 && minNormOk H yz.1 yz.2

def showState {D k : Nat} (s : State D k Q) : String :=
  showVec s.x ++ " " ++ showVec s.fx ++ " " ++ showVec s.dx ++ " " ++ toString s.i

/-! Speed note (nothing to do with correctness): `Mat`/`Vec` are one-field structures, which the compiler
represents by the field itself; a function returning a `Mat` looks like a cheap partial application and
is re-run on every entry access (measured: 1512 evaluations of the Jacobian in one step, D = 8).  The
single-step op therefore tabulates the oracles at the one point where `body` consults them
(`J := fun _ => ofRows (matRows (q.jac x))`, `solve := fun _ _ => y`); these are the same values, and the
certificates are checked on exactly what is used. -/

def stepAnswer {D k r : Nat} (p : Problem D k r Q) (x : Vec D Q) : Except String String := do
  let s : State D k Q := init p x
  let H := p.H x
  let rhs := p.rhs s
  let yz := lsSolve H rhs
  if !(certAt p s yz) then throw "cert: lstsq certificate failed"
  let s' := body p (fun _ _ => yz.1) s
  pure (showVec s'.x ++ " " ++ showVec s'.fx ++ " " ++ showVec s'.dx ++ " " ++ showMat H ++ " " ++ showVec yz.1)

/-- whole routine with the oracle `solve` (`witness` supplies the row-space witness for the check) -/
def runAnswer {D k r : Nat} (p : Problem D k r Q) (solve : Mat k r Q → Vec k Q → Vec r Q)
    (witness : Mat k r Q → Vec k Q → Vec k Q) (tol2 : Q) (maxiter : Nat) (x0 : Vec D Q) :
    Except String String := do
  let tr := trace p solve tol2 maxiter maxiter (init p x0)
  -- every state but the returned one has been stepped from: check the certificates there
  for s in tr.dropLast do
    let H := p.H s.x
    let rhs := p.rhs s
    if !(certAt p s (solve H rhs, witness H rhs)) then throw "cert: lstsq certificate failed at a visited state"
  let res := run p solve tol2 maxiter x0
  -- the trace's last state is the returned one (cheap sanity check of the plumbing, not of the model)
  match tr.getLast? with
  | none => throw "empty trace"
  | some last =>
    if last.i ≠ res.iters then throw "trace/run mismatch"
    pure (toString tr.length ++ " " ++ " ".intercalate (tr.map showState) ++ " "
      ++ showVec res.x ++ " " ++ toString res.iters ++ " " ++ showVec res.finalConstraint ++ " " ++ showVec res.finalIncrement)

def opsGaussNewton : List (String × Handler) := [
  ("gn_step", do
    -- one `body_fun` from the point x (fx = g x): xnew, g(xnew), xnew - x, H = J(x) L, y
    let D ← pNat; let k ← pNat; let r ← pNat
    let q ← pPoly k D; let m ← pVec D; let L ← pMat D r; let x ← pVec D; pEnd
    -- tabulated through an `Array` value: `body` consults the Jacobian oracle only at `x`
    let Jx : Mat k D Q := ofRows (matRows (q.jac x))
    (stepAnswer { Problem.ofPoly q m L with J := fun _ => Jx } x : Except String _)),
  ("gn_step_affine", do
    let D ← pNat; let k ← pNat; let r ← pNat
    let C ← pMat k D; let e ← pVec k; let m ← pVec D; let L ← pMat D r; let x ← pVec D; pEnd
    (stepAnswer (Problem.affine C e m L) x : Except String _)),
  ("gn_cont", do
    -- the termination test on a given carry: continue?, ‖fx‖², tol²·k, ‖dx‖², tol²·D
    let D ← pNat; let k ← pNat
    let tol2 ← pRat; let maxiter ← pNat
    let fx ← pVec k; let dx ← pVec D; let i ← pNat; pEnd
    let s : State D k Q := { x := Vec.zero, fx := fx, dx := dx, i := i }
    let c : Nat := if cont tol2 maxiter s then 1 else 0
    pure (toString c ++ " " ++ showRat (normSq fx) ++ " " ++ showRat (tol2 * (k : Q)) ++ " "
      ++ showRat (normSq dx) ++ " " ++ showRat (tol2 * (D : Q)))),
  ("gn_run", do
    -- the whole routine, open loop: number of visited states, the states (x fx dx i), then the result
    let D ← pNat; let k ← pNat; let r ← pNat
    let q ← pPoly k D; let m ← pVec D; let L ← pMat D r
    let tol2 ← pRat; let maxiter ← pNat; let x0 ← pVec D; pEnd
    (runAnswer (Problem.ofPoly q m L) lsSolveY (fun H rhs => (lsSolve H rhs).2) tol2 maxiter x0 : Except String _)),
  ("gn_run_affine", do
    let D ← pNat; let k ← pNat; let r ← pNat
    let C ← pMat k D; let e ← pVec k; let m ← pVec D; let L ← pMat D r
    let tol2 ← pRat; let maxiter ← pNat; let x0 ← pVec D; pEnd
    -- affine: `H = C L` and `rhs = C m − e` at every state (`C19.affine_rhs`), so the oracle may be the constant
    -- answer; it is still checked against the actual `(H, rhs)` of every visited state
    let yz := lsSolve (C.mul L) ((C.mulVec m).sub e)
    (runAnswer (Problem.affine C e m L) (fun _ _ => yz.1) (fun _ _ => yz.2) tol2 maxiter x0 : Except String _)),
  ("gn_eval", do
    -- g(x) and J(x) of a polynomial constraint
    let D ← pNat; let k ← pNat
    let q ← pPoly k D; let x ← pVec D; pEnd
    pure (showVec (q.eval x) ++ " " ++ showMat (q.jac x))),
  ("gn_linearize", do
    -- the observation model DenseResidual.linearize builds at ξ: A = J(ξ), b = g(ξ) - J(ξ) ξ
    let D ← pNat; let k ← pNat
    let q ← pPoly k D; let xi ← pVec D; pEnd
    let p : Problem D k 0 Q := Problem.ofPoly q Vec.zero Mat.zero
    let c := p.linearizeAt xi
    pure (showMat c.A ++ " " ++ showVec c.b))
]
end Pdq.Drv
