import Pdq.Model.Dual
import Pdq.Drv.Solver
/-!
# Pdq.Drv.Dual — the model at `Dual Rat`: value and exact derivative in one evaluation (C16)

Wire format: a dual number is two rationals `re eps`; vectors / matrices list their entries row-major,
each entry as such a pair.  Linear solves are certificates as everywhere else: the candidate inverse
`W − W Ṡ W ε` (with `W` from unverified Gauss–Jordan over `Rat`) is used only after the model's own
`Mat.invOk` / `Cond.gainOk` accepted it *at `Dual Rat`* (i.e. value and derivative identity both hold).
-/
namespace Pdq.Drv
open Pdq

abbrev DQ := Dual Q

def pDual : P DQ := do
  let a ← pRat; let b ← pRat
  pure ⟨a, b⟩

def pDList (n : Nat) : P (Array DQ) := do
  let mut a : Array DQ := Array.mkEmpty n
  for _ in [0:n] do
    a := a.push (← pDual)
  pure a

def pDVec (n : Nat) : P (Vec n DQ) := do
  let a ← pDList n
  pure ⟨fun i => a.getD i.val 0⟩

def pDMat (m n : Nat) : P (Mat m n DQ) := do
  let a ← pDList (m * n)
  pure ⟨fun i j => a.getD (i.val * n + j.val) 0⟩

def pDGauss (n : Nat) : P (Gauss n DQ) := do
  let mean ← pDVec n
  let cov ← pDMat n n
  pure { mean, cov }

def pDPCond (m n : Nat) : P (PCond m n DQ) := do
  let A ← pDMat m n
  let b ← pDVec m
  let Qm ← pDMat m m
  let tl ← pDVec n
  let tob ← pDVec m
  pure { A, b, Q := Qm, tl, tob }

def pDSolState (n : Nat) : P (SolState n DQ) := do
  let u ← pDGauss n
  let bw ← pDPCond n n
  pure { u, bw }

def showDual (x : DQ) : String := showRat x.re ++ " " ++ showRat x.eps
def showDList (l : List DQ) : String := " ".intercalate (l.map showDual)
def showDVec {n} (v : Vec n DQ) : String := showDList v.toList
def showDMat {m n} (A : Mat m n DQ) : String := showDList A.toList
def showDGauss {n} (g : Gauss n DQ) : String := showDVec g.mean ++ " " ++ showDMat g.cov
def showDPCond {m n} (c : PCond m n DQ) : String :=
  showDMat c.A ++ " " ++ showDVec c.b ++ " " ++ showDMat c.Q ++ " " ++ showDVec c.tl ++ " " ++ showDVec c.tob
def showDSolState {n} (s : SolState n DQ) : String := showDGauss s.u ++ " " ++ showDPCond s.bw

/-- certified inverse of a dual matrix with regular real part -/
def dualInverse {k} (S : Mat k k DQ) : Except String (Mat k k DQ) :=
  let W := S.dualInv (invGJ S.re)
  if S.invOk W then pure W else throw "cert: S not invertible at Dual Rat (invOk failed)"

/-- find and *check* (at `Dual Rat`) a gain for `c.revertWith g` -/
def findGainD {m n} (c : Cond m n DQ) (g : Gauss n DQ) : Except String (Mat n m DQ) := do
  let W ← dualInverse (c.marg g).cov
  let G := (c.cross g).mul W
  if c.gainOk g G then pure G else throw "cert: gainOk failed at Dual Rat"

def transGainD {n} (s : Strategy) (tr : PCond n n DQ) (st : SolState n DQ) : Except String (Mat n n DQ) :=
  match s with
  | .filter => pure Mat.zero
  | _ => findGainD tr.core (tr.inner st.u)

def opsDual : List (String × Handler) := [
  ("du_marg", do
    let m ← pNat; let n ← pNat
    let c ← pDPCond m n; let g ← pDGauss n; pEnd
    pure (showDGauss (c.marg g))),
  ("du_revert", do
    -- m n c g -> observed marginal, backward conditional (value and derivative)
    let m ← pNat; let n ← pNat
    let c ← pDPCond m n; let g ← pDGauss n; pEnd
    let G ← (findGainD c.core (c.inner g) : Except String _)
    let r := c.revertWith g G
    pure (showDGauss r.1 ++ " " ++ showDPCond r.2)),
  ("du_iwp_transition1", do
    let q ← pNat; let h ← pDual; let s2 ← pDual; pEnd
    if h.re = 0 then throw "h = 0"
    pure (showDPCond (Iwp.transition1 q h s2))),
  ("du_iwp_transition_dense", do
    let q ← pNat; let d ← pNat; let h ← pDual; let s2 ← pDual; let lam2 ← pDVec d; pEnd
    if h.re = 0 then throw "h = 0"
    pure (showDPCond (Iwp.transitionDense q d h s2 lam2))),
  ("du_predict", do
    let s ← pStrategy; let n ← pNat
    let tr ← pDPCond n n; let st ← pDSolState n; pEnd
    let Gt ← (transGainD s tr st : Except String _)
    pure (showDSolState (s.predict tr st Gt))),
  ("du_step", do
    -- strategy n k tr c st -> new state, then the squared whitened residual of the prediction
    let s ← pStrategy; let n ← pNat; let k ← pNat
    let tr ← pDPCond n n
    let cA ← pDMat k n; let cb ← pDVec k; let cQ ← pDMat k k
    let st ← pDSolState n; pEnd
    let c : Cond k n DQ := { A := cA, b := cb, Q := cQ }
    let Gt ← (transGainD s tr st : Except String _)
    let pred := s.predict tr st Gt
    let Gu ← (findGainD c pred.u : Except String _)
    let new := Solver.step s tr (fun _ => c) st Gt Gu
    let W ← (dualInverse (c.marg pred.u).cov : Except String _)
    pure (showDSolState new ++ " " ++ showDual (Solver.mleTerm s tr (fun _ => c) st Gt W))),
  ("du_mle_running", do
    let a2 ← pDual; let num ← pDual; let b2 ← pDual; pEnd
    pure (showDual (Solver.mleRunning a2 num b2))),
  ("du_maha_det", do
    -- n g u -> (u-m)ᵀ S⁻¹ (u-m) and det S, both certified at Dual Rat (for the log-density of the losses)
    let n ← pNat
    let g ← pDGauss n; let u ← pDVec n; pEnd
    let W ← (dualInverse g.cov : Except String _)
    -- Doolittle LU on the real part, then the derivative of the factors from  L̇ U + L U̇ = Ṡ
    let (L0, U0) := luGJ g.cov.re
    let Li := invGJ L0
    let Ui := invGJ U0
    let X := (Li.mul g.cov.eps).mul Ui           -- = L⁻¹ L̇ + U̇ U⁻¹ : strictly lower + upper
    let Xl : Mat n n Q := Mat.ofFn fun i j => if j.val < i.val then X.get i j else 0
    let Xu : Mat n n Q := Mat.ofFn fun i j => if j.val < i.val then 0 else X.get i j
    let L := Mat.dual L0 (L0.mul Xl)
    let U := Mat.dual U0 (Xu.mul U0)
    if !(g.cov.luOk L U) then throw "cert: luOk failed at Dual Rat"
    pure (showDual (g.maha W u) ++ " " ++ showDual U.diagProd)),
  ("du_run_affine", do
    -- filter run for u' = a u + c (one dimension) on a grid, everything dual:
    -- q ts1 nsteps a c damp2 s2 h_1 … h_nsteps m0 P0  ->  the nsteps visited marginals (mean, cov)
    let q ← pNat; let ts1 ← pNat; let ns ← pNat
    let a ← pDual; let c ← pDual; let damp2 ← pDual; let s2 ← pDual
    let mut hs : List DQ := []
    for _ in [0:ns] do
      hs := hs ++ [← pDual]
    let u0 ← pDGauss (q+1); pEnd
    let lin := affineLin q (ts1 = 1) a c damp2
    let mut st : SolState (q+1) DQ := SolState.init u0
    let mut out : List String := []
    for h in hs do
      if h.re = 0 then throw "h = 0"
      let tr := Iwp.transition1 q h s2
      let pred := Strategy.filter.predict tr st Mat.zero
      let Gu ← (findGainD (lin pred.u.mean) pred.u : Except String _)
      st := Solver.step .filter tr lin st Mat.zero Gu
      out := out ++ [showDGauss st.u]
    pure (" ".intercalate out))
]
end Pdq.Drv
