import Pdq.Model.Ravel
import Pdq.Model.BatchedWhile
import Pdq.Drv.Core
/-!
driver ops for `Pdq.Model.Ravel` and `Pdq.Model.BatchedWhile` (C15)

Tree token format (prefix notation):
  `L r s_1 … s_r k x_1 … x_k`      array leaf of rank `r`, shape `s`, `k` row-major entries
  `N kind m key_1 child_1 … key_m child_m`   container, kind 0 = tuple/list, 1 = dict, 2 = namedtuple
-/
namespace Pdq.Drv
open Pdq Pdq.Ravel Pdq.Batched
namespace RavelOps

instance : Inhabited Q := ⟨0⟩

mutual
/-- fuel-bounded recursive-descent parser (fuel ≥ number of tokens suffices) -/
def pTree : Nat → P (PyTree Q)
  | 0 => throw "tree too deep"
  | fuel + 1 => do
    let t ← tok
    if t = "L" then
      let r ← pNat
      let mut shape : List Nat := []
      for _ in [0:r] do
        shape := shape ++ [← pNat]
      let k ← pNat
      let data ← pList k
      pure (.leaf shape data.toList)
    else if t = "N" then
      let kind ← match (← pNat) with
        | 0 => pure Kind.tuple
        | 1 => pure Kind.dict
        | 2 => pure Kind.named
        | _ => throw "bad kind"
      let m ← pNat
      let f ← pForest fuel m
      pure (.node kind f)
    else throw s!"bad tree token '{t}'"
def pForest : Nat → Nat → P (PyForest Q)
  | _, 0 => pure .nil
  | 0, _ => throw "tree too deep"
  | fuel + 1, m + 1 => do
    let key ← tok
    let t ← pTree fuel
    let rest ← pForest fuel m
    pure (.cons key t rest)
end

def showNats (l : List Nat) : String := " ".intercalate (l.map toString)

mutual
def showTree : PyTree Q → String
  | .leaf s d =>
    let parts := ["L", toString s.length] ++ s.map toString ++ [toString d.length] ++ d.map showRat
    " ".intercalate parts
  | .node k f =>
    let kk := match k with | .tuple => "0" | .dict => "1" | .named => "2"
    let body := showForest f
    "N " ++ kk ++ " " ++ toString (forestLen f) ++ (if body = "" then "" else " " ++ body)
def showForest : PyForest Q → String
  | .nil => ""
  | .cons key t rest =>
    let r := showForest rest
    key ++ " " ++ showTree t ++ (if r = "" then "" else " " ++ r)
def forestLen : PyForest Q → Nat
  | .nil => 0
  | .cons _ _ rest => forestLen rest + 1
end

def bufOf (a : Array Q) : Nat → Q := fun z => a.getD z 0
def showBuf (size : Nat) (f : Nat → Q) : String := showList ((List.range size).map f)

/-- rows of equal length? (what `verify_taylor_coefficient_pytree` + `np.stack` need) -/
def rowsOk (rows : List (List Q)) : Bool :=
  match rows with
  | [] => false
  | r :: rest => rest.all fun r' => r'.length = r.length

/-- the Collatz-type loop used to compare `batchedWhile` with `vmap(while_loop)` of the real backend:
state `(x, i, limit)`; continue while `x ≠ 1 ∧ i < limit`; body: `x ← x/2` or `3x+1`, `i ← i+1` -/
def czCond (s : Nat × Nat × Nat) : Bool := s.1 != 1 && decide (s.2.1 < s.2.2)
def czBody (s : Nat × Nat × Nat) : Nat × Nat × Nat :=
  (if s.1 % 2 = 0 then s.1 / 2 else 3 * s.1 + 1, s.2.1 + 1, s.2.2)

end RavelOps
open RavelOps

def opsRavel : List (String × Handler) := [
  ("rv_index", do
    -- n d -> bdToDense over range(d*n), then denseToBd over range(n*d), then denseToIso over range(n*d)
    let n ← pNat; let d ← pNat; pEnd
    let a := (List.range (d * n)).map (bdToDense n d)
    let b := (List.range (n * d)).map (denseToBd n d)
    let c := (List.range (n * d)).map (denseToIso d)
    pure (showNats (a ++ b ++ c))),
  ("rv_mvn_iso", do
    -- n d mean(n*d, storage order (n,d)) cov(n*n) -> mean(n*d) cov((n*d)^2), coefficient-major
    let n ← pNat; let d ← pNat
    let mean ← pList (n * d); let cov ← pList (n * n); pEnd
    pure (showBuf (n * d) (isoMvnMean (bufOf mean)) ++ " " ++ showBuf (n * d * (n * d)) (isoMvnCov n d (bufOf cov)))),
  ("rv_mvn_bd", do
    -- n d mean(d*n, storage order (d,n)) covs(d*n*n) -> mean(n*d) cov((n*d)^2), coefficient-major
    let n ← pNat; let d ← pNat
    let mean ← pList (d * n); let covs ← pList (d * n * n); pEnd
    pure (showBuf (n * d) (bdMvnMean n d (bufOf mean)) ++ " " ++ showBuf (n * d * (n * d)) (bdMvnCov n d (bufOf covs)))),
  ("rv_mvn_dense", do
    let m ← pNat
    let mean ← pList m; let cov ← pList (m * m); pEnd
    pure (showBuf m (denseMvnMean (bufOf mean)) ++ " " ++ showBuf (m * m) (denseMvnCov (bufOf cov)))),
  ("rv_ravel", do
    -- tree -> size, leaves in flattening order
    let t ← pTree ((← get).length + 1); pEnd
    pure (toString t.ravel.length ++ " " ++ showList t.ravel)),
  ("rv_unravel", do
    -- example tree, k, values -> the refilled tree (canonical child order)
    let t ← pTree ((← get).length + 1)
    let k ← pNat; let xs ← pList k; pEnd
    if k ≠ t.canon.size then throw "length mismatch"
    pure (showTree (t.unravel xs.toList))),
  ("rv_flatten", do
    -- which (0 dense, 1 iso, 2 bd), coefficient container -> n d, buffer in the storage order of that factorisation
    let which ← pNat
    let t ← pTree ((← get).length + 1); pEnd
    let rows := t.rows
    if !(rowsOk rows) then throw "coefficients of different sizes"
    let n := rows.length
    let d := (rows.getD 0 []).length
    let out := match which with
      | 0 => t.flattenDense
      | 1 => t.flattenIso
      | _ => t.flattenBd
    pure (toString n ++ " " ++ toString d ++ " " ++ showList out)),
  ("rv_unflatten", do
    -- which, example container, k, buffer -> m, then the m coefficient trees
    let which ← pNat
    let t ← pTree ((← get).length + 1)
    let k ← pNat; let xs ← pList k; pEnd
    if k ≠ t.canon.size then throw "length mismatch"
    let out := match which with
      | 0 => t.unflattenDense xs.toList
      | 1 => t.unflattenIso xs.toList
      | _ => t.unflattenBd xs.toList
    pure (toString out.length ++ " " ++ " ".intercalate (out.map showTree))),
  ("bw_collatz", do
    -- fuel B (x limit)^B -> per lane (x i) of the batched loop, then of the un-batched loops, then batchedIters
    let fuel ← pNat; let b ← pNat
    let mut lanes : List (Nat × Nat × Nat) := []
    for _ in [0:b] do
      let x ← pNat; let lim ← pNat
      lanes := lanes ++ [(x, 0, lim)]
    pEnd
    let rb := batchedWhile czCond czBody fuel lanes
    let ru := lanes.map (whileLoop czCond czBody fuel)
    if rb.any czCond then throw "not enough fuel"
    let sh (l : List (Nat × Nat × Nat)) := showNats (l.flatMap fun s => [s.1, s.2.1])
    pure (sh rb ++ " " ++ sh ru ++ " " ++ toString (batchedIters czCond czBody fuel lanes))),
  ("bw_saveat", do
    -- k grid_1..grid_k  -> number of stacked entries of saveAt / fixedGrid (any advance; here: identity carry)
    let k ← pNat
    let g ← pList k; pEnd
    let adv : Q → Q → Q × Q := fun s t => (s + t, t)
    pure (toString (saveAt adv 0 0 g.toList).length ++ " " ++ toString (fixedGrid adv 0 0 g.toList.tail).length))
]
end Pdq.Drv
