import Pdq.Model.Validate
import Pdq.Drv.Core
/-! driver ops for the validation model (C20).  One request line = one entry point with the abstract
description of its arguments; the answer is `accept`, `warn` or `raise <kind>`.

Token grammar:  tree ::= `A <b|i|f> <py 0|1> <rank> <dims…>` | `L n tree…` | `T n tree…` | `D n key… tree…`;
arg ::= `N` (None) | `F` (plain function) | tree;  obj ::= `ode nin nout` | `auto nin` | `res nin` | `fn` | `none`;
shape ::= `<rank> <dims…>`;  variant ::= `<dense check> <bd check> <loss data check 0|1> <error outputs check 0|1>`. -/
namespace Pdq.Drv
open Pdq Pdq.Validate

def pBool : P Bool := do
  let t ← tok
  match t with
  | "0" => pure false
  | "1" => pure true
  | _ => throw s!"bad bool '{t}'"

def pShape : P Shape := do
  let r ← pNat
  let mut s : Array Nat := #[]
  for _ in [0:r] do
    s := s.push (← pNat)
  pure s.toList

def pDType : P DType := do
  let t ← tok
  match t with
  | "b" => pure .b
  | "i" => pure .i
  | "f" => pure .f
  | _ => throw s!"bad dtype '{t}'"

/-- fuel = number of remaining tokens (every constructor consumes at least one) -/
def pTreeFuel : Nat → P Tree
  | 0 => throw "tree: out of fuel"
  | fuel + 1 => do
    let t ← tok
    match t with
    | "A" => do
      let d ← pDType; let py ← pBool; let s ← pShape
      pure (.arr s d py)
    | "L" | "T" => do
      let n ← pNat
      let mut xs : Array Tree := #[]
      for _ in [0:n] do
        xs := xs.push (← pTreeFuel fuel)
      pure (.node (if t = "L" then .list else .tuple) xs.toList)
    | "D" => do
      let n ← pNat
      let mut ks : Array Nat := #[]
      for _ in [0:n] do
        ks := ks.push (← pNat)
      let mut xs : Array Tree := #[]
      for _ in [0:n] do
        xs := xs.push (← pTreeFuel fuel)
      pure (.node (.dict ks.toList) xs.toList)
    | _ => throw s!"bad tree token '{t}'"

def pTree : P Tree := do
  let n := (← get).length
  pTreeFuel (n + 1)

def pArg : P Arg := do
  match (← get) with
  | "N" :: ts => set ts; pure .none
  | "F" :: ts => set ts; pure .fn
  | _ => pure (.tree (← pTree))

def pObj : P Obj := do
  let t ← tok
  match t with
  | "ode" => do let a ← pNat; let b ← pNat; pure (.jetOde a b)
  | "auto" => do let a ← pNat; pure (.jetOdeAuto a)
  | "res" => do let a ← pNat; pure (.jetResidual a)
  | "fn" => pure .fn
  | "none" => pure .none
  | _ => throw s!"bad obj '{t}'"

def pStdCheck : P StdCheck := do
  let t ← tok
  match t with
  | "none" => pure .none
  | "flatAssert" => pure .flatAssert
  | "flatValue" => pure .flatValue
  | "leafwise" => pure .leafwise
  | _ => throw s!"bad std check '{t}'"

def pVariant : P Variant := do
  let a ← pStdCheck; let b ← pStdCheck; let c ← pBool; let d ← pBool
  pure { dense := a, bd := b, lossDataCheck := c, errNumOutputs := d }

def pFact : P Fact := do
  let t ← tok
  match t with
  | "dense" => pure .dense
  | "isotropic" => pure .iso
  | "blockdiag" => pure .bd
  | _ => throw s!"bad factorisation '{t}'"

def pFact4 : P Fact4 := do
  let t ← tok
  match t with
  | "dense" => pure .dense
  | "isotropic" => pure .iso
  | "blockdiag" => pure .bd
  | "matfree" => pure .matfree
  | _ => throw s!"bad factorisation '{t}'"

def showExc : Exc → String
  | .type => "TypeError"
  | .value => "ValueError"
  | .assertion => "AssertionError"
  | .notImpl => "NotImplementedError"
  | .implicit => "implicit"

def showOutcome : Outcome → String
  | .accept => "accept"
  | .warn => "warn"
  | .raise e => "raise " ++ showExc e

def showChk (c : Chk Unit) : String := showOutcome (outcome c)

def opsValidate : List (String × Handler) := [
  ("c20_prior", do
    let v ← pVariant; let f ← pFact; let mean ← pArg; let ie ← pArg; let os ← pArg; pEnd
    pure (showChk (prior v f mean ie os))),
  ("c20_prior_diffuse", do
    let v ← pVariant; let f ← pFact; let mean ← pArg; let std ← pArg; let os ← pArg; pEnd
    pure (showChk (priorDiffuse v f mean std os))),
  ("c20_prior_exp", do
    let v ← pVariant; let f ← pFact; let o ← pObj; let mean ← pArg; let ie ← pArg; let os ← pArg; pEnd
    pure (showChk (priorExp v f o mean ie os))),
  ("c20_prior_exp_diffuse", do
    let v ← pVariant; let f ← pFact; let o ← pObj; let mean ← pArg; let std ← pArg; let os ← pArg; pEnd
    pure (showChk (priorExpDiffuse v f o mean std os))),
  ("c20_prior_ou", do
    let v ← pVariant; let f ← pFact; let mean ← pArg; let ie ← pArg; let os ← pArg; pEnd
    pure (showChk (priorOU v f mean ie os))),
  ("c20_transition", do
    let f ← pFact; let d ← pNat; let os ← pArg; pEnd
    pure (showChk (transition f d os))),
  ("c20_constraint", do
    let which ← tok; let f ← pFact4; let o ← pObj; let tp ← pBool; pEnd
    match which with
    | "ts0" => pure (showChk (constraintTs0 f o))
    | "ts1" => pure (showChk (constraintTs1 f o tp))
    | "residual" => pure (showChk (constraintResidual f o tp))
    | _ => throw s!"bad constraint '{which}'"),
  ("c20_jet_lift", do
    let o ← pObj
    let t ← tok
    let l ← (match t with
      | "other" => pure LiftBy.other
      | _ => match t.toInt? with
        | some z => pure (LiftBy.int z)
        | none => throw s!"bad lift_by '{t}'")
    pEnd
    pure (showChk (jetLift o l))),
  ("c20_lifted_call", do
    let nin ← pNat; let l ← pInt; let k ← pNat; pEnd
    pure (showChk (liftedCall nin l k))),
  ("c20_ode_call", do
    let o ← pObj; pEnd
    pure (showChk (odeCall o))),
  ("c20_jetexpand", do
    let a ← tok; let num ← pNat; let o ← pObj; let pt ← pBool; let m ← pNat; pEnd
    let alg ← (match a with
      | "padded_scan" => pure JetAlg.paddedScan
      | "unroll" => pure JetAlg.unroll
      | "via_jvp" => pure JetAlg.viaJvp
      | _ => throw s!"bad alg '{a}'")
    pure (showChk (jetexpand alg num o pt m))),
  ("c20_doubling", do
    let nd ← pNat; let o ← pObj; let m ← pNat; pEnd
    pure (showChk (jetexpandDoubling nd o m))),
  ("c20_dt0", do
    let o ← pObj; let m ← pNat; pEnd
    pure (showChk (dt0 o m))),
  ("c20_dt0_adaptive", do
    let o ← pObj
    let t ← tok
    let m ← (match t with
      | "-" => pure Option.none
      | _ => match t.toNat? with
        | some n => pure (some n)
        | none => throw s!"bad count '{t}'")
    pEnd
    pure (showChk (dt0Adaptive o m))),
  ("c20_loss_terminal", do
    let v ← pVariant; let f ← pFact; let isN ← pBool; let se ← pTree; let ue ← pTree
    let u ← pArg; let std ← pArg; pEnd
    pure (showChk (lossTerminal v f isN se ue u std))),
  ("c20_loss_timeseries", do
    let v ← pVariant; let f ← pFact; let isM ← pBool; let s1 ← pShape; let su1 ← pShape; let t ← pNat
    let u ← pArg; let std ← pArg; pEnd
    pure (showChk (lossTimeseries v f isM s1 su1 t u std))),
  ("c20_error_shape", do
    let v ← pVariant; let f ← pFact; let d ← pNat; let m ← pNat; pEnd
    pure (showChk (errorResidualShape v f d m))),
  ("c20_verify_fun_x", do
    let xa ← pBool; let xs ← pShape; let fa ← pBool; let fs ← pShape; pEnd
    pure (showChk (verifyFunAndX xa xs fa fs))),
  ("c20_ensembles", do
    let s ← pShape; pEnd
    pure (showChk (ensembles s))),
  ("c20_revert", do
    let a ← pShape; let b ← pShape; let c ← pShape; pEnd
    pure (showChk (revertConditional a b c))),
  ("c20_routine", do
    let r ← tok; let s ← tok; let w ← pBool; pEnd
    let rr ← (match r with
      | "save_at" => pure Routine.saveAt
      | "fixed_grid" => pure Routine.fixedGrid
      | "save_every_step" => pure Routine.saveEveryStep
      | "terminal_values" => pure Routine.terminalValues
      | "offgrid_marginals" => pure Routine.offgridMarginals
      | _ => throw s!"bad routine '{r}'")
    let ss ← (match s with
      | "filter" => pure Strategy.filter
      | "fixedinterval" => pure Strategy.fixedInterval
      | "fixedpoint" => pure Strategy.fixedPoint
      | _ => throw s!"bad strategy '{s}'")
    pure (showOutcome (routine rr ss w))),
  ("c20_suitable", do
    let s ← tok; pEnd
    let ss ← (match s with
      | "filter" => pure Strategy.filter
      | "fixedinterval" => pure Strategy.fixedInterval
      | "fixedpoint" => pure Strategy.fixedPoint
      | _ => throw s!"bad strategy '{s}'")
    let b := fun (x : Bool) => if x then "1" else "0"
    pure s!"{b (suitableSaveAt ss)} {b (suitableSaveEveryStep ss)} {b (suitableOffgrid ss)}")
]
end Pdq.Drv
