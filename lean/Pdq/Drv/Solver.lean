import Pdq.Model.Solver
import Pdq.Model.Interp
import Pdq.Drv.Gauss
/-! driver ops for `Pdq.Model.Solver` -/
namespace Pdq.Drv
open Pdq

def pStrategy : P Strategy := do
  match (← pNat) with
  | 0 => pure .filter
  | 1 => pure .fixedInterval
  | 2 => pure .fixedPoint
  | _ => throw "bad strategy"

def pSolState (n : Nat) : P (SolState n Q) := do
  let u ← pGauss n
  let bw ← pPCond n n
  pure { u, bw }

def showSolState {n} (s : SolState n Q) : String := showGauss s.u ++ " " ++ showPCond s.bw

/-- gain certificate for the reversal of the transition (zero matrix for the filter, which ignores it) -/
def transGain {n} (s : Strategy) (tr : PCond n n Q) (st : SolState n Q) (mode : Nat) : Except String (Mat n n Q) :=
  match s with
  | .filter => pure Mat.zero
  | _ => findGain tr.core (tr.inner st.u) mode

def opsSolver : List (String × Handler) := [
  ("sv_predict", do
    -- strategy n mode tr st  ->  predicted state
    let s ← pStrategy; let n ← pNat; let mode ← pNat
    let tr ← pPCond n n; let st ← pSolState n; pEnd
    let Gt ← (transGain s tr st mode : Except String _)
    pure (showSolState (s.predict tr st Gt))),
  ("sv_step", do
    -- strategy n k modeT modeU tr c st -> new state, then the squared whitened residual (maha of 0) if S regular else -1
    let s ← pStrategy; let n ← pNat; let k ← pNat; let modeT ← pNat; let modeU ← pNat
    let tr ← pPCond n n
    let cA ← pMat k n; let cb ← pVec k; let cQ ← pMat k k
    let st ← pSolState n; pEnd
    let c : Cond k n Q := { A := cA, b := cb, Q := cQ }
    let Gt ← (transGain s tr st modeT : Except String _)
    let pred := s.predict tr st Gt
    let Gu ← (findGain c pred.u modeU : Except String _)
    let new := Solver.step s tr (fun _ => c) st Gt Gu
    let S := (c.marg pred.u).cov
    let W := invGJ S
    let mh := if S.invOk W then showRat (Solver.mleTerm s tr (fun _ => c) st Gt W) else "-1"
    pure (showSolState new ++ " " ++ mh)),
  ("sv_init_update", do
    -- n k modeU c st -> updated state (the initial-constraint update of solver.init), then maha of 0 if S regular else -1
    let n ← pNat; let k ← pNat; let modeU ← pNat
    let cA ← pMat k n; let cb ← pVec k; let cQ ← pMat k k
    let st ← pSolState n; pEnd
    let c : Cond k n Q := { A := cA, b := cb, Q := cQ }
    let Gu ← (findGain c st.u modeU : Except String _)
    let new := st.update (c.bayesZero st.u Gu)
    let S := (c.marg st.u).cov
    let W := invGJ S
    let mh := if S.invOk W then showRat (c.whitenedSq st.u W) else "-1"
    pure (showSolState new ++ " " ++ mh)),
  ("sv_dyn_sq", do
    -- n k tr1 c st -> squared whitened residual of the mean-only prediction
    let n ← pNat; let k ← pNat
    let tr1 ← pPCond n n
    let cA ← pMat k n; let cb ← pVec k; let cQ ← pMat k k
    let st ← pSolState n; pEnd
    let c : Cond k n Q := { A := cA, b := cb, Q := cQ }
    let up := tr1.applyPt st.u.mean
    let S := (c.marg up).cov
    let W := invGJ S
    if !(S.invOk W) then throw "cert: innovation of the mean-only prediction not invertible"
    pure (showRat (Solver.dynamicSq tr1 (fun _ => c) st W))),
  ("sv_apply_mean", do
    -- n tr st -> mean of tr.applyPt st.u.mean (the point where solver_dynamic linearises)
    let n ← pNat
    let tr ← pPCond n n; let st ← pSolState n; pEnd
    pure (showVec (tr.applyPt st.u.mean).mean)),
  ("sv_step_dyn", do
    -- strategy n k modeT relin tr1 trS c0 c1 st -> new state  (c0: linearisation at the mean-only prediction, c1: at the full prediction)
    let s ← pStrategy; let n ← pNat; let k ← pNat; let modeT ← pNat; let relin ← pNat
    let tr1 ← pPCond n n; let trS ← pPCond n n
    let c0A ← pMat k n; let c0b ← pVec k; let c0Q ← pMat k k
    let c1A ← pMat k n; let c1b ← pVec k; let c1Q ← pMat k k
    let st ← pSolState n; pEnd
    let c0 : Cond k n Q := { A := c0A, b := c0b, Q := c0Q }
    let c1 : Cond k n Q := { A := c1A, b := c1b, Q := c1Q }
    let Gt ← (transGain s trS st modeT : Except String _)
    let pred := s.predict trS st Gt
    let up := tr1.applyPt st.u.mean
    -- `lin` returns c0 at the mean-only prediction and c1 elsewhere (the two means coincide in exact arithmetic)
    let lin : Vec n Q → Cond k n Q := fun x => if x.beq up.mean then c0 else c1
    let c := if relin = 1 then lin pred.u.mean else c0
    let Gu ← (findGain c pred.u 0 : Except String _)
    pure (showSolState (Solver.stepDynamic s tr1 trS lin (relin = 1) st Gt Gu))),
  ("sv_mle_running", do
    let a2 ← pRat; let num ← pRat; let b2 ← pRat; pEnd
    pure (showRat (Solver.mleRunning a2 num b2))),
  ("sv_fixed_grid_smoothed", do
    -- strategy n scale count st_1 … st_count (time order; the last one is the final state) -> count+1 marginals in time order
    let s ← pStrategy; let n ← pNat; let scale ← pRat; let cnt ← pNat
    let mut sts : List (SolState n Q) := []
    for _ in [0:cnt] do
      sts := sts ++ [← pSolState n]
    pEnd
    match sts.getLast? with
    | none => throw "no states"
    | some last => pure (" ".intercalate ((solveFixedGridSmoothed s scale sts last).map showGauss))),
  ("sv_interpolate", do
    -- strategy n p0 p1 tr0t trt1 -> interpolated, stepFrom, interpFrom
    let s ← pStrategy; let n ← pNat
    let p0 ← pSolState n; let p1 ← pSolState n
    let tr0t ← pPCond n n; let trt1 ← pPCond n n; pEnd
    let G0 ← (transGain s tr0t p0 0 : Except String _)
    let mid : SolState n Q := match s with
      | .filter => s.predict tr0t p0 G0
      | .fixedPoint => { u := (Strategy.fixedPoint.predict tr0t p0 G0).u, bw := PCond.identity n }
      | .fixedInterval => Strategy.fixedInterval.predict tr0t p0 G0
    let G1 ← (transGain s trt1 mid 0 : Except String _)
    let o := s.interpolate p0 p1 tr0t trt1 G0 G1
    pure (showSolState o.interpolated ++ " " ++ showSolState o.stepFrom ++ " " ++ showSolState o.interpFrom)),
  ("sv_interpolate_at_t1", do
    let s ← pStrategy; let n ← pNat
    let p1 ← pSolState n; pEnd
    let o := s.interpolateAtT1 p1
    pure (showSolState o.interpolated ++ " " ++ showSolState o.stepFrom ++ " " ++ showSolState o.interpFrom)),
  ("sv_offgrid_fi", do
    -- n filt0 smooth1 tr0t trt1 -> marginal at t
    let n ← pNat
    let f0 ← pGauss n; let s1 ← pGauss n
    let tr0t ← pPCond n n; let trt1 ← pPCond n n; pEnd
    let post := SolState.init f0
    let G0 ← (findGain tr0t.core (tr0t.inner f0) 0 : Except String _)
    let at_t := Strategy.fixedInterval.predict tr0t post G0
    let G1 ← (findGain trt1.core (trt1.inner at_t.u) 0 : Except String _)
    pure (showGauss (offgridFixedInterval f0 s1 tr0t trt1 G0 G1))),
  ("sv_finalize", do
    -- n scale count post1 bw_1 … bw_count (last first) -> count+1 marginals (terminal first)
    let n ← pNat; let scale ← pRat; let cnt ← pNat
    let post1 ← pSolState n
    let mut bws : List (PCond n n Q) := []
    for _ in [0:cnt] do
      bws := bws ++ [← pPCond n n]
    pEnd
    pure (" ".intercalate ((smootherFinalize scale post1 bws).map showGauss)))
]
end Pdq.Drv
