import Pdq.Model.ErrorEst
import Pdq.Drv.Gauss
/-! driver ops for `Pdq.Model.ErrorEst` (C07) -/
namespace Pdq.Drv
open Pdq

def pEeFact : P Fact := do
  match (← pNat) with
  | 0 => pure .dense
  | 1 => pure .iso
  | 2 => pure .bd
  | _ => throw "bad factorisation"

def pEeNorm : P ErrNorm := do
  match (← pNat) with
  | 0 => pure .scaleThenRms
  | 1 => pure .rmsThenScale
  | _ => throw "bad norm"

def pEeBool : P Bool := do
  match (← pNat) with
  | 0 => pure false
  | 1 => pure true
  | _ => throw "bad bool"

def pEeCond (k n : Nat) : P (Cond k n Q) := do
  let A ← pMat k n; let b ← pVec k; let R ← pMat k k
  pure { A, b, Q := R }

/-- one slice on the wire: tr1, previous marginal (mean **and** covariance), proposed marginal,
cached linearisation, linearisation at the extrapolated means -/
structure WireSlice (k n : Nat) where
  tr1 : PCond n n Q
  prev : Gauss n Q
  prop : Gauss n Q
  cached : Cond k n Q
  relin : Cond k n Q

def pWireSlice (k n : Nat) : P (WireSlice k n) := do
  let tr1 ← pPCond n n
  let prev ← pGauss n
  let prop ← pGauss n
  let cached ← pEeCond k n
  let relin ← pEeCond k n
  pure { tr1, prev, prop, cached, relin }

def WireSlice.toIn {k n} (w : WireSlice k n) (W : Mat k k Q) (G : Mat n k Q) : ErrIn k n Q :=
  { tr1 := w.tr1, previous := SolState.init w.prev, proposed := SolState.init w.prop, cached := w.cached, W := W, G := G }

def opsErrorEst : List (String × Handler) := [
  ("ee_means", do
    -- n nsl (tr1 mean)* -> the extrapolated means `transition.apply_flat(previous mean)`, where re-linearisation happens
    let n ← pNat; let nsl ← pNat
    let mut out : List String := []
    for _ in [0:nsl] do
      let tr1 ← pPCond n n; let m ← pVec n
      let v : ErrView 0 n Q := { tr1 := tr1, m0 := m, m1 := m, cached := ⟨Mat.zero, Vec.zero, Mat.zero⟩, W := Mat.zero, G := Mat.zero }
      out := out ++ [showVec v.extrapolate.mean]
    pEnd
    pure (" ".intercalate out)),
  ("ee_reference", do
    -- dps idx n nsl (m0 m1)* -> len ref… meanSq(ref) (or -1 if empty)
    let dps ← pNat; let idx ← pNat; let n ← pNat; let nsl ← pNat
    let mut vs : List (ErrView 0 n Q) := []
    for _ in [0:nsl] do
      let m0 ← pVec n; let m1 ← pVec n
      vs := vs ++ [{ tr1 := PCond.identity n, m0 := m0, m1 := m1, cached := ⟨Mat.zero, Vec.zero, Mat.zero⟩, W := Mat.zero, G := Mat.zero }]
    pEnd
    if dps = 0 ∨ n < (idx + 1) * dps then throw "undefined: coefficient index out of range"
    let ref := ErrorEst.reference dps idx vs
    let B := match ErrorEst.meanSq ref with | some b => showRat b | none => "-1"
    pure (s!"{ref.length} " ++ showList ref ++ " " ++ B)),
  ("ee_norm", do
    -- est fact norm relin perUnit resOrder dps derivIdx k n nsl dt atol rtol rho slice*
    --   -> status(0 ok / 1 shape error / 2 undefined) norm2 rate  len(err2) err2… (unscaled squared error vector; 0 entries unless ok or shape error)
    let est ← pNat; let fact ← pEeFact; let nrm ← pEeNorm; let relin ← pEeBool; let perUnit ← pEeBool
    let resOrder ← pNat; let dps ← pNat; let derivIdx ← pNat
    let k ← pNat; let n ← pNat; let nsl ← pNat
    let dt ← pRat; let atol ← pRat; let rtol ← pRat; let rho ← pRat
    let mut ws : List (WireSlice k n) := []
    for _ in [0:nsl] do
      ws := ws ++ [← pWireSlice k n]
    pEnd
    let cfg : ErrCfg := { fact := fact, norm := nrm, relin := relin, perUnitStep := perUnit, resOrder := resOrder, dps := dps, derivIdx := derivIdx }
    let relins := ws.map (·.relin)
    let lin : List (Vec n Q) → Nat → Cond k n Q := fun _ j => relins.getD j ⟨Mat.zero, Vec.zero, Mat.zero⟩
    -- certificates for the linearisation the model chooses
    let views0 := ws.map fun w => (w.toIn Mat.zero Mat.zero).view
    let means := ErrorEst.means views0
    let mut ins : List (ErrIn k n Q) := []
    let mut j := 0
    for w in ws do
      let v := (w.toIn Mat.zero Mat.zero).view
      let c := ErrorEst.chosen relin lin means j v
      let rv := v.extrapolate
      let S := (c.marg rv).cov
      let W := invGJ S
      if !(S.invOk W) then throw "cert: innovation covariance of the extrapolation not invertible"
      let G ← if est = 1 then (findGain c rv 0 : Except String _) else pure Mat.zero
      ins := ins ++ [w.toIn W G]
      j := j + 1
    let res := if est = 0 then ErrorEst.residualStd cfg lin ins dt atol rtol rho
               else ErrorEst.stateStd cfg lin ins dt atol rtol rho
    let vs := ins.map ErrIn.view
    let stats := if est = 0 then ErrorEst.residualStats relin lin vs else ErrorEst.stateStats relin lin dps derivIdx vs
    let e2 := (ErrorEst.err2Of fact k stats).getD []
    let tail := s!"{e2.length} " ++ showList e2
    match res with
    | .ok (v, rate) => pure (s!"0 {showRat v} {rate} " ++ tail)
    | .error .shape => pure ("1 0 0 " ++ tail)
    | .error .undefined => pure ("2 0 0 " ++ tail)),
  ("ee_shape_ok", do
    let a ← pNat; let b ← pNat; let c ← pNat; pEnd
    pure (if ErrorEst.shapeOk a b c then "1" else "0"))
]
end Pdq.Drv
