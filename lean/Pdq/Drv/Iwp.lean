import Pdq.Model.Iwp
import Pdq.Drv.Gauss
/-! driver ops for the IWP transition -/
namespace Pdq.Drv
open Pdq

def opsIwp : List (String × Handler) := [
  ("iwp_transition1", do
    let q ← pNat; let h ← pRat; let s2 ← pRat; pEnd
    if h = 0 then throw "h = 0"
    pure (showPCond (Iwp.transition1 q h s2))),
  ("iwp_transition_dense", do
    let q ← pNat; let d ← pNat; let h ← pRat; let s2 ← pRat; let lam2 ← pVec d; pEnd
    if h = 0 then throw "h = 0"
    pure (showPCond (Iwp.transitionDense q d h s2 lam2)))
]
end Pdq.Drv
