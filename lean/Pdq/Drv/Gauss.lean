import Pdq.Model.Gauss
import Pdq.Drv.Core
/-! driver ops for `Pdq.Model.Gauss` (C08 and everything built on it) -/
namespace Pdq.Drv
open Pdq

def pGauss (n : Nat) : P (Gauss n Q) := do
  let mean ← pVec n
  let cov ← pMat n n
  pure { mean, cov }

def pPCond (m n : Nat) : P (PCond m n Q) := do
  let A ← pMat m n
  let b ← pVec m
  let Qm ← pMat m m
  let tl ← pVec n
  let tob ← pVec m
  pure { A, b, Q := Qm, tl, tob }

def showGauss {n} (g : Gauss n Q) : String := showVec g.mean ++ " " ++ showMat g.cov
def showCond {m n} (c : Cond m n Q) : String := showMat c.A ++ " " ++ showVec c.b ++ " " ++ showMat c.Q
def showPCond {m n} (c : PCond m n Q) : String :=
  showMat c.A ++ " " ++ showVec c.b ++ " " ++ showMat c.Q ++ " " ++ showVec c.tl ++ " " ++ showVec c.tob

/-- find and *check* a gain for `c.revertWith g`; mode 0: via certified inverse of `S`,
mode 1: via certified Moore–Penrose pseudo-inverse (what `lstsq_svd` returns) -/
def findGain {m n} (c : Cond m n Q) (g : Gauss n Q) (mode : Nat) : Except String (Mat n m Q) := do
  let S := (c.marg g).cov
  let Z ← if mode = 0 then
      let W := invGJ S
      if S.invOk W then pure W else throw "cert: S not invertible (invOk failed)"
    else
      let Z := pinvGJ S
      if S.pinvOk Z then pure Z else throw "cert: pinvOk failed"
  let G := (c.cross g).mul Z
  if c.gainOk g G then pure G else throw "cert: gainOk failed (P Aᵀ not in the row space of S)"

def opsGauss : List (String × Handler) := [
  ("pc_marg", do
    let m ← pNat; let n ← pNat
    let c ← pPCond m n; let g ← pGauss n; pEnd
    pure (showGauss (c.marg g))),
  ("pc_apply", do
    let m ← pNat; let n ← pNat
    let c ← pPCond m n; let x ← pVec n; pEnd
    pure (showGauss (c.applyPt x))),
  ("pc_merge", do
    let k ← pNat; let m ← pNat; let n ← pNat
    let c2 ← pPCond k m; let c1 ← pPCond m n; pEnd
    pure (showPCond (c2.merge c1))),
  ("pc_den", do
    let m ← pNat; let n ← pNat
    let c ← pPCond m n; pEnd
    pure (showCond c.den)),
  ("pc_revert", do
    let m ← pNat; let n ← pNat; let mode ← pNat
    let c ← pPCond m n; let g ← pGauss n; pEnd
    let G ← (findGain c.core (c.inner g) mode : Except String _)
    let r := c.revertWith g G
    pure (showGauss r.1 ++ " " ++ showPCond r.2)),
  ("g_maha", do
    -- returns maha = (u-m)ᵀ S⁻¹ (u-m) and det S, both certified
    let n ← pNat
    let g ← pGauss n; let u ← pVec n; pEnd
    let W := invGJ g.cov
    if !(g.cov.invOk W) then throw "cert: covariance not invertible"
    let (L, U) := luGJ g.cov
    if !(g.cov.luOk L U) then throw "cert: luOk failed"
    pure (showRat (g.maha W u) ++ " " ++ showRat U.diagProd)),
  ("g_var", do
    let n ← pNat
    let g ← pGauss n; pEnd
    pure (showVec g.var)),
  ("g_rescale", do
    let n ← pNat
    let g ← pGauss n; let c ← pRat; pEnd
    pure (showGauss (g.rescale c)))
]

end Pdq.Drv
