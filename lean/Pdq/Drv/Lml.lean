import Pdq.Model.Lml
import Pdq.Drv.Gauss
/-! driver ops for `Pdq.Model.Lml` (C12) -/
namespace Pdq.Drv
open Pdq

/-- find and check the certificates of one Bayes step (`S` must be invertible: the code takes `logpdf` with it) -/
def mkLmlObs {k n} (c : Cond k n Q) (u : Vec k Q) (rv : Gauss n Q) : Except String (LmlObs k n Q) := do
  let S := (c.marg rv).cov
  let W := invGJ S
  if !(S.invOk W) then throw "cert: innovation covariance not invertible"
  let G := (c.cross rv).mul W
  let (L, U) := luGJ S
  let o : LmlObs k n Q := { c, u, G, W, L, U }
  if !(o.ok rv) then throw "cert: LmlObs.ok failed"
  pure o

/-- certificates along the whole backward pass -/
def mkLmlPass {k n} (rv : Gauss n Q) (c : Cond k n Q) (u : Vec k Q) :
    List (PCond n n Q × Cond k n Q × Vec k Q) → Except String (LmlObs k n Q × List (PCond n n Q × LmlObs k n Q))
  | [] => do
    let o ← mkLmlObs c u rv
    pure (o, [])
  | (bw, c', u') :: rest => do
    let o ← mkLmlObs c u rv
    let (o', l) ← mkLmlPass (bw.marg (o.step rv).2) c' u' rest
    pure (o, (bw, o') :: l)

def showTerms (ts : List (LmlTerm Q)) : String :=
  " ".intercalate (ts.map fun t => showRat t.maha ++ " " ++ showRat t.det)

/-- the pass for a given observation matrix `H` (built by the model's `to_derivative`) -/
def lmlPassOp {k : Nat} (n : Nat) (H : Mat k n Q) (cnt : Nat) : P String := do
  let term ← pGauss n
  let var ← pVec k; let u ← pVec k
  let mut xs : List (PCond n n Q × Cond k n Q × Vec k Q) := []
  for _ in [0:cnt] do
    let bw ← pPCond n n
    let var' ← pVec k; let u' ← pVec k
    xs := xs ++ [(bw, obsCond H var', u')]
  pEnd
  let (o, rest) ← (mkLmlPass term (obsCond H var) u xs : Except String _)
  if !(lmlOk term o rest) then throw "cert: lmlOk failed"
  pure (showTerms (lmlTerms term o rest))

def lmlTerminalOp {k : Nat} (n : Nat) (H : Mat k n Q) : P String := do
  let rv ← pGauss n
  let var ← pVec k; let u ← pVec k; pEnd
  let c := obsCond H var
  let S := (c.marg rv).cov
  let W := invGJ S
  if !(S.invOk W) then throw "cert: covariance not invertible"
  let (L, U) := luGJ S
  if !(S.luOk L U) then throw "cert: luOk failed"
  pure (showTerms [terminalLml c rv u W U])

def opsLml : List (String × Handler) := [
  ("lml_terms", do
    -- kind(0 dense, 1 slice) n d i cnt  term(mean cov)  var_N u_N  [bw var u]*cnt   (last interval first)
    --   -> maha det per time, terminal first
    let kind ← pNat; let n ← pNat; let d ← pNat; let i ← pNat; let cnt ← pNat
    if kind = 0 then
      if (i + 1) * d > n then throw "tcoeff index out of range"
      lmlPassOp n (toDerivativeDense n d i : Mat d n Q) cnt
    else
      if i ≥ n then throw "tcoeff index out of range"
      lmlPassOp n (toDerivativeSlice n i : Mat 1 n Q) cnt),
  ("lml_terminal", do
    -- kind n d i  rv  var u -> maha det
    let kind ← pNat; let n ← pNat; let d ← pNat; let i ← pNat
    if kind = 0 then
      if (i + 1) * d > n then throw "tcoeff index out of range"
      lmlTerminalOp n (toDerivativeDense n d i : Mat d n Q)
    else
      if i ≥ n then throw "tcoeff index out of range"
      lmlTerminalOp n (toDerivativeSlice n i : Mat 1 n Q)),
  ("lml_running", do
    -- avg pdf0 cnt rest… -> value
    let avg ← pNat; let pdf0 ← pRat; let cnt ← pNat
    let rest ← pList cnt; pEnd
    pure (showRat (lmlRunning (avg = 1) pdf0 rest.toList))),
  ("lml_to_derivative", do
    -- kind n d i -> the observation matrix, row-major
    let kind ← pNat; let n ← pNat; let d ← pNat; let i ← pNat; pEnd
    if kind = 0 then pure (showMat (toDerivativeDense n d i : Mat d n Q))
    else pure (showMat (toDerivativeSlice n i : Mat 1 n Q)))
]
end Pdq.Drv
