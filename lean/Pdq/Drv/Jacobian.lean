import Pdq.Model.Jacobian
import Pdq.Drv.Core
/-! driver ops for `Pdq.Model.Jacobian` (C17) -/
namespace Pdq.Drv
open Pdq

/-- row-major `(nOut, d, nIn, d)` -/
def pJac (nOut nIn d : Nat) : P (Jac nOut nIn d Q) := do
  let a ← pList (nOut * d * nIn * d)
  pure ⟨fun m d' n dd => a.getD (((m.val * d + d'.val) * nIn + n.val) * d + dd.val) 0⟩

/-- one probe `(n, d)`, row-major, every token must be `1` or `-1`; the matrix is built by the
model's `probe` from the sign pattern -/
def pProbe (n d : Nat) : P (Mat n d Q) := do
  let mut a : Array Bool := Array.mkEmpty (n * d)
  for _ in [0:n * d] do
    let t ← tok
    if t = "1" then a := a.push true
    else if t = "-1" then a := a.push false
    else throw s!"probe entry '{t}' is not a sign"
  pure (probe fun (ij : Fin n × Fin d) => a.getD (ij.1.val * d + ij.2.val) true)

def pProbes (s n d : Nat) : P (Array (Mat n d Q)) := do
  let mut a : Array (Mat n d Q) := Array.mkEmpty s
  for _ in [0:s] do
    a := a.push (← pProbe n d)
  pure a

def probesFn {n d : Nat} (a : Array (Mat n d Q)) : Fin a.size → Mat n d Q := fun p => a[p]

def showTen3 {a b c} (T : Ten3 a b c Q) : String := showList T.toList

def needSome {β : Type} (o : Option β) : P β :=
  match o with
  | some x => pure x
  | none => throw "num_probes=0 (mean over an empty axis)"

/-- shape description: `isarray(0/1) rank dim_1 … dim_rank` -/
def pShapeJac : P (Option (List Nat)) := do
  let isArr ← pNat
  let rank ← pNat
  let mut dims : List Nat := []
  for _ in [0:rank] do
    dims := dims ++ [← pNat]
  pure (if isArr = 0 then none else some dims)

def opsJacobian : List (String × Handler) := [
  ("jac_blocks", do
    -- trace (nOut,nIn) ++ diagonal (d,nOut,nIn) ++ dense reshape (nOut*d, nIn*d) ++ dense (nOut,d,nIn,d)
    let nOut ← pNat; let nIn ← pNat; let d ← pNat
    let J ← pJac nOut nIn d; pEnd
    pure (showMat J.traceD ++ " " ++ showTen3 J.diagD ++ " " ++ showMat J.flatten ++ " " ++ showList J.dense.toList)),
  ("jac_fwd_trace", do
    let nOut ← pNat; let nIn ← pNat; let d ← pNat; let s ← pNat
    let J ← pJac nOut nIn d; let V ← pProbes s nIn d; pEnd
    pure (showMat (← needSome (J.fwdTrace (probesFn V))))),
  ("jac_fwd_diag", do
    let nOut ← pNat; let nIn ← pNat; let d ← pNat; let s ← pNat
    let J ← pJac nOut nIn d; let V ← pProbes s nIn d; pEnd
    pure (showTen3 (← needSome (J.fwdDiag (probesFn V))))),
  ("jac_rev_trace", do
    let nOut ← pNat; let nIn ← pNat; let d ← pNat; let s ← pNat
    let J ← pJac nOut nIn d; let V ← pProbes s nOut d; pEnd
    pure (showMat (← needSome (J.revTrace (probesFn V))))),
  ("jac_rev_diag", do
    let nOut ← pNat; let nIn ← pNat; let d ← pNat; let s ← pNat
    let J ← pJac nOut nIn d; let V ← pProbes s nOut d; pEnd
    pure (showTen3 (← needSome (J.revDiag (probesFn V))))),
  -- the `_each` ops: every probe on its own with `num_probes = 1`, outputs concatenated
  ("jac_fwd_trace_each", do
    let nOut ← pNat; let nIn ← pNat; let d ← pNat; let s ← pNat
    let J ← pJac nOut nIn d; let V ← pProbes s nIn d; pEnd
    let outs ← V.toList.mapM fun v => do
      pure (showMat (← needSome (J.fwdTrace (fun _ : Fin 1 => v))))
    pure (" ".intercalate outs)),
  ("jac_fwd_diag_each", do
    let nOut ← pNat; let nIn ← pNat; let d ← pNat; let s ← pNat
    let J ← pJac nOut nIn d; let V ← pProbes s nIn d; pEnd
    let outs ← V.toList.mapM fun v => do
      pure (showTen3 (← needSome (J.fwdDiag (fun _ : Fin 1 => v))))
    pure (" ".intercalate outs)),
  ("jac_rev_trace_each", do
    let nOut ← pNat; let nIn ← pNat; let d ← pNat; let s ← pNat
    let J ← pJac nOut nIn d; let V ← pProbes s nOut d; pEnd
    let outs ← V.toList.mapM fun v => do
      pure (showMat (← needSome (J.revTrace (fun _ : Fin 1 => v))))
    pure (" ".intercalate outs)),
  ("jac_rev_diag_each", do
    let nOut ← pNat; let nIn ← pNat; let d ← pNat; let s ← pNat
    let J ← pJac nOut nIn d; let V ← pProbes s nOut d; pEnd
    let outs ← V.toList.mapM fun v => do
      pure (showTen3 (← needSome (J.revDiag (fun _ : Fin 1 => v))))
    pure (" ".intercalate outs)),
  ("jac_verify", do
    let x ← pShapeJac; let fx ← pShapeJac; pEnd
    match verifyFunAndX x fx with
    | .ok (nIn, nOut, d) => pure s!"accept {nIn} {nOut} {d}"
    | .error .typeError => pure "TypeError"
    | .error .valueError => pure "ValueError")
]

end Pdq.Drv
