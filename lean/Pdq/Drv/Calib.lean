import Pdq.Model.Calib
import Pdq.Model.Factor
import Pdq.Drv.Solver
/-! driver ops for `Pdq.Model.Calib` and `Pdq.Model.Factor` (C04, C14) -/
namespace Pdq.Drv
open Pdq

def pFactorisation : P Factorisation := do
  match (← pNat) with
  | 0 => pure .dense
  | 1 => pure .iso
  | 2 => pure .bd
  | _ => throw "bad factorisation"

/-- a family indexed by `Fin d`, parsed as `d` consecutive items -/
def pFam {X : Type} (d : Nat) (p : P X) (dflt : X) : P (Fin d → X) := do
  let mut a : Array X := Array.mkEmpty d
  for _ in [0:d] do
    a := a.push (← p)
  pure fun i => a.getD i.val dflt

def zGauss (n : Nat) : Gauss n Q := { mean := Vec.zero, cov := Mat.zero }
def zCond (k n : Nat) : Cond k n Q := { A := Mat.zero, b := Vec.zero, Q := Mat.zero }
def zState (n : Nat) : SolState n Q := SolState.init (zGauss n)

def pCond (k n : Nat) : P (Cond k n Q) := do
  let A ← pMat k n; let b ← pVec k; let Qm ← pMat k k
  pure { A, b, Q := Qm }

def famList {X : Type} {d : Nat} (f : Fin d → X) : List X := (List.finRange d).map f

def opsCalib : List (String × Handler) := [
  ("cal_mle_fold", do
    -- a2 num cnt t_1 … t_cnt -> running2 num
    let a2 ← pRat; let num ← pRat; let cnt ← pNat
    let ts ← pList cnt; pEnd
    let r := Solver.mleFold a2 num ts.toList
    pure (showRat r.1 ++ " " ++ showRat r.2)),
  ("cal_mle_final", do
    let corr ← pNat; let r2 ← pRat; let ns ← pRat; pEnd
    if corr = 1 && ns = 0 then throw "num_steps = 0 with correction"
    pure (showRat (Solver.mleFinal (corr = 1) r2 ns))),
  ("cal_rms2", do
    -- fact k d cnt e_1 … e_cnt : whitened energies of the slices (dense: 1, iso/bd: d) -> squared whitened RMS
    -- (dense/iso: one number, bd: d numbers)
    let fact ← pFactorisation; let k ← pNat; let d ← pNat; let cnt ← pNat
    let es ← pList cnt; pEnd
    let size : Q := ((fact.rmsSize k d : Nat) : Q)
    if size = 0 then throw "size = 0"
    match fact with
    | .dense =>
      if cnt ≠ 1 then throw "dense: one energy expected"
      pure (showRat (Calib.rms2 size (es.getD 0 0)))
    | .iso =>
      if cnt ≠ d then throw "iso: d energies expected"
      pure (showRat (Calib.rms2 size (vsum (fun a : Fin d => es.getD a.val 0))))
    | .bd =>
      if cnt ≠ d then throw "bd: d energies expected"
      pure (showList (es.toList.map (Calib.rms2 size)))),
  ("cal_rescale2", do
    let n ← pNat; let g ← pGauss n; let s2 ← pRat; pEnd
    pure (showGauss (g.rescale2 s2))),
  ("cal_error_var", do
    -- n k size tr1 c st -> squared local error estimate σ̂²·diag(S) of the mean-only prediction
    let n ← pNat; let k ← pNat; let size ← pRat
    let tr1 ← pPCond n n; let c ← pCond k n; let st ← pSolState n; pEnd
    if size = 0 then throw "size = 0"
    let up := tr1.applyPt st.u.mean
    let S := (c.marg up).cov
    let W := invGJ S
    if !(S.invOk W) then throw "cert: innovation of the mean-only prediction not invertible"
    pure (showVec (Calib.errorVar tr1 (fun _ => c) st W size))),
  ("fac_embed_gauss", do
    -- n d g_1 … g_d -> the dense Gaussian the slices represent
    let n ← pNat; let d ← pNat
    let gs ← pFam d (pGauss n) (zGauss n); pEnd
    pure (showGauss (embedGauss gs))),
  ("fac_lin_dense", do
    -- n d Kc damp2 fx[d] J[d][n][d] m[n][d] -> dense linearisation (H, b, R), rows 1*d
    let n ← pNat; let d ← pNat; let Kc ← pNat; let damp2 ← pRat
    let fx ← pVec d
    let J ← pList (d * n * d)
    let m ← pMat n d; pEnd
    let Jf : Fin d → Fin n → Fin d → Q := fun a i b => J.getD ((a.val * n + i.val) * d + b.val) 0
    pure (showCond (Factor.linDense n d Kc fx.get Jf m.get damp2))),
  ("fac_lin_slices", do
    -- fact(1 iso | 2 bd) n d Kc damp2 fx[d] J[d][n][d] m[n][d] -> d slice linearisations (H, b, R), each 1 x n
    let fact ← pFactorisation
    let n ← pNat; let d ← pNat; let Kc ← pNat; let damp2 ← pRat
    let fx ← pVec d
    let J ← pList (d * n * d)
    let m ← pMat n d; pEnd
    if d = 0 then throw "d = 0"
    let Jf : Fin d → Fin n → Fin d → Q := fun a i b => J.getD ((a.val * n + i.val) * d + b.val) 0
    let red : Fin d → Fin n → Q := match fact with
      | .iso => fun _ => Factor.jacTrace Jf
      | _ => fun a => Factor.jacDiag Jf a
    let cs : Fin d → Cond 1 n Q := fun a => Factor.linSlice n Kc (fx.get a) (red a) (fun i => m.get i a) damp2
    pure (" ".intercalate ((famList cs).map showCond))),
  ("fac_step_dense_embedded", do
    -- strategy n k d  trs[d] conds[d] sts[d] -> the dense state after `Solver.step` on the embedded data (gains found
    -- per slice, certified, embedded), followed by the summed whitened energy (or -1)
    let s ← pStrategy; let n ← pNat; let k ← pNat; let d ← pNat
    let trs ← pFam d (pPCond n n) (PCond.identity n)
    let cs ← pFam d (pCond k n) (zCond k n)
    let sts ← pFam d (pSolState n) (zState n); pEnd
    let mut Gts : Array (Mat n n Q) := #[]
    let mut Gus : Array (Mat n k Q) := #[]
    let mut Ws : Array (Mat k k Q) := #[]
    let mut okW := true
    for a in List.finRange d do
      let Gt ← (transGain s (trs a) (sts a) 0 : Except String _)
      let pred := s.predict (trs a) (sts a) Gt
      let Gu ← (findGain (cs a) pred.u 0 : Except String _)
      let S := ((cs a).marg pred.u).cov
      let W := invGJ S
      if !(S.invOk W) then okW := false
      Gts := Gts.push Gt; Gus := Gus.push Gu; Ws := Ws.push W
    let GtF : Fin d → Mat n n Q := fun a => Gts.getD a.val Mat.zero
    let GuF : Fin d → Mat n k Q := fun a => Gus.getD a.val Mat.zero
    let WF : Fin d → Mat k k Q := fun a => Ws.getD a.val Mat.zero
    let TR := embedPCond trs
    let ST := embedState sts
    let LIN : Vec (n * d) Q → Cond (k * d) (n * d) Q := fun _ => embedCond cs
    -- the embedded gains must be certified for the dense problem as well
    let PRED := s.predict TR ST (embedMat GtF)
    if !((embedCond cs).gainOk PRED.u (embedMat GuF)) then throw "cert: embedded gain not certified for the dense problem"
    let new := Solver.step s TR LIN ST (embedMat GtF) (embedMat GuF)
    let slices := Factor.stepSlices s trs (fun _ => cs) sts GtF GuF
    if !(new.u.mean.beq (embedState slices).u.mean && new.u.cov.beq (embedState slices).u.cov) then
      throw "dense step on embedded data differs from the embedding of the slice steps (contradicts C14.embed_step)"
    let en := if okW then showRat (Solver.mleTerm s TR LIN ST (embedMat GtF) (embedMat WF)) else "-1"
    pure (showGauss new.u ++ " " ++ en))
]
end Pdq.Drv
