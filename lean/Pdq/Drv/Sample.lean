import Pdq.Model.Sample
import Pdq.Model.Iwp
import Pdq.Drv.Gauss
/-! driver ops for `Pdq.Model.Sample` (C13) -/
namespace Pdq.Drv
open Pdq

def pNodes (n p cnt : Nat) : P (List (SampleNode n p Q)) := do
  let mut xs : List (SampleNode n p Q) := []
  for _ in [0:cnt] do
    let bw ← pPCond n n
    let L ← pMat n p
    let xi ← pVec p
    xs := xs ++ [{ bw, L, xi }]
  pure xs

def showPath (k : KeyPath) : String := if k.isEmpty then "e" else ".".intercalate (k.map toString)

def opsSample : List (String × Handler) := [
  ("smp_chain", do
    -- n p reverse cnt  mean L0 xi0  [bw L xi]*cnt (visiting order) -> samples in the order the code returns them
    let n ← pNat; let p ← pNat; let rev ← pNat; let cnt ← pNat
    let mean ← pVec n; let L0 ← pMat n p; let xi0 ← pVec p
    let nodes ← pNodes n p cnt; pEnd
    pure (" ".intercalate ((sampleOutput (rev = 1) mean L0 xi0 nodes).map showVec))),
  ("smp_lin", do
    -- n p cnt  L0 xi0 [bw L xi]*cnt -> linear part, visiting order
    let n ← pNat; let p ← pNat; let cnt ← pNat
    let L0 ← pMat n p; let xi0 ← pVec p
    let nodes ← pNodes n p cnt; pEnd
    pure (" ".intercalate ((sampleLin L0 xi0 nodes).map showVec))),
  ("smp_marginals", do
    -- n cnt term [bw]*cnt -> evaluate_marginals in visiting order (mean cov each)
    let n ← pNat; let cnt ← pNat
    let term ← pGauss n
    let mut bws : List (PCond n n Q) := []
    for _ in [0:cnt] do
      bws := bws ++ [← pPCond n n]
    pEnd
    pure (" ".intercalate ((evalMarginals term bws).map showGauss))),
  ("smp_keys", do
    -- cnt len shape… idx… -> the keys handed to sample_flat for that entry, visiting order ("-" outside the shape)
    let cnt ← pNat; let len ← pNat
    let mut shape : List Nat := []
    for _ in [0:len] do shape := shape ++ [← pNat]
    let mut idx : List Nat := []
    for _ in [0:len] do idx := idx ++ [← pNat]
    pEnd
    match shapedSampleKeys [] shape idx cnt with
    | none => pure "-"
    | some ks => pure (" ".intercalate (ks.map showPath))),
  ("smp_from_grid", do
    -- kind(0 dense, 1 slice) q d s2 lam2(d) reverse m grid… -> conditionals of from_grid (IWP) in visiting order
    let kind ← pNat; let q ← pNat; let d ← pNat; let s2 ← pRat; let lam2 ← pVec d
    let rev ← pNat; let m ← pNat
    let grid ← pList m; pEnd
    let ds := gridDiffs grid.toList
    if ds.any (· = 0) then throw "h = 0"
    if kind = 0 then
      pure (" ".intercalate ((fromGridConds (fun h => Iwp.transitionDense q d h s2 lam2) grid.toList (rev = 1)).map showPCond))
    else
      pure (" ".intercalate ((fromGridConds (fun h => Iwp.transition1 q h s2) grid.toList (rev = 1)).map showPCond)))
]
end Pdq.Drv
