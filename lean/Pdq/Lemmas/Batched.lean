import Pdq.Model.BatchedWhile
import Mathlib.Data.List.Basic
import Mathlib.Tactic.Linarith

/-! helper lemmas for C15 about `whileLoop`, `scanL` and maxima of lists -/
set_option linter.unusedSectionVars false
set_option linter.unusedSimpArgs false
namespace Pdq.C15
open Pdq.Batched
variable {σ τ β γ : Type}

theorem whileLoop_of_not_cond (cond : σ → Bool) (body : σ → σ) (fuel : Nat) (s : σ) (h : cond s = false) :
    whileLoop cond body fuel s = s := by
  cases fuel with
  | zero => rfl
  | succ f => simp [whileLoop, h]


theorem foldr_max_step (c : σ → Bool) (G h : σ → Nat)
    (hG : ∀ s, G s = if c s then h s + 1 else 0) (hh : ∀ s, c s = false → h s = 0) (L : List σ) :
    (L.any c = true → (L.map G).foldr max 0 = (L.map h).foldr max 0 + 1) ∧
    (L.any c = false → (L.map G).foldr max 0 = 0 ∧ (L.map h).foldr max 0 = 0) := by
  induction L with
  | nil => simp
  | cons s rest ih =>
    simp only [List.any_cons, List.map_cons, List.foldr_cons, Bool.or_eq_true, Bool.or_eq_false_iff]
    constructor
    · intro hany
      cases hr : rest.any c with
      | true =>
        rw [ih.1 hr, hG s]
        cases hc : c s with
        | true => simp only [if_true]; omega
        | false => rw [hh s hc]; simp
      | false =>
        obtain ⟨e1, e2⟩ := ih.2 hr
        have hc : c s = true := by
          rcases hany with h | h
          · exact h
          · rw [hr] at h; cases h
        rw [e1, e2, hG s, hc]; simp
    · intro ⟨hc, hr⟩
      obtain ⟨e1, e2⟩ := ih.2 hr
      rw [e1, e2, hG s, hc, hh s hc]; simp


theorem scanL_length (f : σ → β → σ × γ) (s : σ) (xs : List β) : (scanL f s xs).2.length = xs.length := by
  induction xs generalizing s with
  | nil => rfl
  | cons x xs ih => simp [scanL, ih]


end Pdq.C15
