import Pdq.Model.ExpGram
import Pdq.Bridge
import Mathlib.Algebra.Module.Basic
import Mathlib.Algebra.Algebra.Basic
import Mathlib.Data.Matrix.Basic
import Mathlib.Algebra.BigOperators.Intervals
import Mathlib.Tactic.Abel

/-!
# Pdq.Lemmas.ExpGram — the transcription of `init` commutes with homomorphisms of its operations

`Alg.Hom`: a pair of maps preserving every operation of `ExpGram.Alg`.  Every model function
(`padeUV*`, `rows3`, `rowsGen`, the `k`-loop) commutes with such a pair.  Two instances:

* `toM`: model matrices (what the driver executes) → Mathlib matrices;
* `evalL · A`: coefficient lists (polynomials in the symbol `A`) → Mathlib matrices, evaluation at `A`.

Consequently the matrices the driver computes are the evaluations at `A` of the coefficient lists that
the `decide`-checked table theorems talk about.
-/
set_option linter.unusedSectionVars false
open Matrix

namespace Pdq.ExpGram

/-! ### homomorphisms of `Alg` -/

structure Alg.Hom {π₁ β₁ π₂ β₂ : Type} (g₁ : Alg π₁ β₁) (g₂ : Alg π₂ β₂) (φ : π₁ → π₂) (ψ : β₁ → β₂) : Prop where
  one : φ g₁.one = g₂.one
  mul : ∀ x y, φ (g₁.mul x y) = g₂.mul (φ x) (φ y)
  add : ∀ x y, φ (g₁.add x y) = g₂.add (φ x) (φ y)
  smul : ∀ c x, φ (g₁.smul c x) = g₂.smul c (φ x)
  app : ∀ x l, ψ (g₁.app x l) = g₂.app (φ x) (ψ l)
  addB : ∀ x y, ψ (g₁.addB x y) = g₂.addB (ψ x) (ψ y)
  smulB : ∀ c x, ψ (g₁.smulB c x) = g₂.smulB c (ψ x)
  zeroB : ψ g₁.zeroB = g₂.zeroB

section hom
variable {π₁ β₁ π₂ β₂ : Type} {g₁ : Alg π₁ β₁} {g₂ : Alg π₂ β₂} {φ : π₁ → π₂} {ψ : β₁ → β₂}
  (H : Alg.Hom g₁ g₂ φ ψ)
include H

theorem padeUV3_hom (b : List Int) (a : π₁) : padeUV3 g₂ b (φ a) = Prod.map φ φ (padeUV3 g₁ b a) := by
  simp [padeUV3, H.mul, H.add, H.smul, H.one]
theorem padeUV5_hom (b : List Int) (a : π₁) : padeUV5 g₂ b (φ a) = Prod.map φ φ (padeUV5 g₁ b a) := by
  simp [padeUV5, H.mul, H.add, H.smul, H.one]
theorem padeUV7_hom (b : List Int) (a : π₁) : padeUV7 g₂ b (φ a) = Prod.map φ φ (padeUV7 g₁ b a) := by
  simp [padeUV7, H.mul, H.add, H.smul, H.one]
theorem padeUV9_hom (b : List Int) (a : π₁) : padeUV9 g₂ b (φ a) = Prod.map φ φ (padeUV9 g₁ b a) := by
  simp [padeUV9, H.mul, H.add, H.smul, H.one]
theorem padeUV13_hom (b : List Int) (a : π₁) : padeUV13 g₂ b (φ a) = Prod.map φ φ (padeUV13 g₁ b a) := by
  simp [padeUV13, H.mul, H.add, H.smul, H.one]

theorem padeUV_hom (q : Nat) (b : List Int) (a : π₁) :
    padeUV g₂ q b (φ a) = (padeUV g₁ q b a).map (Prod.map φ φ) := by
  unfold padeUV
  split
  · simp [padeUV3_hom H]
  · split
    · simp [padeUV5_hom H]
    · split
      · simp [padeUV7_hom H]
      · split
        · simp [padeUV9_hom H]
        · split
          · simp [padeUV13_hom H]
          · simp

omit H in
theorem interleave_map (f : β₁ → β₂) (l r : List β₁) :
    interleave (l.map f) (r.map f) = (interleave l r).map f := by
  induction l generalizing r with
  | nil => simp [interleave]
  | cons e es ih =>
    cases r with
    | nil => simp [interleave]
    | cons o os => simp [interleave, ih]

theorem bump_hom (C : List (List Int)) (par k : Nat) (pb : β₁) (i : Nat) (l : List β₁) :
    bump g₂ C par k (ψ pb) i (l.map ψ) = (bump g₁ C par k pb i l).map ψ := by
  induction l generalizing i with
  | nil => simp [bump]
  | cons e es ih => simp [bump, ih, H.addB, H.smulB]

theorem rowsLoop_hom (C : List (List Int)) (adv : Bool) (a2 : π₁) (bB : β₁) (ks : List Nat) (p : π₁)
    (ev od : List β₁) :
    rowsLoop g₂ C adv (φ a2) (ψ bB) ks (φ p) (ev.map ψ) (od.map ψ)
      = Prod.map (List.map ψ) (List.map ψ) (rowsLoop g₁ C adv a2 bB ks p ev od) := by
  induction ks generalizing p ev od with
  | nil => simp [rowsLoop]
  | cons k ks ih =>
    cases adv
    · simp only [rowsLoop, Bool.false_eq_true, if_false]
      rw [← H.app, bump_hom H, bump_hom H, ih]
    · simp only [rowsLoop, if_true]
      rw [← H.mul, ← H.app, bump_hom H, bump_hom H, ih]

theorem rows3_hom (C : List (List Int)) (a : π₁) (bB : β₁) :
    rows3 g₂ C (φ a) (ψ bB) = (rows3 g₁ C a bB).map ψ := by
  simp [rows3, interleave, H.mul, H.app, H.addB, H.smulB]

theorem rowsGen_hom (C : List (List Int)) (m : Nat) (ks : List Nat) (adv : Bool) (a : π₁) (bB : β₁) :
    rowsGen g₂ C m ks adv (φ a) (ψ bB) = (rowsGen g₁ C m ks adv a bB).map ψ := by
  unfold rowsGen
  simp only []
  have e1 : ∀ (x y z : β₁) (n : Nat), ψ x :: ψ y :: List.replicate n g₂.zeroB = (x :: y :: List.replicate n g₁.zeroB).map ψ := by
    intro x y z n; simp [H.zeroB]
  rw [← H.mul, ← H.app]
  simp only [← H.smulB, ← H.addB]
  rw [e1 _ _ g₁.zeroB, e1 _ _ g₁.zeroB, rowsLoop_hom H]
  simp only [Prod.map_fst, Prod.map_snd, List.map_map]
  rw [← interleave_map]
  congr 1
  simp only [List.map_map]
  apply List.map_congr_left
  intro l _
  simp [H.app]

theorem rows_hom (q : Nat) (C : List (List Int)) (ks : List Nat) (adv : Bool) (a : π₁) (bB : β₁) :
    rows g₂ q C ks adv (φ a) (ψ bB) = (rows g₁ q C ks adv a bB).map (List.map ψ) := by
  unfold rows
  split
  · simp [rows3_hom H]
  · split
    · simp [rowsGen_hom H]
    · simp

end hom

/-! ### evaluation of coefficient lists in a ring -/

section eval
variable {R : Type} [Ring R]

/-- `Σ_k p_k x^k` (Horner) -/
def evalL (p : List Int) (x : R) : R := p.foldr (fun c acc => c • (1 : R) + x * acc) 0

@[simp] theorem evalL_nil (x : R) : evalL [] x = 0 := rfl
@[simp] theorem evalL_cons (c : Int) (p : List Int) (x : R) : evalL (c :: p) x = c • (1 : R) + x * evalL p x := rfl

theorem evalL_addL (p r : List Int) (x : R) : evalL (addL p r) x = evalL p x + evalL r x := by
  induction p generalizing r with
  | nil => simp [addL]
  | cons c p ih =>
    cases r with
    | nil => simp [addL]
    | cons d r =>
      simp only [addL, evalL_cons, ih, add_smul, mul_add]
      abel

theorem evalL_smulL (c : Int) (p : List Int) (x : R) : evalL (smulL c p) x = c • evalL p x := by
  induction p with
  | nil => simp [smulL]
  | cons d p ih =>
    simp only [smulL, List.map_cons, evalL_cons] at ih ⊢
    rw [ih, smul_add, mul_smul, mul_smul_comm]

theorem evalL_mulL (p r : List Int) (x : R) : evalL (mulL p r) x = evalL p x * evalL r x := by
  induction p with
  | nil => simp [mulL]
  | cons c p ih =>
    simp only [mulL, evalL_addL, evalL_smulL, evalL_cons, ih, zero_smul, zero_add, add_mul, smul_mul_assoc,
      one_mul, mul_assoc]

theorem evalL_dropZ (p : List Int) (x : R) : evalL (dropZ p) x = evalL p x := by
  induction p with
  | nil => rfl
  | cons c p ih =>
    have : dropZ (c :: p) = if dropZ p = [] ∧ c = 0 then [] else c :: dropZ p := rfl
    rw [this]
    split
    · next h =>
      obtain ⟨h1, h2⟩ := h
      rw [h1] at ih
      simp [h2, ← ih]
    · simp [ih]

theorem evalL_symA (x : R) : evalL symA x = x := by simp [symA]
theorem evalL_symB (x : R) : evalL symB x = 1 := by simp [symB]

theorem evalL_eq_sum (p : List Int) (x : R) :
    evalL p x = ∑ k ∈ Finset.range p.length, (p.getD k 0) • x ^ k := by
  induction p with
  | nil => simp
  | cons c p ih =>
    rw [evalL_cons, List.length_cons, Finset.sum_range_succ', ih, Finset.mul_sum]
    simp only [List.getD_cons_succ, List.getD_cons_zero, pow_zero, pow_succ', mul_smul_comm]
    rw [add_comm]

/-- lists that agree after removing trailing zeros evaluate equally -/
theorem evalL_congr_dropZ {p r : List Int} (h : dropZ p = dropZ r) (x : R) : evalL p x = evalL r x := by
  rw [← evalL_dropZ p, ← evalL_dropZ r, h]

end eval

/-! ### the two instances -/

section inst
variable {K : Type} [Field K] {n m : Nat}

/-- the same operations on Mathlib matrices -/
def mAlg (K : Type) [Field K] (n m : Nat) : Alg (Matrix (Fin n) (Fin n) K) (Matrix (Fin n) (Fin m) K) :=
  { one := 1, mul := (· * ·), add := (· + ·), smul := fun c X => c • X, app := (· * ·), addB := (· + ·),
    smulB := fun c X => c • X, zeroB := 0 }

theorem toM_hom : Alg.Hom (matAlg (α := K) n m) (mAlg K n m) (fun X => X.m.toM) (fun X => X.m.toM) where
  one := by simp [matAlg, mAlg, box]
  mul := fun x y => by simp [matAlg, mAlg, box]
  add := fun x y => by simp [matAlg, mAlg, box]
  smul := fun c x => by simp [matAlg, mAlg, box, Int.cast_smul_eq_zsmul]
  app := fun x y => by simp [matAlg, mAlg, box]
  addB := fun x y => by simp [matAlg, mAlg, box]
  smulB := fun c x => by simp [matAlg, mAlg, box, Int.cast_smul_eq_zsmul]
  zeroB := by simp [matAlg, mAlg, box]

theorem eval_hom (A : Matrix (Fin n) (Fin n) K) (B : Matrix (Fin n) (Fin m) K) :
    Alg.Hom polyAlg (mAlg K n m) (fun p => evalL p A) (fun p => evalL p A * B) where
  one := by simp [polyAlg, mAlg]
  mul := fun x y => by simp [polyAlg, mAlg, evalL_mulL]
  add := fun x y => by simp [polyAlg, mAlg, evalL_addL]
  smul := fun c x => by simp [polyAlg, mAlg, evalL_smulL]
  app := fun x l => by simp [polyAlg, mAlg, evalL_mulL, Matrix.mul_assoc]
  addB := fun x y => by simp [polyAlg, mAlg, evalL_addL, Matrix.add_mul]
  smulB := fun c x => by
    show evalL (smulL c x) A * B = c • (evalL x A * B)
    rw [evalL_smulL, Matrix.smul_mul]
  zeroB := by simp [polyAlg, mAlg]


theorem polyEvalMat_toM (p : List Int) (A : Mat n n K) : (polyEvalMat p A).toM = evalL p A.toM := by
  induction p with
  | nil => simp [polyEvalMat]
  | cons c p ih =>
    have : polyEvalMat (c :: p) A = (Mat.smul (c : K) Mat.one).add (A.mul (polyEvalMat p A)) := rfl
    rw [this, toM_add, toM_smul, toM_one, toM_mul, ih, evalL_cons, Int.cast_smul_eq_zsmul]

/-- **the matrices the driver assembles are the evaluations of the symbolically assembled polynomials** -/
theorem rows_eval (q : Nat) (C : List (List Int)) (ks : List Nat) (adv : Bool) (A : Mat n n K) (B : Mat n m K) :
    (rows (matAlg n m) q C ks adv (box A) (box B)).map (List.map fun X => X.m.toM)
      = (rows polyAlg q C ks adv symA symB).map (List.map fun p => evalL p A.toM * B.toM) := by
  have h0 := rows_hom (toM_hom (K := K) (n := n) (m := m)) q C ks adv (box A) (box B)
  simp only [box] at h0 ⊢
  rw [← h0]
  have := rows_hom (eval_hom A.toM B.toM) q C ks adv symA symB
  simp only [evalL_symA, evalL_symB, Matrix.one_mul] at this
  rw [← this]

theorem padeUV_eval (q : Nat) (b : List Int) (A : Mat n n K) :
    (padeUV (matAlg n n) q b (box A)).map (Prod.map (fun X => X.m.toM) (fun X => X.m.toM))
      = (padeUV polyAlg q b symA).map (Prod.map (fun p => evalL p A.toM) (fun p => evalL p A.toM)) := by
  have h0 := padeUV_hom (toM_hom (K := K) (n := n) (m := n)) q b (box A)
  simp only [box] at h0 ⊢
  rw [← h0]
  have := padeUV_hom (eval_hom A.toM (1 : Matrix (Fin n) (Fin n) K)) q b symA
  simp only [evalL_symA] at this
  rw [← this]

/-- if the symbolically assembled rows equal the table rows (up to trailing zeros) — which is what the
`init_effective_poly_q` theorems establish by kernel computation on the generated tables — then the rows computed
on matrices are `(Σ_k C[i,k] A^k) B`. -/
theorem rows_eval_of_table (q : Nat) (C : List (List Int)) (ks : List Nat) (adv : Bool)
    (h : (rows polyAlg q C ks adv symA symB).map (List.map dropZ) = some (C.map dropZ))
    (A : Mat n n K) (B : Mat n m K) :
    (rows (matAlg n m) q C ks adv (box A) (box B)).map (List.map fun X => X.m.toM)
      = some (C.map fun row => evalL row A.toM * B.toM) := by
  rw [rows_eval]
  cases hr : rows polyAlg q C ks adv symA symB with
  | none => rw [hr] at h; simp at h
  | some l =>
    rw [hr] at h
    simp only [Option.map_some, Option.some.injEq] at h ⊢
    have key : ∀ (l C : List (List Int)), l.map dropZ = C.map dropZ →
        l.map (fun p => evalL p A.toM * B.toM) = C.map (fun row => evalL row A.toM * B.toM) := by
      intro l
      induction l with
      | nil => intro C hC; cases C with
        | nil => rfl
        | cons c C => simp at hC
      | cons p l ih => intro C hC; cases C with
        | nil => simp at hC
        | cons c C =>
          simp only [List.map_cons, List.cons.injEq] at hC ⊢
          exact ⟨by rw [evalL_congr_dropZ hC.1], ih C hC.2⟩
    exact key l C h

end inst

end Pdq.ExpGram
