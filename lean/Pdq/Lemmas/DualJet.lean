import Pdq.Lemmas.Dual
import Mathlib.Analysis.Calculus.Deriv.Add
import Mathlib.Analysis.Calculus.Deriv.Mul
import Mathlib.Analysis.Calculus.Deriv.Inv
import Mathlib.Tactic.NormNum
import Mathlib.Tactic.Abel

/-!
# Pdq.Lemmas.Jet — 1-jets of curves and the model's operations (helper lemmas of C16)

`IsJet f t d`: the dual number `d` holds the value and the derivative at `t` of the curve `f : 𝕜 → 𝕜`
(`HasDerivAt`, over any non-trivially normed field).  Every operation of the import-free model maps jets
to jets: field operations, `powN`, `vsum`, the matrix / vector operations of `Pdq.Model.LinAlg`, the
Gaussian algebra of `Pdq.Model.Gauss`, the strategies' `predict`.  The property theorems built from these
lemmas are in `Pdq.Props.C16`.
-/
set_option linter.unusedSectionVars false

namespace Pdq.C16
variable {𝕜 : Type} [NontriviallyNormedField 𝕜]

/-- `d` is the 1-jet at `t` of the curve `f`: `d.re` is the value and `d.eps` the derivative -/
def IsJet (f : 𝕜 → 𝕜) (t : 𝕜) (d : Dual 𝕜) : Prop := d.re = f t ∧ HasDerivAt f d.eps t

namespace IsJet
variable {f g : 𝕜 → 𝕜} {t : 𝕜} {x y : Dual 𝕜}

theorem unique (h1 : IsJet f t x) (h2 : IsJet f t y) : x = y :=
  Dual.ext' (h1.1.trans h2.1.symm) (h1.2.unique h2.2)

theorem const (c t : 𝕜) : IsJet (fun _ => c) t (Dual.const c) := ⟨rfl, hasDerivAt_const t c⟩
theorem var (t : 𝕜) : IsJet (fun s => s) t (Dual.var t) := ⟨rfl, hasDerivAt_id' t⟩
theorem zero (t : 𝕜) : IsJet (fun _ => (0 : 𝕜)) t 0 := const 0 t
theorem one (t : 𝕜) : IsJet (fun _ => (1 : 𝕜)) t 1 := const 1 t
theorem natCast (k : Nat) (t : 𝕜) : IsJet (fun _ => (k : 𝕜)) t (k : Dual 𝕜) := const (k : 𝕜) t

theorem add (hf : IsJet f t x) (hg : IsJet g t y) : IsJet (fun s => f s + g s) t (x + y) :=
  ⟨by simp [hf.1, hg.1], hf.2.add hg.2⟩
theorem sub (hf : IsJet f t x) (hg : IsJet g t y) : IsJet (fun s => f s - g s) t (x - y) :=
  ⟨by simp [hf.1, hg.1], hf.2.sub hg.2⟩
theorem neg (hf : IsJet f t x) : IsJet (fun s => - f s) t (-x) :=
  ⟨by simp [hf.1], hf.2.neg⟩
theorem mul (hf : IsJet f t x) (hg : IsJet g t y) : IsJet (fun s => f s * g s) t (x * y) := by
  refine ⟨by simp [hf.1, hg.1], ?_⟩
  have h : HasDerivAt (fun s => f s * g s) _ t := hf.2.mul hg.2
  rw [← hf.1, ← hg.1] at h
  refine h.congr_deriv ?_
  show _ = x.re * y.eps + x.eps * y.re
  ring
theorem div (hf : IsJet f t x) (hg : IsJet g t y) (h0 : g t ≠ 0) : IsJet (fun s => f s / g s) t (x / y) := by
  refine ⟨by simp [hf.1, hg.1], ?_⟩
  have h : HasDerivAt (fun s => f s / g s) _ t := hf.2.div hg.2 h0
  rw [← hf.1, ← hg.1] at h
  refine h.congr_deriv ?_
  show _ = (x.eps * y.re - x.re * y.eps) / (y.re * y.re)
  ring
theorem powN (hf : IsJet f t x) (k : Nat) : IsJet (fun s => Pdq.powN (f s) k) t (Pdq.powN x k) := by
  induction k with
  | zero => exact one t
  | succ k ih => exact ih.mul hf

theorem list_sum {ι : Type} (l : List ι) (F : ι → 𝕜 → 𝕜) (X : ι → Dual 𝕜) (h : ∀ i, IsJet (F i) t (X i)) :
    IsJet (fun s => (l.map fun i => F i s).sum) t (l.map X).sum := by
  induction l with
  | nil => exact zero t
  | cons a l ih => simpa [List.map_cons, List.sum_cons] using (h a).add ih

theorem vsum {n : Nat} (F : Fin n → 𝕜 → 𝕜) (X : Fin n → Dual 𝕜) (h : ∀ i, IsJet (F i) t (X i)) :
    IsJet (fun s => Pdq.vsum fun i => F i s) t (Pdq.vsum X) := list_sum _ F X h

end IsJet

/-! ### vectors and matrices of jets; the model's linear algebra -/

def VecJet {n : Nat} (f : 𝕜 → Vec n 𝕜) (t : 𝕜) (d : Vec n (Dual 𝕜)) : Prop :=
  ∀ i, IsJet (fun s => (f s).get i) t (d.get i)
def MatJet {m n : Nat} (F : 𝕜 → Mat m n 𝕜) (t : 𝕜) (D : Mat m n (Dual 𝕜)) : Prop :=
  ∀ i j, IsJet (fun s => (F s).get i j) t (D.get i j)

section linalg
variable {m n k : Nat} {t : 𝕜}

theorem MatJet.unique {F : 𝕜 → Mat m n 𝕜} {D D' : Mat m n (Dual 𝕜)} (h : MatJet F t D) (h' : MatJet F t D') : D = D' := by
  cases D; cases D'; congr 1; funext i j; exact (h i j).unique (h' i j)

theorem MatJet.mul {A : 𝕜 → Mat m n 𝕜} {B : 𝕜 → Mat n k 𝕜} {Ad Bd} (hA : MatJet A t Ad) (hB : MatJet B t Bd) :
    MatJet (fun s => (A s).mul (B s)) t (Ad.mul Bd) := by
  intro i j
  simp only [Mat.mul, get_ofFn]
  exact IsJet.vsum _ _ fun l => (hA i l).mul (hB l j)
theorem MatJet.add {A B : 𝕜 → Mat m n 𝕜} {Ad Bd} (hA : MatJet A t Ad) (hB : MatJet B t Bd) :
    MatJet (fun s => (A s).add (B s)) t (Ad.add Bd) := by
  intro i j; simp only [Mat.add, get_ofFn]; exact (hA i j).add (hB i j)
theorem MatJet.sub {A B : 𝕜 → Mat m n 𝕜} {Ad Bd} (hA : MatJet A t Ad) (hB : MatJet B t Bd) :
    MatJet (fun s => (A s).sub (B s)) t (Ad.sub Bd) := by
  intro i j; simp only [Mat.sub, get_ofFn]; exact (hA i j).sub (hB i j)
theorem MatJet.neg {A : 𝕜 → Mat m n 𝕜} {Ad} (hA : MatJet A t Ad) : MatJet (fun s => (A s).neg) t Ad.neg := by
  intro i j; simp only [Mat.neg, get_ofFn]; exact (hA i j).neg
theorem MatJet.tr {A : 𝕜 → Mat m n 𝕜} {Ad} (hA : MatJet A t Ad) : MatJet (fun s => (A s).tr) t Ad.tr :=
  fun i j => hA j i
theorem MatJet.smul {c : 𝕜 → 𝕜} {cd} {A : 𝕜 → Mat m n 𝕜} {Ad} (hc : IsJet c t cd) (hA : MatJet A t Ad) :
    MatJet (fun s => Mat.smul (c s) (A s)) t (Mat.smul cd Ad) := by
  intro i j; simp only [Mat.smul, get_ofFn]; exact hc.mul (hA i j)
theorem MatJet.zero : MatJet (fun _ => (Mat.zero : Mat m n 𝕜)) t Mat.zero := fun _ _ => IsJet.zero t
theorem MatJet.one : MatJet (fun _ => (Mat.one : Mat n n 𝕜)) t Mat.one := by
  intro i j; simp only [Mat.one]; split <;> [exact IsJet.one t; exact IsJet.zero t]
theorem MatJet.rowScale {r : 𝕜 → Vec m 𝕜} {rd} {A : 𝕜 → Mat m n 𝕜} {Ad} (hr : VecJet r t rd) (hA : MatJet A t Ad) :
    MatJet (fun s => Mat.rowScale (r s) (A s)) t (Mat.rowScale rd Ad) := by
  intro i j; simp only [Mat.rowScale, get_ofFn]; exact (hr i).mul (hA i j)
theorem MatJet.colScale {A : 𝕜 → Mat m n 𝕜} {Ad} {c : 𝕜 → Vec n 𝕜} {cd} (hA : MatJet A t Ad) (hc : VecJet c t cd) :
    MatJet (fun s => Mat.colScale (A s) (c s)) t (Mat.colScale Ad cd) := by
  intro i j; simp only [Mat.colScale, get_ofFn]; exact (hA i j).mul (hc j)
theorem MatJet.congrScale {r : 𝕜 → Vec n 𝕜} {rd} {A : 𝕜 → Mat n n 𝕜} {Ad} (hr : VecJet r t rd) (hA : MatJet A t Ad) :
    MatJet (fun s => Mat.congrScale (r s) (A s)) t (Mat.congrScale rd Ad) := by
  intro i j; simp only [Mat.congrScale, get_ofFn]; exact ((hr i).mul (hA i j)).mul (hr j)
theorem VecJet.mulVec {A : 𝕜 → Mat m n 𝕜} {Ad} {v : 𝕜 → Vec n 𝕜} {vd} (hA : MatJet A t Ad) (hv : VecJet v t vd) :
    VecJet (fun s => (A s).mulVec (v s)) t (Ad.mulVec vd) := by
  intro i; simp only [Mat.mulVec, vget_ofFn]; exact IsJet.vsum _ _ fun l => (hA i l).mul (hv l)
theorem VecJet.add {u v : 𝕜 → Vec n 𝕜} {ud vd} (hu : VecJet u t ud) (hv : VecJet v t vd) :
    VecJet (fun s => (u s).add (v s)) t (ud.add vd) := by
  intro i; simp only [Vec.add, vget_ofFn]; exact (hu i).add (hv i)
theorem VecJet.sub {u v : 𝕜 → Vec n 𝕜} {ud vd} (hu : VecJet u t ud) (hv : VecJet v t vd) :
    VecJet (fun s => (u s).sub (v s)) t (ud.sub vd) := by
  intro i; simp only [Vec.sub, vget_ofFn]; exact (hu i).sub (hv i)
theorem VecJet.hmul {u v : 𝕜 → Vec n 𝕜} {ud vd} (hu : VecJet u t ud) (hv : VecJet v t vd) :
    VecJet (fun s => (u s).hmul (v s)) t (ud.hmul vd) := by
  intro i; simp only [Vec.hmul, vget_ofFn]; exact (hu i).mul (hv i)
theorem VecJet.zero : VecJet (fun _ => (Vec.zero : Vec n 𝕜)) t Vec.zero := fun _ => IsJet.zero t
theorem VecJet.ones : VecJet (fun _ => (Vec.ones : Vec n 𝕜)) t Vec.ones := fun _ => IsJet.one t
theorem VecJet.inv {u : 𝕜 → Vec n 𝕜} {ud} (hu : VecJet u t ud) (h0 : ∀ i, (u t).get i ≠ 0) :
    VecJet (fun s => (u s).inv) t ud.inv := by
  intro i; simp only [Vec.inv, vget_ofFn]; exact (IsJet.one t).div (hu i) (h0 i)

end linalg

/-! ### Gaussians, conditionals, solver states -/

structure GaussJet {n : Nat} (g : 𝕜 → Gauss n 𝕜) (t : 𝕜) (d : Gauss n (Dual 𝕜)) : Prop where
  mean : VecJet (fun s => (g s).mean) t d.mean
  cov : MatJet (fun s => (g s).cov) t d.cov
structure CondJet {m n : Nat} (c : 𝕜 → Cond m n 𝕜) (t : 𝕜) (d : Cond m n (Dual 𝕜)) : Prop where
  A : MatJet (fun s => (c s).A) t d.A
  b : VecJet (fun s => (c s).b) t d.b
  Q : MatJet (fun s => (c s).Q) t d.Q
structure PCondJet {m n : Nat} (c : 𝕜 → PCond m n 𝕜) (t : 𝕜) (d : PCond m n (Dual 𝕜)) : Prop where
  A : MatJet (fun s => (c s).A) t d.A
  b : VecJet (fun s => (c s).b) t d.b
  Q : MatJet (fun s => (c s).Q) t d.Q
  tl : VecJet (fun s => (c s).tl) t d.tl
  tob : VecJet (fun s => (c s).tob) t d.tob
structure SolStateJet {n : Nat} (st : 𝕜 → SolState n 𝕜) (t : 𝕜) (d : SolState n (Dual 𝕜)) : Prop where
  u : GaussJet (fun s => (st s).u) t d.u
  bw : PCondJet (fun s => (st s).bw) t d.bw

section gauss
variable {m n k : Nat} {t : 𝕜}

theorem GaussJet.marg {c : 𝕜 → Cond m n 𝕜} {cd} {g : 𝕜 → Gauss n 𝕜} {gd} (hc : CondJet c t cd) (hg : GaussJet g t gd) :
    GaussJet (fun s => (c s).marg (g s)) t (cd.marg gd) :=
  ⟨(VecJet.mulVec hc.A hg.mean).add hc.b, ((hc.A.mul hg.cov).mul hc.A.tr).add hc.Q⟩

theorem GaussJet.applyPt {c : 𝕜 → Cond m n 𝕜} {cd} {x : 𝕜 → Vec n 𝕜} {xd} (hc : CondJet c t cd) (hx : VecJet x t xd) :
    GaussJet (fun s => (c s).applyPt (x s)) t (cd.applyPt xd) :=
  ⟨(VecJet.mulVec hc.A hx).add hc.b, hc.Q⟩

theorem MatJet.cross {c : 𝕜 → Cond m n 𝕜} {cd} {g : 𝕜 → Gauss n 𝕜} {gd} (hc : CondJet c t cd) (hg : GaussJet g t gd) :
    MatJet (fun s => (c s).cross (g s)) t (cd.cross gd) := hg.cov.mul hc.A.tr

theorem CondJet.revertWith {c : 𝕜 → Cond m n 𝕜} {cd} {g : 𝕜 → Gauss n 𝕜} {gd} {G : 𝕜 → Mat n m 𝕜} {Gd}
    (hc : CondJet c t cd) (hg : GaussJet g t gd) (hG : MatJet G t Gd) :
    GaussJet (fun s => ((c s).revertWith (g s) (G s)).1) t (cd.revertWith gd Gd).1 ∧
    CondJet (fun s => ((c s).revertWith (g s) (G s)).2) t (cd.revertWith gd Gd).2 := by
  have ho := GaussJet.marg hc hg
  exact ⟨ho, ⟨hG, hg.mean.sub (VecJet.mulVec hG ho.mean), hg.cov.sub ((hG.mul ho.cov).mul hG.tr)⟩⟩

theorem GaussJet.bayesZero {c : 𝕜 → Cond k n 𝕜} {cd} {g : 𝕜 → Gauss n 𝕜} {gd} {G : 𝕜 → Mat n k 𝕜} {Gd}
    (hc : CondJet c t cd) (hg : GaussJet g t gd) (hG : MatJet G t Gd) :
    GaussJet (fun s => (c s).bayesZero (g s) (G s)) t (cd.bayesZero gd Gd) :=
  GaussJet.applyPt (CondJet.revertWith hc hg hG).2 VecJet.zero

theorem GaussJet.pmarg {c : 𝕜 → PCond m n 𝕜} {cd} {g : 𝕜 → Gauss n 𝕜} {gd} (hc : PCondJet c t cd) (hg : GaussJet g t gd) :
    GaussJet (fun s => (c s).marg (g s)) t (cd.marg gd) :=
  ⟨hc.tob.hmul ((VecJet.mulVec hc.A (hc.tl.hmul hg.mean)).add hc.b),
   MatJet.congrScale hc.tob (((hc.A.mul (MatJet.congrScale hc.tl hg.cov)).mul hc.A.tr).add hc.Q)⟩

theorem GaussJet.pApplyPt {c : 𝕜 → PCond m n 𝕜} {cd} {x : 𝕜 → Vec n 𝕜} {xd} (hc : PCondJet c t cd) (hx : VecJet x t xd) :
    GaussJet (fun s => (c s).applyPt (x s)) t (cd.applyPt xd) :=
  ⟨hc.tob.hmul ((VecJet.mulVec hc.A (hc.tl.hmul hx)).add hc.b), MatJet.congrScale hc.tob hc.Q⟩

theorem GaussJet.inner {c : 𝕜 → PCond m n 𝕜} {cd} {g : 𝕜 → Gauss n 𝕜} {gd} (hc : PCondJet c t cd) (hg : GaussJet g t gd) :
    GaussJet (fun s => (c s).inner (g s)) t (cd.inner gd) :=
  ⟨hc.tl.hmul hg.mean, MatJet.congrScale hc.tl hg.cov⟩

theorem CondJet.core {c : 𝕜 → PCond m n 𝕜} {cd} (hc : PCondJet c t cd) : CondJet (fun s => (c s).core) t cd.core :=
  ⟨hc.A, hc.b, hc.Q⟩

theorem PCondJet.revertWith {c : 𝕜 → PCond m n 𝕜} {cd} {g : 𝕜 → Gauss n 𝕜} {gd} {G : 𝕜 → Mat n m 𝕜} {Gd}
    (hc : PCondJet c t cd) (hg : GaussJet g t gd) (hG : MatJet G t Gd)
    (htl : ∀ i, ((c t).tl).get i ≠ 0) (htob : ∀ i, ((c t).tob).get i ≠ 0) :
    GaussJet (fun s => ((c s).revertWith (g s) (G s)).1) t (cd.revertWith gd Gd).1 ∧
    PCondJet (fun s => ((c s).revertWith (g s) (G s)).2) t (cd.revertWith gd Gd).2 := by
  obtain ⟨h1, h2⟩ := CondJet.revertWith (CondJet.core hc) (GaussJet.inner hc hg) hG
  exact ⟨⟨hc.tob.hmul h1.mean, MatJet.congrScale hc.tob h1.cov⟩,
    ⟨h2.A, h2.b, h2.Q, hc.tob.inv htob, hc.tl.inv htl⟩⟩

theorem PCondJet.merge {c2 : 𝕜 → PCond k m 𝕜} {c2d} {c1 : 𝕜 → PCond m n 𝕜} {c1d}
    (h2 : PCondJet c2 t c2d) (h1 : PCondJet c1 t c1d) :
    PCondJet (fun s => (c2 s).merge (c1 s)) t (c2d.merge c1d) :=
  ⟨h2.A.mul (MatJet.rowScale (h2.tl.hmul h1.tob) h1.A),
   (VecJet.mulVec h2.A ((h2.tl.hmul h1.tob).hmul h1.b)).add h2.b,
   ((h2.A.mul (MatJet.congrScale (h2.tl.hmul h1.tob) h1.Q)).mul h2.A.tr).add h2.Q,
   h1.tl, h2.tob⟩

theorem PCondJet.identity : PCondJet (fun _ => (PCond.identity n : PCond n n 𝕜)) t (PCond.identity n) :=
  ⟨MatJet.one, VecJet.zero, MatJet.zero, VecJet.ones, VecJet.ones⟩

theorem SolStateJet.init {g : 𝕜 → Gauss n 𝕜} {gd} (hg : GaussJet g t gd) :
    SolStateJet (fun s => SolState.init (g s)) t (SolState.init gd) := ⟨hg, PCondJet.identity⟩

theorem SolStateJet.predict (sg : Strategy) {tr : 𝕜 → PCond n n 𝕜} {trd} {st : 𝕜 → SolState n 𝕜} {std}
    {Gt : 𝕜 → Mat n n 𝕜} {Gtd} (htr : PCondJet tr t trd) (hst : SolStateJet st t std) (hGt : MatJet Gt t Gtd)
    (hnz : sg = .filter ∨ ((∀ i, ((tr t).tl).get i ≠ 0) ∧ ∀ i, ((tr t).tob).get i ≠ 0)) :
    SolStateJet (fun s => sg.predict (tr s) (st s) (Gt s)) t (sg.predict trd std Gtd) := by
  cases sg with
  | filter => exact ⟨GaussJet.pmarg htr hst.u, hst.bw⟩
  | fixedInterval =>
    obtain ⟨h1, h2⟩ := hnz.resolve_left (by simp)
    obtain ⟨r1, r2⟩ := PCondJet.revertWith htr hst.u hGt h1 h2
    exact ⟨r1, r2⟩
  | fixedPoint =>
    obtain ⟨h1, h2⟩ := hnz.resolve_left (by simp)
    obtain ⟨r1, r2⟩ := PCondJet.revertWith htr hst.u hGt h1 h2
    exact ⟨r1, PCondJet.merge hst.bw r2⟩

end gauss

/-! ### calibration terms, the IWP transition, the affine test problem -/
section more
variable {m n k : Nat} {t : 𝕜}

theorem IsJet.dot {u v : 𝕜 → Vec n 𝕜} {ud vd} (hu : VecJet u t ud) (hv : VecJet v t vd) :
    IsJet (fun s => (u s).dot (v s)) t (ud.dot vd) :=
  IsJet.vsum _ _ fun i => (hu i).mul (hv i)

theorem CondJet.affineLin (q : Nat) (ts1 : Bool) {a c d2 : 𝕜 → 𝕜} {ad cd d2d} (ha : IsJet a t ad) (hc : IsJet c t cd)
    (hd : IsJet d2 t d2d) (x : 𝕜 → Vec (q+1) 𝕜) (xd : Vec (q+1) (Dual 𝕜)) (hx : VecJet x t xd) :
    CondJet (fun s => Pdq.affineLin q ts1 (a s) (c s) (d2 s) (x s)) t (Pdq.affineLin q ts1 ad cd d2d xd) := by
  refine ⟨?_, ?_, ?_⟩
  · intro i j
    simp only [Pdq.affineLin, get_ofFn]
    cases ts1 <;> simp only [Bool.false_eq_true, if_false, if_true]
    · split <;> [exact IsJet.one t; exact IsJet.zero t]
    · split
      · exact IsJet.one t
      · split <;> [exact ha.neg; exact IsJet.zero t]
  · intro i
    simp only [Pdq.affineLin, vget_ofFn]
    cases ts1 <;> simp only [Bool.false_eq_true, if_false, if_true]
    · exact ((ha.mul (hx _)).add hc).neg
    · exact hc.neg
  · intro i j
    simp only [Pdq.affineLin, get_ofFn]
    exact hd

variable [CharZero 𝕜]

theorem PCondJet.iwpTransition1 (q : Nat) {h s2 : 𝕜 → 𝕜} {hd s2d} (hh : IsJet h t hd) (hs : IsJet s2 t s2d)
    (h0 : h t ≠ 0) :
    PCondJet (fun s => Iwp.transition1 q (h s) (s2 s)) t (Iwp.transition1 q hd s2d) := by
  have hfact : ∀ k : Nat, ((factN k : Nat) : 𝕜) ≠ 0 := by
    intro k
    have : factN k ≠ 0 := by
      induction k with
      | zero => simp [factN]
      | succ k ih => simp [factN, ih]
    exact_mod_cast this
  have hpow : ∀ k : Nat, Pdq.powN (h t) k ≠ 0 := by
    intro k
    induction k with
    | zero => simp [Pdq.powN]
    | succ k ih => simp [Pdq.powN, ih, h0]
  refine ⟨?_, VecJet.zero, ?_, ?_, ?_⟩
  · intro i j
    simp only [Iwp.transition1, Iwp.A1, get_ofFn]
    split <;> [exact IsJet.natCast _ t; exact IsJet.zero t]
  · refine MatJet.smul (hh.mul hs) ?_
    intro i j
    simp only [Iwp.H1, get_ofFn]
    refine (IsJet.one t).div (IsJet.natCast _ t) ?_
    have : 2 * q + 1 - i.val - j.val ≠ 0 := by have := i.2; have := j.2; omega
    exact_mod_cast this
  · intro i
    simp only [Iwp.transition1, Iwp.precon, vget_ofFn]
    exact (IsJet.natCast _ t).div (hh.powN _) (hpow _)
  · intro i
    simp only [Iwp.transition1, Iwp.precon, vget_ofFn]
    exact (hh.powN _).div (IsJet.natCast _ t) (hfact _)

end more

end Pdq.C16
