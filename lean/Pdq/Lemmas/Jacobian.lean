import Pdq.Model.Jacobian
import Pdq.Bridge
import Mathlib.Algebra.BigOperators.Pi
import Mathlib.Algebra.BigOperators.Ring.Finset
import Mathlib.Algebra.BigOperators.Field
import Mathlib.Data.Fintype.BigOperators
import Mathlib.Data.Fintype.Pi
import Mathlib.Data.Fin.Tuple.Basic
import Mathlib.Tactic.Linarith
import Mathlib.Tactic.FieldSimp
import Mathlib.Tactic.Ring

/-!
# Helper lemmas for C17 (Jacobian handlers)

* sign algebra, the Rademacher second-moment identity over `ℤ` and over any commutative ring;
* `probe_linear_form`: `Σ_v v_a · (Σ_j c_j v_j) = 2^k · c_a`;
* sums over tuples of probes (`num_probes > 1`);
* unfolding of `meanMatOfVec` / `meanTen3OfVec`.
-/
set_option linter.unusedSectionVars false
open Finset

namespace Pdq
variable {K : Type}

/-! ## memoised 3-axis arrays -/

@[simp] theorem ten3_get_ofFn {α : Type} {a b c : Nat} (f : Fin a → Fin b → Fin c → α) (i j k) :
    (Ten3.ofFn f).get i j k = f i j k := by
  simp [Ten3.ofFn]

/-! ## signs -/

theorem sgn_mul_self [CommRing K] (b : Bool) : (sgn b : K) * sgn b = 1 := by cases b <;> simp [sgn]
theorem sgn_not [CommRing K] (b : Bool) : (sgn (!b) : K) = - sgn b := by cases b <;> simp [sgn]
theorem sgn_cast [CommRing K] (b : Bool) : ((sgn b : ℤ) : K) = sgn b := by cases b <;> simp [sgn]

/-- the identity over `ℤ` (flip coordinate `a`: the sum equals its own negative) -/
theorem rademacher_int {ι : Type} [Fintype ι] [DecidableEq ι] (a b : ι) :
    (∑ v : ι → Bool, (sgn (v a) : ℤ) * sgn (v b)) = if a = b then 2 ^ Fintype.card ι else 0 := by
  split
  · next h =>
    subst h
    simp [sgn_mul_self]
  · next h =>
    let e : (ι → Bool) ≃ (ι → Bool) :=
      { toFun := fun v => Function.update v a (! v a)
        invFun := fun v => Function.update v a (! v a)
        left_inv := by intro v; funext i; by_cases hi : i = a <;> simp [Function.update, hi]
        right_inv := by intro v; funext i; by_cases hi : i = a <;> simp [Function.update, hi] }
    have hS : (∑ v : ι → Bool, (sgn (v a) : ℤ) * sgn (v b))
        = - ∑ v : ι → Bool, (sgn (v a) : ℤ) * sgn (v b) := by
      conv_lhs => rw [← Equiv.sum_comp e]
      rw [← Finset.sum_neg_distrib]
      apply Finset.sum_congr rfl
      intro v _
      have hb : b ≠ a := fun hh => h hh.symm
      simp [e, Function.update, hb, sgn_not]
    linarith

/-- the identity over any commutative ring (image of the integer identity; no division, so it also
holds in characteristic 2) -/
theorem rademacher_ring [CommRing K] {ι : Type} [Fintype ι] [DecidableEq ι] (a b : ι) :
    (∑ v : ι → Bool, (sgn (v a) : K) * sgn (v b)) = if a = b then 2 ^ Fintype.card ι else 0 := by
  have h := congrArg (Int.cast : ℤ → K) (rademacher_int a b)
  simp only [Int.cast_sum, Int.cast_mul, sgn_cast] at h
  rw [h]
  split <;> simp

/-- `Σ_v v_a · (Σ_j c_j · v_j) = 2^k · c_a` -/
theorem probe_linear_form [CommRing K] {ι : Type} [Fintype ι] [DecidableEq ι] (a : ι) (c : ι → K) :
    (∑ v : ι → Bool, (sgn (v a) : K) * ∑ j, c j * sgn (v j)) = 2 ^ Fintype.card ι * c a := by
  calc (∑ v : ι → Bool, (sgn (v a) : K) * ∑ j, c j * sgn (v j))
      = ∑ v : ι → Bool, ∑ j, c j * ((sgn (v a) : K) * sgn (v j)) := by
        apply Finset.sum_congr rfl; intro v _
        rw [Finset.mul_sum]; apply Finset.sum_congr rfl; intro j _; ring
    _ = ∑ j, c j * ∑ v : ι → Bool, ((sgn (v a) : K) * sgn (v j)) := by
        rw [Finset.sum_comm]; apply Finset.sum_congr rfl; intro j _; rw [Finset.mul_sum]
    _ = ∑ j, c j * (if a = j then 2 ^ Fintype.card ι else 0) := by
        apply Finset.sum_congr rfl; intro j _; rw [rademacher_ring]
    _ = 2 ^ Fintype.card ι * c a := by
        simp [mul_comm]

theorem card_probes (n d : Nat) : Fintype.card (Fin n × Fin d → Bool) = 2 ^ (n * d) := by
  simp

/-! ## tuples of probes -/

/-- summing a function of the `p`-th component over all `(t+1)`-tuples -/
theorem sum_tuple_apply [CommRing K] {P : Type} [Fintype P] (t : Nat) (f : P → K) (p : Fin (t + 1)) :
    (∑ V : Fin (t + 1) → P, f (V p)) = (Fintype.card P : K) ^ t * ∑ x, f x := by
  rw [← Equiv.sum_comp (Fin.insertNthEquiv (fun _ => P) p)]
  rw [Fintype.sum_prod_type]
  simp only [Fin.insertNthEquiv_apply, Fin.insertNth_apply_same]
  simp only [Finset.sum_const, Finset.card_univ, Fintype.card_pi_const, nsmul_eq_mul, Nat.cast_pow]
  rw [Finset.mul_sum]

/-- if `g` is unbiased for `c` (up to the factor `N = #probes`), then the mean over `s` probes is
unbiased for `c` (up to the factor `N^s`) -/
theorem sum_tuple_mean [Field K] {P : Type} [Fintype P] (s : Nat) (hs : (s : K) ≠ 0) (g : P → K) (c : K)
    (hg : ∑ x, g x = (Fintype.card P : K) * c) :
    (∑ V : Fin s → P, (∑ p, g (V p)) / (s : K)) = (Fintype.card P : K) ^ s * c := by
  obtain ⟨t, rfl⟩ : ∃ t, s = t + 1 := by
    cases s with
    | zero => simp at hs
    | succ t => exact ⟨t, rfl⟩
  rw [← Finset.sum_div, Finset.sum_comm]
  simp only [sum_tuple_apply, hg]
  simp only [Finset.sum_const, Finset.card_univ, Fintype.card_fin, nsmul_eq_mul]
  field_simp
  ring

/-! ## unfolding of the `num_probes` mean -/

@[simp] theorem meanMatOfVec_get [Field K] {m n s : Nat} (g : Vec s (Box (Mat m n K))) (i j) :
    (meanMatOfVec g).get i j = (∑ p, (g.get p).val.get i j) / (s : K) := by
  simp [meanMatOfVec, vsum_eq]

@[simp] theorem meanTen3OfVec_get [Field K] {a b c s : Nat} (g : Vec s (Box (Ten3 a b c K))) (i j k) :
    (meanTen3OfVec g).get i j k = (∑ p, (g.get p).val.get i j k) / (s : K) := by
  simp [meanTen3OfVec, vsum_eq]

end Pdq
