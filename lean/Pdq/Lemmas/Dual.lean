import Pdq.Model.Dual
import Pdq.Bridge
import Mathlib.Algebra.Field.Basic
import Mathlib.Tactic.FieldSimp
import Mathlib.Tactic.Ring

/-!
# Pdq.Lemmas.Dual — algebra of the model's dual numbers

`Dual K` is a commutative ring for every commutative ring `K` (with exactly the operations of
`Pdq.Model.Dual`, so the `Pdq.Bridge` homomorphism lemmas apply to model matrices over `Dual K`),
`re` is a ring homomorphism onto `K`, constants embed, and over a field the model's division is the
ring's division by units.
-/
set_option linter.unusedSectionVars false

namespace Pdq.Dual
variable {K : Type}

@[ext] theorem ext' {x y : Dual K} (h1 : x.re = y.re) (h2 : x.eps = y.eps) : x = y := by
  cases x; cases y; simp_all

section ring
variable [CommRing K]

@[simp] theorem re_zero : (0 : Dual K).re = 0 := rfl
@[simp] theorem eps_zero : (0 : Dual K).eps = 0 := rfl
@[simp] theorem re_one : (1 : Dual K).re = 1 := rfl
@[simp] theorem eps_one : (1 : Dual K).eps = 0 := rfl
@[simp] theorem re_add (x y : Dual K) : (x + y).re = x.re + y.re := rfl
@[simp] theorem eps_add (x y : Dual K) : (x + y).eps = x.eps + y.eps := rfl
@[simp] theorem re_sub (x y : Dual K) : (x - y).re = x.re - y.re := rfl
@[simp] theorem eps_sub (x y : Dual K) : (x - y).eps = x.eps - y.eps := rfl
@[simp] theorem re_neg (x : Dual K) : (-x).re = -x.re := rfl
@[simp] theorem eps_neg (x : Dual K) : (-x).eps = -x.eps := rfl
@[simp] theorem re_mul (x y : Dual K) : (x * y).re = x.re * y.re := rfl
@[simp] theorem eps_mul (x y : Dual K) : (x * y).eps = x.re * y.eps + x.eps * y.re := rfl
@[simp] theorem re_natCast (n : Nat) : ((n : Dual K)).re = n := rfl
@[simp] theorem eps_natCast (n : Nat) : ((n : Dual K)).eps = 0 := rfl

instance : SMul Nat (Dual K) := ⟨fun n x => ⟨n • x.re, n • x.eps⟩⟩
instance : SMul Int (Dual K) := ⟨fun n x => ⟨n • x.re, n • x.eps⟩⟩
instance : IntCast (Dual K) := ⟨fun n => ⟨(n : K), 0⟩⟩
@[simp] theorem re_nsmul (n : Nat) (x : Dual K) : (n • x).re = n • x.re := rfl
@[simp] theorem eps_nsmul (n : Nat) (x : Dual K) : (n • x).eps = n • x.eps := rfl
@[simp] theorem re_zsmul (n : Int) (x : Dual K) : (n • x).re = n • x.re := rfl
@[simp] theorem eps_zsmul (n : Int) (x : Dual K) : (n • x).eps = n • x.eps := rfl
@[simp] theorem re_intCast (n : Int) : ((n : Dual K)).re = n := rfl
@[simp] theorem eps_intCast (n : Int) : ((n : Dual K)).eps = 0 := rfl

/-- the model's operations make `Dual K` a commutative ring -/
instance instCommRing : CommRing (Dual K) where
  add := (· + ·)
  zero := 0
  neg := Neg.neg
  sub := (· - ·)
  mul := (· * ·)
  one := 1
  natCast := fun n => (n : Dual K)
  intCast := fun n => (n : Dual K)
  nsmul := (· • ·)
  zsmul := (· • ·)
  add_assoc := by intros; ext <;> simp [add_assoc]
  zero_add := by intros; ext <;> simp
  add_zero := by intros; ext <;> simp
  add_comm := by intros; ext <;> simp [add_comm]
  neg_add_cancel := by intros; ext <;> simp
  sub_eq_add_neg := by intros; ext <;> simp [sub_eq_add_neg]
  mul_assoc := by intros; ext <;> simp <;> ring
  one_mul := by intros; ext <;> simp
  mul_one := by intros; ext <;> simp
  zero_mul := by intros; ext <;> simp
  mul_zero := by intros; ext <;> simp
  left_distrib := by intros; ext <;> simp <;> ring
  right_distrib := by intros; ext <;> simp <;> ring
  mul_comm := by intros; ext <;> simp <;> ring
  natCast_zero := by ext <;> simp
  natCast_succ := by intros; ext <;> simp
  intCast_ofNat := by intros; ext <;> simp
  intCast_negSucc := by intros; ext <;> simp
  nsmul_zero := by intros; ext <;> simp
  nsmul_succ := by intros; ext <;> simp [add_mul]
  zsmul_zero' := by intros; ext <;> simp
  zsmul_succ' := by intros; ext <;> simp [add_mul]
  zsmul_neg' := by intros; ext <;> simp [add_mul]

/-- **ring-homomorphism property**: the real part of any ring expression evaluated at dual numbers is
the expression evaluated at the real parts -/
def reHom : Dual K →+* K where
  toFun := Dual.re
  map_one' := rfl
  map_mul' := fun _ _ => rfl
  map_zero' := rfl
  map_add' := fun _ _ => rfl

/-- constants embed as a ring homomorphism (`Dual K` is a `K`-algebra) -/
def constHom : K →+* Dual K where
  toFun := Dual.const
  map_one' := rfl
  map_mul' := fun a b => by ext <;> simp [Dual.const]
  map_zero' := rfl
  map_add' := fun a b => by ext <;> simp [Dual.const]

theorem eps_sq_zero : (⟨0, 1⟩ : Dual K) * ⟨0, 1⟩ = 0 := by ext <;> simp

theorem eta (x : Dual K) : x = Dual.const x.re + Dual.const x.eps * ⟨0, 1⟩ := by
  ext <;> simp [Dual.const]

end ring

section field
variable [Field K]

@[simp] theorem re_div (x y : Dual K) : (x / y).re = x.re / y.re := rfl
@[simp] theorem eps_div (x y : Dual K) : (x / y).eps = (x.eps * y.re - x.re * y.eps) / (y.re * y.re) := rfl

/-- the model's division is division in the ring: `(x / y) * y = x` whenever the real part of `y` is non-zero -/
theorem div_mul_cancel' (x y : Dual K) (hy : y.re ≠ 0) : x / y * y = x := by
  ext
  · simp [hy]
  · simp only [eps_mul, re_div, eps_div]
    field_simp
    ring

end field
end Pdq.Dual
