import Pdq.Model.Calib
import Pdq.Bridge
import Pdq.Props.C08
/-!
# Lemmas for C04: rescaling the noise commutes with every operation of the solver step

`f` is the factor on standard deviations; covariances carry `f²`.  All statements are equalities of model
objects (no invertibility, any `f`).
-/
set_option linter.unusedSectionVars false
set_option linter.unusedSimpArgs false
open Matrix

namespace Pdq.CalibL
variable {K : Type} [Field K] {k m n : Nat}

theorem PCond.ext'' {c d : PCond m n K} (hA : c.A.toM = d.A.toM) (hb : c.b.toV = d.b.toV) (hQ : c.Q.toM = d.Q.toM)
    (hl : c.tl.toV = d.tl.toV) (ho : c.tob.toV = d.tob.toV) : c = d := by
  cases c; cases d; simp only at hA hb hQ hl ho
  rw [Mat.ext' hA, Vec.ext' hb, Mat.ext' hQ, Vec.ext' hl, Vec.ext' ho]

theorem SolState.ext'' {s t : SolState n K} (hu : s.u = t.u) (hb : s.bw = t.bw) : s = t := by
  cases s; cases t; simp only at hu hb; rw [hu, hb]

/-! ### plain conditionals -/

theorem cond_marg_rescale (c : Cond m n K) (g : Gauss n K) (f : K) :
    (c.rescaleNoise f).marg (g.rescale f) = (c.marg g).rescale f := by
  apply C08.Gauss.ext''
  · simp [Cond.rescaleNoise, Cond.marg, Gauss.rescale]
  · simp [Cond.rescaleNoise, Cond.marg, Gauss.rescale, Matrix.mul_smul, Matrix.smul_mul, smul_add]

theorem cond_revert_rescale (c : Cond m n K) (g : Gauss n K) (G : Mat n m K) (f : K) :
    (c.rescaleNoise f).revertWith (g.rescale f) G
      = (((c.revertWith g G).1).rescale f, ((c.revertWith g G).2).rescaleNoise f) := by
  have h := cond_marg_rescale c g f
  simp only [Cond.revertWith]
  rw [h]
  refine Prod.ext rfl ?_
  apply C08.Cond.ext''
  · rfl
  · simp [Cond.rescaleNoise, Gauss.rescale]
  · simp [Cond.rescaleNoise, Gauss.rescale, Matrix.mul_smul, Matrix.smul_mul, smul_sub]

/-- a noise-free conditional is not changed by rescaling its noise -/
theorem cond_rescale_of_noisefree (c : Cond m n K) (f : K) (hQ : c.Q.toM = 0) : c.rescaleNoise f = c := by
  apply C08.Cond.ext''
  · rfl
  · rfl
  · simp [Cond.rescaleNoise, hQ]

theorem cond_applyPt_rescale (c : Cond m n K) (x : Vec n K) (f : K) :
    (c.rescaleNoise f).applyPt x = (c.applyPt x).rescale f := by
  apply C08.Gauss.ext'' <;> simp [Cond.rescaleNoise, Cond.applyPt, Gauss.rescale]

theorem bayesZero_rescale (c : Cond k n K) (g : Gauss n K) (G : Mat n k K) (f : K) (hQ : c.Q.toM = 0) :
    c.bayesZero (g.rescale f) G = (c.bayesZero g G).rescale f := by
  have h := cond_revert_rescale c g G f
  rw [cond_rescale_of_noisefree c f hQ] at h
  simp only [Cond.bayesZero]
  rw [h]
  exact cond_applyPt_rescale _ _ f

/-! ### preconditioned conditionals -/

theorem pcond_marg_rescale (c : PCond m n K) (g : Gauss n K) (f : K) :
    (c.rescaleNoise f).marg (g.rescale f) = (c.marg g).rescale f := by
  apply C08.Gauss.ext''
  · simp [PCond.rescaleNoise, PCond.marg, Gauss.rescale]
  · simp [PCond.rescaleNoise, PCond.marg, Gauss.rescale, Matrix.mul_smul, Matrix.smul_mul, smul_add,
      Matrix.mul_add, Matrix.add_mul]

theorem pcond_applyPt_rescale (c : PCond m n K) (x : Vec n K) (f : K) :
    (c.rescaleNoise f).applyPt x = (c.applyPt x).rescale f := by
  apply C08.Gauss.ext''
  · simp [PCond.rescaleNoise, PCond.applyPt, Gauss.rescale]
  · simp [PCond.rescaleNoise, PCond.applyPt, Gauss.rescale, Matrix.mul_smul, Matrix.smul_mul]

theorem pcond_revert_rescale (c : PCond m n K) (g : Gauss n K) (G : Mat n m K) (f : K) :
    (c.rescaleNoise f).revertWith (g.rescale f) G
      = (((c.revertWith g G).1).rescale f, ((c.revertWith g G).2).rescaleNoise f) := by
  have hin : (c.rescaleNoise f).inner (g.rescale f) = (c.inner g).rescale f := by
    apply C08.Gauss.ext''
    · simp [PCond.rescaleNoise, PCond.inner, Gauss.rescale]
    · simp [PCond.rescaleNoise, PCond.inner, Gauss.rescale, Matrix.mul_smul, Matrix.smul_mul]
  have hcore : (c.rescaleNoise f).core = c.core.rescaleNoise f := rfl
  have h := cond_revert_rescale c.core (c.inner g) G f
  simp only [PCond.revertWith]
  rw [hin, hcore, h]
  refine Prod.ext ?_ ?_
  · apply C08.Gauss.ext''
    · simp [PCond.rescaleNoise, Gauss.rescale]
    · simp [PCond.rescaleNoise, Gauss.rescale, Matrix.mul_smul, Matrix.smul_mul]
  · apply PCond.ext'' <;> simp [PCond.rescaleNoise, Cond.rescaleNoise]

theorem pcond_merge_rescale {j : Nat} (c2 : PCond j m K) (c1 : PCond m n K) (f : K) :
    (c2.rescaleNoise f).merge (c1.rescaleNoise f) = (c2.merge c1).rescaleNoise f := by
  apply PCond.ext''
  · simp [PCond.rescaleNoise, PCond.merge]
  · simp [PCond.rescaleNoise, PCond.merge]
  · simp [PCond.rescaleNoise, PCond.merge, Matrix.mul_smul, Matrix.smul_mul, smul_add]
  · simp [PCond.rescaleNoise, PCond.merge]
  · simp [PCond.rescaleNoise, PCond.merge]

/-! ### strategies and solver steps -/

theorem predict_rescale (s : Strategy) (tr : PCond n n K) (st : SolState n K) (Gt : Mat n n K) (f : K) :
    s.predict (tr.rescaleNoise f) (st.rescale f) Gt = (s.predict tr st Gt).rescale f := by
  cases s
  · simp only [Strategy.predict, SolState.rescale]
    rw [pcond_marg_rescale]
  · simp only [Strategy.predict, SolState.rescale]
    rw [pcond_revert_rescale]
  · simp only [Strategy.predict, SolState.rescale]
    rw [pcond_revert_rescale, pcond_merge_rescale]

theorem rescale_mean (st : SolState n K) (f : K) : (st.rescale f).u.mean = st.u.mean := rfl

theorem step_rescale (s : Strategy) (tr : PCond n n K) (lin : Vec n K → Cond k n K)
    (st : SolState n K) (Gt : Mat n n K) (Gu : Mat n k K) (f : K) (hlin : ∀ x, (lin x).Q.toM = 0) :
    Solver.step s (tr.rescaleNoise f) lin (st.rescale f) Gt Gu = (Solver.step s tr lin st Gt Gu).rescale f := by
  simp only [Solver.step]
  rw [predict_rescale, rescale_mean]
  simp only [SolState.update, SolState.rescale]
  rw [bayesZero_rescale _ _ _ _ (hlin _)]

end Pdq.CalibL
