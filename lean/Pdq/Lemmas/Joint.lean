import Mathlib.LinearAlgebra.Matrix.SchurComplement
import Mathlib.LinearAlgebra.Matrix.RowCol
import Mathlib.Data.Matrix.ColumnRowPartitioned
import Mathlib.Tactic.Abel
/-!
# Pdq.Lemmas.Joint — joint laws of linear-Gaussian chains as block matrices (pure Mathlib)

`JointYX ι ν K` is the joint second-order law of a stack `Y` (index type `ι`, everything recorded so far:
observed data for C12, sampled states for C13) and the current state `x` (index `ν`).  Two elementary rules
extend it: `obs` appends a new linear-Gaussian variable `y' = H x + b + e` to the stack, `trans` replaces the
state by `x' = F x + c + w`.  Vectors are column matrices (`Matrix _ Unit K`).

Main results: the two-block factorisation of determinant and quadratic form (`joint_det`, `block_bilin`),
and the step lemmas saying that Kalman conditioning (`m + G (u - ŷ)`, `P - G S Gᵀ` for *any* certified gain
`G S = P Hᵀ`) tracks the conditional law of `x` given the stack.
-/
set_option linter.unusedSectionVars false
open Matrix

namespace Pdq.Joint
variable {K : Type} [Field K]
variable {ι κ ν p r : Type} [Fintype ι] [DecidableEq ι] [Fintype κ] [DecidableEq κ] [Fintype ν] [DecidableEq ν]
  [Fintype p] [Fintype r]

/-- determinant factorisation of a joint covariance: `det Σ = det A · det (D − Bᵀ A⁻¹ B)` -/
theorem joint_det (A : Matrix ι ι K) (B : Matrix ι κ K) (D : Matrix κ κ K) [Invertible A] :
    (fromBlocks A B Bᵀ D).det = A.det * (D - Bᵀ * ⅟A * B).det :=
  det_fromBlocks₁₁ A B Bᵀ D

/-- bilinear form of the block inverse: with `S = D − Bᵀ A⁻¹ B`,
`[X₁;X₂]ᵀ Σ⁻¹ [Z₁;Z₂] = X₁ᵀA⁻¹Z₁ + (X₂ − BᵀA⁻¹X₁)ᵀ S⁻¹ (Z₂ − BᵀA⁻¹Z₁)`. -/
theorem block_bilin (A : Matrix ι ι K) (B : Matrix ι κ K) (D : Matrix κ κ K)
    [Invertible A] [Invertible (D - Bᵀ * ⅟A * B)] [Invertible (fromBlocks A B Bᵀ D)]
    (hA : (⅟A)ᵀ = ⅟A)
    (X₁ : Matrix ι p K) (X₂ : Matrix κ p K) (Z₁ : Matrix ι r K) (Z₂ : Matrix κ r K) :
    (fromRows X₁ X₂)ᵀ * ⅟(fromBlocks A B Bᵀ D) * fromRows Z₁ Z₂
      = X₁ᵀ * ⅟A * Z₁ + (X₂ - Bᵀ * ⅟A * X₁)ᵀ * ⅟(D - Bᵀ * ⅟A * B) * (Z₂ - Bᵀ * ⅟A * Z₁) := by
  rw [invOf_fromBlocks₁₁_eq, transpose_fromRows, fromCols_mul_fromBlocks, fromCols_mul_fromRows]
  simp only [transpose_sub, transpose_mul, transpose_transpose, hA, Matrix.mul_add, Matrix.add_mul,
    Matrix.mul_sub, Matrix.sub_mul, Matrix.mul_neg, Matrix.neg_mul, Matrix.mul_assoc]
  abel


/-! ## joint law of a stack and the current state -/

/-- second-order joint law of `(Y, x)`: means, `Cov Y`, `Cov(Y, x)`, `Cov x`; vectors are columns -/
structure JointYX (ι ν K : Type) where
  μY : Matrix ι Unit K
  μx : Matrix ν Unit K
  SYY : Matrix ι ι K
  SYx : Matrix ι ν K
  Sxx : Matrix ν ν K

namespace JointYX

/-- append `y' = H x + b + e`, `e ~ N(0, R)` independent of everything so far -/
def obs (J : JointYX ι ν K) (H : Matrix κ ν K) (b : Matrix κ Unit K) (R : Matrix κ κ K) : JointYX (ι ⊕ κ) ν K :=
  { μY := fromRows J.μY (H * J.μx + b)
    μx := J.μx
    SYY := fromBlocks J.SYY (J.SYx * Hᵀ) (J.SYx * Hᵀ)ᵀ (H * J.Sxx * Hᵀ + R)
    SYx := fromRows J.SYx (H * J.Sxx)
    Sxx := J.Sxx }

/-- replace the state by `x' = F x + c + w`, `w ~ N(0, Q)` independent of everything so far -/
def trans (J : JointYX ι ν K) (F : Matrix ν ν K) (c : Matrix ν Unit K) (Q : Matrix ν ν K) : JointYX ι ν K :=
  { μY := J.μY
    μx := F * J.μx + c
    SYY := J.SYY
    SYx := J.SYx * Fᵀ
    Sxx := F * J.Sxx * Fᵀ + Q }

/-- conditional mean of `x` given `Y = y` -/
noncomputable def condMean (J : JointYX ι ν K) (y : Matrix ι Unit K) : Matrix ν Unit K :=
  J.μx + J.SYxᵀ * J.SYY⁻¹ * (y - J.μY)
/-- conditional covariance of `x` given `Y` -/
noncomputable def condCov (J : JointYX ι ν K) : Matrix ν ν K := J.Sxx - J.SYxᵀ * J.SYY⁻¹ * J.SYx
/-- quadratic form of the stack: `(y-μ)ᵀ Σ_YY⁻¹ (y-μ)` as a `1×1` matrix -/
noncomputable def maha (J : JointYX ι ν K) (y : Matrix ι Unit K) : Matrix Unit Unit K :=
  (y - J.μY)ᵀ * J.SYY⁻¹ * (y - J.μY)

theorem fromRows_sub' {n' : Type} (a c : Matrix ι n' K) (b d : Matrix κ n' K) :
    fromRows a b - fromRows c d = fromRows (a - c) (b - d) := by
  ext (i | i) j <;> simp

theorem condCov_symm (J : JointYX ι ν K) (hs : J.SYYᵀ = J.SYY) (hx : J.Sxxᵀ = J.Sxx) :
    J.condCovᵀ = J.condCov := by
  simp [condCov, transpose_sub, transpose_mul, Matrix.transpose_nonsing_inv, hs, hx, Matrix.mul_assoc]

/-- **transition step**: the conditional law of the new state is the old one pushed through the kernel;
the law of the stack is untouched -/
theorem trans_step (J : JointYX ι ν K) (F : Matrix ν ν K) (c : Matrix ν Unit K) (Q : Matrix ν ν K)
    (y : Matrix ι Unit K) :
    (J.trans F c Q).condMean y = F * J.condMean y + c ∧
    (J.trans F c Q).condCov = F * J.condCov * Fᵀ + Q ∧
    (J.trans F c Q).maha y = J.maha y ∧ (J.trans F c Q).SYY = J.SYY := by
  refine ⟨?_, ?_, rfl, rfl⟩
  · simp only [trans, condMean, transpose_mul, transpose_transpose, Matrix.mul_add, Matrix.mul_assoc]
    abel
  · simp only [trans, condCov, transpose_mul, transpose_transpose, Matrix.mul_sub, Matrix.sub_mul,
      Matrix.mul_assoc]
    abel


/-- **observation step.** Let the stack have a symmetric invertible covariance and let `(m, P)` be the
conditional law of `x` given `Y = y`.  Appending `y' = H x + b + e` with innovation covariance
`S = H P Hᵀ + R` (invertible) and observing `y' = u`:
* the quadratic form grows by the whitened innovation `eᵀ S⁻¹ e`, `e = u - (H m + b)`;
* the determinant is multiplied by `det S`;
* for **every** `G` with `G S = P Hᵀ` the new conditional law is `(m + G e, P - G S Gᵀ)`;
* the new stack covariance is again symmetric and invertible. -/
theorem obs_step (J : JointYX ι ν K) (hs : J.SYYᵀ = J.SYY) (hx : J.Sxxᵀ = J.Sxx) (hu : IsUnit J.SYY.det)
    (H : Matrix κ ν K) (b : Matrix κ Unit K) (R : Matrix κ κ K) (hR : Rᵀ = R)
    (S : Matrix κ κ K) (hS : S = H * J.condCov * Hᵀ + R) (hSu : IsUnit S.det)
    (G : Matrix ν κ K) (hG : G * S = J.condCov * Hᵀ) (y : Matrix ι Unit K) (u : Matrix κ Unit K) :
    (J.obs H b R).maha (fromRows y u)
        = J.maha y + (u - (H * J.condMean y + b))ᵀ * S⁻¹ * (u - (H * J.condMean y + b)) ∧
    (J.obs H b R).SYY.det = J.SYY.det * S.det ∧
    (J.obs H b R).condMean (fromRows y u) = J.condMean y + G * (u - (H * J.condMean y + b)) ∧
    (J.obs H b R).condCov = J.condCov - G * S * Gᵀ ∧
    (J.obs H b R).SYYᵀ = (J.obs H b R).SYY ∧ IsUnit (J.obs H b R).SYY.det := by
  let iA : Invertible J.SYY := invertibleOfIsUnitDet _ hu
  have hAi : (⅟J.SYY)ᵀ = ⅟J.SYY := by
    rw [invOf_eq_nonsing_inv, Matrix.transpose_nonsing_inv, hs]
  have hPs := J.condCov_symm hs hx
  have hSs : Sᵀ = S := by
    rw [hS]; simp [transpose_mul, hPs, hR, Matrix.mul_assoc]
  have hSchur : (H * J.Sxx * Hᵀ + R) - (J.SYx * Hᵀ)ᵀ * ⅟J.SYY * (J.SYx * Hᵀ) = S := by
    rw [hS, condCov, invOf_eq_nonsing_inv]
    simp only [transpose_mul, transpose_transpose, Matrix.mul_sub, Matrix.sub_mul, Matrix.mul_assoc]
    abel
  let iS : Invertible ((H * J.Sxx * Hᵀ + R) - (J.SYx * Hᵀ)ᵀ * ⅟J.SYY * (J.SYx * Hᵀ)) := by
    rw [hSchur]; exact invertibleOfIsUnitDet _ hSu
  have hSi : ⅟((H * J.Sxx * Hᵀ + R) - (J.SYx * Hᵀ)ᵀ * ⅟J.SYY * (J.SYx * Hᵀ)) = S⁻¹ := by
    rw [invOf_eq_nonsing_inv, hSchur]
  let iJ : Invertible (fromBlocks J.SYY (J.SYx * Hᵀ) (J.SYx * Hᵀ)ᵀ (H * J.Sxx * Hᵀ + R)) :=
    fromBlocks₁₁Invertible _ _ _ _
  have hSS : S * S⁻¹ = 1 := Matrix.mul_nonsing_inv _ hSu
  -- residual identities
  have he : (u - (H * J.μx + b)) - (J.SYx * Hᵀ)ᵀ * ⅟J.SYY * (y - J.μY) = u - (H * J.condMean y + b) := by
    rw [condMean, invOf_eq_nonsing_inv]
    simp only [transpose_mul, transpose_transpose, Matrix.mul_add, Matrix.mul_sub, Matrix.mul_assoc]
    abel
  have hc : (H * J.Sxx) - (J.SYx * Hᵀ)ᵀ * ⅟J.SYY * J.SYx = H * J.condCov := by
    rw [condCov, invOf_eq_nonsing_inv]
    simp only [transpose_mul, transpose_transpose, Matrix.mul_sub, Matrix.mul_assoc]
  have hHP : H * J.condCov = S * Gᵀ := by
    have := congrArg Matrix.transpose hG
    rw [transpose_mul, transpose_mul, hSs, hPs, transpose_transpose] at this
    exact this.symm
  have hHPt : (H * J.condCov)ᵀ = G * S := by
    rw [transpose_mul, hPs, hG]
  refine ⟨?_, ?_, ?_, ?_, ?_, ?_⟩
  · simp only [maha, obs, fromRows_sub', ← invOf_eq_nonsing_inv]
    rw [block_bilin _ _ _ hAi, he, hSi]
  · simp only [obs]
    rw [joint_det, hSchur]
  · simp only [condMean, obs, fromRows_sub', ← invOf_eq_nonsing_inv]
    rw [Matrix.mul_assoc, ← Matrix.mul_assoc _ (⅟_) _, block_bilin _ _ _ hAi, he, hc, hHPt, hSi]
    rw [Matrix.mul_assoc G S, hSS, Matrix.mul_one]
    simp only [condMean, ← invOf_eq_nonsing_inv, Matrix.mul_assoc]
    abel
  · simp only [condCov, obs, ← invOf_eq_nonsing_inv]
    rw [block_bilin _ _ _ hAi, hc, hHPt, hSi, hHP]
    rw [Matrix.mul_assoc G S, hSS, Matrix.mul_one]
    simp only [Matrix.mul_assoc]
    abel
  · simp only [obs, fromBlocks_transpose, transpose_transpose, hs]
    congr 1
    simp [transpose_mul, hx, hR, Matrix.mul_assoc]
  · simp only [obs]
    rw [joint_det, hSchur]
    exact hu.mul hSu

end JointYX

end Pdq.Joint
