import Pdq.Model.Jet
import Pdq.Lemmas.Expr

/-!
# Pdq.Lemmas.Jet — bookkeeping for the Taylor-coefficient routines

`taylorCoeffs` is prefix-stable and satisfies its recurrence; iterating a step that returns
`tc[:K] ++ [ (D^j f)(tc, t) ]_j` (what `increment` does, by `C10.jet_exact`) reproduces it, with or
without zero padding.
-/
set_option linter.unusedSectionVars false

namespace Pdq
open Expr

section getU
variable {K : Type} [Zero K]

theorem getU_take (c : List (List K)) (n k i : ℕ) (h : k < n) : getU (c.take n) k i = getU c k i := by
  simp [getU, List.getD_eq_getElem?_getD, h]

theorem getU_drop_take (c : List (List K)) (a n k i : ℕ) (h : k < n) :
    getU ((c.drop a).take n) k i = getU c (a + k) i := by
  simp [getU, List.getD_eq_getElem?_getD, h]

theorem getU_congr {c c' : List (List K)} {k : ℕ} (h : c.getD k [] = c'.getD k []) (i : ℕ) :
    getU c k i = getU c' k i := by unfold getU; rw [h]

theorem getD_append_left {α : Type} (l l' : List α) (k : ℕ) (d : α) (h : k < l.length) :
    (l ++ l').getD k d = l.getD k d := by
  simp [List.getD_eq_getElem?_getD, List.getElem?_append_left h]

theorem getD_append_right {α : Type} (l l' : List α) (k : ℕ) (d : α) :
    (l ++ l').getD (l.length + k) d = l'.getD k d := by
  simp [List.getD_eq_getElem?_getD, List.getElem?_append_right]

theorem getD_dropLast {α : Type} (l : List α) (k : ℕ) (d : α) (h : k + 1 < l.length) :
    l.dropLast.getD k d = l.getD k d := by
  rw [List.dropLast_eq_take]
  simp [List.getD_eq_getElem?_getD, show k < l.length - 1 by omega, show k < l.length by omega]

theorem getD_append_length {α : Type} (l l' : List α) (d : α) :
    (l ++ l').getD l.length d = l'.getD 0 d := by
  simpa using getD_append_right l l' 0 d

theorem getD_append_right' {α : Type} (l l' : List α) (n k : ℕ) (d : α) (h : l.length = n) :
    (l ++ l').getD (n + k) d = l'.getD k d := by
  subst h; exact getD_append_right l l' k d

theorem seriesT_length {K : Type} [Zero K] [One K] {n : ℕ} (h : 1 ≤ n) : (seriesT n : List K).length = n := by
  simp [seriesT]; omega

theorem seriesT_getD {K : Type} [Zero K] [One K] (n j : ℕ) :
    (seriesT n : List K).getD j 0 = if j = 0 then 1 else 0 := by
  rcases j with _ | j
  · simp [seriesT]
  · simp only [seriesT, List.getD_eq_getElem?_getD, List.getElem?_cons_succ, List.getElem?_replicate]
    split <;> simp

end getU

namespace Jet
variable {K : Type} [Field K]

theorem evalOn_congr (c c' : List (List K)) (t : K) (g : Expr K)
    (h : ∀ k, k < g.order → c.getD k [] = c'.getD k []) : evalOn c t g = evalOn c' t g :=
  eval_congr_order _ _ _ _ g fun k i hk => getU_congr (h k hk) i

variable (fs : List (Expr K)) (inits : List (List K)) (t : K)

theorem tc_length (N : ℕ) : (taylorCoeffs fs inits t N).length = inits.length + N := by
  induction N with
  | zero => rfl
  | succ N ih => simp [taylorCoeffs, ih]; omega

theorem tc_succ (N : ℕ) : taylorCoeffs fs inits t (N + 1) = taylorCoeffs fs inits t N ++
    [fs.map fun f => evalOn (taylorCoeffs fs inits t N) t (iter D N f)] := rfl

theorem tc_prefix {N M : ℕ} (h : N ≤ M) :
    ∃ l, taylorCoeffs fs inits t M = taylorCoeffs fs inits t N ++ l := by
  induction M with
  | zero => exact ⟨[], by simp [Nat.le_zero.mp h]⟩
  | succ M ih =>
      rcases Nat.lt_or_ge N (M + 1) with h' | h'
      · obtain ⟨l, hl⟩ := ih (by omega)
        exact ⟨l ++ [fs.map fun f => evalOn (taylorCoeffs fs inits t M) t (iter D M f)], by
          rw [tc_succ, hl, List.append_assoc]⟩
      · have : N = M + 1 := by omega
        exact ⟨[], by simp [this]⟩

theorem tc_getD_stable {N M k : ℕ} (h : N ≤ M) (hk : k < inits.length + N) :
    (taylorCoeffs fs inits t M).getD k [] = (taylorCoeffs fs inits t N).getD k [] := by
  obtain ⟨l, hl⟩ := tc_prefix fs inits t h
  rw [hl, getD_append_left _ _ _ _ (by rw [tc_length]; exact hk)]

theorem tc_inits (N k : ℕ) (hk : k < inits.length) :
    (taylorCoeffs fs inits t N).getD k [] = inits.getD k [] :=
  tc_getD_stable fs inits t (Nat.zero_le N) (by simpa using hk)

/-- the recurrence `u_{K+j} = (D^j f)(u, t)` read off the final list -/
theorem tc_get (hord : ∀ f ∈ fs, f.order ≤ inits.length) {N j : ℕ} (hj : j < N) :
    (taylorCoeffs fs inits t N).getD (inits.length + j) []
      = fs.map fun f => evalOn (taylorCoeffs fs inits t N) t (iter D j f) := by
  rw [tc_getD_stable fs inits t (show j + 1 ≤ N by omega) (by omega), tc_succ,
    ← tc_length fs inits t j, getD_append_length]
  simp only [List.getD_cons_zero]
  refine List.map_congr_left fun f hf => ?_
  refine evalOn_congr _ _ _ _ fun k hk => ?_
  have := order_iter_D_le f j
  have := hord f hf
  exact (tc_getD_stable fs inits t (show j ≤ N by omega) (by omega)).symm

/-- what `increment` returns (by `C10.jet_exact`): `tc[:K] ++ [(D^j f)(tc, t)]_{j ≤ len tc - K}` -/
def incrementSpec (Kk : ℕ) (tc : List (List K)) : List (List K) :=
  tc.take Kk ++ tabulate (tc.length - Kk + 1) fun j => fs.map fun f => evalOn tc t (iter D j f)

theorem incrementSpec_length (Kk : ℕ) (tc : List (List K)) (h : Kk ≤ tc.length) :
    (incrementSpec fs t Kk tc).length = tc.length + 1 := by
  simp [incrementSpec]; omega

/-- one increment extends the agreement with `taylorCoeffs` by one coefficient -/
theorem incrementSpec_agree (hord : ∀ f ∈ fs, f.order ≤ inits.length) (tc : List (List K)) (N i : ℕ)
    (hlen : inits.length + i ≤ tc.length) (hiN : i < N)
    (hag : ∀ k < inits.length + i, tc.getD k [] = (taylorCoeffs fs inits t N).getD k []) :
    ∀ k < inits.length + i + 1,
      (incrementSpec fs t inits.length tc).getD k [] = (taylorCoeffs fs inits t N).getD k [] := by
  intro k hk
  unfold incrementSpec
  rcases Nat.lt_or_ge k inits.length with hkK | hkK
  · rw [getD_append_left _ _ _ _ (by simp; omega)]
    rw [← hag k (by omega)]
    simp [List.getD_eq_getElem?_getD, hkK]
  · obtain ⟨j, rfl⟩ : ∃ j, k = inits.length + j := ⟨k - inits.length, by omega⟩
    have hj : j ≤ i := by omega
    have hl : (tc.take inits.length).length = inits.length := by simp; omega
    rw [getD_append_right' _ _ _ _ _ hl, tabulate_getD_lt _ (by omega), tc_get fs inits t hord (by omega)]
    refine List.map_congr_left fun f hf => ?_
    refine evalOn_congr _ _ _ _ fun k hk => ?_
    have := order_iter_D_le f j
    have := hord f hf
    exact hag k (by omega)

theorem tc_one : taylorCoeffs fs inits t 1 = inits ++ [evalVec fs inits t] := rfl

/-- iterating the increment from `[*inits, f(inits)]` (the unrolled loop) -/
theorem unrollSpec_aux (hord : ∀ f ∈ fs, f.order ≤ inits.length) (m N : ℕ) (hN : m + 1 ≤ N) :
    (iter (incrementSpec fs t inits.length) m (inits ++ [evalVec fs inits t])).length = inits.length + 1 + m ∧
    ∀ k < inits.length + 1 + m,
      (iter (incrementSpec fs t inits.length) m (inits ++ [evalVec fs inits t])).getD k []
        = (taylorCoeffs fs inits t N).getD k [] := by
  induction m with
  | zero =>
      refine ⟨by simp [iter], fun k hk => ?_⟩
      simp only [iter]
      rw [← tc_one, tc_getD_stable fs inits t (show 1 ≤ N by omega) (by omega)]
  | succ m ih =>
      obtain ⟨hl, hag⟩ := ih (by omega)
      rw [iter_succ']
      refine ⟨?_, ?_⟩
      · rw [incrementSpec_length _ _ _ _ (by omega), hl]; omega
      · have := incrementSpec_agree fs inits t hord _ N (1 + m) (by omega) (by omega)
          (fun k hk => hag k (by omega))
        intro k hk
        exact this k (by omega)

theorem unrollSpec_eq (hord : ∀ f ∈ fs, f.order ≤ inits.length) (num : ℕ) (h : 1 ≤ num) :
    iter (incrementSpec fs t inits.length) (num - 1) (inits ++ [evalVec fs inits t])
      = taylorCoeffs fs inits t num := by
  obtain ⟨hl, hag⟩ := unrollSpec_aux fs inits t hord (num - 1) num (by omega)
  refine list_ext_getD [] (by rw [hl, tc_length]; omega) fun k hk => hag k (by omega)

theorem padTo_length {α : Type} (x : List α) (n : ℕ) (v : α) (h : x.length ≤ n) : (padTo x n v).length = n := by
  simp [padTo]; omega

theorem padTo_getD {α : Type} (x : List α) (n : ℕ) (v d : α) (k : ℕ) (h : k < x.length) :
    (padTo x n v).getD k d = x.getD k d := getD_append_left _ _ _ _ h

/-- iterating `increment; drop the last` on the zero-padded list (the scan) -/
theorem scanSpec_aux (hord : ∀ f ∈ fs, f.order ≤ inits.length) (num : ℕ) (zeros : List K) (m N : ℕ)
    (hm : m + 1 ≤ num) (hN : m + 1 ≤ N) :
    (iter (fun tc => (incrementSpec fs t inits.length tc).dropLast) m
      (padTo (inits ++ [evalVec fs inits t]) (inits.length + num) zeros)).length = inits.length + num ∧
    ∀ k < inits.length + 1 + m,
      (iter (fun tc => (incrementSpec fs t inits.length tc).dropLast) m
        (padTo (inits ++ [evalVec fs inits t]) (inits.length + num) zeros)).getD k []
        = (taylorCoeffs fs inits t N).getD k [] := by
  induction m with
  | zero =>
      refine ⟨by simp only [iter]; exact padTo_length _ _ _ (by simp; omega), fun k hk => ?_⟩
      simp only [iter]
      rw [padTo_getD _ _ _ _ _ (by simp; omega), ← tc_one,
        tc_getD_stable fs inits t (show 1 ≤ N by omega) (by omega)]
  | succ m ih =>
      obtain ⟨hl, hag⟩ := ih (by omega) (by omega)
      rw [iter_succ']
      have hl' := incrementSpec_length fs t inits.length _ (show inits.length ≤ _ by rw [hl]; omega)
      refine ⟨?_, ?_⟩
      · rw [List.length_dropLast, hl', hl]; omega
      · have := incrementSpec_agree fs inits t hord _ N (1 + m) (by omega) (by omega)
          (fun k hk => hag k (by omega))
        intro k hk
        rw [getD_dropLast _ _ _ (by rw [hl', hl]; omega)]
        exact this k (by omega)

theorem scanSpec_eq (hord : ∀ f ∈ fs, f.order ≤ inits.length) (num : ℕ) (zeros : List K) (h : 1 ≤ num) :
    iter (fun tc => (incrementSpec fs t inits.length tc).dropLast) (num - 1)
      (padTo (inits ++ [evalVec fs inits t]) (inits.length + num) zeros) = taylorCoeffs fs inits t num := by
  obtain ⟨hl, hag⟩ := scanSpec_aux fs inits t hord num zeros (num - 1) num (by omega) (by omega)
  refine list_ext_getD [] (by rw [hl, tc_length]) fun k hk => hag k (by omega)

/-- iterating two step functions that agree on every list of admissible length -/
theorem iter_congr_len {α : Type} (f g : List α → List α) (P : List α → Prop)
    (hP : ∀ l, P l → P (f l)) (hfg : ∀ l, P l → f l = g l) (m : ℕ) (a : List α) (ha : P a) :
    iter f m a = iter g m a ∧ P (iter f m a) := by
  induction m generalizing a with
  | zero => exact ⟨rfl, ha⟩
  | succ m ih =>
      simp only [iter]
      rw [← hfg a ha]
      exact ih (f a) (hP a ha)


/-- the infinite coefficient sequence defined by `taylorCoeffs` -/
def tcSeq (k i : ℕ) : K := getU (taylorCoeffs fs inits t (k + 1 - inits.length)) k i

theorem tcSeq_eq {N k : ℕ} (hk : k < inits.length + N) (i : ℕ) :
    tcSeq fs inits t k i = getU (taylorCoeffs fs inits t N) k i := by
  unfold tcSeq
  exact (getU_congr (tc_getD_stable fs inits t (show k + 1 - inits.length ≤ N by omega) (by omega)) i).symm

theorem tcSeq_inits {k : ℕ} (hk : k < inits.length) (i : ℕ) : tcSeq fs inits t k i = getU inits k i := by
  rw [tcSeq_eq fs inits t (N := 0) (by omega)]; rfl

theorem evalOn_tc_eq_tcSeq (g : Expr K) (N : ℕ) (hg : g.order ≤ inits.length + N) :
    evalOn (taylorCoeffs fs inits t N) t g = eval id (tcSeq fs inits t) t g :=
  eval_congr_order _ _ _ _ g fun k i hk => (tcSeq_eq fs inits t (by omega) i).symm

/-- the recurrence for the sequence: `u_{K+j,i} = (D^j f_i)(u, t)` -/
theorem tcSeq_rec (hord : ∀ f ∈ fs, f.order ≤ inits.length) (j i : ℕ) :
    tcSeq fs inits t (inits.length + j) i
      = eval id (tcSeq fs inits t) t (iter D j (fs.getD i (const 0))) := by
  rw [tcSeq_eq fs inits t (N := j + 1) (by omega)]
  unfold getU
  rw [tc_get fs inits t hord (by omega)]
  simp only [List.getD_eq_getElem?_getD, List.getElem?_map]
  rcases h : fs[i]? with _ | f
  · simp only [Option.map_none, Option.getD_none]
    have : ∀ j, iter D j (const (0 : K)) = const 0 := by
      intro j; induction j with
      | zero => rfl
      | succ j ih => rw [iter_succ', ih]; rfl
    rw [this]; rfl
  · simp only [Option.map_some, Option.getD_some]
    refine evalOn_tc_eq_tcSeq fs inits t _ _ ?_
    have := order_iter_D_le f j
    have := hord f (List.mem_of_getElem? h)
    omega


end Jet
end Pdq
