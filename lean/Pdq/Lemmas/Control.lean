import Pdq.Model.Control
import Mathlib.Algebra.Order.Field.Basic
import Mathlib.Tactic.Linarith
import Mathlib.Tactic.Positivity

/-!
# Lemmas about the step-size controllers over an arbitrary ordered field

Abstract contracts (`CtlBounded`, `CtlPos`, `CtlShrinks`) used by the state-machine theorems, and their
proofs for the two shipped controllers `ctlI`, `ctlPI`.
-/
namespace Pdq
variable {K : Type} [Field K] [LinearOrder K] [IsStrictOrderedRing K] {σ : Type}

/-- every proposal is the attempted step times a factor inside `[fmin, fmax]` -/
def CtlBounded (c : Ctl K σ) (fmin fmax : K) : Prop :=
  ∀ dt st ep, ∃ f, fmin ≤ f ∧ f ≤ fmax ∧ (c.apply dt st ep).1 = f * dt

/-- proposals stay positive -/
def CtlPos (c : Ctl K σ) : Prop := ∀ dt st ep, 0 < dt → 0 < (c.apply dt st ep).1

/-- `Inv` is an invariant of the controller state -/
def CtlInv (c : Ctl K σ) (Inv : σ → Prop) : Prop :=
  (∀ dt, Inv (c.init dt)) ∧ ∀ dt st ep, Inv st → Inv (c.apply dt st ep).2

/-- a rejected attempt (`0 ≤ error_power < 1`) is answered by a strictly smaller proposal -/
def CtlShrinks (c : Ctl K σ) (Inv : σ → Prop) : Prop :=
  ∀ dt st ep, Inv st → 0 < dt → 0 ≤ ep → ep < 1 → (c.apply dt st ep).1 < dt

theorem clipFactor_bounds (fmin fmax r : K) (h : fmin ≤ fmax) :
    fmin ≤ clipFactor fmin fmax r ∧ clipFactor fmin fmax r ≤ fmax :=
  ⟨le_max_left _ _, max_le h (min_le_right _ _)⟩

theorem clipFactor_lt_one (fmin fmax r : K) (hm : fmin < 1) (hr : r < 1) : clipFactor fmin fmax r < 1 :=
  max_lt hm (lt_of_le_of_lt (min_le_left _ _) hr)

theorem CtlBounded.pos {c : Ctl K σ} {fmin fmax : K} (h : CtlBounded c fmin fmax) (hm : 0 < fmin) : CtlPos c := by
  intro dt st ep hdt
  obtain ⟨f, h1, _, h3⟩ := h dt st ep
  rw [h3]
  exact mul_pos (lt_of_lt_of_le hm h1) hdt

/-! ### `control_integral` -/

theorem ctlI_bounded (p : ICtlP K) (h : p.fmin ≤ p.fmax) : CtlBounded (ctlI p) p.fmin p.fmax := by
  intro dt st ep
  exact ⟨clipFactor p.fmin p.fmax (p.safety * ep), (clipFactor_bounds _ _ _ h).1, (clipFactor_bounds _ _ _ h).2, rfl⟩

theorem ctlI_inv (p : ICtlP K) : CtlInv (ctlI p) (fun _ => True) := ⟨fun _ => trivial, fun _ _ _ _ => trivial⟩

theorem ctlI_shrinks (p : ICtlP K) (_hs0 : 0 < p.safety) (hs : p.safety ≤ 1) (hm : p.fmin < 1) :
    CtlShrinks (ctlI p) (fun _ => True) := by
  intro dt st ep _ hdt hep0 hep
  have hf : clipFactor p.fmin p.fmax (p.safety * ep) < 1 := by
    apply clipFactor_lt_one _ _ _ hm
    calc p.safety * ep ≤ 1 * ep := mul_le_mul_of_nonneg_right hs hep0
      _ = ep := one_mul _
      _ < 1 := hep
  show clipFactor p.fmin p.fmax (p.safety * ep) * dt < dt
  calc clipFactor p.fmin p.fmax (p.safety * ep) * dt < 1 * dt := mul_lt_mul_of_pos_right hf hdt
    _ = dt := one_mul _

/-! ### `control_proportional_integral` -/

theorem ctlPI_bounded (pw : K → K → K) (p : PICtlP K) (h : p.fmin ≤ p.fmax) :
    CtlBounded (ctlPI pw p) p.fmin p.fmax := by
  intro dt st ep
  exact ⟨_, (clipFactor_bounds _ _ _ h).1, (clipFactor_bounds _ _ _ h).2, rfl⟩

/-- the memory `error_norm_inv_prev` starts at `1` and is only overwritten by an `error_power ≥ 1`,
hence `memory ≥ 1` is an invariant -/
theorem ctlPI_inv (pw : K → K → K) (p : PICtlP K) : CtlInv (ctlPI pw p) (fun m => 1 ≤ m) := by
  refine ⟨fun _ => le_refl _, ?_⟩
  intro dt st ep hst
  show 1 ≤ (if 1 ≤ ep then ep else st)
  split
  · assumption
  · exact hst

/-- a rejected attempt never touches the memory -/
theorem ctlPI_memory_reject (pw : K → K → K) (p : PICtlP K) (dt m ep : K) (h : ep < 1) :
    ((ctlPI pw p).apply dt m ep).2 = m := by
  show (if 1 ≤ ep then ep else m) = m
  rw [if_neg (not_le.mpr h)]

/-- an accepted attempt stores its `error_power` -/
theorem ctlPI_memory_accept (pw : K → K → K) (p : PICtlP K) (dt m ep : K) (h : ¬ ep < 1) :
    ((ctlPI pw p).apply dt m ep).2 = ep := by
  show (if 1 ≤ ep then ep else m) = ep
  rw [if_pos (not_lt.mp h)]

theorem ctlPI_shrinks (pw : K → K → K) (p : PICtlP K)
    (hs0 : 0 < p.safety) (hs : p.safety ≤ 1) (hm : p.fmin < 1)
    (hpw0 : ∀ x e, 0 ≤ x → 0 ≤ pw x e)
    (hpwI : ∀ x, 0 ≤ x → x ≤ 1 → pw x p.expI ≤ 1)
    (hpwP : ∀ x, 0 ≤ x → x ≤ 1 → pw x p.expP ≤ 1)
    (hstrict : p.safety < 1 ∨ ∀ x, 0 ≤ x → x < 1 → pw x p.expI < 1) :
    CtlShrinks (ctlPI pw p) (fun m => 1 ≤ m) := by
  intro dt m ep hmem hdt hep0 hep
  have hm0 : 0 < m := lt_of_lt_of_le one_pos hmem
  have hq0 : 0 ≤ ep / m := div_nonneg hep0 hm0.le
  have hq1 : ep / m ≤ 1 := by
    rw [div_le_one hm0]; exact le_trans hep.le hmem
  have gI0 := hpw0 ep p.expI hep0
  have gI1 := hpwI ep hep0 hep.le
  have gP0 := hpw0 (ep / m) p.expP hq0
  have gP1 := hpwP (ep / m) hq0 hq1
  have hr : p.safety * pw ep p.expI * pw (ep / m) p.expP < 1 := by
    have h1 : p.safety * pw ep p.expI < 1 := by
      rcases hstrict with h | h
      · calc p.safety * pw ep p.expI ≤ p.safety * 1 := mul_le_mul_of_nonneg_left gI1 hs0.le
          _ = p.safety := mul_one _
          _ < 1 := h
      · have := h ep hep0 hep
        calc p.safety * pw ep p.expI ≤ 1 * pw ep p.expI := mul_le_mul_of_nonneg_right hs gI0
          _ = pw ep p.expI := one_mul _
          _ < 1 := this
    have h0 : 0 ≤ p.safety * pw ep p.expI := mul_nonneg hs0.le gI0
    calc p.safety * pw ep p.expI * pw (ep / m) p.expP ≤ p.safety * pw ep p.expI * 1 :=
          mul_le_mul_of_nonneg_left gP1 h0
      _ = p.safety * pw ep p.expI := mul_one _
      _ < 1 := h1
  have hf := clipFactor_lt_one p.fmin p.fmax _ hm hr
  show clipFactor p.fmin p.fmax (p.safety * pw ep p.expI * pw (ep / m) p.expP) * dt < dt
  calc _ < 1 * dt := mul_lt_mul_of_pos_right hf hdt
    _ = dt := one_mul _

end Pdq
