import Pdq.Model.Linearize
import Pdq.Lemmas.Jet

/-!
# Pdq.Lemmas.Linearize — helper lemmas for C11

The residual program of an ODE (`Lin.odeResidual`), its total derivatives, uniqueness of the
coefficient list satisfying the Taylor recurrence.
-/
set_option linter.unusedSectionVars false

namespace Pdq.Lin
open Pdq Pdq.Expr Pdq.Jet
variable {K : Type} [Field K]

theorem odeResidual_eq (Kk : ℕ) (f : List (Expr K)) : odeResidual Kk f
    = (List.range f.length).map fun a => add (var Kk a) (neg (f.getD a (const 0))) := by
  simp [odeResidual, residualFromOde]

theorem odeResidual_length (Kk : ℕ) (f : List (Expr K)) : (odeResidual Kk f).length = f.length := by
  simp [odeResidual_eq]

theorem odeResidual_get (Kk : ℕ) (f : List (Expr K)) (a : Fin (odeResidual Kk f).length) :
    (odeResidual Kk f).get a = add (var Kk a.val) (neg (f.getD a.val (const 0))) := by
  rw [List.get_eq_getElem, List.getElem_of_eq (odeResidual_eq Kk f) a.isLt]
  simp

theorem odeResidual_getD (Kk : ℕ) (f : List (Expr K)) (a : ℕ) (ha : a < f.length) :
    (odeResidual Kk f).getD a (const 0) = add (var Kk a) (neg (f.getD a (const 0))) := by
  rw [odeResidual_eq]
  simp [List.getD_eq_getElem?_getD, ha]

theorem iter_D_residual (Kk a j : ℕ) (f : Expr K) :
    iter D j (add (var Kk a) (neg f)) = add (var (Kk + j) a) (neg (iter D j f)) := by
  induction j generalizing Kk f with
  | zero => rfl
  | succ j ih =>
      simp only [iter, D]
      rw [ih (Kk + 1) (D f)]
      congr 2; omega

/-- `taylorCoeffs` is the only coefficient list that starts with `inits` and satisfies the recurrence -/
theorem tc_unique (fs : List (Expr K)) (inits : List (List K)) (t : K) (N : ℕ)
    (hord : ∀ f ∈ fs, f.order ≤ inits.length) (c : List (List K)) (hlen : c.length = inits.length + N)
    (hinit : ∀ k < inits.length, c.getD k [] = inits.getD k [])
    (hrec : ∀ j < N, c.getD (inits.length + j) [] = fs.map fun f => evalOn c t (iter D j f)) :
    c = taylorCoeffs fs inits t N := by
  have key : ∀ k, k < inits.length + N → c.getD k [] = (taylorCoeffs fs inits t N).getD k [] := by
    intro k
    induction k using Nat.strong_induction_on with
    | _ k ih =>
      intro hk
      rcases Nat.lt_or_ge k inits.length with h | h
      · rw [hinit k h, tc_inits fs inits t N k h]
      · obtain ⟨j, rfl⟩ : ∃ j, k = inits.length + j := ⟨k - inits.length, by omega⟩
        rw [hrec j (by omega), tc_get fs inits t hord (by omega)]
        refine List.map_congr_left fun f hf => ?_
        refine evalOn_congr _ _ _ _ fun k' hk' => ?_
        have := order_iter_D_le f j
        have := hord f hf
        exact ih k' (by omega) (by omega)
  exact list_ext_getD [] (by rw [hlen, tc_length]) fun k hk => key k (by omega)




end Pdq.Lin
