import Pdq.Lemmas.Jet
import Pdq.Lemmas.Expr

/-!
# Pdq.Lemmas.Doubling — Newton doubling (`jetexpand_ode_doubling_unroll`)

* `linD`: the formal linearisation of a polynomial program; `newton`: second-order Taylor expansion
  `g(u + z·w) = g(u) + z·L_g(u; w) + z²·r`;
* truncation commutes with `linD` (`truncT_linD`), `jvpTS` is local in the tangent coefficients;
* `doubleN_spec`: one doubling step extends a correct list of `deg` normalised coefficients to
  `2·deg + 1` correct ones.
-/
set_option linter.unusedSectionVars false
open PowerSeries

namespace Pdq
open Expr
variable {K : Type}

/-- formal linearisation `L_g(u; w)`: the directional derivative of `g` at `u` in the direction `w`
(time fixed) -/
def linD {R : Type} [CommRing R] (c : K → R) (u w : ℕ → ℕ → R) (t : R) : Expr K → R
  | .const _ => 0
  | .var k i => w k i
  | .time => 0
  | .add p q => linD c u w t p + linD c u w t q
  | .mul p q => linD c u w t p * eval c u t q + eval c u t p * linD c u w t q
  | .neg p => - linD c u w t p

/-- second-order Taylor expansion of a polynomial program -/
theorem newton {R : Type} [CommRing R] (c : K → R) (u w : ℕ → ℕ → R) (t z : R) (g : Expr K) :
    ∃ r, eval c (fun k i => u k i + z * w k i) t g = eval c u t g + z * linD c u w t g + z * z * r := by
  induction g with
  | const a => exact ⟨0, by simp [eval, linD]⟩
  | var k i => exact ⟨0, by simp [eval, linD]⟩
  | time => exact ⟨0, by simp [eval, linD]⟩
  | add p q ihp ihq =>
      obtain ⟨r1, h1⟩ := ihp; obtain ⟨r2, h2⟩ := ihq
      exact ⟨r1 + r2, by simp only [eval, linD, h1, h2]; ring⟩
  | mul p q ihp ihq =>
      obtain ⟨r1, h1⟩ := ihp; obtain ⟨r2, h2⟩ := ihq
      refine ⟨linD c u w t p * linD c u w t q + r1 * (eval c u t q + z * linD c u w t q + z * z * r2)
        + (eval c u t p + z * linD c u w t p) * r2, ?_⟩
      simp only [eval, linD, h1, h2]; ring
  | neg p ih =>
      obtain ⟨r1, h1⟩ := ih
      exact ⟨-r1, by simp only [eval, linD, h1]; ring⟩

/-- `linD` is additive and homogeneous in the direction -/
theorem linD_add_mul {R : Type} [CommRing R] (c : K → R) (u w w' : ℕ → ℕ → R) (t z : R) (g : Expr K) :
    linD c u (fun k i => w k i + z * w' k i) t g = linD c u w t g + z * linD c u w' t g := by
  induction g with
  | const a => simp [linD]
  | var k i => simp [linD]
  | time => simp [linD]
  | add p q ihp ihq => simp only [linD, ihp, ihq]; ring
  | mul p q ihp ihq => simp only [linD, ihp, ihq]; ring
  | neg p ih => simp only [linD, ih]; ring

/-- `linD` reads `u`, `w` only below `order g` -/
theorem linD_congr_order {R : Type} [CommRing R] (c : K → R) (u u' w w' : ℕ → ℕ → R) (t : R) (g : Expr K)
    (hu : ∀ k i, k < g.order → u k i = u' k i) (hw : ∀ k i, k < g.order → w k i = w' k i) :
    linD c u w t g = linD c u' w' t g := by
  induction g with
  | const a => rfl
  | var k i => exact hw k i (by simp [Expr.order])
  | time => rfl
  | add p q ihp ihq =>
      simp only [linD]
      rw [ihp (fun k i hk => hu k i (by simp only [Expr.order]; omega)) (fun k i hk => hw k i (by simp only [Expr.order]; omega)),
        ihq (fun k i hk => hu k i (by simp only [Expr.order]; omega)) (fun k i hk => hw k i (by simp only [Expr.order]; omega))]
  | mul p q ihp ihq =>
      simp only [linD]
      rw [ihp (fun k i hk => hu k i (by simp only [Expr.order]; omega)) (fun k i hk => hw k i (by simp only [Expr.order]; omega)),
        ihq (fun k i hk => hu k i (by simp only [Expr.order]; omega)) (fun k i hk => hw k i (by simp only [Expr.order]; omega)),
        eval_congr_order c u u' t p (fun k i hk => hu k i (by simp only [Expr.order]; omega)),
        eval_congr_order c u u' t q (fun k i hk => hu k i (by simp only [Expr.order]; omega))]
  | neg p ih =>
      simp only [linD]
      rw [ih (fun k i hk => hu k i (by simpa [Expr.order] using hk)) (fun k i hk => hw k i (by simpa [Expr.order] using hk))]

section trunc
variable [CommRing K]

theorem truncT_zero (n : ℕ) : truncT n (0 : K⟦X⟧) = TSer.const n 0 := by
  have := truncT_C n (0 : K); simpa using this

/-- truncation commutes with the forward-mode tangent -/
theorem truncT_linD (n : ℕ) (u w : ℕ → ℕ → K⟦X⟧) (T : K⟦X⟧) (g : Expr K) :
    truncT n (linD (C (R := K)) u w T g)
      = jvpTS n (fun k i => truncT n (u k i)) (fun k i => truncT n (w k i)) (truncT n T) g := by
  have hev : ∀ p : Expr K, truncT n (eval (C (R := K)) u T p)
      = evalTS n (fun k i => truncT n (u k i)) (truncT n T) p := by
    intro p
    rw [eval_hom (truncT n) (truncT_add _) (truncT_mul _) (truncT_neg _)]
    unfold evalTS
    congr 1
    funext a; exact truncT_C n a
  induction g with
  | const a => simp [linD, jvpTS, truncT_zero]
  | var k i => rfl
  | time => simp [linD, jvpTS, truncT_zero]
  | add p q ihp ihq => simp only [linD, jvpTS, truncT_add, ihp, ihq]
  | mul p q ihp ihq => simp only [linD, jvpTS, truncT_add, truncT_mul, ihp, ihq, hev]
  | neg p ih => simp only [linD, jvpTS, truncT_neg, ih]

end trunc
/-! ### locality of truncated-series arithmetic -/

namespace TSer
variable {n : ℕ}

/-- two truncated series agree in the coefficients `0 … m` -/
def agree [Zero K] (m : ℕ) (a b : TSer n K) : Prop := ∀ j ≤ m, a.get j = b.get j

theorem agree_refl [Zero K] (m : ℕ) (a : TSer n K) : agree m a a := fun _ _ => rfl

theorem get_add [Zero K] [Add K] (a b : TSer n K) {j : ℕ} (hj : j < n) : (a + b).get j = a.get j + b.get j := by
  rw [add_def, get_ofFn_lt _ hj]
theorem get_neg [Zero K] [Neg K] (a : TSer n K) {j : ℕ} (hj : j < n) : (-a).get j = - a.get j := by
  rw [neg_def, get_ofFn_lt _ hj]
theorem get_mul [CommSemiring K] (a b : TSer n K) {j : ℕ} (hj : j < n) :
    (a * b).get j = ∑ i ∈ Finset.range (j + 1), a.get i * b.get (j - i) := by
  rw [mul_def, get_ofFn_lt _ hj, cauchy_eq]

theorem agree_add [Zero K] [Add K] {m : ℕ} (hm : m < n) {a a' b b' : TSer n K} (ha : agree m a a')
    (hb : agree m b b') : agree m (a + b) (a' + b') := fun j hj => by
  rw [get_add _ _ (by omega), get_add _ _ (by omega), ha j hj, hb j hj]
theorem agree_neg [Zero K] [Neg K] {m : ℕ} (hm : m < n) {a a' : TSer n K} (ha : agree m a a') :
    agree m (-a) (-a') := fun j hj => by
  rw [get_neg _ (by omega), get_neg _ (by omega), ha j hj]
theorem agree_mul [CommSemiring K] {m : ℕ} (hm : m < n) {a a' b b' : TSer n K} (ha : agree m a a')
    (hb : agree m b b') : agree m (a * b) (a' * b') := fun j hj => by
  rw [get_mul _ _ (by omega), get_mul _ _ (by omega)]
  refine Finset.sum_congr rfl fun i hi => ?_
  have := Finset.mem_range.mp hi
  rw [ha i (by omega), hb (j - i) (by omega)]

end TSer

section locality
variable [CommRing K] {n : ℕ}

theorem evalTS_congr_ow (S S' : ℕ → ℕ → TSer n K) (T : TSer n K) (g : Expr K)
    (hS : ∀ k i, k < g.order → i < g.width → S k i = S' k i) : evalTS n S T g = evalTS n S' T g :=
  eval_congr_ow _ _ _ _ g hS

/-- the tangent coefficients `0 … m` only depend on the coefficients `0 … m` of the tangent input -/
theorem jvpTS_agree (S S' V V' : ℕ → ℕ → TSer n K) (T : TSer n K) (m : ℕ) (hm : m < n) (g : Expr K)
    (hS : ∀ k i, k < g.order → i < g.width → S k i = S' k i)
    (hV : ∀ k i, k < g.order → i < g.width → TSer.agree m (V k i) (V' k i)) :
    TSer.agree m (jvpTS n S V T g) (jvpTS n S' V' T g) := by
  induction g with
  | const a => exact TSer.agree_refl _ _
  | var k i => exact hV k i (by simp [Expr.order]) (by simp [Expr.width])
  | time => exact TSer.agree_refl _ _
  | add p q ihp ihq =>
      simp only [jvpTS]
      exact TSer.agree_add hm
        (ihp (fun k i hk hi => hS k i (by simp only [Expr.order]; omega) (by simp only [Expr.width]; omega))
          (fun k i hk hi => hV k i (by simp only [Expr.order]; omega) (by simp only [Expr.width]; omega)))
        (ihq (fun k i hk hi => hS k i (by simp only [Expr.order]; omega) (by simp only [Expr.width]; omega))
          (fun k i hk hi => hV k i (by simp only [Expr.order]; omega) (by simp only [Expr.width]; omega)))
  | mul p q ihp ihq =>
      simp only [jvpTS]
      have hp := ihp (fun k i hk hi => hS k i (by simp only [Expr.order]; omega) (by simp only [Expr.width]; omega))
          (fun k i hk hi => hV k i (by simp only [Expr.order]; omega) (by simp only [Expr.width]; omega))
      have hq := ihq (fun k i hk hi => hS k i (by simp only [Expr.order]; omega) (by simp only [Expr.width]; omega))
          (fun k i hk hi => hV k i (by simp only [Expr.order]; omega) (by simp only [Expr.width]; omega))
      rw [evalTS_congr_ow S S' T p (fun k i hk hi => hS k i (by simp only [Expr.order]; omega) (by simp only [Expr.width]; omega)),
        evalTS_congr_ow S S' T q (fun k i hk hi => hS k i (by simp only [Expr.order]; omega) (by simp only [Expr.width]; omega))]
      exact TSer.agree_add hm (TSer.agree_mul hm hp (TSer.agree_refl _ _)) (TSer.agree_mul hm (TSer.agree_refl _ _) hq)
  | neg p ih =>
      simp only [jvpTS]
      exact TSer.agree_neg hm (ih (fun k i hk hi => hS k i (by simpa [Expr.order] using hk) (by simpa [Expr.width] using hi))
        (fun k i hk hi => hV k i (by simpa [Expr.order] using hk) (by simpa [Expr.width] using hi)))

end locality

end Pdq

namespace Pdq.Jet
open Pdq Pdq.Expr

section field
variable {K : Type} [Field K]

/-- low part `Σ_{j<deg} a_j X^j` and the shifted high part `Σ_j a_{deg+j} X^j` of a series -/
noncomputable def lowPart (deg : ℕ) (F : K⟦X⟧) : K⟦X⟧ := PowerSeries.mk fun j => if j < deg then coeff j F else 0
noncomputable def highPart (deg : ℕ) (F : K⟦X⟧) : K⟦X⟧ := PowerSeries.mk fun j => coeff (deg + j) F

theorem low_add_high (deg : ℕ) (F : K⟦X⟧) : F = lowPart deg F + X ^ deg * highPart deg F := by
  ext j
  simp only [map_add, lowPart, highPart, coeff_mk, coeff_X_pow_mul']
  by_cases h : j < deg
  · simp [h, Nat.not_le.mpr h]
  · have : deg ≤ j := Nat.le_of_not_lt h
    simp [h, this, Nat.add_sub_cancel' this]

/-- Newton step on coefficients: below `2·deg`, `g(P + X^deg W) = g(P) + X^deg · L_g(P; W)` -/
theorem newton_coeff (deg : ℕ) (U : ℕ → K⟦X⟧) (Tps : K⟦X⟧) (g : Expr K) (j : ℕ) (hj : j < 2 * deg) :
    coeff j (eval (C (R := K)) (fun _ i => U i) Tps g)
      = coeff j (eval (C (R := K)) (fun _ i => lowPart deg (U i)) Tps g)
        + if deg ≤ j then coeff (j - deg)
            (linD (C (R := K)) (fun _ i => lowPart deg (U i)) (fun _ i => highPart deg (U i)) Tps g) else 0 := by
  obtain ⟨r, hr⟩ := newton (C (R := K)) (fun _ i => lowPart deg (U i)) (fun _ i => highPart deg (U i)) Tps (X ^ deg) g
  have hU : (fun (_ : ℕ) i => U i) = fun (_ : ℕ) i => lowPart deg (U i) + X ^ deg * highPart deg (U i) := by
    funext _ i; exact low_add_high deg (U i)
  rw [hU, hr, map_add, map_add, coeff_X_pow_mul', ← pow_add, coeff_X_pow_mul']
  have : ¬ (deg + deg ≤ j) := by omega
  simp [this]


section step
variable (fs : List (Expr K)) (U : ℕ → K⟦X⟧)

/-- the `j`-th normalised coefficient vector of the curve `U` -/
noncomputable def avec (j : ℕ) : List K := tabulate fs.length fun i => coeff j (U i)
/-- the first `m` normalised coefficient vectors -/
noncomputable def tcOf (m : ℕ) : List (List K) := tabulate m (avec fs U)

theorem tcOf_length (m : ℕ) : (tcOf fs U m).length = m := by simp [tcOf]

theorem getU_tcOf {m j i : ℕ} (hj : j < m) (hi : i < fs.length) : getU (tcOf fs U m) j i = coeff j (U i) := by
  unfold getU tcOf
  rw [tabulate_getD_lt _ hj]
  unfold avec
  rw [tabulate_getD_lt _ hi]

theorem getU_emb (deg j i : ℕ) (z : List K) (hz : ∀ i, z.getD i 0 = 0) (hi : i < fs.length) :
    getU (tcOf fs U deg ++ List.replicate deg z) j i = if j < deg then coeff j (U i) else 0 := by
  by_cases h : j < deg
  · rw [if_pos h]
    unfold getU
    rw [getD_append_left _ _ _ _ (by rw [tcOf_length]; exact h)]
    exact getU_tcOf fs U h hi
  · rw [if_neg h]
    obtain ⟨l, rfl⟩ : ∃ l, j = deg + l := ⟨j - deg, by omega⟩
    unfold getU
    rw [getD_append_right' _ _ _ _ _ (tcOf_length fs U deg)]
    by_cases hl : l < deg
    · simp [List.getD_eq_getElem?_getD, hl]
      simpa [List.getD_eq_getElem?_getD] using hz i
    · simp [List.getD_eq_getElem?_getD, hl]

theorem zeros_getD (l : List K) (i : ℕ) : (l.map fun _ => (0 : K)).getD i 0 = 0 := by
  simp only [List.getD_eq_getElem?_getD, List.getElem?_map]
  rcases l[i]? with _ | x <;> rfl

variable (Tps : K⟦X⟧)

/-- `jet_embedded` on the first `deg` coefficients returns the coefficients of `f(P, T)`, `P` the
truncated curve -/
theorem jetEmbeddedN_spec (n deg : ℕ) (hw : ∀ f ∈ fs, f.width ≤ fs.length) :
    jetEmbeddedN n fs (tcOf fs U deg) (truncT n Tps)
      = tabulate n fun j => fs.map fun f =>
          coeff j (eval (C (R := K)) (fun _ i => lowPart deg (U i)) Tps f) := by
  unfold jetEmbeddedN
  simp only [tcOf_length]
  refine tabulate_congr fun j hj => ?_
  rw [List.map_map]
  refine List.map_congr_left fun f hf => ?_
  simp only [Function.comp]
  have : evalTS n (fun _ i => TSer.ofFn n fun j =>
        getU (tcOf fs U deg ++ List.replicate deg (((tcOf fs U deg).getD 0 []).map fun _ => (0 : K))) j i) (truncT n Tps) f
      = truncT n (eval (C (R := K)) (fun _ i => lowPart deg (U i)) Tps f) := by
    rw [eval_hom (truncT n) (truncT_add _) (truncT_mul _) (truncT_neg _)]
    unfold evalTS
    have hc : (fun a => truncT n (C (R := K) a)) = TSer.const n := by funext a; exact truncT_C _ a
    rw [hc]
    refine eval_congr_ow _ _ _ _ f fun k i _ hi => ?_
    refine TSer.ofFn_congr fun j _ => ?_
    rw [getU_emb fs U deg j i _ (zeros_getD _) (lt_of_lt_of_le hi (hw f hf))]
    simp [lowPart]
  rw [this, truncT_get_lt hj]

/-- the JVP of `jet_embedded` in a direction whose first `i + 1` entries are the true next
coefficients returns, at index `i`, the `i`-th coefficient of the linearisation `L_f(P; W)` -/
theorem jetEmbeddedJvpN_spec (n deg i : ℕ) (hi : i < deg) (hn : i < n) (hw : ∀ f ∈ fs, f.width ≤ fs.length)
    (v : List (List K)) (hv : ∀ j ≤ i, ∀ a < fs.length, getU v j a = coeff (deg + j) (U a)) :
    (jetEmbeddedJvpN n fs (tcOf fs U deg) v (truncT n Tps)).getD i []
      = fs.map fun f => coeff i
          (linD (C (R := K)) (fun _ a => lowPart deg (U a)) (fun _ a => highPart deg (U a)) Tps f) := by
  unfold jetEmbeddedJvpN
  simp only [tcOf_length]
  rw [tabulate_getD_lt _ hn, List.map_map]
  refine List.map_congr_left fun f hf => ?_
  simp only [Function.comp]
  have hag := jvpTS_agree
    (fun _ a => TSer.ofFn n fun j =>
        getU (tcOf fs U deg ++ List.replicate deg (((tcOf fs U deg).getD 0 []).map fun _ => (0 : K))) j a)
    (fun _ a => truncT n (lowPart deg (U a)))
    (fun _ a => TSer.ofFn n fun j => if j < deg then getU v j a else 0)
    (fun _ a => truncT n (highPart deg (U a))) (truncT n Tps) i hn f
    (fun k a _ ha => by
      refine TSer.ofFn_congr fun j _ => ?_
      rw [getU_emb fs U deg j a _ (zeros_getD _) (lt_of_lt_of_le ha (hw f hf))]
      simp [lowPart])
    (fun k a _ ha j hj => by
      rw [TSer.get_ofFn_lt _ (by omega), if_pos (by omega), truncT_get_lt (by omega),
        hv j hj a (lt_of_lt_of_le ha (hw f hf))]
      simp [highPart])
  rw [hag i (le_refl i), ← truncT_linD, truncT_get_lt hn]

end step

end field

section charzero
variable {K : Type} [Field K] [CharZero K]

theorem map_eq_tabulate {α : Type} (fs : List (Expr K)) (g : Expr K → α) :
    fs.map g = tabulate fs.length fun i => g (fs.getD i (const 0)) := by
  refine List.ext_getElem (by simp) fun i h1 h2 => ?_
  have hi : i < fs.length := by simpa using h1
  simp [tabulate, List.getD_eq_getElem?_getD, hi]

theorem vadd_tabulate (m : ℕ) (g1 g2 : ℕ → K) :
    vadd (tabulate m g1) (tabulate m g2) = tabulate m fun i => g1 i + g2 i := by
  unfold vadd tabulate
  rw [List.zipWith_map_left, List.zipWith_map_right, List.zipWith_self]

theorem vdivNat_tabulate (m k : ℕ) (g : ℕ → K) :
    vdivNat (tabulate m g) k = tabulate m fun i => g i / (k : K) := by
  unfold vdivNat tabulate
  rw [List.map_map]
  refine List.map_congr_left fun i _ => ?_
  simp [natK_eq]

theorem tabulate_append {α : Type} (m k : ℕ) (g : ℕ → α) :
    tabulate m g ++ tabulate k (fun l => g (m + l)) = tabulate (m + k) g := by
  induction k with
  | zero => simp [tabulate]
  | succ k ih => rw [tabulate_succ, ← List.append_assoc, ih, ← Nat.add_assoc, tabulate_succ]


section step
variable (fs : List (Expr K)) (U : ℕ → K⟦X⟧) (Tps : K⟦X⟧)

/-- the formal ODE in normalised coefficients: `(j+1)·a_{j+1} = [f(U, T)]_j` -/
def SolvesODE : Prop := ∀ a < fs.length, ∀ j : ℕ,
  ((j + 1 : ℕ) : K) * coeff (j + 1) (U a) = coeff j (eval (C (R := K)) (fun _ i => U i) Tps (fs.getD a (const 0)))

variable {fs U Tps}

/-- the value written by the first line of `double`: `fx[deg-1] / deg = a_deg` -/
theorem double_first (hode : SolvesODE fs U Tps) (deg : ℕ) (hdeg : 1 ≤ deg) :
    vdivNat (fs.map fun f => coeff (deg - 1) (eval (C (R := K)) (fun _ i => lowPart deg (U i)) Tps f)) deg
      = avec fs U deg := by
  rw [map_eq_tabulate, vdivNat_tabulate]
  unfold avec
  refine tabulate_congr fun a ha => ?_
  have h := hode a ha (deg - 1)
  rw [newton_coeff deg U Tps _ (deg - 1) (by omega), if_neg (by omega), add_zero,
    show deg - 1 + 1 = deg by omega] at h
  rw [← h]
  have : (deg : K) ≠ 0 := by exact_mod_cast (show deg ≠ 0 by omega)
  field_simp

/-- the value written by iteration `i` of the scan: `(fx[deg+i] + lin_i) / (i+deg+1) = a_{deg+i+1}` -/
theorem double_next (hode : SolvesODE fs U Tps) (deg i : ℕ) (hi : i < deg) :
    vdivNat (vadd (fs.map fun f => coeff (deg + i) (eval (C (R := K)) (fun _ a => lowPart deg (U a)) Tps f))
      (fs.map fun f => coeff i (linD (C (R := K)) (fun _ a => lowPart deg (U a)) (fun _ a => highPart deg (U a)) Tps f)))
      (i + deg + 1) = avec fs U (deg + (i + 1)) := by
  rw [map_eq_tabulate, map_eq_tabulate, vadd_tabulate, vdivNat_tabulate]
  unfold avec
  refine tabulate_congr fun a ha => ?_
  have h := hode a ha (deg + i)
  rw [newton_coeff deg U Tps _ (deg + i) (by omega), if_pos (by omega), Nat.add_sub_cancel_left] at h
  rw [← h, show deg + i + 1 = i + deg + 1 by omega, show deg + (i + 1) = i + deg + 1 by omega]
  have : ((i + deg + 1 : ℕ) : K) ≠ 0 := by exact_mod_cast (show i + deg + 1 ≠ 0 by omega)
  field_simp

/-- **one doubling step is exact**: from the first `deg` normalised coefficients of a formal solution
to the first `2·deg + 1` -/
theorem doubleN_spec (hode : SolvesODE fs U Tps) (hw : ∀ f ∈ fs, f.width ≤ fs.length) (deg : ℕ) (hdeg : 1 ≤ deg) :
    doubleN (2 * deg) fs (tcOf fs U deg) (truncT (2 * deg) Tps) = tcOf fs U (2 * deg + 1) := by
  unfold doubleN
  simp only [tcOf_length]
  rw [jetEmbeddedN_spec fs U Tps (2 * deg) deg hw]
  rw [tabulate_getD_lt _ (show deg - 1 < 2 * deg by omega), double_first hode deg hdeg]
  -- the scan
  set zeros : List K := ((tcOf fs U deg).getD 0 []).map fun _ => (0 : K) with hz
  set step : List (List K) → ℕ → List (List K) := fun cs i =>
    cs.set (i + 1) (vdivNat (vadd ((tabulate (2 * deg) fun j => fs.map fun f =>
        coeff j (eval (C (R := K)) (fun _ a => lowPart deg (U a)) Tps f)).getD (deg + i) [])
      ((jetEmbeddedJvpN (2 * deg) fs (tcOf fs U deg) cs.dropLast (truncT (2 * deg) Tps)).getD i [])) (i + deg + 1))
    with hstep
  have inv : ∀ m ≤ deg,
      ((List.range m).foldl step (avec fs U deg :: List.replicate deg zeros)).length = deg + 1 ∧
      ∀ l ≤ m, ((List.range m).foldl step (avec fs U deg :: List.replicate deg zeros)).getD l [] = avec fs U (deg + l) := by
    intro m
    induction m with
    | zero =>
        intro _
        refine ⟨by simp, fun l hl => ?_⟩
        have : l = 0 := by omega
        subst this; simp
    | succ m ih =>
        intro hm
        obtain ⟨hl, hag⟩ := ih (by omega)
        rw [List.range_succ, List.foldl_append]
        simp only [List.foldl_cons, List.foldl_nil]
        set cs := (List.range m).foldl step (avec fs U deg :: List.replicate deg zeros) with hcs
        have hnew : step cs m = cs.set (m + 1) (avec fs U (deg + (m + 1))) := by
          rw [hstep]
          simp only
          rw [tabulate_getD_lt _ (show deg + m < 2 * deg by omega),
            jetEmbeddedJvpN_spec fs U Tps (2 * deg) deg m (by omega) (by omega) hw cs.dropLast ?_,
            double_next hode deg m (by omega)]
          intro j hj a ha
          unfold getU
          rw [getD_dropLast _ _ _ (by omega), hag j hj]
          unfold avec
          rw [tabulate_getD_lt _ ha]
        rw [hnew]
        refine ⟨by simp [hl], fun l hl' => ?_⟩
        rcases Nat.lt_or_ge l (m + 1) with h | h
        · rw [List.getD_eq_getElem?_getD, List.getElem?_set_ne (by omega), ← List.getD_eq_getElem?_getD]
          exact hag l (by omega)
        · have : l = m + 1 := by omega
          subst this
          rw [List.getD_eq_getElem?_getD, List.getElem?_set_self (by omega)]
          rfl
  obtain ⟨hl, hag⟩ := inv deg (le_refl _)
  have hcs : (List.range deg).foldl step (avec fs U deg :: List.replicate deg zeros)
      = tabulate (deg + 1) fun l => avec fs U (deg + l) :=
    list_ext_getD [] (by simp [hl]) fun l hl' => by
      rw [hag l (by omega), tabulate_getD_lt _ (by omega)]
  rw [hcs]
  unfold tcOf
  rw [tabulate_append]
  congr 1; omega

end step

theorem dlen_pos (n : ℕ) : 1 ≤ dlen n := by cases n <;> simp [dlen]

theorem dlen_eq (n : ℕ) : dlen n = 2 ^ (n + 1) - 1 := by
  induction n with
  | zero => rfl
  | succ n ih =>
      have : 1 ≤ 2 ^ (n + 1) := Nat.one_le_two_pow
      rw [dlen, ih, pow_succ 2 (n + 1)]; omega

/-- iterating `double` from the first coefficient of a formal solution -/
theorem iter_double_spec (fs : List (Expr K)) (U : ℕ → K⟦X⟧) (Tps : K⟦X⟧) (hode : SolvesODE fs U Tps)
    (hw : ∀ f ∈ fs, f.width ≤ fs.length) (n : ℕ) :
    iter (fun tc => double fs tc (truncT (2 * tc.length) Tps)) n (tcOf fs U 1) = tcOf fs U (dlen n) := by
  induction n with
  | zero => rfl
  | succ n ih =>
      rw [iter_succ', ih]
      unfold double
      rw [tcOf_length]
      exact doubleN_spec hode hw (dlen n) (dlen_pos n)

/-- the coefficient list of `taylorCoeffs` for a first-order problem, entry by entry -/
theorem tc_eq_tabulate (fs : List (Expr K)) (u0 : List K) (t : K) (N : ℕ) (hu : u0.length = fs.length) :
    taylorCoeffs fs [u0] t N = tabulate (1 + N) fun j => tabulate fs.length fun i => tcSeq fs [u0] t j i := by
  refine list_ext_getD [] (by simp [tc_length]) fun k hk => ?_
  have hk' : k < 1 + N := by rw [tc_length] at hk; simpa [Nat.add_comm] using hk
  rw [tabulate_getD_lt _ hk']
  have hlen : ((taylorCoeffs fs [u0] t N).getD k []).length = fs.length := by
    rcases Nat.eq_zero_or_pos k with rfl | hpos
    · rw [tc_inits fs [u0] t N 0 (by simp)]; simpa using hu
    · obtain ⟨j, rfl⟩ : ∃ j, k = ([u0] : List (List K)).length + j := ⟨k - 1, by simp; omega⟩
      rw [tc_getD_stable fs [u0] t (show j + 1 ≤ N by simp at hk'; omega) (by simp), tc_succ,
        ← tc_length fs [u0] t j, getD_append_length]
      simp
  refine list_ext_getD 0 (by rw [hlen]; simp) fun i hi => ?_
  rw [hlen] at hi
  rw [tabulate_getD_lt _ hi, tcSeq_eq fs [u0] t (N := N) (by simpa [Nat.add_comm] using hk') i]
  rfl


theorem factorialScale_tcOf (fs fs' : List (Expr K)) (u0 : List K) (t : K) (m : ℕ) (hlen : fs'.length = fs.length) :
    factorialScale (tcOf fs (fun i => curve (tcSeq fs' [u0] t) 0 i) m)
      = tabulate m fun j => tabulate fs'.length fun i => tcSeq fs' [u0] t j i := by
  unfold factorialScale
  rw [tcOf_length]
  refine tabulate_congr fun j hj => ?_
  unfold tcOf
  rw [tabulate_getD_lt _ hj]
  unfold avec tabulate
  rw [List.map_map, hlen]
  refine List.map_congr_left fun i _ => ?_
  simp only [Function.comp, curve, coeff_mk, Nat.zero_add, factK_eq]
  have : (j.factorial : K) ≠ 0 := by exact_mod_cast Nat.factorial_ne_zero j
  field_simp


end charzero

end Pdq.Jet
