import Pdq.Model.ErrorEst
import Pdq.Props.C08
import Pdq.Props.C02
import Mathlib.Algebra.Order.Field.Basic
import Mathlib.Algebra.Order.AbsoluteValue.Basic
import Mathlib.Algebra.BigOperators.Field
import Mathlib.Tactic.Linarith

/-!
# Helper lemmas for C07 (`Pdq.Model.ErrorEst`)

List plumbing (`finRange`-indexed lists ↔ `Fin`-indexed functions ↔ `Finset.sum`), the model's
`absM`/`maxM`/`powN`/`factN` against Mathlib's `|·|`/`max`/`^`/`!`, and the per-slice identities.
-/
set_option linter.unusedSectionVars false
open Matrix

namespace Pdq.C07
variable {K : Type}

/-! ### lists indexed by `finRange` -/

theorem zipWith_map_finRange {β γ δ : Type} {m : Nat} (f : β → γ → δ) (g : Fin m → β) (h : Fin m → γ) :
    List.zipWith f ((List.finRange m).map g) ((List.finRange m).map h)
      = (List.finRange m).map fun i => f (g i) (h i) := by
  rw [List.zipWith_map, List.zipWith_self]

theorem sum_map_finRange [AddCommMonoid K] {m : Nat} (f : Fin m → K) :
    ((List.finRange m).map f).sum = ∑ i, f i := by
  rw [Fin.sum_univ_def]

theorem toList_eq {m : Nat} {α : Type} (v : Vec m α) : v.toList = (List.finRange m).map v.get := rfl

/-- `Forall₂` through `mapIdx` -/
theorem forall2_mapIdx {α β γ δ : Type} {R : α → β → Prop} {P : γ → δ → Prop} :
    ∀ {l : List α} {l' : List β} (f : Nat → α → γ) (g : Nat → β → δ),
      (∀ j a b, R a b → P (f j a) (g j b)) → List.Forall₂ R l l' →
      List.Forall₂ P (l.mapIdx f) (l'.mapIdx g) := by
  intro l l' f g h hl
  induction hl generalizing f g with
  | nil => simp
  | cons hab _ ih =>
    rw [List.mapIdx_cons, List.mapIdx_cons]
    exact List.Forall₂.cons (h 0 _ _ hab) (ih _ _ fun j a b r => h (j + 1) a b r)

theorem zipWith_mapIdx_map {α β γ δ : Type} (F : β → γ → δ) :
    ∀ (l : List α) (g : Nat → α → β) (h : α → γ),
      List.zipWith F (l.mapIdx g) (l.map h) = l.mapIdx fun j a => F (g j a) (h a) := by
  intro l
  induction l with
  | nil => intro g h; simp
  | cons a t ih => intro g h; simp [List.mapIdx_cons, ih]

theorem map_mapIdx' {α β γ : Type} (f : β → γ) :
    ∀ (l : List α) (g : Nat → α → β), (l.mapIdx g).map f = l.mapIdx fun j a => f (g j a) := by
  intro l
  induction l with
  | nil => intro g; simp
  | cons a t ih => intro g; simp [List.mapIdx_cons, ih]

theorem flatMap_mapIdx_single {α β γ : Type} (F : β → List γ) :
    ∀ (l : List α) (g : Nat → α → β) (x : Nat → α → γ), (∀ j t, F (g j t) = [x j t]) →
      (l.mapIdx g).flatMap F = l.mapIdx x := by
  intro l
  induction l with
  | nil => intro g x _; simp
  | cons a t ih =>
    intro g x hg
    simp only [List.mapIdx_cons, List.flatMap_cons, hg, List.singleton_append, List.cons.injEq, true_and]
    exact ih _ _ fun j t => hg (j + 1) t

theorem forall2_map_eq {α β : Type} {R : α → α → Prop} (f : α → β) (hf : ∀ a b, R a b → f a = f b) :
    ∀ {l l' : List α}, List.Forall₂ R l l' → l.map f = l'.map f := by
  intro l l' h
  induction h with
  | nil => rfl
  | cons hab _ ih => simp [hf _ _ hab, ih]

theorem forall2_flatMap_eq {α β : Type} {R : α → α → Prop} (f : α → List β) (hf : ∀ a b, R a b → f a = f b) :
    ∀ {l l' : List α}, List.Forall₂ R l l' → l.flatMap f = l'.flatMap f := by
  intro l l' h
  induction h with
  | nil => rfl
  | cons hab _ ih => simp [hf _ _ hab, ih]

theorem forall2_mapIdx_eq {α β : Type} {R : α → α → Prop} (f g : Nat → α → β)
    (hf : ∀ j a b, R a b → f j a = g j b) {l l' : List α} (h : List.Forall₂ R l l') :
    l.mapIdx f = l'.mapIdx g := by
  have := forall2_mapIdx (P := Eq) f g hf h
  rwa [List.forall₂_eq_eq_eq] at this

/-! ### the model's scalar helpers against Mathlib's -/

theorem powN_eq [Field K] (x : K) (m : Nat) : powN x m = x ^ m := by
  induction m with
  | zero => simp [powN]
  | succ m ih => simp [powN, ih, pow_succ]

theorem factN_eq (m : Nat) : factN m = m.factorial := by
  induction m with
  | zero => rfl
  | succ m ih => simp [factN, ih, Nat.factorial_succ]

theorem stepFactor2_eq [Field K] (dt : K) (m : Nat) :
    ErrorEst.stepFactor2 dt m = (dt ^ m / (m.factorial : K)) ^ 2 := by
  simp [ErrorEst.stepFactor2, powN_eq, factN_eq, pow_two]

section order
variable [Field K] [LinearOrder K] [IsStrictOrderedRing K]

theorem absM_eq (x : K) : absM x = |x| := by
  unfold absM
  split
  · next h => rw [abs_of_neg h]
  · next h => rw [abs_of_nonneg (not_lt.mp h)]

theorem maxM_eq (x y : K) : maxM x y = max x y := by
  unfold maxM
  split
  · next h => rw [max_eq_right (le_of_lt h)]
  · next h => rw [max_eq_left (not_lt.mp h)]

end order

/-! ### per-slice identities -/
section slice
variable [Field K] {k n : Nat}

/-- the extrapolation reads the transition with its scalings removed: mean `Φ m + q₀`, covariance `Q(h)` -/
theorem extrapolate_spec (s : ErrView k n K) :
    s.extrapolate.mean.toV = s.tr1.den.A.toM *ᵥ s.m0.toV + s.tr1.den.b.toV ∧
    s.extrapolate.cov.toM = s.tr1.den.Q.toM := by
  obtain ⟨h1, h2⟩ := C08.applyPt_den s.tr1 s.m0
  obtain ⟨h3, h4⟩ := C08.applyPt_spec s.tr1.den s.m0
  exact ⟨by rw [ErrView.extrapolate, h1, h3], by rw [ErrView.extrapolate, h2, h4]⟩

/-- Mahalanobis form of the model through the abstraction maps -/
theorem maha_toM (g : Gauss k K) (W : Mat k k K) (u : Vec k K) :
    g.maha W u = (u.toV - g.mean.toV) ⬝ᵥ (W.toM *ᵥ (u.toV - g.mean.toV)) := by
  simp [Gauss.maha, Mat.bilin, dot_eq]

theorem whitenedSq_toM (c : Cond k n K) (rv : Gauss n K) (W : Mat k k K) :
    c.whitenedSq rv W = (c.marg rv).mean.toV ⬝ᵥ (W.toM *ᵥ (c.marg rv).mean.toV) := by
  rw [Cond.whitenedSq, maha_toM]
  simp [Matrix.mulVec_neg]

/-- inverse certificates of a rescaled matrix -/
theorem W_scaled {S W W' : Matrix (Fin k) (Fin k) K} {a : K} (ha : a ≠ 0)
    (hW : S * W = 1) (hW' : (a • S) * W' = 1) : W' = a⁻¹ • W := by
  have h1 : S * (a • W') = 1 := by rw [Matrix.mul_smul, ← Matrix.smul_mul]; exact hW'
  have h2 : S⁻¹ = a • W' := Matrix.inv_eq_right_inv h1
  have h3 : S⁻¹ = W := Matrix.inv_eq_right_inv hW
  rw [← h3, h2, smul_smul, inv_mul_cancel₀ ha, one_smul]

end slice


/-! ## the documented quantities of one slice (used in the statements of `Pdq.Props.C07`)

`(Φ, q₀, Q) = den tr1`, `(H, b, R)` the linearisation in use. -/
section doc
variable [Field K] {k n : Nat}

/-- `m⁻ = Φ(h) m + q₀`: extrapolation of the previous **mean** -/
def predMean (s : ErrView k n K) : Fin n → K := s.tr1.den.A.toM *ᵥ s.m0.toV + s.tr1.den.b.toV

/-- `S = H Q(h) Hᵀ + R`: only the process noise of this step enters, not the previous covariance -/
def innov (s : ErrView k n K) (c : Cond k n K) : Matrix (Fin k) (Fin k) K :=
  c.A.toM * s.tr1.den.Q.toM * c.A.toMᵀ + c.Q.toM

/-- `r = H m⁻ + b` -/
def resid (s : ErrView k n K) (c : Cond k n K) : Fin k → K := c.A.toM *ᵥ predMean s + c.b.toV

/-- `rᵀ S⁻¹ r` -/
noncomputable def whitened2 (s : ErrView k n K) (c : Cond k n K) : K := resid s c ⬝ᵥ ((innov s c)⁻¹ *ᵥ resid s c)

/-- posterior covariance of the extrapolation given `H x + b + ε = 0`, for a gain `G`: `Q − G S Gᵀ` -/
def postCov (s : ErrView k n K) (c : Cond k n K) (G : Matrix (Fin n) (Fin k) K) : Matrix (Fin n) (Fin n) K :=
  s.tr1.den.Q.toM - G * innov s c * Gᵀ

theorem marg_extrapolate (s : ErrView k n K) (c : Cond k n K) :
    (c.marg s.extrapolate).mean.toV = resid s c ∧ (c.marg s.extrapolate).cov.toM = innov s c := by
  obtain ⟨h1, h2⟩ := extrapolate_spec s
  exact ⟨by rw [C08.marg_mean, h1]; rfl, by rw [C08.marg_cov, h2]; rfl⟩

/-- **local scale.** The squared whitened residual of the model is `rᵀ S⁻¹ r` for every certified inverse `W` -/
theorem wsq_spec (s : ErrView k n K) (c : Cond k n K) (hW : innov s c * s.W.toM = 1) :
    c.whitenedSq s.extrapolate s.W = whitened2 s c := by
  obtain ⟨h1, h2⟩ := marg_extrapolate s c
  have hinv : (innov s c)⁻¹ = s.W.toM := Matrix.inv_eq_right_inv hW
  rw [whitenedSq_toM, h1, whitened2, hinv]

/-- residual estimator, one slice: whitened residual and the variances `diag(H Q Hᵀ + R)` -/
theorem residualStat_spec (s : ErrView k n K) (c : Cond k n K) (hW : innov s c * s.W.toM = 1) :
    (s.residualStat c).wsq = whitened2 s c ∧
    (s.residualStat c).vars = (List.finRange k).map fun i => innov s c i i := by
  refine ⟨wsq_spec s c hW, ?_⟩
  obtain ⟨_, h2⟩ := marg_extrapolate s c
  simp only [ErrView.residualStat, toList_eq, Gauss.var, Mat.diagVec]
  apply List.map_congr_left
  intro i _
  rw [← h2]; rfl

/-- state estimator, one slice: the posterior is `N(m⁻ − G r, Q − G S Gᵀ)`; its variances on Taylor
coefficient `idx` (entries `idx·dps + a`) are what the local scale multiplies -/
theorem stateStat_spec (dps idx : Nat) (s : ErrView k n K) (c : Cond k n K)
    (hW : innov s c * s.W.toM = 1) (hidx : (idx + 1) * dps ≤ n) :
    (s.stateStat dps idx c).wsq = whitened2 s c ∧
    (s.stateStat dps idx c).vars = (List.finRange dps).map fun a =>
      postCov s c s.G.toM ⟨idx * dps + a.val, by
        have := a.isLt; nlinarith [Nat.succ_mul idx dps]⟩ ⟨idx * dps + a.val, by
        have := a.isLt; nlinarith [Nat.succ_mul idx dps]⟩ := by
  refine ⟨wsq_spec s c hW, ?_⟩
  obtain ⟨_, hc⟩ := C02.bayesZero_spec c s.extrapolate s.G
  obtain ⟨_, h2⟩ := extrapolate_spec s
  simp only [ErrView.stateStat, Vec.coeff]
  apply List.map_congr_left
  intro a _
  have hlt : idx * dps + a.val < n := by have := a.isLt; nlinarith [Nat.succ_mul idx dps]
  simp only [Vec.getN, hlt, dite_true, Gauss.var, Mat.diagVec]
  rw [postCov, innov, ← h2, ← hc]; rfl

end doc

section docOrdered
variable [Field K] [LinearOrder K] [IsStrictOrderedRing K] {k n : Nat}

theorem mean_eq (l : List K) (hl : l ≠ []) : ErrorEst.mean l = some (l.sum / (l.length : K)) := by
  cases l with
  | nil => exact absurd rfl hl
  | cons a t => simp [ErrorEst.mean]

/-- the documented weight of one entry: `e² / (atol + rtol·|ref|)²` -/
def relSq (atol rtol e2 r : K) : K := e2 / (atol + rtol * |r|) ^ 2

/-- `scale_then_rms`, error and reference of the same shape: the mean of `e_i² / (atol + rtol·|ref_i|)²` -/
theorem scaleThenRmsSq_lists (e2 ref : List K) (atol rtol : K) (hlen : e2.length = ref.length) (hne : ref ≠ []) :
    ErrorEst.scaleThenRmsSq e2 ref atol rtol
      = some ((List.zipWith (relSq atol rtol) e2 ref).sum / (ref.length : K)) := by
  have hz : List.zipWith (fun e r => e / ((atol + rtol * absM r) * (atol + rtol * absM r))) e2 ref
      = List.zipWith (relSq atol rtol) e2 ref := by
    congr 1; funext e r; rw [relSq, absM_eq, pow_two]
  have hne' : List.zipWith (relSq atol rtol) e2 ref ≠ [] := by
    intro h
    have := congrArg List.length h
    simp only [List.length_zipWith, hlen, Nat.min_self, List.length_nil] at this
    exact hne (List.length_eq_zero_iff.mp this)
  simp only [ErrorEst.scaleThenRmsSq, ErrorEst.broadcast, hlen, if_true, hz]
  rw [mean_eq _ hne']
  simp [List.length_zipWith, hlen]

/-- `scale_then_rms`, an error of shape `(1,)` broadcast against the reference (isotropic models) -/
theorem scaleThenRmsSq_single (x : K) (ref : List K) (atol rtol : K) (hne : ref ≠ []) :
    ErrorEst.scaleThenRmsSq [x] ref atol rtol
      = some ((ref.map (relSq atol rtol x)).sum / (ref.length : K)) := by
  by_cases h1 : ref.length = 1
  · obtain ⟨r, rfl⟩ := List.length_eq_one_iff.mp h1
    rw [scaleThenRmsSq_lists [x] [r] atol rtol rfl hne]
    simp
  · have hz : List.zipWith (fun e r => e / ((atol + rtol * absM r) * (atol + rtol * absM r))) (List.replicate ref.length x) ref
        = ref.map (relSq atol rtol x) := by
      have : List.replicate ref.length x = ref.map fun _ => x := by simp
      rw [this, List.zipWith_map_left, List.zipWith_self]
      apply List.map_congr_left; intro r _; rw [relSq, absM_eq, pow_two]
    have h1' : ¬ (1 = ref.length) := fun h => h1 h.symm
    have hne' : ref.map (relSq atol rtol x) ≠ [] := by simpa using hne
    simp only [ErrorEst.scaleThenRmsSq, ErrorEst.broadcast, List.length_singleton, h1', if_false, hz]
    rw [mean_eq _ hne']
    simp

theorem coeff_spec (dps j : Nat) (v : Vec n K) (hj : (j + 1) * dps ≤ n) :
    v.coeff dps j = (List.finRange dps).map fun a =>
      v.toV ⟨j * dps + a.val, by have := a.isLt; nlinarith [Nat.succ_mul j dps]⟩ := by
  simp only [Vec.coeff]
  apply List.map_congr_left
  intro a _
  have hlt : j * dps + a.val < n := by have := a.isLt; nlinarith [Nat.succ_mul j dps]
  simp [Vec.getN, hlt, Vec.toV]

/-- the documented reference of one slice on Taylor coefficient `j`: `max(|u_prev|, |u_new|)` entrywise -/
def refDoc (dps j : Nat) (s : ErrView k n K) (hj : (j + 1) * dps ≤ n) (a : Fin dps) : K :=
  max |s.m0.toV ⟨j * dps + a.val, by have := a.isLt; nlinarith [Nat.succ_mul j dps]⟩|
      |s.m1.toV ⟨j * dps + a.val, by have := a.isLt; nlinarith [Nat.succ_mul j dps]⟩|

theorem refDoc_nonneg (dps j : Nat) (s : ErrView k n K) (hj : (j + 1) * dps ≤ n) (a : Fin dps) :
    0 ≤ refDoc dps j s hj a := le_max_of_le_left (abs_nonneg _)

theorem reference_slice (dps j : Nat) (s : ErrView k n K) (hj : (j + 1) * dps ≤ n) :
    refOf (s.m0.coeff dps j) (s.m1.coeff dps j) = (List.finRange dps).map (refDoc dps j s hj) := by
  rw [refOf, coeff_spec dps j s.m0 hj, coeff_spec dps j s.m1 hj, zipWith_map_finRange]
  apply List.map_congr_left
  intro a _
  rw [maxM_eq, absM_eq, absM_eq, refDoc]

theorem reference_singleton (dps j : Nat) (s : ErrView k n K) (hj : (j + 1) * dps ≤ n) :
    ErrorEst.reference dps j [s] = (List.finRange dps).map (refDoc dps j s hj) := by
  simp [ErrorEst.reference, reference_slice dps j s hj]

/-- for `dps = 1` (isotropic, block-diagonal) the reference lists one entry per slice -/
theorem reference_dps_one (j : Nat) (vs : List (ErrView k n K)) (hj : (j + 1) * 1 ≤ n) :
    ErrorEst.reference 1 j vs = vs.map fun s => refDoc 1 j s hj 0 := by
  induction vs with
  | nil => rfl
  | cons s rest ih =>
    have h1 : ErrorEst.reference 1 j (s :: rest) = refOf (s.m0.coeff 1 j) (s.m1.coeff 1 j) ++ ErrorEst.reference 1 j rest := by
      simp [ErrorEst.reference]
    rw [h1, ih, reference_slice 1 j s hj]
    simp [List.finRange_succ]

/-- the linearisation the estimator uses for the single slice of a dense model -/
def chosen1 (cfg : ErrCfg) (lin : List (Vec n K) → Nat → Cond k n K) (s : ErrView k n K) : Cond k n K :=
  ErrorEst.chosen cfg.relin lin (ErrorEst.means [s]) 0 s

theorem residualStats_singleton (relin : Bool) (lin : List (Vec n K) → Nat → Cond k n K) (s : ErrView k n K) :
    ErrorEst.residualStats relin lin [s] = [s.residualStat (ErrorEst.chosen relin lin (ErrorEst.means [s]) 0 s)] := by
  simp [ErrorEst.residualStats]

theorem stateStats_singleton (relin : Bool) (lin : List (Vec n K) → Nat → Cond k n K) (dps idx : Nat) (s : ErrView k n K) :
    ErrorEst.stateStats relin lin dps idx [s]
      = [s.stateStat dps idx (ErrorEst.chosen relin lin (ErrorEst.means [s]) 0 s)] := by
  simp [ErrorEst.stateStats]

/-- `n = residual_order − 1 (+1 per unit step)` -/
def resPower (cfg : ErrCfg) : Nat := cfg.resOrder - 1 + (if cfg.perUnitStep then 1 else 0)

/-- `n = derivative_idx (+1 per unit step)` -/
def statePower (cfg : ErrCfg) : Nat := cfg.derivIdx + (if cfg.perUnitStep then 1 else 0)

/-- `(hⁿ/n!)²` -/
noncomputable def stepDoc (dt : K) (pw : Nat) : K := (dt ^ pw / (pw.factorial : K)) ^ 2

/-- the documented statistics of every slice of a collection -/
noncomputable def statDoc (relin : Bool) (lin : List (Vec n K) → Nat → Cond k n K) (vs : List (ErrView k n K))
    (j : Nat) (s : ErrView k n K) : SliceStat K :=
  let c := ErrorEst.chosen relin lin (ErrorEst.means vs) j s
  { wsq := whitened2 s c, vars := (List.finRange k).map fun i => innov s c i i }

/-- the documented statistics of every slice for the state estimator -/
noncomputable def stateStatDoc (relin : Bool) (lin : List (Vec n K) → Nat → Cond k n K) (dps idx : Nat)
    (hidx : (idx + 1) * dps ≤ n) (vs : List (ErrView k n K)) (j : Nat) (s : ErrView k n K) : SliceStat K :=
  let c := ErrorEst.chosen relin lin (ErrorEst.means vs) j s
  { wsq := whitened2 s c,
    vars := (List.finRange dps).map fun a =>
      postCov s c s.G.toM ⟨idx * dps + a.val, by have := a.isLt; nlinarith [Nat.succ_mul idx dps]⟩
        ⟨idx * dps + a.val, by have := a.isLt; nlinarith [Nat.succ_mul idx dps]⟩ }

end docOrdered

section congr
variable [Field K] {k n : Nat}

/-- congruence: the residual estimator is a function of the per-slice statistics and the reference -/
theorem residualStdV_congr [LT K] [DecidableLT K] (cfg : ErrCfg) (lin lin' : List (Vec n K) → Nat → Cond k n K)
    (vs vs' : List (ErrView k n K)) (dt atol rtol ρ : K)
    (h1 : ErrorEst.residualStats cfg.relin lin vs = ErrorEst.residualStats cfg.relin lin' vs')
    (h2 : ErrorEst.reference cfg.dps 0 vs = ErrorEst.reference cfg.dps 0 vs') :
    ErrorEst.residualStdV cfg lin vs dt atol rtol ρ = ErrorEst.residualStdV cfg lin' vs' dt atol rtol ρ := by
  simp only [ErrorEst.residualStdV, h1, h2]

theorem stateStdV_congr [LT K] [DecidableLT K] (cfg : ErrCfg) (lin lin' : List (Vec n K) → Nat → Cond k n K)
    (vs vs' : List (ErrView k n K)) (dt atol rtol ρ : K)
    (h1 : ErrorEst.stateStats cfg.relin lin cfg.dps cfg.derivIdx vs
        = ErrorEst.stateStats cfg.relin lin' cfg.dps cfg.derivIdx vs')
    (h2 : ErrorEst.reference cfg.dps cfg.derivIdx vs = ErrorEst.reference cfg.dps cfg.derivIdx vs') :
    ErrorEst.stateStdV cfg lin vs dt atol rtol ρ = ErrorEst.stateStdV cfg lin' vs' dt atol rtol ρ := by
  simp only [ErrorEst.stateStdV, h1, h2]

end congr

/-! ## rescaling the base output scale, slice by slice -/
section scale
variable [Field K] {k n : Nat}

/-- the unit-scale transition of a prior whose base output scale is multiplied by `c`: the process-noise
covariance is multiplied by `c²`, everything else is untouched -/
def scaledTr (c : K) (tr : PCond n n K) : PCond n n K := { tr with Q := Mat.smul (c * c) tr.Q }

theorem scaledTr_den (c : K) (tr : PCond n n K) :
    (scaledTr c tr).den.A = tr.den.A ∧ (scaledTr c tr).den.b = tr.den.b ∧
    (scaledTr c tr).den.Q.toM = (c ^ 2) • tr.den.Q.toM := by
  refine ⟨rfl, rfl, ?_⟩
  simp [scaledTr, PCond.den, pow_two]

/-- `s'` is `s` after `Λ ↦ cΛ` (certificates are whatever certifies the rescaled problem) -/
def Rescaled (c : K) (s s' : ErrView k n K) : Prop :=
  s'.tr1 = scaledTr c s.tr1 ∧ s'.m0 = s.m0 ∧ s'.m1 = s.m1 ∧ s'.cached = s.cached

theorem rescaled_slice (c : K) (s s' : ErrView k n K) (hr : Rescaled c s s') (lc : Cond k n K)
    (hR : lc.Q.toM = 0) :
    s'.extrapolate.mean = s.extrapolate.mean ∧ resid s' lc = resid s lc ∧
    innov s' lc = (c ^ 2) • innov s lc := by
  obtain ⟨htr, hm0, _, _⟩ := hr
  obtain ⟨hA, hb, hQ⟩ := scaledTr_den c s.tr1
  refine ⟨?_, ?_, ?_⟩
  · simp [ErrView.extrapolate, PCond.applyPt, htr, hm0, scaledTr]
  · simp only [resid, predMean, htr, hm0, hA, hb]
  · simp only [innov, htr, hQ, hR, add_zero, Matrix.mul_smul, Matrix.smul_mul]

/-- how the per-slice statistics transform: `wsq ↦ c⁻²·wsq`, variances `↦ c²·variances` -/
def StatScaled (a : K) (t t' : SliceStat K) : Prop :=
  t'.wsq = a⁻¹ * t.wsq ∧ t'.vars = t.vars.map fun v => a * v

theorem residualStat_scaled (c : K) (hc : c ≠ 0) (s s' : ErrView k n K) (hr : Rescaled c s s') (lc : Cond k n K)
    (hR : lc.Q.toM = 0) (hW : innov s lc * s.W.toM = 1) (hW' : innov s' lc * s'.W.toM = 1) :
    StatScaled (c ^ 2) (s.residualStat lc) (s'.residualStat lc) := by
  obtain ⟨_, hres, hS⟩ := rescaled_slice c s s' hr lc hR
  have hc2 : c ^ 2 ≠ 0 := pow_ne_zero 2 hc
  have hWs : s'.W.toM = (c ^ 2)⁻¹ • s.W.toM := W_scaled hc2 hW (hS ▸ hW')
  obtain ⟨h1, h2⟩ := marg_extrapolate s lc
  obtain ⟨h1', h2'⟩ := marg_extrapolate s' lc
  constructor
  · simp only [ErrView.residualStat, whitenedSq_toM, h1, h1', hres, hWs, Matrix.smul_mulVec, dotProduct_smul,
      smul_eq_mul]
  · obtain ⟨_, hv⟩ := residualStat_spec s lc hW
    obtain ⟨_, hv'⟩ := residualStat_spec s' lc hW'
    rw [hv, hv', hS, List.map_map]
    apply List.map_congr_left
    intro i _
    simp [Matrix.smul_apply]

theorem stateStat_scaled (dps idx : Nat) (c : K) (hc : c ≠ 0) (s s' : ErrView k n K) (hr : Rescaled c s s')
    (lc : Cond k n K) (hidx : (idx + 1) * dps ≤ n)
    (hR : lc.Q.toM = 0) (hW : innov s lc * s.W.toM = 1) (hW' : innov s' lc * s'.W.toM = 1)
    (hG : s.G.toM * innov s lc = s.tr1.den.Q.toM * lc.A.toMᵀ)
    (hG' : s'.G.toM * innov s' lc = s'.tr1.den.Q.toM * lc.A.toMᵀ) :
    StatScaled (c ^ 2) (s.stateStat dps idx lc) (s'.stateStat dps idx lc) := by
  obtain ⟨_, hres, hS⟩ := rescaled_slice c s s' hr lc hR
  have hc2 : c ^ 2 ≠ 0 := pow_ne_zero 2 hc
  have hWs : s'.W.toM = (c ^ 2)⁻¹ • s.W.toM := W_scaled hc2 hW (hS ▸ hW')
  obtain ⟨htr, _, _, _⟩ := hr
  have hQ : s'.tr1.den.Q.toM = (c ^ 2) • s.tr1.den.Q.toM := by rw [htr]; exact (scaledTr_den c s.tr1).2.2
  -- the gain is invariant
  have hGG : s'.G.toM = s.G.toM := by
    calc s'.G.toM = s'.G.toM * (innov s' lc * s'.W.toM) := by rw [hW', Matrix.mul_one]
      _ = s'.tr1.den.Q.toM * lc.A.toMᵀ * s'.W.toM := by rw [← Matrix.mul_assoc, hG']
      _ = s.tr1.den.Q.toM * lc.A.toMᵀ * s.W.toM := by
          rw [hQ, hWs, Matrix.smul_mul, Matrix.smul_mul, Matrix.mul_smul, smul_smul, mul_inv_cancel₀ hc2, one_smul]
      _ = s.G.toM * (innov s lc * s.W.toM) := by rw [← Matrix.mul_assoc, hG]
      _ = s.G.toM := by rw [hW, Matrix.mul_one]
  have hP : postCov s' lc s'.G.toM = (c ^ 2) • postCov s lc s.G.toM := by
    simp only [postCov, hGG, hS, hQ, Matrix.mul_smul, Matrix.smul_mul, smul_sub]
  obtain ⟨h1, _⟩ := marg_extrapolate s lc
  obtain ⟨h1', _⟩ := marg_extrapolate s' lc
  constructor
  · simp only [ErrView.stateStat, whitenedSq_toM, h1, h1', hres, hWs, Matrix.smul_mulVec, dotProduct_smul,
      smul_eq_mul]
  · obtain ⟨_, hv⟩ := stateStat_spec dps idx s lc hW hidx
    obtain ⟨_, hv'⟩ := stateStat_spec dps idx s' lc hW' hidx
    rw [hv, hv', hP, List.map_map]
    apply List.map_congr_left
    intro i _
    simp [Matrix.smul_apply]

/-- the squared error vector is invariant when every slice statistic transforms as `StatScaled a` -/
theorem err2Of_scaled (f : Fact) (kk : Nat) (a : K) (ha : a ≠ 0) {st st' : List (SliceStat K)}
    (h : List.Forall₂ (StatScaled a) st st') : ErrorEst.err2Of f kk st' = ErrorEst.err2Of f kk st := by
  have hcancel : ∀ (w v d : K), a⁻¹ * w / d * (a * v) = w / d * v := by
    intro w v d; field_simp
  have hsum : ∀ {l l' : List (SliceStat K)}, List.Forall₂ (StatScaled a) l l' →
      (l'.map (·.wsq)).sum = a⁻¹ * (l.map (·.wsq)).sum := by
    intro l l' hl
    induction hl with
    | nil => simp
    | cons hab _ ih => simp [hab.1, ih, mul_add]
  by_cases hk : kk = 0
  · simp [ErrorEst.err2Of, hk]
  cases f with
  | dense =>
    cases h with
    | nil => rfl
    | cons hab ht =>
      cases ht with
      | nil => simp [ErrorEst.err2Of, hk, hab.1, hab.2, List.map_map, Function.comp_def, hcancel]
      | cons _ _ => simp [ErrorEst.err2Of, hk]
  | iso =>
    cases h with
    | nil => rfl
    | cons hab ht =>
      have hs := hsum (List.Forall₂.cons hab ht)
      have hl := ht.length_eq
      simp only [ErrorEst.err2Of, hk, if_false, hs, hab.2, List.map_map, Function.comp_def, List.length_cons, hl,
        Option.some.injEq]
      apply List.map_congr_left
      intro v _
      rw [mul_div_assoc, mul_assoc, mul_left_comm _ a, ← mul_assoc a⁻¹, inv_mul_cancel₀ ha, one_mul]
  | bd =>
    simp only [ErrorEst.err2Of, hk, if_false, Option.some.injEq]
    induction h with
    | nil => rfl
    | cons hab _ ih =>
      simp only [List.flatMap_cons, ih, hab.1, hab.2, List.map_map, Function.comp_def, hcancel]

end scale

end Pdq.C07
