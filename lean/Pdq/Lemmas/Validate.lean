import Pdq.Model.Validate
/-!
# helper lemmas about the validation model (C20): tree equality, shape skeletons, sizes
-/
namespace Pdq.Validate

mutual
theorem Tree.beq_iff : ∀ (a b : Tree), a.beq b = true ↔ a = b
  | .arr s d p, .arr s' d' p' => by simp [Tree.beq, and_assoc]
  | .node k xs, .node k' xs' => by
      have := Tree.beqL_iff xs xs'
      simp [Tree.beq, this]
  | .arr .., .node .. => by simp [Tree.beq]
  | .node .., .arr .. => by simp [Tree.beq]
theorem Tree.beqL_iff : ∀ (a b : List Tree), Tree.beqL a b = true ↔ a = b
  | [], [] => by simp [Tree.beqL]
  | x :: xs, y :: ys => by
      have h1 := Tree.beq_iff x y
      have h2 := Tree.beqL_iff xs ys
      simp [Tree.beqL, h1, h2]
  | [], _ :: _ => by simp [Tree.beqL]
  | _ :: _, [] => by simp [Tree.beqL]
end

instance : DecidableEq Tree := fun a b =>
  if h : a.beq b = true then isTrue ((Tree.beq_iff a b).1 h) else isFalse (fun e => h ((Tree.beq_iff a b).2 e))

theorem Tree.eraseL_eq (xs : List Tree) : Tree.eraseL xs = xs.map Tree.erase := by
  induction xs with
  | nil => rfl
  | cons x xs ih => simp [Tree.eraseL, ih]

theorem Tree.skelL_eq (xs : List Tree) : Tree.skelL xs = xs.map Tree.skel := by
  induction xs with
  | nil => rfl
  | cons x xs ih => simp [Tree.skelL, ih]

theorem Tree.sizeL_eq (xs : List Tree) : Tree.sizeL xs = (xs.map Tree.size).sum := by
  induction xs with
  | nil => rfl
  | cons x xs ih => simp [Tree.sizeL, ih]

theorem shapeEq_iff (a b : Tree) : shapeEq a b = true ↔ a.erase = b.erase := by
  simp [shapeEq, Tree.beq_iff]

theorem structEq_iff (a b : Tree) : structEq a b = true ↔ a.skel = b.skel := by
  simp [structEq, Tree.beq_iff]

@[simp] theorem shapeEq_refl (a : Tree) : shapeEq a a = true := (shapeEq_iff a a).2 rfl
@[simp] theorem structEq_refl (a : Tree) : structEq a a = true := (structEq_iff a a).2 rfl

theorem shapeEq_symm {a b : Tree} (h : shapeEq a b = true) : shapeEq b a = true :=
  (shapeEq_iff b a).2 ((shapeEq_iff a b).1 h).symm

theorem shapeEq_trans {a b c : Tree} (h1 : shapeEq a b = true) (h2 : shapeEq b c = true) : shapeEq a c = true :=
  (shapeEq_iff a c).2 (((shapeEq_iff a b).1 h1).trans ((shapeEq_iff b c).1 h2))

/-- custom induction principle for the nested inductive -/
theorem Tree.ind {P : Tree → Prop} (harr : ∀ s d p, P (.arr s d p))
    (hnode : ∀ k xs, (∀ x ∈ xs, P x) → P (.node k xs)) : ∀ t, P t
  | .arr s d p => harr s d p
  | .node k xs => hnode k xs (fun x _hx => Tree.ind harr hnode x)
termination_by t => sizeOf t
decreasing_by
  have := List.sizeOf_lt_of_mem _hx
  simp; omega

theorem Tree.skel_erase (t : Tree) : t.erase.skel = t.skel := by
  induction t using Tree.ind with
  | harr s d p => simp [Tree.erase, Tree.skel]
  | hnode k xs ih =>
    simp only [Tree.erase, Tree.skel, Tree.eraseL_eq, Tree.skelL_eq, List.map_map]
    congr 1
    exact List.map_congr_left (fun x hx => ih x hx)

theorem Tree.size_erase (t : Tree) : t.erase.size = t.size := by
  induction t using Tree.ind with
  | harr s d p => simp [Tree.erase, Tree.size]
  | hnode k xs ih =>
    simp only [Tree.erase, Tree.size, Tree.eraseL_eq, Tree.sizeL_eq, List.map_map]
    congr 1
    exact List.map_congr_left (fun x hx => ih x hx)

/-- equal shape skeletons have equal tree structure -/
theorem structEq_of_shapeEq {a b : Tree} (h : shapeEq a b = true) : structEq a b = true := by
  rw [structEq_iff, ← Tree.skel_erase a, ← Tree.skel_erase b, (shapeEq_iff a b).1 h]

/-- … and the same number of entries -/
theorem size_eq_of_shapeEq {a b : Tree} (h : shapeEq a b = true) : a.size = b.size := by
  rw [← Tree.size_erase a, ← Tree.size_erase b, (shapeEq_iff a b).1 h]

theorem shapeEq_node {k k' : Kind} {xs ys : List Tree} :
    shapeEq (.node k xs) (.node k' ys) = true ↔ k = k' ∧ xs.map Tree.erase = ys.map Tree.erase := by
  rw [shapeEq_iff]; simp [Tree.erase, Tree.eraseL_eq]

theorem shapeEq_arr {s s' : Shape} {d d' : DType} {p p' : Bool} :
    shapeEq (.arr s d p) (.arr s' d' p') = true ↔ s = s' := by
  rw [shapeEq_iff]; simp [Tree.erase]

@[simp] theorem shapeEq_arr_node {s d p k xs} : shapeEq (.arr s d p) (.node k xs) = false := by
  rw [← Bool.not_eq_true, shapeEq_iff]; simp [Tree.erase]

@[simp] theorem shapeEq_node_arr {s d p k xs} : shapeEq (.node k xs) (.arr s d p) = false := by
  rw [← Bool.not_eq_true, shapeEq_iff]; simp [Tree.erase]

/-! ### leaves and `flatten_up_to` -/

mutual
/-- shapes and dtypes of the leaves, depth first -/
def Tree.leaves : Tree → List (Shape × DType)
  | .arr s d _ => [(s, d)]
  | .node _ xs => Tree.leavesL xs
def Tree.leavesL : List Tree → List (Shape × DType)
  | [] => []
  | x :: xs => x.leaves ++ Tree.leavesL xs
end

theorem zipUpToL_fst {xs : List Tree}
    (ih : ∀ x ∈ xs, ∀ b ps, zipUpTo x b = some ps → ps.map (·.1) = x.leaves) :
    ∀ ys ps, zipUpToL xs ys = some ps → ps.map (·.1) = Tree.leavesL xs := by
  induction xs with
  | nil =>
    intro ys ps h
    cases ys <;> simp [zipUpToL] at h
    subst h; simp [Tree.leavesL]
  | cons x xs ihx =>
    intro ys ps h
    cases ys with
    | nil => simp [zipUpToL] at h
    | cons y ys =>
      simp only [zipUpToL] at h
      cases h1 : zipUpTo x y with
      | none => simp [h1] at h
      | some a =>
        cases h2 : zipUpToL xs ys with
        | none => simp [h1, h2] at h
        | some b =>
          simp [h1, h2] at h
          subst h
          simp [Tree.leavesL, ih x (List.mem_cons_self ..) y a h1,
            ihx (fun x' hx' => ih x' (List.mem_cons_of_mem _ hx')) ys b h2]

/-- the first components of `flatten_up_to` are the leaves of the prefix tree -/
theorem zipUpTo_fst (a : Tree) : ∀ b ps, zipUpTo a b = some ps → ps.map (·.1) = a.leaves := by
  induction a using Tree.ind with
  | harr s d p => intro b ps h; simp [zipUpTo] at h; subst h; simp [Tree.leaves]
  | hnode k xs ih =>
    intro b ps h
    cases b with
    | arr s d p => simp [zipUpTo] at h
    | node k' ys =>
      simp only [zipUpTo] at h
      split at h
      · simpa [Tree.leaves] using zipUpToL_fst ih ys ps h
      · cases h

theorem zipUpToL_skel {xs : List Tree}
    (ih : ∀ x ∈ xs, ∀ b ps, zipUpTo x b = some ps → (∀ p ∈ ps, p.2.isLeaf = true) → x.skel = b.skel) :
    ∀ ys ps, zipUpToL xs ys = some ps → (∀ p ∈ ps, p.2.isLeaf = true) → xs.map Tree.skel = ys.map Tree.skel := by
  induction xs with
  | nil => intro ys ps h _; cases ys <;> simp [zipUpToL] at h; simp
  | cons x xs ihx =>
    intro ys ps h hl
    cases ys with
    | nil => simp [zipUpToL] at h
    | cons y ys =>
      simp only [zipUpToL] at h
      cases h1 : zipUpTo x y with
      | none => simp [h1] at h
      | some a =>
        cases h2 : zipUpToL xs ys with
        | none => simp [h1, h2] at h
        | some b =>
          simp [h1, h2] at h
          subst h
          simp only [List.map_cons, List.cons.injEq]
          exact ⟨ih x (List.mem_cons_self ..) y a h1 (fun p hp => hl p (List.mem_append_left _ hp)),
            ihx (fun x' hx' => ih x' (List.mem_cons_of_mem _ hx')) ys b h2 (fun p hp => hl p (List.mem_append_right _ hp))⟩

/-- if `flatten_up_to` pairs every leaf of `a` with a *leaf* of `b`, the two have the same tree structure -/
theorem zipUpTo_skel (a : Tree) : ∀ b ps, zipUpTo a b = some ps → (∀ p ∈ ps, p.2.isLeaf = true) → a.skel = b.skel := by
  induction a using Tree.ind with
  | harr s d p =>
    intro b ps h hl
    simp [zipUpTo] at h; subst h
    have := hl _ (List.mem_singleton.2 rfl)
    cases b with
    | arr => simp [Tree.skel]
    | node => simp [Tree.isLeaf] at this
  | hnode k xs ih =>
    intro b ps h hl
    cases b with
    | arr s d p => simp [zipUpTo] at h
    | node k' ys =>
      simp only [zipUpTo] at h
      split at h
      · rename_i hk; subst hk
        simp [Tree.skel, Tree.skelL_eq, zipUpToL_skel ih ys ps h hl]
      · cases h

theorem zipUpToL_erase {xs : List Tree}
    (ih : ∀ x ∈ xs, ∀ b, x.erase = b.erase → ∃ ps, zipUpTo x b = some ps ∧ ∀ p ∈ ps, ∃ d q, p.2 = .arr p.1.1 d q) :
    ∀ ys, xs.map Tree.erase = ys.map Tree.erase →
      ∃ ps, zipUpToL xs ys = some ps ∧ ∀ p ∈ ps, ∃ d q, p.2 = .arr p.1.1 d q := by
  induction xs with
  | nil => intro ys h; cases ys <;> simp at h; exact ⟨[], by simp [zipUpToL]⟩
  | cons x xs ihx =>
    intro ys h
    cases ys with
    | nil => simp at h
    | cons y ys =>
      simp only [List.map_cons, List.cons.injEq] at h
      obtain ⟨a, ha, hpa⟩ := ih x (List.mem_cons_self ..) y h.1
      obtain ⟨b, hb, hpb⟩ := ihx (fun x' hx' => ih x' (List.mem_cons_of_mem _ hx')) ys h.2
      refine ⟨a ++ b, by simp [zipUpToL, ha, hb], ?_⟩
      intro p hp
      rcases List.mem_append.1 hp with hp | hp
      · exact hpa p hp
      · exact hpb p hp

/-- a tree with the shape skeleton of `b` zips against `b` leaf by leaf with identical shapes -/
theorem zipUpTo_erase (a : Tree) : ∀ b, a.erase = b.erase →
    ∃ ps, zipUpTo a b = some ps ∧ ∀ p ∈ ps, ∃ d q, p.2 = .arr p.1.1 d q := by
  induction a using Tree.ind with
  | harr s d p =>
    intro b h
    cases b with
    | node => simp [Tree.erase] at h
    | arr s' d' p' =>
      simp [Tree.erase] at h; subst h
      exact ⟨_, rfl, by intro p hp; rw [List.mem_singleton.1 hp]; exact ⟨d', p', rfl⟩⟩
  | hnode k xs ih =>
    intro b h
    cases b with
    | arr => simp [Tree.erase] at h
    | node k' ys =>
      simp only [Tree.erase, Tree.eraseL_eq, Tree.node.injEq] at h
      obtain ⟨hk, hm⟩ := h
      subst hk
      obtain ⟨ps, hps, hp⟩ := zipUpToL_erase ih ys hm
      exact ⟨ps, by simp [zipUpTo, hps], hp⟩

end Pdq.Validate
