import Pdq.Model.GaussNewton
import Pdq.Bridge
import Mathlib.LinearAlgebra.Matrix.DotProduct
import Mathlib.LinearAlgebra.Matrix.NonsingularInverse
import Mathlib.Tactic.Abel
import Mathlib.Tactic.Linarith

/-!
# helper lemmas for C19 (Gauss–Newton): bridge lemmas for the certificates, least-squares facts
-/
set_option linter.unusedSectionVars false
open Matrix

namespace Pdq.GN
variable {K : Type} {D k r n : Nat}

section ring
variable [CommRing K]

theorem vbeq_iff_toV [DecidableEq K] (u v : Vec n K) : u.beq v = true ↔ u.toV = v.toV := by
  simp only [Vec.beq, List.all_eq_true, List.mem_finRange, forall_const, decide_eq_true_eq]
  constructor
  · intro h; funext i; exact h i
  · intro h i; exact congrFun h i

theorem normSq_eq (v : Vec n K) : normSq v = v.toV ⬝ᵥ v.toV := by
  simp [normSq, dot_eq]

theorem lstsqOk_iff [DecidableEq K] (H : Mat k r K) (rhs : Vec k K) (y : Vec r K) :
    lstsqOk H rhs y = true ↔ (H.toMᵀ * H.toM) *ᵥ y.toV = H.toMᵀ *ᵥ rhs.toV := by
  unfold lstsqOk; rw [vbeq_iff_toV]; simp

theorem minNormOk_iff [DecidableEq K] (H : Mat k r K) (y : Vec r K) (z : Vec k K) :
    minNormOk H y z = true ↔ y.toV = H.toMᵀ *ᵥ z.toV := by
  unfold minNormOk; rw [vbeq_iff_toV]; simp

theorem toM_H (p : Problem D k r K) (x : Vec D K) : (p.H x).toM = (p.J x).toM * p.L.toM := by
  simp [Problem.H]

theorem toV_rhs (p : Problem D k r K) (s : State D k K) :
    (p.rhs s).toV = s.fx.toV + (p.J s.x).toM *ᵥ (p.m.toV - s.x.toV) := by
  simp [Problem.rhs]

theorem toM_P (p : Problem D k r K) : p.P.toM = p.L.toM * p.L.toMᵀ := by
  simp [Problem.P]

/-- whatever the solver answers, the new iterate is `m − L·dy` -/
theorem bodyWith_x (p : Problem D k r K) (s : State D k K) (y : Vec r K) :
    (bodyWith p s y).x.toV = p.m.toV - p.L.toM *ᵥ y.toV := by
  simp only [bodyWith, toV_add, toV_sub, toV_mulVec]
  abel

end ring

section ordered
variable [Field K] [LinearOrder K] [IsStrictOrderedRing K]

/-- a solution of the normal equations of a *consistent* system solves the system -/
theorem normal_eq_consistent (H : Matrix (Fin k) (Fin r) K) (ρ : Fin k → K) (y y0 : Fin r → K)
    (hy : (Hᵀ * H) *ᵥ y = Hᵀ *ᵥ ρ) (h0 : H *ᵥ y0 = ρ) : H *ᵥ y = ρ := by
  have hd : (Hᵀ * H) *ᵥ (y - y0) = 0 := by
    rw [Matrix.mulVec_sub, hy, ← Matrix.mulVec_mulVec, h0, sub_self]
  have hq : (H *ᵥ (y - y0)) ⬝ᵥ (H *ᵥ (y - y0)) = 0 := by
    have := congrArg (fun v => (y - y0) ⬝ᵥ v) hd
    simp only [dotProduct_zero] at this
    rw [← Matrix.mulVec_mulVec, Matrix.dotProduct_mulVec, ← Matrix.mulVec_transpose] at this
    exact this
  have hz : H *ᵥ (y - y0) = 0 := dotProduct_self_eq_zero.mp hq
  rw [Matrix.mulVec_sub, sub_eq_zero] at hz
  rw [hz, h0]

/-- the two certificates determine the answer: the minimum-norm least-squares solution is unique, so
the exact model and LAPACK's SVD solve pick the same `dy` -/
theorem lstsq_cert_unique (H : Matrix (Fin k) (Fin r) K) (ρ : Fin k → K) (y1 y2 : Fin r → K) (z1 z2 : Fin k → K)
    (h1 : (Hᵀ * H) *ᵥ y1 = Hᵀ *ᵥ ρ) (h2 : (Hᵀ * H) *ᵥ y2 = Hᵀ *ᵥ ρ)
    (m1 : y1 = Hᵀ *ᵥ z1) (m2 : y2 = Hᵀ *ᵥ z2) : y1 = y2 := by
  have hd : (Hᵀ * H) *ᵥ (y1 - y2) = 0 := by rw [Matrix.mulVec_sub, h1, h2, sub_self]
  have hq : (H *ᵥ (y1 - y2)) ⬝ᵥ (H *ᵥ (y1 - y2)) = 0 := by
    have := congrArg (fun v => (y1 - y2) ⬝ᵥ v) hd
    simp only [dotProduct_zero] at this
    rw [← Matrix.mulVec_mulVec, Matrix.dotProduct_mulVec, ← Matrix.mulVec_transpose] at this
    exact this
  have hz : H *ᵥ (y1 - y2) = 0 := dotProduct_self_eq_zero.mp hq
  have hdz : y1 - y2 = Hᵀ *ᵥ (z1 - z2) := by rw [Matrix.mulVec_sub, ← m1, ← m2]
  have hn : (y1 - y2) ⬝ᵥ (y1 - y2) = 0 := by
    have : (y1 - y2) ⬝ᵥ (y1 - y2) = (z1 - z2) ⬝ᵥ (H *ᵥ (y1 - y2)) := by
      nth_rewrite 1 [hdz]
      rw [Matrix.mulVec_transpose, ← Matrix.dotProduct_mulVec]
    rw [this, hz, dotProduct_zero]
  exact sub_eq_zero.mp (dotProduct_self_eq_zero.mp hn)

end ordered

end Pdq.GN
