import Pdq.Model.Ravel
import Mathlib.Tactic.Ring
import Mathlib.Tactic.Linarith
import Mathlib.Data.Nat.Basic

/-! helper lemmas for C15: division / remainder of mixed-radix positions -/
namespace Pdq.Ravel

theorem divmod_pos {q b d : Nat} (hb : b < d) : (q * d + b) / d = q ∧ (q * d + b) % d = b := by
  have hd : 0 < d := Nat.lt_of_le_of_lt (Nat.zero_le _) hb
  constructor
  · rw [Nat.add_comm, Nat.add_mul_div_right _ _ hd, Nat.div_eq_of_lt hb, Nat.zero_add]
  · rw [Nat.add_comm, Nat.add_mul_mod_self_right, Nat.mod_eq_of_lt hb]

theorem div_lt_of_lt_mul' {y n d : Nat} (h : y < n * d) : y / d < n := by
  have hd : 0 < d := by
    rcases Nat.eq_zero_or_pos d with h0 | h0
    · subst h0; simp at h
    · exact h0
  exact (Nat.div_lt_iff_lt_mul hd).mpr h

theorem pos_of_lt_mul_right {y n d : Nat} (h : y < n * d) : 0 < d := by
  rcases Nat.eq_zero_or_pos d with h0 | h0
  · subst h0; simp at h
  · exact h0

theorem idx_lt {n d i a : Nat} (hi : i < n) (ha : a < d) : i * d + a < n * d := by
  calc i * d + a < i * d + d := by omega
    _ = (i + 1) * d := by ring
    _ ≤ n * d := Nat.mul_le_mul_right d hi

end Pdq.Ravel
